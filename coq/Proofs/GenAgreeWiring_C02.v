(* GOLDEN obligations of the wiring translator for C02 (generated ONCE by tools/gen_wiring_props.py,
   then committed): what each public member of cubepart.py that C02 relies on IS, as a term of
   Base/WiringExp.v.  Gen/WiringSrc.v is regenerated from /repo on every check; an edit of the
   public layer that changes one of these members breaks the lemma below (reflexivity). *)
From Coq Require Import List ZArith String.
From CC Require Import Base.WiringExp Gen.WiringSrc.
Import ListNotations.
Local Open Scope string_scope.

(* _Slice.column_unweighted_bases *)
Lemma gen_wiring_Slice_column_unweighted_bases :
  wsrc_Slice_column_unweighted_bases = Some (w_matrix_of "column_unweighted_bases").
Proof. reflexivity. Qed.

(* _Slice.column_weighted_bases *)
Lemma gen_wiring_Slice_column_weighted_bases :
  wsrc_Slice_column_weighted_bases = Some (w_matrix_of "column_weighted_bases").
Proof. reflexivity. Qed.

(* _Slice.columns_base *)
Lemma gen_wiring_Slice_columns_base :
  wsrc_Slice_columns_base = Some (WIf (WUn "not" (WAttr (WAttr (WSelf "_measures")
      "columns_unweighted_base") "is_defined")) (WSelf "column_unweighted_bases") (w_marginal_of
      "columns_unweighted_base")).
Proof. reflexivity. Qed.

(* _Slice.columns_margin *)
Lemma gen_wiring_Slice_columns_margin :
  wsrc_Slice_columns_margin = Some (WIf (WUn "not" (WAttr (WAttr (WSelf "_measures")
      "columns_weighted_base") "is_defined")) (WSelf "column_weighted_bases") (w_marginal_of
      "columns_weighted_base")).
Proof. reflexivity. Qed.

(* _Slice.min_base_size_mask *)
Lemma gen_wiring_Slice_min_base_size_mask :
  wsrc_Slice_min_base_size_mask = Some (WCall (WGlobal "MinBaseSizeMask") [WVar "self"; WSelf
      "_mask_size"] []).
Proof. reflexivity. Qed.

(* _Slice.row_unweighted_bases *)
Lemma gen_wiring_Slice_row_unweighted_bases :
  wsrc_Slice_row_unweighted_bases = Some (w_matrix_of "row_unweighted_bases").
Proof. reflexivity. Qed.

(* _Slice.row_weighted_bases *)
Lemma gen_wiring_Slice_row_weighted_bases :
  wsrc_Slice_row_weighted_bases = Some (w_matrix_of "row_weighted_bases").
Proof. reflexivity. Qed.

(* _Slice.rows_base *)
Lemma gen_wiring_Slice_rows_base :
  wsrc_Slice_rows_base = Some (WIf (WUn "not" (WAttr (WAttr (WSelf "_measures")
      "rows_unweighted_base") "is_defined")) (WSelf "row_unweighted_bases") (w_marginal_of
      "rows_unweighted_base")).
Proof. reflexivity. Qed.

(* _Slice.rows_margin *)
Lemma gen_wiring_Slice_rows_margin :
  wsrc_Slice_rows_margin = Some (WIf (WUn "not" (WAttr (WAttr (WSelf "_measures")
      "rows_weighted_base") "is_defined")) (WSelf "row_weighted_bases") (w_marginal_of
      "rows_weighted_base")).
Proof. reflexivity. Qed.

(* _Slice.table_base *)
Lemma gen_wiring_Slice_table_base :
  wsrc_Slice_table_base = Some (WIf (WAttr (WAttr (WSelf "_measures") "table_unweighted_base")
      "is_defined") (WAttr (WAttr (WSelf "_measures") "table_unweighted_base") "value") (WIf (WAttr
      (WAttr (WSelf "_measures") "columns_table_unweighted_base") "is_defined") (w_marginal_of
      "columns_table_unweighted_base") (WIf (WAttr (WAttr (WSelf "_measures")
      "rows_table_unweighted_base") "is_defined") (w_marginal_of "rows_table_unweighted_base")
      (WSelf "table_unweighted_bases")))).
Proof. reflexivity. Qed.

(* _Slice.table_margin *)
Lemma gen_wiring_Slice_table_margin :
  wsrc_Slice_table_margin = Some (WIf (WAttr (WAttr (WSelf "_measures") "table_weighted_base")
      "is_defined") (WAttr (WAttr (WSelf "_measures") "table_weighted_base") "value") (WIf (WAttr
      (WAttr (WSelf "_measures") "columns_table_weighted_base") "is_defined") (w_marginal_of
      "columns_table_weighted_base") (WIf (WAttr (WAttr (WSelf "_measures")
      "rows_table_weighted_base") "is_defined") (w_marginal_of "rows_table_weighted_base") (WSelf
      "table_weighted_bases")))).
Proof. reflexivity. Qed.

(* _Slice.table_unweighted_bases *)
Lemma gen_wiring_Slice_table_unweighted_bases :
  wsrc_Slice_table_unweighted_bases = Some (w_matrix_of "table_unweighted_bases").
Proof. reflexivity. Qed.

(* _Slice.table_weighted_bases *)
Lemma gen_wiring_Slice_table_weighted_bases :
  wsrc_Slice_table_weighted_bases = Some (w_matrix_of "table_weighted_bases").
Proof. reflexivity. Qed.

(* _Slice.table_base_range *)
Lemma gen_wiring_Slice_table_base_range :
  wsrc_Slice_table_base_range = Some (WAttr (WAttr (WSelf "_measures") "table_unweighted_bases_range")
      "value").
Proof. reflexivity. Qed.

(* _Slice.table_margin_range *)
Lemma gen_wiring_Slice_table_margin_range :
  wsrc_Slice_table_margin_range = Some (WAttr (WAttr (WSelf "_measures") "table_weighted_bases_range")
      "value").
Proof. reflexivity. Qed.

(* _Strand.min_base_size_mask *)
Lemma gen_wiring_Strand_min_base_size_mask :
  wsrc_Strand_min_base_size_mask = Some (WCmp "<" (WSelf "unweighted_bases") (WSelf "_mask_size")).
Proof. reflexivity. Qed.

(* _Strand.rows_base *)
Lemma gen_wiring_Strand_rows_base :
  wsrc_Strand_rows_base = Some (WSelf "unweighted_counts").
Proof. reflexivity. Qed.

(* _Strand.rows_margin *)
Lemma gen_wiring_Strand_rows_margin :
  wsrc_Strand_rows_margin = Some (WSelf "counts").
Proof. reflexivity. Qed.

(* _Strand.table_base_range *)
Lemma gen_wiring_Strand_table_base_range :
  wsrc_Strand_table_base_range = Some (WAttr (WAttr (WSelf "_measures") "unweighted_bases")
      "table_base_range").
Proof. reflexivity. Qed.

(* _Strand.table_margin_range *)
Lemma gen_wiring_Strand_table_margin_range :
  wsrc_Strand_table_margin_range = Some (WAttr (WAttr (WSelf "_measures") "weighted_bases")
      "table_margin_range").
Proof. reflexivity. Qed.

(* _Strand.unweighted_bases *)
Lemma gen_wiring_Strand_unweighted_bases :
  wsrc_Strand_unweighted_bases = Some (w_vector_of "unweighted_bases").
Proof. reflexivity. Qed.

(* _Strand.weighted_bases *)
Lemma gen_wiring_Strand_weighted_bases :
  wsrc_Strand_weighted_bases = Some (w_vector_of "weighted_bases").
Proof. reflexivity. Qed.

(* _Nub.table_base *)
Lemma gen_wiring_Nub_table_base :
  wsrc_Nub_table_base = Some (WAttr (WSelf "_scalar") "table_base").
Proof. reflexivity. Qed.

(* SecondOrderMeasures.column_unweighted_bases *)
Lemma gen_wiring_SecondOrderMeasures_column_unweighted_bases :
  wsrc_SecondOrderMeasures_column_unweighted_bases = Some (WCall (WGlobal "_ColumnUnweightedBases")
      [WSelf "_dimensions"; WVar "self"; WSelf "_cube_measures"] []).
Proof. reflexivity. Qed.

(* SecondOrderMeasures.column_weighted_bases *)
Lemma gen_wiring_SecondOrderMeasures_column_weighted_bases :
  wsrc_SecondOrderMeasures_column_weighted_bases = Some (WCall (WGlobal "_ColumnWeightedBases") [WSelf
      "_dimensions"; WVar "self"; WSelf "_cube_measures"] []).
Proof. reflexivity. Qed.

(* SecondOrderMeasures.columns_table_unweighted_base *)
Lemma gen_wiring_SecondOrderMeasures_columns_table_unweighted_base :
  wsrc_SecondOrderMeasures_columns_table_unweighted_base = Some (WCall (WGlobal "_MarginTableBase")
      [WSelf "_dimensions"; WVar "self"; WSelf "_cube_measures"; WAttr (WGlobal "MO") "COLUMNS";
      WAttr (WSelf "_cube_measures") "unweighted_cube_counts"] []).
Proof. reflexivity. Qed.

(* SecondOrderMeasures.columns_table_weighted_base *)
Lemma gen_wiring_SecondOrderMeasures_columns_table_weighted_base :
  wsrc_SecondOrderMeasures_columns_table_weighted_base = Some (WCall (WGlobal "_MarginTableBase")
      [WSelf "_dimensions"; WVar "self"; WSelf "_cube_measures"; WAttr (WGlobal "MO") "COLUMNS";
      WAttr (WSelf "_cube_measures") "weighted_cube_counts"] []).
Proof. reflexivity. Qed.

(* SecondOrderMeasures.columns_unweighted_base *)
Lemma gen_wiring_SecondOrderMeasures_columns_unweighted_base :
  wsrc_SecondOrderMeasures_columns_unweighted_base = Some (WCall (WGlobal "_MarginUnweightedBase")
      [WSelf "_dimensions"; WVar "self"; WSelf "_cube_measures"; WAttr (WGlobal "MO") "COLUMNS"]
      []).
Proof. reflexivity. Qed.

(* SecondOrderMeasures.columns_weighted_base *)
Lemma gen_wiring_SecondOrderMeasures_columns_weighted_base :
  wsrc_SecondOrderMeasures_columns_weighted_base = Some (WCall (WGlobal "_MarginWeightedBase") [WSelf
      "_dimensions"; WVar "self"; WSelf "_cube_measures"; WAttr (WGlobal "MO") "COLUMNS"] []).
Proof. reflexivity. Qed.

(* SecondOrderMeasures.row_unweighted_bases *)
Lemma gen_wiring_SecondOrderMeasures_row_unweighted_bases :
  wsrc_SecondOrderMeasures_row_unweighted_bases = Some (WCall (WGlobal "_RowUnweightedBases") [WSelf
      "_dimensions"; WVar "self"; WSelf "_cube_measures"] []).
Proof. reflexivity. Qed.

(* SecondOrderMeasures.row_weighted_bases *)
Lemma gen_wiring_SecondOrderMeasures_row_weighted_bases :
  wsrc_SecondOrderMeasures_row_weighted_bases = Some (WCall (WGlobal "_RowWeightedBases") [WSelf
      "_dimensions"; WVar "self"; WSelf "_cube_measures"] []).
Proof. reflexivity. Qed.

(* SecondOrderMeasures.rows_table_unweighted_base *)
Lemma gen_wiring_SecondOrderMeasures_rows_table_unweighted_base :
  wsrc_SecondOrderMeasures_rows_table_unweighted_base = Some (WCall (WGlobal "_MarginTableBase")
      [WSelf "_dimensions"; WVar "self"; WSelf "_cube_measures"; WAttr (WGlobal "MO") "ROWS"; WAttr
      (WSelf "_cube_measures") "unweighted_cube_counts"] []).
Proof. reflexivity. Qed.

(* SecondOrderMeasures.rows_table_weighted_base *)
Lemma gen_wiring_SecondOrderMeasures_rows_table_weighted_base :
  wsrc_SecondOrderMeasures_rows_table_weighted_base = Some (WCall (WGlobal "_MarginTableBase") [WSelf
      "_dimensions"; WVar "self"; WSelf "_cube_measures"; WAttr (WGlobal "MO") "ROWS"; WAttr (WSelf
      "_cube_measures") "weighted_cube_counts"] []).
Proof. reflexivity. Qed.

(* SecondOrderMeasures.rows_unweighted_base *)
Lemma gen_wiring_SecondOrderMeasures_rows_unweighted_base :
  wsrc_SecondOrderMeasures_rows_unweighted_base = Some (WCall (WGlobal "_MarginUnweightedBase") [WSelf
      "_dimensions"; WVar "self"; WSelf "_cube_measures"; WAttr (WGlobal "MO") "ROWS"] []).
Proof. reflexivity. Qed.

(* SecondOrderMeasures.rows_weighted_base *)
Lemma gen_wiring_SecondOrderMeasures_rows_weighted_base :
  wsrc_SecondOrderMeasures_rows_weighted_base = Some (WCall (WGlobal "_MarginWeightedBase") [WSelf
      "_dimensions"; WVar "self"; WSelf "_cube_measures"; WAttr (WGlobal "MO") "ROWS"] []).
Proof. reflexivity. Qed.

(* SecondOrderMeasures.table_unweighted_base *)
Lemma gen_wiring_SecondOrderMeasures_table_unweighted_base :
  wsrc_SecondOrderMeasures_table_unweighted_base = Some (WCall (WGlobal "_TableBase") [WSelf
      "_dimensions"; WVar "self"; WSelf "_cube_measures"; WAttr (WSelf "_cube_measures")
      "unweighted_cube_counts"] []).
Proof. reflexivity. Qed.

(* SecondOrderMeasures.table_unweighted_bases *)
Lemma gen_wiring_SecondOrderMeasures_table_unweighted_bases :
  wsrc_SecondOrderMeasures_table_unweighted_bases = Some (WCall (WGlobal "_TableUnweightedBases")
      [WSelf "_dimensions"; WVar "self"; WSelf "_cube_measures"] []).
Proof. reflexivity. Qed.

(* SecondOrderMeasures.table_unweighted_bases_range *)
Lemma gen_wiring_SecondOrderMeasures_table_unweighted_bases_range :
  wsrc_SecondOrderMeasures_table_unweighted_bases_range = Some (WCall (WGlobal "_TableBasesRange")
      [WSelf "_dimensions"; WVar "self"; WSelf "_cube_measures"; WAttr (WSelf "_cube_measures")
      "unweighted_cube_counts"] []).
Proof. reflexivity. Qed.

(* SecondOrderMeasures.table_weighted_base *)
Lemma gen_wiring_SecondOrderMeasures_table_weighted_base :
  wsrc_SecondOrderMeasures_table_weighted_base = Some (WCall (WGlobal "_TableBase") [WSelf
      "_dimensions"; WVar "self"; WSelf "_cube_measures"; WAttr (WSelf "_cube_measures")
      "weighted_cube_counts"] []).
Proof. reflexivity. Qed.

(* SecondOrderMeasures.table_weighted_bases *)
Lemma gen_wiring_SecondOrderMeasures_table_weighted_bases :
  wsrc_SecondOrderMeasures_table_weighted_bases = Some (WCall (WGlobal "_TableWeightedBases") [WSelf
      "_dimensions"; WVar "self"; WSelf "_cube_measures"] []).
Proof. reflexivity. Qed.

(* SecondOrderMeasures.table_weighted_bases_range *)
Lemma gen_wiring_SecondOrderMeasures_table_weighted_bases_range :
  wsrc_SecondOrderMeasures_table_weighted_bases_range = Some (WCall (WGlobal "_TableBasesRange")
      [WSelf "_dimensions"; WVar "self"; WSelf "_cube_measures"; WAttr (WSelf "_cube_measures")
      "weighted_cube_counts"] []).
Proof. reflexivity. Qed.

(* StripeMeasures.unweighted_bases *)
Lemma gen_wiring_StripeMeasures_unweighted_bases :
  wsrc_StripeMeasures_unweighted_bases = Some (WCall (WGlobal "_UnweightedBases") [WSelf
      "_rows_dimension"; WVar "self"; WSelf "_cube_measures"] []).
Proof. reflexivity. Qed.

(* StripeMeasures.weighted_bases *)
Lemma gen_wiring_StripeMeasures_weighted_bases :
  wsrc_StripeMeasures_weighted_bases = Some (WCall (WGlobal "_WeightedBases") [WSelf
      "_rows_dimension"; WVar "self"; WSelf "_cube_measures"] []).
Proof. reflexivity. Qed.
