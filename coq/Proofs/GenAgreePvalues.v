(* Proofs/GenAgreePvalues.v -- GenAgree for C12: what matrix/measure.py SAYS NOW for the four blocks of
   SecondOrderMeasures.pvalues (_Pvalues.blocks, each a call of _calculate_pval on that block of
   SecondOrderMeasures.zscores:  `if 0 in zscores.shape: return zscores`;
   2 * (1 - norm.cdf(np.abs(zscores))) ) denotes [pval_n] of Model/ZscoreP.v on the signed square of
   every z-score, for EVERY function standing for scipy's norm.cdf -- and so (Proofs/ZscorePProofs.v
   [pval_n_is_pval]) the real two-sided p-value [pval Phi z] of Proofs/ZscorePval.v the p-value
   theorems of Props/C12.v are about, whenever that function represents Phi.
   The translator is harness/translate/x_pairwise.py (term language Base/PairExp.v: [PNCdf x] is the
   environment's [pe_ncdf] of the signed square of x). *)
From Coq Require Import QArith ZArith List Bool Lia Arith String.
From CC Require Import Base.XQ Base.ListX Base.MeasureExp Base.PairExp Model.ZscoreP
     Gen.PairwiseSrc Proofs.GenAgreePairTac.
Import ListNotations.
Local Close Scope Q_scope.
Local Open Scope string_scope.
Local Open Scope nat_scope.

Definition pv_nopblk (_ : string) (_ : Z) (_ _ : nat) : list (list xq) := [].
Definition pv_nocube (_ _ : string) : mval := VErr.
Definition pv_noflag (_ : string) : bool := false.
Definition pv_nocdf (_ _ : xq) : xq := NaN.

Definition penv_pv (nr nc nrs ncs : nat) (blk : string -> nat -> nat -> list (list xq))
           (ncdf : xq -> xq) : penv :=
  mkPenv (psize nr nc nrs ncs) (sel_ix 0%Z) no_loop blk pv_nopblk pv_nocube no_pslice no_cube3
         pv_noflag pv_nocdf ncdf no_pscal no_ovrows.

(* the p-value of cell (i, j) of block (bi, bj): from the z-score the zscores measure reports there *)
Definition pv_cell (ncdf : xq -> xq) (blk : string -> nat -> nat -> list (list xq)) (bi bj i j : nat) : xq :=
  pval_n ncdf (ssq (mnth (blk "zscores" bi bj) i j)).

Ltac gen_pv :=
  punfold_srcs;
  lazymatch goal with
  | |- True => exact I
  | _ =>
      let i := fresh "i" in let j := fresh "j" in let Hi := fresh "Hi" in let Hj := fresh "Hj" in
      intros nr nc nrs ncs blk ncdf;
      cbv [penv_pv pv_nopblk pv_nocube pv_noflag pv_nocdf]; pair_eval;
      lazymatch goal with
      | |- context [Nat.eqb (?a * ?b) 0] =>
          let Hz := fresh "Hz" in
          destruct (Nat.eqb (a * b) 0) eqn:Hz; pair_eval; pcells i j Hi Hj;
          [ exfalso; exact (mul_eq0_lt _ _ _ _ Hz Hi Hj) | reflexivity ]
      end
  end.

Lemma gen_Pvalues_blocks_00 :
  match src_Pvalues_blocks_00 with
  | Some e => forall nr nc nrs ncs blk ncdf,
      pagrees_mat (penv_pv nr nc nrs ncs blk ncdf) (pev false (penv_pv nr nc nrs ncs blk ncdf) e) DR DC
                  (pv_cell ncdf blk 0 0)
  | None => True
  end.
Proof. gen_pv. Qed.

Lemma gen_Pvalues_blocks_01 :
  match src_Pvalues_blocks_01 with
  | Some e => forall nr nc nrs ncs blk ncdf,
      pagrees_mat (penv_pv nr nc nrs ncs blk ncdf) (pev false (penv_pv nr nc nrs ncs blk ncdf) e) DR DCS
                  (pv_cell ncdf blk 0 1)
  | None => True
  end.
Proof. gen_pv. Qed.

Lemma gen_Pvalues_blocks_10 :
  match src_Pvalues_blocks_10 with
  | Some e => forall nr nc nrs ncs blk ncdf,
      pagrees_mat (penv_pv nr nc nrs ncs blk ncdf) (pev false (penv_pv nr nc nrs ncs blk ncdf) e) DRS DC
                  (pv_cell ncdf blk 1 0)
  | None => True
  end.
Proof. gen_pv. Qed.

Lemma gen_Pvalues_blocks_11 :
  match src_Pvalues_blocks_11 with
  | Some e => forall nr nc nrs ncs blk ncdf,
      pagrees_mat (penv_pv nr nc nrs ncs blk ncdf) (pev false (penv_pv nr nc nrs ncs blk ncdf) e) DRS DCS
                  (pv_cell ncdf blk 1 1)
  | None => True
  end.
Proof. gen_pv. Qed.
