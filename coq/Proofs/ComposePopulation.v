(* Proofs/ComposePopulation.v -- C17 END TO END.

   Population counts of the base cells of a CAT / MR x CAT / MR slice, computed by the model from
   the tabulation of a survey:  [pop_counts] applied to the base blocks of the model's own row /
   column / table proportions of that tabulation.  For every survey with non-negative weights,

        population count (i, j) = w(row i and column j) / B * N * f

   where B is the base of the proportion picked by the categorical-date position -- rows
   categorical-date: the row base w(row i, eligible for column j); else columns categorical-date:
   the column base; else the table base -- NaN exactly when that base is 0 (N, f finite), never
   infinite.  The margin of error, for ANY standard error se whose square is the model's squared
   standard error of the SAME direction (np.sqrt is not modelled), has the square
   1.959964^2 (N f)^2 * (indicator variance over the base's respondents) / B. *)
From Coq Require Import QArith ZArith List Bool Lia Arith Setoid Morphisms.
From CC Require Import Base.XQ Base.ListX Spec.Survey Model.CubeCounts Model.Subtotals
     Model.Proportions Model.Variance Model.Population
     Proofs.CubeCountsProofs Proofs.ProportionsProofs Proofs.VarianceProofs Proofs.PopulationProofs
     Proofs.ComposeBase Proofs.ComposeProportions Proofs.ComposeVariance.
Import ListNotations.
Local Close Scope Q_scope.
Local Open Scope nat_scope.

(* what a population count must be: ratio * N * f *)
Definition pop_spec (x : xq) (c b n f : Q) : Prop :=
  match x with
  | NaN => (b == 0)%Q
  | Fin v => ~ (b == 0)%Q /\ (v == c / b * n * f)%Q
  | Inf _ => False
  end.

Lemma pop_cases (p : xq) (c b n f : Q) :
  ratio_spec p c b -> pop_spec (xmul (xmul p (Fin n)) (Fin f)) c b n f.
Proof.
  unfold ratio_spec, pop_spec. destruct p as [q|s|]; [|contradiction|].
  - intros [Hb [Hq _]]. simpl. split; [exact Hb|]. rewrite Hq. reflexivity.
  - intros Hb. exact Hb.
Qed.

Section Analysis.
  Variable S : survey.
  Variable tv : tvar.
  Variables vr : nat.
  Variable kr : kind.
  Variable mr : list bool.
  Variable vc : nat.
  Variable kc : kind.
  Variable mc : list bool.
  Variable k : nat.
  Variables rsubs csubs : list subtotal.
  Variables dn rd cd : bool.
  Variables rcd ccd : bool.            (* rows / columns dimension is categorical-date *)

  Notation nr := (nval mr).
  Notation nc := (nval mc).
  Notation Pr := (b_base (s_row_props S tv vr kr mr vc kc mc k rsubs csubs dn rd cd)).
  Notation Pc := (b_base (s_col_props S tv vr kr mr vc kc mc k rsubs csubs dn rd cd)).
  Notation Pt := (b_base (s_tab_props S tv vr kr mr vc kc mc k rsubs csubs dn)).

  (* cubepart.py::_Slice.population_counts on the base block *)
  Definition s_pop_counts (N f : xq) (dr dc : list bool) : mat :=
    pop_counts rcd ccd Pr Pc Pt N f dr dc.

  Hypothesis Ht : t_ok tv.
  Hypothesis Hr : cat_or_mr kr.
  Hypothesis Hc : cat_or_mr kc.
  Hypothesis Hk : k < t_n tv.
  Hypothesis Hwf : wf_survey S.

  Notation wc := (w_cell tv k vr kr mr vc kc mc S).
  Notation wr := (w_rowbase tv k vr kr mr vc kc mc S).
  Notation wk := (w_colbase tv k vr kr mr vc kc mc S).
  Notation wt := (w_tabbase tv k vr kr mr vc kc mc S).

  Lemma chosen_dims i : i < nr ->
    nrows (pop_choice rcd ccd Pr Pc Pt) = nr /\ ncols (pop_choice rcd ccd Pr Pc Pt) = nc.
  Proof.
    intros Hi. assert (H0 : 0 < nr) by (apply Nat.le_lt_trans with i; [apply Nat.le_0_l| exact Hi]).
    unfold pop_choice. destruct rcd; [|destruct ccd];
      unfold s_row_props, s_col_props, s_tab_props, row_proportions, col_proportions, table_proportions,
             props_of, div_blocks; cbn [b_base]; split; try apply tab2_nrows; apply tab2_ncols; exact H0.
  Qed.

  (* the proportion the code projects the population with, against the respondents *)
  Lemma chosen_proportion_cases i j : i < nr -> j < nc ->
    ratio_spec (mnth (pop_choice rcd ccd Pr Pc Pt) i j) (wc i j) (pop_choice rcd ccd (wr i j) (wk i j) (wt i j)).
  Proof.
    intros Hi Hj. unfold pop_choice. destruct rcd; [|destruct ccd].
    - apply (row_proportion_cases S tv vr kr mr vc kc mc k rsubs csubs dn rd cd Ht Hr Hc Hk Hwf i j Hi Hj).
    - apply (column_proportion_cases S tv vr kr mr vc kc mc k rsubs csubs dn rd cd Ht Hr Hc Hk Hwf i j Hi Hj).
    - apply (table_proportion_cases S tv vr kr mr vc kc mc k rsubs csubs dn Ht Hr Hc Hk Hwf i j Hi Hj).
  Qed.

  (* ---- pop_counts = P * N * f with the categorical-date dispatch, at the survey level ---- *)
  Theorem population_counts_survey (n f : Q) dr dc i j : i < nr -> j < nc ->
    nth i dr false = false -> nth j dc false = false ->
    pop_spec (mnth (s_pop_counts (Fin n) (Fin f) dr dc) i j)
             (wc i j) (pop_choice rcd ccd (wr i j) (wk i j) (wt i j)) n f.
  Proof.
    intros Hi Hj Hdr Hdc. unfold s_pop_counts.
    destruct (chosen_dims i Hi) as [N1 N2].
    rewrite (pop_counts_cell rcd ccd Pr Pc Pt (Fin n) (Fin f) dr dc i j)
      by (cbv zeta; first [rewrite N1; exact Hi| rewrite N2; exact Hj]).
    rewrite Hdr, Hdc. cbn [orb]. apply pop_cases. apply chosen_proportion_cases; assumption.
  Qed.

  (* a subtotal-difference position is NaN whatever the data *)
  Theorem population_counts_difference N f dr dc i j : i < nr -> j < nc ->
    nth i dr false || nth j dc false = true ->
    mnth (s_pop_counts N f dr dc) i j = NaN.
  Proof.
    intros Hi Hj Hd. unfold s_pop_counts. destruct (chosen_dims i Hi) as [N1 N2].
    rewrite (pop_counts_cell rcd ccd Pr Pc Pt N f dr dc i j)
      by (cbv zeta; first [rewrite N1; exact Hi| rewrite N2; exact Hj]).
    rewrite Hd. reflexivity.
  Qed.

  (* ---- margin of error ------------------------------------------------------------------ *)
  Notation Vr := (s_row_var S tv vr kr mr vc kc mc k rsubs csubs dn rd cd).
  Notation Vc := (s_col_var S tv vr kr mr vc kc mc k rsubs csubs dn rd cd).
  Notation Vt := (s_tab_var S tv vr kr mr vc kc mc k rsubs csubs dn).
  Notation Br := (s_row_bases S tv vr kr mr vc kc mc k rsubs csubs).
  Notation Bc := (s_col_bases S tv vr kr mr vc kc mc k rsubs csubs).
  Notation Bt := (s_tab_bases S tv vr kr mr vc kc mc k rsubs csubs).

  (* the model's squared standard error of the direction the code picks *)
  Definition s_chosen_stderr_sq (i j : nat) : xq :=
    pop_choice rcd ccd
      (stderr_sq (mnth (b_base Vr) i j) (mnth (b_base Br) i j))
      (stderr_sq (mnth (b_base Vc) i j) (mnth (b_base Bc) i j))
      (stderr_sq (mnth (b_base Vt) i j) (mnth (b_base Bt) i j)).

  Definition chosen_marks (i j : nat) : list VarianceProofs.resp :=
    pop_choice rcd ccd
      (marks S (rowbase_in tv k vr kr mr vc kc mc i j) (cell_in tv k vr kr mr vc kc mc i j))
      (marks S (colbase_in tv k vr kr mr vc kc mc i j) (cell_in tv k vr kr mr vc kc mc i j))
      (marks S (tabbase_in tv k vr kr mr vc kc mc i j) (cell_in tv k vr kr mr vc kc mc i j)).

  Lemma chosen_stderr_sq_cases i j : i < nr -> j < nc ->
    se_spec (s_chosen_stderr_sq i j) (chosen_marks i j) (pop_choice rcd ccd (wr i j) (wk i j) (wt i j)).
  Proof.
    intros Hi Hj. unfold s_chosen_stderr_sq, chosen_marks, pop_choice. destruct rcd; [|destruct ccd].
    - apply (row_stderr_sq_survey S tv vr kr mr vc kc mc k rsubs csubs dn rd cd Ht Hr Hc Hk Hwf i j Hi Hj).
    - apply (column_stderr_sq_survey S tv vr kr mr vc kc mc k rsubs csubs dn rd cd Ht Hr Hc Hk Hwf i j Hi Hj).
    - apply (table_stderr_sq_survey S tv vr kr mr vc kc mc k rsubs csubs dn Ht Hr Hc Hk Hwf i j Hi Hj).
  Qed.

  (* MoE^2 for any standard error [se] that squares to the model's squared standard error *)
  Theorem population_moe_sq_survey (se : xq) (n f : Q) i j : i < nr -> j < nc ->
    xsq se =x= s_chosen_stderr_sq i j ->
    let b := pop_choice rcd ccd (wr i j) (wk i j) (wt i j) in
    match xsq (moe_cell se (Fin n) (Fin f)) with
    | NaN => (b == 0)%Q
    | Fin m => ~ (b == 0)%Q /\
               (m == (1959964 # 1000000) * (1959964 # 1000000) * ((n * f) * (n * f))
                     * (spec_var (chosen_marks i j) / b))%Q
    | Inf _ => False
    end.
  Proof.
    intros Hi Hj Hse b.
    pose proof (chosen_stderr_sq_cases i j Hi Hj) as Hs. fold b in Hs.
    unfold se_spec in Hs. destruct (s_chosen_stderr_sq i j) as [s|neg|] eqn:E; [|contradiction|].
    - destruct Hs as [Hb [Hsv _]].
      destruct se as [q|neg|]; simpl in Hse; try contradiction.
      unfold moe_cell, Population.Z975, xsq. simpl. split; [exact Hb|].
      rewrite <- Hsv, <- Hse. ring.
    - destruct se as [q|neg|]; simpl in Hse; try contradiction. simpl. exact Hs.
  Qed.
End Analysis.
