(* GenAgreeCubePopulation: _Measures.population_fraction, Cube.population_fraction, Cube._cube_response and
   Cube._measures as generated from src/cr/cube/cube.py (Gen/CubeSrc.v) ARE the definitions of
   Model/Population.v (pop_fraction) and Model/History.v (cube_response) the theorems of C17 / C18 are
   about - for all shapes of the filter statistics, whatever else the response carries. *)
From Coq Require Import List ZArith QArith String Bool Lia Arith.
From CC Require Import Base.XQ Base.ListX Base.PyList Base.PyJson Model.CubeCounts Model.DimType
  Model.Population Model.PyCube Gen.CubeSrc Proofs.GenAgreeCubeLib Proofs.GenAgreeCubeBase.
Import ListNotations.
Local Close Scope Q_scope.
Local Open Scope Z_scope.
Local Open Scope string_scope.

Definition filter_keys : list string := ["filter_stats"; "filtered"; "unfiltered"].

(* a response whose result carries the filter statistics [r] and anything else [pre] *)
Definition fshape_response (pre : list (string * json)) (r : fshape) : json :=
  JDict [("result", JDict (pre ++ fshape_items r))].

(*@ C17 *)
Lemma gen_cube_Measures_population_fraction :
  match src__Measures_population_fraction with
  | Some f => forall X pre r dims idx, lacks_keys pre filter_keys ->
      outcome_of (f X (mkPyMeasures (fshape_response pre r) dims idx)) = pop_fraction r
  | None => True end.
Proof.
  unfold src__Measures_population_fraction.
  first [exact I |
  gen_open;
  unfold fshape_response;
  cbn [pm_cube_dict py_getitem_str py_dict_get String.eqb Ascii.eqb Bool.eqb pres_of_option pbind py_get];
  rewrite !(lacks_get pre filter_keys) by (assumption || (simpl; tauto));
  destruct r as [[| |[[| |[| |[[| |s] [| |o]]]] [|]]] [| |[| |n]] [| |[| |d]]];
  cbn; try reflexivity;
  unfold qzero;
  repeat match goal with |- context [Qeq_bool ?a ?b] => destruct (Qeq_bool a b) end; reflexivity].
Qed.

(* Cube.population_fraction: whenever the dimensions of the response can be built at all (the cube
   evaluates them on the way), the filtered fraction of the response's statistics *)
(*@ C17 *)
Lemma gen_cube_Cube_population_fraction :
  match src_Cube_population_fraction, src_Cube__all_dimensions with
  | Some f, Some g => forall X pre r tr idx pop mask dims, lacks_keys pre filter_keys ->
      g X (mkPyCube (fshape_response pre r) tr idx pop mask) = POk dims ->
      outcome_of (f X (mkPyCube (fshape_response pre r) tr idx pop mask)) = pop_fraction r
  | _, _ => True end.
Proof.
  unfold src_Cube_population_fraction.
  generalize gen_cube_Cube__measures gen_cube_Cube__cube_response gen_cube_Measures_population_fraction.
  unfold src_Cube__measures.
  src_cases; (intros Hm Hr Hp;
  gen_open;
  rewrite (Hm X _ (fshape_response pre r) dims (Hr X (fshape_response pre r) _ _ _ _) H0);
  cbn [pbind pc_cube_idx_arg]; rewrite pbind_ret; apply Hp; assumption).
Qed.
