(* Proofs/GenAgreeScaleStrandMedian.v -- GenAgree tie of stripe/measure.py::_ScaledCounts.scale_median
   (np.nan_to_num(..).astype("int64"), np.repeat, np.median) to Model/Scale.v's [strand_scale_median]
   (property C14): None when no category has a value, None when nobody is counted in a valued category
   (as repaired by 2ba43316), otherwise the middle of the sorted expansion.  For every strand whose
   counts are non-negative or NaN and whose numeric values are finite or NaN. *)
From Coq Require Import QArith ZArith List Bool Lia Arith String ZifyBool Setoid Morphisms.
From CC Require Import Base.XQ Base.ListX Base.VecExp Spec.Stats Model.Scale
     Proofs.GenAgreeVecTac Proofs.GenAgreeScaleTac Proofs.GenAgreeScaleMedian Proofs.GenAgreeScaleStrand
     Gen.StripeScaleSrc.
Import ListNotations.
Local Close Scope Q_scope.
Local Open Scope string_scope.
Local Open Scope nat_scope.

(* ---- sorting and the middle, on finite lists -------------------------------------------------- *)
Lemma xleb_fin x y : xleb (Fin x) (Fin y) = Qle_bool x y.
Proof.
  unfold xleb, xltb. destruct (Qlt_le_dec y x) as [L|L]; simpl.
  - symmetry. destruct (Qle_bool x y) eqn:E; [|reflexivity]. apply Qle_bool_iff in E. exfalso. apply (Qlt_not_le _ _ L E).
  - symmetry. apply Qle_bool_iff. exact L.
Qed.

Lemma xq_ins_fin x l : xq_ins (Fin x) (map Fin l) = map Fin (qinsert x l).
Proof.
  induction l as [|y l IH]; [reflexivity|]. cbn [map xq_ins qinsert]. rewrite xleb_fin.
  destruct (Qle_bool x y); [reflexivity|]. cbn [map]. rewrite IH. reflexivity.
Qed.
Lemma xq_sort_fin l : xq_sort (map Fin l) = map Fin (qsort l).
Proof.
  unfold xq_sort, qsort. induction l as [|x l IH]; [reflexivity|]. cbn [map fold_right]. rewrite IH. apply xq_ins_fin.
Qed.

Lemma median_sorted_fin (s : list Q) : List.length s <> 0 ->
  median_sorted (map Fin s) = Fin (middle s).
Proof.
  intros Hn. unfold median_sorted, middle. rewrite map_length.
  destruct (Nat.even (List.length s)) eqn:E.
  - assert (H2 : 2 <= List.length s).
    { destruct (List.length s) as [|[|n]]; [lia|discriminate E|lia]. }
    assert (Hd : List.length s / 2 < List.length s) by (apply Nat.div_lt; lia).
    rewrite !vnth_map_fin by lia. reflexivity.
  - assert (Hd : List.length s / 2 < List.length s) by (apply Nat.div_lt; lia).
    rewrite vnth_map_fin by lia. reflexivity.
Qed.

(* ---- the expansion ----------------------------------------------------------------------------- *)
Lemma trunc_list (qs : list Q) : Forall (fun c => 0 <= c)%Q qs ->
  opt_all (map trunc_nat (map Fin qs)) = Some (map (fun q => trunc_count (Fin q)) qs).
Proof.
  induction 1 as [|q qs Hq H IH]; [reflexivity|]. cbn [map opt_all]. rewrite IH.
  unfold trunc_nat. apply qneg_false in Hq. rewrite Hq. reflexivity.
Qed.

Lemma trunc_count_num a : trunc_count (Fin (nan_to_num a)) = trunc_count a.
Proof. reflexivity. Qed.

Lemma expand_pairs (vp : list (xq * xq)) :
  Forall (fun vc => exists q, fst vc = Fin q) vp ->
  repeat_each (map fst vp) (map (fun q => trunc_count (Fin q)) (map nan_to_num (map snd vp)))
  = map Fin (flat_map (fun vc => repeat (nan_to_num (fst vc)) (trunc_count (snd vc))) vp).
Proof.
  unfold repeat_each. induction 1 as [|[v c] vp [q Hq] H IH]; [reflexivity|].
  cbn [map fst snd combine flat_map] in *. subst v. rewrite map_app, <- IH. f_equal.
  cbn [nan_to_num]. rewrite trunc_count_num.
  generalize (trunc_count c). intros n. induction n as [|n IHn]; [reflexivity|].
  change (repeat (Fin q) (S n)) with (Fin q :: repeat (Fin q) n).
  change (repeat q (S n)) with (q :: repeat q n). cbn [map]. rewrite IHn. reflexivity.
Qed.

Lemma valued_pairs_fin vals counts : Forall finite_or_nan vals ->
  Forall (fun vc => exists q, fst vc = Fin q) (valued_pairs vals counts).
Proof.
  unfold valued_pairs. intros H. apply Forall_forall. intros [v c] Hin. apply filter_In in Hin.
  destruct Hin as [Hin Hv]. apply in_combine_l in Hin. simpl in *.
  rewrite Forall_forall in H. specialize (H v Hin). destruct v as [q|s|]; [exists q; reflexivity|contradiction|discriminate].
Qed.

Lemma valued_pairs_nonneg vals counts : Forall nonneg_count counts ->
  Forall nonneg_count (map snd (valued_pairs vals counts)).
Proof.
  unfold valued_pairs. intros H. apply Forall_forall. intros c Hin. apply in_map_iff in Hin.
  destruct Hin as [[v c'] [E Hin]]. simpl in E. subst c'. apply filter_In in Hin. destruct Hin as [Hin _].
  apply in_combine_r in Hin. rewrite Forall_forall in H. apply H. exact Hin.
Qed.

Lemma qinsert_length x l : List.length (qinsert x l) = S (List.length l).
Proof. induction l as [|y l IH]; [reflexivity|]. simpl. destruct (Qle_bool x y); simpl; [reflexivity|rewrite IH; reflexivity]. Qed.
Lemma qsort_length l : List.length (qsort l) = List.length l.
Proof. unfold qsort. induction l as [|x l IH]; [reflexivity|]. cbn [fold_right]. rewrite qinsert_length, IH. reflexivity. Qed.

Lemma forallb_is_fin (l : list Q) : forallb is_fin (map Fin l) = true.
Proof. induction l; simpl; auto. Qed.

Lemma gen_stripe_ScaledCounts_scale_median :
  match vssrc_ScaledCounts_scale_median with
  | Some e => forall vals counts srt, List.length counts = List.length vals ->
      Forall finite_or_nan vals -> Forall nonneg_count counts ->
      veval (env_strand vals counts srt) e = opt_val (strand_scale_median counts vals)
  | None => True
  end.
Proof.
  unfold_vsrcs; try exact I.
  all: intros vals counts srt Hlen Hfin Hnn.
  all: unfold env_strand.
  all: vstage1.
  all: change (v_array (VV vals)) with (VV vals).
  all: change (v_invert (v_isnan (VV vals))) with (VBV (map negb (map is_nan vals))).
  all: assert (E1 : v_item (VV vals) (VBV (map negb (map is_nan vals))) = VV (map fst (valued_pairs vals counts)))
         by (unfold v_item; rewrite !map_length, Nat.eqb_refl, (mask_take_vals_fst vals counts Hlen); reflexivity).
  all: assert (E2 : v_item (VV counts) (VBV (map negb (map is_nan vals))) = VV (map snd (valued_pairs vals counts)))
         by (unfold v_item; rewrite !map_length; replace (List.length vals =? List.length counts) with true by lia;
             rewrite (mask_take_counts_snd vals counts Hlen); reflexivity).
  all: rewrite !E1, !E2.
  all: unfold strand_scale_median, expand_valued.
  all: pose proof (valued_pairs_fin vals counts Hfin) as Hvf.
  all: pose proof (valued_pairs_nonneg vals counts Hnn) as Hvn.
  all: set (vp := valued_pairs vals counts) in *.
  all: rewrite (nan_to_num_list _ Hvn).
  all: unfold v_astype_int; rewrite (trunc_list _ (nonneg_num _ Hvn)).
  all: unfold v_repeat; rewrite !map_length, Nat.eqb_refl.
  all: rewrite (expand_pairs vp Hvf).
  all: set (ex := flat_map (fun vc => repeat (nan_to_num (fst vc)) (trunc_count (snd vc))) vp) in *.
  all: destruct vp as [|p vp']; [reflexivity|].
  all: cbn [map v_size List.length v_cmp cmp_z].
  all: replace (Z.of_nat (S (List.length (map fst vp'))) =? 0)%Z with false by lia.
  all: rewrite v_if_false.
  all: rewrite map_length.
  all: destruct ex as [|x ex'] eqn:Eex; [reflexivity|].
  all: replace (Z.of_nat (List.length (x :: ex')) =? 0)%Z with false by (cbn [List.length]; lia).
  all: rewrite v_if_false.
  all: unfold v_median.
  all: rewrite map_length, forallb_is_fin.
  all: cbn [List.length Nat.eqb orb negb].
  all: rewrite xq_sort_fin, median_sorted_fin.
  all: [> reflexivity | rewrite qsort_length; cbn [List.length]; lia ].
Qed.
