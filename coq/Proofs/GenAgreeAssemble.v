(* Proofs/GenAgreeAssemble.v -- the terms harness/translate/x_assemble.py reads from the ASSEMBLY step of
   src/cr/cube/cubepart.py (Gen/AssembleSrc.v, meaning: Base/AsmExp.v) denote, for ALL sizes and ALL
   in-range signed orders, the definitions of Model/Assemble.v the theorems of C05 / C10 are about:

     _Slice._assemble_matrix              = [assemble]      (np.block + np.ix_, negative-index wrap-around)
     _Slice._assemble_marginal            = None when undefined, else [assemble_vec] with the ROW order for a
                                            ROWS marginal and the COLUMN order otherwise
     _Strand._assemble_vector             = [assemble_vec] with the strand's order
     row_/column_ labels, codes, aliases  = [assemble_vec] of (element attribute ++ subtotal attribute) of
                                            dimension 0 with the row order / dimension 1 with the column order
     rows_dimension_fills                 = [fills_of]
     inserted_*_idxs                      = [inserted_idxs]
     derived_*_idxs / diff_*_idxs         = [derived_idxs_slice] / [derived_idxs_strand] / [diff_idxs]
     _row_/_column_order_signed_indexes   = the matrix row / column factory, the stripe factory, SIGNED format

   and cell by cell the block selected by the signs ([block_cell], [vec_cell] of Proofs/AssembleProofs.v).
   An index outside -n_subtotals .. n_elements-1 is an IndexError in numpy ([VErr] here), where the model is
   total: hence the in-range hypotheses. *)
From Coq Require Import List ZArith Bool Lia Arith String.
From CC Require Import Base.AsmExp Model.Assemble Proofs.AssembleProofs Gen.AssembleSrc.
Import ListNotations.
Local Close Scope Z_scope.
Local Open Scope string_scope.
Local Open Scope nat_scope.

(* ------------------------------------------------------------------------------------ *)
(** * standard environments *)

Section Envs.
Context {A : Type}.

Fixpoint ins_of (l : list (string * aval A)) (x : string) : aval A :=
  match l with
  | [] => VErr
  | (k, v) :: t => if String.eqb k x then v else ins_of t x
  end.

(* a slice: the matrix row factory gives [ro], the matrix column factory [co], both only in the SIGNED
   format; nothing else is there *)
Definition slice_orders (ro co : list Z) (f : ofun) (m : ofmt) : aval A :=
  match f, m with
  | FMatrixRow, FmtSigned => VInts ro
  | FMatrixColumn, FmtSigned => VInts co
  | _, _ => VErr
  end.
(* a strand: the stripe factory (a tuple of ints, made an int array by np.array(.., dtype=int)) *)
Definition strand_orders (so : list Z) (f : ofun) (m : ofmt) : aval A :=
  match f, m with
  | FStripe, FmtSigned => VInts so
  | _, _ => VErr
  end.

Definition no_flag : string -> bool := fun _ => false.
Definition no_enum : string -> string * string := fun _ => ("", "").

Definition env_slice (ins : list (string * aval A)) (ro co : list Z) : aenv A :=
  mkAenv (ins_of ins) no_flag no_enum (slice_orders ro co).
Definition env_strand (ins : list (string * aval A)) (so : list Z) : aenv A :=
  mkAenv (ins_of ins) no_flag no_enum (strand_orders so).

(* `blocks` of a matrix measure: [[base, subtotal columns], [subtotal rows, intersections]] *)
Definition blocks_val (n m p q : nat) (B : blocks A) : aval A :=
  VSeq [VSeq [VMat n p (b_base B); VMat n q (b_scols B)];
        VSeq [VMat m p (b_srows B); VMat m q (b_inter B)]].
(* `blocks` of a marginal / of a strand measure: [base values, subtotal values] *)
Definition vblocks_val (base subs : list A) : aval A := VSeq [VVec base; VVec subs].

(* a marginal object: is_defined, orientation, blocks *)
Definition env_marginal (defined rows : bool) (base subs : list A) (ro co : list Z) : aenv A :=
  mkAenv (ins_of [("marginal.blocks", vblocks_val base subs)])
         (fun x => if String.eqb x "marginal.is_defined" then defined else false)
         (fun x => if String.eqb x "marginal.orientation"
                   then ("MARGINAL_ORIENTATION", if rows then "ROWS" else "COLUMNS") else ("", ""))
         (slice_orders ro co).

(* a dimension seen through one pair of attribute lists (elements, subtotals) *)
Definition dim_attr (dim ea sa : string) (base subs : list A) : list (string * aval A) :=
  [(dim ++ "." ++ ea, VList base); (dim ++ "." ++ sa, VList subs)].
End Envs.

(* ------------------------------------------------------------------------------------ *)
(** * numpy indexing = the model's *)

Lemma wrap_in_range nsub nel z :
  in_range nsub nel z -> wrap (nel + nsub) z = Some (pyidx (nel + nsub) z).
Proof.
  unfold in_range, wrap, pyidx. intros R.
  destruct (z <? 0)%Z eqn:E.
  - destruct (- Z.of_nat (nel + nsub) <=? z)%Z eqn:F; [reflexivity|]. apply Z.leb_gt in F. lia.
  - apply Z.ltb_ge in E. destruct (z <? Z.of_nat (nel + nsub))%Z eqn:F; [reflexivity|].
    apply Z.ltb_ge in F. lia.
Qed.

Lemma omap_ext_in {X Y} (f : X -> option Y) (g : X -> Y) l :
  (forall x, In x l -> f x = Some (g x)) -> omap f l = Some (map g l).
Proof.
  induction l as [|x t IH]; intros H; simpl; [reflexivity|].
  rewrite (H x (or_introl eq_refl)). rewrite IH by (intros y Hy; apply H; right; exact Hy). reflexivity.
Qed.

Lemma zip_rows_hstack {A} (a b : list (list A)) :
  List.length a = List.length b -> zip_rows A a b = hstack a b.
Proof.
  revert b. induction a as [|x a IH]; intros [|y b] H; simpl in *; try lia; [reflexivity|].
  f_equal. apply IH. lia.
Qed.

Lemma positions_from_eq {X} (f : X -> bool) l s :
  AsmExp.positions_from f s l = Assemble.positions_from f s l.
Proof. revert s. induction l as [|x t IH]; intros s; simpl; [reflexivity|]. rewrite !IH. reflexivity. Qed.

Lemma positions_from_map {X} (f : X -> bool) l s :
  Assemble.positions_from (fun b : bool => b) s (map f l) = Assemble.positions_from f s l.
Proof. revert s. induction l as [|x t IH]; intros s; simpl; [reflexivity|]. rewrite !IH. reflexivity. Qed.

Section Core.
Context {A : Type} (d : A).

(* a[order] on the 1-D array base ++ subs *)
Lemma take_signed base subs order :
  Forall (in_range (List.length subs) (List.length base)) order ->
  take A d (base ++ subs) order = Some (assemble_vec d base subs order).
Proof.
  intros F. unfold take, assemble_vec. apply omap_ext_in. intros z Hz.
  rewrite Forall_forall in F. rewrite app_length.
  rewrite (wrap_in_range _ _ z (F z Hz)). reflexivity.
Qed.

Lemma index_vec base subs order :
  Forall (in_range (List.length subs) (List.length base)) order ->
  index_val A d (VVec (base ++ subs)) (VInts order) = VVec (assemble_vec d base subs order).
Proof. intros F. unfold index_val. rewrite (take_signed base subs order F). reflexivity. Qed.

(* np.block of the four blocks *)
Lemma block_of_blocks n m p q (B : blocks A) :
  wf_blocks n m p q B ->
  np_block_val A (blocks_val n m p q B) = VMat (n + m) (p + q) (np_block B).
Proof.
  intros (Wb & Wc & Wr & Wi). unfold blocks_val, np_block_val, np_block.
  cbn [map forallb is_mat andb join_all fold_left hjoin2].
  rewrite !Nat.eqb_refl. cbn [vjoin2]. rewrite Nat.eqb_refl.
  rewrite !zip_rows_hstack; [reflexivity| |].
  - destruct Wr, Wi; lia.
  - destruct Wb, Wc; lia.
Qed.

(* M[np.ix_(ro, co)] *)
Lemma index_mesh n m p q (M : list (list A)) ro co :
  Forall (in_range m n) ro -> Forall (in_range q p) co ->
  index_val A d (VMat (n + m) (p + q) M) (VMesh ro co)
  = VMat (List.length ro) (List.length co) (ix d (n + m) (p + q) M ro co).
Proof.
  intros Fr Fc. unfold index_val.
  rewrite (omap_ext_in (wrap (n + m)) (pyidx (n + m)) ro)
    by (intros z Hz; rewrite Forall_forall in Fr; apply wrap_in_range; apply Fr; exact Hz).
  rewrite (omap_ext_in (wrap (p + q)) (pyidx (p + q)) co)
    by (intros z Hz; rewrite Forall_forall in Fc; apply wrap_in_range; apply Fc; exact Hz).
  unfold ix, gnth. rewrite map_map. f_equal. apply map_ext. intros r. rewrite map_map. reflexivity.
Qed.
End Core.

(* ------------------------------------------------------------------------------------ *)
(** * matrices, marginals, strand vectors *)

Lemma gen_Slice__assemble_matrix :
  match asm_Slice__assemble_matrix with
  | Some e => forall (A : Type) (d : A) lit truthy n m p q (B : blocks A) ro co,
      wf_blocks n m p q B -> Forall (in_range m n) ro -> Forall (in_range q p) co ->
      aeval A d lit truthy (env_slice [("blocks", blocks_val n m p q B)] ro co) e
      = VMat (List.length ro) (List.length co) (assemble d n m p q B ro co)
  | None => True
  end.
Proof.
  unfold asm_Slice__assemble_matrix.
  lazymatch goal with
  | |- True => exact I
  | _ => intros A d lit truthy n m p q B ro co W Fr Fc;
         cbn [aeval env_slice e_in e_order ins_of String.eqb Ascii.eqb Bool.eqb slice_orders];
         rewrite ?(block_of_blocks n m p q B W); rewrite ?(index_mesh d n m p q _ ro co Fr Fc);
         reflexivity
  end.
Qed.

(* cell (i, j) of the assembled matrix is the cell of the block named by the signs of ro[i], co[j] *)
Lemma gen_Slice__assemble_matrix_cell :
  match asm_Slice__assemble_matrix with
  | Some e => forall (A : Type) (d : A) lit truthy n m p q (B : blocks A) ro co,
      wf_blocks n m p q B -> Forall (in_range m n) ro -> Forall (in_range q p) co ->
      exists M, aeval A d lit truthy (env_slice [("blocks", blocks_val n m p q B)] ro co) e
                = VMat (List.length ro) (List.length co) M /\
                forall i j, i < List.length ro -> j < List.length co ->
                  gnth d M i j = block_cell d m q B (nth i ro 0%Z) (nth j co 0%Z)
  | None => True
  end.
Proof.
  pose proof gen_Slice__assemble_matrix as G.
  destruct asm_Slice__assemble_matrix as [e|]; [|exact I].
  intros A d lit truthy n m p q B ro co W Fr Fc.
  exists (assemble d n m p q B ro co). split; [apply G; assumption|].
  intros i j Hi Hj. apply assemble_cell; auto.
  - rewrite Forall_forall in Fr. apply Fr. apply nth_In. exact Hi.
  - rewrite Forall_forall in Fc. apply Fc. apply nth_In. exact Hj.
Qed.

Ltac asm_vec d base subs :=
  cbn [aeval ceval env_slice env_strand env_marginal e_in e_flag e_enum e_order ins_of dim_attr vblocks_val
       String.eqb Ascii.eqb Bool.eqb slice_orders strand_orders fst snd negb andb app String.append
       np_hstack_val np_concat_val np_block_val cat_vecs];
  rewrite ?app_nil_r.

Lemma gen_Slice__assemble_marginal :
  match asm_Slice__assemble_marginal with
  | Some e => forall (A : Type) (d : A) lit truthy (defined rows : bool) base subs ro co,
      Forall (in_range (List.length subs) (List.length base)) (if rows then ro else co) ->
      aeval A d lit truthy (env_marginal defined rows base subs ro co) e
      = if defined then VVec (assemble_vec d base subs (if rows then ro else co)) else VNone
  | None => True
  end.
Proof.
  unfold asm_Slice__assemble_marginal.
  lazymatch goal with
  | |- True => exact I
  | _ => intros A d lit truthy defined rows base subs ro co F;
         destruct defined, rows; asm_vec d base subs;
         rewrite ?(index_vec d base subs _ F); reflexivity
  end.
Qed.

Lemma gen_Strand__assemble_vector :
  match asm_Strand__assemble_vector with
  | Some e => forall (A : Type) (d : A) lit truthy base subs so,
      Forall (in_range (List.length subs) (List.length base)) so ->
      aeval A d lit truthy (env_strand [("blocks", vblocks_val base subs)] so) e
      = VVec (assemble_vec d base subs so)
  | None => True
  end.
Proof.
  unfold asm_Strand__assemble_vector.
  lazymatch goal with
  | |- True => exact I
  | _ => intros A d lit truthy base subs so F; asm_vec d base subs;
         rewrite ?(index_vec d base subs _ F); reflexivity
  end.
Qed.

(* the two orders of a slice are the matrix ROW factory and the matrix COLUMN factory, the strand's the
   stripe factory -- each asked for the SIGNED format *)
Lemma gen_order_signed_indexes :
  (match asm_Slice__row_order_signed_indexes with
   | Some e => forall (A : Type) (d : A) lit truthy ins ro co,
       aeval A d lit truthy (env_slice ins ro co) e = VInts ro
   | None => True end) /\
  (match asm_Slice__column_order_signed_indexes with
   | Some e => forall (A : Type) (d : A) lit truthy ins ro co,
       aeval A d lit truthy (env_slice ins ro co) e = VInts co
   | None => True end) /\
  (match asm_Strand__row_order_signed_indexes with
   | Some e => forall (A : Type) (d : A) lit truthy ins so,
       aeval A d lit truthy (env_strand ins so) e = VInts so
   | None => True end).
Proof.
  unfold asm_Slice__row_order_signed_indexes, asm_Slice__column_order_signed_indexes,
    asm_Strand__row_order_signed_indexes.
  repeat split; lazymatch goal with |- True => exact I | _ => intros; reflexivity end.
Qed.

(* ------------------------------------------------------------------------------------ *)
(** * labels, codes, aliases *)

(* one statement shape: the member [src] read on dimension [dim] (attributes [ea] of the elements, [sa]
   of the subtotals) is [assemble_vec] with the row order ([rows] = true) / the column order *)
Definition labels_agree (src : option aexp) (dim ea sa : string) (rows : bool) : Prop :=
  match src with
  | Some e => forall (A : Type) (d : A) lit truthy base subs ro co,
      Forall (in_range (List.length subs) (List.length base)) (if rows then ro else co) ->
      aeval A d lit truthy (env_slice (dim_attr dim ea sa base subs) ro co) e
      = VVec (assemble_vec d base subs (if rows then ro else co))
  | None => True
  end.
Definition strand_labels_agree (src : option aexp) (ea sa : string) : Prop :=
  match src with
  | Some e => forall (A : Type) (d : A) lit truthy base subs so,
      Forall (in_range (List.length subs) (List.length base)) so ->
      aeval A d lit truthy (env_strand (dim_attr "rowsdim" ea sa base subs) so) e
      = VVec (assemble_vec d base subs so)
  | None => True
  end.

Ltac gen_labels :=
  unfold labels_agree, strand_labels_agree;
  lazymatch goal with
  | |- True => exact I
  | _ => intros A d lit truthy base subs; intros;
         asm_vec d base subs;
         lazymatch goal with
         | F : Forall _ _ |- _ => rewrite ?(index_vec d base subs _ F)
         end; reflexivity
  end.

Lemma gen_Slice_row_labels : labels_agree asm_Slice_row_labels "dim0" "element_labels" "subtotal_labels" true.
Proof. unfold asm_Slice_row_labels. gen_labels. Qed.
Lemma gen_Slice_row_codes : labels_agree asm_Slice_row_codes "dim0" "element_ids" "insertion_ids" true.
Proof. unfold asm_Slice_row_codes. gen_labels. Qed.
Lemma gen_Slice_row_aliases : labels_agree asm_Slice_row_aliases "dim0" "element_aliases" "subtotal_aliases" true.
Proof. unfold asm_Slice_row_aliases. gen_labels. Qed.
Lemma gen_Slice_column_labels :
  labels_agree asm_Slice_column_labels "dim1" "element_labels" "subtotal_labels" false.
Proof. unfold asm_Slice_column_labels. gen_labels. Qed.
Lemma gen_Slice_column_codes : labels_agree asm_Slice_column_codes "dim1" "element_ids" "insertion_ids" false.
Proof. unfold asm_Slice_column_codes. gen_labels. Qed.
Lemma gen_Slice_column_aliases :
  labels_agree asm_Slice_column_aliases "dim1" "element_aliases" "subtotal_aliases" false.
Proof. unfold asm_Slice_column_aliases. gen_labels. Qed.
Lemma gen_Strand_row_labels : strand_labels_agree asm_Strand_row_labels "element_labels" "subtotal_labels".
Proof. unfold asm_Strand_row_labels. gen_labels. Qed.
Lemma gen_Strand_row_codes : strand_labels_agree asm_Strand_row_codes "element_ids" "insertion_ids".
Proof. unfold asm_Strand_row_codes. gen_labels. Qed.
Lemma gen_Strand_row_aliases : strand_labels_agree asm_Strand_row_aliases "element_aliases" "subtotal_aliases".
Proof. unfold asm_Strand_row_aliases. gen_labels. Qed.

(* ------------------------------------------------------------------------------------ *)
(** * fills *)

(* the fills of the valid elements / of the subtotals, and the subtotal objects themselves (only their
   number is used) *)
Definition fills_ins {A} (dim : string) (base subs : list A) : list (string * aval A) :=
  [(dim ++ ".valid_elements.fill", VList base); (dim ++ ".subtotals.fill", VList subs);
   (dim ++ ".subtotals", VObjs (List.length subs))].

Lemma wrap_nonneg n z : (0 <= z < Z.of_nat n)%Z -> wrap n z = Some (Z.to_nat z).
Proof.
  intros H. unfold wrap. destruct (z <? 0)%Z eqn:E; [apply Z.ltb_lt in E; lia|].
  destruct (z <? Z.of_nat n)%Z eqn:F; [reflexivity|apply Z.ltb_ge in F; lia].
Qed.

Lemma fills_item {A} (d : A) base subs z :
  in_range (List.length subs) (List.length base) z ->
  (if (0 <=? z)%Z
   then match wrap (List.length base) z with Some k => Some (nth k base d) | None => None end
   else match wrap (List.length subs) (z + Z.of_nat (List.length subs)) with
        | Some k => Some (nth k subs d) | None => None end)
  = Some (if (0 <=? z)%Z then nth (Z.to_nat z) base d
          else nth (Z.to_nat (z + Z.of_nat (List.length subs))) subs d).
Proof.
  unfold in_range. intros R. destruct (0 <=? z)%Z eqn:E.
  - apply Z.leb_le in E. rewrite wrap_nonneg by lia. reflexivity.
  - apply Z.leb_gt in E. rewrite wrap_nonneg by lia. reflexivity.
Qed.

Lemma gt_m1_ge0 z : (-1 <? z)%Z = (0 <=? z)%Z.
Proof. destruct (0 <=? z)%Z eqn:E; [apply Z.leb_le in E; apply Z.ltb_lt; lia|apply Z.leb_gt in E; apply Z.ltb_ge; lia]. Qed.

Lemma gen_Slice_rows_dimension_fills :
  match asm_Slice_rows_dimension_fills with
  | Some e => forall (A : Type) (d : A) lit truthy base subs ro co,
      Forall (in_range (List.length subs) (List.length base)) ro ->
      aeval A d lit truthy (env_slice (fills_ins "dim0" base subs) ro co) e
      = VList (fills_of d base subs ro)
  | None => True
  end.
Proof.
  unfold asm_Slice_rows_dimension_fills.
  lazymatch goal with
  | |- True => exact I
  | _ => intros A d lit truthy base subs ro co F;
         cbn [aeval env_slice e_in e_order ins_of fills_ins String.eqb Ascii.eqb Bool.eqb slice_orders
              String.append];
         rewrite (omap_ext_in _ (fun z => if (0 <=? z)%Z then nth (Z.to_nat z) base d
                    else nth (Z.to_nat (z + Z.of_nat (List.length subs))) subs d) ro);
         [reflexivity|];
         intros z Hz; rewrite Forall_forall in F;
         cbn [ieval iceval zeval cmp_of e_in env_slice ins_of fills_ins String.eqb Ascii.eqb Bool.eqb
              String.append];
         rewrite ?gt_m1_ge0;
         rewrite <- (fills_item d base subs z (F z Hz));
         destruct (0 <=? z)%Z; reflexivity
  end.
Qed.

Lemma gen_Strand_rows_dimension_fills :
  match asm_Strand_rows_dimension_fills with
  | Some e => forall (A : Type) (d : A) lit truthy base subs so,
      Forall (in_range (List.length subs) (List.length base)) so ->
      aeval A d lit truthy (env_strand (fills_ins "rowsdim" base subs) so) e
      = VList (fills_of d base subs so)
  | None => True
  end.
Proof.
  unfold asm_Strand_rows_dimension_fills.
  lazymatch goal with
  | |- True => exact I
  | _ => intros A d lit truthy base subs so F;
         cbn [aeval env_strand e_in e_order ins_of fills_ins String.eqb Ascii.eqb Bool.eqb strand_orders
              String.append];
         rewrite (omap_ext_in _ (fun z => if (0 <=? z)%Z then nth (Z.to_nat z) base d
                    else nth (Z.to_nat (z + Z.of_nat (List.length subs))) subs d) so);
         [reflexivity|];
         intros z Hz; rewrite Forall_forall in F;
         cbn [ieval iceval zeval cmp_of e_in env_strand ins_of fills_ins String.eqb Ascii.eqb Bool.eqb
              String.append];
         rewrite ?gt_m1_ge0;
         rewrite <- (fills_item d base subs z (F z Hz));
         destruct (0 <=? z)%Z; reflexivity
  end.
Qed.

(* ------------------------------------------------------------------------------------ *)
(** * position lists *)

Definition blit (b : bool) : option bool := Some b.
Definition btruthy (b : bool) : bool := b.

Lemma omap_total {X Y} (g : X -> Y) l : omap (fun x => Some (g x)) l = Some (map g l).
Proof. apply omap_ext_in. reflexivity. Qed.

Definition inserted_agree_slice (src : option aexp) (rows : bool) : Prop :=
  match src with
  | Some e => forall (A : Type) (d : A) lit truthy ins ro co,
      aeval A d lit truthy (env_slice ins ro co) e = VNats (inserted_idxs (if rows then ro else co))
  | None => True
  end.

Ltac gen_inserted :=
  lazymatch goal with
  | |- True => exact I
  | _ => intros;
         cbn [aeval env_slice env_strand e_order slice_orders strand_orders iceval zeval cmp_of];
         rewrite omap_total; unfold inserted_idxs, positions;
         rewrite positions_from_eq, positions_from_map; reflexivity
  end.

Lemma gen_Slice_inserted_row_idxs : inserted_agree_slice asm_Slice_inserted_row_idxs true.
Proof. unfold inserted_agree_slice, asm_Slice_inserted_row_idxs. gen_inserted. Qed.
Lemma gen_Slice_inserted_column_idxs : inserted_agree_slice asm_Slice_inserted_column_idxs false.
Proof. unfold inserted_agree_slice, asm_Slice_inserted_column_idxs. gen_inserted. Qed.
Lemma gen_Strand_inserted_row_idxs :
  match asm_Strand_inserted_row_idxs with
  | Some e => forall (A : Type) (d : A) lit truthy ins so,
      aeval A d lit truthy (env_strand ins so) e = VNats (inserted_idxs so)
  | None => True
  end.
Proof. unfold asm_Strand_inserted_row_idxs. gen_inserted. Qed.

(* flag vectors: Element.derived of the valid elements, _Subtotal.is_difference of the subtotals; of the
   valid elements / subtotals themselves only the number is used *)
Definition flags_ins (dim : string) (derived is_diff : list bool) : list (string * aval bool) :=
  [(dim ++ ".valid_elements.derived", VList derived); (dim ++ ".subtotals.is_difference", VList is_diff);
   (dim ++ ".valid_elements", VObjs (List.length derived)); (dim ++ ".subtotals", VObjs (List.length is_diff))].

Lemma index_flags (l1 l2 : list bool) order :
  Forall (in_range (List.length l2) (List.length l1)) order ->
  index_val bool false (VVec (l1 ++ l2)) (VInts order)
  = VVec (assemble_vec false (l1 ++ l2) [] order).
Proof.
  intros F. rewrite (index_vec false l1 l2 order F). unfold assemble_vec. rewrite app_nil_r. reflexivity.
Qed.

Ltac gen_flags :=
  cbn [aeval env_slice env_strand e_in e_order ins_of flags_ins String.eqb Ascii.eqb Bool.eqb slice_orders
       strand_orders String.append blit];
  unfold derived_idxs_slice, derived_idxs_strand, diff_idxs, where_flags, positions.

Definition derived_agree_slice (src : option aexp) (dim : string) (rows : bool) : Prop :=
  match src with
  | Some e => forall derived is_diff ro co,
      Forall (in_range (List.length is_diff) (List.length derived)) (if rows then ro else co) ->
      aeval bool false blit btruthy (env_slice (flags_ins dim derived is_diff) ro co) e
      = VNats (derived_idxs_slice derived (List.length is_diff) (if rows then ro else co))
  | None => True
  end.
Definition diff_agree_slice (src : option aexp) (dim : string) (rows : bool) : Prop :=
  match src with
  | Some e => forall derived is_diff ro co,
      Forall (in_range (List.length is_diff) (List.length derived)) (if rows then ro else co) ->
      aeval bool false blit btruthy (env_slice (flags_ins dim derived is_diff) ro co) e
      = VNats (diff_idxs (List.length derived) is_diff (if rows then ro else co))
  | None => True
  end.

Ltac gen_derived :=
  lazymatch goal with
  | |- True => exact I
  | _ => intros derived is_diff; intros; gen_flags;
         lazymatch goal with
         | F : Forall _ _ |- _ =>
             first [ rewrite (index_flags derived (repeat false (List.length is_diff)) _)
                       by (rewrite repeat_length; exact F)
                   | rewrite (index_flags (repeat false (List.length derived)) is_diff _)
                       by (rewrite repeat_length; exact F) ]
         end;
         rewrite positions_from_eq; reflexivity
  end.

Lemma gen_Slice_derived_row_idxs : derived_agree_slice asm_Slice_derived_row_idxs "dim0" true.
Proof. unfold derived_agree_slice, asm_Slice_derived_row_idxs. gen_derived. Qed.
Lemma gen_Slice_derived_column_idxs : derived_agree_slice asm_Slice_derived_column_idxs "dim1" false.
Proof. unfold derived_agree_slice, asm_Slice_derived_column_idxs. gen_derived. Qed.
Lemma gen_Slice_diff_row_idxs : diff_agree_slice asm_Slice_diff_row_idxs "dim0" true.
Proof. unfold diff_agree_slice, asm_Slice_diff_row_idxs. gen_derived. Qed.
Lemma gen_Slice_diff_column_idxs : diff_agree_slice asm_Slice_diff_column_idxs "dim1" false.
Proof. unfold diff_agree_slice, asm_Slice_diff_column_idxs. gen_derived. Qed.

Lemma gen_Strand_derived_row_idxs :
  match asm_Strand_derived_row_idxs with
  | Some e => forall derived is_diff so,
      Forall (in_range (List.length is_diff) (List.length derived)) so ->
      aeval bool false blit btruthy (env_strand (flags_ins "rowsdim" derived is_diff) so) e
      = VNats (derived_idxs_strand derived (List.length is_diff) so)
  | None => True
  end.
Proof. unfold asm_Strand_derived_row_idxs. gen_derived. Qed.
Lemma gen_Strand_diff_row_idxs :
  match asm_Strand_diff_row_idxs with
  | Some e => forall derived is_diff so,
      Forall (in_range (List.length is_diff) (List.length derived)) so ->
      aeval bool false blit btruthy (env_strand (flags_ins "rowsdim" derived is_diff) so) e
      = VNats (diff_idxs (List.length derived) is_diff so)
  | None => True
  end.
Proof. unfold asm_Strand_diff_row_idxs. gen_derived. Qed.

(* ------------------------------------------------------------------------------------ *)
(** * the public row_order(format) / column_order(format) *)

(* the `format` argument and whatever the three factories give in either format *)
Definition env_format {A} (bogus : bool) (ords : ofun -> ofmt -> aval A) : aenv A :=
  mkAenv (fun _ => VErr) no_flag
         (fun x => if String.eqb x "format"
                   then ("ORDER_FORMAT", if bogus then "BOGUS_IDS" else "SIGNED_INDEXES") else ("", ""))
         ords.

(* row_order(format) is the ROW factory in the format asked for - with SIGNED_INDEXES the very order the
   assembly uses ([gen_order_signed_indexes]); column_order the COLUMN factory; the strand's the stripe
   factory (np.array of the tuple it returns) *)
Lemma gen_public_orders :
  (match asm_Slice_row_order with
   | Some e => forall (A : Type) (d : A) lit truthy bogus ords,
       aeval A d lit truthy (env_format bogus ords) e = ords FMatrixRow (if bogus then FmtBogus else FmtSigned)
   | None => True end) /\
  (match asm_Slice_column_order with
   | Some e => forall (A : Type) (d : A) lit truthy bogus ords,
       aeval A d lit truthy (env_format bogus ords) e = ords FMatrixColumn (if bogus then FmtBogus else FmtSigned)
   | None => True end) /\
  (match asm_Strand_row_order with
   | Some e => forall (A : Type) (d : A) lit truthy bogus ords so bl,
       ords FStripe FmtSigned = VInts so -> ords FStripe FmtBogus = VList bl ->
       aeval A d lit truthy (env_format bogus ords) e = if bogus then VVec bl else VInts so
   | None => True end).
Proof.
  unfold asm_Slice_row_order, asm_Slice_column_order, asm_Strand_row_order.
  repeat split;
    lazymatch goal with
    | |- True => exact I
    | _ => intros A d lit truthy bogus ords; intros; destruct bogus;
           cbn [aeval ceval env_format e_enum e_order String.eqb Ascii.eqb Bool.eqb fst snd andb];
           repeat match goal with H : ords _ _ = _ |- _ => rewrite H end; reflexivity
    end.
Qed.
