(* GenAgreeDimensionCompose: the members of Dimension the collators read - subtotals,
   subtotals_in_payload_order, insertion_ids, order_spec (hidden_idxs, prune, element_ids: see
   GenAgreeDimensionVisibility.v) - as generated from src/cr/cube/dimension.py (Gen/DimensionSrc.v), ARE
   [subtotals] / [subtotals_in_payload_order] of Model/Collator.v, for every Dimension object that reads as the
   model dimension d ([dim_abs]).  These are the quantities the collator translator (x_collator.py) takes as
   PARAMETERS through [pydim_of]: with these lemmas the two translators compose - the (insertion_id, anchor)
   pairs of the _Subtotal objects are [pysubs_of d (subtotals d)] ([sub_view]). *)
From Coq Require Import List ZArith String Bool Lia Arith.
From CC Require Import Base.XQ Base.PyList Base.PyDict Model.DimType Model.Subtotals Model.SubtotalIds
  Model.PyDimension Gen.DimensionSrc Proofs.GenAgreeDimensionLib Proofs.GenAgreeDimensionSubtotal
  Proofs.GenAgreeDimensionAnchors Proofs.GenAgreeDimensionVisibility.
From CC Require Base.Ident.
From CC Require Import Spec.OrderSpec Model.Collator Proofs.OrderCrosswalk.
Import ListNotations.
Local Close Scope Q_scope.
Local Open Scope Z_scope.

(* references.view.transform.insertions of the dimension dict ([] when absent) *)
Definition view_of (dd : jdict) : option jv :=
  match jd_get_default dd (JStr "references") (JDict []) with
  | JDict refs =>
      let v := jd_get_default refs (JStr "view") JNone in
      match (if jv_truthy v then v else JDict []) with
      | JDict view =>
          match jd_get_default view (JStr "transform") (JDict []) with
          | JDict tf => Some (jd_get_default tf (JStr "insertions") (JList []))
          | _ => None
          end
      | _ => None
      end
  | _ => None
  end.

Lemma gen_Dimension__view_insertion_dicts :
  match src_Dimension__view_insertion_dicts with
  | Some f => forall t dd tr v, view_of dd = Some v -> f (mkPyDimension t (JDict dd) tr) = Ok v
  | None => True end.
Proof.
  unfold src_Dimension__view_insertion_dicts.
  first [exact I | idtac].
  all: gen_open; msimpl.
  all: match goal with Hv : view_of _ = Some _ |- _ => unfold view_of in Hv end.
  all: rewrite pj_get_dict; msimpl.
  all: destruct (jd_get_default dd (JStr "references") (JDict [])) as [| | | | | |refs]; try discriminate.
  all: rewrite pj_get_dict; msimpl; cbv zeta in *.
  all: destruct (if jv_truthy (jd_get_default refs (JStr "view") JNone)
                 then jd_get_default refs (JStr "view") JNone else JDict []) as [| | | | | |view]; try discriminate.
  all: rewrite pj_get_dict; msimpl.
  all: destruct (jd_get_default view (JStr "transform") (JDict [])) as [| | | | | |tf]; try discriminate.
  all: rewrite pj_get_dict; msimpl.
  all: match goal with Hv : Some _ = Some _ |- _ => inversion Hv end; reflexivity.
Qed.

(* a Dimension object (type t, dimension dict dd, transforms tr) reads as the model dimension d *)
Record dim_abs (t : dtype) (dd tr ty : jdict) (defs : list jv) (ids : list Ident.ident) (ax : jdict)
       (vjs : list jv) (d : dimension) : Prop := {
  da_reads : dim_reads t dd tr ty defs ids ax;
  da_array : d_array d = dt_in t [TMrSubvar; TCaSubvar];
  da_ids : d_ids d = map oid (valid_ids defs ids);
  da_view : view_of dd = Some (JList vjs);
  da_view_abs : Forall2 abs_ins vjs (d_view d);
  da_tins : match jd_get tr (JStr "insertions"), d_tins d with
            | None, None => True
            | Some tv, Some l => exists tjs, pj_iter tv = Ok tjs /\ Forall2 abs_ins tjs l
            | _, _ => False
            end;
  (* no position of the crosswalk is listed twice (holds for distinct element ids) *)
  da_nodup : NoDup (crosswalk_order (d_ids d) (valid_dicts (d_ids d) (d_view d)))
}.

Lemma crosswalk_order_nil oids : crosswalk_order oids [] = [].
Proof.
  rewrite crosswalk_order_eq. cbn [enumerate List.length seq combine filter app].
  induction oids as [|e t IH]; [reflexivity|]. cbn [flat_map app]. exact IH.
Qed.

Lemma nil_subtotals fv oids : with_ids fv oids (valid_dicts oids []) = [].
Proof. reflexivity. Qed.

Lemma gen_Dimension_subtotals :
  match src_Dimension_subtotals, src__Subtotals__subtotals, src__Subtotal_insertion_id, src__Subtotal_anchor with
  | Some f, Some fs, Some fid, Some fanchor => forall t dd tr ty defs ids ax vjs d,
      dim_abs t dd tr ty defs ids ax vjs d ->
      exists S subs, f (mkPyDimension t (JDict dd) (JDict tr)) = Ok S /\ fs S = Ok subs /\
                     Forall2 (sub_view fid fanchor (d_ids d)) subs (subtotals d)
  | _, _, _, _ => True end.
Proof.
  unfold src_Dimension_subtotals, src__Subtotals___init__.
  first [exact I | idtac].
  all: dep gen_Dimension_valid_elements src_Dimension_valid_elements.
  all: dep gen_Dimension__view_insertion_dicts src_Dimension__view_insertion_dicts.
  all: generalize gen__Subtotals__subtotals.
  all: destruct src__Subtotals__subtotals as [fs|]; [|intros _; exact I].
  all: destruct src__Subtotal_insertion_id as [fid|]; [|intros _; exact I].
  all: destruct src__Subtotal_anchor as [fanchor|]; [|intros _; exact I].
  all: intros HS; gen_open; msimpl.
  all: match goal with Ha : dim_abs _ _ _ _ _ _ _ _ _ |- _ => destruct Ha end.
  all: pose proof (valid_elems_wf t ax defs ids (dr_ids _ _ _ _ _ _ _ da_reads0)) as Hw.
  all: unfold subtotals; rewrite da_array0, da_ids0 in *.
  all: change (PyList.py_in dtype_eqb t [DT_MR_SUBVAR; DT_CA_SUBVAR]) with (dt_in t [TMrSubvar; TCaSubvar]).
  all: rewrite !(H t dd tr ty defs ids ax) by assumption; msimpl.
  all: destruct (dt_in t [TMrSubvar; TCaSubvar]);
    [ destruct (HS (JList []) [] (valid_elems t ax defs ids) true (valid_ids defs ids) [] Hw eq_refl)
        as (subs & Es & As);
        [apply Forall2_nil | intros _; unfold valid_dicts; cbn [filter]; rewrite crosswalk_order_nil; constructor|];
      eexists; exists subs; split; [reflexivity|]; split; [exact Es | exact As]
    | unfold pj_contains; cbn [jv_hashable]; msimpl; unfold jd_mem, py_dict_mem;
      change (py_dict_get jv_eqb tr (JStr "insertions")) with (jd_get tr (JStr "insertions"));
      destruct (jd_get tr (JStr "insertions")) as [tv|] eqn:Et; msimpl;
      [ unfold pj_getitem; cbn [jv_hashable]; rewrite Et; msimpl;
        destruct (d_tins d) as [l|]; [|contradiction]; destruct da_tins0 as (tjs & Hi & Hl);
        destruct (HS tv tjs (valid_elems t ax defs ids) false (valid_ids defs ids) l Hw Hi Hl)
          as (subs & Es & As); [discriminate|];
        eexists; exists subs; split; [reflexivity|]; split; [exact Es | exact As]
      | destruct (d_tins d) as [l|]; [contradiction|];
        rewrite (H0 t dd (JDict tr) (JList vjs)) by assumption; msimpl;
        destruct (HS (JList vjs) vjs (valid_elems t ax defs ids) true (valid_ids defs ids) (d_view d) Hw eq_refl da_view_abs0)
          as (subs & Es & As); [intros _; exact da_nodup0|];
        eexists; exists subs; split; [reflexivity|]; split; [exact Es | exact As] ] ].
Qed.

Lemma gen_Dimension_subtotals_ids :
  match src_Dimension_subtotals, src__Subtotals__subtotals, src__Subtotal_insertion_id with
  | Some f, Some fs, Some fid => forall t dd tr ty defs ids ax vjs d,
      dim_abs t dd tr ty defs ids ax vjs d ->
      exists S subs, f (mkPyDimension t (JDict dd) (JDict tr)) = Ok S /\ fs S = Ok subs /\
                     Forall2 (fun s zi => fid s = Ok (JInt (fst zi))) subs (subtotals d)
  | _, _, _ => True end.
Proof.
  unfold src_Dimension_subtotals, src__Subtotals___init__.
  first [exact I | idtac].
  all: dep gen_Dimension_valid_elements src_Dimension_valid_elements.
  all: dep gen_Dimension__view_insertion_dicts src_Dimension__view_insertion_dicts.
  all: generalize gen__Subtotals__subtotals_ids.
  all: destruct src__Subtotals__subtotals as [fs|]; [|intros _; exact I].
  all: destruct src__Subtotal_insertion_id as [fid|]; [|intros _; exact I].
  all: intros HS; gen_open; msimpl.
  all: match goal with Ha : dim_abs _ _ _ _ _ _ _ _ _ |- _ => destruct Ha end.
  all: pose proof (valid_elems_wf t ax defs ids (dr_ids _ _ _ _ _ _ _ da_reads0)) as Hw.
  all: unfold subtotals; rewrite da_array0, da_ids0 in *.
  all: change (PyList.py_in dtype_eqb t [DT_MR_SUBVAR; DT_CA_SUBVAR]) with (dt_in t [TMrSubvar; TCaSubvar]).
  all: rewrite !(H t dd tr ty defs ids ax) by assumption; msimpl.
  all: destruct (dt_in t [TMrSubvar; TCaSubvar]);
    [ destruct (HS (JList []) [] (valid_elems t ax defs ids) true (valid_ids defs ids) [] Hw eq_refl)
        as (subs & Es & As);
        [apply Forall2_nil | intros _; unfold valid_dicts; cbn [filter]; rewrite crosswalk_order_nil; constructor|];
      eexists; exists subs; split; [reflexivity|]; split; [exact Es | exact As]
    | unfold pj_contains; cbn [jv_hashable]; msimpl; unfold jd_mem, py_dict_mem;
      change (py_dict_get jv_eqb tr (JStr "insertions")) with (jd_get tr (JStr "insertions"));
      destruct (jd_get tr (JStr "insertions")) as [tv|] eqn:Et; msimpl;
      [ unfold pj_getitem; cbn [jv_hashable]; rewrite Et; msimpl;
        destruct (d_tins d) as [l|]; [|contradiction]; destruct da_tins0 as (tjs & Hi & Hl);
        destruct (HS tv tjs (valid_elems t ax defs ids) false (valid_ids defs ids) l Hw Hi Hl)
          as (subs & Es & As); [discriminate|];
        eexists; exists subs; split; [reflexivity|]; split; [exact Es | exact As]
      | destruct (d_tins d) as [l|]; [contradiction|];
        rewrite (H0 t dd (JDict tr) (JList vjs)) by assumption; msimpl;
        destruct (HS (JList vjs) vjs (valid_elems t ax defs ids) true (valid_ids defs ids) (d_view d) Hw eq_refl da_view_abs0)
          as (subs & Es & As); [intros _; exact da_nodup0|];
        eexists; exists subs; split; [reflexivity|]; split; [exact Es | exact As] ] ].
Qed.

Lemma gen_Dimension_subtotals_in_payload_order :
  match src_Dimension_subtotals_in_payload_order, src__Subtotals__subtotals, src__Subtotal_insertion_id,
        src__Subtotal_anchor with
  | Some f, Some fs, Some fid, Some fanchor => forall t dd tr ty defs ids ax vjs d,
      dim_abs t dd tr ty defs ids ax vjs d ->
      exists S subs, f (mkPyDimension t (JDict dd) (JDict tr)) = Ok S /\ fs S = Ok subs /\
                     Forall2 (sub_view fid fanchor (d_ids d)) subs (subtotals_in_payload_order d)
  | _, _, _, _ => True end.
Proof.
  unfold src_Dimension_subtotals_in_payload_order, src__Subtotals___init__.
  first [exact I | idtac].
  all: dep gen_Dimension_valid_elements src_Dimension_valid_elements.
  all: dep gen_Dimension__view_insertion_dicts src_Dimension__view_insertion_dicts.
  all: generalize gen__Subtotals__subtotals.
  all: destruct src__Subtotals__subtotals as [fs|]; [|intros _; exact I].
  all: destruct src__Subtotal_insertion_id as [fid|]; [|intros _; exact I].
  all: destruct src__Subtotal_anchor as [fanchor|]; [|intros _; exact I].
  all: intros HS; gen_open; msimpl.
  all: match goal with Ha : dim_abs _ _ _ _ _ _ _ _ _ |- _ => destruct Ha end.
  all: pose proof (valid_elems_wf t ax defs ids (dr_ids _ _ _ _ _ _ _ da_reads0)) as Hw.
  all: unfold subtotals_in_payload_order; rewrite da_array0, da_ids0 in *.
  all: change (PyList.py_in dtype_eqb t [DT_MR_SUBVAR; DT_CA_SUBVAR]) with (dt_in t [TMrSubvar; TCaSubvar]).
  all: rewrite !(H t dd tr ty defs ids ax) by assumption; msimpl.
  all: destruct (dt_in t [TMrSubvar; TCaSubvar]);
    [ destruct (HS (JList []) [] (valid_elems t ax defs ids) true (valid_ids defs ids) [] Hw eq_refl)
        as (subs & Es & As);
        [apply Forall2_nil | intros _; unfold valid_dicts; cbn [filter]; rewrite crosswalk_order_nil; constructor|];
      eexists; exists subs; split; [reflexivity|]; split; [exact Es | exact As]
    | rewrite !(H0 t dd (JDict tr) (JList vjs)) by assumption; msimpl;
      destruct da_view_abs0 as [|vj vi vjs' vis' Hv1 Hv2]; cbn [jv_truthy]; msimpl;
      [ rewrite pj_get_dict; msimpl; unfold jd_get_default;
        destruct (jd_get tr (JStr "insertions")) as [tv|] eqn:Et;
        [ destruct (d_tins d) as [l|]; [|contradiction]; destruct da_tins0 as (tjs & Hi & Hl);
          destruct (HS tv tjs (valid_elems t ax defs ids) false (valid_ids defs ids) l Hw Hi Hl)
            as (subs & Es & As); [discriminate|];
          eexists; exists subs; split; [reflexivity|]; split; [exact Es | exact As]
        | destruct (d_tins d) as [l|]; [contradiction|];
          destruct (HS (JDict []) [] (valid_elems t ax defs ids) false (valid_ids defs ids) [] Hw eq_refl)
            as (subs & Es & As); [apply Forall2_nil | discriminate|];
          eexists; exists subs; split; [reflexivity|]; split; [exact Es | exact As] ]
      | destruct (HS (JList (vj :: vjs')) (vj :: vjs') (valid_elems t ax defs ids) true (valid_ids defs ids)
                     (vi :: vis') Hw eq_refl) as (subs & Es & As);
          [constructor; assumption | intros _; exact da_nodup0|];
        eexists; exists subs; split; [reflexivity|]; split; [exact Es | exact As] ] ].
Qed.

(* Dimension.insertion_ids: the ids of [subtotals d] *)
Lemma gen_Dimension_insertion_ids :
  match src_Dimension_insertion_ids with
  | Some f => forall t dd tr ty defs ids ax vjs d, dim_abs t dd tr ty defs ids ax vjs d ->
      f (mkPyDimension t (JDict dd) (JDict tr)) = Ok (map (fun zi => JInt (fst zi)) (subtotals d))
  | None => True end.
Proof.
  unfold src_Dimension_insertion_ids.
  first [exact I | idtac].
  all: generalize gen_Dimension_subtotals_ids.
  all: destruct src_Dimension_subtotals as [f|]; [|intros _; exact I].
  all: destruct src__Subtotals__subtotals as [fs|]; [|intros _; exact I].
  all: destruct src__Subtotal_insertion_id as [fid|]; [|intros _; exact I].
  all: intros H.
  all: gen_open.
  all: destruct (H t dd tr ty defs ids ax vjs d) as (S & subs & E1 & E2 & As); [assumption|].
  all: rewrite E1; msimpl.
  all: rewrite E2; msimpl.
  all: rewrite bind_ret.
  all: apply (py_compM_forall2 _ _ _ _ _ As).
  all: intros x y Hx.
  all: rewrite Hx.
  all: reflexivity.
Qed.

(* Dimension.order_spec: the _OrderSpec over this dimension's transforms *)
Lemma gen_Dimension_order_spec :
  match src_Dimension_order_spec with
  | Some f => forall D, f D = Ok (mkPyOrderSpec D (dm_dimension_transforms_dict D))
  | None => True end.
Proof.
  unfold src_Dimension_order_spec, src__OrderSpec___init__.
  first [exact I | idtac].
  all: gen_open; reflexivity.
Qed.

(* the (insertion_id, anchor) pairs of the _Subtotal objects are the [pysub]s the collator translator reads *)
Lemma sub_view_pysubs fid fanchor d subs (L : list (Z * insertion)) :
  Forall2 (sub_view fid fanchor (d_ids d)) subs L ->
  Forall2 (fun s p => fid s = Ok (JInt (PyCollator.ps_insertion_id p)) /\
                      fanchor s = Ok (jv_of_nanchor (PyCollator.ps_anchor p)))
          subs (PyCollator.pysubs_of d L).
Proof.
  intros H. unfold PyCollator.pysubs_of. induction H as [|s zi ss zis Hs _ IH]; cbn [map]; constructor; [|exact IH].
  exact Hs.
Qed.

(* --- Element.derived / Element.anchor: the [elem] records the collators read ------------------------------ *)
(* value.derived of an element dict (False when there is no value dict) *)
Definition derived_of (e : jdict) : jv :=
  match jd_get_default e (JStr "value") JNone with
  | JDict v => jd_get_default v (JStr "derived") (JBool false)
  | _ => JBool false
  end.

Lemma gen_Element_derived :
  match src_Element_derived with
  | Some f => forall e idx xf t, f (mkPyElement (JDict e) idx xf t) = Ok (derived_of e)
  | None => True end.
Proof.
  unfold src_Element_derived.
  first [exact I | idtac].
  all: gen_open; msimpl; rewrite pj_get_dict; msimpl; unfold derived_of; cbv zeta.
  all: destruct (jd_get_default e (JStr "value") JNone) as [| | | | | |v]; cbn [jv_is_dict negb];
         try (match goal with |- context [jv_truthy ?x] => destruct (jv_truthy x) end; reflexivity).
  all: destruct v as [|kv v']; cbn [jv_truthy negb]; [reflexivity|].
  all: rewrite pj_get_dict, bind_ret; reflexivity.
Qed.

(* references.anchor of a derived element as the model's [danchor]: absent / null, "top", "bottom" or a dict
   {"position": .., "alias": ..} (any position other than "before" reads as after) *)
Definition danchor_of (a : jv) : option danchor :=
  match a with
  | JNone => Some DNone
  | JStr s => if String.eqb s "top" then Some DTop else if String.eqb s "bottom" then Some DBottom else None
  | JDict ad =>
      match ident_of_jv (jd_get_default ad (JStr "alias") JNone) with
      | Some al => Some (DRel (jv_eqb (jd_get_default ad (JStr "position") JNone) (JStr "before")) (oid al))
      | None => None
      end
  | _ => None
  end.

(* Element.anchor: None unless the element is derived, else value.references.anchor *)
Lemma gen_Element_anchor :
  match src_Element_anchor with
  | Some f => forall e idx xf t v r,
      jv_truthy (derived_of e) = true ->
      jd_get_default e (JStr "value") (JDict []) = JDict v ->
      jd_get_default v (JStr "references") (JDict []) = JDict r ->
      f (mkPyElement (JDict e) idx xf t) = Ok (jd_get_default r (JStr "anchor") JNone)
  | None => True end.
Proof.
  unfold src_Element_anchor.
  first [exact I | idtac].
  all: dep gen_Element_derived src_Element_derived.
  all: gen_open; msimpl.
  all: rewrite H; msimpl.
  all: match goal with Hd : jv_truthy _ = true |- _ => rewrite Hd end; cbn [negb].
  all: rewrite pj_get_dict; msimpl.
  all: match goal with Hv : jd_get_default _ (JStr "value") (JDict []) = JDict _ |- _ => rewrite Hv end.
  all: rewrite pj_get_dict; msimpl.
  all: match goal with Hr : jd_get_default _ (JStr "references") (JDict []) = JDict _ |- _ => rewrite Hr end.
  all: rewrite pj_get_dict, bind_ret; reflexivity.
Qed.

Lemma gen_Element_anchor_not_derived :
  match src_Element_anchor with
  | Some f => forall e idx xf t, jv_truthy (derived_of e) = false -> f (mkPyElement (JDict e) idx xf t) = Ok JNone
  | None => True end.
Proof.
  unfold src_Element_anchor.
  first [exact I | idtac].
  all: dep gen_Element_derived src_Element_derived.
  all: gen_open; msimpl.
  all: rewrite H; msimpl.
  all: match goal with Hd : jv_truthy _ = false |- _ => rewrite Hd end; reflexivity.
Qed.
