(* GenAgreeCollatorLib: lemmas about the Python-semantics combinators (Base/PyList.v,
   Model/PyCollator.v) the generated text of Gen/CollatorSrc.v is built from, in the form the
   agreement proofs (GenAgreeCollatorAnchored.v, GenAgreeCollatorSbv.v) use them: every lemma about a
   loop / comprehension takes the generated closure as a VARIABLE with a pointwise hypothesis (closed
   by computation), so that renaming a local or introducing a temporary in the source re-proves. *)
From Coq Require Import List ZArith String Bool Lia Arith.
From CC Require Import Base.XQ Base.SortX Base.PyList Spec.OrderSpec Model.Collator Model.PyCollator
  Proofs.OrderCollate Proofs.OrderExplicit Proofs.SbvDedup.
Import ListNotations.
Local Open Scope Z_scope.

(* --- tactics -------------------------------------------------------------------------------- *)
(* [dep lem src]: the member under proof reads member [src], whose agreement lemma is [lem] *)
Ltac dep lem src :=
  generalize lem; destruct src; [intro | intros _; exact I].
Ltac py_proj :=
  unfold pyself_of, pydim_of in *;
  cbn [pc_dimension pc_empty_idxs pc_format pc_element_values pc_subtotal_values
       pd_valid_elements pd_element_ids pd_subtotals pd_subtotals_in_payload_order pd_hidden_idxs
       pd_prune pd_order_spec po_element_ids po_top_fixed_ids po_bottom_fixed_ids po_descending].
Ltac gen_open := cbv beta iota; intros.

(* --- the exception monad --------------------------------------------------------------------- *)
Lemma bind_ret {A} (r : res A) : bind r (fun x => Ok x) = r.
Proof. destruct r; reflexivity. Qed.

Lemma bind_ret_ext {A} (r : res A) (f : A -> res A) : (forall x, f x = Ok x) -> bind r f = r.
Proof. intros H. destruct r; simpl; auto. Qed.

Lemma py_mapM_ok {A B} (f : A -> res B) (g : A -> B) l :
  (forall x, In x l -> f x = Ok (g x)) -> py_mapM f l = Ok (map g l).
Proof.
  induction l as [|x t IH]; intros H; simpl; auto.
  rewrite H by (simpl; auto). simpl. rewrite IH by (intros; apply H; simpl; auto). reflexivity.
Qed.

Lemma py_foldM_ok {S A} (f : S -> A -> res S) (g : S -> A -> S) l s :
  (forall s x, f s x = Ok (g s x)) -> py_foldM f l s = Ok (fold_left g l s).
Proof.
  intros H. revert s. induction l as [|x t IH]; intros s; simpl; auto.
  rewrite H. simpl. apply IH.
Qed.

(* --- enumerate / range ------------------------------------------------------------------------ *)
Lemma py_enumerate_spec {A} (l : list A) :
  py_enumerate l = map (fun p => (Z.of_nat (fst p), snd p)) (enumerate l).
Proof. apply py_enumerate_nat. Qed.

Lemma filter_map {A B} (f : A -> B) (p : B -> bool) l :
  filter p (map f l) = map f (filter (fun x => p (f x)) l).
Proof. induction l as [|x t IH]; simpl; auto. destruct (p (f x)); simpl; rewrite IH; reflexivity. Qed.

(* i - n for i in range(n) *)
Lemma py_neg_idxs {A} (f : Z -> Z) (l : list A) :
  (forall i, f i = i - py_len l) -> map f (py_range (py_len l)) = neg_idxs (List.length l).
Proof.
  intros H. rewrite py_range_len, map_map. unfold neg_idxs. apply map_ext. intros i. apply H.
Qed.

(* --- hidden sets ------------------------------------------------------------------------------- *)
Lemma py_in_hidden z (h : list nat) : negb (py_in Z.eqb z (map Z.of_nat h)) = visible h z.
Proof.
  unfold visible, py_in. f_equal. induction h as [|x t IH]; simpl; auto.
  rewrite IH, Z.eqb_sym. reflexivity.
Qed.

Lemma py_in_nmem i (l : list nat) : py_in Z.eqb (Z.of_nat i) (map Z.of_nat l) = nmem i l.
Proof.
  unfold py_in, nmem. induction l as [|x t IH]; simpl; auto. rewrite IH. f_equal.
  destruct (Nat.eqb_spec i x); [subst; apply Z.eqb_refl|]. apply Z.eqb_neq. lia.
Qed.

Lemma py_in_zmem z l : py_in Z.eqb z l = zmem z l.
Proof. reflexivity. Qed.

(* tuple(idx for _, _, idx in sorted(keys) if idx not in hidden) *)
Lemma map_filter_keys (f : key -> Z) (p : key -> bool) (h : list nat) l :
  (forall k, f k = kidx k) -> (forall k, p k = negb (py_in Z.eqb (kidx k) (map Z.of_nat h))) ->
  map f (filter p l) = displayed h (map kidx l).
Proof.
  intros Hf Hp. unfold displayed. rewrite filter_map.
  rewrite (map_ext _ _ Hf). f_equal. apply filter_ext. intros k. rewrite Hp. apply py_in_hidden.
Qed.

Lemma filter_hidden (p : Z -> bool) (h : list nat) l :
  (forall z, p z = negb (py_in Z.eqb z (map Z.of_nat h))) -> filter p l = displayed h l.
Proof. intros Hp. unfold displayed. apply filter_ext. intros z. rewrite Hp. apply py_in_hidden. Qed.

(* --- dicts ------------------------------------------------------------------------------------- *)
Lemma Zeqb_eq' a b : Z.eqb a b = true <-> a = b.
Proof. apply Z.eqb_eq. Qed.

Lemma neg_idxs_nodup n : NoDup (neg_idxs n).
Proof.
  unfold neg_idxs. apply FinFun.Injective_map_NoDup; [|apply seq_NoDup].
  intros a b H. lia.
Qed.

Lemma map_fst_combine {A B} (a : list A) (b : list B) :
  List.length a = List.length b -> map fst (combine a b) = a.
Proof.
  revert b. induction a as [|x t IH]; intros [|y b] H; simpl in *; try discriminate; auto.
  rewrite IH by lia. reflexivity.
Qed.

(* dict(zip(neg_idxs, bogus_ids)) is the model's order mapping *)
Lemma py_order_mapping (negs bogus : list Z) :
  negs = neg_idxs (List.length bogus) ->
  py_dict_of_pairs Z.eqb (py_zip negs bogus) = order_mapping bogus.
Proof.
  intros ->. unfold order_mapping, py_zip. apply (py_dict_of_pairs_nodup Z.eqb Zeqb_eq').
  rewrite map_fst_combine; [apply neg_idxs_nodup|].
  rewrite neg_idxs_length. reflexivity.
Qed.

Lemma py_dict_get_zlookup (m : list (Z * Z)) k : py_dict_get Z.eqb m k = zlookup k m.
Proof. induction m as [|[k' v] t IH]; simpl; auto. rewrite IH. reflexivity. Qed.

(* mapping[idx] if idx < 0 else idx, for idx in order *)
Definition render_step (m : list (Z * Z)) (idx : Z) : res entry :=
  if Z.ltb idx 0
  then match zlookup idx m with Some id => Ok (EIns id) | None => Err KeyError end
  else Ok (EBase idx).

Lemma py_mapM_render (f : Z -> res entry) m l :
  (forall idx, f idx = render_step m idx) -> py_mapM f l = render_bogus m l.
Proof.
  intros H. induction l as [|x t IH]; simpl; auto.
  rewrite H, IH. unfold render_step. destruct (Z.ltb x 0).
  - destruct (zlookup x m); simpl; [destruct (render_bogus m t)|]; reflexivity.
  - simpl. destruct (render_bogus m t); reflexivity.
Qed.

Lemma render_step_getitem m idx :
  bind (if Z.ltb idx 0 then bind (py_dict_getitem Z.eqb m idx) (fun t => Ok (EIns t)) else Ok (EBase idx))
       (fun t => Ok t) = render_step m idx.
Proof.
  unfold render_step, py_dict_getitem. rewrite py_dict_get_zlookup.
  destruct (Z.ltb idx 0); [destruct (zlookup idx m)|]; reflexivity.
Qed.

Lemma render_signed (l : list Z) : Forall (fun z => 0 <= z) l -> forall m, render_bogus m l = Ok (map EBase l).
Proof.
  intros H m. induction H as [|x t Hx Ht IH]; simpl; auto.
  destruct (Z.ltb_spec x 0); [lia|]. rewrite IH. reflexivity.
Qed.

(* --- positions by id --------------------------------------------------------------------------- *)
(* descriptors: (position, idx, element_id) in position order *)
Definition zdesc (desc : list bel) : list (Z * Z * ident) :=
  map (fun pe : nat * bel => (Z.of_nat (fst pe), Z.of_nat (fst (snd pe)), snd (snd pe))) (enumerate desc).

Definition pbi_dict (desc : list bel) : list (ident * Z) :=
  py_dict_of_pairs ident_eqb (map (fun t : Z * Z * ident => (snd t, fst (fst t))) (zdesc desc)).

Lemma pbi_dict_get desc i :
  py_dict_get ident_eqb (pbi_dict desc) i = option_map Z.of_nat (positions_by_id desc i).
Proof.
  unfold pbi_dict, positions_by_id, zdesc.
  rewrite (py_dict_get_of_pairs ident_eqb ident_eqb_eq), map_map.
  assert (G : forall (l : list (nat * bel)) (o : option nat),
    fold_left (fun acc kv => if ident_eqb (fst kv) i then Some (snd kv) else acc)
              (map (fun x : nat * bel => (snd (snd x), Z.of_nat (fst x))) l) (option_map Z.of_nat o)
    = option_map Z.of_nat
        (fold_left (fun acc pe => if ident_eqb (snd (snd pe)) i then Some (fst pe) else acc) l o)).
  { induction l as [|[p [i0 e]] t IH]; intros o; simpl; auto.
    destruct (ident_eqb e i); [exact (IH (Some p))|apply IH]. }
  exact (G (enumerate desc) None).
Qed.

Lemma base_keys_zdesc (f : Z * Z * ident -> key) desc :
  (forall p i e, f (p, i, e) = (p, 0, i)) -> map f (zdesc desc) = base_keys desc.
Proof.
  intros H. unfold zdesc, base_keys. rewrite map_map. apply map_ext. intros [p [i e]]. apply H.
Qed.

(* (position, rel) of a place *)
Definition place_pos (desc : list bel) (p : place) : Z * Z := fst (float_key desc (0, p)).

Lemma float_key_place_pos desc idx p :
  float_key desc (idx, p) = (fst (place_pos desc p), snd (place_pos desc p), idx).
Proof.
  unfold place_pos, float_key. simpl.
  destruct p; try reflexivity; destruct (positions_by_id desc i); reflexivity.
Qed.

(* looked up through the dict: (d[id], rel) if id in d else (maxsize, 0) *)
Lemma place_pos_lookup desc i (rel : Z) :
  bind (if py_dict_mem ident_eqb (pbi_dict desc) i
        then bind (py_dict_getitem ident_eqb (pbi_dict desc) i) (fun t => Ok (t, rel))
        else Ok (MAXSIZE, 0)) (fun t => Ok t)
  = Ok (match positions_by_id desc i with Some p => (Z.of_nat p, rel) | None => (MAXSIZE, 0) end).
Proof.
  unfold py_dict_mem, py_dict_getitem. rewrite pbi_dict_get.
  destruct (positions_by_id desc i); reflexivity.
Qed.

(* _insertion_position *)
Definition ins_pos (desc : list bel) (a : nanchor) : res (Z * Z) :=
  if is_other a then Err ValueError else Ok (place_pos desc (place_of_nanchor a)).

(* _insertion_orderings / _view_insertions_ordering *)
Definition ins_keys (desc : list bel) (anchors : list nanchor) : res (list key) :=
  if existsb is_other anchors then Err ValueError
  else Ok (map (float_key desc) (insertion_floats anchors)).

Lemma mapM_ins_keys_gen desc (f : pysub * Z -> res key) (subs : list pysub) (negs : list Z) :
  (forall sub neg, f (sub, neg) = bind (ins_pos desc (snd sub)) (fun t => Ok (fst t, snd t, neg))) ->
  List.length negs = List.length subs ->
  py_mapM f (combine subs negs)
  = if existsb is_other (map snd subs) then Err ValueError
    else Ok (map (float_key desc) (combine negs (map place_of_nanchor (map snd subs)))).
Proof.
  intros Hf. revert negs. induction subs as [|s t IH]; intros negs L.
  - destruct negs; reflexivity.
  - destruct negs as [|z negs]; simpl in L; [discriminate|]. simpl.
    rewrite Hf, IH by lia. unfold ins_pos. destruct (is_other (snd s)); simpl; [reflexivity|].
    destruct (existsb is_other (map snd t)); simpl; [reflexivity|].
    rewrite float_key_place_pos. reflexivity.
Qed.

Lemma mapM_ins_keys desc (f : pysub * Z -> res key) (subs : list pysub) (negs : list Z) :
  (forall sub neg, f (sub, neg) = bind (ins_pos desc (snd sub)) (fun t => Ok (fst t, snd t, neg))) ->
  negs = neg_idxs (List.length subs) ->
  py_mapM f (py_zip subs negs) = ins_keys desc (map snd subs).
Proof.
  intros Hf ->. unfold py_zip. rewrite (mapM_ins_keys_gen desc f subs _ Hf) by apply neg_idxs_length.
  unfold ins_keys, insertion_floats. rewrite map_length. reflexivity.
Qed.

Arguments pbi_dict : simpl never.

(* --- the OrderedDict loop of the explicit order ----------------------------------------------- *)
(* remaining {id: idx} / yielded (idx, id) as the model's base elements *)
Definition zr (rem : list bel) : list (ident * Z) := map (fun e : bel => (snd e, Z.of_nat (fst e))) rem.
Definition zy (l : list bel) : list (Z * ident) := map (fun e : bel => (Z.of_nat (fst e), snd e)) l.

Lemma pop_zr i (rem : list bel) :
  py_dict_pop ident_eqb (zr rem) i
  = match pop_id i rem with Some (e, rem') => Some (Z.of_nat (fst e), zr rem') | None => None end.
Proof.
  induction rem as [|[k e] t IH]; simpl; auto.
  destruct (ident_eqb e i); [reflexivity|]. rewrite IH.
  destruct (pop_id i t) as [[x t']|]; reflexivity.
Qed.

Lemma pop_id_snd i (rem : list bel) e rem' : pop_id i rem = Some (e, rem') -> snd e = i.
Proof.
  revert e rem'. induction rem as [|x t IH]; simpl; intros e rem' H; [discriminate|].
  destruct (ident_eqb (snd x) i) eqn:E.
  - inversion H; subst. apply ident_eqb_eq. exact E.
  - destruct (pop_id i t) as [[y t']|]; [|discriminate]. inversion H; subst. eapply IH. reflexivity.
Qed.

Definition pop_step (st : list (Z * ident) * list (ident * Z)) (i : ident)
  : res (list (Z * ident) * list (ident * Z)) :=
  match py_dict_pop ident_eqb (snd st) i with
  | Some (idx, r') => Ok (fst st ++ [(idx, i)], r')
  | None => Ok st
  end.

(* if id in remaining: idx = remaining.pop(id); yield idx, id *)
Lemma pop_step_agree y (r : list (ident * Z)) i :
  bind (if py_dict_mem ident_eqb r i
        then bind (py_dict_popitem ident_eqb r i)
                  (fun '(idx, r') => Ok (y ++ [(idx, i)], r'))
        else Ok (y, r)) (fun '(y', r') => Ok (y', r'))
  = pop_step (y, r) i.
Proof.
  unfold pop_step, py_dict_mem, py_dict_popitem. rewrite py_dict_get_pop. cbn [snd fst].
  destruct (py_dict_pop ident_eqb r i) as [[idx r']|]; reflexivity.
Qed.

Lemma explicit_loop1 (F : list (Z * ident) * list (ident * Z) -> ident -> res _) listed :
  (forall y r i, F (y, r) i = pop_step (y, r) i) ->
  forall (rem : list bel) y0,
  exists taken left,
    py_foldM F listed (y0, zr rem) = Ok (y0 ++ zy taken, zr left)
    /\ explicit_loop listed rem = taken ++ left.
Proof.
  intros HF. induction listed as [|i l IH]; intros rem y0.
  - exists [], rem. simpl. rewrite app_nil_r. auto.
  - simpl. rewrite HF. unfold pop_step. cbn [snd fst]. rewrite pop_zr.
    destruct (pop_id i rem) as [[e rem']|] eqn:E.
    + cbn [bind]. destruct (IH rem' (y0 ++ [(Z.of_nat (fst e), i)])) as (taken & left & H1 & H2).
      exists (e :: taken), left. split.
      * rewrite H1. rewrite <- app_assoc. simpl. rewrite (pop_id_snd _ _ _ _ E). reflexivity.
      * rewrite H2. reflexivity.
    + cbn [bind]. apply IH.
Qed.

(* for id, idx in remaining.items(): yield idx, id *)
Lemma explicit_loop2 (G : list (Z * ident) -> ident * Z -> res (list (Z * ident))) (left : list bel) :
  (forall y i idx, G y (i, idx) = Ok (y ++ [(idx, i)])) ->
  forall y, py_foldM G (py_dict_items (zr left)) y = Ok (y ++ zy left).
Proof.
  intros HG. unfold py_dict_items. induction left as [|[k e] t IH]; intros y; simpl.
  - rewrite app_nil_r. reflexivity.
  - rewrite HG. cbn [bind]. rewrite IH, <- app_assoc. reflexivity.
Qed.

Lemma enumerate_map {A B} (h : A -> B) (l : list A) :
  enumerate (map h l) = map (fun pe => (fst pe, h (snd pe))) (enumerate l).
Proof.
  unfold enumerate. rewrite map_length. generalize (seq 0 (List.length l)).
  induction l as [|x t IH]; intros [|n s]; simpl; auto. rewrite IH. reflexivity.
Qed.

Lemma zdesc_zy (g : Z * (Z * ident) -> Z * Z * ident) (l : list bel) :
  (forall p i e, g (p, (i, e)) = (p, i, e)) -> map g (py_enumerate (zy l)) = zdesc l.
Proof.
  intros H. rewrite py_enumerate_spec. unfold zy, zdesc. rewrite enumerate_map, !map_map.
  apply map_ext. intros [p [i e]]. apply H.
Qed.

(* the non-derived elements as {id: idx} *)
Definition known_of (els : list elem) : list bel :=
  map (fun ke : nat * elem => (fst ke, e_id (snd ke)))
      (filter (fun ke : nat * elem => negb (e_derived (snd ke))) (enumerate els)).

Lemma known_pairs (g : Z * elem -> ident * Z) (p : Z * elem -> bool) (els : list elem) :
  (forall i e, g (i, e) = (e_id e, i)) -> (forall i e, p (i, e) = negb (e_derived e)) ->
  map g (filter p (py_enumerate els)) = zr (known_of els).
Proof.
  intros Hg Hp. rewrite py_enumerate_spec, filter_map, map_map. unfold zr, known_of. rewrite map_map.
  rewrite (filter_ext _ (fun ke : nat * elem => negb (e_derived (snd ke)))) by (intros [k e]; apply Hp).
  apply map_ext. intros [k e]. apply Hg.
Qed.

Lemma zr_keys rem : map fst (zr rem) = map snd rem.
Proof. unfold zr. rewrite map_map. reflexivity. Qed.

(* --- derived elements ---------------------------------------------------------------------- *)
Lemma get_by_id_absent els i acc :
  ~ In i (map e_id els) ->
  fold_left (fun acc e => if ident_eqb (e_id e) i then Ok e else acc) els acc = acc.
Proof.
  revert acc. induction els as [|x t IH]; intros acc H; simpl; auto.
  simpl in H. destruct (ident_eqb (e_id x) i) eqn:E.
  - apply ident_eqb_eq in E. tauto.
  - apply IH. tauto.
Qed.

Lemma get_by_id_found els el :
  NoDup (map e_id els) -> In el els -> elements_get_by_id els (e_id el) = Ok el.
Proof.
  unfold elements_get_by_id. generalize (@Err elem KeyError).
  induction els as [|x t IH]; intros acc N I; [destruct I|]. simpl in *.
  inversion N as [|? ? Hx Ht]; subst. destruct I as [->|I].
  - rewrite ident_eqb_refl. apply get_by_id_absent. exact Hx.
  - apply IH; assumption.
Qed.

(* the float of a derived element, through its (position, rel) *)
Definition danchor_pos (desc : list bel) (a : danchor) : Z * Z := place_pos desc (place_of_danchor a).

Lemma derived_keys (ps : Z * elem -> res key) (p : Z * elem -> bool) desc (els : list elem) :
  (forall i e, p (i, e) = e_derived e) ->
  (forall k e, In (k, e) (enumerate els) -> e_derived e = true ->
     ps (Z.of_nat k, e) = Ok (fst (danchor_pos desc (e_danchor e)), snd (danchor_pos desc (e_danchor e)),
                              Z.of_nat k)) ->
  py_mapM ps (filter p (py_enumerate els))
  = Ok (map (float_key desc)
            (map (fun ke : nat * elem => (Z.of_nat (fst ke), place_of_danchor (e_danchor (snd ke))))
                 (filter (fun ke : nat * elem => e_derived (snd ke)) (enumerate els)))).
Proof.
  intros Hp Hps. rewrite py_enumerate_spec, filter_map.
  rewrite (filter_ext _ (fun ke : nat * elem => e_derived (snd ke))) by (intros [k e]; apply Hp).
  rewrite !map_map.
  rewrite (py_mapM_ok ps (fun x : Z * elem => float_key desc (fst x, place_of_danchor (e_danchor (snd x)))));
    [rewrite map_map; reflexivity|].
  intros x Hx. apply in_map_iff in Hx. destruct Hx as ([k e] & <- & Hx). apply filter_In in Hx.
  destruct Hx as [Hin Hd]. cbn [fst snd] in *. rewrite (Hps k e Hin Hd).
  rewrite float_key_place_pos. reflexivity.
Qed.

(* --- sort-by-value ---------------------------------------------------------------------------- *)
(* the loop `for i, val in enumerate(values): if <not skipped>: (nans if isnan(val) else keys).append(..)` *)
Definition part_step {A} (skip : Z -> bool) (mk : Z -> sval -> A) (st : list A * list A)
           (iv : Z * sval) : list A * list A :=
  if skip (fst iv) then st
  else if sval_nan (snd iv) then (fst st, snd st ++ [mk (fst iv) (snd iv)])
       else (fst st ++ [mk (fst iv) (snd iv)], snd st).

Lemma fold_part_step {A} (skip : Z -> bool) (mk : Z -> sval -> A) l k0 n0 :
  fold_left (part_step skip mk) l (k0, n0)
  = (k0 ++ map (fun iv => mk (fst iv) (snd iv))
               (filter (fun iv => negb (skip (fst iv)) && negb (sval_nan (snd iv))) l),
     n0 ++ map (fun iv => mk (fst iv) (snd iv))
               (filter (fun iv => negb (skip (fst iv)) && sval_nan (snd iv)) l)).
Proof.
  revert k0 n0. induction l as [|[i v] t IH]; intros k0 n0; simpl.
  - rewrite !app_nil_r. reflexivity.
  - unfold part_step at 2. cbn [fst snd]. destruct (skip i); simpl; [apply IH|].
    destruct (sval_nan v); simpl; rewrite IH, <- app_assoc; reflexivity.
Qed.

Lemma foldM_partition {A} (F : list A * list A -> Z * sval -> res (list A * list A))
      (skip : Z -> bool) (mk : Z -> sval -> A) l :
  (forall k n i v, F (k, n) (i, v) = Ok (part_step skip mk (k, n) (i, v))) ->
  py_foldM F l ([], [])
  = Ok (map (fun iv => mk (fst iv) (snd iv))
            (filter (fun iv => negb (skip (fst iv)) && negb (sval_nan (snd iv))) l),
        map (fun iv => mk (fst iv) (snd iv))
            (filter (fun iv => negb (skip (fst iv)) && sval_nan (snd iv)) l)).
Proof.
  intros H. rewrite (py_foldM_ok F (part_step skip mk)) by (intros [k n] [i v]; apply H).
  rewrite fold_part_step. reflexivity.
Qed.

Lemma combine_swap_map {A} (f : nat -> Z) (l : list A) (s : list nat) :
  combine l (map f s) = map (fun p => (snd p, f (fst p))) (combine s l).
Proof.
  revert s. induction l as [|x t IH]; intros [|n s]; simpl; auto. rewrite IH. reflexivity.
Qed.

(* (val, i - n) for i, val in enumerate(vals) *)
Lemma combine_neg_enumerate (svals : list sval) :
  combine svals (neg_idxs (List.length svals))
  = map (fun iv : Z * sval => (snd iv, fst iv - py_len svals)) (py_enumerate svals).
Proof.
  rewrite py_enumerate_spec, map_map. unfold neg_idxs, enumerate. rewrite combine_swap_map.
  apply map_ext. intros [i v]. reflexivity.
Qed.

Lemma subtotal_keys_agree (svals : list sval) :
  map (fun iv : Z * sval => (snd iv, fst iv - py_len svals))
      (filter (fun iv : Z * sval => negb false && negb (sval_nan (snd iv))) (py_enumerate svals))
  = subtotal_keys svals.
Proof.
  unfold subtotal_keys. rewrite combine_neg_enumerate, filter_map. reflexivity.
Qed.

Lemma subtotal_nans_agree (svals : list sval) :
  map (fun iv : Z * sval => (snd iv, fst iv - py_len svals))
      (filter (fun iv : Z * sval => negb false && sval_nan (snd iv)) (py_enumerate svals))
  = filter (fun k : vkey => sval_nan (fst k)) (combine svals (neg_idxs (List.length svals))).
Proof. rewrite combine_neg_enumerate, filter_map. reflexivity. Qed.

Lemma body_keys_agree (vals : list sval) (fixed : list nat) :
  map (fun iv : Z * sval => (snd iv, fst iv))
      (filter (fun iv : Z * sval => negb (py_in Z.eqb (fst iv) (map Z.of_nat fixed)) && negb (sval_nan (snd iv)))
              (py_enumerate vals))
  = body_keys vals fixed.
Proof.
  unfold body_keys. rewrite py_enumerate_spec, filter_map, map_map. cbn [fst snd].
  f_equal. apply filter_ext. intros [i v]. cbn [fst snd]. rewrite py_in_nmem. reflexivity.
Qed.

Lemma body_nans_agree (vals : list sval) (fixed : list nat) :
  map snd (map (fun iv : Z * sval => (snd iv, fst iv))
      (filter (fun iv : Z * sval => negb (py_in Z.eqb (fst iv) (map Z.of_nat fixed)) && sval_nan (snd iv))
              (py_enumerate vals)))
  = body_nans vals fixed.
Proof.
  unfold body_nans. rewrite py_enumerate_spec, filter_map, !map_map. cbn [fst snd].
  f_equal. apply filter_ext. intros [i v]. cbn [fst snd]. rewrite py_in_nmem. reflexivity.
Qed.

(* {id: idx for idx, id in enumerate(ids)} *)
Definition idx_dict (ids : list ident) : list (ident * Z) :=
  py_dict_of_pairs ident_eqb (map (fun p : Z * ident => (snd p, fst p)) (py_enumerate ids)).
Arguments idx_dict : simpl never.

Lemma idx_dict_get ids i :
  py_dict_get ident_eqb (idx_dict ids) i = option_map Z.of_nat (idx_by_id ids i).
Proof.
  unfold idx_dict, idx_by_id.
  rewrite (py_dict_get_of_pairs ident_eqb ident_eqb_eq), py_enumerate_spec, map_map.
  assert (G : forall (l : list (nat * ident)) (o : option nat),
    fold_left (fun acc kv => if ident_eqb (fst kv) i then Some (snd kv) else acc)
              (map (fun x : nat * ident => (snd x, Z.of_nat (fst x))) l) (option_map Z.of_nat o)
    = option_map Z.of_nat
        (fold_left (fun acc ke => if ident_eqb (snd ke) i then Some (fst ke) else acc) l o)).
  { induction l as [|[k e] t IH]; intros o; simpl; auto.
    destruct (ident_eqb e i); [exact (IH (Some k))|apply IH]. }
  exact (G (enumerate ids) None).
Qed.

Lemma idx_dict_agree (g : Z * ident -> ident * Z) ids :
  (forall i e, g (i, e) = (e, i)) ->
  py_dict_of_pairs ident_eqb (map g (py_enumerate ids)) = idx_dict ids.
Proof. intros H. unfold idx_dict. f_equal. apply map_ext. intros [i e]. apply H. Qed.

Definition fixed_step (ids : list ident) (y : list Z) (i : ident) : list Z :=
  y ++ match idx_by_id ids i with Some k => [Z.of_nat k] | None => [] end.

(* if id not in d: continue; yield d[id] *)
Lemma fixed_step_agree ids y i :
  (if negb (py_dict_mem ident_eqb (idx_dict ids) i) then Ok y
   else bind (py_dict_getitem ident_eqb (idx_dict ids) i) (fun t => Ok (y ++ [t])))
  = Ok (fixed_step ids y i).
Proof.
  unfold fixed_step, py_dict_mem, py_dict_getitem. rewrite idx_dict_get.
  destruct (idx_by_id ids i); simpl; [reflexivity|rewrite app_nil_r; reflexivity].
Qed.

Lemma foldM_fixed (G : list Z -> ident -> res (list Z)) ids listed :
  (forall y i, G y i = Ok (fixed_step ids y i)) ->
  py_foldM G listed [] = Ok (map Z.of_nat (fixed_idxs ids listed)).
Proof.
  intros H. rewrite (py_foldM_ok G (fixed_step ids)) by exact H. f_equal.
  change (map Z.of_nat (fixed_idxs ids listed)) with ([] ++ map Z.of_nat (fixed_idxs ids listed)).
  generalize (@nil Z). induction listed as [|i t IH]; intros y; simpl.
  - rewrite app_nil_r. reflexivity.
  - rewrite IH. unfold fixed_step. rewrite map_app, <- app_assoc. f_equal. f_equal.
    destruct (idx_by_id ids i); reflexivity.
Qed.

(* tuple(dict.fromkeys(..)) on ints *)
Lemma py_dedup_first_mentions (l : list Z) : py_dedup Z.eqb l = first_mentions l.
Proof. induction l as [|z t IH]; simpl; auto. rewrite IH. reflexivity. Qed.

Lemma fromkeys_first_mentions (l : list Z) :
  py_dict_keys (py_dict_fromkeys Z.eqb l) = first_mentions l.
Proof. rewrite (py_dict_fromkeys_keys Z.eqb Zeqb_eq'). apply py_dedup_first_mentions. Qed.
