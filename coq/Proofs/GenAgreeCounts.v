(* Proofs/GenAgreeCounts.v -- GenAgree for C01: what the source says for
     .counts of the nine _XxYCubeCounts classes (through the factory's dict), the type strings,
     _slice_idx_expr, the constructor arguments of every factory, the pass-through measure
     classes (_*CubeMeans/Medians/StdDev/Sums), the stripe .counts and the stripe factory
   denotes the canonical definitions of Model/CubeCounts.v.  See GenAgreeTac.v. *)
From Coq Require Import QArith ZArith List Bool Lia Arith String.
From CC Require Import Base.XQ Base.ListX Base.Tensor Model.CubeCounts
     Gen.CubeCountsSrc Gen.StripeCountsSrc Gen.Tables Proofs.GenAgreeTac.
Import ListNotations.
Local Close Scope Q_scope.
Local Open Scope string_scope.
Local Open Scope nat_scope.

Lemma gen_CatXCatCubeCounts_counts :
  match src_CatXCatCubeCounts_counts with
  | Some e => forall V nr nc sr sc,
      agrees2 (teval (envC (shape_of CCat CCat nr nc sr sc) V) e) nr nc (counts_of V CCat CCat)
  | None => True
  end.
Proof. gen_agree. Qed.

Lemma gen_CatXMrCubeCounts_counts :
  match src_CatXMrCubeCounts_counts with
  | Some e => forall V nr nc sr sc,
      agrees2 (teval (envC (shape_of CCat CMr nr nc sr sc) V) e) nr nc (counts_of V CCat CMr)
  | None => True
  end.
Proof. gen_agree. Qed.

Lemma gen_CatXArrCubeCounts_counts :
  match src_CatXArrCubeCounts_counts with
  | Some e => forall V nr nc sr sc,
      agrees2 (teval (envC (shape_of CCat CArr nr nc sr sc) V) e) nr nc (counts_of V CCat CArr)
  | None => True
  end.
Proof. gen_agree. Qed.

Lemma gen_MrXCatCubeCounts_counts :
  match src_MrXCatCubeCounts_counts with
  | Some e => forall V nr nc sr sc,
      agrees2 (teval (envC (shape_of CMr CCat nr nc sr sc) V) e) nr nc (counts_of V CMr CCat)
  | None => True
  end.
Proof. gen_agree. Qed.

Lemma gen_MrXMrCubeCounts_counts :
  match src_MrXMrCubeCounts_counts with
  | Some e => forall V nr nc sr sc,
      agrees2 (teval (envC (shape_of CMr CMr nr nc sr sc) V) e) nr nc (counts_of V CMr CMr)
  | None => True
  end.
Proof. gen_agree. Qed.

Lemma gen_MrXArrCubeCounts_counts :
  match src_MrXArrCubeCounts_counts with
  | Some e => forall V nr nc sr sc,
      agrees2 (teval (envC (shape_of CMr CArr nr nc sr sc) V) e) nr nc (counts_of V CMr CArr)
  | None => True
  end.
Proof. gen_agree. Qed.

Lemma gen_ArrXCatCubeCounts_counts :
  match src_ArrXCatCubeCounts_counts with
  | Some e => forall V nr nc sr sc,
      agrees2 (teval (envC (shape_of CArr CCat nr nc sr sc) V) e) nr nc (counts_of V CArr CCat)
  | None => True
  end.
Proof. gen_agree. Qed.

Lemma gen_ArrXMrCubeCounts_counts :
  match src_ArrXMrCubeCounts_counts with
  | Some e => forall V nr nc sr sc,
      agrees2 (teval (envC (shape_of CArr CMr nr nc sr sc) V) e) nr nc (counts_of V CArr CMr)
  | None => True
  end.
Proof. gen_agree. Qed.

Lemma gen_ArrXArrCubeCounts_counts :
  match src_ArrXArrCubeCounts_counts with
  | Some e => forall V nr nc sr sc,
      agrees2 (teval (envC (shape_of CArr CArr nr nc sr sc) V) e) nr nc (counts_of V CArr CArr)
  | None => True
  end.
Proof. gen_agree. Qed.

Lemma gen_CatXCatCubeMeans_means :
  match src_CatXCatCubeMeans_means with
  | Some e => forall V nr nc sr sc,
      agrees2 (teval (env1 "_means" (shape_mr false false nr nc sr sc) V [] []) e) nr nc (passthrough_of V false false)
  | None => True
  end.
Proof. gen_agree. Qed.

Lemma gen_CatXMrCubeMeans_means :
  match src_CatXMrCubeMeans_means with
  | Some e => forall V nr nc sr sc,
      agrees2 (teval (env1 "_means" (shape_mr false true nr nc sr sc) V [] []) e) nr nc (passthrough_of V false true)
  | None => True
  end.
Proof. gen_agree. Qed.

Lemma gen_MrXCatCubeMeans_means :
  match src_MrXCatCubeMeans_means with
  | Some e => forall V nr nc sr sc,
      agrees2 (teval (env1 "_means" (shape_mr true false nr nc sr sc) V [] []) e) nr nc (passthrough_of V true false)
  | None => True
  end.
Proof. gen_agree. Qed.

Lemma gen_MrXMrCubeMeans_means :
  match src_MrXMrCubeMeans_means with
  | Some e => forall V nr nc sr sc,
      agrees2 (teval (env1 "_means" (shape_mr true true nr nc sr sc) V [] []) e) nr nc (passthrough_of V true true)
  | None => True
  end.
Proof. gen_agree. Qed.

Lemma gen_CatXCatCubeMedians_medians :
  match src_CatXCatCubeMedians_medians with
  | Some e => forall V nr nc sr sc,
      agrees2 (teval (env1 "_medians" (shape_mr false false nr nc sr sc) V [] []) e) nr nc (passthrough_of V false false)
  | None => True
  end.
Proof. gen_agree. Qed.

Lemma gen_CatXMrCubeMedians_medians :
  match src_CatXMrCubeMedians_medians with
  | Some e => forall V nr nc sr sc,
      agrees2 (teval (env1 "_medians" (shape_mr false true nr nc sr sc) V [] []) e) nr nc (passthrough_of V false true)
  | None => True
  end.
Proof. gen_agree. Qed.

Lemma gen_MrXCatCubeMedians_medians :
  match src_MrXCatCubeMedians_medians with
  | Some e => forall V nr nc sr sc,
      agrees2 (teval (env1 "_medians" (shape_mr true false nr nc sr sc) V [] []) e) nr nc (passthrough_of V true false)
  | None => True
  end.
Proof. gen_agree. Qed.

Lemma gen_MrXMrCubeMedians_medians :
  match src_MrXMrCubeMedians_medians with
  | Some e => forall V nr nc sr sc,
      agrees2 (teval (env1 "_medians" (shape_mr true true nr nc sr sc) V [] []) e) nr nc (passthrough_of V true true)
  | None => True
  end.
Proof. gen_agree. Qed.

Lemma gen_CatXCatCubeStdDev_stddev :
  match src_CatXCatCubeStdDev_stddev with
  | Some e => forall V nr nc sr sc,
      agrees2 (teval (env1 "_stddev" (shape_mr false false nr nc sr sc) V [] []) e) nr nc (passthrough_of V false false)
  | None => True
  end.
Proof. gen_agree. Qed.

Lemma gen_CatXMrCubeStdDev_stddev :
  match src_CatXMrCubeStdDev_stddev with
  | Some e => forall V nr nc sr sc,
      agrees2 (teval (env1 "_stddev" (shape_mr false true nr nc sr sc) V [] []) e) nr nc (passthrough_of V false true)
  | None => True
  end.
Proof. gen_agree. Qed.

Lemma gen_MrXCatCubeStdDev_stddev :
  match src_MrXCatCubeStdDev_stddev with
  | Some e => forall V nr nc sr sc,
      agrees2 (teval (env1 "_stddev" (shape_mr true false nr nc sr sc) V [] []) e) nr nc (passthrough_of V true false)
  | None => True
  end.
Proof. gen_agree. Qed.

Lemma gen_MrXMrCubeStdDev_stddev :
  match src_MrXMrCubeStdDev_stddev with
  | Some e => forall V nr nc sr sc,
      agrees2 (teval (env1 "_stddev" (shape_mr true true nr nc sr sc) V [] []) e) nr nc (passthrough_of V true true)
  | None => True
  end.
Proof. gen_agree. Qed.

Lemma gen_CatXCatCubeSums_sums :
  match src_CatXCatCubeSums_sums with
  | Some e => forall V nr nc sr sc,
      agrees2 (teval (env1 "_sums" (shape_mr false false nr nc sr sc) V [] []) e) nr nc (passthrough_of V false false)
  | None => True
  end.
Proof. gen_agree. Qed.

Lemma gen_CatXMrCubeSums_sums :
  match src_CatXMrCubeSums_sums with
  | Some e => forall V nr nc sr sc,
      agrees2 (teval (env1 "_sums" (shape_mr false true nr nc sr sc) V [] []) e) nr nc (passthrough_of V false true)
  | None => True
  end.
Proof. gen_agree. Qed.

Lemma gen_MrXCatCubeSums_sums :
  match src_MrXCatCubeSums_sums with
  | Some e => forall V nr nc sr sc,
      agrees2 (teval (env1 "_sums" (shape_mr true false nr nc sr sc) V [] []) e) nr nc (passthrough_of V true false)
  | None => True
  end.
Proof. gen_agree. Qed.

Lemma gen_MrXMrCubeSums_sums :
  match src_MrXMrCubeSums_sums with
  | Some e => forall V nr nc sr sc,
      agrees2 (teval (env1 "_sums" (shape_mr true true nr nc sr sc) V [] []) e) nr nc (passthrough_of V true true)
  | None => True
  end.
Proof. gen_agree. Qed.

Lemma gen_slice_idx_expr :
  match src_slice_idx_expr with
  | Some R => forall ndim table_mr k (T : tensor) idx, idx <> [] ->
      slice_rule_apply R ndim table_mr k T idx = slice_at ndim table_mr k T idx
  | None => True
  end.
Proof.
  unfold src_slice_idx_expr;
  lazymatch goal with
  | |- True => exact I
  | _ =>
      intros ndim tmr k T idx Hidx; unfold slice_rule_apply, slice_at; cbn;
      repeat match goal with |- context [if ?c then _ else _] => destruct c end; cbn;
      solve [reflexivity | destruct idx; [contradiction|reflexivity]]
  end.
Qed.

Lemma gen_factory_binds :
  binds_to src_CubeCounts_binds "_counts" (FSliced (FParam "counts")) /\
  binds_to src_CubeMeans_binds "_means" (FSliced (FCube "means")) /\
  binds_to src_CubeMedians_binds "_medians" (FSliced (FCube "medians")) /\
  binds_to src_CubeStdDev_binds "_stddev" (FSliced (FCube "stddev")) /\
  binds_to src_CubeSums_binds "_sums" (FSliced (FCube "sums")) /\
  binds_to src_UnconditionalCubeCounts_binds "_counts_with_missings"
           (FSliced (FCube "counts_with_missings")).
Proof. repeat split; vm_compute; reflexivity. Qed.

Lemma gen_dispatch_counts :
  match src_CubeCounts_dispatch with
  | Some D => forall rc cc,
      meth src_methods (dict_pick (tag rc, tag cc) (fst D) (snd D)) "counts"
        (fun e => forall V nr nc sr sc,
           agrees2 (teval (envC (shape_of rc cc nr nc sr sc) V) e) nr nc (counts_of V rc cc))
  | None => True
  end.
Proof.
  dispatch9 src_CubeCounts_dispatch
    gen_CatXCatCubeCounts_counts gen_CatXMrCubeCounts_counts gen_CatXArrCubeCounts_counts
    gen_MrXCatCubeCounts_counts gen_MrXMrCubeCounts_counts gen_MrXArrCubeCounts_counts
    gen_ArrXCatCubeCounts_counts gen_ArrXMrCubeCounts_counts gen_ArrXArrCubeCounts_counts.
Qed.

Lemma gen_typestr :
  match src_CubeCounts_typestr, tbl_DT_members, tbl_DT_sets with
  | Some R, Some members, Some subsets =>
      (forall k, k <> DMrCat ->
         typestr_pick members subsets (dt_name k) (fst R) (snd R) = tag (cls_of (mkDim k []))) /\
      (forall n, In n cat_like -> typestr_pick members subsets n (fst R) (snd R) = tag CCat)
  | _, _, _ => True
  end.
Proof.
  unfold src_CubeCounts_typestr, tbl_DT_members, tbl_DT_sets;
  lazymatch goal with
  | |- True => exact I
  | _ => split;
         [ intros k Hk; destruct k; try congruence; vm_compute; reflexivity
         | intros n Hn; cbv [cat_like In] in Hn;
           repeat (destruct Hn as [<-|Hn]; [vm_compute; reflexivity|]); contradiction ]
  end.
Qed.

Lemma gen_dispatch_means :
  match src_CubeMeans_dispatch with
  | Some D => forall rmr cmr,
      meth src_methods (cond_pick rmr cmr (fst D) (snd D)) "means"
        (fun e => forall V nr nc sr sc,
           agrees2 (teval (env1 "_means" (shape_mr rmr cmr nr nc sr sc) V [] []) e) nr nc
                   (passthrough_of V rmr cmr))
  | None => True
  end.
Proof.
  dispatch4 src_CubeMeans_dispatch gen_CatXCatCubeMeans_means gen_CatXMrCubeMeans_means
            gen_MrXCatCubeMeans_means gen_MrXMrCubeMeans_means.
Qed.

Lemma gen_dispatch_medians :
  match src_CubeMedians_dispatch with
  | Some D => forall rmr cmr,
      meth src_methods (cond_pick rmr cmr (fst D) (snd D)) "medians"
        (fun e => forall V nr nc sr sc,
           agrees2 (teval (env1 "_medians" (shape_mr rmr cmr nr nc sr sc) V [] []) e) nr nc
                   (passthrough_of V rmr cmr))
  | None => True
  end.
Proof.
  dispatch4 src_CubeMedians_dispatch gen_CatXCatCubeMedians_medians gen_CatXMrCubeMedians_medians
            gen_MrXCatCubeMedians_medians gen_MrXMrCubeMedians_medians.
Qed.

Lemma gen_dispatch_stddev :
  match src_CubeStdDev_dispatch with
  | Some D => forall rmr cmr,
      meth src_methods (cond_pick rmr cmr (fst D) (snd D)) "stddev"
        (fun e => forall V nr nc sr sc,
           agrees2 (teval (env1 "_stddev" (shape_mr rmr cmr nr nc sr sc) V [] []) e) nr nc
                   (passthrough_of V rmr cmr))
  | None => True
  end.
Proof.
  dispatch4 src_CubeStdDev_dispatch gen_CatXCatCubeStdDev_stddev gen_CatXMrCubeStdDev_stddev
            gen_MrXCatCubeStdDev_stddev gen_MrXMrCubeStdDev_stddev.
Qed.

Lemma gen_dispatch_sums :
  match src_CubeSums_dispatch with
  | Some D => forall rmr cmr,
      meth src_methods (cond_pick rmr cmr (fst D) (snd D)) "sums"
        (fun e => forall V nr nc sr sc,
           agrees2 (teval (env1 "_sums" (shape_mr rmr cmr nr nc sr sc) V [] []) e) nr nc
                   (passthrough_of V rmr cmr))
  | None => True
  end.
Proof.
  dispatch4 src_CubeSums_dispatch gen_CatXCatCubeSums_sums gen_CatXMrCubeSums_sums
            gen_MrXCatCubeSums_sums gen_MrXMrCubeSums_sums.
Qed.

Lemma gen_stripe_CatCubeCounts_counts :
  match ssrc_CatCubeCounts_counts with
  | Some e => forall V n, agrees1 (teval (envS [n] V) e) n (stripe_counts V CCat)
  | None => True
  end.
Proof. gen_agree. Qed.

Lemma gen_stripe_MrCubeCounts_counts :
  match ssrc_MrCubeCounts_counts with
  | Some e => forall V n s, agrees1 (teval (envS [n; s] V) e) n (stripe_counts V CMr)
  | None => True
  end.
Proof. gen_agree. Qed.

Lemma gen_stripe_NumArrCubeCounts_counts :
  match ssrc_NumArrCubeCounts_counts with
  | Some e => forall V n, agrees1 (teval (envS [n] V) e) n (stripe_counts V CArr)
  | None => True
  end.
Proof. gen_agree. Qed.

Lemma gen_stripe_dispatch :
  match ssrc_CubeCounts_dispatch, tbl_DT_members with
  | Some D, Some _ =>
      (forall k, stripe_pick true k (fst D) (snd D) = (stripe_class_name CCat, true)) /\
      (forall k, k = DCat \/ k = DMrSubvar \/ k = DNumArr ->
         stripe_pick false k (fst D) (snd D) = (stripe_class_name (cls_of (mkDim k [])), false))
  | _, _ => True
  end.
Proof.
  unfold ssrc_CubeCounts_dispatch, tbl_DT_members;
  lazymatch goal with
  | |- True => exact I
  | _ => split;
         [ intros k; destruct k; vm_compute; reflexivity
         | intros k [->|[->| ->]]; vm_compute; reflexivity ]
  end.
Qed.

