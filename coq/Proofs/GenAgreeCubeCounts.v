(* GenAgreeCubeCounts: the measure cascade of cube.py as generated from the source (Gen/CubeSrc.v) IS the
   payload selection of Model/CubeCounts.v the theorems of C01 are about:
     _XxxMeasure._flat_values      which list of the response feeds which measure ([p_counts], [weighted_payload],
                                   [nonempty (p_vcu ..)], [nonempty (p_vcw ..)])
     _BaseMeasure.raw_cube_array   np.array(flat).reshape(Dimensions.shape), None when the sizes differ
     _Measures.<measure>           the measure object, None when it has no array
   for all payloads and dimension lists, whatever else the response carries. *)
From Coq Require Import List ZArith QArith String Bool Lia Arith.
From CC Require Import Base.XQ Base.ListX Base.PyList Base.PyJson Spec.Survey Model.CubeCounts Model.DimType
  Model.PyCube Gen.CubeSrc Proofs.GenAgreeCubeLib Proofs.GenAgreeCubeBase Proofs.GenAgreeCubeArray.
Import ListNotations.
Local Close Scope Q_scope.
Local Open Scope Z_scope.
Local Open Scope string_scope.

(* --- numbers of a payload as JSON, and back ------------------------------------------------------- *)
Lemma np_floats_data l : pmapM np_float_of (map JFloat l) = POk l.
Proof. induction l as [|x t IH]; simpl; auto. rewrite IH. reflexivity. Qed.

Lemma np_array_data l : np_array_f64 (data_json l) = POk (arr1 l).
Proof. unfold data_json, np_array_f64, np_array_f64_list. rewrite np_floats_data. reflexivity. Qed.

Lemma np_array_list_data l : np_array_f64_list (map JFloat l) = POk (arr1 l).
Proof. unfold np_array_f64_list. rewrite np_floats_data. reflexivity. Qed.

Ltac np_data := rewrite ?np_array_data, ?np_array_list_data, ?np_floats_data.
(* evaluation that keeps the numbers of a payload folded *)
Ltac pycbn := cbn -[json_eqb np_array_f64 np_array_f64_list data_json json_truthy].

Lemma json_eqb_data a b : json_eqb (data_json a) (data_json b) = list_xeqb a b.
Proof.
  unfold data_json. cbn [json_eqb]. revert b.
  induction a as [|x a IH]; intros [|y b]; simpl; auto.
  rewrite IH. reflexivity.
Qed.

Lemma json_truthy_data l : json_truthy (data_json l) = match l with [] => false | _ => true end.
Proof. destruct l; reflexivity. Qed.

Definition some_arr (o : option (list xq)) : option pyarr := option_map arr1 o.

(* --- _flat_values ------------------------------------------------------------------------------------ *)
(*@ C01 *)
Lemma gen_cube_UnweightedCountMeasure__flat_values :
  match src__UnweightedCountMeasure__flat_values with
  | Some f => forall X cls p more dims idx,
      f X (mkPyMeasure cls (count_response p more) dims idx) = POk (some_arr (Some (p_counts p)))
  | None => True end.
Proof.
  unfold src__UnweightedCountMeasure__flat_values.
  first [exact I | gen_open; pycbn; np_data; reflexivity].
Qed.

(*@ C01 *)
Lemma gen_cube_WeightedCountMeasure__flat_values :
  match src__WeightedCountMeasure__flat_values with
  | Some f => forall X cls p more dims idx,
      f X (mkPyMeasure cls (count_response p more) dims idx) = POk (some_arr (weighted_payload p))
  | None => True end.
Proof.
  unfold src__WeightedCountMeasure__flat_values.
  first [exact I |
  gen_open; unfold weighted_payload;
  destruct p as [cn [cnt|] [vu|] [vw|]]; pycbn;
  rewrite ?json_eqb_data; try reflexivity;
  (destruct (list_xeqb cn cnt); pycbn; [reflexivity | np_data; reflexivity])].
Qed.

(*@ C01 *)
Lemma gen_cube_UnweightedValidCountsMeasure__flat_values :
  match src__UnweightedValidCountsMeasure__flat_values with
  | Some f => forall X cls p more dims idx,
      f X (mkPyMeasure cls (count_response p more) dims idx) = POk (some_arr (nonempty (p_vcu p)))
  | None => True end.
Proof.
  unfold src__UnweightedValidCountsMeasure__flat_values.
  first [exact I |
  gen_open;
  destruct p as [cn [cnt|] [vu|] [vw|]]; pycbn; try reflexivity;
  (rewrite json_truthy_data; destruct vu; pycbn; [reflexivity | np_data; reflexivity])].
Qed.

(*@ C01 *)
Lemma gen_cube_WeightedValidCountsMeasure__flat_values :
  match src__WeightedValidCountsMeasure__flat_values with
  | Some f => forall X cls p more dims idx,
      f X (mkPyMeasure cls (count_response p more) dims idx) = POk (some_arr (nonempty (p_vcw p)))
  | None => True end.
Proof.
  unfold src__WeightedValidCountsMeasure__flat_values.
  first [exact I |
  gen_open;
  destruct p as [cn [cnt|] [vu|] [vw|]]; pycbn; try reflexivity;
  (rewrite json_truthy_data; destruct vw; pycbn; [reflexivity | np_data; reflexivity])].
Qed.

(* --- raw_cube_array: reshape ---------------------------------------------------------------------------- *)
Definition size_of (sh : list nat) : nat := fold_right Nat.mul 1%nat sh.
(* np.array(flat).reshape(shape), None when there is no payload or it does not fill the shape *)
Definition raw_array (sh : list nat) (o : option (list xq)) : option pyarr :=
  match o with
  | Some d => if Nat.eqb (List.length d) (size_of sh) then Some (mkArr sh d) else None
  | None => None
  end.

Lemma np_prod_gen sh a : fold_left Z.mul (map Z.of_nat sh) a = a * Z.of_nat (size_of sh).
Proof.
  revert a. induction sh as [|n t IH]; intros a; simpl.
  - lia.
  - rewrite IH. unfold size_of. simpl. fold (size_of t). lia.
Qed.
Lemma np_prod_of_nat sh : np_prod (map Z.of_nat sh) = Z.of_nat (size_of sh).
Proof. unfold np_prod. rewrite np_prod_gen. lia. Qed.
Lemma nonneg_of_nat sh : forallb (fun n => Z.leb 0 n) (map Z.of_nat sh) = true.
Proof. induction sh; simpl; auto. rewrite IHsh. destruct (Z.leb_spec 0 (Z.of_nat a)); auto; lia. Qed.
Lemma to_nat_of_nat sh : map Z.to_nat (map Z.of_nat sh) = sh.
Proof. rewrite map_map. rewrite <- (map_id sh) at 2. apply map_ext. intros; apply Nat2Z.id. Qed.

Lemma np_reshape_arr1 d sh :
  List.length d = size_of sh -> np_reshape (arr1 d) (map Z.of_nat sh) = POk (mkArr sh d).
Proof.
  intros E. unfold np_reshape, arr1. cbn [pa_data].
  rewrite nonneg_of_nat, np_prod_of_nat. unfold py_len. rewrite E, Z.eqb_refl. cbn [andb].
  rewrite to_nat_of_nat. reflexivity.
Qed.

(* the shape a measure array is given: Dimensions.shape *)
(*@ C01 *)
Lemma gen_cube_UnweightedCountMeasure__shape :
  match src__UnweightedCountMeasure__shape with
  | Some f => forall X m, f X m = POk (pds_shape (bm_all_dimensions m))
  | None => True end.
Proof. unfold src__UnweightedCountMeasure__shape. first [exact I | gen_open; reflexivity]. Qed.

(*@ C01 *)
Lemma gen_cube_WeightedCountMeasure__shape :
  match src__WeightedCountMeasure__shape with
  | Some f => forall X m, f X m = POk (pds_shape (bm_all_dimensions m))
  | None => True end.
Proof. unfold src__WeightedCountMeasure__shape. first [exact I | gen_open; reflexivity]. Qed.

(*@ C01 *)
Lemma gen_cube_UnweightedValidCountsMeasure__shape :
  match src__UnweightedValidCountsMeasure__shape with
  | Some f => forall X m, f X m = POk (pds_shape (bm_all_dimensions m))
  | None => True end.
Proof. unfold src__UnweightedValidCountsMeasure__shape. first [exact I | gen_open; reflexivity]. Qed.

(*@ C01 *)
Lemma gen_cube_WeightedValidCountsMeasure__shape :
  match src__WeightedValidCountsMeasure__shape with
  | Some f => forall X m, f X m = POk (pds_shape (bm_all_dimensions m))
  | None => True end.
Proof. unfold src__WeightedValidCountsMeasure__shape. first [exact I | gen_open; reflexivity]. Qed.

(* by evaluation: any way of writing `None if there is no payload or its size is not the product of the
   shape, else the reshaped payload` re-proves *)
Ltac raw_tac :=
  src_cases;
  (let X := fresh "X" in let m := fresh "m" in let o := fresh "o" in let sh := fresh "sh" in
  let HG := fresh "HG" in let HS := fresh "HS" in let d := fresh "d" in let E := fresh "E" in
  intros X m o sh HG HS;
  repeat rewrite HG; repeat rewrite HS;
  destruct o as [d|]; cbn; [|reflexivity];
  rewrite ?np_prod_of_nat;
  destruct (Nat.eqb_spec (List.length d) (size_of sh)) as [E|E];
  [ rewrite ?E, ?Z.eqb_refl; cbn; rewrite <- ?E, ?(np_reshape_arr1 d sh E); reflexivity
  | destruct (Z.eqb_spec (Z.of_nat (List.length d)) (Z.of_nat (size_of sh))); [lia | reflexivity] ]).

(*@ C01 *)
Lemma gen_cube_UnweightedCountMeasure_raw_cube_array :
  match src__UnweightedCountMeasure_raw_cube_array, src__UnweightedCountMeasure__flat_values,
        src__UnweightedCountMeasure__shape with
  | Some f, Some g1, Some g2 => forall X m o sh,
      g1 X m = POk (some_arr o) -> g2 X m = POk (map Z.of_nat sh) -> f X m = POk (raw_array sh o)
  | _, _, _ => True end.
Proof. unfold src__UnweightedCountMeasure_raw_cube_array. raw_tac. Qed.

(*@ C01 *)
Lemma gen_cube_WeightedCountMeasure_raw_cube_array :
  match src__WeightedCountMeasure_raw_cube_array, src__WeightedCountMeasure__flat_values,
        src__WeightedCountMeasure__shape with
  | Some f, Some g1, Some g2 => forall X m o sh,
      g1 X m = POk (some_arr o) -> g2 X m = POk (map Z.of_nat sh) -> f X m = POk (raw_array sh o)
  | _, _, _ => True end.
Proof. unfold src__WeightedCountMeasure_raw_cube_array. raw_tac. Qed.

(*@ C01 *)
Lemma gen_cube_UnweightedValidCountsMeasure_raw_cube_array :
  match src__UnweightedValidCountsMeasure_raw_cube_array, src__UnweightedValidCountsMeasure__flat_values,
        src__UnweightedValidCountsMeasure__shape with
  | Some f, Some g1, Some g2 => forall X m o sh,
      g1 X m = POk (some_arr o) -> g2 X m = POk (map Z.of_nat sh) -> f X m = POk (raw_array sh o)
  | _, _, _ => True end.
Proof. unfold src__UnweightedValidCountsMeasure_raw_cube_array. raw_tac. Qed.

(*@ C01 *)
Lemma gen_cube_WeightedValidCountsMeasure_raw_cube_array :
  match src__WeightedValidCountsMeasure_raw_cube_array, src__WeightedValidCountsMeasure__flat_values,
        src__WeightedValidCountsMeasure__shape with
  | Some f, Some g1, Some g2 => forall X m o sh,
      g1 X m = POk (some_arr o) -> g2 X m = POk (map Z.of_nat sh) -> f X m = POk (raw_array sh o)
  | _, _, _ => True end.
Proof. unfold src__WeightedValidCountsMeasure_raw_cube_array. raw_tac. Qed.

(* --- on a count response with the model's dimensions ----------------------------------------------------- *)
Definition count_measure (cls : mclass) p more vs idx : pymeasure :=
  mkPyMeasure cls (count_response p more) (pydims_of vs) idx.
Definition dims_of (vs : list dimv) : list dimd := map dimd_of vs.

Ltac raw_counts_tac Hraw Hflat Hshape U :=
  generalize Hraw Hflat Hshape;
  U;
  src_cases;
  (let R := fresh "R" in let F := fresh "F" in let S := fresh "S" in
  intros R F S; intros X cls pl more vs idx; unfold count_measure;
  apply R; [apply F | apply S]).

(*@ C01 *)
Lemma gen_cube_UnweightedCountMeasure_raw_cube_array_counts :
  match src__UnweightedCountMeasure_raw_cube_array with
  | Some f => forall X cls p more vs idx,
      f X (count_measure cls p more vs idx) = POk (raw_array (raw_shape (dims_of vs)) (Some (p_counts p)))
  | None => True end.
Proof.
  raw_counts_tac gen_cube_UnweightedCountMeasure_raw_cube_array gen_cube_UnweightedCountMeasure__flat_values gen_cube_UnweightedCountMeasure__shape
    ltac:(unfold src__UnweightedCountMeasure_raw_cube_array).
Qed.

(*@ C01 *)
Lemma gen_cube_WeightedCountMeasure_raw_cube_array_counts :
  match src__WeightedCountMeasure_raw_cube_array with
  | Some f => forall X cls p more vs idx,
      f X (count_measure cls p more vs idx) = POk (raw_array (raw_shape (dims_of vs)) (weighted_payload p))
  | None => True end.
Proof.
  raw_counts_tac gen_cube_WeightedCountMeasure_raw_cube_array gen_cube_WeightedCountMeasure__flat_values gen_cube_WeightedCountMeasure__shape
    ltac:(unfold src__WeightedCountMeasure_raw_cube_array).
Qed.

(*@ C01 *)
Lemma gen_cube_UnweightedValidCountsMeasure_raw_cube_array_counts :
  match src__UnweightedValidCountsMeasure_raw_cube_array with
  | Some f => forall X cls p more vs idx,
      f X (count_measure cls p more vs idx) = POk (raw_array (raw_shape (dims_of vs)) (nonempty (p_vcu p)))
  | None => True end.
Proof.
  raw_counts_tac gen_cube_UnweightedValidCountsMeasure_raw_cube_array gen_cube_UnweightedValidCountsMeasure__flat_values gen_cube_UnweightedValidCountsMeasure__shape
    ltac:(unfold src__UnweightedValidCountsMeasure_raw_cube_array).
Qed.

(*@ C01 *)
Lemma gen_cube_WeightedValidCountsMeasure_raw_cube_array_counts :
  match src__WeightedValidCountsMeasure_raw_cube_array with
  | Some f => forall X cls p more vs idx,
      f X (count_measure cls p more vs idx) = POk (raw_array (raw_shape (dims_of vs)) (nonempty (p_vcw p)))
  | None => True end.
Proof.
  raw_counts_tac gen_cube_WeightedValidCountsMeasure_raw_cube_array gen_cube_WeightedValidCountsMeasure__flat_values gen_cube_WeightedValidCountsMeasure__shape
    ltac:(unfold src__WeightedValidCountsMeasure_raw_cube_array).
Qed.

(* --- the measure objects ------------------------------------------------------------------------------------ *)
(* a measure the response does not carry (or whose payload does not fill the shape) is None *)
Definition opt_measure (cls : mclass) (cd : json) (dims : pydims) (idx : option Z) (r : option pyarr)
  : option pymeasure :=
  match r with Some _ => Some (mkPyMeasure cls cd dims idx) | None => None end.
Definition count_measures p more vs idx : pymeasures :=
  mkPyMeasures (count_response p more) (pydims_of vs) idx.

(*@ C01 *)
Lemma gen_cube_UnweightedCountMeasure___init__ :
  match src__UnweightedCountMeasure___init__ with
  | Some f => forall cd dims idx, f cd dims idx = mkPyMeasure MC_UnweightedCount cd dims idx
  | None => True end.
Proof. unfold src__UnweightedCountMeasure___init__. first [exact I | gen_open; reflexivity]. Qed.

(*@ C01 *)
Lemma gen_cube_WeightedCountMeasure___init__ :
  match src__WeightedCountMeasure___init__ with
  | Some f => forall cd dims idx, f cd dims idx = mkPyMeasure MC_WeightedCount cd dims idx
  | None => True end.
Proof. unfold src__WeightedCountMeasure___init__. first [exact I | gen_open; reflexivity]. Qed.

(*@ C01 *)
Lemma gen_cube_UnweightedValidCountsMeasure___init__ :
  match src__UnweightedValidCountsMeasure___init__ with
  | Some f => forall cd dims idx, f cd dims idx = mkPyMeasure MC_UnweightedValidCounts cd dims idx
  | None => True end.
Proof. unfold src__UnweightedValidCountsMeasure___init__. first [exact I | gen_open; reflexivity]. Qed.

(*@ C01 *)
Lemma gen_cube_WeightedValidCountsMeasure___init__ :
  match src__WeightedValidCountsMeasure___init__ with
  | Some f => forall cd dims idx, f cd dims idx = mkPyMeasure MC_WeightedValidCounts cd dims idx
  | None => True end.
Proof. unfold src__WeightedValidCountsMeasure___init__. first [exact I | gen_open; reflexivity]. Qed.

(*@ C01 *)
Lemma gen_cube_Measures_unweighted_counts :
  match src__Measures_unweighted_counts with
  | Some f => forall X cd dims idx,
      f X (mkPyMeasures cd dims idx) = POk (mkPyMeasure MC_UnweightedCount cd dims idx)
  | None => True end.
Proof.
  generalize gen_cube_UnweightedCountMeasure___init__. unfold src__Measures_unweighted_counts.
  src_cases; (intros I; gen_open; cbn [pm_cube_dict pm_all_dimensions pm_cube_idx_arg]; rewrite I; reflexivity).
Qed.

Ltac opt_measure_tac Hinit Hraw U :=
  generalize Hinit Hraw; U; src_cases;
  (let I := fresh "I" in let R := fresh "R" in
  intros I R; intros X pl more vs idx; unfold count_measures;
  cbn [pm_cube_dict pm_all_dimensions pm_cube_idx_arg];
  rewrite I; unfold count_measure in R; rewrite R; cbn [pbind]; unfold opt_measure;
  match goal with |- context [raw_array ?a ?b] => destruct (raw_array a b) end; reflexivity).

(*@ C01 *)
Lemma gen_cube_Measures_weighted_counts :
  match src__Measures_weighted_counts with
  | Some f => forall X p more vs idx,
      f X (count_measures p more vs idx)
      = POk (opt_measure MC_WeightedCount (count_response p more) (pydims_of vs) idx
                         (raw_array (raw_shape (dims_of vs)) (weighted_payload p)))
  | None => True end.
Proof.
  opt_measure_tac gen_cube_WeightedCountMeasure___init__ gen_cube_WeightedCountMeasure_raw_cube_array_counts
    ltac:(unfold src__Measures_weighted_counts, src__WeightedCountMeasure_raw_cube_array).
Qed.

(*@ C01 *)
Lemma gen_cube_Measures_unweighted_valid_counts :
  match src__Measures_unweighted_valid_counts with
  | Some f => forall X p more vs idx,
      f X (count_measures p more vs idx)
      = POk (opt_measure MC_UnweightedValidCounts (count_response p more) (pydims_of vs) idx
                         (raw_array (raw_shape (dims_of vs)) (nonempty (p_vcu p))))
  | None => True end.
Proof.
  opt_measure_tac gen_cube_UnweightedValidCountsMeasure___init__ gen_cube_UnweightedValidCountsMeasure_raw_cube_array_counts
    ltac:(unfold src__Measures_unweighted_valid_counts, src__UnweightedValidCountsMeasure_raw_cube_array).
Qed.

(*@ C01 *)
Lemma gen_cube_Measures_weighted_valid_counts :
  match src__Measures_weighted_valid_counts with
  | Some f => forall X p more vs idx,
      f X (count_measures p more vs idx)
      = POk (opt_measure MC_WeightedValidCounts (count_response p more) (pydims_of vs) idx
                         (raw_array (raw_shape (dims_of vs)) (nonempty (p_vcw p))))
  | None => True end.
Proof.
  opt_measure_tac gen_cube_WeightedValidCountsMeasure___init__ gen_cube_WeightedValidCountsMeasure_raw_cube_array_counts
    ltac:(unfold src__Measures_weighted_valid_counts, src__WeightedValidCountsMeasure_raw_cube_array).
Qed.

(* --- Cube._valid_idxs ------------------------------------------------------------------------------------------ *)
Lemma np_ix_getitem (ls : list (list Z)) i :
  (i < List.length ls)%nat ->
  py_list_getitem (np_ix_ ls) (Z.of_nat i) = POk (i, nth i ls []).
Proof.
  intros H. unfold py_list_getitem, np_ix_.
  rewrite combine_length, seq_length, Nat.min_id.
  rewrite (py_index_of_nat _ _ H).
  assert (E : nth_error (combine (seq 0 (List.length ls)) ls) i = Some (i, nth i ls [])).
  { rewrite (nth_error_nth' _ (O, [])) by (rewrite combine_length, seq_length, Nat.min_id; exact H).
    rewrite combine_nth by apply seq_length. rewrite seq_nth by exact H. reflexivity. }
  rewrite E. reflexivity.
Qed.

Lemma nth_map_lt {A B} (f : A -> B) l i d d' :
  (i < List.length l)%nat -> nth i (map f l) d = f (nth i l d').
Proof.
  revert i. induction l as [|x t IH]; intros [|i] H; simpl in *; try lia; auto.
  apply IH. lia.
Qed.

(*@ C01 *)
Lemma gen_cube_Cube__valid_idxs :
  match src_Cube__valid_idxs, src_Cube__all_dimensions with
  | Some f, Some g => forall X c vs, g X c = POk (pydims_of vs) ->
      f X c = POk (valid_grid (dims_of vs))
  | _, _ => True end.
Proof.
  unfold src_Cube__valid_idxs. src_cases; (intros X c vs H; rewrite !H;
  cbn [pbind pydims_of pds_items pds_dimension_order];
  rewrite pbind_ret;
  rewrite (pmapM_ok _ (fun z => (Z.to_nat z, nth (Z.to_nat z)
                                             (map (fun l_d => pd_valid_idxs l_d) (map pydim_of vs)) [])));
  [ unfold valid_grid, dims_of; rewrite map_map; apply f_equal; apply map_ext_in; intros i Hi;
    rewrite Nat2Z.id; f_equal;
    apply dimension_order_In in Hi; rewrite map_length in Hi;
    rewrite !map_map;
    rewrite (nth_map_lt _ vs i [] (mkDimv TCat [] JNull JNull)) by exact Hi;
    rewrite (nth_map_lt _ vs i dflt_dimd (mkDimv TCat [] JNull JNull)) by exact Hi;
    reflexivity
  | intros z Hz; apply in_map_iff in Hz; destruct Hz as [i [<- Hi]];
    apply dimension_order_In in Hi; rewrite map_length in Hi;
    rewrite pbind_ret, Nat2Z.id; apply np_ix_getitem; rewrite !map_length; exact Hi ]).
Qed.

(* --- the count arrays of a cube ----------------------------------------------------------------------------------- *)
(* every list of the payload fills the shape of the dimensions *)
Definition fits (n : nat) (o : option (list xq)) : Prop := forall d, o = Some d -> List.length d = n.
Definition payload_fits (ds : list dimd) (p : payload) : Prop :=
  List.length (p_counts p) = size_of (raw_shape ds) /\ fits (size_of (raw_shape ds)) (p_count p)
  /\ fits (size_of (raw_shape ds)) (p_vcu p) /\ fits (size_of (raw_shape ds)) (p_vcw p).

Lemma raw_array_fits sh o : fits (size_of sh) o -> raw_array sh o = option_map (mkArr sh) o.
Proof.
  intros H. destruct o as [d|]; [|reflexivity]. simpl. rewrite (H d eq_refl), Nat.eqb_refl. reflexivity.
Qed.
Lemma fits_nonempty n o : fits n o -> fits n (nonempty o).
Proof. intros H d E. apply H. destruct o as [[|x t]|]; simpl in E; congruence. Qed.
Lemma fits_weighted n p : fits n (p_count p) -> fits n (weighted_payload p).
Proof.
  intros H d E. apply H. unfold weighted_payload in E.
  destruct (p_count p) as [c|]; [|discriminate]. destruct (list_xeqb (p_counts p) c); congruence.
Qed.

(* the valid cells of a payload, as Model/CubeCounts.v reads them *)
Definition valid_tensor (ds : list dimd) (data : list xq) : tensor :=
  take_valid_ord ds (of_flat (raw_shape ds) data).

Lemma reads_bind (r : pres pyarr) sh T : reads r sh T -> reads (pbind r (fun t => POk t)) sh T.
Proof. rewrite pbind_ret. auto. Qed.

(*@ C01 *)
Lemma gen_cube_Cube_unweighted_counts :
  match src_Cube_unweighted_counts, src_Cube__cube_response, src_Cube__all_dimensions with
  | Some f, Some g1, Some g2 => forall X c p more vs,
      g1 X c = POk (count_response p more) -> g2 X c = POk (pydims_of vs) ->
      payload_fits (dims_of vs) p ->
      reads (f X c) (map nvalid (dims_of vs)) (valid_tensor (dims_of vs) (unweighted_counts_payload p))
  | _, _, _ => True end.
Proof.
  generalize gen_cube_Cube__measures gen_cube_Measures_unweighted_valid_counts
    gen_cube_Measures_unweighted_counts gen_cube_UnweightedCountMeasure_raw_cube_array_counts
    gen_cube_UnweightedValidCountsMeasure_raw_cube_array_counts gen_cube_Cube__valid_idxs.
  unfold src_Cube_unweighted_counts.
  src_cases; (intros Hm Hv Hu R1 R3 Hg; intros X c pl more vs H1 H2 (F1 & F2 & F3 & F4);
  rewrite !(Hm X c _ _ H1 H2); cbn [pbind];
  fold (count_measures pl more vs (pc_cube_idx_arg c)); rewrite Hv; cbn [pbind];
  rewrite (Hg X c vs H2);
  unfold unweighted_counts_payload, valid_tensor;
  rewrite (raw_array_fits _ _ (fits_nonempty _ _ F3));
  destruct (nonempty (p_vcu pl)) as [d|] eqn:E; cbn [option_map opt_measure pbind bm_class];
  [ fold (count_measure MC_UnweightedValidCounts pl more vs (pc_cube_idx_arg c));
    rewrite R3, (raw_array_fits _ _ (fits_nonempty _ _ F3)), E; cbn [option_map pbind pres_of_option];
    apply reads_bind; apply np_take_valid_grid
  | unfold count_measures; rewrite Hu; cbn [pbind bm_class];
    fold (count_measure MC_UnweightedCount pl more vs (pc_cube_idx_arg c));
    rewrite R1; unfold raw_array; rewrite F1, Nat.eqb_refl; cbn [pbind pres_of_option];
    apply reads_bind; apply np_take_valid_grid ]).
Qed.

(* an optional array result *)
Definition reads_opt (r : pres (option pyarr)) (sh : list nat) (o : option tensor) : Prop :=
  match o with
  | Some T => exists out, r = POk (Some out) /\ pa_shape out = sh /\
                          forall idx, in_boundsb sh idx = true -> arr_get out idx = T idx
  | None => r = POk None
  end.

Lemma reads_opt_some (r : pres pyarr) (g : pyarr -> pyarr) sh T :
  (forall a, g a = a) -> reads r sh T -> reads_opt (pbind r (fun t => POk (Some (g t)))) sh (Some T).
Proof.
  intros Hg (out & -> & S & H). exists out. cbn [pbind]. rewrite Hg. auto.
Qed.

(* the payload the weighted counts come from: the weighted valid counts, else the count measure when it
   differs from the unweighted counts *)
Definition weighted_choice (p : payload) : option (list xq) :=
  match nonempty (p_vcw p) with Some d => Some d | None => weighted_payload p end.

(*@ C01 *)
Lemma gen_cube_Cube_weighted_counts :
  match src_Cube_weighted_counts, src_Cube__cube_response, src_Cube__all_dimensions with
  | Some f, Some g1, Some g2 => forall X c p more vs,
      g1 X c = POk (count_response p more) -> g2 X c = POk (pydims_of vs) ->
      payload_fits (dims_of vs) p ->
      reads_opt (f X c) (map nvalid (dims_of vs))
                (option_map (valid_tensor (dims_of vs)) (weighted_choice p))
  | _, _, _ => True end.
Proof.
  generalize gen_cube_Cube__measures gen_cube_Measures_weighted_valid_counts
    gen_cube_Measures_weighted_counts gen_cube_WeightedCountMeasure_raw_cube_array_counts
    gen_cube_WeightedValidCountsMeasure_raw_cube_array_counts gen_cube_Cube__valid_idxs.
  unfold src_Cube_weighted_counts.
  src_cases; (intros Hm Hv Hw R2 R4 Hg; intros X c pl more vs H1 H2 (F1 & F2 & F3 & F4);
  rewrite !(Hm X c _ _ H1 H2); cbn [pbind];
  fold (count_measures pl more vs (pc_cube_idx_arg c)); rewrite Hv, Hw; cbn [pbind];
  rewrite (Hg X c vs H2);
  unfold weighted_choice, valid_tensor;
  rewrite (raw_array_fits _ _ (fits_nonempty _ _ F4)), (raw_array_fits _ _ (fits_weighted _ _ F2));
  destruct (nonempty (p_vcw pl)) as [d|] eqn:E; cbn [option_map opt_measure pbind bm_class];
  [ fold (count_measure MC_WeightedValidCounts pl more vs (pc_cube_idx_arg c));
    rewrite R4, (raw_array_fits _ _ (fits_nonempty _ _ F4)), E; cbn [option_map pbind pres_of_option];
    rewrite pbind_ret; apply (reads_opt_some _ (fun a => a)); [reflexivity|]; apply np_take_valid_grid
  | destruct (weighted_payload pl) as [d|] eqn:E2; cbn [option_map opt_measure pbind bm_class];
    [ fold (count_measure MC_WeightedCount pl more vs (pc_cube_idx_arg c));
      rewrite R2, (raw_array_fits _ _ (fits_weighted _ _ F2)), E2; cbn [option_map pbind pres_of_option];
      rewrite pbind_ret; apply (reads_opt_some _ (fun a => a)); [reflexivity|]; apply np_take_valid_grid
    | reflexivity ] ]).
Qed.

(*@ C01 *)
Lemma gen_cube_Cube_has_weighted_counts :
  match src_Cube_has_weighted_counts, src_Cube__cube_response, src_Cube__all_dimensions with
  | Some f, Some g1, Some g2 => forall X c p more vs,
      g1 X c = POk (count_response p more) -> g2 X c = POk (pydims_of vs) ->
      payload_fits (dims_of vs) p ->
      f X c = POk (match weighted_choice p with Some _ => true | None => false end)
  | _, _, _ => True end.
Proof.
  generalize gen_cube_Cube_weighted_counts. unfold src_Cube_has_weighted_counts.
  src_cases; (intros Hw; intros X c pl more vs H1 H2 F;
  pose proof (Hw X c pl more vs H1 H2 F) as R; unfold reads_opt in R;
  destruct (weighted_choice pl); cbn [option_map] in R;
  [ destruct R as (out & -> & _); reflexivity
  | rewrite R; reflexivity ]).
Qed.

(*@ C01 *)
Lemma gen_cube_Cube_counts_with_missings :
  match src_Cube_counts_with_missings, src_Cube__cube_response, src_Cube__all_dimensions with
  | Some f, Some g1, Some g2 => forall X c p more vs,
      g1 X c = POk (count_response p more) -> g2 X c = POk (pydims_of vs) ->
      payload_fits (dims_of vs) p ->
      f X c = POk (Some (mkArr (raw_shape (dims_of vs)) (cwm_payload p)))
  | _, _, _ => True end.
Proof.
  generalize gen_cube_Cube__measures gen_cube_Measures_weighted_valid_counts
    gen_cube_Measures_unweighted_valid_counts gen_cube_Measures_weighted_counts
    gen_cube_Measures_unweighted_counts
    gen_cube_WeightedValidCountsMeasure_raw_cube_array_counts
    gen_cube_UnweightedValidCountsMeasure_raw_cube_array_counts
    gen_cube_WeightedCountMeasure_raw_cube_array_counts
    gen_cube_UnweightedCountMeasure_raw_cube_array_counts
    gen_cube_Cube_has_weighted_counts.
  unfold src_Cube_counts_with_missings.
  src_cases; (intros Hm Hwv Huv Hw Hu R4 R3 R2 R1 Hh; intros X c pl more vs H1 H2 F;
  pose proof F as (F1 & F2 & F3 & F4);
  rewrite !(Hm X c _ _ H1 H2); cbn [pbind];
  fold (count_measures pl more vs (pc_cube_idx_arg c)); rewrite Hwv, Huv, Hw; cbn [pbind];
  rewrite (Hh X c pl more vs H1 H2 F);
  unfold cwm_payload, weighted_choice;
  rewrite (raw_array_fits _ _ (fits_nonempty _ _ F4)), (raw_array_fits _ _ (fits_nonempty _ _ F3)),
    (raw_array_fits _ _ (fits_weighted _ _ F2));
  destruct (nonempty (p_vcw pl)) as [d|] eqn:E4; cbn [option_map opt_measure pbind];
  [ fold (count_measure MC_WeightedValidCounts pl more vs (pc_cube_idx_arg c));
    rewrite R4, (raw_array_fits _ _ (fits_nonempty _ _ F4)), E4; reflexivity |];
  destruct (nonempty (p_vcu pl)) as [d|] eqn:E3; cbn [option_map opt_measure pbind];
  [ fold (count_measure MC_UnweightedValidCounts pl more vs (pc_cube_idx_arg c));
    rewrite R3, (raw_array_fits _ _ (fits_nonempty _ _ F3)), E3; reflexivity |];
  destruct (weighted_payload pl) as [d|] eqn:E2; cbn [option_map opt_measure pbind pres_of_option];
  [ fold (count_measure MC_WeightedCount pl more vs (pc_cube_idx_arg c));
    rewrite R2, (raw_array_fits _ _ (fits_weighted _ _ F2)), E2; reflexivity |];
  unfold count_measures; rewrite Hu; cbn [pbind];
  fold (count_measure MC_UnweightedCount pl more vs (pc_cube_idx_arg c));
  rewrite R1; unfold raw_array; rewrite F1, Nat.eqb_refl; reflexivity).
Qed.

(*@ C01 *)
Lemma gen_cube_Cube_counts :
  match src_Cube_counts, src_Cube__cube_response, src_Cube__all_dimensions with
  | Some f, Some g1, Some g2 => forall X c p more vs,
      g1 X c = POk (count_response p more) -> g2 X c = POk (pydims_of vs) ->
      payload_fits (dims_of vs) p ->
      reads (f X c) (map nvalid (dims_of vs)) (valid_tensor (dims_of vs) (cwm_payload p))
  | _, _, _ => True end.
Proof.
  generalize gen_cube_Cube_counts_with_missings gen_cube_Cube__valid_idxs.
  unfold src_Cube_counts.
  src_cases; (intros Hc Hg; intros X c pl more vs H1 H2 F;
  rewrite (Hc X c pl more vs H1 H2 F), (Hg X c vs H2); cbn [pbind pres_of_option];
  apply reads_bind; apply np_take_valid_grid).
Qed.

(* the valid-count measures as float arrays, None when the response has none *)
Ltac valid_counts_tac Hmeas Hraw U :=
  generalize gen_cube_Cube__measures Hmeas Hraw gen_cube_Cube__valid_idxs;
  U; src_cases;
  (let Hm := fresh "Hm" in let Hv := fresh "Hv" in let R := fresh "R" in let Hg := fresh "Hg" in
  let E := fresh "E" in
  intros Hm Hv R Hg; intros X c pl more vs H1 H2 (F1 & F2 & F3 & F4);
  rewrite !(Hm X c _ _ H1 H2); cbn [pbind];
  fold (count_measures pl more vs (pc_cube_idx_arg c)); rewrite !Hv; cbn [pbind];
  rewrite (Hg X c vs H2);
  unfold valid_tensor;
  rewrite (raw_array_fits _ _ (fits_nonempty _ _ F3)) || rewrite (raw_array_fits _ _ (fits_nonempty _ _ F4));
  match goal with |- context [nonempty ?o] => destruct (nonempty o) as [d|] eqn:E end;
  cbn [option_map opt_measure pbind opt_is_none pres_of_option]; [|reflexivity];
  match goal with |- context [mkPyMeasure ?cls _ _ _] =>
    fold (count_measure cls pl more vs (pc_cube_idx_arg c)) end;
  rewrite R;
  (rewrite (raw_array_fits _ _ (fits_nonempty _ _ F3)) || rewrite (raw_array_fits _ _ (fits_nonempty _ _ F4)));
  rewrite E; cbn [option_map pbind pres_of_option];
  apply (reads_opt_some _ np_astype_f64); [reflexivity|]; apply np_take_valid_grid).

(*@ C01 *)
Lemma gen_cube_Cube_unweighted_valid_counts :
  match src_Cube_unweighted_valid_counts, src_Cube__cube_response, src_Cube__all_dimensions with
  | Some f, Some g1, Some g2 => forall X c p more vs,
      g1 X c = POk (count_response p more) -> g2 X c = POk (pydims_of vs) ->
      payload_fits (dims_of vs) p ->
      reads_opt (f X c) (map nvalid (dims_of vs))
                (option_map (valid_tensor (dims_of vs)) (nonempty (p_vcu p)))
  | _, _, _ => True end.
Proof.
  valid_counts_tac gen_cube_Measures_unweighted_valid_counts
    gen_cube_UnweightedValidCountsMeasure_raw_cube_array_counts ltac:(unfold src_Cube_unweighted_valid_counts).
Qed.

(*@ C01 *)
Lemma gen_cube_Cube_weighted_valid_counts :
  match src_Cube_weighted_valid_counts, src_Cube__cube_response, src_Cube__all_dimensions with
  | Some f, Some g1, Some g2 => forall X c p more vs,
      g1 X c = POk (count_response p more) -> g2 X c = POk (pydims_of vs) ->
      payload_fits (dims_of vs) p ->
      reads_opt (f X c) (map nvalid (dims_of vs))
                (option_map (valid_tensor (dims_of vs)) (nonempty (p_vcw p)))
  | _, _, _ => True end.
Proof.
  valid_counts_tac gen_cube_Measures_weighted_valid_counts
    gen_cube_WeightedValidCountsMeasure_raw_cube_array_counts ltac:(unfold src_Cube_weighted_valid_counts).
Qed.
