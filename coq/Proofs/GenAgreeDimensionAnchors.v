(* GenAgreeDimensionAnchors: _Subtotal.anchor / insertion_id and the members of _Subtotals that give the
   subtotals their ids (_position_crosswalk, _valid_subtotal_dicts_with_ids, _subtotals, bogus_ids,
   insertion_ids), as generated from src/cr/cube/dimension.py (Gen/DimensionSrc.v), ARE the definitions of
   the first part of Model/Collator.v the theorems of C07 are about ([norm_anchor], [valid_dicts],
   [crosswalk_order], [with_ids]).

     oid x            an identifier of Base/Ident.v as one of Spec/OrderSpec.v (the same three constructors)
     jv_of_nanchor a  what _Subtotal.anchor returns: "top" / "bottom" / an int / another lower-cased string
     ins_of j         an insertion dict as the model's record [insertion] *)
From Coq Require Import List ZArith String Bool Lia Arith.
From CC Require Import Base.XQ Base.PyList Base.PyDict Model.DimType Model.Subtotals Model.SubtotalIds
  Model.PyDimension Gen.DimensionSrc Proofs.GenAgreeDimensionLib Proofs.GenAgreeDimensionSubtotal.
From CC Require Base.Ident.
From CC Require Import Spec.OrderSpec Model.Collator Proofs.OrderCrosswalk.
Import ListNotations.
Local Close Scope Q_scope.
Local Open Scope Z_scope.

Definition oid (x : Ident.ident) : ident :=
  match x with Ident.IInt z => IInt z | Ident.IStr s => IStr s | Ident.INone => INone end.

Definition jv_of_nanchor (a : nanchor) : jv :=
  match a with
  | NTop => JStr "top"
  | NBottom => JStr "bottom"
  | NAt z => JInt z
  | NOther s => JStr s
  end.

Lemma oid_eqb a b : ident_eqb (oid a) (oid b) = Ident.ident_eqb a b.
Proof. destruct a, b; reflexivity. Qed.

Lemma imem_oid a l : imem (oid a) (map oid l) = Ident.py_in a l.
Proof.
  unfold imem, Ident.py_in. induction l as [|x t IH]; simpl; [reflexivity|]. rewrite oid_eqb, IH. reflexivity.
Qed.

Lemma py_int_str_int s : py_int s = str_int s.
Proof. reflexivity. Qed.

Lemma lower_str_lower s : lower s = str_lower s.
Proof. induction s as [|c r IH]; simpl; [reflexivity|]. rewrite IH. reflexivity. Qed.

Lemma py_str_oid a : py_str (oid a) = Ident.str_of_ident a.
Proof. destruct a; reflexivity. Qed.

(* --- _Subtotal.anchor -------------------------------------------------------------------------------- *)
Lemma gen__Subtotal_anchor :
  match src__Subtotal_anchor with
  | Some f => forall d els ids a, wf_elems els ids ->
      jd_get d (JStr "anchor") = Some (jv_of_ident a) ->
      f (mkPySubtotal (JDict d) els) = Ok (jv_of_nanchor (norm_anchor (map oid ids) (oid a)))
  | None => True end.
Proof.
  unfold src__Subtotal_anchor.
  first [exact I | idtac].
  all: dep gen_Elements_element_ids src_Elements_element_ids.
  all: gen_open; msimpl.
  all: unfold pj_getitem; cbn [jv_hashable]; match goal with Hg : jd_get _ _ = Some _ |- _ => rewrite Hg end; msimpl.
  all: assert (I : forall z, PyList.py_in jv_eqb (JInt z) (map jv_of_ident ids) = imem (IInt z) (map oid ids))
         by (intros z; rewrite (imem_oid (Ident.IInt z)); apply (jv_in_idents' (Ident.IInt z))).
  all: assert (K : forall z, norm_int (map oid ids) z
                    = if imem (IInt z) (map oid ids) then NAt z else NBottom) by reflexivity.
  all: destruct a as [z|s|]; cbn [jv_of_ident jv_is_none oid norm_anchor]; [| |reflexivity].
  all: unfold pj_int; cbn [jv_int]; msimpl.
  all: try (rewrite (H els ids) by assumption; msimpl; rewrite I, K;
            destruct (imem (IInt z) (map oid ids)); reflexivity).
  all: change (py_int s) with (str_int s); destruct (str_int s) as [z|]; msimpl.
  all: try (rewrite (H els ids) by assumption; msimpl; rewrite I, K;
            destruct (imem (IInt z) (map oid ids)); reflexivity).
  all: unfold pj_lower; msimpl.
  all: change (lower s) with (str_lower s).
  all: destruct (String.eqb (str_lower s) "top") eqn:Et;
         [apply String.eqb_eq in Et; rewrite Et; reflexivity|].
  all: destruct (String.eqb (str_lower s) "bottom") eqn:Eb;
         [apply String.eqb_eq in Eb; rewrite Eb; reflexivity|].
  all: reflexivity.
Qed.

(* --- insertion dicts as the model's [insertion] ----------------------------------------------------------- *)
Definition jid_abs (d : jdict) : option (option Z) :=
  match jd_get d (JStr "id") with
  | None => Some None
  | Some (JInt z) => Some (Some z)
  | Some _ => None
  end.

Definition ins_of (j : jv) : option insertion :=
  match j with
  | JDict d =>
      let wf := fn_subtotal d && (has_key d "anchor" && has_key d "name") in
      match jid_abs d, ident_of_jv (jd_get_default d (JStr "anchor") JNone) with
      | Some oi, Some a =>
          if wf && negb (hide_true d) then
            match positive_abs d, negative_abs d with
            | Some pos, Some neg => Some (mkIns oi (oid a) wf (hide_true d) (map oid (pos ++ neg)))
            | _, _ => None
            end
          else Some (mkIns oi (oid a) wf (hide_true d) [])
      | _, _ => None
      end
  | _ => Some (mkIns None INone false false [])
  end.

Lemma existsb_oid (ids terms : list Ident.ident) :
  existsb (fun t => imem t (map oid ids)) (map oid terms) = existsb (fun x => Ident.py_in x ids) terms.
Proof. induction terms as [|a t IH]; simpl; [reflexivity|]. rewrite imem_oid, IH. reflexivity. Qed.

Lemma ins_of_valid ids j i :
  ins_of j = Some i -> insdict_of j <> None /\ ins_valid (map oid ids) i = valid_jv ids j.
Proof.
  destruct j as [| | | | | |d]; simpl; try (intros H; inversion H; subst; split; [discriminate|reflexivity]).
  intros H. rewrite valid_jv_dict. unfold insdict_of.
  destruct (jid_abs d) as [oi|]; [|discriminate].
  destruct (ident_of_jv (jd_get_default d (JStr "anchor") JNone)) as [a|]; [|discriminate].
  destruct (fn_subtotal d), (hide_true d), (has_key d "anchor"), (has_key d "name"); cbn [andb negb] in *;
    try (inversion H; subst; split; [discriminate|reflexivity]).
  destruct (positive_abs d) as [pos|]; [|discriminate]. destruct (negative_abs d) as [neg|]; [|discriminate].
  inversion H; subst. split; [discriminate|].
  unfold ins_valid. cbn [i_wf i_hide i_terms andb negb]. rewrite existsb_oid.
  destruct pos, neg; reflexivity.
Qed.

(* the C07 reading of _iter_valid_subtotal_dicts: the model's [valid_dicts] *)
Lemma filter_forall2 {A B} (p : A -> bool) (q : B -> bool) (R : A -> B -> Prop) l l' :
  Forall2 R l l' -> (forall x y, R x y -> p x = q y) -> Forall2 R (filter p l) (filter q l').
Proof.
  intros H E. induction H as [|x y xs ys Hxy _ IH]; simpl; [constructor|].
  rewrite (E x y Hxy). destruct (q y); [constructor; assumption | assumption].
Qed.

Definition abs_ins (j : jv) (i : insertion) : Prop := ins_of j = Some i.

Lemma gen__Subtotals__iter_valid_subtotal_dicts_C07 :
  match src__Subtotals__iter_valid_subtotal_dicts with
  | Some f => forall jsv js els fv ids inss, wf_elems els ids -> pj_iter jsv = Ok js -> Forall2 abs_ins js inss ->
      exists vs, f (mkPySubtotals jsv els fv) = Ok vs /\
                 Forall2 abs_ins vs (valid_dicts (map oid ids) inss)
  | None => True end.
Proof.
  generalize gen__Subtotals__iter_valid_subtotal_dicts.
  destruct src__Subtotals__iter_valid_subtotal_dicts as [f|]; [|intros _; exact I].
  intros H jsv js els fv ids inss Hw Hi Ha.
  exists (filter (valid_jv ids) js). split.
  - apply H; [assumption|assumption|]. apply Forall_forall. intros j Hj.
    clear H Hi. induction Ha as [|x y xs ys Hxy _ IH]; [destruct Hj|].
    destruct Hj as [<-|Hj]; [apply (ins_of_valid ids x y Hxy) | auto].
  - unfold valid_dicts. apply (filter_forall2 _ _ _ _ _ Ha).
    intros x y Hxy. symmetry. apply (ins_of_valid ids x y Hxy).
Qed.

(* --- _Subtotals._position_crosswalk ------------------------------------------------------------------------ *)
(* where the loop files an insertion: first / last / after[key] *)
Inductive cwc : Type := CTop | CLast | CAfter (key : string).
Definition cw_class (oids : list ident) (i : insertion) : cwc :=
  if cw_top oids i then CTop else match cw_key oids i with Some s => CAfter s | None => CLast end.

Definition cw_state : Type := (list (string * list Z) * list Z * list Z)%type.
Definition cw_step (c : cwc) (st : cw_state) (idx : Z) : cw_state :=
  let '(after, first, last) := st in
  match c with
  | CTop => (after, first ++ [idx], last)
  | CLast => (after, first, last ++ [idx])
  | CAfter k => (py_dict_set String.eqb after k (py_dict_get_default String.eqb after k [] ++ [idx]), first, last)
  end.

Definition zfst (L : list (nat * insertion)) : list Z := map (fun p => Z.of_nat (fst p)) L.

Lemma streqb_eq a b : String.eqb a b = true <-> a = b.
Proof. apply String.eqb_eq. Qed.

Lemma get_default_set (d : list (string * list Z)) k v k' :
  py_dict_get_default String.eqb (py_dict_set String.eqb d k v) k' []
  = if String.eqb k k' then v else py_dict_get_default String.eqb d k' [].
Proof.
  unfold py_dict_get_default. rewrite (py_dict_get_set String.eqb streqb_eq).
  destruct (String.eqb k k'); reflexivity.
Qed.

Lemma mem_set (d : list (string * list Z)) k v k' :
  py_dict_mem String.eqb (py_dict_set String.eqb d k v) k'
  = String.eqb k k' || py_dict_mem String.eqb d k'.
Proof.
  unfold py_dict_mem. rewrite (py_dict_get_set String.eqb streqb_eq).
  destruct (String.eqb k k'); reflexivity.
Qed.

Definition key_is (oids : list ident) (k : string) (p : nat * insertion) : bool :=
  match cw_class oids (snd p) with CAfter s => String.eqb s k | _ => false end.
Definition is_ctop (oids : list ident) (p : nat * insertion) : bool :=
  match cw_class oids (snd p) with CTop => true | _ => false end.
Definition is_clast (oids : list ident) (p : nat * insertion) : bool :=
  match cw_class oids (snd p) with CLast => true | _ => false end.

Lemma cw_fold oids (L : list (nat * insertion)) (a : list (string * list Z)) (f l : list Z) :
  exists a',
    fold_left (fun st p => cw_step (cw_class oids (snd p)) st (Z.of_nat (fst p))) L (a, f, l)
    = (a', f ++ zfst (filter (is_ctop oids) L), l ++ zfst (filter (is_clast oids) L)) /\
    (forall k, py_dict_get_default String.eqb a' k []
               = py_dict_get_default String.eqb a k [] ++ zfst (filter (key_is oids k) L)) /\
    (forall k, py_dict_mem String.eqb a' k = py_dict_mem String.eqb a k || existsb (key_is oids k) L).
Proof.
  revert a f l. induction L as [|p t IH]; intros a f l.
  - exists a. simpl. rewrite !app_nil_r. repeat split; intros; rewrite ?app_nil_r, ?orb_false_r; reflexivity.
  - cbn [fold_left filter].
    assert (Et : is_ctop oids p = match cw_class oids (snd p) with CTop => true | _ => false end) by reflexivity.
    assert (El : is_clast oids p = match cw_class oids (snd p) with CLast => true | _ => false end) by reflexivity.
    assert (Ek : forall k, key_is oids k p
                 = match cw_class oids (snd p) with CAfter s => String.eqb s k | _ => false end) by reflexivity.
    rewrite Et, El.
    destruct (cw_class oids (snd p)) as [| |key]; cbn [cw_step].
    + destruct (IH a (f ++ [Z.of_nat (fst p)]) l) as (a' & E & G & M). exists a'. split; [|split].
      * rewrite E. unfold zfst. cbn [map]. rewrite <- app_assoc. reflexivity.
      * intros k. rewrite G. cbn [filter]. rewrite Ek. reflexivity.
      * intros k. rewrite M. cbn [existsb]. rewrite Ek. reflexivity.
    + destruct (IH a f (l ++ [Z.of_nat (fst p)])) as (a' & E & G & M). exists a'. split; [|split].
      * rewrite E. unfold zfst. cbn [map]. rewrite <- app_assoc. reflexivity.
      * intros k. rewrite G. cbn [filter]. rewrite Ek. reflexivity.
      * intros k. rewrite M. cbn [existsb]. rewrite Ek. reflexivity.
    + destruct (IH (py_dict_set String.eqb a key
                      (py_dict_get_default String.eqb a key [] ++ [Z.of_nat (fst p)])) f l)
        as (a' & E & G & M). exists a'. split; [|split].
      * rewrite E. reflexivity.
      * intros k. rewrite G, get_default_set. cbn [filter]. rewrite Ek.
        destruct (String.eqb key k) eqn:Ekk.
        -- apply String.eqb_eq in Ekk. subst k. unfold zfst. cbn [map]. rewrite <- app_assoc. reflexivity.
        -- reflexivity.
      * intros k. rewrite M, mem_set. cbn [existsb]. rewrite Ek.
        destruct (String.eqb key k), (py_dict_mem String.eqb a k); reflexivity.
Qed.

(* the second loop: the groups in element order *)
Lemma cw_groups (G : list Z -> jv -> res (list Z)) (after : list (string * list Z)) (ids : list Ident.ident) o :
  (forall o id, G o (jv_of_ident id)
                = Ok (o ++ py_dict_get_default String.eqb after (Ident.str_of_ident id) [])) ->
  py_foldM G (map jv_of_ident ids) o
  = Ok (o ++ flat_map (fun id => py_dict_get_default String.eqb after (Ident.str_of_ident id) []) ids).
Proof.
  intros H. revert o. induction ids as [|id t IH]; intros o; simpl.
  - rewrite app_nil_r. reflexivity.
  - rewrite H. simpl. rewrite IH, <- app_assoc. reflexivity.
Qed.

Lemma get_default_not_mem (d : list (string * list Z)) k :
  py_dict_mem String.eqb d k = false -> py_dict_get String.eqb d k = None.
Proof. unfold py_dict_mem. destruct (py_dict_get String.eqb d k); [discriminate|reflexivity]. Qed.

Lemma zfst_app a b : zfst (a ++ b) = zfst a ++ zfst b.
Proof. apply map_app. Qed.

Lemma zfst_flat_map {A} (g : A -> list (nat * insertion)) l :
  zfst (flat_map g l) = flat_map (fun x => zfst (g x)) l.
Proof. induction l as [|x t IH]; simpl; [reflexivity|]. rewrite zfst_app, IH. reflexivity. Qed.

Lemma cw_class_top oids i : is_ctop oids i = cw_top oids (snd i).
Proof. unfold is_ctop, cw_class. destruct (cw_top oids (snd i)); [reflexivity|]. destruct (cw_key oids (snd i)); reflexivity. Qed.

Lemma cw_top_key oids d : cw_top oids d = true -> cw_key oids d = None /\ cw_last oids d = false.
Proof.
  unfold cw_top, cw_key, cw_last. destruct (norm_anchor oids (i_anchor d)); try discriminate. auto.
Qed.

Lemma cw_class_last oids i : is_clast oids i = cw_last oids (snd i).
Proof.
  unfold is_clast, cw_class. destruct (cw_top oids (snd i)) eqn:Et.
  - destruct (cw_top_key _ _ Et) as [_ ->]. reflexivity.
  - unfold cw_last, cw_top, cw_key in *.
    destruct (norm_anchor oids (i_anchor (snd i))) as [| |z|s]; try discriminate; try reflexivity.
    + destruct (imem (IInt z) oids); reflexivity.
    + destruct (imem (IStr s) oids); reflexivity.
Qed.

Lemma cw_class_after oids e i : key_is oids (py_str e) i = cw_after oids e (snd i).
Proof.
  unfold key_is, cw_class, cw_after. destruct (cw_top oids (snd i)) eqn:Et.
  - destruct (cw_top_key _ _ Et) as [-> _]. reflexivity.
  - destruct (cw_key oids (snd i)); reflexivity.
Qed.

Lemma map_flat_map' {A B C} (f : B -> C) (g : A -> list B) l :
  map f (flat_map g l) = flat_map (fun x => map f (g x)) l.
Proof. induction l as [|x t IH]; simpl; [reflexivity|]. rewrite map_app, IH. reflexivity. Qed.

Lemma flat_map_map' {A B C} (h : A -> B) (g : B -> list C) l :
  flat_map g (map h l) = flat_map (fun x => g (h x)) l.
Proof. induction l as [|x t IH]; simpl; [reflexivity|]. rewrite IH. reflexivity. Qed.

Lemma zfst_eq L : zfst L = map Z.of_nat (map fst L).
Proof. unfold zfst. rewrite map_map. reflexivity. Qed.

(* the order the crosswalk ranks: first ++ groups in element order ++ last *)
Lemma cw_order_eq (ids : list Ident.ident) (inss : list insertion) :
  zfst (filter (is_ctop (map oid ids)) (enumerate inss))
  ++ flat_map (fun id => zfst (filter (key_is (map oid ids) (Ident.str_of_ident id)) (enumerate inss))) ids
  ++ zfst (filter (is_clast (map oid ids)) (enumerate inss))
  = map Z.of_nat (crosswalk_order (map oid ids) inss).
Proof.
  rewrite crosswalk_order_eq, !map_app, !map_flat_map', flat_map_map', !zfst_eq.
  f_equal; [|f_equal].
  - f_equal. f_equal. apply filter_ext. intros i. apply cw_class_top.
  - apply flat_map_ext. intros id. rewrite zfst_eq. f_equal. f_equal.
    apply filter_ext. intros i. rewrite <- py_str_oid. apply cw_class_after.
  - f_equal. f_equal. apply filter_ext. intros i. apply cw_class_last.
Qed.

Lemma py_foldM_forall2 {S A B} (f : S -> A -> res S) (g : S -> B -> S) (R : A -> B -> Prop) l l' s :
  Forall2 R l l' -> (forall s x y, R x y -> f s x = Ok (g s y)) -> py_foldM f l s = Ok (fold_left g l' s).
Proof.
  intros HR H. revert s. induction HR as [|x y xs ys Hxy _ IH]; intros s; [reflexivity|].
  cbn [PyCollator.py_foldM fold_left]. rewrite (H s x y Hxy). cbn [Collator.bind]. apply IH.
Qed.

Definition enum_rel {A B} (P : A -> B -> Prop) (x : Z * A) (y : nat * B) : Prop :=
  fst x = Z.of_nat (fst y) /\ P (snd x) (snd y).

Lemma Forall2_length' {A B} (P : A -> B -> Prop) l l' : Forall2 P l l' -> List.length l = List.length l'.
Proof. intros H. induction H; simpl; auto. Qed.

Lemma enum_forall2 {A B} (P : A -> B -> Prop) l l' :
  Forall2 P l l' -> Forall2 (enum_rel P) (py_enumerate l) (enumerate l').
Proof.
  intros H. unfold py_enumerate, enumerate. rewrite py_range_len.
  rewrite <- (Forall2_length' _ _ _ H). generalize 0%nat as s.
  induction H as [|x y xs ys Hxy _ IH]; intros s; [constructor|].
  cbn [List.length seq map combine]. constructor; [split; [reflexivity|exact Hxy] | apply IH].
Qed.

Lemma has_key_get d k : has_key d k = true -> exists v, jd_get d (JStr k) = Some v.
Proof.
  unfold has_key, jv_in, PyList.py_in, jd_keys, jd_get. induction d as [|[k' v'] t IH]; [discriminate|].
  cbn [map fst existsb py_dict_get]. rewrite jv_eqb_str_l, jv_eqb_str_r.
  destruct k'; cbn [orb]; try exact IH.
  rewrite String.eqb_sym. destruct (String.eqb s k); cbn [orb]; [eauto | exact IH].
Qed.

Definition abs_wf_ins (j : jv) (i : insertion) : Prop := ins_of j = Some i /\ i_wf i = true.

Lemma ins_of_anchor j i :
  abs_wf_ins j i ->
  exists d a, j = JDict d /\ jd_get d (JStr "anchor") = Some (jv_of_ident a) /\ i_anchor i = oid a.
Proof.
  intros [H W]. destruct j as [| | | | | |d]; simpl in H; try (inversion H; subst; discriminate).
  destruct (jid_abs d) as [oi|]; [|discriminate].
  destruct (ident_of_jv (jd_get_default d (JStr "anchor") JNone)) as [a|] eqn:Ea; [|discriminate].
  assert (K : has_key d "anchor" = true).
  { destruct (fn_subtotal d && (has_key d "anchor" && has_key d "name") && negb (hide_true d));
      [destruct (positive_abs d); [|discriminate]; destruct (negative_abs d); [|discriminate]|];
      inversion H; subst; cbn [i_wf] in W;
      destruct (fn_subtotal d), (has_key d "anchor"); try discriminate; reflexivity. }
  destruct (has_key_get d "anchor" K) as [v Hv].
  unfold jd_get_default in Ea. rewrite Hv in Ea.
  exists d, a. split; [reflexivity|]. split.
  - rewrite Hv, (jv_of_ident_of_jv _ _ Ea). reflexivity.
  - destruct (fn_subtotal d && (has_key d "anchor" && has_key d "name") && negb (hide_true d));
      [destruct (positive_abs d); [|discriminate]; destruct (negative_abs d); [|discriminate]|];
      inversion H; reflexivity.
Qed.

Lemma norm_not_top_str oids raw s : norm_anchor oids raw = NOther s -> s <> "top"%string /\ s <> "bottom"%string.
Proof.
  assert (I : forall z, norm_int oids z <> NOther s)
    by (intros z; unfold norm_int; destruct (imem (IInt z) oids); discriminate).
  destruct raw as [z|t|]; simpl; try discriminate.
  - intros H. destruct (I z H).
  - destruct (py_int t) as [z|]; [intros H; destruct (I z H)|].
    destruct (String.eqb (lower t) "top") eqn:Et; [discriminate|].
    destruct (String.eqb (lower t) "bottom") eqn:Eb; [discriminate|].
    intros H. inversion H; subst. apply String.eqb_neq in Et, Eb. auto.
Qed.

Lemma gen__Subtotals__position_crosswalk :
  match src__Subtotals__position_crosswalk with
  | Some f => forall js els fv ids dicts inss, wf_elems els ids -> Forall2 abs_wf_ins dicts inss ->
      f (mkPySubtotals js els fv) dicts
      = Ok (py_dict_of_pairs Z.eqb
              (map (fun p : Z * Z => (snd p, fst p + 1))
                   (py_enumerate (map Z.of_nat (crosswalk_order (map oid ids) inss)))))
  | None => True end.
Proof.
  unfold src__Subtotals__position_crosswalk, src__Subtotal___init__.
  first [exact I | idtac].
  all: dep gen_Elements_element_ids src_Elements_element_ids.
  all: dep gen__Subtotal_anchor src__Subtotal_anchor.
  all: gen_open; msimpl.
  all: rewrite (H els ids) by assumption; msimpl.
  all: match goal with HF : Forall2 abs_wf_ins _ _ |- _ => pose proof (enum_forall2 _ _ _ HF) as HE end.
  all: match goal with |- context [py_foldM ?F (py_enumerate _) _] =>
         assert (SC : forall (s : cw_state) x y, enum_rel abs_wf_ins x y ->
                   F s x = Ok (cw_step (cw_class (map oid ids) (snd y)) s (Z.of_nat (fst y)))) end;
    [ intros [[after first] last] [idx ins] [k i] [Hidx Habs]; cbn [fst snd] in *; subst idx;
          destruct (ins_of_anchor ins i Habs) as (d & a & -> & Hg & Ha);
          cbv beta iota; rewrite (H0 d els ids a) by assumption; msimpl;
          unfold cw_class, cw_top, cw_key; rewrite Ha;
          pose proof (norm_not_top_str (map oid ids) (oid a)) as NT;
          assert (I : forall x, PyList.py_in jv_eqb (jv_of_ident x) (map jv_of_ident ids) = imem (oid x) (map oid ids))
            by (intros x; rewrite imem_oid; apply jv_in_idents');
          destruct (norm_anchor (map oid ids) (oid a)) as [| |z|s];
          cbn [jv_of_nanchor jv_eqb String.eqb Ascii.eqb Bool.eqb];
          [ reflexivity | reflexivity
          | change (JInt z) with (jv_of_ident (Ident.IInt z)); rewrite (I (Ident.IInt z)); cbn [oid jv_of_ident]; destruct (imem (IInt z) (map oid ids)); reflexivity
          | destruct (NT s eq_refl) as [N1 N2];
            apply String.eqb_neq in N1, N2; rewrite N1, N2;
            change (JStr s) with (jv_of_ident (Ident.IStr s)); rewrite (I (Ident.IStr s)); cbn [oid jv_of_ident]; destruct (imem (IStr s) (map oid ids)); reflexivity ]
        | rewrite (py_foldM_forall2 _ _ _ _ _ _ HE SC) ].
  all: destruct (cw_fold (map oid ids) (enumerate inss) [] [] []) as (a' & E & G & M).
  all: rewrite E; msimpl; cbv beta iota.
  all: rewrite (cw_groups _ a' ids);
    [| intros o id; unfold pj_str; rewrite jv_str_ident; msimpl;
       unfold py_dict_getitem, py_dict_get_default;
       destruct (py_dict_mem String.eqb a' (Ident.str_of_ident id)) eqn:Em;
       [unfold py_dict_mem in Em; destruct (py_dict_get String.eqb a' (Ident.str_of_ident id)); [reflexivity|discriminate]
       | rewrite (get_default_not_mem _ _ Em), app_nil_r; reflexivity]].
  all: msimpl.
  all: rewrite <- cw_order_eq.
  all: cbn [app]; rewrite <- app_assoc.
  all: replace (flat_map (fun id : Ident.ident => py_dict_get_default String.eqb a' (Ident.str_of_ident id) []) ids)
         with (flat_map (fun id : Ident.ident =>
                 zfst (filter (key_is (map oid ids) (Ident.str_of_ident id)) (enumerate inss))) ids)
         by (apply flat_map_ext; intros id; rewrite G; reflexivity).
  all: f_equal; f_equal; apply map_ext; intros [a b]; reflexivity.
Qed.

(* --- _Subtotals._valid_subtotal_dicts_with_ids -------------------------------------------------------------- *)
(* a subtotal dict that has its id: what _Subtotal reads from it *)
Definition abs_sub (r : jv) (zi : Z * insertion) : Prop :=
  exists d a, r = JDict d /\ jd_get d (JStr "id") = Some (JInt (fst zi)) /\
              jd_get d (JStr "anchor") = Some (jv_of_ident a) /\ i_anchor (snd zi) = oid a.

Lemma crosswalk_lookup_gen (order : list nat) k s :
  py_dict_get Z.eqb (map (fun p : Z * Z => (snd p, fst p + 1))
                         (combine (map Z.of_nat (seq s (List.length order))) (map Z.of_nat order))) (Z.of_nat k)
  = option_map (fun r => Z.of_nat (S (s + r))) (index_nat k order).
Proof.
  revert s. induction order as [|x t IH]; intros s; [reflexivity|].
  cbn [List.length seq map combine py_dict_get snd fst index_nat].
  destruct (Nat.eqb_spec x k) as [->|N].
  - rewrite Z.eqb_refl. cbn [option_map]. f_equal. lia.
  - destruct (Z.eqb_spec (Z.of_nat x) (Z.of_nat k)) as [E|_]; [lia|].
    rewrite (IH (S s)). destruct (index_nat k t); cbn [option_map]; [f_equal; lia | reflexivity].
Qed.

Lemma Zeqb_eq' a b : Z.eqb a b = true <-> a = b.
Proof. apply Z.eqb_eq. Qed.

Lemma crosswalk_lookup (order : list nat) k :
  NoDup order ->
  py_dict_get Z.eqb (py_dict_of_pairs Z.eqb (map (fun p : Z * Z => (snd p, fst p + 1))
                                                 (py_enumerate (map Z.of_nat order)))) (Z.of_nat k)
  = option_map (fun r => Z.of_nat (S r)) (index_nat k order).
Proof.
  intros ND. unfold py_enumerate. rewrite py_range_len, map_length.
  rewrite (py_dict_of_pairs_nodup Z.eqb Zeqb_eq').
  - rewrite <- (map_length Z.of_nat order) at 1. rewrite map_length. apply (crosswalk_lookup_gen order k 0).
  - rewrite map_map. cbn [fst snd].
    assert (E : map (fun x : Z * Z => snd x) (combine (map Z.of_nat (seq 0 (List.length order))) (map Z.of_nat order))
                = map Z.of_nat order).
    { generalize 0%nat. induction order as [|x t IH]; intros s; [reflexivity|].
      cbn [List.length seq map combine snd]. f_equal. inversion ND; subst. apply IH. assumption. }
    rewrite E. apply FinFun.Injective_map_NoDup; [intros a b; lia | exact ND].
Qed.

Lemma py_compM_forall2_ex {A B C} (F : A -> res (option C)) (R : A -> B -> Prop) (Q : C -> B -> Prop) l l' :
  Forall2 R l l' -> (forall x y, R x y -> exists c, F x = Ok (Some c) /\ Q c y) ->
  exists rs, py_compM F l = Ok rs /\ Forall2 Q rs l'.
Proof.
  intros HR H. induction HR as [|x y xs ys Hxy _ IH].
  - exists []. split; [reflexivity|constructor].
  - destruct (H x y Hxy) as (c & Ec & Qc). destruct IH as (rs & Ers & Qrs).
    exists (c :: rs). split; [|constructor; assumption].
    cbn [py_compM]. rewrite Ec. cbn [Collator.bind]. rewrite Ers. reflexivity.
Qed.

Lemma Forall2_map_r {A B C} (Q : A -> C -> Prop) (g : B -> C) l l' :
  Forall2 (fun a b => Q a (g b)) l l' -> Forall2 Q l (map g l').
Proof. intros H. induction H; simpl; constructor; assumption. Qed.

Lemma Forall2_impl' {A B} (P Q : A -> B -> Prop) l l' :
  (forall a b, In b l' -> P a b -> Q a b) -> Forall2 P l l' -> Forall2 Q l l'.
Proof.
  intros I H. induction H as [|x y xs ys Hxy _ IH]; constructor.
  - apply I; [left; reflexivity | exact Hxy].
  - apply IH. intros a b Hb. apply I. right. exact Hb.
Qed.

Lemma valid_abs_wf oids vs inss :
  Forall2 abs_ins vs (valid_dicts oids inss) -> Forall2 abs_wf_ins vs (valid_dicts oids inss).
Proof.
  apply Forall2_impl'. intros a b Hb Hab. split; [exact Hab|].
  unfold valid_dicts in Hb. apply filter_In in Hb. destruct Hb as [_ V].
  unfold ins_valid in V. destruct (i_wf b); [reflexivity|discriminate].
Qed.

(* the id the model gives to the k-th valid dict *)
Definition wid (fv : bool) (oids : list ident) (ds : list insertion) (kd : nat * insertion) : Z :=
  match i_id (snd kd) with
  | Some z => z
  | None => if fv then match crosswalk_id oids ds (fst kd) with Some z => z | None => 0 end
            else Z.of_nat (S (fst kd))
  end.

Lemma with_ids_wid fv oids ds : with_ids fv oids ds = map (fun kd => (wid fv oids ds kd, snd kd)) (enumerate ds).
Proof.
  unfold with_ids. apply map_ext. intros [k d]. unfold wid. cbn [fst snd].
  destruct (i_id d); [reflexivity|]. destruct fv; reflexivity.
Qed.

Lemma sub_item v i z :
  abs_wf_ins v i ->
  exists d, v = JDict d /\
    (if jd_mem d (JStr "id")
     then exists z0, i_id i = Some z0 /\ abs_sub v (z0, i)
     else i_id i = None /\ abs_sub (JDict (jd_set d (JStr "id") (JInt z))) (z, i)).
Proof.
  intros Hw. destruct (ins_of_anchor v i Hw) as (d & a & -> & Hg & Ha). exists d. split; [reflexivity|].
  destruct Hw as [H _]. simpl in H. unfold jid_abs, jd_mem, py_dict_mem in *.
  change (py_dict_get jv_eqb d (JStr "id")) with (jd_get d (JStr "id")).
  destruct (jd_get d (JStr "id")) as [[| |z0| | | |]|] eqn:Eid; try discriminate.
  - exists z0. split.
    + destruct (ident_of_jv (jd_get_default d (JStr "anchor") JNone)); [|discriminate].
      destruct (fn_subtotal d && (has_key d "anchor" && has_key d "name") && negb (hide_true d));
        [destruct (positive_abs d); [|discriminate]; destruct (negative_abs d); [|discriminate]|];
        inversion H; reflexivity.
    + exists d, a. repeat split; assumption.
  - split.
    + destruct (ident_of_jv (jd_get_default d (JStr "anchor") JNone)); [|discriminate].
      destruct (fn_subtotal d && (has_key d "anchor" && has_key d "name") && negb (hide_true d));
        [destruct (positive_abs d); [|discriminate]; destruct (negative_abs d); [|discriminate]|];
        inversion H; reflexivity.
    + exists (jd_set d (JStr "id") (JInt z)), a. cbn [fst snd]. repeat split.
      * rewrite jd_get_set_str. reflexivity.
      * rewrite jd_get_set_str. exact Hg.
      * exact Ha.
Qed.

Lemma Forall2_In_r {A B} (R : A -> B -> Prop) l l' :
  Forall2 R l l' -> Forall2 (fun x y => R x y /\ In y l') l l'.
Proof.
  intros H. induction H as [|x y xs ys Hxy _ IH]; constructor.
  - split; [exact Hxy | left; reflexivity].
  - apply (Forall2_impl' (fun x0 y0 => R x0 y0 /\ In y0 ys)); [|exact IH].
    intros a b _ [H1 H2]. split; [exact H1 | right; exact H2].
Qed.

Lemma Forall2_enum_map {A B C} (P : A -> B -> Prop) (Q : A -> C -> Prop) (g : nat * B -> C) l l' :
  Forall2 P l l' -> (forall v i k, P v i -> Q v (g (k, i))) -> Forall2 Q l (map g (enumerate l')).
Proof.
  intros H I. unfold enumerate. generalize 0%nat as s.
  induction H as [|x y xs ys Hxy _ IH]; intros s; [constructor|].
  cbn [List.length seq combine map]. constructor; [apply I; exact Hxy | apply IH].
Qed.

Lemma gen__Subtotals__valid_subtotal_dicts_with_ids :
  match src__Subtotals__valid_subtotal_dicts_with_ids with
  | Some f => forall jsv js els fv ids inss, wf_elems els ids -> pj_iter jsv = Ok js -> Forall2 abs_ins js inss ->
      (fv = true -> NoDup (crosswalk_order (map oid ids) (valid_dicts (map oid ids) inss))) ->
      exists rs, f (mkPySubtotals jsv els fv) = Ok rs /\
                 Forall2 abs_sub rs (with_ids fv (map oid ids) (valid_dicts (map oid ids) inss))
  | None => True end.
Proof.
  unfold src__Subtotals__valid_subtotal_dicts_with_ids.
  first [exact I | idtac].
  all: dep gen__Subtotals__iter_valid_subtotal_dicts_C07 src__Subtotals__iter_valid_subtotal_dicts.
  all: dep gen__Subtotals__position_crosswalk src__Subtotals__position_crosswalk.
  all: gen_open; msimpl.
  all: destruct (H jsv js els fv ids inss) as (vs & Ev & Av); [assumption|assumption|assumption|].
  all: rewrite Ev; msimpl.
  all: pose proof (valid_abs_wf _ _ _ Av) as Aw.
  all: set (vinss := valid_dicts (map oid ids) inss) in *.
  all: rewrite with_ids_wid.
  all: set (hasid := fun v => match v with JDict d => jd_mem d (JStr "id") | _ => false end).
  all: assert (Hc : forall v, In v vs -> pj_contains (JStr "id") v = Ok (hasid v))
         by (intros v Hv; clear - Aw Hv;
             induction Aw as [|x y xs ys Hxy _ IH]; [destruct Hv|];
             destruct Hv as [<-|Hv]; [|auto];
             destruct (ins_of_anchor x y Hxy) as (d & a & -> & _); reflexivity).
  all: rewrite (py_allM_ok _ hasid) by (intros v Hv; rewrite (Hc v Hv); reflexivity).
  all: msimpl.
  all: destruct (forallb hasid vs) eqn:Eall;
    [ exists vs; split; [reflexivity|];
          assert (Aw' : Forall2 (fun v i => abs_wf_ins v i /\ hasid v = true) vs vinss)
            by (rewrite forallb_forall in Eall; clear - Aw Eall;
                induction Aw as [|x y xs ys Hxy _ IH]; constructor;
                [split; [exact Hxy | apply Eall; left; reflexivity]
                | apply IH; intros v Hv; apply Eall; right; exact Hv]);
          apply (Forall2_enum_map _ _ _ _ _ Aw');
          intros v i k [Hvi Hid];
          destruct (sub_item v i 0 Hvi) as (d & -> & K); unfold hasid in Hid; rewrite Hid in K;
          destruct K as (z0 & Ez & Ks); unfold wid; cbn [fst snd]; rewrite Ez; exact Ks
       | ].
  all: pose proof (Forall2_In_r _ _ _ (enum_forall2 _ _ _ Aw)) as HE.
  all: destruct fv; msimpl;
    [ rewrite (H0 jsv els true ids vs vinss) by assumption; msimpl | ].
  all: match goal with |- exists rs, bind (py_compM ?F _) _ = _ /\ Forall2 _ _ (map (fun kd => (wid ?b _ _ _, _)) _) =>
         destruct (py_compM_forall2_ex F _
                     (fun c kd => abs_sub c (wid b (map oid ids) vinss kd, snd kd)) _ _ HE)
           as (rs & Ers & Qrs);
         [ intros [idx v] [k i] [[Hidx Hvi] Hin]; cbn [fst snd] in *; subst idx;
           destruct (sub_item v i (wid b (map oid ids) vinss (k, i)) Hvi) as (d & -> & K)
         | exists rs; split; [rewrite Ers; reflexivity | apply Forall2_map_r; exact Qrs] ] end.
  all: cbv beta iota; unfold pj_contains; cbn [jv_hashable]; msimpl.
  all: destruct (jd_mem d (JStr "id")); msimpl.
  all: try (destruct K as (z0 & Ez & Ks); exists (JDict d); split; [reflexivity|];
            unfold wid; cbn [fst snd]; rewrite Ez; exact Ks).
  all: destruct K as (En & Ks); unfold pj_mapping; msimpl.
  (* view insertions: the rank in the crosswalk *)
  all: first [ solve [unfold py_dict_getitem; rewrite crosswalk_lookup by auto;
          destruct (index_nat_in k (crosswalk_order (map oid ids) vinss)
                      (crosswalk_complete (map oid ids) vinss (k, i) Hin)) as (rk & Er);
          rewrite Er; cbn [option_map]; msimpl;
          eexists; split; [reflexivity|];
          replace (Z.of_nat (S rk)) with (wid true (map oid ids) vinss (k, i))
            by (unfold wid, crosswalk_id; cbn [fst snd]; rewrite En, Er; reflexivity);
          exact Ks ]
             | solve [ eexists; split; [reflexivity|];
         replace (Z.of_nat k + 1) with (wid false (map oid ids) vinss (k, i))
           by (unfold wid; cbn [fst snd]; rewrite En; lia);
         exact Ks ] ].
Qed.

(* --- _Subtotals._subtotals / bogus_ids / insertion_ids; _Subtotal.insertion_id ---------------------------- *)
Lemma gen__Subtotal_insertion_id :
  match src__Subtotal_insertion_id with
  | Some f => forall d els z, jd_get d (JStr "id") = Some (JInt z) ->
      f (mkPySubtotal (JDict d) els) = Ok (JInt z)
  | None => True end.
Proof.
  unfold src__Subtotal_insertion_id.
  first [exact I | idtac].
  all: gen_open; msimpl.
  all: unfold pj_getitem; cbn [jv_hashable]; match goal with Hg : jd_get _ _ = Some _ |- _ => rewrite Hg end.
  all: reflexivity.
Qed.

(* a _Subtotal object as the collators read it: (insertion_id, anchor) - Model/PyCollator.v [pysub] *)
Definition sub_view (fid fanchor : pysubtotal -> res jv) (oids : list ident) (s : pysubtotal) (zi : Z * insertion) : Prop :=
  fid s = Ok (JInt (fst zi)) /\ fanchor s = Ok (jv_of_nanchor (norm_anchor oids (i_anchor (snd zi)))).

Lemma gen__Subtotals__subtotals :
  match src__Subtotals__subtotals, src__Subtotal_insertion_id, src__Subtotal_anchor with
  | Some f, Some fid, Some fanchor => forall jsv js els fv ids inss, wf_elems els ids -> pj_iter jsv = Ok js -> Forall2 abs_ins js inss ->
      (fv = true -> NoDup (crosswalk_order (map oid ids) (valid_dicts (map oid ids) inss))) ->
      exists subs, f (mkPySubtotals jsv els fv) = Ok subs /\
                   Forall2 (sub_view fid fanchor (map oid ids)) subs
                           (with_ids fv (map oid ids) (valid_dicts (map oid ids) inss))
  | _, _, _ => True end.
Proof.
  unfold src__Subtotals__subtotals, src__Subtotal___init__.
  first [exact I | idtac].
  all: dep gen__Subtotals__valid_subtotal_dicts_with_ids src__Subtotals__valid_subtotal_dicts_with_ids.
  all: dep gen__Subtotal_insertion_id src__Subtotal_insertion_id.
  all: dep gen__Subtotal_anchor src__Subtotal_anchor.
  all: gen_open; msimpl.
  all: destruct (H jsv js els fv ids inss) as (rs & Ers & Ars); [assumption|assumption|assumption|assumption|].
  all: rewrite Ers; msimpl.
  all: eexists; split; [reflexivity|].
  all: clear - Ars H0 H1 H2.
  all: induction Ars as [|x y xs ys Hxy _ IH]; cbn [map]; constructor; [|exact IH].
  all: destruct Hxy as (d & a & -> & Hid & Ha & Hi).
  all: split;
    [ apply H0; exact Hid | rewrite Hi; apply H1; assumption].
Qed.

Lemma gen__Subtotals__subtotals_ids :
  match src__Subtotals__subtotals, src__Subtotal_insertion_id with
  | Some f, Some fid => forall jsv js els fv ids inss, wf_elems els ids -> pj_iter jsv = Ok js -> Forall2 abs_ins js inss ->
      (fv = true -> NoDup (crosswalk_order (map oid ids) (valid_dicts (map oid ids) inss))) ->
      exists subs, f (mkPySubtotals jsv els fv) = Ok subs /\
                   Forall2 (fun s zi => fid s = Ok (JInt (fst zi))) subs
                           (with_ids fv (map oid ids) (valid_dicts (map oid ids) inss))
  | _, _ => True end.
Proof.
  unfold src__Subtotals__subtotals, src__Subtotal___init__.
  first [exact I | idtac].
  all: dep gen__Subtotals__valid_subtotal_dicts_with_ids src__Subtotals__valid_subtotal_dicts_with_ids.
  all: dep gen__Subtotal_insertion_id src__Subtotal_insertion_id.
  all: gen_open; msimpl.
  all: destruct (H jsv js els fv ids inss) as (rs & Ers & Ars); [assumption|assumption|assumption|assumption|].
  all: rewrite Ers; msimpl.
  all: eexists; split; [reflexivity|].
  all: clear - Ars H0.
  all: induction Ars as [|x y xs ys Hxy _ IH]; cbn [map]; constructor; [|exact IH].
  all: destruct Hxy as (d & a & -> & Hid & Ha & Hi).
  all: apply H0; exact Hid.
Qed.

Lemma gen__Subtotals_insertion_ids :
  match src__Subtotals_insertion_ids with
  | Some f => forall jsv js els fv ids inss, wf_elems els ids -> pj_iter jsv = Ok js -> Forall2 abs_ins js inss ->
      (fv = true -> NoDup (crosswalk_order (map oid ids) (valid_dicts (map oid ids) inss))) ->
      f (mkPySubtotals jsv els fv)
      = Ok (map (fun zi => JInt (fst zi)) (with_ids fv (map oid ids) (valid_dicts (map oid ids) inss)))
  | None => True end.
Proof.
  unfold src__Subtotals_insertion_ids.
  first [exact I | idtac].
  all: generalize gen__Subtotals__subtotals_ids.
  all: destruct src__Subtotals__subtotals as [f|]; [|intros _; exact I].
  all: destruct src__Subtotal_insertion_id as [fid|]; [|intros _; exact I].
  all: intros H.
  all: gen_open; msimpl.
  all: destruct (H jsv js els fv ids inss) as (subs & Es & As); [assumption|assumption|assumption|assumption|].
  all: rewrite Es; msimpl.
  all: rewrite bind_ret.
  all: apply (py_compM_forall2 _ _ _ _ _ As).
  all: intros x y Hx.
  all: rewrite Hx.
  all: reflexivity.
Qed.

(* bogus ids: "ins_<id>" is the id itself (as in Model/PyCollator.v) *)
Lemma gen__Subtotals_bogus_ids :
  match src__Subtotals_bogus_ids with
  | Some f => forall jsv js els fv ids inss, wf_elems els ids -> pj_iter jsv = Ok js -> Forall2 abs_ins js inss ->
      (fv = true -> NoDup (crosswalk_order (map oid ids) (valid_dicts (map oid ids) inss))) ->
      f (mkPySubtotals jsv els fv)
      = Ok (map (fun zi => JInt (fst zi)) (with_ids fv (map oid ids) (valid_dicts (map oid ids) inss)))
  | None => True end.
Proof.
  unfold src__Subtotals_bogus_ids.
  first [exact I | idtac].
  all: generalize gen__Subtotals__subtotals_ids.
  all: destruct src__Subtotals__subtotals as [f|]; [|intros _; exact I].
  all: destruct src__Subtotal_insertion_id as [fid|]; [|intros _; exact I].
  all: intros H.
  all: gen_open; msimpl.
  all: destruct (H jsv js els fv ids inss) as (subs & Es & As); [assumption|assumption|assumption|assumption|].
  all: rewrite Es; msimpl.
  all: rewrite bind_ret.
  all: apply (py_compM_forall2 _ _ _ _ _ As).
  all: intros x y Hx.
  all: rewrite Hx.
  all: reflexivity.
Qed.
