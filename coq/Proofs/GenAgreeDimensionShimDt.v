(* GenAgreeDimensionShimDt: the DATETIME branch of _ElementIdShim.translate_element_id and _element_values_dict,
   as generated from src/cr/cube/dimension.py (Gen/DimensionSrc.v), ARE [dt_translate] / [dt_lookup] of
   Model/Shim.v - for ALL datetime dimension dicts whose elements have identifier ids and whose values are
   identifiers (the date strings) or a dict (the missing element), and all identifiers on which the model's
   restricted isnumeric() / int() agree with Python's ([dt_agrees]). *)
From Coq Require Import List ZArith String Bool Lia Arith.
From CC Require Import Base.XQ Base.Ident Base.PyList Base.PyDict Model.DimType Model.PyDimension Gen.DimensionSrc
  Proofs.GenAgreeDimensionLib Proofs.GenAgreeDimensionSubtotal Proofs.GenAgreeDimensionShim.
From CC Require Model.Shim.
Import ListNotations.
Local Close Scope Q_scope.
Local Open Scope Z_scope.

(* an element of a datetime dimension: (id, value) - the value of the missing element is a JSON object *)
Definition dtitem_of (el : jv) : option (ident * Shim.dtval) :=
  match el with
  | JDict e =>
      match option_map ident_of_jv (jd_get e (JStr "id")), jd_get e (JStr "value") with
      | Some (Some i), Some (JDict _) => Some (i, Shim.DMissing)
      | Some (Some i), Some v => option_map (fun x => (i, Shim.DVal x)) (ident_of_jv v)
      | _, _ => None
      end
  | _ => None
  end.
Fixpoint dtitems_of (els : list jv) : option Shim.dtdim :=
  match els with
  | [] => Some []
  | el :: t => match dtitem_of el, dtitems_of t with Some it, Some r => Some (it :: r) | _, _ => None end
  end.
Definition dtdim_of (dd : jdict) : option Shim.dtdim :=
  match elements_of dd with Some els => dtitems_of els | None => None end.

(* the pairs {id: value} of the non-missing elements, in element order *)
Definition dt_pairs (d : Shim.dtdim) : list (ident * ident) :=
  flat_map (fun kv => match snd kv with Shim.DVal v => [(fst kv, v)] | Shim.DMissing => [] end) d.
Definition jv_pair (kv : ident * ident) : jv * jv := (jv_of_ident (fst kv), jv_of_ident (snd kv)).

(* dicts with identifier keys *)
Fixpoint iget (k : ident) (l : list (ident * ident)) : option ident :=
  match l with [] => None | (k', v) :: t => if ident_eqb k' k then Some v else iget k t end.
Fixpoint iset (l : list (ident * ident)) (k v : ident) : list (ident * ident) :=
  match l with
  | [] => [(k, v)]
  | (k', v') :: t => if ident_eqb k' k then (k', v) :: t else (k', v') :: iset t k v
  end.

Lemma jd_get_ipairs l k : jd_get (map jv_pair l) (jv_of_ident k) = option_map jv_of_ident (iget k l).
Proof.
  unfold jd_get. induction l as [|[k' v] t IH]; [reflexivity|].
  cbn [map jv_pair fst snd py_dict_get iget]. rewrite jv_eqb_ident. destruct (ident_eqb k' k); [reflexivity|exact IH].
Qed.

Lemma jd_set_ipairs l k v : py_dict_set jv_eqb (map jv_pair l) (jv_of_ident k) (jv_of_ident v) = map jv_pair (iset l k v).
Proof.
  induction l as [|[k' v'] t IH]; [reflexivity|].
  cbn [map jv_pair fst snd py_dict_set iset]. rewrite jv_eqb_ident.
  destruct (ident_eqb k' k); cbn [map jv_pair fst snd]; [reflexivity | rewrite IH; reflexivity].
Qed.

Lemma iget_iset l k v k' : iget k' (iset l k v) = if ident_eqb k k' then Some v else iget k' l.
Proof.
  induction l as [|[k0 v0] t IH]; cbn [iset iget].
  - reflexivity.
  - destruct (ident_eqb_spec k0 k) as [->|N]; cbn [iget].
    + destruct (ident_eqb k k'); reflexivity.
    + destruct (ident_eqb_spec k0 k') as [->|N'].
      * destruct (ident_eqb_spec k k') as [->|_]; [congruence|reflexivity].
      * exact IH.
Qed.

Lemma of_pairs_ipairs (l : list (ident * ident)) :
  py_dict_of_pairs jv_eqb (map jv_pair l)
  = map jv_pair (fold_left (fun d kv => iset d (fst kv) (snd kv)) l []).
Proof.
  unfold py_dict_of_pairs. change (@nil (jv * jv)) with (map jv_pair []).
  generalize (@nil (ident * ident)) as acc. induction l as [|[k v] t IH]; intros acc; [reflexivity|].
  cbn [map fold_left jv_pair fst snd]. rewrite jd_set_ipairs. apply IH.
Qed.

(* the last pair with that key *)
Lemma iget_fold l acc k :
  iget k (fold_left (fun d kv => iset d (fst kv) (snd kv)) l acc)
  = fold_left (fun o kv => if ident_eqb (fst kv) k then Some (snd kv) else o) l (iget k acc).
Proof.
  revert acc. induction l as [|[k0 v0] t IH]; intros acc; [reflexivity|].
  cbn [fold_left fst snd]. rewrite IH, iget_iset. reflexivity.
Qed.

Lemma dt_lookup_pairs d k :
  Shim.dt_lookup k d
  = option_map Shim.DVal (fold_left (fun o kv => if ident_eqb (fst kv) k then Some (snd kv) else o) (dt_pairs d) None).
Proof.
  assert (G : forall (l : list (ident * ident)) (o : option ident), fold_left (fun o kv => if ident_eqb (fst kv) k then Some (snd kv) else o) l o
                          = match fold_left (fun o kv => if ident_eqb (fst kv) k then Some (snd kv) else o) l None with
                            | Some v => Some v | None => o end).
  { induction l as [|[k0 v0] t IH]; intros o; [destruct o; reflexivity|].
    cbn [fold_left fst snd]. rewrite (IH (if ident_eqb k0 k then Some v0 else o)), (IH (if ident_eqb k0 k then Some v0 else None)).
    destruct (fold_left _ t None); [reflexivity|]. destruct (ident_eqb k0 k); reflexivity. }
  induction d as [|[k0 v0] t IH]; [reflexivity|].
  cbn [Shim.dt_lookup]. rewrite IH. clear IH.
  change (dt_pairs ((k0, v0) :: t))
    with ((match v0 with Shim.DVal v => [(k0, v)] | Shim.DMissing => [] end) ++ dt_pairs t).
  destruct v0 as [v|]; cbn [app].
  - cbn [fold_left fst snd]. rewrite (G (dt_pairs t) (if ident_eqb k0 k then Some v else None)).
    destruct (fold_left (fun o kv => if ident_eqb (fst kv) k then Some (snd kv) else o) (dt_pairs t) None);
      cbn [option_map]; [reflexivity|].
    rewrite ident_eqb_sym'. destruct (ident_eqb k0 k); reflexivity.
  - destruct (fold_left (fun o kv => if ident_eqb (fst kv) k then Some (snd kv) else o) (dt_pairs t) None);
      reflexivity.
Qed.

Definition abs_dtitem (el : jv) (it : ident * Shim.dtval) : Prop := dtitem_of el = Some it.

Lemma dtitems_forall2 els d : dtitems_of els = Some d -> Forall2 abs_dtitem els d.
Proof.
  revert d. induction els as [|el t IH]; intros d H; simpl in H.
  - inversion H. constructor.
  - destruct (dtitem_of el) as [it|] eqn:E; [|discriminate].
    destruct (dtitems_of t) as [r|]; [|discriminate]. inversion H; subst. constructor; [exact E | apply IH; reflexivity].
Qed.

Lemma gen__ElementIdShim__element_values_dict :
  match src__ElementIdShim__element_values_dict with
  | Some f => forall t dd tr d, dtdim_of dd = Some d ->
      f (mkPyShim t (JDict dd) tr) = Ok (py_dict_of_pairs jv_eqb (map jv_pair (dt_pairs d)))
  | None => True end.
Proof.
  unfold src__ElementIdShim__element_values_dict.
  first [exact I | idtac].
  all: gen_open; msimpl.
  all: match goal with Hd : dtdim_of _ = Some _ |- _ => unfold dtdim_of, elements_of in Hd end.
  all: destruct (jd_get dd (JStr "type")) as [[| | | | | |ty]|] eqn:E1; try discriminate.
  all: destruct (jd_get ty (JStr "elements")) as [[| | | | |els|]|] eqn:E2; try discriminate.
  all: open_elements E1 E2.
  all: match goal with Hd : dtitems_of _ = Some _ |- _ => pose proof (dtitems_forall2 _ _ Hd) as Hit; clear Hd end.
  all: assert (G : forall (F : jv -> res (option (jv * jv))),
                 (forall el it, abs_dtitem el it ->
                    F el = Ok (match snd it with Shim.DVal v => Some (jv_pair (fst it, v)) | Shim.DMissing => None end)) ->
                 py_compM F els = Ok (map jv_pair (dt_pairs d)))
         by (intros F HF; clear - Hit HF; induction Hit as [|el it es is Hel _ IH]; [reflexivity|];
             cbn [py_compM dt_pairs flat_map]; rewrite (HF el it Hel); cbn [Collator.bind];
             change (flat_map (fun kv : ident * Shim.dtval =>
                                 match snd kv with Shim.DVal v => [(fst kv, v)] | Shim.DMissing => [] end) is)
               with (dt_pairs is);
             rewrite IH; cbn [Collator.bind]; destruct (snd it); reflexivity).
  all: rewrite G; [reflexivity|].
  all: intros el [i dv] Hel; unfold abs_dtitem, dtitem_of in Hel.
  all: destruct el as [| | | | | |e]; try discriminate.
  all: destruct (jd_get e (JStr "id")) as [idv|] eqn:Eid; cbn [option_map] in Hel; [|discriminate].
  all: destruct (ident_of_jv idv) as [i0|] eqn:Ei; [|discriminate].
  all: apply jv_of_ident_of_jv in Ei; subst idv.
  all: destruct (jd_get e (JStr "value")) as [v|] eqn:Ev; [|discriminate].
  all: unfold pj_getitem; cbn [jv_hashable]; rewrite Ev; msimpl.
  all: destruct v; cbn [ident_of_jv option_map jv_is_dict negb] in *; inversion Hel; subst; cbn [snd fst];
         try reflexivity; rewrite Eid; msimpl; unfold pj_key; rewrite jv_hashable_ident; reflexivity.
Qed.

(* isnumeric() / int() of the identifier as the model reads them *)
Definition dt_agrees (x : ident) : Prop :=
  match x with
  | IStr s => Ident.isnumeric s = str_isnumeric s /\ (str_isnumeric s = true -> Ident.parse_uint s = str_int s)
  | _ => True
  end.

Definition jv_of_tval (t : Shim.tval) : jv := match t with Shim.TId x => jv_of_ident x | Shim.TObj => JDict [] end.

Lemma gen__ElementIdShim_translate_element_id_datetime :
  match src__ElementIdShim_translate_element_id with
  | Some f => forall dd tr d x, dtdim_of dd = Some d -> dt_agrees x ->
      f (mkPyShim TDatetime (JDict dd) tr) (jv_of_ident x) = Ok (jv_of_tval (Shim.dt_translate d x))
  | None => True end.
Proof.
  unfold src__ElementIdShim_translate_element_id.
  first [exact I | idtac].
  all: destruct src_DT_SHIMMED_TYPES as [shim|] eqn:Es; [|exact I].
  all: dep gen__ElementIdShim__element_values_dict src__ElementIdShim__element_values_dict.
  all: destruct src__ElementIdShim__subvar_aliases; [|exact I].
  all: destruct src__ElementIdShim__raw_element_ids; [|exact I].
  all: destruct src__ElementIdShim__has_mr_insertion; [|exact I].
  all: destruct src__ElementIdShim__subvar_ids; [|exact I].
  all: gen_open; msimpl.
  all: unfold src_DT_SHIMMED_TYPES in Es; inversion Es; subst shim.
  all: cbn [PyList.py_in existsb dtype_eqb dtype_code Nat.eqb orb negb DT_CA_SUBVAR DT_MR_SUBVAR DT_NUM_ARRAY DT_DATETIME].
  all: rewrite (H TDatetime dd tr d) by assumption.
  all: assert (L : forall k, pd_get (py_dict_of_pairs jv_eqb (map jv_pair (dt_pairs d))) (jv_of_ident k) (jv_of_ident x)
                            = Ok (jv_of_tval (match Shim.dt_lookup k d with
                                              | Some (Shim.DVal v) => Shim.TId v
                                              | Some Shim.DMissing => Shim.TObj
                                              | None => Shim.TId x end)))
         by (intros k; unfold pd_get; rewrite jv_hashable_ident; unfold jd_get_default;
             rewrite of_pairs_ipairs, jd_get_ipairs, iget_fold, dt_lookup_pairs; cbn [iget];
             destruct (fold_left _ (dt_pairs d) None); reflexivity).
  all: unfold Shim.dt_translate, Shim.dt_key.
  all: destruct x as [z|s|]; cbn [jv_of_ident jv_is_str]; msimpl.
  all: try (change (JInt z) with (jv_of_ident (IInt z)); rewrite L, bind_ret; reflexivity).
  all: try (change JNone with (jv_of_ident INone); rewrite L, bind_ret; reflexivity).
  all: match goal with Ha : dt_agrees _ |- _ => destruct Ha as [A1 A2] end.
  all: unfold pj_isnumeric; msimpl. all: unfold Ident.isnumeric in A1.
  all: destruct (str_isnumeric s) eqn:En; msimpl;
    [ rewrite (A2 eq_refl) in *; unfold pj_int; cbn [jv_int];
          destruct (str_int s) as [z|]; [|discriminate]; msimpl;
          change (JInt z) with (jv_of_ident (IInt z)); change (JStr s) with (jv_of_ident (IStr s));
          rewrite L, bind_ret; reflexivity
        | destruct (Ident.parse_uint s); [discriminate|];
          change (JStr s) with (jv_of_ident (IStr s)); rewrite L, bind_ret; reflexivity ].
Qed.
