(* Proofs about the cumulative-count median rule of Model/Scale.v ([weighted_median], the rule
   as repaired by dda43200: at an exact 50 % point average with the next category THAT HAS
   COUNTS) against the median of the expanded multiset of respondents' values - property C14.
   No side condition on where empty categories fall. *)
From Coq Require Import QArith ZArith List Bool Lia Arith Lqa Sorted Permutation.
From CC Require Import Base.XQ Base.ListX Spec.Stats Model.Scale.
Import ListNotations.
Local Close Scope Q_scope.
Local Open Scope nat_scope.

Ltac Zify.zify_post_hook ::= Z.to_euclidean_division_equations.

Definition inj (n : nat) : Q := inject_Z (Z.of_nat n).
Definition cnt (n : nat) : xq := Fin (inj n).

(* the expanded, value-ordered list of respondents' values: v_0 c_0 times, v_1 c_1 times ... *)
Definition expand (vs : list Q) (ns : list nat) : list Q :=
  flat_map (fun p => repeat (fst p) (snd p)) (combine vs ns).

(* cumulative count through category k (inclusive) *)
Definition upto (k : nat) (ns : list nat) : nat := list_sum (firstn k ns).

(* ---- generic list facts -------------------------------------------------------------------- *)
Lemma nth_map_lt {A B} (f : A -> B) l k d d' : k < length l -> nth k (map f l) d = f (nth k l d').
Proof.
  intros H. rewrite (nth_indep _ d (f d')) by (rewrite map_length; exact H). apply map_nth.
Qed.

Lemma first_true_props l : existsb (fun b => b) l = true ->
  first_true l < length l /\ nth (first_true l) l false = true /\
  forall j, j < first_true l -> nth j l false = false.
Proof.
  induction l as [|b t IH]; simpl; [discriminate|].
  destruct b; simpl.
  - intros _. split; [lia|]. split; [reflexivity|]. intros j Hj. lia.
  - intros H. destruct (IH H) as [H1 [H2 H3]]. split; [lia|]. split; [exact H2|].
    intros [|j] Hj; [reflexivity|]. apply H3. lia.
Qed.

(* ---- cumulative sums ------------------------------------------------------------------------- *)
Lemma cumsum_from_length acc l : length (cumsum_from acc l) = length l.
Proof. revert acc. induction l as [|c t IH]; intros acc; simpl; auto. Qed.

Lemma cumsum_from_nth acc l k : k < length l ->
  (nth k (cumsum_from acc l) 0 == acc + qsum (firstn (S k) l))%Q.
Proof.
  revert acc k. induction l as [|c t IH]; intros acc k H; simpl in H; [lia|].
  destruct k as [|k].
  - simpl. destruct t; simpl; ring.
  - change (nth (S k) (cumsum_from acc (c :: t)) 0%Q) with (nth k (cumsum_from (acc + c)%Q t) 0%Q).
    rewrite IH by lia. change (firstn (S (S k)) (c :: t)) with (c :: firstn (S k) t).
    simpl qsum. ring.
Qed.

Lemma cumsum_from_last acc l : (last (cumsum_from acc l) acc == acc + qsum l)%Q.
Proof.
  revert acc. induction l as [|c t IH]; intros acc; simpl; [ring|].
  destruct t as [|c' t'].
  - simpl. ring.
  - change (cumsum_from (acc + c)%Q (c' :: t')) with
      ((acc + c + c')%Q :: cumsum_from (acc + c + c')%Q t') in *.
    specialize (IH (acc + c)%Q).
    change (cumsum_from (acc + c)%Q (c' :: t')) with
      ((acc + c + c')%Q :: cumsum_from (acc + c + c')%Q t') in IH.
    assert (E : forall (d1 d2 : Q) (x : Q) (m : list Q), last (x :: m) d1 = last (x :: m) d2).
    { intros d1 d2 x m. revert x. induction m as [|y m IHm]; intros x; [reflexivity|].
      change (last (x :: y :: m) d1) with (last (y :: m) d1).
      change (last (x :: y :: m) d2) with (last (y :: m) d2). apply IHm. }
    rewrite (E acc (acc + c)%Q). rewrite IH. simpl qsum. ring.
Qed.

Lemma inj_add a b : (inj (a + b) == inj a + inj b)%Q.
Proof. unfold inj. rewrite Nat2Z.inj_add, inject_Z_plus. reflexivity. Qed.

Lemma qsum_inj l : (qsum (map inj l) == inj (list_sum l))%Q.
Proof. induction l as [|a t IH]; simpl; [reflexivity|]. rewrite IH, inj_add. reflexivity. Qed.

Lemma inj_le a b : (inj a <= inj b)%Q <-> a <= b.
Proof. unfold inj. rewrite <- Zle_Qle. lia. Qed.
Lemma inj_eq a b : (inj a == inj b)%Q <-> a = b.
Proof. unfold inj. rewrite inject_Z_injective. lia. Qed.
Lemma inj_2 a : (2 * inj a == inj (2 * a))%Q.
Proof. replace (2 * a) with (a + a) by lia. rewrite inj_add. ring. Qed.

Lemma firstn_map {A B} (f : A -> B) k l : firstn k (map f l) = map f (firstn k l).
Proof. revert l. induction k as [|k IH]; intros [|a t]; simpl; auto. f_equal. apply IH. Qed.

Lemma half_le_iff a t : (0 < t)%Q -> ((1 # 2) <= a / t <-> t <= 2 * a)%Q.
Proof.
  intros Ht. split; intros H.
  - assert ((1 # 2) * t <= a / t * t)%Q by (apply Qmult_le_compat_r; lra).
    assert (a / t * t == a)%Q by (field; lra). lra.
  - apply Qle_shift_div_l; [exact Ht|]. lra.
Qed.
Lemma half_eq_iff a t : (0 < t)%Q -> (a / t == (1 # 2) <-> t == 2 * a)%Q.
Proof.
  intros Ht. split; intros H.
  - assert (a / t * t == a)%Q by (field; lra). rewrite H in H0. lra.
  - rewrite H. field. intros E. rewrite E in H. lra.
Qed.

(* ---- locating an index in the expansion ------------------------------------------------------- *)
Lemma expand_cons v vt n nt : expand (v :: vt) (n :: nt) = repeat v n ++ expand vt nt.
Proof. reflexivity. Qed.

Lemma expand_length vs ns : length vs = length ns -> length (expand vs ns) = list_sum ns.
Proof.
  revert ns. induction vs as [|v vt IH]; intros [|n nt] H; simpl in H; try lia; [reflexivity|].
  rewrite expand_cons, app_length, repeat_length, IH by lia. reflexivity.
Qed.

Lemma nth_repeat_lt {A} (a d : A) m j : j < m -> nth j (repeat a m) d = a.
Proof.
  intros H. rewrite (nth_indep _ d a) by (rewrite repeat_length; exact H). apply nth_repeat.
Qed.

Lemma list_sum_cons a l : list_sum (a :: l) = a + list_sum l.
Proof. reflexivity. Qed.

Lemma nth_expand vs ns k j d : length vs = length ns -> k < length ns ->
  upto k ns <= j < upto (S k) ns -> nth j (expand vs ns) d = nth k vs d.
Proof.
  unfold upto. revert ns k j.
  induction vs as [|v vt IH]; intros [|n nt] k j Hl Hk Hj; simpl in Hl, Hk; try lia.
  rewrite expand_cons. destruct k as [|k].
  - simpl in Hj. rewrite app_nth1 by (rewrite repeat_length; lia).
    apply nth_repeat_lt. lia.
  - change (firstn (S (S k)) (n :: nt)) with (n :: firstn (S k) nt) in Hj.
    change (firstn (S k) (n :: nt)) with (n :: firstn k nt) in Hj.
    rewrite !list_sum_cons in Hj.
    rewrite app_nth2 by (rewrite repeat_length; lia). rewrite repeat_length.
    simpl nth. apply IH; lia.
Qed.

Lemma upto_all ns k : length ns <= k -> upto k ns = list_sum ns.
Proof. intros H. unfold upto. rewrite firstn_all2 by exact H. reflexivity. Qed.

Lemma upto_S ns k : upto (S k) ns = upto k ns + nth k ns 0.
Proof.
  unfold upto. revert k. induction ns as [|n nt IH]; intros k.
  - rewrite !firstn_nil. destruct k; reflexivity.
  - destruct k as [|k].
    + simpl. lia.
    + change (firstn (S (S k)) (n :: nt)) with (n :: firstn (S k) nt).
      change (firstn (S k) (n :: nt)) with (n :: firstn k nt).
      rewrite !list_sum_cons. rewrite IH. simpl nth. lia.
Qed.

Lemma upto_mono ns k : upto k ns <= upto (S k) ns.
Proof. rewrite upto_S. lia. Qed.

Lemma upto_le_total ns k : upto k ns <= list_sum ns.
Proof.
  unfold upto. revert k. induction ns as [|n nt IH]; intros k.
  - rewrite firstn_nil. simpl. lia.
  - destruct k; simpl; [lia|]. specialize (IH k). lia.
Qed.

(* ---- what the model's rule computes -------------------------------------------------------------- *)
(* the k-th cumulative proportion test *)
Lemma cum_nth_inj ns k : k < length ns ->
  (nth k (cumsum (map inj ns)) 0 == inj (upto (S k) ns))%Q.
Proof.
  intros H. unfold cumsum. rewrite cumsum_from_nth by (rewrite map_length; exact H).
  rewrite firstn_map, qsum_inj. unfold upto. ring.
Qed.

Lemma cum_total_inj ns : (last (cumsum (map inj ns)) 0 == inj (list_sum ns))%Q.
Proof. unfold cumsum. rewrite cumsum_from_last, qsum_inj. ring. Qed.

Lemma map_cnt ns : map nan_to_num (map cnt ns) = map inj ns.
Proof. rewrite map_map. reflexivity. Qed.

Lemma half_even h : (2 * h) / 2 = h.
Proof. rewrite Nat.mul_comm. apply Nat.div_mul. lia. Qed.
Lemma half_odd h : (2 * h + 1) / 2 = h.
Proof. symmetry. apply (Nat.div_unique _ 2 h 1); lia. Qed.

Section Rule.
  Variable vs : list Q.
  Variable ns : list nat.
  Hypothesis Hlen : length vs = length ns.
  Hypothesis Hpos : 0 < list_sum ns.

  Let N := list_sum ns.
  Let cum := cumsum (map inj ns).
  Let total := last cum 0%Q.
  Let props := map (fun c => c / total)%Q cum.
  Let bs := map (fun p => Qle_bool (1 # 2) p) props.

  Lemma total_eq : (total == inj N)%Q.
  Proof. apply cum_total_inj. Qed.
  Lemma total_pos : (0 < total)%Q.
  Proof.
    rewrite total_eq. change 0%Q with (inj 0).
    apply Qle_lt_trans with (inj 0); [apply Qle_refl|].
    apply Qlt_alt. unfold inj. rewrite <- Qlt_alt. rewrite <- Zlt_Qlt. unfold N. lia.
  Qed.
  Lemma cum_len : length cum = length ns.
  Proof. unfold cum, cumsum. rewrite cumsum_from_length, map_length. reflexivity. Qed.
  Lemma ns_nonempty : 0 < length ns.
  Proof. destruct ns; simpl in *; lia. Qed.

  Lemma prop_nth k : k < length ns -> (nth k props 0 == inj (upto (S k) ns) / total)%Q.
  Proof.
    intros H. unfold props.
    rewrite (nth_map_lt (fun c => c / total)%Q cum k 0%Q 0%Q) by (rewrite cum_len; exact H).
    unfold cum. rewrite cum_nth_inj by exact H. reflexivity.
  Qed.

  Lemma b_nth k : k < length ns -> (nth k bs false = true <-> N <= 2 * upto (S k) ns).
  Proof.
    intros H. unfold bs.
    rewrite (nth_map_lt (fun p => Qle_bool (1 # 2) p) props k false 0%Q)
      by (unfold props; rewrite map_length, cum_len; exact H).
    rewrite Qle_bool_iff, prop_nth by exact H.
    rewrite half_le_iff by exact total_pos.
    rewrite total_eq, inj_2, inj_le. reflexivity.
  Qed.

  Lemma bs_len : length bs = length ns.
  Proof. unfold bs, props. rewrite !map_length. apply cum_len. Qed.

  Lemma bs_has_true : existsb (fun b => b) bs = true.
  Proof.
    apply existsb_exists. exists true. split; [|reflexivity].
    pose proof ns_nonempty as Hn.
    assert (Hk : length ns - 1 < length ns) by lia.
    assert (E : nth (length ns - 1) bs false = true).
    { apply b_nth; [exact Hk|]. replace (S (length ns - 1)) with (length ns) by lia.
      rewrite upto_all by lia. unfold N. lia. }
    rewrite <- E. apply nth_In. rewrite bs_len. exact Hk.
  Qed.

  Let idx := argmax_bool bs.

  Lemma idx_props :
    idx < length ns /\ N <= 2 * upto (S idx) ns /\ 2 * upto idx ns < N.
  Proof.
    destruct (first_true_props bs bs_has_true) as [H1 [H2 H3]].
    assert (E : idx = first_true bs).
    { unfold idx, argmax_bool. apply Nat.ltb_lt in H1. rewrite H1. reflexivity. }
    rewrite E. rewrite bs_len in H1. split; [exact H1|]. split.
    - apply b_nth; assumption.
    - destruct (first_true bs) as [|j] eqn:Ej.
      + unfold upto. simpl. unfold N. lia.
      + assert (Hj : j < S j) by lia. specialize (H3 j Hj).
        destruct (Nat.lt_ge_cases (2 * upto (S j) ns) N) as [L|L]; [exact L|].
        apply b_nth in L; [|lia]. congruence.
  Qed.

  Lemma half_test : Qeq_bool (nth idx props 0%Q) (1 # 2) = true <-> N = 2 * upto (S idx) ns.
  Proof.
    destruct idx_props as [Hi _].
    rewrite Qeq_bool_iff, prop_nth by exact Hi.
    rewrite half_eq_iff by exact total_pos.
    rewrite total_eq, inj_2, inj_eq. reflexivity.
  Qed.

  Lemma expand_len : length (expand vs ns) = N.
  Proof. apply expand_length. exact Hlen. Qed.
End Rule.

(* ---- the exact-half branch: the next category that has counts ------------------------------- *)
Lemma pos_test n : negb (Qle_bool (inj n) 0) = true <-> 0 < n.
Proof.
  rewrite negb_true_iff. split.
  - intros H. destruct n; [|lia]. exfalso.
    assert (E : Qle_bool (inj 0) 0 = true) by reflexivity. congruence.
  - intros H. destruct (Qle_bool (inj n) 0) eqn:E; [|reflexivity].
    apply Qle_bool_iff in E. change 0%Q with (inj 0) in E. apply inj_le in E. lia.
Qed.

Lemma upto_zero_run ns a d : (forall k, a <= k < a + d -> nth k ns 0 = 0) ->
  upto (a + d) ns = upto a ns.
Proof.
  induction d as [|d IH]; intros H; [rewrite Nat.add_0_r; reflexivity|].
  replace (a + S d) with (S (a + d)) by lia. rewrite upto_S, IH.
  - rewrite (H (a + d)) by lia. lia.
  - intros k Hk. apply H. lia.
Qed.

Lemma nth_skipn_inj ns a j : nth j (skipn a (map inj ns)) (inj 0) = inj (nth (a + j) ns 0).
Proof. rewrite nth_skipn_add. apply map_nth. Qed.

Section Repaired.
  Variable vs : list Q.
  Variable ns : list nat.
  Hypothesis Hlen : length vs = length ns.
  Hypothesis Hpos : 0 < list_sum ns.

  Theorem weighted_median_middle :
    exists m, weighted_median (map cnt ns) vs = Fin m /\ (m == middle (expand vs ns))%Q.
  Proof.
    pose proof (idx_props vs ns Hlen Hpos) as Hidx.
    pose proof (half_test vs ns Hlen Hpos) as Hhalf.
    pose proof (total_pos vs ns Hlen Hpos) as Htot.
    unfold weighted_median. rewrite map_cnt.
    set (cum := cumsum (map inj ns)) in *.
    set (total := last cum 0%Q) in *.
    set (props := map (fun c => (c / total)%Q) cum) in *.
    set (idx := argmax_bool (map (fun p => Qle_bool (1 # 2) p) props)) in *.
    assert (E0 : Qeq_bool total 0 = false).
    { destruct (Qeq_bool total 0) eqn:E0; [|reflexivity]. apply Qeq_bool_iff in E0. lra. }
    rewrite E0.
    destruct Hidx as [Hi [Hhi Hlo]].
    pose proof (upto_mono ns idx) as Hmono.
    unfold middle. rewrite (expand_len vs ns Hlen).
    destruct (Qeq_bool (nth idx props 0%Q) (1 # 2)) eqn:Eh.
    - clear Eh. assert (Eh : list_sum ns = 2 * upto (S idx) ns) by (apply Hhalf; reflexivity).
      set (bs2 := map (fun c => negb (Qle_bool c 0)) (skipn (S idx) (map inj ns))).
      assert (Hlen2 : length bs2 = length ns - S idx).
      { unfold bs2. rewrite map_length, skipn_length, map_length. reflexivity. }
      assert (Hnth2 : forall j, j < length bs2 -> (nth j bs2 false = true <-> 0 < nth (S idx + j) ns 0)).
      { intros j Hj. unfold bs2.
        rewrite (nth_map_lt (fun c => negb (Qle_bool c 0)) _ j false (inj 0))
          by (unfold bs2 in Hj; rewrite map_length in Hj; exact Hj).
        rewrite nth_skipn_inj. apply pos_test. }
      assert (Hex : existsb (fun b => b) bs2 = true).
      { destruct (existsb (fun b => b) bs2) eqn:Ex; [reflexivity|]. exfalso.
        assert (Hz : forall k, S idx <= k < S idx + (length ns - S idx) -> nth k ns 0 = 0).
        { intros k Hk. destruct (nth k ns 0) as [|p] eqn:Ek; [reflexivity|]. exfalso.
          assert (Hj : k - S idx < length bs2) by lia.
          assert (T : nth (k - S idx) bs2 false = true).
          { apply Hnth2; [exact Hj|]. replace (S idx + (k - S idx)) with k by lia. lia. }
          assert (In true bs2) by (rewrite <- T; apply nth_In; exact Hj).
          assert (existsb (fun b => b) bs2 = true) by (apply existsb_exists; exists true; auto).
          congruence. }
        pose proof (upto_zero_run ns (S idx) (length ns - S idx) Hz) as Hrun.
        rewrite (upto_all ns) in Hrun by lia. lia. }
      destruct (first_true_props bs2 Hex) as [F1 [F2 F3]].
      assert (Ej : argmax_bool bs2 = first_true bs2).
      { unfold argmax_bool. apply Nat.ltb_lt in F1. rewrite F1. reflexivity. }
      fold bs2. rewrite Ej. set (j := first_true bs2) in *.
      assert (Hnext : S idx + j < length ns) by lia.
      assert (Hg : 0 < nth (S idx + j) ns 0) by (apply Hnth2; assumption).
      assert (Hrun : upto (S idx + j) ns = upto (S idx) ns).
      { apply upto_zero_run. intros k Hk.
        destruct (nth k ns 0) as [|p] eqn:Ek; [reflexivity|]. exfalso.
        assert (Hk2 : k - S idx < j) by lia.
        specialize (F3 _ Hk2).
        assert (T : nth (k - S idx) bs2 false = true).
        { apply Hnth2; [lia|]. replace (S idx + (k - S idx)) with k by lia. lia. }
        congruence. }
      assert (Ev : Nat.even (list_sum ns) = true).
      { apply Nat.even_spec. exists (upto (S idx) ns). exact Eh. }
      rewrite Ev. eexists. split; [reflexivity|].
      assert (E1 : list_sum ns / 2 = upto (S idx) ns) by (rewrite Eh; apply half_even).
      rewrite E1.
      rewrite (nth_expand vs ns idx (upto (S idx) ns - 1) 0%Q Hlen Hi) by lia.
      rewrite (nth_expand vs ns (S idx + j) (upto (S idx) ns) 0%Q Hlen Hnext)
        by (rewrite (upto_S ns (S idx + j)); lia).
      reflexivity.
    - assert (Hne : list_sum ns <> 2 * upto (S idx) ns).
      { intros E. apply Hhalf in E. discriminate. }
      eexists. split; [reflexivity|].
      destruct (Nat.even (list_sum ns)) eqn:Ev.
      + apply Nat.even_spec in Ev. destruct Ev as [h Eh2].
        assert (E1 : list_sum ns / 2 = h) by (rewrite Eh2; apply half_even). rewrite E1.
        rewrite (nth_expand vs ns idx (h - 1) 0%Q Hlen Hi) by lia.
        rewrite (nth_expand vs ns idx h 0%Q Hlen Hi) by lia.
        field.
      + assert (Od : Nat.odd (list_sum ns) = true) by (rewrite <- Nat.negb_even, Ev; reflexivity).
        apply Nat.odd_spec in Od. destruct Od as [h Eh2].
        assert (E1 : list_sum ns / 2 = h) by (rewrite Eh2; apply half_odd). rewrite E1.
        rewrite (nth_expand vs ns idx h 0%Q Hlen Hi) by lia.
        reflexivity.
  Qed.
End Repaired.


(* ---- the expansion of value-sorted categories is ascending --------------------------------------- *)
Lemma expand_In vs ns x : In x (expand vs ns) -> In x vs.
Proof.
  revert ns. induction vs as [|v vt IH]; intros [|n nt]; simpl; try tauto.
  change (flat_map (fun p => repeat (fst p) (snd p)) ((v, n) :: combine vt nt))
    with (expand (v :: vt) (n :: nt)).
  rewrite expand_cons. intros H. apply in_app_or in H. destruct H as [H|H].
  - left. symmetry. apply (repeat_spec _ _ _ H).
  - right. apply (IH nt). exact H.
Qed.

Lemma expand_strongly_sorted vs ns : StronglySorted Qle vs -> StronglySorted Qle (expand vs ns).
Proof.
  revert ns. induction vs as [|v vt IH]; intros [|n nt] H; try (simpl; constructor).
  rewrite expand_cons. inversion H as [|? ? Ht Hv]; subst.
  induction n as [|n IHn]; simpl.
  - apply IH. exact Ht.
  - constructor; [exact IHn|].
    apply Forall_app. split.
    + apply Forall_forall. intros x Hx. apply repeat_spec in Hx. subst. apply Qle_refl.
    + apply Forall_forall. intros x Hx. apply expand_In in Hx.
      rewrite Forall_forall in Hv. apply Hv. exact Hx.
Qed.

Lemma Qle_Transitive : Relations_1.Transitive Qle.
Proof. intros x y z. apply Qle_trans. Qed.

Lemma expand_sorted vs ns : Sorted Qle vs -> Sorted Qle (expand vs ns).
Proof.
  intros H. apply StronglySorted_Sorted. apply expand_strongly_sorted.
  apply Sorted_StronglySorted; [exact Qle_Transitive|exact H].
Qed.

Lemma ascending_sorted l : ascending l = true -> Sorted Qle l.
Proof.
  induction l as [|x t IH]; intros H; [constructor|].
  destruct t as [|y t'].
  - constructor; constructor.
  - simpl in H. apply andb_prop in H. destruct H as [H1 H2].
    constructor; [apply IH; exact H2|]. constructor. apply Qle_bool_iff. exact H1.
Qed.

(* ---- median theorem at the level of value-sorted categories --------------------------------------- *)
Theorem weighted_median_is_median vs ns :
  length vs = length ns -> Sorted Qle vs -> 0 < list_sum ns ->
  exists m, weighted_median (map cnt ns) vs = Fin m /\ is_median_of (expand vs ns) m.
Proof.
  intros Hl Hs Hp.
  destruct (weighted_median_middle vs ns Hl Hp) as [m [E Em]].
  exists m. split; [exact E|]. split.
  - intros H0. pose proof (expand_length vs ns Hl) as L. rewrite H0 in L. simpl in L. lia.
  - exists (expand vs ns). split; [apply Permutation_refl|]. split; [|exact Em].
    apply expand_sorted. exact Hs.
Qed.

(* nobody with a value: NaN *)
Theorem weighted_median_empty vs ns : list_sum ns = 0 -> weighted_median (map cnt ns) vs = NaN.
Proof.
  intros H. unfold weighted_median. rewrite map_cnt.
  assert (E : Qeq_bool (last (cumsum (map inj ns)) 0%Q) 0 = true).
  { apply Qeq_bool_iff. rewrite cum_total_inj, H. reflexivity. }
  rewrite E. reflexivity.
Qed.

(* ---- difference vectors ----------------------------------------------------------------------------- *)
Lemma cumsum_zero_last (l : list xq) acc : Forall (fun a => a = NaN) l ->
  (last (cumsum_from acc (map nan_to_num l)) acc == acc)%Q.
Proof.
  intros H. rewrite cumsum_from_last.
  assert (E : (qsum (map nan_to_num l) == 0)%Q).
  { induction H as [|a t Ha Ht IH]; simpl; [reflexivity|]. rewrite Ha, IH. simpl. ring. }
  rewrite E. ring.
Qed.

Theorem scale_median_diff ord counts vals : scale_median_vec ord true counts vals = NaN.
Proof.
  unfold scale_median_vec, comparable, weighted_median.
  assert (H : Forall (fun a => a = NaN) (map (fun i => vnth (map (fun _ : xq => NaN) counts) i) ord)).
  { rewrite Forall_map. apply Forall_forall. intros i _. unfold vnth.
    destruct (Nat.lt_ge_cases i (length counts)) as [L|L].
    - rewrite (nth_map_lt (fun _ : xq => NaN) counts i NaN NaN L). reflexivity.
    - apply nth_overflow. rewrite map_length. exact L. }
  pose proof (cumsum_zero_last _ 0%Q H) as E. unfold cumsum.
  apply Qeq_bool_iff in E. rewrite E. reflexivity.
Qed.

(* ---- from the vector of a slice to the value-sorted categories ------------------------------------- *)
Lemma nodup_nat_NoDup l : nodup_nat l = true -> NoDup l.
Proof.
  induction l as [|x t IH]; simpl; intros H; [constructor|].
  apply andb_prop in H. destruct H as [H1 H2]. constructor; [|apply IH; exact H2].
  intros Hin. apply negb_true_iff in H1.
  assert (E : mem_nat x t = true).
  { clear -Hin. induction t as [|y t IH]; simpl in *; [contradiction|].
    destruct Hin as [->|Hin]; [rewrite Nat.eqb_refl; reflexivity|].
    rewrite (IH Hin). apply orb_true_r. }
  congruence.
Qed.

Lemma valued_idxs_In vals i :
  In i (valued_idxs vals) <-> i < length vals /\ is_nan (vnth vals i) = false.
Proof.
  unfold valued_idxs. rewrite filter_In, in_seq, negb_true_iff. split; intros [H1 H2]; split; auto; lia.
Qed.

Lemma valid_order_props vals ord : valid_order vals ord = true ->
  Permutation ord (valued_idxs vals) /\
  Forall (fun i => i < length vals) ord /\
  Sorted Qle (map (fun i => nan_to_num (vnth vals i)) ord).
Proof.
  unfold valid_order. intros H.
  apply andb_prop in H. destruct H as [H H4].
  apply andb_prop in H. destruct H as [H H3].
  apply andb_prop in H. destruct H as [H1 H2].
  apply Nat.eqb_eq in H2. rewrite forallb_forall in H3.
  assert (Hin : forall i, In i ord -> i < length vals /\ is_nan (vnth vals i) = false).
  { intros i Hi. specialize (H3 i Hi). apply andb_prop in H3. destruct H3 as [A B].
    apply Nat.ltb_lt in A. apply negb_true_iff in B. auto. }
  split; [|split].
  - apply NoDup_Permutation_bis; [apply nodup_nat_NoDup; exact H1|lia|].
    intros i Hi. apply valued_idxs_In. apply Hin. exact Hi.
  - apply Forall_forall. intros i Hi. apply Hin. exact Hi.
  - apply ascending_sorted. exact H4.
Qed.

Lemma expand_map (fv : nat -> Q) (fc : nat -> nat) ord :
  expand (map fv ord) (map fc ord) = flat_map (fun i => repeat (fv i) (fc i)) ord.
Proof.
  induction ord as [|i t IH]; [reflexivity|].
  simpl map. rewrite expand_cons, IH. reflexivity.
Qed.

Lemma counts_along ns ord : Forall (fun i => i < length ns) ord ->
  map (fun i => vnth (map cnt ns) i) ord = map cnt (map (fun i => nth i ns 0) ord).
Proof.
  intros H. rewrite map_map. apply map_ext_in. intros i Hi.
  rewrite Forall_forall in H. unfold vnth.
  apply (nth_map_lt cnt ns i NaN 0). apply H. exact Hi.
Qed.

(* the median of a (non-difference) vector with integer counts [ns] (payload order) *)
Theorem scale_median_vec_eq vals ns ord :
  valid_order vals ord = true -> length vals = length ns ->
  let vs := map (fun i => nan_to_num (vnth vals i)) ord in
  let cs := map (fun i => nth i ns 0) ord in
  0 < list_sum cs ->
  exists m, scale_median_vec ord false (map cnt ns) vals = Fin m /\ is_median_of (expand vs cs) m.
Proof.
  intros Hv Hl vs cs Hp.
  destruct (valid_order_props vals ord Hv) as [_ [Hlt Hs]].
  unfold scale_median_vec, comparable.
  rewrite counts_along by (rewrite <- Hl; exact Hlt).
  apply weighted_median_is_median; try assumption.
  unfold vs, cs. rewrite !map_length. reflexivity.
Qed.

Theorem scale_median_vec_nan vals ns ord :
  Forall (fun i => i < length ns) ord ->
  list_sum (map (fun i => nth i ns 0) ord) = 0 ->
  scale_median_vec ord false (map cnt ns) vals = NaN.
Proof.
  intros Hlt H0. unfold scale_median_vec, comparable.
  rewrite counts_along by exact Hlt. apply weighted_median_empty. exact H0.
Qed.

(* ---- respondents: the expansion along ANY valid order is a rearrangement of the values of the
        individual respondents -------------------------------------------------------------------- *)
Lemma incr_at_length k l : length (incr_at k l) = length l.
Proof. revert k. induction l as [|c t IH]; intros [|k]; simpl; auto. Qed.

Lemma tally_nat_length n rs : length (tally_nat n rs) = n.
Proof.
  unfold tally_nat. induction rs as [|r t IH]; simpl; [apply repeat_length|].
  rewrite incr_at_length. exact IH.
Qed.

Lemma nth_incr_at k l i : k < length l ->
  nth i (incr_at k l) 0 = nth i l 0 + (if i =? k then 1 else 0).
Proof.
  revert k i. induction l as [|c t IH]; intros k i H; simpl in H; [lia|].
  destruct k as [|k]; destruct i as [|i]; cbn [incr_at nth Nat.eqb]; try lia.
  rewrite IH by lia. reflexivity.
Qed.

Lemma flat_map_bump (fv : nat -> Q) (fc : nat -> nat) c L : NoDup L ->
  Permutation (flat_map (fun i => repeat (fv i) (fc i + (if i =? c then 1 else 0))) L)
              ((if in_dec Nat.eq_dec c L then [fv c] else []) ++
               flat_map (fun i => repeat (fv i) (fc i)) L).
Proof.
  intros H. induction H as [|a t Ha Ht IH]; [simpl; constructor|].
  cbn [flat_map]. destruct (Nat.eqb_spec a c) as [->|Hne].
  - rewrite Nat.add_1_r. cbn [repeat].
    destruct (in_dec Nat.eq_dec c (c :: t)) as [_|N]; [|exfalso; apply N; left; reflexivity].
    destruct (in_dec Nat.eq_dec c t) as [I|_]; [contradiction|].
    simpl app in *. constructor. apply Permutation_app_head. exact IH.
  - rewrite Nat.add_0_r.
    destruct (in_dec Nat.eq_dec c (a :: t)) as [I|N];
      destruct (in_dec Nat.eq_dec c t) as [I'|N']; simpl app in *.
    + rewrite IH. apply Permutation_sym, Permutation_middle.
    + exfalso. destruct I; [congruence|contradiction].
    + exfalso. apply N. right. exact I'.
    + apply Permutation_app_head. exact IH.
Qed.

Lemma flat_map_ext_in {A B} (f g : A -> list B) l : (forall x, In x l -> f x = g x) ->
  flat_map f l = flat_map g l.
Proof.
  induction l as [|a t IH]; intros H; [reflexivity|]. simpl.
  rewrite (H a) by (left; reflexivity). rewrite IH; [reflexivity|].
  intros x Hx. apply H. right. exact Hx.
Qed.

Lemma nth_repeat0 n i : nth i (repeat 0 n) 0 = 0.
Proof. revert i. induction n as [|n IH]; intros [|i]; simpl; auto. Qed.

Definition cats_below_nat (n : nat) (rs : list nat) : Prop := Forall (fun c => c < n) rs.

Lemma xval_num ovals c v : nth c ovals None = Some v -> nan_to_num (vnth (map xval ovals) c) = v.
Proof.
  intros H. unfold vnth.
  destruct (Nat.lt_ge_cases c (length ovals)) as [L|L].
  - rewrite (nth_map_lt xval ovals c NaN None L), H. reflexivity.
  - rewrite nth_overflow in H by exact L. discriminate.
Qed.

Lemma valued_idx_iff ovals c :
  In c (valued_idxs (map xval ovals)) <-> exists v, nth c ovals None = Some v.
Proof.
  rewrite valued_idxs_In, map_length. unfold vnth. split.
  - intros [L H]. rewrite (nth_map_lt xval ovals c NaN None L) in H.
    destruct (nth c ovals None) as [v|]; [exists v; reflexivity|discriminate].
  - intros [v H].
    destruct (Nat.lt_ge_cases c (length ovals)) as [L|L].
    + split; [exact L|]. rewrite (nth_map_lt xval ovals c NaN None L), H. reflexivity.
    + rewrite nth_overflow in H by exact L. discriminate.
Qed.

Lemma tally_values ovals rs : cats_below_nat (length ovals) rs ->
  Permutation
    (flat_map (fun i => repeat (nan_to_num (vnth (map xval ovals) i))
                               (nth i (tally_nat (length ovals) rs) 0))
              (valued_idxs (map xval ovals)))
    (values_of ovals rs).
Proof.
  intros H. induction H as [|c t Hc Ht IH].
  - simpl values_of. unfold tally_nat. simpl fold_right.
    rewrite (flat_map_ext_in _ (fun _ => [])).
    + induction (valued_idxs (map xval ovals)); simpl; auto.
    + intros i _. rewrite nth_repeat0. reflexivity.
  - change (tally_nat (length ovals) (c :: t)) with (incr_at c (tally_nat (length ovals) t)).
    rewrite (flat_map_ext_in _
      (fun i => repeat (nan_to_num (vnth (map xval ovals) i))
                       (nth i (tally_nat (length ovals) t) 0 + (if i =? c then 1 else 0)))).
    2:{ intros i _. rewrite nth_incr_at by (rewrite tally_nat_length; exact Hc). reflexivity. }
    rewrite flat_map_bump by (apply NoDup_filter, seq_NoDup).
    simpl values_of. apply Permutation_app; [|exact IH].
    destruct (in_dec Nat.eq_dec c (valued_idxs (map xval ovals))) as [I|N].
    + apply valued_idx_iff in I. destruct I as [v Hv]. rewrite Hv, (xval_num _ _ _ Hv). constructor; constructor.
    + destruct (nth c ovals None) as [v|] eqn:E; [|constructor].
      exfalso. apply N. apply valued_idx_iff. exists v. exact E.
Qed.

(* C14 median at respondent level: unit-weight respondents [rs] (their categories), the vector
   is their tally; any order numpy may have chosen among equal values; empty categories may fall
   anywhere in the value order *)
Theorem median_eq ovals rs ord :
  let vals := map xval ovals in
  let ns := tally_nat (length ovals) rs in
  cats_below_nat (length ovals) rs ->
  valid_order vals ord = true ->
  values_of ovals rs <> [] ->
  exists m, scale_median_vec ord false (map cnt ns) vals = Fin m /\
            is_median_of (values_of ovals rs) m.
Proof.
  intros vals ns Hc Hv Hne.
  destruct (valid_order_props vals ord Hv) as [Hperm _].
  assert (Hl : length vals = length ns).
  { unfold vals, ns. rewrite map_length, tally_nat_length. reflexivity. }
  assert (HP : Permutation
            (expand (map (fun i => nan_to_num (vnth vals i)) ord) (map (fun i => nth i ns 0) ord))
            (values_of ovals rs)).
  { rewrite expand_map. rewrite (Permutation_flat_map _ Hperm). apply tally_values. exact Hc. }
  assert (Hpos : 0 < list_sum (map (fun i => nth i ns 0) ord)).
  { rewrite <- (expand_length (map (fun i => nan_to_num (vnth vals i)) ord))
      by (rewrite !map_length; reflexivity).
    destruct (expand _ _) as [|x l] eqn:E; [|simpl; lia].
    apply Permutation_nil in HP. contradiction. }
  destruct (scale_median_vec_eq vals ns ord Hv Hl Hpos) as [m [E [_ [s [P1 [P2 P3]]]]]].
  exists m. split; [exact E|]. split; [exact Hne|].
  exists s. split; [|split; assumption].
  rewrite P1. exact HP.
Qed.

(* no numeric-valued respondent: NaN *)
Theorem median_nan ovals rs ord :
  let vals := map xval ovals in
  let ns := tally_nat (length ovals) rs in
  cats_below_nat (length ovals) rs ->
  valid_order vals ord = true ->
  values_of ovals rs = [] ->
  scale_median_vec ord false (map cnt ns) vals = NaN.
Proof.
  intros vals ns Hc Hv He.
  destruct (valid_order_props vals ord Hv) as [Hperm [Hlt _]].
  assert (Hl : length vals = length ns).
  { unfold vals, ns. rewrite map_length, tally_nat_length. reflexivity. }
  apply scale_median_vec_nan; [rewrite <- Hl; exact Hlt|].
  rewrite <- (expand_length (map (fun i => nan_to_num (vnth vals i)) ord))
    by (rewrite !map_length; reflexivity).
  rewrite expand_map.
  assert (HP : Permutation (flat_map (fun i => repeat (nan_to_num (vnth vals i)) (nth i ns 0)) ord) []).
  { rewrite (Permutation_flat_map _ Hperm). rewrite <- He. apply tally_values. exact Hc. }
  apply Permutation_sym, Permutation_nil in HP. rewrite HP. reflexivity.
Qed.

(* the former witness of finding C14-median-zero-count-after-half (counts 2,0,2 on the values
   1,2,3 gave 3/2 before dda43200): now the median 2 of the respondents' values 1,1,3,3 *)
Theorem median_former_witness :
  let ovals := [Some 1; Some 2; Some 3]%Q in
  let rs := [0; 0; 2; 2] in
  cats_below_nat (length ovals) rs /\
  valid_order (map xval ovals) [0; 1; 2] = true /\
  tally_nat 3 rs = [2; 0; 2] /\ values_of ovals rs = [1; 1; 3; 3]%Q /\
  scale_median_vec [0; 1; 2] false (map cnt (tally_nat 3 rs)) (map xval ovals) =x= Fin 2 /\
  is_median_of (values_of ovals rs) 2.
Proof.
  cbv zeta. split; [repeat constructor|]. split; [reflexivity|]. split; [reflexivity|].
  split; [reflexivity|]. split; [vm_compute; reflexivity|].
  split; [discriminate|]. exists [1; 1; 3; 3]%Q. split; [apply Permutation_refl|]. split.
  - repeat constructor; unfold Qle; simpl; lia.
  - vm_compute. reflexivity.
Qed.
