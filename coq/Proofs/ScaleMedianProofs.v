(* Proofs about the cumulative-count median rule of Model/Scale.v ([weighted_median]) against
   the median of the expanded multiset of respondents' values - property C14. *)
From Coq Require Import QArith ZArith List Bool Lia Arith Lqa Sorted Permutation.
From CC Require Import Base.XQ Base.ListX Spec.Stats Model.Scale.
Import ListNotations.
Local Close Scope Q_scope.
Local Open Scope nat_scope.

Ltac Zify.zify_post_hook ::= Z.to_euclidean_division_equations.

Definition inj (n : nat) : Q := inject_Z (Z.of_nat n).
Definition cnt (n : nat) : xq := Fin (inj n).

(* the expanded, value-ordered list of respondents' values: v_0 c_0 times, v_1 c_1 times ... *)
Definition expand (vs : list Q) (ns : list nat) : list Q :=
  flat_map (fun p => repeat (fst p) (snd p)) (combine vs ns).

(* cumulative count through category k (inclusive) *)
Definition upto (k : nat) (ns : list nat) : nat := list_sum (firstn k ns).

(* the hypothesis the rule needs: whenever the categories up to k hold exactly half of the
   respondents, the next category (in value order) is not empty *)
Definition no_gap (ns : list nat) : Prop :=
  forall k, S k < length ns -> 2 * upto (S k) ns = list_sum ns -> 0 < nth (S k) ns 0.

(* ---- generic list facts -------------------------------------------------------------------- *)
Lemma nth_map_lt {A B} (f : A -> B) l k d d' : k < length l -> nth k (map f l) d = f (nth k l d').
Proof.
  intros H. rewrite (nth_indep _ d (f d')) by (rewrite map_length; exact H). apply map_nth.
Qed.

Lemma first_true_props l : existsb (fun b => b) l = true ->
  first_true l < length l /\ nth (first_true l) l false = true /\
  forall j, j < first_true l -> nth j l false = false.
Proof.
  induction l as [|b t IH]; simpl; [discriminate|].
  destruct b; simpl.
  - intros _. split; [lia|]. split; [reflexivity|]. intros j Hj. lia.
  - intros H. destruct (IH H) as [H1 [H2 H3]]. split; [lia|]. split; [exact H2|].
    intros [|j] Hj; [reflexivity|]. apply H3. lia.
Qed.

(* ---- cumulative sums ------------------------------------------------------------------------- *)
Lemma cumsum_from_length acc l : length (cumsum_from acc l) = length l.
Proof. revert acc. induction l as [|c t IH]; intros acc; simpl; auto. Qed.

Lemma cumsum_from_nth acc l k : k < length l ->
  (nth k (cumsum_from acc l) 0 == acc + qsum (firstn (S k) l))%Q.
Proof.
  revert acc k. induction l as [|c t IH]; intros acc k H; simpl in H; [lia|].
  destruct k as [|k].
  - simpl. destruct t; simpl; ring.
  - change (nth (S k) (cumsum_from acc (c :: t)) 0%Q) with (nth k (cumsum_from (acc + c)%Q t) 0%Q).
    rewrite IH by lia. change (firstn (S (S k)) (c :: t)) with (c :: firstn (S k) t).
    simpl qsum. ring.
Qed.

Lemma cumsum_from_last acc l : (last (cumsum_from acc l) acc == acc + qsum l)%Q.
Proof.
  revert acc. induction l as [|c t IH]; intros acc; simpl; [ring|].
  destruct t as [|c' t'].
  - simpl. ring.
  - change (cumsum_from (acc + c)%Q (c' :: t')) with
      ((acc + c + c')%Q :: cumsum_from (acc + c + c')%Q t') in *.
    specialize (IH (acc + c)%Q).
    change (cumsum_from (acc + c)%Q (c' :: t')) with
      ((acc + c + c')%Q :: cumsum_from (acc + c + c')%Q t') in IH.
    assert (E : forall (d1 d2 : Q) (x : Q) (m : list Q), last (x :: m) d1 = last (x :: m) d2).
    { intros d1 d2 x m. revert x. induction m as [|y m IHm]; intros x; [reflexivity|].
      change (last (x :: y :: m) d1) with (last (y :: m) d1).
      change (last (x :: y :: m) d2) with (last (y :: m) d2). apply IHm. }
    rewrite (E acc (acc + c)%Q). rewrite IH. simpl qsum. ring.
Qed.

Lemma inj_add a b : (inj (a + b) == inj a + inj b)%Q.
Proof. unfold inj. rewrite Nat2Z.inj_add, inject_Z_plus. reflexivity. Qed.

Lemma qsum_inj l : (qsum (map inj l) == inj (list_sum l))%Q.
Proof. induction l as [|a t IH]; simpl; [reflexivity|]. rewrite IH, inj_add. reflexivity. Qed.

Lemma inj_le a b : (inj a <= inj b)%Q <-> a <= b.
Proof. unfold inj. rewrite <- Zle_Qle. lia. Qed.
Lemma inj_eq a b : (inj a == inj b)%Q <-> a = b.
Proof. unfold inj. rewrite inject_Z_injective. lia. Qed.
Lemma inj_2 a : (2 * inj a == inj (2 * a))%Q.
Proof. replace (2 * a) with (a + a) by lia. rewrite inj_add. ring. Qed.

Lemma firstn_map {A B} (f : A -> B) k l : firstn k (map f l) = map f (firstn k l).
Proof. revert l. induction k as [|k IH]; intros [|a t]; simpl; auto. f_equal. apply IH. Qed.

Lemma half_le_iff a t : (0 < t)%Q -> ((1 # 2) <= a / t <-> t <= 2 * a)%Q.
Proof.
  intros Ht. split; intros H.
  - assert ((1 # 2) * t <= a / t * t)%Q by (apply Qmult_le_compat_r; lra).
    assert (a / t * t == a)%Q by (field; lra). lra.
  - apply Qle_shift_div_l; [exact Ht|]. lra.
Qed.
Lemma half_eq_iff a t : (0 < t)%Q -> (a / t == (1 # 2) <-> t == 2 * a)%Q.
Proof.
  intros Ht. split; intros H.
  - assert (a / t * t == a)%Q by (field; lra). rewrite H in H0. lra.
  - rewrite H. field. intros E. rewrite E in H. lra.
Qed.

(* ---- locating an index in the expansion ------------------------------------------------------- *)
Lemma expand_cons v vt n nt : expand (v :: vt) (n :: nt) = repeat v n ++ expand vt nt.
Proof. reflexivity. Qed.

Lemma expand_length vs ns : length vs = length ns -> length (expand vs ns) = list_sum ns.
Proof.
  revert ns. induction vs as [|v vt IH]; intros [|n nt] H; simpl in H; try lia; [reflexivity|].
  rewrite expand_cons, app_length, repeat_length, IH by lia. reflexivity.
Qed.

Lemma nth_repeat_lt {A} (a d : A) m j : j < m -> nth j (repeat a m) d = a.
Proof.
  intros H. rewrite (nth_indep _ d a) by (rewrite repeat_length; exact H). apply nth_repeat.
Qed.

Lemma list_sum_cons a l : list_sum (a :: l) = a + list_sum l.
Proof. reflexivity. Qed.

Lemma nth_expand vs ns k j d : length vs = length ns -> k < length ns ->
  upto k ns <= j < upto (S k) ns -> nth j (expand vs ns) d = nth k vs d.
Proof.
  unfold upto. revert ns k j.
  induction vs as [|v vt IH]; intros [|n nt] k j Hl Hk Hj; simpl in Hl, Hk; try lia.
  rewrite expand_cons. destruct k as [|k].
  - simpl in Hj. rewrite app_nth1 by (rewrite repeat_length; lia).
    apply nth_repeat_lt. lia.
  - change (firstn (S (S k)) (n :: nt)) with (n :: firstn (S k) nt) in Hj.
    change (firstn (S k) (n :: nt)) with (n :: firstn k nt) in Hj.
    rewrite !list_sum_cons in Hj.
    rewrite app_nth2 by (rewrite repeat_length; lia). rewrite repeat_length.
    simpl nth. apply IH; lia.
Qed.

Lemma upto_all ns k : length ns <= k -> upto k ns = list_sum ns.
Proof. intros H. unfold upto. rewrite firstn_all2 by exact H. reflexivity. Qed.

Lemma upto_S ns k : upto (S k) ns = upto k ns + nth k ns 0.
Proof.
  unfold upto. revert k. induction ns as [|n nt IH]; intros k.
  - rewrite !firstn_nil. destruct k; reflexivity.
  - destruct k as [|k].
    + simpl. lia.
    + change (firstn (S (S k)) (n :: nt)) with (n :: firstn (S k) nt).
      change (firstn (S k) (n :: nt)) with (n :: firstn k nt).
      rewrite !list_sum_cons. rewrite IH. simpl nth. lia.
Qed.

Lemma upto_mono ns k : upto k ns <= upto (S k) ns.
Proof. rewrite upto_S. lia. Qed.

Lemma upto_le_total ns k : upto k ns <= list_sum ns.
Proof.
  unfold upto. revert k. induction ns as [|n nt IH]; intros k.
  - rewrite firstn_nil. simpl. lia.
  - destruct k; simpl; [lia|]. specialize (IH k). lia.
Qed.

(* ---- what the model's rule computes -------------------------------------------------------------- *)
(* the k-th cumulative proportion test *)
Lemma cum_nth_inj ns k : k < length ns ->
  (nth k (cumsum (map inj ns)) 0 == inj (upto (S k) ns))%Q.
Proof.
  intros H. unfold cumsum. rewrite cumsum_from_nth by (rewrite map_length; exact H).
  rewrite firstn_map, qsum_inj. unfold upto. ring.
Qed.

Lemma cum_total_inj ns : (last (cumsum (map inj ns)) 0 == inj (list_sum ns))%Q.
Proof. unfold cumsum. rewrite cumsum_from_last, qsum_inj. ring. Qed.

Lemma map_cnt ns : map nan_to_num (map cnt ns) = map inj ns.
Proof. rewrite map_map. reflexivity. Qed.

Lemma half_even h : (2 * h) / 2 = h.
Proof. rewrite Nat.mul_comm. apply Nat.div_mul. lia. Qed.
Lemma half_odd h : (2 * h + 1) / 2 = h.
Proof. symmetry. apply (Nat.div_unique _ 2 h 1); lia. Qed.

Section Rule.
  Variable vs : list Q.
  Variable ns : list nat.
  Hypothesis Hlen : length vs = length ns.
  Hypothesis Hpos : 0 < list_sum ns.

  Let N := list_sum ns.
  Let cum := cumsum (map inj ns).
  Let total := last cum 0%Q.
  Let props := map (fun c => c / total)%Q cum.
  Let bs := map (fun p => Qle_bool (1 # 2) p) props.

  Lemma total_eq : (total == inj N)%Q.
  Proof. apply cum_total_inj. Qed.
  Lemma total_pos : (0 < total)%Q.
  Proof.
    rewrite total_eq. change 0%Q with (inj 0).
    apply Qle_lt_trans with (inj 0); [apply Qle_refl|].
    apply Qlt_alt. unfold inj. rewrite <- Qlt_alt. rewrite <- Zlt_Qlt. unfold N. lia.
  Qed.
  Lemma cum_len : length cum = length ns.
  Proof. unfold cum, cumsum. rewrite cumsum_from_length, map_length. reflexivity. Qed.
  Lemma ns_nonempty : 0 < length ns.
  Proof. destruct ns; simpl in *; lia. Qed.

  Lemma prop_nth k : k < length ns -> (nth k props 0 == inj (upto (S k) ns) / total)%Q.
  Proof.
    intros H. unfold props.
    rewrite (nth_map_lt (fun c => c / total)%Q cum k 0%Q 0%Q) by (rewrite cum_len; exact H).
    unfold cum. rewrite cum_nth_inj by exact H. reflexivity.
  Qed.

  Lemma b_nth k : k < length ns -> (nth k bs false = true <-> N <= 2 * upto (S k) ns).
  Proof.
    intros H. unfold bs.
    rewrite (nth_map_lt (fun p => Qle_bool (1 # 2) p) props k false 0%Q)
      by (unfold props; rewrite map_length, cum_len; exact H).
    rewrite Qle_bool_iff, prop_nth by exact H.
    rewrite half_le_iff by exact total_pos.
    rewrite total_eq, inj_2, inj_le. reflexivity.
  Qed.

  Lemma bs_len : length bs = length ns.
  Proof. unfold bs, props. rewrite !map_length. apply cum_len. Qed.

  Lemma bs_has_true : existsb (fun b => b) bs = true.
  Proof.
    apply existsb_exists. exists true. split; [|reflexivity].
    pose proof ns_nonempty as Hn.
    assert (Hk : length ns - 1 < length ns) by lia.
    assert (E : nth (length ns - 1) bs false = true).
    { apply b_nth; [exact Hk|]. replace (S (length ns - 1)) with (length ns) by lia.
      rewrite upto_all by lia. unfold N. lia. }
    rewrite <- E. apply nth_In. rewrite bs_len. exact Hk.
  Qed.

  Let idx := argmax_bool bs.

  Lemma idx_props :
    idx < length ns /\ N <= 2 * upto (S idx) ns /\ 2 * upto idx ns < N.
  Proof.
    destruct (first_true_props bs bs_has_true) as [H1 [H2 H3]].
    assert (E : idx = first_true bs).
    { unfold idx, argmax_bool. apply Nat.ltb_lt in H1. rewrite H1. reflexivity. }
    rewrite E. rewrite bs_len in H1. split; [exact H1|]. split.
    - apply b_nth; assumption.
    - destruct (first_true bs) as [|j] eqn:Ej.
      + unfold upto. simpl. unfold N. lia.
      + assert (Hj : j < S j) by lia. specialize (H3 j Hj).
        destruct (Nat.lt_ge_cases (2 * upto (S j) ns) N) as [L|L]; [exact L|].
        apply b_nth in L; [|lia]. congruence.
  Qed.

  Lemma wm_unfold :
    weighted_median (map cnt ns) vs =
    if Qeq_bool (nth idx props 0%Q) (1 # 2)
    then Fin ((nth idx vs 0 + nth (S idx) vs 0) / 2)%Q else Fin (nth idx vs 0%Q).
  Proof.
    unfold weighted_median. rewrite map_cnt. fold cum. fold total.
    assert (E : Qeq_bool total 0 = false).
    { destruct (Qeq_bool total 0) eqn:E0; [|reflexivity].
      apply Qeq_bool_iff in E0. pose proof total_pos. lra. }
    rewrite E. reflexivity.
  Qed.

  Lemma half_test : Qeq_bool (nth idx props 0%Q) (1 # 2) = true <-> N = 2 * upto (S idx) ns.
  Proof.
    destruct idx_props as [Hi _].
    rewrite Qeq_bool_iff, prop_nth by exact Hi.
    rewrite half_eq_iff by exact total_pos.
    rewrite total_eq, inj_2, inj_eq. reflexivity.
  Qed.

  Lemma expand_len : length (expand vs ns) = N.
  Proof. apply expand_length. exact Hlen. Qed.

  (* the rule agrees with the middle of the expansion when no empty category follows an
     exact 50 % point *)
  Lemma weighted_median_middle : no_gap ns ->
    exists m, weighted_median (map cnt ns) vs = Fin m /\ (m == middle (expand vs ns))%Q.
  Proof.
    intros Hgap. rewrite wm_unfold.
    destruct idx_props as [Hi [Hhi Hlo]].
    pose proof (upto_mono ns idx) as Hmono.
    unfold middle. rewrite expand_len.
    destruct (Qeq_bool (nth idx props 0%Q) (1 # 2)) eqn:Eh.
    - (* exactly half *)
      apply half_test in Eh.
      assert (Hnext : S idx < length ns).
      { destruct (Nat.lt_ge_cases (S idx) (length ns)) as [L|L]; [exact L|].
        rewrite upto_all in Eh by lia. unfold N in *. lia. }
      assert (Hg : 0 < nth (S idx) ns 0) by (apply Hgap; [exact Hnext|unfold N in Eh; lia]).
      assert (Ev : Nat.even N = true).
      { apply Nat.even_spec. exists (upto (S idx) ns). exact Eh. }
      rewrite Ev. eexists. split; [reflexivity|].
      assert (E1 : N / 2 = upto (S idx) ns) by (rewrite Eh; apply half_even).
      rewrite E1.
      rewrite (nth_expand vs ns idx (upto (S idx) ns - 1) 0%Q Hlen Hi) by lia.
      rewrite (nth_expand vs ns (S idx) (upto (S idx) ns) 0%Q Hlen Hnext)
        by (rewrite (upto_S ns (S idx)); lia).
      reflexivity.
    - (* strictly more than half *)
      assert (Hne : N <> 2 * upto (S idx) ns).
      { intros E. apply half_test in E. congruence. }
      eexists. split; [reflexivity|].
      destruct (Nat.even N) eqn:Ev.
      + apply Nat.even_spec in Ev. destruct Ev as [h Eh2].
        assert (E1 : N / 2 = h) by (rewrite Eh2; apply half_even). rewrite E1.
        rewrite (nth_expand vs ns idx (h - 1) 0%Q Hlen Hi) by lia.
        rewrite (nth_expand vs ns idx h 0%Q Hlen Hi) by lia.
        field.
      + assert (Od : Nat.odd N = true) by (rewrite <- Nat.negb_even, Ev; reflexivity).
        apply Nat.odd_spec in Od. destruct Od as [h Eh2].
        assert (E1 : N / 2 = h) by (rewrite Eh2; apply half_odd). rewrite E1.
        rewrite (nth_expand vs ns idx h 0%Q Hlen Hi) by lia.
        reflexivity.
  Qed.
End Rule.

(* ---- the expansion of value-sorted categories is ascending --------------------------------------- *)
Lemma expand_In vs ns x : In x (expand vs ns) -> In x vs.
Proof.
  revert ns. induction vs as [|v vt IH]; intros [|n nt]; simpl; try tauto.
  change (flat_map (fun p => repeat (fst p) (snd p)) ((v, n) :: combine vt nt))
    with (expand (v :: vt) (n :: nt)).
  rewrite expand_cons. intros H. apply in_app_or in H. destruct H as [H|H].
  - left. symmetry. apply (repeat_spec _ _ _ H).
  - right. apply (IH nt). exact H.
Qed.

Lemma expand_strongly_sorted vs ns : StronglySorted Qle vs -> StronglySorted Qle (expand vs ns).
Proof.
  revert ns. induction vs as [|v vt IH]; intros [|n nt] H; try (simpl; constructor).
  rewrite expand_cons. inversion H as [|? ? Ht Hv]; subst.
  induction n as [|n IHn]; simpl.
  - apply IH. exact Ht.
  - constructor; [exact IHn|].
    apply Forall_app. split.
    + apply Forall_forall. intros x Hx. apply repeat_spec in Hx. subst. apply Qle_refl.
    + apply Forall_forall. intros x Hx. apply expand_In in Hx.
      rewrite Forall_forall in Hv. apply Hv. exact Hx.
Qed.

Lemma Qle_Transitive : Relations_1.Transitive Qle.
Proof. intros x y z. apply Qle_trans. Qed.

Lemma expand_sorted vs ns : Sorted Qle vs -> Sorted Qle (expand vs ns).
Proof.
  intros H. apply StronglySorted_Sorted. apply expand_strongly_sorted.
  apply Sorted_StronglySorted; [exact Qle_Transitive|exact H].
Qed.

Lemma ascending_sorted l : ascending l = true -> Sorted Qle l.
Proof.
  induction l as [|x t IH]; intros H; [constructor|].
  destruct t as [|y t'].
  - constructor; constructor.
  - simpl in H. apply andb_prop in H. destruct H as [H1 H2].
    constructor; [apply IH; exact H2|]. constructor. apply Qle_bool_iff. exact H1.
Qed.

(* ---- median theorem at the level of value-sorted categories --------------------------------------- *)
Theorem weighted_median_is_median vs ns :
  length vs = length ns -> Sorted Qle vs -> 0 < list_sum ns -> no_gap ns ->
  exists m, weighted_median (map cnt ns) vs = Fin m /\ is_median_of (expand vs ns) m.
Proof.
  intros Hl Hs Hp Hg.
  destruct (weighted_median_middle vs ns Hl Hp Hg) as [m [E Em]].
  exists m. split; [exact E|]. split.
  - intros H0. pose proof (expand_length vs ns Hl) as L. rewrite H0 in L. simpl in L. lia.
  - exists (expand vs ns). split; [apply Permutation_refl|]. split; [|exact Em].
    apply expand_sorted. exact Hs.
Qed.

(* all valued categories non-empty is the simplest sufficient condition *)
Lemma all_positive_no_gap ns : Forall (fun n => 0 < n) ns -> no_gap ns.
Proof.
  intros H k Hk _. rewrite Forall_forall in H. apply H. apply nth_In. exact Hk.
Qed.

(* nobody with a value: NaN *)
Theorem weighted_median_empty vs ns : list_sum ns = 0 -> weighted_median (map cnt ns) vs = NaN.
Proof.
  intros H. unfold weighted_median. rewrite map_cnt.
  assert (E : Qeq_bool (last (cumsum (map inj ns)) 0%Q) 0 = true).
  { apply Qeq_bool_iff. rewrite cum_total_inj, H. reflexivity. }
  rewrite E. reflexivity.
Qed.

(* the defect: the faithful rule is NOT the median when an empty category follows the 50 % point *)
Theorem weighted_median_refuted :
  exists vs ns, length vs = length ns /\ Sorted Qle vs /\ 0 < list_sum ns /\
    weighted_median (map cnt ns) vs = Fin (3 # 2) /\ (middle (expand vs ns) == 2)%Q.
Proof.
  exists [1; 2; 3]%Q, [2; 0; 2]. split; [reflexivity|]. split.
  - repeat constructor; unfold Qle; simpl; lia.
  - split; [simpl; lia|]. split; reflexivity.
Qed.

(* ---- difference vectors ----------------------------------------------------------------------------- *)
Lemma cumsum_zero_last (l : list xq) acc : Forall (fun a => a = NaN) l ->
  (last (cumsum_from acc (map nan_to_num l)) acc == acc)%Q.
Proof.
  intros H. rewrite cumsum_from_last.
  assert (E : (qsum (map nan_to_num l) == 0)%Q).
  { induction H as [|a t Ha Ht IH]; simpl; [reflexivity|]. rewrite Ha, IH. simpl. ring. }
  rewrite E. ring.
Qed.

Theorem scale_median_diff ord counts vals : scale_median_vec ord true counts vals = NaN.
Proof.
  unfold scale_median_vec, comparable, weighted_median.
  assert (H : Forall (fun a => a = NaN) (map (fun i => vnth (map (fun _ : xq => NaN) counts) i) ord)).
  { rewrite Forall_map. apply Forall_forall. intros i _. unfold vnth.
    destruct (Nat.lt_ge_cases i (length counts)) as [L|L].
    - rewrite (nth_map_lt (fun _ : xq => NaN) counts i NaN NaN L). reflexivity.
    - apply nth_overflow. rewrite map_length. exact L. }
  pose proof (cumsum_zero_last _ 0%Q H) as E. unfold cumsum.
  apply Qeq_bool_iff in E. rewrite E. reflexivity.
Qed.

(* ---- from the vector of a slice to the value-sorted categories ------------------------------------- *)
Lemma nodup_nat_NoDup l : nodup_nat l = true -> NoDup l.
Proof.
  induction l as [|x t IH]; simpl; intros H; [constructor|].
  apply andb_prop in H. destruct H as [H1 H2]. constructor; [|apply IH; exact H2].
  intros Hin. apply negb_true_iff in H1.
  assert (E : mem_nat x t = true).
  { clear -Hin. induction t as [|y t IH]; simpl in *; [contradiction|].
    destruct Hin as [->|Hin]; [rewrite Nat.eqb_refl; reflexivity|].
    rewrite (IH Hin). apply orb_true_r. }
  congruence.
Qed.

Lemma valued_idxs_In vals i :
  In i (valued_idxs vals) <-> i < length vals /\ is_nan (vnth vals i) = false.
Proof.
  unfold valued_idxs. rewrite filter_In, in_seq, negb_true_iff. split; intros [H1 H2]; split; auto; lia.
Qed.

Lemma valid_order_props vals ord : valid_order vals ord = true ->
  Permutation ord (valued_idxs vals) /\
  Forall (fun i => i < length vals) ord /\
  Sorted Qle (map (fun i => nan_to_num (vnth vals i)) ord).
Proof.
  unfold valid_order. intros H.
  apply andb_prop in H. destruct H as [H H4].
  apply andb_prop in H. destruct H as [H H3].
  apply andb_prop in H. destruct H as [H1 H2].
  apply Nat.eqb_eq in H2. rewrite forallb_forall in H3.
  assert (Hin : forall i, In i ord -> i < length vals /\ is_nan (vnth vals i) = false).
  { intros i Hi. specialize (H3 i Hi). apply andb_prop in H3. destruct H3 as [A B].
    apply Nat.ltb_lt in A. apply negb_true_iff in B. auto. }
  split; [|split].
  - apply NoDup_Permutation_bis; [apply nodup_nat_NoDup; exact H1|lia|].
    intros i Hi. apply valued_idxs_In. apply Hin. exact Hi.
  - apply Forall_forall. intros i Hi. apply Hin. exact Hi.
  - apply ascending_sorted. exact H4.
Qed.

Lemma expand_map (fv : nat -> Q) (fc : nat -> nat) ord :
  expand (map fv ord) (map fc ord) = flat_map (fun i => repeat (fv i) (fc i)) ord.
Proof.
  induction ord as [|i t IH]; [reflexivity|].
  simpl map. rewrite expand_cons, IH. reflexivity.
Qed.

Lemma counts_along ns ord : Forall (fun i => i < length ns) ord ->
  map (fun i => vnth (map cnt ns) i) ord = map cnt (map (fun i => nth i ns 0) ord).
Proof.
  intros H. rewrite map_map. apply map_ext_in. intros i Hi.
  rewrite Forall_forall in H. unfold vnth.
  apply (nth_map_lt cnt ns i NaN 0). apply H. exact Hi.
Qed.

(* the median of a (non-difference) vector with integer counts [ns] (payload order) *)
Theorem scale_median_vec_eq vals ns ord :
  valid_order vals ord = true -> length vals = length ns ->
  let vs := map (fun i => nan_to_num (vnth vals i)) ord in
  let cs := map (fun i => nth i ns 0) ord in
  0 < list_sum cs -> no_gap cs ->
  exists m, scale_median_vec ord false (map cnt ns) vals = Fin m /\ is_median_of (expand vs cs) m.
Proof.
  intros Hv Hl vs cs Hp Hg.
  destruct (valid_order_props vals ord Hv) as [_ [Hlt Hs]].
  unfold scale_median_vec, comparable.
  rewrite counts_along by (rewrite <- Hl; exact Hlt).
  apply weighted_median_is_median; try assumption.
  unfold vs, cs. rewrite !map_length. reflexivity.
Qed.

Theorem scale_median_vec_nan vals ns ord :
  Forall (fun i => i < length ns) ord ->
  list_sum (map (fun i => nth i ns 0) ord) = 0 ->
  scale_median_vec ord false (map cnt ns) vals = NaN.
Proof.
  intros Hlt H0. unfold scale_median_vec, comparable.
  rewrite counts_along by exact Hlt. apply weighted_median_empty. exact H0.
Qed.

(* ---- respondents: the expansion along ANY valid order is a rearrangement of the values of the
        individual respondents -------------------------------------------------------------------- *)
Lemma incr_at_length k l : length (incr_at k l) = length l.
Proof. revert k. induction l as [|c t IH]; intros [|k]; simpl; auto. Qed.

Lemma tally_nat_length n rs : length (tally_nat n rs) = n.
Proof.
  unfold tally_nat. induction rs as [|r t IH]; simpl; [apply repeat_length|].
  rewrite incr_at_length. exact IH.
Qed.

Lemma nth_incr_at k l i : k < length l ->
  nth i (incr_at k l) 0 = nth i l 0 + (if i =? k then 1 else 0).
Proof.
  revert k i. induction l as [|c t IH]; intros k i H; simpl in H; [lia|].
  destruct k as [|k]; destruct i as [|i]; cbn [incr_at nth Nat.eqb]; try lia.
  rewrite IH by lia. reflexivity.
Qed.

Lemma flat_map_bump (fv : nat -> Q) (fc : nat -> nat) c L : NoDup L ->
  Permutation (flat_map (fun i => repeat (fv i) (fc i + (if i =? c then 1 else 0))) L)
              ((if in_dec Nat.eq_dec c L then [fv c] else []) ++
               flat_map (fun i => repeat (fv i) (fc i)) L).
Proof.
  intros H. induction H as [|a t Ha Ht IH]; [simpl; constructor|].
  cbn [flat_map]. destruct (Nat.eqb_spec a c) as [->|Hne].
  - rewrite Nat.add_1_r. cbn [repeat].
    destruct (in_dec Nat.eq_dec c (c :: t)) as [_|N]; [|exfalso; apply N; left; reflexivity].
    destruct (in_dec Nat.eq_dec c t) as [I|_]; [contradiction|].
    simpl app in *. constructor. apply Permutation_app_head. exact IH.
  - rewrite Nat.add_0_r.
    destruct (in_dec Nat.eq_dec c (a :: t)) as [I|N];
      destruct (in_dec Nat.eq_dec c t) as [I'|N']; simpl app in *.
    + rewrite IH. apply Permutation_sym, Permutation_middle.
    + exfalso. destruct I; [congruence|contradiction].
    + exfalso. apply N. right. exact I'.
    + apply Permutation_app_head. exact IH.
Qed.

Lemma flat_map_ext_in {A B} (f g : A -> list B) l : (forall x, In x l -> f x = g x) ->
  flat_map f l = flat_map g l.
Proof.
  induction l as [|a t IH]; intros H; [reflexivity|]. simpl.
  rewrite (H a) by (left; reflexivity). rewrite IH; [reflexivity|].
  intros x Hx. apply H. right. exact Hx.
Qed.

Lemma nth_repeat0 n i : nth i (repeat 0 n) 0 = 0.
Proof. revert i. induction n as [|n IH]; intros [|i]; simpl; auto. Qed.

Definition cats_below_nat (n : nat) (rs : list nat) : Prop := Forall (fun c => c < n) rs.

Lemma xval_num ovals c v : nth c ovals None = Some v -> nan_to_num (vnth (map xval ovals) c) = v.
Proof.
  intros H. unfold vnth.
  destruct (Nat.lt_ge_cases c (length ovals)) as [L|L].
  - rewrite (nth_map_lt xval ovals c NaN None L), H. reflexivity.
  - rewrite nth_overflow in H by exact L. discriminate.
Qed.

Lemma valued_idx_iff ovals c :
  In c (valued_idxs (map xval ovals)) <-> exists v, nth c ovals None = Some v.
Proof.
  rewrite valued_idxs_In, map_length. unfold vnth. split.
  - intros [L H]. rewrite (nth_map_lt xval ovals c NaN None L) in H.
    destruct (nth c ovals None) as [v|]; [exists v; reflexivity|discriminate].
  - intros [v H].
    destruct (Nat.lt_ge_cases c (length ovals)) as [L|L].
    + split; [exact L|]. rewrite (nth_map_lt xval ovals c NaN None L), H. reflexivity.
    + rewrite nth_overflow in H by exact L. discriminate.
Qed.

Lemma tally_values ovals rs : cats_below_nat (length ovals) rs ->
  Permutation
    (flat_map (fun i => repeat (nan_to_num (vnth (map xval ovals) i))
                               (nth i (tally_nat (length ovals) rs) 0))
              (valued_idxs (map xval ovals)))
    (values_of ovals rs).
Proof.
  intros H. induction H as [|c t Hc Ht IH].
  - simpl values_of. unfold tally_nat. simpl fold_right.
    rewrite (flat_map_ext_in _ (fun _ => [])).
    + induction (valued_idxs (map xval ovals)); simpl; auto.
    + intros i _. rewrite nth_repeat0. reflexivity.
  - change (tally_nat (length ovals) (c :: t)) with (incr_at c (tally_nat (length ovals) t)).
    rewrite (flat_map_ext_in _
      (fun i => repeat (nan_to_num (vnth (map xval ovals) i))
                       (nth i (tally_nat (length ovals) t) 0 + (if i =? c then 1 else 0)))).
    2:{ intros i _. rewrite nth_incr_at by (rewrite tally_nat_length; exact Hc). reflexivity. }
    rewrite flat_map_bump by (apply NoDup_filter, seq_NoDup).
    simpl values_of. apply Permutation_app; [|exact IH].
    destruct (in_dec Nat.eq_dec c (valued_idxs (map xval ovals))) as [I|N].
    + apply valued_idx_iff in I. destruct I as [v Hv]. rewrite Hv, (xval_num _ _ _ Hv). constructor; constructor.
    + destruct (nth c ovals None) as [v|] eqn:E; [|constructor].
      exfalso. apply N. apply valued_idx_iff. exists v. exact E.
Qed.

(* C14 median at respondent level: unit-weight respondents [rs] (their categories), the vector
   is their tally; any order numpy may have chosen among equal values *)
Theorem median_eq ovals rs ord :
  let vals := map xval ovals in
  let ns := tally_nat (length ovals) rs in
  cats_below_nat (length ovals) rs ->
  valid_order vals ord = true ->
  values_of ovals rs <> [] ->
  no_gap (map (fun i => nth i ns 0) ord) ->
  exists m, scale_median_vec ord false (map cnt ns) vals = Fin m /\
            is_median_of (values_of ovals rs) m.
Proof.
  intros vals ns Hc Hv Hne Hg.
  destruct (valid_order_props vals ord Hv) as [Hperm _].
  assert (Hl : length vals = length ns).
  { unfold vals, ns. rewrite map_length, tally_nat_length. reflexivity. }
  assert (HP : Permutation
            (expand (map (fun i => nan_to_num (vnth vals i)) ord) (map (fun i => nth i ns 0) ord))
            (values_of ovals rs)).
  { rewrite expand_map. rewrite (Permutation_flat_map _ Hperm). apply tally_values. exact Hc. }
  assert (Hpos : 0 < list_sum (map (fun i => nth i ns 0) ord)).
  { rewrite <- (expand_length (map (fun i => nan_to_num (vnth vals i)) ord))
      by (rewrite !map_length; reflexivity).
    destruct (expand _ _) as [|x l] eqn:E; [|simpl; lia].
    apply Permutation_nil in HP. contradiction. }
  destruct (scale_median_vec_eq vals ns ord Hv Hl Hpos Hg) as [m [E [_ [s [P1 [P2 P3]]]]]].
  exists m. split; [exact E|]. split; [exact Hne|].
  exists s. split; [|split; assumption].
  rewrite P1. exact HP.
Qed.

(* no numeric-valued respondent: NaN *)
Theorem median_nan ovals rs ord :
  let vals := map xval ovals in
  let ns := tally_nat (length ovals) rs in
  cats_below_nat (length ovals) rs ->
  valid_order vals ord = true ->
  values_of ovals rs = [] ->
  scale_median_vec ord false (map cnt ns) vals = NaN.
Proof.
  intros vals ns Hc Hv He.
  destruct (valid_order_props vals ord Hv) as [Hperm [Hlt _]].
  assert (Hl : length vals = length ns).
  { unfold vals, ns. rewrite map_length, tally_nat_length. reflexivity. }
  apply scale_median_vec_nan; [rewrite <- Hl; exact Hlt|].
  rewrite <- (expand_length (map (fun i => nan_to_num (vnth vals i)) ord))
    by (rewrite !map_length; reflexivity).
  rewrite expand_map.
  assert (HP : Permutation (flat_map (fun i => repeat (nan_to_num (vnth vals i)) (nth i ns 0)) ord) []).
  { rewrite (Permutation_flat_map _ Hperm). rewrite <- He. apply tally_values. exact Hc. }
  apply Permutation_sym, Permutation_nil in HP. rewrite HP. reflexivity.
Qed.
