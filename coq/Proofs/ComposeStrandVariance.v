(* Proofs/ComposeStrandVariance.v -- C11 END TO END for strands: the base rows of the strand's
   table-proportion variance (Model/Variance.v::strand_var_base = p (1 - p)) computed from the
   tabulated survey are the weighted variance of the membership indicator over the strand's base. *)
From Coq Require Import QArith ZArith List Bool Lia Arith Setoid Morphisms.
From CC Require Import Base.XQ Base.ListX Spec.Survey Model.CubeCounts Model.Subtotals
     Model.Proportions Model.Variance Proofs.CubeCountsProofs Proofs.ProportionsProofs
     Proofs.VarianceProofs Proofs.ComposeBase Proofs.ComposeProportions Proofs.ComposeVariance
     Proofs.ComposeStrand.
Import ListNotations.
Local Close Scope Q_scope.
Local Open Scope nat_scope.

(* closed form of the indicator variance of a cell A inside a base K *)
Lemma spec_var_marks_closed S (K A : Survey.resp -> bool) :
  wf_survey S -> (forall r, In r S -> A r = true -> K r = true) -> ~ (wsum S K == 0)%Q ->
  (spec_var (marks S K A) == (wsum S A / wsum S K) * (1 - wsum S A / wsum S K))%Q /\
  (0 <= spec_var (marks S K A))%Q.
Proof.
  intros Hwf Hsub Hb.
  pose proof (var_cell_survey S K A Hwf Hsub (xdiv (Fin (wsum S A)) (Fin (wsum S K)))
                (Fin (wsum S K)) (Fin (wsum S A)) (xeq_refl _) (xeq_refl _) (xeq_refl _)) as H.
  unfold var_spec in H.
  destruct (var_cell _ _ _ _) as [v| |]; [|contradiction| contradiction].
  destruct H as [_ [H1 [H2 H3]]]. split.
  - rewrite <- H1. exact H2.
  - rewrite <- H1. exact H3.
Qed.

Lemma ratio_var (p : xq) (c b : Q) (l : list VarianceProofs.resp) :
  ratio_spec p c b ->
  (~ (b == 0)%Q -> (spec_var l == (c / b) * (1 - c / b))%Q /\ (0 <= spec_var l)%Q) ->
  match xmul p (xsub (Fin 1) p) with
  | NaN => (b == 0)%Q
  | Fin v => ~ (b == 0)%Q /\ (v == spec_var l)%Q /\ (0 <= v)%Q
  | Inf _ => False
  end.
Proof.
  unfold ratio_spec. destruct p as [q|s|]; [|contradiction|].
  - intros [Hb [Hq _]] Hl. destruct (Hl Hb) as [E N]. simpl. split; [exact Hb|].
    assert (Ev : (q * (1 + - q) == spec_var l)%Q) by (rewrite E, Hq; ring).
    split; [exact Ev| rewrite Ev; exact N].
  - intros Hb _. exact Hb.
Qed.

Section StrandVar.
  Variable S : survey.
  Variable v : nat.
  Variable ms : list bool.
  Hypothesis Hwf : wf_survey S.

  Definition st_cat_var : list xq := strand_var_base (st_cat_props S v ms).
  Definition st_mr_var : list xq := strand_var_base (st_mr_props S v ms).

  Lemma strand_var_base_nth props i : i < length props ->
    vnth (strand_var_base props) i = xmul (vnth props i) (xsub (Fin 1) (vnth props i)).
  Proof.
    intros Hi. unfold strand_var_base, vnth.
    rewrite (nth_indep _ NaN (xmul NaN (xsub (Fin 1) NaN))) by (rewrite map_length; exact Hi).
    apply (map_nth (fun p => xmul p (xsub (Fin 1) p))).
  Qed.

  Lemma st_cat_props_len : length (st_cat_props S v ms) = nval ms.
  Proof. unfold st_cat_props, strand_props_base. rewrite tab_length. apply st_cat_counts_len. Qed.
  Lemma st_mr_props_len : length (st_mr_props S v ms) = nval ms.
  Proof. unfold st_mr_props, strand_props_base, st_mr_counts. rewrite !tab_length. reflexivity. Qed.

  Theorem strand_cat_variance_survey i : i < nval ms ->
    match vnth st_cat_var i with
    | NaN => (ws_cat_base S v ms == 0)%Q
    | Fin x => ~ (ws_cat_base S v ms == 0)%Q /\
               (x == spec_var (marks S (fun r => ok_cat ms (ans r v)) (fun r => in_cat ms (ans r v) i)))%Q /\
               (0 <= x)%Q
    | Inf _ => False
    end.
  Proof.
    intros Hi. unfold st_cat_var.
    rewrite (strand_var_base_nth _ i) by (rewrite st_cat_props_len; exact Hi).
    apply (ratio_var _ (ws_cat S v ms i) (ws_cat_base S v ms)).
    - apply strand_cat_proportion_cases; assumption.
    - intros Hb. apply (spec_var_marks_closed S _ _ Hwf); [|exact Hb].
      intros r _. apply in_cat_ok_cat.
  Qed.

  Theorem strand_mr_variance_survey i : i < nval ms ->
    match vnth st_mr_var i with
    | NaN => (ws_mr_base S v ms i == 0)%Q
    | Fin x => ~ (ws_mr_base S v ms i == 0)%Q /\
               (x == spec_var (marks S (fun r => ok_mr ms (ans r v) i) (fun r => in_mr ms (ans r v) i)))%Q /\
               (0 <= x)%Q
    | Inf _ => False
    end.
  Proof.
    intros Hi. unfold st_mr_var.
    rewrite (strand_var_base_nth _ i) by (rewrite st_mr_props_len; exact Hi).
    apply (ratio_var _ (ws_mr S v ms i) (ws_mr_base S v ms i)).
    - apply strand_mr_proportion_cases; assumption.
    - intros Hb. apply (spec_var_marks_closed S _ _ Hwf); [|exact Hb].
      intros r _. apply in_mr_ok_mr.
  Qed.
End StrandVar.
