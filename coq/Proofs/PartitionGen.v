(* Proofs/PartitionGen.v -- the source text of _slice_idx_expr and of the stripe factory
   (translated on every check into Gen/CubeCountsSrc.v, Gen/StripeCountsSrc.v) denotes the
   cutting functions of Model/Partition.v.  Built on Proofs/GenAgreeCounts.v (C01). *)
From Coq Require Import QArith ZArith List Bool Lia Arith String.
From CC Require Import Base.XQ Base.ListX Base.Tensor Spec.Survey Model.CubeCounts Model.Partition
     Gen.CubeCountsSrc Gen.StripeCountsSrc Gen.Tables Proofs.GenAgreeTac Proofs.GenAgreeCounts.
Import ListNotations.
Local Close Scope Q_scope.
Local Open Scope nat_scope.

(* what the source of _BaseCubeMeasure._slice_idx_expr says, for the cube's ndim and the MR-ness
   of its first dimension, is [slice_idx_expr] *)
Lemma gen_slice_idx_expr_partition :
  match src_slice_idx_expr with
  | Some R => forall ds k (T : tensor) idx, idx <> [] ->
      slice_rule_apply R (cube_ndim ds) (table_is_mr ds) k T idx = slice_idx_expr ds k T idx
  | None => True
  end.
Proof.
  pose proof gen_slice_idx_expr as H. destruct src_slice_idx_expr as [R|]; [|exact I].
  intros ds k T idx Hi. unfold slice_idx_expr. apply H. exact Hi.
Qed.
