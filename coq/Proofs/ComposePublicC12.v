(* Proofs/ComposePublicC12.v -- the COMPOSED theorem of C12: _Slice.zscores (carried as the signed square z*|z|),
   from the source text to the respondents.  Shape as in ComposePublicC03.v.  At a display cell that shows base
   row r and base column c, with C / RB / CB / TB the first-order arrays of the payload of `tabulate S`:
     * when the table is defective (a dimension without elements, or rank < 2 over the rationals): NaN;
     * otherwise, when the all-equal guards do not fire and 0 < w(row base) < w(table base),
       0 < w(column base) < w(table base):   (c - e)|c - e| / (e (1 - r/t)(1 - k/t)),  e = r k / t,
       in the respondent-level numbers c, r, k, t of the cell (Proofs/ComposeZscore.v::z_formula_survey). *)
From Coq Require Import QArith Qabs ZArith List Bool Lia Arith String Setoid Morphisms.
From CC Require Import Base.XQ Base.ListX Base.WiringExp Spec.Survey
     Model.Subtotals Model.Proportions Model.Zscore Model.CubeCounts
     Proofs.CubeCountsProofs Proofs.ZscoreProofs Proofs.ComposeBase Proofs.ComposeZscore Proofs.ComposePayload
     Proofs.ComposePublicSem Proofs.ComposePublicLinks Proofs.ComposePublicChainDefs Proofs.ComposePublicChainCounts
     Proofs.ComposePublicChainBases Proofs.ComposePublicChain4
     Proofs.ComposePublicSlice Proofs.ComposePublicCells.
From CC Require Gen.WiringSrc.
Import ListNotations.
Local Close Scope Q_scope.
Local Open Scope string_scope.
Local Open Scope nat_scope.

Import CC.Gen.WiringSrc.

Definition terms_public_zscores : bool :=
  is_some wsrc_Slice_zscores && (terms_asm_matrix && terms_zscores).

Theorem public_zscores_model :
  need terms_public_zscores
  (forall C, first_order_ok C -> orders_ok C -> matrix_member_spec C "zscores" (B_z C)).
Proof.
  unfold terms_public_zscores, wsrc_Slice_zscores. wiring_some.
  use_need public_matrix_of_realizes terms_asm_matrix. intros PM.
  use_need realizes_zscores terms_zscores. intros R.
  needed. intros C H1 Ho.
  eapply matrix_member_of_weval; [reflexivity|].
  exact (PM 3 C "zscores" (B_z C) (R _ C H1) (tabular_z C (proj1 H1)) Ho).
Qed.

Definition z_cell_spec (S : survey) (tv : tvar) vr kr mr vc kc mc (k r c : nat) (x : xq) : Prop :=
  let Cm := t_counts S tv vr kr mr vc kc mc k in
  let RB := t_rb S tv vr kr mr vc kc mc k in
  let CB := t_cb S tv vr kr mr vc kc mc k in
  let TB := t_tb S tv vr kr mr vc kc mc k in
  let wc := w_cell tv k vr kr mr vc kc mc S r c in
  let wr := w_rowbase tv k vr kr mr vc kc mc S r c in
  let wk := w_colbase tv k vr kr mr vc kc mc S r c in
  let wt := w_tabbase tv k vr kr mr vc kc mc S r c in
  (defective Cm = true -> x = NaN) /\
  (defective Cm = false -> mall_eq TB RB = false -> mall_eq TB CB = false ->
   (0 < wr)%Q -> (wr < wt)%Q -> (0 < wk)%Q -> (wk < wt)%Q ->
   let e := (wr * wk / wt)%Q in
   x =x= Fin ((wc - e) * Qabs (wc - e) / (e * (1 - wr / wt) * (1 - wk / wt)))%Q).

Section Cells.
  Variable S : survey.
  Variable tv : tvar.
  Variable vr : nat.
  Variable kr : kind.
  Variable mr : list bool.
  Variable vc : nat.
  Variable kc : kind.
  Variable mc : list bool.
  Variable k : nat.
  Variables rsubs csubs : list subtotal.
  Variables dn rd cd : bool.
  Variable flag : string -> bool.
  Variables ro co : list Z.
  Variable so : slice_out.
  Hypothesis D : survey_display S tv vr kr mr vc kc mc k rsubs csubs ro co so.

  Let Ht : t_ok tv := proj1 D.
  Let Hr : cat_or_mr kr := proj1 (proj2 D).
  Let Hc : cat_or_mr kc := proj1 (proj2 (proj2 D)).
  Let Hk : k < t_n tv := proj1 (proj2 (proj2 (proj2 D))).
  Let Hso := proj1 (proj2 (proj2 (proj2 (proj2 (proj2 (proj2 (proj2 D))))))).
  Notation C := (Cs mr mc rsubs csubs dn rd cd flag ro co so).

  Lemma Cs_B_z_base : b_base (B_z C) = s_zscores S tv vr kr mr vc kc mc k.
  Proof.
    unfold B_z, zblk, zdef, s_zscores, zscores_block. cbn [b_base GenAgreeMeasTac.pick].
    unfold B_counts, B_tabb, B_rowb, B_colb.
    cbn [count_blocks Subtotals.sum_blocks table_base_blocks row_base_blocks col_base_blocks b_base].
    rewrite (Cs_counts S tv vr kr mr vc kc mc k rsubs csubs dn rd cd flag ro co so Ht Hr Hc Hk Hso),
            (Cs_rb S tv vr kr mr vc kc mc k rsubs csubs dn rd cd flag ro co so Ht Hr Hc Hk Hso),
            (Cs_cb S tv vr kr mr vc kc mc k rsubs csubs dn rd cd flag ro co so Ht Hr Hc Hk Hso),
            (Cs_tb S tv vr kr mr vc kc mc k rsubs csubs dn rd cd flag ro co so Ht Hr Hc Hk Hso).
    reflexivity.
  Qed.

  Lemma z_base_cell r c : r < nval mr -> c < nval mc ->
    z_cell_spec S tv vr kr mr vc kc mc k r c (mnth (b_base (B_z C)) r c).
  Proof.
    intros Hr' Hc'. rewrite Cs_B_z_base. unfold z_cell_spec. cbv zeta. split.
    - intros Hd. unfold s_zscores.
      apply zscores_block_defective; [exact Hd| |].
      + rewrite (C_nrows S tv vr kr mr vc kc mc k). exact Hr'.
      + rewrite (C_ncols S tv vr kr mr vc kc mc k) by lia. exact Hc'.
    - intros Hd G1 G2 P1 P2 P3 P4.
      exact (z_formula_survey S tv vr kr mr vc kc mc k Ht Hr Hc Hk r c Hd G1 G2 Hr' Hc' P1 P2 P3 P4).
  Qed.
End Cells.

Theorem compose_public_Slice_zscores :
  need terms_public_zscores
  (forall S tv vr kr mr vc kc mc k rsubs csubs dn rd cd flag ro co so,
     survey_display S tv vr kr mr vc kc mc k rsubs csubs ro co so ->
     base_cells_spec (public_slice (Cs mr mc rsubs csubs dn rd cd flag ro co so) "zscores") ro co
       (z_cell_spec S tv vr kr mr vc kc mc k)).
Proof.
  use_need public_zscores_model terms_public_zscores. intros PM. needed.
  intros S tv vr kr mr vc kc mc k rsubs csubs dn rd cd flag ro co so D.
  eapply (base_cells_of_member S tv vr kr mr vc kc mc k rsubs csubs dn rd cd flag ro co so D "zscores" (fun x => x)).
  - apply PM.
    + exact (C_first_order S tv vr kr mr vc kc mc k rsubs csubs dn rd cd flag ro co so D).
    + exact (proj2 (proj2 (proj2 (proj2 (proj2 (proj2 (proj2 (proj2 D)))))))).
  - intros r c Hr Hc. exact (z_base_cell S tv vr kr mr vc kc mc k rsubs csubs dn rd cd flag ro co so D r c Hr Hc).
Qed.

Lemma compose_public_terms_available_C12 : terms_public_zscores = true.
Proof. reflexivity. Qed.
