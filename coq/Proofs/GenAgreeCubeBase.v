(* GenAgreeCubeBase: the constructors, Cube._cube_response and Cube._measures as generated from
   src/cr/cube/cube.py (Gen/CubeSrc.v) - what every other agreement proof about a Cube starts from. *)
From Coq Require Import List ZArith QArith String Bool Lia Arith.
From CC Require Import Base.XQ Base.ListX Base.PyList Base.PyJson Model.CubeCounts Model.DimType
  Model.PyCube Gen.CubeSrc Proofs.GenAgreeCubeLib.
Import ListNotations.
Local Close Scope Q_scope.
Local Open Scope Z_scope.
Local Open Scope string_scope.

(* --- constructors ------------------------------------------------------------------------------- *)
(*@ C06 C18 *)
Lemma gen_cube_Cube___init__ :
  match src_Cube___init__ with
  | Some f => forall resp idx tr pop mask,
      f resp idx tr pop mask
      = mkPyCube resp (if json_is_none tr then JDict [] else tr) idx
                 (if json_is_none pop then JInt 0 else pop) mask
  | None => True end.
Proof. unfold src_Cube___init__. first [exact I | gen_open; reflexivity]. Qed.

(*@ C17 *)
Lemma gen_cube_Measures___init__ :
  match src__Measures___init__ with
  | Some f => forall resp dims idx, f resp dims idx = mkPyMeasures resp dims idx
  | None => True end.
Proof. unfold src__Measures___init__. first [exact I | gen_open; reflexivity]. Qed.

(* --- the parsed response -------------------------------------------------------------------------- *)
(*@ C17 C18 *)
Lemma gen_cube_Cube__cube_response :
  match src_Cube__cube_response with
  | Some f => forall X arg tr idx pop mask,
      f X (mkPyCube arg tr idx pop mask) = parsed_response X arg
  | None => True end.
Proof.
  unfold src_Cube__cube_response.
  first [exact I |
  gen_open; unfold parsed_response, py_json_loads;
  cbn [pc_cube_response_arg];
  destruct arg as [| | | |s| |]; cbn; try reflexivity;
  [ destruct (x_json_loads X s) as [[]|[]]; reflexivity ]].
Qed.

(*@ C17 *)
Lemma gen_cube_Cube__measures :
  match src_Cube__measures, src_Cube__cube_response, src_Cube__all_dimensions with
  | Some f, Some g1, Some g2 => forall X c resp dims,
      g1 X c = POk resp -> g2 X c = POk dims ->
      f X c = POk (mkPyMeasures resp dims (pc_cube_idx_arg c))
  | _, _, _ => True end.
Proof.
  unfold src_Cube__measures.
  generalize gen_cube_Measures___init__; src_cases; (intros Hi;
  gen_open; rewrite H, H0; cbn; rewrite Hi; reflexivity).
Qed.

