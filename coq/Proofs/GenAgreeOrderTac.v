(* Proofs/GenAgreeOrderTac.v -- the standard environments in which the order-helper terms of
   Gen/OrderHelperSrc.v (meaning: Base/OrderExp.v) are evaluated, and the general lemmas about the
   shapes every helper shares (subtotal pruning around `_order`, the try / except ValueError fallback
   around the sort-by-value collator, the key lookups).

   What the environment says - the part of the tie that is NOT read from the assemblers:

     * dimension.py _OrderSpec (hand-written reading): `.collation_method` is the COLLATION_METHOD member
       whose value is the "type" keyword, PAYLOAD_ORDER when the keyword is absent or no value ([cm_of],
       over the member table read from enums.py); `.measure` / `.marginal` raise KeyError when the field
       is absent and ValueError when the keyword is no value of MEASURE / MARGINAL ([spec_enum], over the
       value lists read from enums.py) - an enum member is identified with its value (enums.py has no
       aliases: checked by the translator); `.element_id` / `.insertion_id` / `.measure_keyname` raise
       KeyError when absent.
     * the collators are Model/Collator.v's: PayloadOrderCollator / ExplicitOrderCollator =
       [anchored_display], SortByValueCollator = [sbv_display] over the dimension's own order spec
       (collator.py is tied to them by its own translator / the correspondence of C07 C08 C09).
     * the measures object: `getattr(measures, p).blocks` is the four blocks [env p] with the shapes the
       two dimensions give them, ValueError when the response does not carry the measure ([None]);
       marginals likewise from [marg]; the two pruning masks.  Matrix measures and marginals have
       different property names ([names_apart]).
     * Dimension.translate_element_id of either dimension: any function ([tr]); the model's order
       request carries the TRANSLATED ids ([cook_rows], [cook_cols]). *)
From Coq Require Import List ZArith Bool Lia Arith String QArith.
From CC Require Import Base.XQ Base.SortX Base.AsmExp Base.OrderExp Spec.OrderSpec Model.Collator
  Model.SortKeys Model.OrderOrient Proofs.GenAgreeSortTables.
Import ListNotations.
Local Close Scope Q_scope.
Local Open Scope string_scope.
Local Open Scope nat_scope.

Notation hres' := (hres ident).
Notation heval' := (heval ident ident_eqb (fun i => match i with IInt z => Some z | _ => None end)).

Definition sval_of (k : kval) : sval := match k with KNum x => VNum x | KStr s => VStr s end.
Definition to_hres (r : res (list Z)) : hres' :=
  match r with Ok l => HOk (HVOrder l) | Err c => HRaise c end.

(* np.where(mask)[0] *)
Definition where_mask (mask : list bool) : list nat := AsmExp.positions_from (fun b : bool => b) 0 mask.
(* (i for i, N in enumerate(base) if N == 0) *)
Definition where_zero (base : list xq) : list nat := AsmExp.positions_from (fun x => xeqb x (Fin 0%Q)) 0 base.

(* ---- dimension.py _OrderSpec ---------------------------------------------------------- *)
Definition cm_of (tbl : list (string * string)) (kw : option string) : string :=
  match kw with
  | None => "PAYLOAD_ORDER"
  | Some k => match find (fun p => String.eqb (snd p) k) tbl with
              | Some p => fst p
              | None => "PAYLOAD_ORDER"
              end
  end.
Definition spec_enum (values : list string) (kw : option string) : hres' :=
  match kw with
  | None => HRaise EKeyError
  | Some k => if smem k values then HOk (HVStr k) else HRaise EValueError
  end.
Definition spec_key (kw : option string) : hres' :=
  match kw with None => HRaise EKeyError | Some k => HOk (HVStr k) end.
Definition spec_id (x : option ident) : hres' :=
  match x with None => HRaise EKeyError | Some i => HOk (HVId i) end.

Definition spec_of (me ma : list (string * string)) (o : order_req) (f : string) : hres' :=
  if String.eqb f "measure" then spec_enum (map snd me) (o_measure o)
  else if String.eqb f "marginal" then spec_enum (map snd ma) (o_marginal o)
  else if String.eqb f "element_id" then spec_id (o_element_id o)
  else if String.eqb f "insertion_id" then spec_id (o_insertion_id o)
  else if String.eqb f "measure_keyname" then spec_key (o_measure o)
  else HRaise ETypeError.

(* the order request the model is given: ids already translated into the opposing dimension's space *)
Definition with_ids (o : order_req) (eid iid : option ident) : order_req :=
  mkOrd (o_type o) (o_measure o) (o_marginal o) eid iid (o_spec o) (o_explicit o).
Definition cook_rows (tr_cols : ident -> ident) (cols_array : bool) (o : order_req) : order_req :=
  with_ids o (option_map tr_cols (o_element_id o))
           (if cols_array then option_map tr_cols (o_insertion_id o) else o_insertion_id o).
Definition cook_cols (tr_rows : ident -> ident) (o : order_req) : order_req :=
  with_ids o (option_map tr_rows (o_element_id o)) (o_insertion_id o).

(* ---- the measures object ----------------------------------------------------------------- *)
Definition mblocks_val (n m p q : nat) (b : mblocks) : hval ident :=
  HVSeq [HVSeq [HVMat n p (mb_base b); HVMat n q (mb_scols b)];
         HVSeq [HVMat m p (mb_srows b); HVMat m q (mb_inter b)]].
Definition vblocks_val (b : vblocks) : hval ident :=
  HVSeq [HVVals (map KNum (fst b)); HVVals (map KNum (snd b))].

Definition names_apart (env : menv) (marg : venv) : Prop :=
  (forall k r, find_kw matrix_table k = Some r -> marg (kw_prop r) = None) /\
  (forall k r, find_kw marginal_table k = Some r -> env (kw_prop r) = None).

Section Slice.
Variables cm me ma t_matrix t_marginal : list (string * string).
Variables rows cols : dimension.
Variables rreq creq : order_req.          (* the raw order dicts *)
Variables rmask cmask : list bool.
Variables rl cl : list string * list string.
Variable tr : hdim -> ident -> ident.
Variable env : menv.
Variable marg : venv.

Definition sl_dim (d : hdim) : dimension := match d with DRows => rows | DCols => cols end.
Definition sl_req (d : hdim) : order_req := match d with DRows => rreq | DCols => creq end.
Definition sl_lab (d : hdim) : list string * list string := match d with DRows => rl | DCols => cl end.

Definition sl_n := List.length (d_ids rows).
Definition sl_m := List.length (subtotals rows).
Definition sl_p := List.length (d_ids cols).
Definition sl_q := List.length (subtotals cols).

Definition sl_blocks (name : string) : hres' :=
  match env name with
  | Some b => HOk (mblocks_val sl_n sl_m sl_p sl_q b)
  | None => match marg name with
            | Some v => HOk (vblocks_val v)
            | None => HRaise EValueError
            end
  end.

Definition collate_of (dim : hdim -> dimension) (req : hdim -> order_req)
           (c : hcoll) (d : hdim) (emp : list nat) (f : ofmt) : hres' :=
  match f, c with
  | FmtSigned, CPayload => to_hres (anchored_display (dim d) OPayload emp)
  | FmtSigned, CExplicit => to_hres (anchored_display (dim d) (OExplicit (o_explicit (req d))) emp)
  | _, _ => HRaise ETypeError
  end.
Definition sbv_of (dim : hdim -> dimension) (req : hdim -> order_req)
           (d : hdim) (ev sv : list kval) (emp : list nat) (f : ofmt) : hres' :=
  match f with
  | FmtSigned => HOk (HVOrder (sbv_display (dim d) (o_spec (req d)) (map sval_of ev) (map sval_of sv) emp))
  | FmtBogus => HRaise ETypeError
  end.

Definition henv_slice : henv ident :=
  mkHenv (fun d => cm_of cm (o_type (sl_req d)))
         (fun d => d_array (sl_dim d))
         (fun d f => spec_of me ma (sl_req d) f)
         (fun d => d_prune (sl_dim d))
         (fun d => d_ids (sl_dim d))
         (fun d => map fst (subtotals (sl_dim d)))
         (fun d => fst (sl_lab d))
         (fun d => snd (sl_lab d))
         tr
         (fun name => if String.eqb name "rows_pruning_mask" then HOk (HVBools rmask)
                      else if String.eqb name "columns_pruning_mask" then HOk (HVBools cmask)
                      else HRaise ETypeError)
         sl_blocks
         (fun t => if String.eqb t "matrix" then t_matrix
                   else if String.eqb t "marginal" then t_marginal else [])
         FmtSigned
         (collate_of sl_dim sl_req)
         (sbv_of sl_dim sl_req).

(* what the model is given for this slice *)
Definition sl_sd : slice_dims :=
  mkSliceDims rows cols
              (cook_rows (tr DCols) (d_array cols) rreq) (cook_cols (tr DRows) creq)
              (where_mask rmask) (where_mask cmask) rl cl.
End Slice.

Section Strand.
Variables cm t_strand : list (string * string).
Variable dim : dimension.
Variable req : order_req.
Variable pruning_base : list xq.
Variable labels : list string * list string.
Variable env : venv.

Definition henv_strand : henv ident :=
  mkHenv (fun _ => cm_of cm (o_type req))
         (fun _ => d_array dim)
         (fun _ f => spec_of [] [] req f)
         (fun _ => d_prune dim)
         (fun _ => d_ids dim)
         (fun _ => map fst (subtotals dim))
         (fun _ => fst labels)
         (fun _ => snd labels)
         (fun _ i => i)
         (fun name => if String.eqb name "pruning_base" then HOk (HVNums pruning_base)
                      else HRaise ETypeError)
         (fun name => match env name with Some v => HOk (vblocks_val v) | None => HRaise EValueError end)
         (fun t => if String.eqb t "strand" then t_strand else [])
         FmtSigned
         (collate_of (fun _ => dim) (fun _ => req))
         (sbv_of (fun _ => dim) (fun _ => req)).
End Strand.

(* all six tables were read *)
Definition with_tables (P : list (string * string) -> list (string * string) -> list (string * string) ->
                            list (string * string) -> list (string * string) -> list (string * string) -> Prop)
  : Prop :=
  match SortTablesSrc.tbl_COLLATION_METHOD, SortTablesSrc.tbl_MEASURE, SortTablesSrc.tbl_MARGINAL,
        SortTablesSrc.tbl_matrix_sort_measures, SortTablesSrc.tbl_marginal_sort_marginals,
        SortTablesSrc.tbl_strand_sort_measures with
  | Some cm, Some me, Some ma, Some t1, Some t2, Some t3 => P cm me ma t1 t2 t3
  | _, _, _, _, _, _ => True
  end.

(* ------------------------------------------------------------------------------------ *)
(** * shapes every helper shares *)

Lemma hbind_ok {I} (v : hval I) f : hbind I (HOk v) f = f v.
Proof. reflexivity. Qed.

(* _BaseOrderHelper._display_order (matrix): the subtotal pruning around `_order` *)
Lemma display_wrap E C O (psub : bool) (R : res (list Z)) :
  heval' E C = HOk (HVBool psub) ->
  heval' E O = to_hres R ->
  heval' E (HIf C (HArray (HFilter O (XAnd (XNot XIsStr) (XCmp CGe 0%Z)))) (HArray O))
  = to_hres (bind R (fun l => Ok (if psub then filter (fun z => Z.leb 0 z) l else l))).
Proof.
  intros HC HO. cbn [heval]. rewrite HC. cbn [hbind]. destruct psub; cbn [heval]; rewrite HO.
  - destruct R as [l|c]; cbn [to_hres hbind bind]; [|reflexivity].
    assert (X : filter (xceval (XAnd (XNot XIsStr) (XCmp CGe 0%Z))) l = filter (fun z => Z.leb 0 z) l)
      by (apply filter_ext; intros z; reflexivity).
    rewrite X. reflexivity.
  - destruct R as [l|c]; reflexivity.
Qed.

(* _prune_subtotals of the row helpers (looks at the COLUMNS) and of the column helpers (at the ROWS) *)
Lemma prune_eval cm me ma t1 t2 rows cols rreq creq rmask cmask rl cl tr env marg (d : hdim) :
  heval' (henv_slice cm me ma t1 t2 rows cols rreq creq rmask cmask rl cl tr env marg)
         (HIf (HPruneFlag d)
              (HLenEq (HTuple (HWhere0 (HMeasuresAttr (match d with DRows => "rows_pruning_mask"
                                                              | DCols => "columns_pruning_mask" end))))
                      (HElementIds d))
              (HBool false))
  = HOk (HVBool (prune_subtotals (d_prune (match d with DRows => rows | DCols => cols end))
                                 (where_mask (match d with DRows => rmask | DCols => cmask end))
                                 (List.length (d_ids (match d with DRows => rows | DCols => cols end))))).
Proof.
  unfold prune_subtotals. destruct d; cbn; destruct (d_prune _); reflexivity.
Qed.

(* the empties argument *)
Lemma empties_eval cm me ma t1 t2 rows cols rreq creq rmask cmask rl cl tr env marg (d : hdim) :
  heval' (henv_slice cm me ma t1 t2 rows cols rreq creq rmask cmask rl cl tr env marg)
         (HTuple (HWhere0 (HMeasuresAttr (match d with DRows => "rows_pruning_mask"
                                                  | DCols => "columns_pruning_mask" end))))
  = HOk (HVNats (where_mask (match d with DRows => rmask | DCols => cmask end))).
Proof. destruct d; reflexivity. Qed.

(* the result of looking for sort values, as the evaluation of the two value arguments *)
Definition vals_eval (E : henv ident) (EV SV : hexp) (f : found) : Prop :=
  match f with
  | Ok (Some (v, sv)) =>
      exists ev esv, heval' E EV = HOk (HVVals ev) /\ heval' E SV = HOk (HVVals esv) /\
                     map sval_of ev = v /\ map sval_of esv = sv
  | Ok None =>
      heval' E EV = HRaise EValueError \/
      (exists ev, heval' E EV = HOk (HVVals ev) /\ heval' E SV = HRaise EValueError)
  | Err c =>
      c <> EValueError /\
      (heval' E EV = HRaise c \/ (exists ev, heval' E EV = HOk (HVVals ev) /\ heval' E SV = HRaise c))
  end.

(* _BaseSort*ByValueHelper._order: try SortByValueCollator except ValueError -> PayloadOrderCollator *)
Lemma try_sbv (E : henv ident) (d : hdim) EV SV EMP (emp : list nat) (dm : dimension) (o : order_req)
      (m : method) (f : found) :
  is_value_method m = true ->
  h_format _ E = FmtSigned ->
  (forall ev sv, h_sbv _ E d ev sv emp FmtSigned
                 = HOk (HVOrder (sbv_display dm (o_spec o) (map sval_of ev) (map sval_of sv) emp))) ->
  h_collate _ E CPayload d emp FmtSigned = to_hres (anchored_display dm OPayload emp) ->
  heval' E EMP = HOk (HVNats emp) ->
  vals_eval E EV SV f ->
  heval' E (HTry (HCollate5 CSortByValue (HDim d) EV SV EMP HFormat) EValueError
                 (HCollate3 CPayload (HDim d) EMP HFormat))
  = to_hres (bind (ordering_of o m f) (fun og => helper_order dm og emp)).
Proof.
  intros Hm Hf Hs Hp He Hv.
  assert (Og : ordering_of o m f = bind f (fun v => Ok (ByValue (o_spec o) v)))
    by (destruct m; try discriminate; reflexivity).
  rewrite Og. cbn [heval hbind]. rewrite He, Hf. cbn [hbind].
  destruct f as [[[v sv]|]|c]; cbn [vals_eval] in Hv.
  - destruct Hv as (ev & esv & H1 & H2 & <- & <-). rewrite H1, H2. cbn [hbind]. rewrite Hs. reflexivity.
  - cbn [bind helper_order]. destruct Hv as [H1|(ev & H1 & H2)].
    + rewrite H1. cbn [hbind]. unfold EValueError. cbn [Z.eqb Pos.eqb]. rewrite Hp. reflexivity.
    + rewrite H1, H2. cbn [hbind]. unfold EValueError. cbn [Z.eqb Pos.eqb]. rewrite Hp. reflexivity.
  - destruct Hv as [Hc Hv]. cbn [bind to_hres].
    assert (Ec : Z.eqb c EValueError = false) by (apply Z.eqb_neq; exact Hc).
    destruct Hv as [H1|(ev & H1 & H2)].
    + rewrite H1. cbn [hbind]. rewrite Ec. reflexivity.
    + rewrite H1, H2. cbn [hbind]. rewrite Ec. reflexivity.
Qed.

(* ---- key lookups ------------------------------------------------------------------------ *)
Lemma find_index_eq x ids :
  OrderExp.index_of ident ident_eqb x ids = find_index x ids.
Proof. induction ids as [|y t IH]; simpl; [reflexivity|]. rewrite IH. reflexivity. Qed.

Lemma find_indexZ_eq x ids : index_ofZ x ids = find_indexZ x ids.
Proof. induction ids as [|y t IH]; simpl; [reflexivity|]. rewrite IH. reflexivity. Qed.

Lemma find_index_lt x ids j : find_index x ids = Some j -> j < List.length ids.
Proof.
  revert j. induction ids as [|y t IH]; simpl; intros j H; [discriminate|].
  destruct (ident_eqb y x); [inversion H; lia|].
  destruct (find_index x t) as [k|]; simpl in H; [|discriminate]. inversion H. specialize (IH k eq_refl). lia.
Qed.

Lemma find_indexZ_lt x ids j : find_indexZ x ids = Some j -> j < List.length ids.
Proof.
  revert j. induction ids as [|y t IH]; simpl; intros j H; [discriminate|].
  destruct (Z.eqb y x); [inversion H; lia|].
  destruct (find_indexZ x t) as [k|]; simpl in H; [|discriminate]. inversion H. specialize (IH k eq_refl). lia.
Qed.

Lemma map_sval_KNum l : map sval_of (map KNum l) = map VNum l.
Proof. rewrite map_map. reflexivity. Qed.
Lemma map_sval_KStr l : map sval_of (map KStr l) = map VStr l.
Proof. rewrite map_map. reflexivity. Qed.

Lemma omap_strs (l : list string) :
  omap (fun x : hval ident => match x with HVStr s => Some (KStr s) | _ => None end) (map HVStr l)
  = Some (map KStr l).
Proof. induction l as [|s t IH]; simpl; [reflexivity|]. rewrite IH. reflexivity. Qed.
