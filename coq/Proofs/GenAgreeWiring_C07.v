(* GOLDEN obligations of the wiring translator for C07 (generated ONCE by tools/gen_wiring_props.py,
   then committed): what each public member of cubepart.py that C07 relies on IS, as a term of
   Base/WiringExp.v.  Gen/WiringSrc.v is regenerated from /repo on every check; an edit of the
   public layer that changes one of these members breaks the lemma below (reflexivity). *)
From Coq Require Import List ZArith String.
From CC Require Import Base.WiringExp Gen.WiringSrc.
Import ListNotations.
Local Open Scope string_scope.

(* _Slice.payload_order *)
Lemma gen_wiring_Slice_payload_order :
  wsrc_Slice_payload_order = Some (WCall (WGlobal "tuple") [WAttr (WCall (WGlobal
      "PayloadOrderCollator") [WSelf "_rows_dimension"; WCall (WGlobal "tuple") [WIndex (WCall
      (WAttr (WGlobal "np") "where") [WAttr (WSelf "_measures") "rows_pruning_mask"] []) [WInt
      (0)%Z]] []] []) "payload_order"] []).
Proof. reflexivity. Qed.

(* _Strand.payload_order *)
Lemma gen_wiring_Strand_payload_order :
  wsrc_Strand_payload_order = Some (WCall (WGlobal "tuple") [WAttr (WCall (WGlobal
      "PayloadOrderCollator") [WSelf "_rows_dimension"; WCall (WGlobal "tuple") [WComp "gen" (WVar
      "i") [(["i"; "N"], WCall (WGlobal "enumerate") [WAttr (WSelf "_measures") "pruning_base"] [],
      [WCmp "==" (WVar "N") (WInt (0)%Z)])]] []] []) "payload_order"] []).
Proof. reflexivity. Qed.

(* _Strand._row_order_bogus_ids *)
Lemma gen_wiring_Strand__row_order_bogus_ids :
  wsrc_Strand__row_order_bogus_ids = Some (WCall (WAttr (WGlobal "np") "array") [WCall (WAttr (WGlobal
      "stripe_BaseOrderHelper") "display_order") [WSelf "_rows_dimension"; WSelf "_measures"]
      [("format", WAttr (WGlobal "ORDER_FORMAT") "BOGUS_IDS")]] []).
Proof. reflexivity. Qed.
