(* GenAgreeDimTypeHidden: Elements._hidden_transforms as generated from src/cr/cube/dimension.py
   (Gen/DimensionSrc.v) IS [hidden_transforms] of Model/DimValues.v, for every list of element definitions of a
   subvariables dimension ([hdef_abs]: value.id and the element id - subvar_alias, else id - are identifiers) and
   every list of insertion transforms ([hins_abs]: dicts; one with a truthy "hide" has an identifier "name").
   With [gen_dimtype_Elements_from_typedef] (Proofs/GenAgreeDimTypeOrder.v) this is the MR_SUBVAR branch of
   Elements.from_typedef: the element transforms are {**hidden_transforms, **elements}. *)
From Coq Require Import List ZArith String Bool Lia Arith.
From CC Require Import Base.XQ Base.PyList Base.PyDict Model.DimType Model.PyDimension Model.PyDimType
  Model.DimValues Gen.DimensionSrc Gen.DimTypeSrc Proofs.GenAgreeDimensionLib Proofs.GenAgreeDimTypeLib
  Proofs.GenAgreeDimTypeElems Proofs.GenAgreeDimTypeOrder.
From CC Require Base.Ident.
Import ListNotations.
Local Close Scope Q_scope.
Local Open Scope Z_scope.
Local Open Scope string_scope.

(* an insertion dict of the transforms: [Some name] when its "hide" is truthy *)
Definition hins_abs (i : jv) (h : option ident) : Prop :=
  exists d, i = JDict d /\
    if jv_truthy (jd_get_default d (JStr "hide") (JBool false))
    then exists nm, jget d "name" = Some (jv_of_ident nm) /\ h = Some nm
    else h = None.

(* an element definition of a subvariables dimension: (value.id, element id) *)
Definition hdef_abs (def : jv) (p : ident * ident) : Prop :=
  exists e v, def = JDict e /\ jget e "value" = Some (JDict v) /\ jget v "id" = Some (jv_of_ident (fst p)) /\
    if jv_truthy (jd_get_default e (JStr "subvar_alias") JNone)
    then jd_get_default e (JStr "subvar_alias") JNone = jv_of_ident (snd p)
    else jget e "id" = Some (jv_of_ident (snd p)).

Definition opt_names (hs : list (option ident)) : list ident := flat_map (fun h => opt_list h) hs.

Lemma find_last_map {A B} (g : A -> B) c (l : list (ident * A)) :
  find_last c (map (fun p => (fst p, g (snd p))) l) = option_map g (find_last c l).
Proof.
  induction l as [|[k x] t IH]; cbn [map find_last fst snd]; [reflexivity|].
  rewrite IH. destruct (find_last c t); cbn [option_map]; [reflexivity|]. destruct (ident_eqb k c); reflexivity.
Qed.

Lemma pj_key_ident i : pj_key (jv_of_ident i) = Ok (jv_of_ident i).
Proof. unfold pj_key. rewrite jv_hashable_ident. reflexivity. Qed.

(*@ C05 *)
Lemma gen_dimtype_Elements__hidden_transforms :
  match src_Elements__hidden_transforms with
  | Some f => forall defs hdefs ins hs,
      Forall2 hdef_abs defs hdefs -> Forall2 hins_abs ins hs ->
      f (JList defs) (JList ins) = Ok (hidden_transforms hdefs (opt_names hs))
  | None => True end.
Proof.
  unfold src_Elements__hidden_transforms.
  first [exact I | idtac].
  all: intros defs hdefs ins hs Hd Hi; cbv beta iota; unfold pj_iter; dsimpl.
  (* the names of the hidden insertions *)
  all: match goal with |- bind (py_compM ?F ?l) _ = _ =>
         assert (E1 : py_compM F l = Ok (map jv_of_ident (opt_names hs))) end;
       [ clear Hd; induction Hi as [|i h is hs' (d & -> & Hh) _ IH]; [reflexivity|];
         cbn [py_compM opt_names flat_map]; rewrite pj_get_dict; dsimpl;
         destruct (jv_truthy (jd_get_default d (JStr "hide") (JBool false)));
           [ destruct Hh as (nm & Hn & ->); rewrite pj_getitem_jget, Hn; dsimpl; rewrite IH; reflexivity
           | subst h; dsimpl; rewrite IH; reflexivity ]
       | rewrite E1; clear E1; dsimpl; cbv zeta ].
  (* {value.id: element id} *)
  all: match goal with |- bind (py_compM ?F ?l) _ = _ =>
         assert (E2 : py_compM F l = Ok (kmap (map (fun p => (fst p, jv_of_ident (snd p))) hdefs))) end;
       [ clear Hi; induction Hd as [|def p ds ps (e & v & -> & Hv & Hid & He) _ IH]; [reflexivity|];
         cbn [py_compM map kmap fst snd]; rewrite pj_getitem_jget, Hv; dsimpl; rewrite pj_getitem_jget, Hid; dsimpl;
         rewrite pj_get_dict; dsimpl;
         destruct (jv_truthy (jd_get_default e (JStr "subvar_alias") JNone));
           [ rewrite He | rewrite pj_getitem_jget, He ]; dsimpl; rewrite pj_key_ident; dsimpl;
           unfold kmap in IH; rewrite IH; reflexivity
       | rewrite E2; clear E2; dsimpl ].
  (* the dict comprehension over the hidden names *)
  all: match goal with |- bind (py_compM ?F (map ?k ?l)) _ = _ =>
         rewrite (py_compM_mapped F k
                  (fun nm => match find_last nm hdefs with
                             | Some eid => Some (jv_of_ident eid, DimValues.hide_true) | None => None end) l) end;
       [ dsimpl
       | intros nm; unfold pd_contains, pd_getitem, jd_mem, jd_get, py_dict_mem;
         rewrite jv_hashable_ident, codemap_lookup, find_last_map;
         destruct (find_last nm hdefs) as [eid|]; cbn [option_map]; dsimpl; [|reflexivity];
         rewrite pj_key_ident; reflexivity ].
  all: unfold hidden_transforms, hidden_pairs.
  all: assert (E3 : flat_map (fun x => opt_list match find_last x hdefs with
                                                 | Some eid => Some (jv_of_ident eid, DimValues.hide_true) | None => None end)
                             (opt_names hs)
                    = kmap (flat_map (fun nm => match find_last nm hdefs with
                                                | Some eid => [(eid, DimValues.hide_true)] | None => [] end) (opt_names hs)))
         by (induction (opt_names hs) as [|nm t IH]; [reflexivity|]; cbn [flat_map]; unfold kmap in *;
             rewrite map_app, <- IH; destruct (find_last nm hdefs); reflexivity).
  all: rewrite E3, kmap_of_pairs; unfold kmap; rewrite map_map; reflexivity.
Qed.
