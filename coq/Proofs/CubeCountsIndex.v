(* Proofs/CubeCountsIndex.v -- C16: the baselines of _*UnconditionalCubeCounts applied to the
   tensor of a survey (missing elements and the full MR selection axis included) are the
   unconditional row shares  w(in_row i) / w(ok_row i), whatever the column answer is. *)
From Coq Require Import QArith ZArith List Bool Lia Arith Btauto Setoid Morphisms.
From CC Require Import Base.XQ Base.ListX Spec.Survey Model.CubeCounts Proofs.CubeCountsProofs.
Import ListNotations.
Local Close Scope Q_scope.
Local Open Scope nat_scope.

(* a RAW slice tensor (no valid selection): counts_with_missings[_slice_idx_expr] *)
Definition raw_spec (S : survey) (pop : resp -> bool) (rc : cubevars) (W : tensor) : Prop :=
  forall idx, W idx = Fin (wsum S (fun r => pop r && contributes_all rc r idx)).

(* every respondent has a column answer inside the payload (the tensor holds everybody) *)
Definition col_total (S : survey) (vc nac : nat) : Prop :=
  forall r, In r S -> match acat (ans r vc) with Some c => c <? nac | None => false end = true.

Lemma xsum_map_nth (f : nat -> xq) (l : list nat) :
  xsum (map f l) = xsumn (length l) (fun i => f (nth i l 0)).
Proof. unfold xsumn. rewrite (tab_nth_map f l 0). reflexivity. Qed.

Section BaselineCatCat.
  Variable S : survey.
  Variable pop : resp -> bool.
  Variables vr vc : nat.
  Variable mr : list bool.
  Variable nac : nat.
  Variable W : tensor.
  Hypothesis HW : raw_spec S pop [(vr, KCat); (vc, KCat)] W.
  Hypothesis Hcol : col_total S vc nac.

  Lemma ubcc_cell a j :
    W [a; j] = Fin (wsum S (fun r => pop r && (oeqb (acat (ans r vr)) a
                                  && (oeqb (acat (ans r vc)) j && true)))).
  Proof. rewrite HW. reflexivity. Qed.

  Lemma ub_cc_margin_spec a :
    ub_cc_margin W nac a =x= Fin (wsum S (fun r => pop r && oeqb (acat (ans r vr)) a)).
  Proof.
    unfold ub_cc_margin.
    apply (xsumn_wsum S nac _ (fun j r => pop r && (oeqb (acat (ans r vr)) a
                                  && (oeqb (acat (ans r vc)) j && true)))).
    - intros j _. apply ubcc_cell.
    - intros r Hr.
      rewrite (qsumn_ind_onehot_all nac (acat (ans r vc)) (pop r && oeqb (acat (ans r vr)) a)).
      + rewrite (Hcol r Hr). rewrite andb_true_r. reflexivity.
      + intros j. btauto.
  Qed.

  Lemma ub_cc_total_spec :
    xsum (map (ub_cc_margin W nac) (valid_idxs mr)) =x=
    Fin (wsum S (fun r => pop r && ok_cat mr (ans r vr))).
  Proof.
    rewrite xsum_map_nth. unfold ub_cc_margin.
    apply (xsumn2_wsum S (length (valid_idxs mr)) nac _
             (fun i j r => pop r && (oeqb (acat (ans r vr)) (nth i (valid_idxs mr) 0)
                                  && (oeqb (acat (ans r vc)) j && true)))).
    - intros i j _ _. apply ubcc_cell.
    - intros r Hr.
      rewrite (qsumn_ext _ _ (fun i => ind (pop r && oeqb (acat (ans r vr)) (nth i (valid_idxs mr) 0)))).
      + rewrite (qsumn_ind_onehot mr (acat (ans r vr)) (pop r)); [reflexivity| intros i; reflexivity].
      + intros i _.
        rewrite (qsumn_ind_onehot_all nac (acat (ans r vc))
                   (pop r && oeqb (acat (ans r vr)) (nth i (valid_idxs mr) 0))).
        * rewrite (Hcol r Hr). rewrite andb_true_r. reflexivity.
        * intros j. btauto.
  Qed.

  Lemma ub_cc_spec i : i < length (valid_idxs mr) ->
    ub_cc W (valid_idxs mr) nac i =x=
    xdiv (Fin (wsum S (fun r => pop r && in_cat mr (ans r vr) i)))
         (Fin (wsum S (fun r => pop r && ok_cat mr (ans r vr)))).
  Proof.
    intros Hi. unfold ub_cc. rewrite ub_cc_margin_spec, ub_cc_total_spec.
    apply xdiv_Proper; [|reflexivity]. simpl. apply wsum_ext. intros r _.
    unfold in_cat. rewrite (ltb_true _ _ Hi). reflexivity.
  Qed.
End BaselineCatCat.

Section BaselineCatMr.
  Variable S : survey.
  Variable pop : resp -> bool.
  Variables vr vc : nat.
  Variable mr : list bool.
  Variable W : tensor.
  Hypothesis HW : raw_spec S pop [(vr, KCat); (vc, KMr)] W.

  Lemma ubcm_cell a j s :
    W [a; j; s] = Fin (wsum S (fun r => pop r && (oeqb (acat (ans r vr)) a
                                  && ((code (mstate (ans r vc) j) =? s) && true)))).
  Proof. rewrite HW. reflexivity. Qed.

  Lemma ub_cm_margin_spec j a :
    ub_cm_margin W 3 j a =x= Fin (wsum S (fun r => pop r && oeqb (acat (ans r vr)) a)).
  Proof.
    unfold ub_cm_margin.
    apply (xsumn_wsum S 3 _ (fun s r => pop r && (oeqb (acat (ans r vr)) a
                                  && ((code (mstate (ans r vc) j) =? s) && true)))).
    - intros s _. apply ubcm_cell.
    - intros r _. rewrite qsumn_3.
      destruct (mstate (ans r vc) j), (pop r), (oeqb (acat (ans r vr)) a); ind_done.
  Qed.

  Lemma ub_cm_total_spec j :
    xsum (map (ub_cm_margin W 3 j) (valid_idxs mr)) =x=
    Fin (wsum S (fun r => pop r && ok_cat mr (ans r vr))).
  Proof.
    rewrite xsum_map_nth. unfold ub_cm_margin.
    apply (xsumn2_wsum S (length (valid_idxs mr)) 3 _
             (fun i s r => pop r && (oeqb (acat (ans r vr)) (nth i (valid_idxs mr) 0)
                                  && ((code (mstate (ans r vc) j) =? s) && true)))).
    - intros i s _ _. apply ubcm_cell.
    - intros r _.
      rewrite (qsumn_ext _ _ (fun i => ind (pop r && oeqb (acat (ans r vr)) (nth i (valid_idxs mr) 0)))).
      + rewrite (qsumn_ind_onehot mr (acat (ans r vr)) (pop r)); [reflexivity| intros i; reflexivity].
      + intros i _. rewrite qsumn_3.
        destruct (mstate (ans r vc) j), (pop r),
          (oeqb (acat (ans r vr)) (nth i (valid_idxs mr) 0)); ind_done.
  Qed.

  Lemma ub_cm_spec i j : i < length (valid_idxs mr) ->
    ub_cm W (valid_idxs mr) 3 i j =x=
    xdiv (Fin (wsum S (fun r => pop r && in_cat mr (ans r vr) i)))
         (Fin (wsum S (fun r => pop r && ok_cat mr (ans r vr)))).
  Proof.
    intros Hi. unfold ub_cm. rewrite ub_cm_margin_spec, ub_cm_total_spec.
    apply xdiv_Proper; [|reflexivity]. simpl. apply wsum_ext. intros r _.
    unfold in_cat. rewrite (ltb_true _ _ Hi). reflexivity.
  Qed.
End BaselineCatMr.

Section BaselineMrCat.
  Variable S : survey.
  Variable pop : resp -> bool.
  Variables vr vc : nat.
  Variable mr : list bool.
  Variable nac : nat.
  Variable W : tensor.
  Hypothesis HW : raw_spec S pop [(vr, KMr); (vc, KCat)] W.
  Hypothesis Hcol : col_total S vc nac.

  Lemma ubmc_cell a s j :
    W [a; s; j] = Fin (wsum S (fun r => pop r && ((code (mstate (ans r vr) a) =? s)
                                  && (oeqb (acat (ans r vc)) j && true)))).
  Proof. rewrite HW. reflexivity. Qed.

  Lemma ub_mc_spec i :
    ub_mc W (valid_idxs mr) nac 3 i =x=
    xdiv (Fin (wsum S (fun r => pop r && in_mr mr (ans r vr) i)))
         (Fin (wsum S (fun r => pop r && ok_mr mr (ans r vr) i))).
  Proof.
    unfold ub_mc. apply xdiv_Proper.
    - apply (xsumn_wsum S nac _ (fun j r => pop r &&
               ((code (mstate (ans r vr) (nth i (valid_idxs mr) 0)) =? 0)
                && (oeqb (acat (ans r vc)) j && true)))).
      + intros j _. apply ubmc_cell.
      + intros r Hr.
        rewrite (qsumn_ind_onehot_all nac (acat (ans r vc))
                   (pop r && (code (mstate (ans r vr) (nth i (valid_idxs mr) 0)) =? 0))).
        * rewrite (Hcol r Hr). rewrite andb_true_r. unfold in_mr.
          destruct (mstate (ans r vr) (nth i (valid_idxs mr) 0)); reflexivity.
        * intros j. btauto.
    - change (Nat.min 2 3) with 2.
      apply (xsumn2_wsum S 2 nac _ (fun s j r => pop r &&
               ((code (mstate (ans r vr) (nth i (valid_idxs mr) 0)) =? s)
                && (oeqb (acat (ans r vc)) j && true)))).
      + intros s j _ _. apply ubmc_cell.
      + intros r Hr.
        rewrite (qsumn_ext 2 _ (fun s => ind (pop r &&
                   (code (mstate (ans r vr) (nth i (valid_idxs mr) 0)) =? s)))).
        * rewrite qsumn_2. unfold ok_mr.
          destruct (mstate (ans r vr) (nth i (valid_idxs mr) 0)), (pop r); ind_done.
        * intros s _.
          rewrite (qsumn_ind_onehot_all nac (acat (ans r vc))
                     (pop r && (code (mstate (ans r vr) (nth i (valid_idxs mr) 0)) =? s))).
          -- rewrite (Hcol r Hr). rewrite andb_true_r. reflexivity.
          -- intros j. btauto.
  Qed.
End BaselineMrCat.

Section BaselineMrMr.
  Variable S : survey.
  Variable pop : resp -> bool.
  Variables vr vc : nat.
  Variable mr : list bool.
  Variable W : tensor.
  Hypothesis HW : raw_spec S pop [(vr, KMr); (vc, KMr)] W.

  Lemma ubmm_cell a s j t :
    W [a; s; j; t] = Fin (wsum S (fun r => pop r && ((code (mstate (ans r vr) a) =? s)
                                  && ((code (mstate (ans r vc) j) =? t) && true)))).
  Proof. rewrite HW. reflexivity. Qed.

  (* the code does NOT select valid rows here: it relies on MR items never being missing *)
  Lemma ub_mm_spec i j : nth i (valid_idxs mr) 0 = i ->
    ub_mm W 3 i j =x=
    xdiv (Fin (wsum S (fun r => pop r && in_mr mr (ans r vr) i)))
         (Fin (wsum S (fun r => pop r && ok_mr mr (ans r vr) i))).
  Proof.
    intros Hid. unfold ub_mm. apply xdiv_Proper.
    - apply (xsumn_wsum S 3 _ (fun t r => pop r && ((code (mstate (ans r vr) i) =? 0)
                                  && ((code (mstate (ans r vc) j) =? t) && true)))).
      + intros t _. apply ubmm_cell.
      + intros r _. rewrite qsumn_3. unfold in_mr. rewrite Hid.
        destruct (mstate (ans r vr) i), (mstate (ans r vc) j), (pop r); ind_done.
    - change (Nat.min 2 3) with 2.
      apply (xsumn2_wsum S 2 3 _ (fun s t r => pop r && ((code (mstate (ans r vr) i) =? s)
                                  && ((code (mstate (ans r vc) j) =? t) && true)))).
      + intros s t _ _. apply ubmm_cell.
      + intros r _. rewrite qsumn_2, !qsumn_3. unfold ok_mr. rewrite Hid.
        destruct (mstate (ans r vr) i), (mstate (ans r vc) j), (pop r); ind_done.
  Qed.
End BaselineMrMr.

(* ------------------------------------------------------------------------------------ *)
(** * pipeline: the raw slice of the survey tensor *)

(* the payload offset of the k-th valid table element
   (CubeMeasures.unconditional_cube_counts: cube.dimensions[0].valid_elements.element_idxs[k]) *)
Definition toffset (tv : tvar) (k : nat) : nat :=
  match tv with None => k | Some (_, _, ms) => nth k (valid_idxs ms) 0 end.

(* counts_with_missings[_slice_idx_expr(cube, table offset)] *)
Definition raw_slice_of (tv : tvar) vr kr mr vc kc mc (S : survey) (k : nat) : tensor :=
  let ds := cube_dims tv kr mr kc mc in
  slice_at (length (apparent ds)) (t_is_mr tv) (toffset tv k) (raw_of (cube_vars tv vr kr vc kc) S).

(* the sub-population a raw slice is about: table element at RAW offset o *)
Definition pop_at_offset (tv : tvar) (o : nat) (r : resp) : bool :=
  match tv with
  | None => true
  | Some (v, kd, ms) => contributes kd (ans r v) (match kd with KCat => [o] | _ => [o; 0] end)
  end.

Lemma raw_slice_of_spec tv vr kr mr vc kc mc S k :
  t_ok tv -> cat_or_mr kr -> cat_or_mr kc ->
  raw_spec S (pop_at_offset tv (toffset tv k)) [(vr, kr); (vc, kc)] (raw_slice_of tv vr kr mr vc kc mc S k).
Proof.
  intros Ht Hr Hc idx.
  destruct tv as [[[vt kt] mt]|]; simpl in Ht.
  - destruct Ht as [-> | ->], Hr as [-> | ->], Hc as [-> | ->]; reflexivity.
  - destruct Hr as [-> | ->], Hc as [-> | ->]; reflexivity.
Qed.

(* the raw slice at the table offset is about exactly the respondents of the k-th VALID table
   element, wherever missing table elements sit *)
Lemma pop_at_offset_eq tv k r :
  t_ok tv -> k < t_n tv -> pop_at_offset tv (toffset tv k) r = pop_of tv k r.
Proof.
  intros Ht Hk. rewrite <- (pop_raw_eq tv k r Ht Hk).
  destruct tv as [[[v kd] ms]|]; reflexivity.
Qed.

Definition kmr (k : kind) : bool := match k with KMr => true | _ => false end.

Section BaselineDispatch.
  Variable S : survey.
  Variable tv : tvar.
  Variables vr vc : nat.
  Variables kr kc : kind.
  Variables mr mc : list bool.
  Variable k : nat.
  Hypothesis Ht : t_ok tv.
  Hypothesis Hr : cat_or_mr kr.
  Hypothesis Hc : cat_or_mr kc.
  Hypothesis Hk : k < t_n tv.
  (* categorical columns: every respondent's column answer is in the payload *)
  Hypothesis Hcol : kc = KCat -> col_total S vc (length mc).
  (* MR x MR: the code reads row item i at raw offset i *)
  Hypothesis Hitems : kr = KMr -> kc = KMr -> forall i, i < nval mr -> nth i (valid_idxs mr) 0 = i.

  Theorem baseline_of_spec i j : i < nval mr ->
    baseline_of (raw_slice_of tv vr kr mr vc kc mc S k) (valid_idxs mr) (length mc) 3 (kmr kr) (kmr kc) i j
    =x= xdiv (Fin (wsum S (fun r => pop_of tv k r && in_el kr mr (ans r vr) i)))
             (Fin (wsum S (fun r => pop_of tv k r && ok_el kr mr (ans r vr) i))).
  Proof.
    intros Hi.
    transitivity (xdiv (Fin (wsum S (fun r => pop_at_offset tv (toffset tv k) r && in_el kr mr (ans r vr) i)))
                       (Fin (wsum S (fun r => pop_at_offset tv (toffset tv k) r && ok_el kr mr (ans r vr) i)))).
    2:{ apply xdiv_Proper; simpl; apply wsum_ext; intros r _;
        rewrite (pop_at_offset_eq tv k r Ht Hk); reflexivity. }
    pose proof (raw_slice_of_spec tv vr kr mr vc kc mc S k Ht Hr Hc) as HW.
    destruct Hr as [Er | Er], Hc as [Ec | Ec]; subst kr kc; simpl kmr; simpl baseline_of;
      simpl in_el; simpl ok_el.
    - apply (ub_cc_spec S _ vr vc mr (length mc) _ HW (Hcol eq_refl) i Hi).
    - apply (ub_cm_spec S _ vr vc mr _ HW i j Hi).
    - apply (ub_mc_spec S _ vr vc mr (length mc) _ HW (Hcol eq_refl) i).
    - apply (ub_mm_spec S _ vr vc mr _ HW i j (Hitems eq_refl eq_refl i Hi)).
  Qed.

  (* column index = 100 * (count / column base) / (unconditional row share) *)
  Theorem column_index_spec i j : i < nval mr -> j < nval mc ->
    let V := slice_of tv vr kr mr vc kc mc S k in
    column_index_cell
      (counts_of V (kcls kr) (kcls kc) i j)
      (column_bases_of V (nval mr) (length mrv) (kcls kr) (kcls kc) i j)
      (baseline_of (raw_slice_of tv vr kr mr vc kc mc S k) (valid_idxs mr) (length mc) 3 (kmr kr) (kmr kc) i j)
    =x=
    xmul (Fin 100%Q)
      (xdiv (xdiv (Fin (wsum S (fun r => pop_of tv k r && in_el kr mr (ans r vr) i && in_el kc mc (ans r vc) j)))
                  (Fin (wsum S (fun r => pop_of tv k r && ok_el kr mr (ans r vr) i && in_el kc mc (ans r vc) j))))
            (xdiv (Fin (wsum S (fun r => pop_of tv k r && in_el kr mr (ans r vr) i)))
                  (Fin (wsum S (fun r => pop_of tv k r && ok_el kr mr (ans r vr) i))))).
  Proof.
    intros Hi Hj V. unfold column_index_cell, V.
    rewrite (counts_of_spec S tv vr vc kr kc mr mc k Ht Hr Hc Hk i j Hi Hj).
    rewrite (column_bases_of_spec S tv vr vc kr kc mr mc k Ht Hr Hc Hk i j Hi Hj).
    rewrite (baseline_of_spec i j Hi). reflexivity.
  Qed.
End BaselineDispatch.

(* where a share is undefined the index is NaN *)
Lemma column_index_nan_colprop bl : column_index_cell (Fin 0) (Fin 0) bl = NaN.
Proof. destruct bl; reflexivity. Qed.
Lemma column_index_nan_baseline c b : column_index_cell c b NaN = NaN.
Proof. unfold column_index_cell. rewrite xdiv_nan_r. apply xmul_nan_r. Qed.
Lemma column_index_zero_over_zero b : ~ (b == 0)%Q ->
  column_index_cell (Fin 0) (Fin b) (Fin 0) = NaN.
Proof.
  intros Hb. unfold column_index_cell. rewrite (xdiv_fin 0 b Hb).
  rewrite xdiv_zero_zero; [reflexivity| unfold Qdiv; ring | reflexivity].
Qed.

(* ------------------------------------------------------------------------------------ *)
(** * the 3-D witness of the REPAIRED defect C16-3d-baseline-wrong-table: a missing table category
   before the valid one.  The code used to take the baseline from the missing category's table
   (index = inf); it now reports 100 where the row shares equal the column proportions. *)

Definition c16_witness : survey :=
  [ mkResp [ACat 0; ACat 0; ACat 0] 10;
    mkResp [ACat 1; ACat 0; ACat 0] 1; mkResp [ACat 1; ACat 0; ACat 1] 1;
    mkResp [ACat 1; ACat 1; ACat 0] 3; mkResp [ACat 1; ACat 1; ACat 1] 3 ].

Lemma c16_former_witness :
  let S := c16_witness in
  let tv : tvar := Some (0, KCat, [true; false]) in
  let mr := [false; false] in
  let mc := [false; false] in
  t_ok tv /\ 0 < t_n tv /\ wf_survey S /\ col_total S 2 (length mc) /\
  toffset tv 0 <> 0 /\
  (let V := slice_of tv 1 KCat mr 2 KCat mc S 0 in
   column_index_cell (counts_of V CCat CCat 1 0)
                     (column_bases_of V (nval mr) (length mrv) CCat CCat 1 0)
                     (baseline_of (raw_slice_of tv 1 KCat mr 2 KCat mc S 0) (valid_idxs mr) (length mc) 3
                                  false false 1 0)
   =x= Fin 100%Q).
Proof.
  cbv zeta. split; [left; reflexivity|]. split; [vm_compute; lia|].
  split; [repeat constructor; discriminate|].
  split; [intros r Hr; repeat (destruct Hr as [<- | Hr]; [reflexivity|]); destruct Hr|].
  split; [vm_compute; discriminate|].
  vm_compute; reflexivity.
Qed.
