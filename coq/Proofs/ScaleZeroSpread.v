(* Proofs/ScaleZeroSpread.v - a vector whose numeric-valued respondents all carry ONE value:
   the respondent-level mean is that value and the variance is exactly 0 (C14: zero spread;
   the input class `single_valued` of the C14 check, added after seeded change C14-9). *)
From Coq Require Import QArith ZArith List Bool Lia Arith.
From CC Require Import Base.XQ Spec.Stats Model.Scale Proofs.ScaleProofs.
Import ListNotations.
Local Open Scope Q_scope.

Definition all_valued_at (v : Q) (l : list (Q * Q)) : Prop := Forall (fun o => fst o == v) l.

Lemma wsumv_const v l : all_valued_at v l -> wsumv l == v * wtotal l.
Proof.
  unfold wsumv, wtotal; induction l as [|o l IH]; intros H; cbn [map qsum].
  - ring.
  - inversion H as [|? ? Ho Hl]; subst. rewrite (IH Hl), Ho. ring.
Qed.

Lemma wmean_const v l : all_valued_at v l -> ~ wtotal l == 0 -> wmean_spec l == v.
Proof.
  intros H Ht; unfold wmean_spec. rewrite (wsumv_const v l H). field. exact Ht.
Qed.

Lemma wsqdev_const v m l : all_valued_at v l -> m == v -> wsqdev m l == 0.
Proof.
  unfold wsqdev; induction l as [|o l IH]; intros H Hm; cbn [map qsum].
  - reflexivity.
  - inversion H as [|? ? Ho Hl]; subst. rewrite (IH Hl Hm), Ho, Hm. ring.
Qed.

Lemma wvar_const v l : all_valued_at v l -> ~ wtotal l == 0 -> wvar_spec l == 0.
Proof.
  intros H Ht; unfold wvar_spec.
  rewrite (wsqdev_const v (wmean_spec l) l H (wmean_const v l H Ht)).
  field. exact Ht.
Qed.

(* the model's (= the code's, GenAgreeScaleVar) variance of such a vector is 0, its mean the value *)
Theorem scale_zero_spread ovals rs B v :
  cats_below (length ovals) rs -> nonneg_weights rs -> (0 < B)%Q ->
  ~ (wtotal (observations ovals rs) == 0)%Q ->
  all_valued_at v (observations ovals rs) ->
  scale_var_vec false (map Fin (tally (length ovals) rs)) (repeat (Fin B) (length ovals)) (map xval ovals)
    =x= Fin 0
  /\ scale_mean_vec (map Fin (tally (length ovals) rs)) (repeat (Fin B) (length ovals)) (map xval ovals)
    =x= Fin v.
Proof.
  intros Hc Hn HB Ht Hv; split.
  - eapply xeq_trans; [exact (scale_var_eq ovals rs B Hc Hn HB Ht)|].
    cbn. exact (wvar_const v _ Hv Ht).
  - eapply xeq_trans; [exact (scale_mean_eq ovals rs B Hc HB Ht)|].
    cbn. exact (wmean_const v _ Hv Ht).
Qed.
