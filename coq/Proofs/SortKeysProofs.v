(* C08: what a value-sorted display order looks like to the reader (monotone in the value, NaN last in
   payload order, subtotal group sorted the same way), and how the order helpers resolve the sort key
   (fallback to the payload order, the key is the named vector of the named measure). *)
From Coq Require Import List Sorting Permutation ZArith String Bool Lia Arith QArith Lqa.
From CC Require Import Base.XQ Base.SortX Spec.OrderSpec Model.Collator Model.SortKeys
  Proofs.OrderCollate Proofs.OrderExplicit Proofs.OrderIds Proofs.OrderVisible Proofs.SbvDedup
  Proofs.OrderSbv.
Import ListNotations.
Local Close Scope Q_scope.
Local Open Scope nat_scope.

(* --- the reader's view of a value-sorted group ------------------------------------------------------- *)
(* [val z] is the value of the vector with signed index z.  "a may stand before b": both have a number
   (or label): a's is not smaller (descending) / not larger (ascending), equal values in the order of
   Python's tuple sort; a NaN-valued vector stands after every valued one, NaN-valued ones among
   themselves in payload order *)
Definition may_precede (desc : bool) (val : Z -> sval) (a b : Z) : Prop :=
  match sval_nan (val a), sval_nan (val b) with
  | false, false => before_ok desc (val a, a) (val b, b)
  | false, true => True
  | true, true => (a < b)%Z
  | true, false => False
  end.

Definition base_val (vals : list sval) (z : Z) : sval := nth (Z.to_nat z) vals (VNum NaN).
Definition sub_val (svals : list sval) (z : Z) : sval :=
  nth (Z.to_nat (z + Z.of_nat (List.length svals))) svals (VNum NaN).

Lemma filter_app_nil_l {A} (p : A -> bool) l1 l2 :
  (forall x, In x l1 -> p x = false) -> filter p (l1 ++ l2) = filter p l2.
Proof. intros H. rewrite filter_app, (filter_false_nil p l1 H). reflexivity. Qed.

Lemma filter_comm {A} (p q : A -> bool) l : filter p (filter q l) = filter q (filter p l).
Proof.
  rewrite !filter_filter. apply filter_ext_in'. intros x _. apply andb_comm.
Qed.

(* the value-sorted body ++ NaN bucket, as the reader sees it *)
Lemma body_idxs_monotone desc (vals : list sval) fixed :
  StronglySorted (may_precede desc (base_val vals)) (body_idxs desc vals fixed).
Proof.
  unfold body_idxs. apply SS_app.
  - (* sorted part *)
    apply (SS_map _ snd
             (fun x y : vkey => before_ok desc x y
                                /\ (fst x = base_val vals (snd x) /\ sval_nan (fst x) = false)
                                /\ (fst y = base_val vals (snd y) /\ sval_nan (fst y) = false))).
    + intros [v a] [w b] (B & (E1 & N1) & (E2 & N2)). simpl in *. unfold may_precede.
      rewrite <- E1, <- E2, N1, N2. exact B.
    + eapply SS_impl_in; [|apply sort_vkeys_sorted].
      intros [v a] [w b] Hx Hy B.
      assert (G : forall v a, In (v, a) (sort_vkeys desc (body_keys vals fixed)) ->
                              v = base_val vals a /\ sval_nan v = false).
      { intros v0 a0 I. apply (Permutation_in _ (sort_vkeys_perm desc _)) in I.
        apply body_keys_in in I. destruct I as (i & -> & _ & <- & _ & NN).
        unfold base_val. rewrite Nat2Z.id. auto. }
      simpl. auto.
  - (* NaN bucket *)
    eapply SS_impl_in; [|apply body_nans_sorted].
    intros a b Ha Hb L.
    assert (G : forall z, In z (body_nans vals fixed) -> sval_nan (base_val vals z) = true).
    { intros z I. unfold body_nans in I. apply in_map_iff in I. destruct I as ([k v] & <- & I).
      simpl. assert (I' : In (Z.of_nat k) (body_nans vals fixed)).
      { unfold body_nans. apply in_map_iff. exists (k, v). auto. }
      apply body_nans_in in I'. unfold base_val. rewrite Nat2Z.id. apply I'. }
    unfold may_precede. rewrite (G a Ha), (G b Hb). exact L.
  - intros a b Ha Hb.
    assert (Na : sval_nan (base_val vals a) = false).
    { apply in_map_iff in Ha. destruct Ha as ([v a'] & <- & I). simpl.
      apply (Permutation_in _ (sort_vkeys_perm desc _)) in I.
      apply body_keys_in in I. destruct I as (i & -> & _ & <- & _ & NN).
      unfold base_val. rewrite Nat2Z.id. exact NN. }
    assert (Nb : sval_nan (base_val vals b) = true).
    { unfold body_nans in Hb. apply in_map_iff in Hb. destruct Hb as ([k v] & <- & I).
      simpl. assert (I' : In (Z.of_nat k) (body_nans vals fixed)).
      { unfold body_nans. apply in_map_iff. exists (k, v). auto. }
      apply body_nans_in in I'. unfold base_val. rewrite Nat2Z.id. apply I'. }
    unfold may_precede. rewrite Na, Nb. exact I.
Qed.

(* the (value, negative index) pairs of the subtotals that have a value *)
Lemma combine_neg_in (svals : list sval) v z :
  In (v, z) (combine svals (neg_idxs (List.length svals))) <->
  exists k, k < List.length svals /\ z = (Z.of_nat k - Z.of_nat (List.length svals))%Z
            /\ v = nth k svals (VNum NaN).
Proof.
  set (n := List.length svals).
  assert (G : forall (l : list sval) s,
             In (v, z) (combine l (map (fun i : nat => (Z.of_nat i - Z.of_nat n)%Z) (seq s (List.length l))))
             <-> exists k, k < List.length l /\ z = (Z.of_nat (s + k) - Z.of_nat n)%Z
                           /\ v = nth k l (VNum NaN)).
  { induction l as [|x t IH]; intros s; simpl.
    - split; [tauto|]. intros (k & H & _). lia.
    - rewrite IH. split.
      + intros [E|(k & L & -> & ->)].
        * inversion E; subst. exists 0. repeat split; try lia.
        * exists (S k). repeat split; try lia.
      + intros ([|k] & L & Ez & Ev); subst.
        * left. simpl. f_equal; lia.
        * right. exists k. repeat split; try lia. }
  exact (G svals 0).
Qed.

Lemma sub_val_at (svals : list sval) k :
  sub_val svals (Z.of_nat k - Z.of_nat (List.length svals)) = nth k svals (VNum NaN).
Proof. unfold sub_val. f_equal. lia. Qed.

Theorem subtotal_keys_in (svals : list sval) v z :
  In (v, z) (subtotal_keys svals) <->
  exists k, k < List.length svals /\ z = (Z.of_nat k - Z.of_nat (List.length svals))%Z
            /\ v = nth k svals (VNum NaN) /\ sval_nan v = false.
Proof.
  unfold subtotal_keys. rewrite filter_In, combine_neg_in. simpl. rewrite negb_true_iff.
  split.
  - intros ((k & L & E & V) & N). exists k. auto.
  - intros (k & L & E & V & N). split; auto. exists k. auto.
Qed.

Theorem subtotal_nans_in (svals : list sval) z :
  In z (subtotal_nans svals) <->
  exists k, k < List.length svals /\ z = (Z.of_nat k - Z.of_nat (List.length svals))%Z
            /\ sval_nan (nth k svals (VNum NaN)) = true.
Proof.
  unfold subtotal_nans. rewrite in_map_iff. split.
  - intros ([v z'] & E & H). simpl in E. subst. apply filter_In in H. destruct H as [H N].
    apply combine_neg_in in H. destruct H as (k & L & -> & ->). exists k. auto.
  - intros (k & L & -> & N). exists (nth k svals (VNum NaN), (Z.of_nat k - Z.of_nat (List.length svals))%Z).
    split; auto. apply filter_In. split; auto. apply combine_neg_in. exists k. auto.
Qed.

Lemma subtotal_idxs_monotone desc (svals : list sval) :
  StronglySorted (may_precede desc (sub_val svals)) (subtotal_idxs desc svals).
Proof.
  assert (GK : forall v a, In (v, a) (sort_vkeys desc (subtotal_keys svals)) ->
                           v = sub_val svals a /\ sval_nan v = false).
  { intros v a I. apply (Permutation_in _ (sort_vkeys_perm desc _)) in I.
    apply subtotal_keys_in in I. destruct I as (k & L & -> & -> & N).
    rewrite sub_val_at. auto. }
  assert (GN : forall z, In z (subtotal_nans svals) -> sval_nan (sub_val svals z) = true).
  { intros z I. apply subtotal_nans_in in I. destruct I as (k & L & -> & N).
    rewrite sub_val_at. exact N. }
  unfold subtotal_idxs. apply SS_app.
  - apply (SS_map _ snd
             (fun x y : vkey => before_ok desc x y
                                /\ (fst x = sub_val svals (snd x) /\ sval_nan (fst x) = false)
                                /\ (fst y = sub_val svals (snd y) /\ sval_nan (fst y) = false))).
    + intros [v a] [w b] (B & (E1 & N1) & (E2 & N2)). simpl in *. unfold may_precede.
      rewrite <- E1, <- E2, N1, N2. exact B.
    + eapply SS_impl_in; [|apply sort_vkeys_sorted].
      intros [v a] [w b] Hx Hy B. simpl. auto.
  - eapply SS_impl_in; [|apply subtotal_nans_sorted].
    intros a b Ha Hb L. unfold may_precede. rewrite (GN a Ha), (GN b Hb). exact L.
  - intros a b Ha Hb.
    apply in_map_iff in Ha. destruct Ha as ([v a'] & <- & I). simpl.
    destruct (GK _ _ I) as [E N]. unfold may_precede. rewrite <- E, N, (GN b Hb). exact Logic.I.
Qed.

(* --- the display order as the reader sees it ----------------------------------------------------------- *)
Definition all_fixed (d : dimension) (s : sortspec) : list nat :=
  fixed_idxs (d_ids d) (s_top s) ++ fixed_idxs (d_ids d) (s_bottom s).

(* a base element that is not in a fixed list *)
Definition free_base (fixed : list nat) (z : Z) : bool :=
  (0 <=? z)%Z && negb (nmem (Z.to_nat z) fixed).

Lemma body_idxs_free desc vals fixed z :
  In z (body_idxs desc vals fixed) -> free_base fixed z = true.
Proof.
  intros H. unfold body_idxs in H. apply in_app_or in H.
  assert (G : exists i, z = Z.of_nat i /\ ~ In i fixed).
  { destruct H as [H|H].
    - apply in_map_iff in H. destruct H as ([v a] & <- & I). simpl.
      apply (Permutation_in _ (sort_vkeys_perm desc _)) in I.
      apply body_keys_in in I. destruct I as (i & -> & _ & _ & NF & _). eauto.
    - unfold body_nans in H. apply in_map_iff in H. destruct H as ([k v] & <- & I). simpl.
      assert (I' : In (Z.of_nat k) (body_nans vals fixed)).
      { unfold body_nans. apply in_map_iff. exists (k, v). auto. }
      apply body_nans_in in I'. exists k. split; auto. apply I'. }
  destruct G as (i & -> & NF). unfold free_base. rewrite Nat2Z.id.
  destruct (nmem i fixed) eqn:E; [apply nmem_In in E; contradiction|].
  simpl. rewrite andb_true_r. apply Z.leb_le. lia.
Qed.

(* the free base elements of the plain concatenation are exactly the visible part of body ++ NaN
   bucket *)
Lemma plain_free_base d s vals svals empties :
  filter (free_base (all_fixed d s)) (sbv_plain d s vals svals empties)
  = displayed (collator_hidden d empties) (body_idxs (s_desc s) vals (all_fixed d s)).
Proof.
  unfold sbv_plain, displayed. rewrite filter_comm. f_equal.
  unfold sbv_segments, all_fixed. cbv zeta. simpl. rewrite app_nil_r.
  set (top := fixed_idxs (d_ids d) (s_top s)). set (bottom := fixed_idxs (d_ids d) (s_bottom s)).
  assert (Neg : forall z, In z (subtotal_idxs (s_desc s) svals) -> free_base (top ++ bottom) z = false).
  { intros z H. apply subtotal_idxs_in in H. unfold free_base.
    destruct (0 <=? z)%Z eqn:E; auto. apply Z.leb_le in E. lia. }
  assert (Fx : forall l, (forall k, In k l -> In k (top ++ bottom)) ->
                         forall z, In z (map Z.of_nat l) -> free_base (top ++ bottom) z = false).
  { intros l Hl z H. apply in_map_iff in H. destruct H as (k & <- & I).
    unfold free_base. rewrite Nat2Z.id.
    assert (M : nmem k (top ++ bottom) = true) by (apply nmem_In, Hl, I).
    rewrite M. apply andb_false_r. }
  assert (Nil : forall z, In z (@nil Z) -> free_base (top ++ bottom) z = false) by (intros z []).
  rewrite filter_app_nil_l by (destruct (s_desc s); auto).
  rewrite filter_app_nil_l by (apply Fx; intros k I; apply in_or_app; auto).
  rewrite filter_app.
  rewrite (filter_true_id _ (body_idxs _ _ _)) by (intros z; apply body_idxs_free).
  rewrite filter_app_nil_l by (apply Fx; intros k I; apply in_or_app; auto).
  rewrite (filter_false_nil _ (if s_desc s then [] else _)) by (destruct (s_desc s); auto).
  apply app_nil_r.
Qed.

(* ... and so are those of the display order: the de-duplication only ever drops later mentions of
   FIXED elements *)
Theorem display_free_base d s vals svals empties :
  filter (free_base (all_fixed d s)) (sbv_display d s vals svals empties)
  = displayed (collator_hidden d empties) (body_idxs (s_desc s) vals (all_fixed d s)).
Proof.
  rewrite sbv_display_first_mentions, <- first_mentions_filter, plain_free_base.
  apply first_mentions_id. unfold displayed. apply NoDup_filter_any. apply body_idxs_nodup.
Qed.

(* THE PROPERTY for the base elements: among the elements that are displayed and not in a fixed
   list, an earlier one may precede a later one *)
Theorem display_body_monotone d s vals svals empties :
  StronglySorted (may_precede (s_desc s) (base_val vals))
    (filter (free_base (all_fixed d s)) (sbv_display d s vals svals empties)).
Proof.
  rewrite display_free_base. unfold displayed. apply SS_filter. apply body_idxs_monotone.
Qed.

(* the subtotals of the display order: all of them, value-sorted *)
Lemma plain_subtotals d s vals svals empties :
  filter (fun z => (z <? 0)%Z) (sbv_plain d s vals svals empties)
  = subtotal_idxs (s_desc s) svals.
Proof.
  unfold sbv_plain, displayed. rewrite filter_filter.
  unfold sbv_segments. cbv zeta. simpl. rewrite app_nil_r.
  set (p := fun x : Z => visible (collator_hidden d empties) x && (x <? 0)%Z).
  assert (Sub : filter p (subtotal_idxs (s_desc s) svals) = subtotal_idxs (s_desc s) svals).
  { apply filter_true_id. intros z H. apply subtotal_idxs_in in H. unfold p.
    rewrite visible_neg by lia. simpl. apply Z.ltb_lt. lia. }
  assert (Nn : forall l, filter p (map Z.of_nat l) = []).
  { intros l. apply filter_false_nil. intros z H. apply in_map_iff in H. destruct H as (k & <- & _).
    unfold p. destruct (Z.of_nat k <? 0)%Z eqn:E; [apply Z.ltb_lt in E; lia|apply andb_false_r]. }
  assert (Bd : forall fixed, filter p (body_idxs (s_desc s) vals fixed) = []).
  { intros fixed. apply filter_false_nil. intros z H. apply body_idxs_free in H.
    unfold free_base in H. apply andb_true_iff in H. destruct H as [H _]. apply Z.leb_le in H.
    unfold p. destruct (z <? 0)%Z eqn:E; [apply Z.ltb_lt in E; lia|apply andb_false_r]. }
  rewrite !filter_app, !Nn, Bd.
  destruct (s_desc s); simpl; rewrite ?app_nil_r; auto.
Qed.

Theorem display_subtotals d s vals svals empties :
  filter (fun z => (z <? 0)%Z) (sbv_display d s vals svals empties)
  = subtotal_idxs (s_desc s) svals.
Proof.
  rewrite sbv_display_first_mentions, <- first_mentions_filter, plain_subtotals.
  apply first_mentions_id. apply subtotal_idxs_nodup.
Qed.

Theorem display_subtotals_monotone d s vals svals empties :
  StronglySorted (may_precede (s_desc s) (sub_val svals))
    (filter (fun z => (z <? 0)%Z) (sbv_display d s vals svals empties)).
Proof. rewrite display_subtotals. apply subtotal_idxs_monotone. Qed.

(* brackets: what stands before the first / after the last free base element *)
Lemma plain_brackets d s vals svals empties :
  sbv_plain d s vals svals empties =
  displayed (collator_hidden d empties)
    ((if s_desc s then subtotal_idxs (s_desc s) svals else [])
     ++ map Z.of_nat (fixed_idxs (d_ids d) (s_top s)))
  ++ displayed (collator_hidden d empties) (body_idxs (s_desc s) vals (all_fixed d s))
  ++ displayed (collator_hidden d empties)
       (map Z.of_nat (fixed_idxs (d_ids d) (s_bottom s))
        ++ (if s_desc s then [] else subtotal_idxs (s_desc s) svals)).
Proof.
  unfold sbv_plain, displayed, sbv_segments, all_fixed. cbv zeta. simpl.
  rewrite app_nil_r, !filter_app, <- !app_assoc. reflexivity.
Qed.

(* no element named twice in the fixed lists: the two lists as they stand *)
Theorem display_brackets_fixed_once d s vals svals empties :
  fixed_once (d_ids d) s ->
  sbv_display d s vals svals empties =
  displayed (collator_hidden d empties)
    ((if s_desc s then subtotal_idxs (s_desc s) svals else [])
     ++ map Z.of_nat (fixed_idxs (d_ids d) (s_top s)))
  ++ displayed (collator_hidden d empties) (body_idxs (s_desc s) vals (all_fixed d s))
  ++ displayed (collator_hidden d empties)
       (map Z.of_nat (fixed_idxs (d_ids d) (s_bottom s))
        ++ (if s_desc s then [] else subtotal_idxs (s_desc s) svals)).
Proof. intros F. rewrite (sbv_display_fixed_once _ _ _ _ _ F). apply plain_brackets. Qed.

(* any fixed lists: the brackets are the fixed lists with every id where it is first mentioned
   ([fixed_normal]); the free body leaves out every element named in either list *)
Theorem display_brackets d s vals svals empties :
  sbv_display d s vals svals empties =
  displayed (collator_hidden d empties)
    ((if s_desc s then subtotal_idxs (s_desc s) svals else [])
     ++ map Z.of_nat (fixed_idxs (d_ids d) (s_top (fixed_normal s))))
  ++ displayed (collator_hidden d empties) (body_idxs (s_desc s) vals (all_fixed d s))
  ++ displayed (collator_hidden d empties)
       (map Z.of_nat (fixed_idxs (d_ids d) (s_bottom (fixed_normal s)))
        ++ (if s_desc s then [] else subtotal_idxs (s_desc s) svals)).
Proof.
  rewrite sbv_display_normal, plain_brackets.
  assert (D : s_desc (fixed_normal s) = s_desc s) by reflexivity. rewrite D.
  unfold all_fixed.
  rewrite (body_idxs_ext (s_desc s) vals _ _ (fixed_normal_members (d_ids d) s)). reflexivity.
Qed.

(* --- sorting on a surrogate ------------------------------------------------------------------------- *)
(* [pub] orders like [key]: same NaN set, and wherever the key does not decrease the public value does
   not decrease either *)
Definition same_order (key pub : Z -> xq) : Prop :=
  forall a b,
    (is_nan (pub a) = is_nan (key a)) /\
    (num_leb (key a) (key b) = true -> is_nan (key a) = false -> is_nan (key b) = false ->
     num_leb (pub a) (pub b) = true).

(* the reader's relation on numbers alone (no tie rule): NaN last in payload order, the valued ones
   weakly monotone *)
Definition weakly_precedes (desc : bool) (val : Z -> xq) (a b : Z) : Prop :=
  match is_nan (val a), is_nan (val b) with
  | false, false => if desc then num_leb (val b) (val a) = true else num_leb (val a) (val b) = true
  | false, true => True
  | true, true => (a < b)%Z
  | true, false => False
  end.

Lemma may_precede_weakly desc (key : Z -> xq) a b :
  may_precede desc (fun z => VNum (key z)) a b -> weakly_precedes desc key a b.
Proof.
  unfold may_precede, weakly_precedes. simpl.
  replace (match key a with NaN => true | _ => false end) with (is_nan (key a)) by reflexivity.
  replace (match key b with NaN => true | _ => false end) with (is_nan (key b)) by reflexivity.
  destruct (is_nan (key a)), (is_nan (key b)); auto.
  unfold before_ok. simpl. destruct desc; tauto.
Qed.

Lemma weakly_precedes_transfer desc key pub a b :
  same_order key pub -> weakly_precedes desc key a b -> weakly_precedes desc pub a b.
Proof.
  intros H. unfold weakly_precedes.
  destruct (H a b) as [Na Hab]. destruct (H b a) as [Nb Hba]. rewrite Na, Nb.
  destruct (is_nan (key a)) eqn:Ka, (is_nan (key b)) eqn:Kb; auto.
  destruct desc; intros L; auto.
Qed.

(* a list that is value-sorted on the key is weakly sorted for every public value that orders like
   the key *)
Theorem surrogate_sorted desc key pub (l : list Z) :
  same_order key pub ->
  StronglySorted (may_precede desc (fun z => VNum (key z))) l ->
  StronglySorted (weakly_precedes desc pub) l.
Proof.
  intros H S. eapply SS_impl_in; [|exact S].
  intros a b _ _ M. eapply weakly_precedes_transfer; eauto. apply may_precede_weakly. exact M.
Qed.

Definition keyf (vals : list xq) (z : Z) : xq := nth (Z.to_nat z) vals NaN.

Lemma base_val_map vals z : base_val (map VNum vals) z = VNum (keyf vals z).
Proof.
  unfold base_val, keyf. change (VNum NaN) with (VNum (@id xq NaN)).
  rewrite (map_nth VNum). reflexivity.
Qed.

Lemma SS_ext {A} (R R' : A -> A -> Prop) l :
  (forall a b, R a b <-> R' a b) -> StronglySorted R l -> StronglySorted R' l.
Proof. intros H. apply SS_impl_in. intros a b _ _. apply H. Qed.

(* for the display order of a dimension: sorted on the key vector, read through the public vector *)
Theorem surrogate_display d s (keys pubs : list xq) svals empties :
  same_order (keyf keys) (keyf pubs) ->
  StronglySorted (weakly_precedes (s_desc s) (keyf pubs))
    (filter (free_base (all_fixed d s)) (sbv_display d s (map VNum keys) svals empties)).
Proof.
  intros H. apply (surrogate_sorted _ (keyf keys)); auto.
  eapply SS_ext; [|apply display_body_monotone].
  intros a b. unfold may_precede. rewrite !base_val_map. tauto.
Qed.

Definition skeyf (svals : list xq) (z : Z) : xq :=
  nth (Z.to_nat (z + Z.of_nat (List.length svals))) svals NaN.

Lemma sub_val_map svals z : sub_val (map VNum svals) z = VNum (skeyf svals z).
Proof.
  unfold sub_val, skeyf. rewrite map_length. change (VNum NaN) with (VNum (@id xq NaN)).
  rewrite (map_nth VNum). reflexivity.
Qed.

Theorem surrogate_display_subtotals d s vals (skeys spubs : list xq) empties :
  List.length skeys = List.length spubs ->
  same_order (skeyf skeys) (skeyf spubs) ->
  StronglySorted (weakly_precedes (s_desc s) (skeyf spubs))
    (filter (fun z => (z <? 0)%Z) (sbv_display d s vals (map VNum skeys) empties)).
Proof.
  intros L H. apply (surrogate_sorted _ (skeyf skeys)); auto.
  eapply SS_ext; [|apply display_subtotals_monotone].
  intros a b. unfold may_precede. rewrite !sub_val_map. tauto.
Qed.
