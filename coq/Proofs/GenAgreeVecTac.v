(* Proofs/GenAgreeVecTac.v -- the GenAgree tie of harness/translate/x_scale.py (round 3): evaluation
   strategy, environments and list-level facts shared by
     GenAgreeSmoothing.v (C20)      GenAgreeScaleMean.v, GenAgreeScaleVar.v, GenAgreeScaleMedian.v,
     GenAgreeScaleStrand.v (C14)

   Gen/SmoothingSrc.v, Gen/ScaleSrc.v, Gen/StripeScaleSrc.v are REWRITTEN FROM THE SOURCE on every
   check: one [option vexp] per (class, member).  Statement shape, for ALL inputs and sizes:

       match vsrc_<Class>_<member> with
       | Some e => forall .., <hypotheses on the shapes of the inputs> ->
                     vagrees (veval <standard environment> e) <value built from the model's definition>
       | None => True                      (translator could not read it: correspondence only)
       end

   HOW THE PROOFS EVALUATE.  [vstage1] unfolds [veval] and the environment; [vrun] then reduces one
   value-level dispatcher [v_*] of Base/VecExp.v at a time, innermost first (each is declared to
   unfold only when its array arguments are constructor-headed: Arguments .. !a /), never exposing
   a match on a stuck term; the list-level numpy functions ([conv_valid], [mask_take], [map2], ..)
   are never unfolded.
   Whenever evaluation stops at a boolean condition ([if c then ..] / [VB c]: a guard of the source
   or a shape check of numpy) [vsplit] case-splits on it, normalises lengths and closes the
   impossible branch with [lia] (ZifyBool).  What is left compares list-level expressions with the
   model's definition. *)
From Coq Require Import QArith ZArith List Bool Lia Arith String ZifyBool Setoid Morphisms.
From CC Require Import Base.XQ Base.ListX Base.VecExp.
Import ListNotations.
Local Close Scope Q_scope.
Local Open Scope string_scope.
Local Open Scope nat_scope.

(* ------------------------------------------------------------------------------------ *)
(** * evaluation strategy *)

#[global] Arguments conv_valid : simpl never.
#[global] Arguments repeat : simpl never.
#[global] Arguments map2 : simpl never.
#[global] Arguments zq : simpl never.
#[global] Arguments mask_take : simpl never.
#[global] Arguments idx_take : simpl never.
#[global] Arguments all_lt : simpl never.
#[global] Arguments count_true : simpl never.
#[global] Arguments cols_of : simpl never.
#[global] Arguments cumsum_x : simpl never.
#[global] Arguments argmax_v : simpl never.
#[global] Arguments where_true : simpl never.
#[global] Arguments setdiff_keep : simpl never.
#[global] Arguments root_arg : simpl never.
#[global] Arguments repeat_each : simpl never.
#[global] Arguments xq_sort : simpl never.
#[global] Arguments median_sorted : simpl never.

#[global] Arguments v_if !c a b /.
#[global] Arguments v_not !a /.
#[global] Arguments v_and !a b /.
#[global] Arguments v_or !a b /.
#[global] Arguments v_isnone !a /.
#[global] Arguments v_cmp op !a !b /.
#[global] Arguments v_bin o !a !b /.
#[global] Arguments v_sq !a /.
#[global] Arguments v_item !a !k /.
#[global] Arguments v_cons !a !l /.
#[global] Arguments v_list !l : simpl nomatch.
#[global] Arguments v_init !a /.
#[global] Arguments v_from !a !k /.
#[global] Arguments v_ndim !a /.
#[global] Arguments v_size !a /.
#[global] Arguments v_shape !a /.
#[global] Arguments v_array !a : simpl nomatch.
#[global] Arguments v_isnan !a /.
#[global] Arguments v_invert !a /.
#[global] Arguments v_all !a /.
#[global] Arguments v_item_cols !a !k /.
#[global] Arguments v_item_rows !a !k /.
#[global] Arguments v_take_ax a idx !ax /.
#[global] Arguments v_reduce f !a ax /.
#[global] Arguments v_ones !w /.
#[global] Arguments v_conv !a !v /.
#[global] Arguments v_full !shape !x /.
#[global] Arguments v_concat !l !ax /.
#[global] Arguments v_broadcast !a !shape /.
#[global] Arguments v_column !a /.
#[global] Arguments v_T !a /.
#[global] Arguments v_sqrt !a /.
#[global] Arguments v_nan_to_num !a : simpl nomatch.
#[global] Arguments v_cumsum !a /.
#[global] Arguments v_argmax !a /.
#[global] Arguments v_mean !a /.
#[global] Arguments v_argwhere !a /.
#[global] Arguments v_setdiff !a !b /.
#[global] Arguments v_astype_int !a : simpl nomatch.
#[global] Arguments v_repeat !a !n /.
#[global] Arguments v_median !a /.
#[global] Arguments v_listof !a /.
#[global] Arguments v_tuple !a /.
#[global] Arguments v_argsort srt !a /.
#[global] Arguments v_for f !src : simpl nomatch.
#[global] Arguments v_zip f !s1 !s2 : simpl nomatch.
#[global] Arguments v_apply f !ax !arr : simpl nomatch.

(* ------------------------------------------------------------------------------------ *)
(** * environments *)

Definition no_call (_ : string) (_ : vval) : vval := VErr.
Definition no_argsort (_ : list xq) : list nat := [].
Definition no_get (_ _ : string) : vval := VErr.
Definition no_var (_ : string) : vval := VErr.
Definition var1 (n : string) (x : vval) (s : string) : vval := if String.eqb s n then x else VErr.
(* association list look-up (attribute paths) *)
Fixpoint alist (l : list (string * vval)) (s : string) : vval :=
  match l with
  | [] => VErr
  | (k, x) :: t => if String.eqb s k then x else alist t s
  end.
Definition var2 (n1 : string) (x1 : vval) (n2 : string) (x2 : vval) (s : string) : vval :=
  if String.eqb s n1 then x1 else if String.eqb s n2 then x2 else VErr.

Lemma conv_valid_length a v :
  List.length (conv_valid a v)
  = Nat.max (List.length a) (List.length v) - Nat.min (List.length a) (List.length v) + 1.
Proof. unfold conv_valid. rewrite tab_length. destruct (List.length v <=? List.length a) eqn:E; lia. Qed.

Lemma map2_length {A B C} (f : A -> B -> C) a b :
  List.length (map2 f a b) = Nat.min (List.length a) (List.length b).
Proof. unfold map2. rewrite map_length, combine_length. reflexivity. Qed.

#[export] Hint Rewrite repeat_length map_length conv_valid_length app_length @map2_length @tab_length
  : vlen.

Ltac vnorm := autorewrite with vlen in *.
(* cbn leaves [Pos.to_nat <literal>] (from Python's negative indexes) alone: compute it *)
Ltac vpos :=
  repeat match goal with
         | |- context [Pos.to_nat ?p] =>
             is_ground p; let n := eval compute in (Pos.to_nat p) in change (Pos.to_nat p) with n
         end.

(* STAGE 1: unfold [veval] and the environment look-ups (string comparisons) everywhere: the term
   becomes a tree of dispatcher applications over the leaves' values.  Structural, so the kernel
   re-checks it in no time. *)
Ltac vstage1_term l :=
  eval cbv beta iota delta [veval e_var e_attr e_get e_call e_argsort bind var1 var2 alist
                            String.eqb Ascii.eqb Bool.eqb andb] in l.
Ltac vstage1 :=
  lazymatch goal with
  | |- vagrees ?l ?r => let l' := vstage1_term l in change (vagrees l' r)
  | |- ?l = ?r => let l' := vstage1_term l in change (l' = r)
  end.

(* STAGE 2: ONE dispatcher application at a time, innermost first, each replaced by its [cbn]
   reduct through an equation [t = t'] proved by [reflexivity] on that small term and used with
   [rewrite].  (A single [cbn] of the whole tree is instantaneous as a tactic, but its proof term
   is one cast the kernel needs MINUTES to re-check: where a conditional reduces to one of its
   branches that is again a stuck conditional, the kernel first compares the arguments of the two
   [v_if]s pairwise and backtracks.  Hence also the two generic lemmas for [v_if].) *)
Ltac head_of t := lazymatch t with ?f _ => head_of f | _ => t end.
Ltac is_disp h :=
  lazymatch h with
  | v_if => constr:(true) | v_not => constr:(true) | v_and => constr:(true) | v_or => constr:(true)
  | v_isnone => constr:(true) | v_cmp => constr:(true) | v_bin => constr:(true) | v_sq => constr:(true)
  | v_item => constr:(true) | v_cons => constr:(true) | v_list => constr:(true) | v_init => constr:(true)
  | v_from => constr:(true) | v_ndim => constr:(true) | v_size => constr:(true) | v_shape => constr:(true)
  | v_array => constr:(true) | v_isnan => constr:(true) | v_invert => constr:(true) | v_all => constr:(true)
  | v_item_cols => constr:(true) | v_item_rows => constr:(true) | v_take_ax => constr:(true)
  | v_reduce => constr:(true) | v_ones => constr:(true) | v_conv => constr:(true) | v_full => constr:(true)
  | v_concat => constr:(true) | v_broadcast => constr:(true) | v_column => constr:(true) | v_T => constr:(true)
  | v_sqrt => constr:(true) | v_nan_to_num => constr:(true) | v_cumsum => constr:(true)
  | v_argmax => constr:(true) | v_mean => constr:(true) | v_argwhere => constr:(true)
  | v_setdiff => constr:(true) | v_astype_int => constr:(true) | v_repeat => constr:(true)
  | v_median => constr:(true) | v_listof => constr:(true) | v_tuple => constr:(true)
  | v_argsort => constr:(true) | v_for => constr:(true) | v_zip => constr:(true) | v_apply => constr:(true)
  | _ => constr:(false)
  end.

Lemma v_if_true a b : v_if (VB true) a b = a. Proof. reflexivity. Qed.
Lemma v_if_false a b : v_if (VB false) a b = b. Proof. reflexivity. Qed.

(* a dispatcher application inside t that cbn can reduce, innermost / rightmost first: (t, t') *)
Ltac find_redex t :=
  match t with
  | if _ then ?a else _ => find_redex a
  | if _ then _ else ?b => find_redex b
  | if ?c then _ else _ => find_redex c
  | ?f ?a => find_redex a
  | ?f ?a => find_redex f
  | _ =>
      lazymatch type of t with
      | vval =>
          let h := head_of t in
          lazymatch is_disp h with
          | true =>
              let t' := eval cbn in t in
              lazymatch t' with
              | t => fail
              | _ => constr:(pair t t')
              end
          end
      end
  end.

Ltac vstep_in l :=
  let r := find_redex l in
  lazymatch r with
  | pair (v_if (VB true) ?a ?b) _ => rewrite (v_if_true a b)
  | pair (v_if (VB false) ?a ?b) _ => rewrite (v_if_false a b)
  | pair ?t ?t' =>
      let E := fresh "E" in assert (E : t = t') by reflexivity; rewrite E; clear E
  end.
Ltac vstep :=
  lazymatch goal with
  | |- vagrees ?l _ => vstep_in l
  | |- ?l = _ => vstep_in l
  end.
Ltac vrun := repeat vstep; repeat (progress vpos; cbv beta iota; repeat vstep).
Ltac veval_simp := vstage1; vrun.

Ltac vsplit1 :=
  match goal with
  | |- vagrees ?lhs _ =>
      match lhs with
      | context [if ?b then _ else _] => let H := fresh "C" in destruct b eqn:H
      | context [VB ?b] =>
          lazymatch b with
          | true => fail | false => fail
          | _ => let H := fresh "C" in destruct b eqn:H
          end
      end
  | |- ?lhs = _ =>
      match lhs with
      | context [if ?b then _ else _] => let H := fresh "C" in destruct b eqn:H
      | context [VB ?b] =>
          lazymatch b with
          | true => fail | false => fail
          | _ => let H := fresh "C" in destruct b eqn:H
          end
      end
  end.
Ltac vsplit := repeat (vsplit1; vnorm; try (exfalso; lia); cbv beta iota; vrun).

Ltac unfold_vsrcs :=
  repeat match goal with
         | |- context [match ?s with Some _ => _ | None => _ end] => is_const s; unfold s
         end.

(* ------------------------------------------------------------------------------------ *)
(** * [vagrees] and pointwise equality up to Qeq *)

Lemma vxeq_l_refl a : vxeq_l a a.
Proof. induction a; constructor; [reflexivity|assumption]. Qed.
Lemma mxeq_l_refl a : mxeq_l a a.
Proof. induction a; constructor; [apply vxeq_l_refl|assumption]. Qed.

Lemma vagrees_VV_refl l : vagrees (VV l) (VV l).
Proof. apply vxeq_l_refl. Qed.
Lemma vagrees_VM_refl c m : vagrees (VM c m) (VM c m).
Proof. split; [reflexivity|apply mxeq_l_refl]. Qed.
Lemma vagrees_pair a b a' b' : vagrees a a' -> vagrees b b' -> vagrees (VL [a; b]) (VL [a'; b']).
Proof. intros H1 H2. simpl. tauto. Qed.

Lemma vxeq_l_nth a b :
  List.length a = List.length b ->
  (forall i, i < List.length a -> vnth a i =x= vnth b i) -> vxeq_l a b.
Proof.
  revert b. induction a as [|x a IH]; intros [|y b] HL H; simpl in HL; try discriminate.
  - constructor.
  - constructor.
    + apply (H 0). simpl. lia.
    + apply IH; [lia|]. intros i Hi. apply (H (S i)). simpl. lia.
Qed.

Lemma vxeq_l_app a b c d : vxeq_l a b -> vxeq_l c d -> vxeq_l (a ++ c) (b ++ d).
Proof. intros H1 H2. apply Forall2_app; assumption. Qed.

Lemma vxeq_l_map (f g : xq -> xq) l : (forall x, f x =x= g x) -> vxeq_l (map f l) (map g l).
Proof. intros H. induction l; constructor; [apply H|assumption]. Qed.

Lemma mxeq_l_map (f g : list xq -> list xq) m :
  (forall r, In r m -> vxeq_l (f r) (g r)) -> mxeq_l (map f m) (map g m).
Proof.
  induction m as [|r m IH]; intros H; constructor.
  - apply H. left. reflexivity.
  - apply IH. intros r' Hr. apply H. right. exact Hr.
Qed.

Lemma xsum_vxeq_l a b : vxeq_l a b -> xsum a =x= xsum b.
Proof. induction 1 as [|x y s t Hxy Hst IH]; simpl; [reflexivity|]. rewrite Hxy, IH. reflexivity. Qed.

(* ------------------------------------------------------------------------------------ *)
(** * sums: reversal and the unit kernel *)

Lemma xsum_rev l : xsum (rev l) =x= xsum l.
Proof.
  induction l as [|a t IH]; simpl; [reflexivity|].
  rewrite xsum_app. simpl. rewrite IH. rewrite xadd_0_r. apply xadd_comm.
Qed.

Lemma tab_rev {A} n (f : nat -> A) : tab n (fun j => f (n - 1 - j)) = rev (tab n f).
Proof.
  destruct n as [|n]; [reflexivity|].
  apply (nth_ext _ _ (f 0) (f 0)).
  - rewrite rev_length, !tab_length. reflexivity.
  - intros i Hi. rewrite tab_length in Hi.
    rewrite rev_nth by (rewrite tab_length; exact Hi). rewrite tab_length.
    rewrite !tab_nth by lia. f_equal. lia.
Qed.

Lemma xmul_1_r a : xmul a (Fin 1%Q) =x= a.
Proof. destruct a as [q|s|]; simpl; [ring|destruct s; reflexivity|exact I]. Qed.

Lemma vnth_repeat (x : xq) n j : j < n -> vnth (repeat x n) j = x.
Proof.
  revert j. induction n as [|n IH]; intros j H; [lia|]. destruct j; [reflexivity|]. apply IH. lia.
Qed.
