(* C09: which base elements / subtotals occur in a display order (all collators). *)
From Coq Require Import List Sorting Permutation ZArith String Bool Lia Arith.
From CC Require Import Base.XQ Base.SortX Spec.OrderSpec Model.Collator
  Proofs.OrderCollate Proofs.OrderExplicit Proofs.OrderIds Proofs.SbvDedup.
Import ListNotations.
Local Open Scope nat_scope.

(* --- generic ------------------------------------------------------------------------------ *)
Lemma map_fst_combine {A B} (a : list A) (b : list B) :
  List.length a = List.length b -> map fst (combine a b) = a.
Proof.
  revert b. induction a as [|x t IH]; intros [|y b] H; simpl in *; try lia; auto.
  f_equal. apply IH. lia.
Qed.

Lemma map_snd_combine {A B} (a : list A) (b : list B) :
  List.length a = List.length b -> map snd (combine a b) = b.
Proof.
  revert b. induction a as [|x t IH]; intros [|y b] H; simpl in *; try lia; auto.
  f_equal. apply IH. lia.
Qed.

Lemma visible_nat H i : visible H (Z.of_nat i) = true <-> ~ In i H.
Proof.
  unfold visible. rewrite negb_true_iff. split.
  - intros E I. assert (X : existsb (fun h => Z.eqb (Z.of_nat h) (Z.of_nat i)) H = true).
    { apply existsb_exists. exists i. split; auto. apply Z.eqb_refl. }
    congruence.
  - intros N. destruct (existsb _ H) eqn:E; auto. apply existsb_exists in E.
    destruct E as (h & Hh & E). apply Z.eqb_eq in E. apply Nat2Z.inj in E. subst. contradiction.
Qed.

Lemma visible_neg H z : (z < 0)%Z -> visible H z = true.
Proof.
  intros Hz. unfold visible. rewrite negb_true_iff.
  destruct (existsb _ H) eqn:E; auto. apply existsb_exists in E.
  destruct E as (h & _ & E). apply Z.eqb_eq in E. lia.
Qed.

Lemma displayed_in H l z : In z (displayed H l) <-> In z l /\ visible H z = true.
Proof. unfold displayed. apply filter_In. Qed.

(* --- what the collation contains ------------------------------------------------------------ *)
Lemma kidx_base_keys (desc : list bel) :
  map kidx (base_keys desc) = map (fun e : bel => Z.of_nat (fst e)) desc.
Proof.
  unfold base_keys. rewrite map_map. unfold kidx. simpl.
  rewrite <- (snd_enumerate desc) at 2. rewrite map_map. reflexivity.
Qed.

Lemma kidx_float_keys (desc : list bel) (floats : list flt) :
  map kidx (map (float_key desc) floats) = map fst floats.
Proof. rewrite map_map. apply map_ext. intros f. apply kidx_float_key. Qed.

Lemma collate_in (desc : list bel) (floats : list flt) z :
  In z (collate desc floats) <->
  In z (map (fun e : bel => Z.of_nat (fst e)) desc) \/ In z (map fst floats).
Proof.
  unfold collate.
  assert (P : Permutation (map kidx (ksort (base_keys desc ++ map (float_key desc) floats)))
                          (map kidx (base_keys desc ++ map (float_key desc) floats)))
    by (apply Permutation_map, ksort_perm).
  rewrite map_app, kidx_base_keys, kidx_float_keys in P.
  split; intros H.
  - apply (Permutation_in _ P) in H. apply in_app_or in H. exact H.
  - apply (Permutation_in _ (Permutation_sym P)). apply in_or_app. exact H.
Qed.

Lemma insertion_floats_idxs anchors : map fst (insertion_floats anchors) = neg_idxs (List.length anchors).
Proof.
  unfold insertion_floats. apply map_fst_combine. rewrite neg_idxs_length, map_length. reflexivity.
Qed.

Lemma in_enumerate_iff {A} (l : list A) k x d :
  In (k, x) (enumerate l) <-> k < List.length l /\ nth k l d = x.
Proof.
  split.
  - intros H. split; [apply (in_enumerate_bound l (k, x) H)|apply enumerate_nth; exact H].
  - intros [H <-]. apply nth_in_enumerate. exact H.
Qed.

Definition dflt_elem : elem := mkElem INone false DNone.

Lemma base_idxs d o i :
  NoDup (d_ids d) ->
  (In (Z.of_nat i) (map (fun e : bel => Z.of_nat (fst e)) (desc_of d o))
   \/ In (Z.of_nat i) (map fst (match o with OPayload => [] | OExplicit _ => derived_floats d end)))
  <-> i < List.length (d_elems d).
Proof.
  intros N. destruct o as [|listed]; cbn [desc_of].
  - unfold descriptors_payload. split.
    + intros [H|[]]. apply in_map_iff in H. destruct H as ([k x] & E & H). simpl in E.
      apply Nat2Z.inj in E. subst. apply in_enumerate_bound in H. simpl in H.
      unfold d_ids in H. rewrite map_length in H. exact H.
    + intros H. left. apply in_map_iff. exists (i, nth i (d_ids d) INone). split; auto.
      apply nth_in_enumerate. unfold d_ids. rewrite map_length. exact H.
  - unfold descriptors_explicit.
    assert (K := known_elems_ids_nodup d N).
    assert (P := explicit_loop_perm listed _ K).
    assert (Q : forall z, In z (map (fun e : bel => Z.of_nat (fst e)) (explicit_loop listed (known_elems d)))
                          <-> In z (map (fun e : bel => Z.of_nat (fst e)) (known_elems d))).
    { intros z. split; apply Permutation_in; apply Permutation_map; auto. apply Permutation_sym, P. }
    rewrite Q. unfold known_elems, derived_floats. rewrite !map_map. simpl.
    split.
    + intros [H|H]; apply in_map_iff in H; destruct H as ([k e] & E & H); simpl in E;
        apply Nat2Z.inj in E; subst; apply filter_In in H; destruct H as [H _];
        apply (in_enumerate_bound _ _ H).
    + intros H. set (e := nth i (d_elems d) dflt_elem).
      assert (I : In (i, e) (enumerate (d_elems d))) by (apply nth_in_enumerate; exact H).
      destruct (e_derived e) eqn:D.
      * right. apply in_map_iff. exists (i, e). split; auto. apply filter_In. split; auto.
      * left. apply in_map_iff. exists (i, e). split; auto. apply filter_In. split; auto.
        simpl. rewrite D. reflexivity.
Qed.

Lemma floats_of_idxs d o anchors z :
  In z (map fst (floats_of d o anchors)) <->
  In z (neg_idxs (List.length anchors))
  \/ In z (map fst (match o with OPayload => [] | OExplicit _ => derived_floats d end)).
Proof.
  unfold floats_of. rewrite map_app, in_app_iff, insertion_floats_idxs. reflexivity.
Qed.

(* the undisplayed (pre-filter) order contains exactly the base indexes 0..n-1 and the
   subtotal indexes -m..-1 *)
Lemma collate_contents d o anchors z :
  NoDup (d_ids d) ->
  In z (collate (desc_of d o) (floats_of d o anchors)) <->
  (0 <= z < Z.of_nat (List.length (d_elems d)))%Z
  \/ (- Z.of_nat (List.length anchors) <= z < 0)%Z.
Proof.
  intros N. rewrite collate_in, (floats_of_idxs d o anchors z), neg_idxs_in.
  split.
  - intros [H|[H|H]]; auto.
    + left. assert (Hz : (0 <= z)%Z).
      { apply in_map_iff in H. destruct H as (e & <- & _). lia. }
      rewrite <- (Z2Nat.id z Hz) in H |- *.
      assert (X := proj1 (base_idxs d o (Z.to_nat z) N) (or_introl H)). lia.
    + left. assert (Hz : (0 <= z)%Z).
      { destruct o; [destruct H|]. apply in_map_iff in H. destruct H as (f & <- & Hf).
        apply (derived_floats_nonneg d). exact Hf. }
      rewrite <- (Z2Nat.id z Hz) in H |- *.
      assert (X := proj1 (base_idxs d o (Z.to_nat z) N) (or_intror H)). lia.
  - intros [H|H]; auto.
    assert (Hz : (0 <= z)%Z) by lia.
    assert (X : Z.to_nat z < List.length (d_elems d)) by lia.
    apply (base_idxs d o (Z.to_nat z) N) in X. rewrite (Z2Nat.id z Hz) in X. tauto.
Qed.

(* --- hidden sets --------------------------------------------------------------------------- *)
Lemma hidden_idxs_in d i :
  In i (hidden_idxs d) <->
  i < List.length (d_elems d) /\ elem_hidden (d_hides d) (e_id (nth i (d_elems d) dflt_elem)) = true.
Proof.
  unfold hidden_idxs. rewrite in_map_iff. split.
  - intros ([k e] & E & H). simpl in E. subst. apply filter_In in H. destruct H as [H F].
    apply (in_enumerate_iff _ _ _ dflt_elem) in H. destruct H as [H <-]. auto.
  - intros [H F]. exists (i, nth i (d_elems d) dflt_elem). split; auto.
    apply filter_In. split; auto. apply nth_in_enumerate. exact H.
Qed.

Lemma collator_hidden_in d empties i :
  In i (collator_hidden d empties) <->
  (d_prune d = true /\ In i empties) \/ In i (hidden_idxs d).
Proof.
  unfold collator_hidden, hidden_set. rewrite in_app_iff.
  destruct (d_prune d); simpl; intuition discriminate.
Qed.

(* --- C09 visible_iff : anchored collators ----------------------------------------------------- *)
Theorem anchored_visible_iff d o empties order i :
  NoDup (d_ids d) ->
  anchored_display d o empties = Ok order ->
  (In (Z.of_nat i) order <->
   i < List.length (d_elems d) /\ ~ In i (collator_hidden d empties)).
Proof.
  intros N. unfold anchored_display, anchored_display_over.
  destruct (existsb is_other _); [discriminate|]. intros E. inversion E; subst. clear E.
  rewrite displayed_in, visible_nat, (collate_contents d o _ _ N). split.
  - intros [[H|H] V]; [split; [lia|exact V]|lia].
  - intros [H V]. split; [left; lia|exact V].
Qed.

Theorem anchored_subtotals_all_shown d o empties order z :
  NoDup (d_ids d) -> (z < 0)%Z ->
  anchored_display d o empties = Ok order ->
  (In z order <-> (- Z.of_nat (List.length (subtotals d)) <= z)%Z).
Proof.
  intros N Hz. unfold anchored_display, anchored_display_over.
  destruct (existsb is_other _); [discriminate|]. intros E. inversion E; subst. clear E.
  rewrite displayed_in, (collate_contents d o _ _ N).
  unfold anchors_of. rewrite map_length. rewrite (visible_neg _ z Hz). split.
  - intros [[H|H] _]; lia.
  - intros H. split; [right; lia|reflexivity].
Qed.

(* --- sort-by-value collator --------------------------------------------------------------------- *)
Lemma idx_by_id_bound ids i k : idx_by_id ids i = Some k -> k < List.length ids.
Proof.
  unfold idx_by_id.
  assert (G : forall (l : list (nat * ident)) acc,
             fold_left (fun acc (ke : nat * ident) => if ident_eqb (snd ke) i then Some (fst ke) else acc) l acc
             = Some k -> acc = Some k \/ exists ke, In ke l /\ fst ke = k).
  { induction l as [|x t IH]; simpl; intros acc H; auto.
    apply IH in H. destruct H as [H|(ke & I & F)].
    - destruct (ident_eqb (snd x) i); auto. inversion H. right. exists x. auto.
    - right. exists ke. auto. }
  intros H. apply G in H. destruct H as [H|(ke & I & <-)]; [discriminate|].
  apply (in_enumerate_bound _ _ I).
Qed.

Lemma fixed_idxs_bound ids listed k : In k (fixed_idxs ids listed) -> k < List.length ids.
Proof.
  unfold fixed_idxs. rewrite in_flat_map. intros (i & _ & H).
  destruct (idx_by_id ids i) eqn:E; [|destruct H].
  destruct H as [<-|[]]. apply (idx_by_id_bound _ _ _ E).
Qed.

Lemma nmem_In k l : nmem k l = true <-> In k l.
Proof.
  unfold nmem. rewrite existsb_exists. split.
  - intros (x & Hx & E). apply Nat.eqb_eq in E. subst. exact Hx.
  - intros H. exists k. split; auto. apply Nat.eqb_refl.
Qed.

Lemma sort_vkeys_in desc (l : list vkey) z :
  In z (map snd (sort_vkeys desc l)) <-> In z (map snd l).
Proof.
  unfold sort_vkeys.
  assert (P := isort_perm (vkey_dir_leb desc) l).
  split; apply Permutation_in; apply Permutation_map; auto. apply Permutation_sym, P.
Qed.

Lemma body_idxs_in desc (vals : list sval) fixed i :
  In (Z.of_nat i) (body_idxs desc vals fixed) <->
  i < List.length vals /\ ~ In i fixed.
Proof.
  unfold body_idxs. rewrite in_app_iff, sort_vkeys_in.
  unfold body_keys, body_nans. rewrite !map_map. simpl. split.
  - intros [H|H]; apply in_map_iff in H; destruct H as ([k v] & E & H); simpl in E;
      apply Nat2Z.inj in E; subst; apply filter_In in H; destruct H as [H F]; simpl in F;
      apply andb_true_iff in F; destruct F as [F _]; apply negb_true_iff in F;
      (split; [apply (in_enumerate_bound _ _ H)|]);
      intros I; apply nmem_In in I; congruence.
  - intros [H F]. set (v := nth i vals (VNum NaN)).
    assert (I : In (i, v) (enumerate vals)) by (apply nth_in_enumerate; exact H).
    assert (NF : nmem i fixed = false).
    { destruct (nmem i fixed) eqn:E; auto. apply nmem_In in E. contradiction. }
    destruct (sval_nan v) eqn:Nn.
    + right. apply in_map_iff. exists (i, v). split; auto. apply filter_In. split; auto.
      simpl. rewrite NF, Nn. reflexivity.
    + left. apply in_map_iff. exists (i, v). split; auto. apply filter_In. split; auto.
      simpl. rewrite NF, Nn. reflexivity.
Qed.

Lemma subtotal_idxs_in desc (svals : list sval) z :
  In z (subtotal_idxs desc svals) <-> (- Z.of_nat (List.length svals) <= z < 0)%Z.
Proof.
  unfold subtotal_idxs. rewrite in_app_iff, sort_vkeys_in.
  unfold subtotal_keys, subtotal_nans. rewrite <- neg_idxs_in.
  set (c := combine svals (neg_idxs (List.length svals))).
  assert (S : map snd c = neg_idxs (List.length svals))
    by (apply map_snd_combine; rewrite neg_idxs_length; reflexivity).
  rewrite <- S. split.
  - intros [H|H]; apply in_map_iff in H; destruct H as (x & <- & H); apply filter_In in H;
      apply in_map; apply H.
  - intros H. apply in_map_iff in H. destruct H as (x & <- & H).
    destruct (sval_nan (fst x)) eqn:E.
    + right. apply in_map. apply filter_In. auto.
    + left. apply in_map. apply filter_In. rewrite E. auto.
Qed.

Lemma sbv_concat_in ids s vals svals z :
  In z (List.concat (sbv_segments ids s vals svals)) <->
  In z (subtotal_idxs (s_desc s) svals)
  \/ In z (map Z.of_nat (fixed_idxs ids (s_top s)))
  \/ In z (body_idxs (s_desc s) vals (fixed_idxs ids (s_top s) ++ fixed_idxs ids (s_bottom s)))
  \/ In z (map Z.of_nat (fixed_idxs ids (s_bottom s))).
Proof.
  unfold sbv_segments. simpl. rewrite !in_app_iff. simpl.
  destruct (s_desc s); simpl; tauto.
Qed.

Theorem sbv_visible_iff d s vals svals empties i :
  List.length vals = List.length (d_elems d) ->
  (In (Z.of_nat i) (sbv_display d s vals svals empties) <->
   i < List.length (d_elems d) /\ ~ In i (collator_hidden d empties)).
Proof.
  intros L. unfold sbv_display. rewrite first_mentions_in, displayed_in, visible_nat, sbv_concat_in.
  assert (Lid : List.length (d_ids d) = List.length (d_elems d))
    by (unfold d_ids; apply map_length).
  rewrite subtotal_idxs_in, body_idxs_in, L.
  split.
  - intros [H V]. split; auto.
    destruct H as [H|[H|[H|H]]]; try lia; try tauto;
      apply in_map_iff in H; destruct H as (k & E & H); apply Nat2Z.inj in E; subst;
      apply fixed_idxs_bound in H; lia.
  - intros [H V]. split; auto.
    destruct (in_dec Nat.eq_dec i (fixed_idxs (d_ids d) (s_top s))) as [T|T].
    { right. left. apply in_map. exact T. }
    destruct (in_dec Nat.eq_dec i (fixed_idxs (d_ids d) (s_bottom s))) as [B|B].
    { right. right. right. apply in_map. exact B. }
    right. right. left. split; auto. rewrite in_app_iff. tauto.
Qed.

Theorem sbv_subtotals_all_shown d s vals svals empties z :
  (z < 0)%Z ->
  (In z (sbv_display d s vals svals empties) <-> (- Z.of_nat (List.length svals) <= z)%Z).
Proof.
  intros Hz. unfold sbv_display.
  rewrite first_mentions_in, displayed_in, (visible_neg _ z Hz), sbv_concat_in, subtotal_idxs_in, !in_map_iff.
  split.
  - intros [[H|[H|[H|H]]] _]; try lia.
    + destruct H as (k & E & _). lia.
    + unfold body_idxs in H. apply in_app_or in H. destruct H as [H|H].
      * apply sort_vkeys_in in H. unfold body_keys in H. rewrite map_map in H.
        apply in_map_iff in H. destruct H as (x & E & _). simpl in E. lia.
      * unfold body_nans in H. apply in_map_iff in H. destruct H as (x & E & _). lia.
    + destruct H as (k & E & _). lia.
  - intros H. split; [left; lia|reflexivity].
Qed.

(* --- every order helper ------------------------------------------------------------------------ *)
Definition values_fit (d : dimension) (o : ordering) : Prop :=
  match o with
  | ByValue _ (Some (vals, svals)) =>
      List.length vals = List.length (d_elems d) /\ List.length svals = List.length (subtotals d)
  | _ => True
  end.

Theorem helper_visible_iff d o empties order i :
  NoDup (d_ids d) -> values_fit d o ->
  helper_order d o empties = Ok order ->
  (In (Z.of_nat i) order <->
   i < List.length (d_elems d) /\ ~ In i (collator_hidden d empties)).
Proof.
  intros N F. destruct o as [k|s [[vals svals]|]]; simpl.
  - apply anchored_visible_iff; auto.
  - intros E. inversion E; subst. apply sbv_visible_iff. apply F.
  - apply anchored_visible_iff; auto.
Qed.

Theorem helper_subtotals_all_shown d o empties order z :
  NoDup (d_ids d) -> values_fit d o -> (z < 0)%Z ->
  helper_order d o empties = Ok order ->
  (In z order <-> (- Z.of_nat (List.length (subtotals d)) <= z)%Z).
Proof.
  intros N F Hz. destruct o as [k|s [[vals svals]|]]; simpl.
  - apply anchored_subtotals_all_shown; auto.
  - intros E. inversion E; subst. destruct F as [_ F]. rewrite <- F.
    apply sbv_subtotals_all_shown. exact Hz.
  - apply anchored_subtotals_all_shown; auto.
Qed.

(* display order of a matrix dimension: base elements as above; subtotals all or none *)
Theorem display_visible_iff d o empties psub order i :
  NoDup (d_ids d) -> values_fit d o ->
  display_order d o empties psub = Ok order ->
  (In (Z.of_nat i) order <->
   i < List.length (d_elems d)
   /\ ~ In i (hidden_idxs d)
   /\ ~ (d_prune d = true /\ In i empties)).
Proof.
  intros N F. unfold display_order, bind.
  destruct (helper_order d o empties) as [l|c] eqn:E; [|discriminate].
  intros H. inversion H; subst. clear H.
  assert (X := helper_visible_iff d o empties l i N F E).
  rewrite collator_hidden_in in X.
  destruct psub.
  - rewrite filter_In. rewrite X.
    assert (Z.leb 0 (Z.of_nat i) = true) by (apply Z.leb_le; lia). tauto.
  - rewrite X. tauto.
Qed.

Theorem display_subtotal_iff d o empties psub order z :
  NoDup (d_ids d) -> values_fit d o -> (z < 0)%Z ->
  display_order d o empties psub = Ok order ->
  (In z order <-> psub = false /\ (- Z.of_nat (List.length (subtotals d)) <= z)%Z).
Proof.
  intros N F Hz. unfold display_order, bind.
  destruct (helper_order d o empties) as [l|c] eqn:E; [|discriminate].
  intros H. inversion H; subst. clear H.
  assert (X := helper_subtotals_all_shown d o empties l z N F Hz E).
  destruct psub.
  - rewrite filter_In. split.
    + intros [_ H]. apply Z.leb_le in H. lia.
    + intros [H _]. discriminate.
  - rewrite X. tauto.
Qed.

(* prune_subtotals: the opposing dimension prunes and every one of its vectors is empty *)
Lemma prune_subtotals_iff p (e : list nat) n :
  prune_subtotals p e n = true <-> p = true /\ List.length e = n.
Proof. unfold prune_subtotals. rewrite andb_true_iff, Nat.eqb_eq. tauto. Qed.

Lemma all_empty_iff (e : list nat) n :
  NoDup e -> (forall i, In i e -> i < n) ->
  (List.length e = n <-> forall i, i < n -> In i e).
Proof.
  intros ND B. split.
  - intros L i Hi.
    assert (I : incl e (seq 0 n)) by (intros x Hx; apply in_seq; specialize (B x Hx); lia).
    assert (I' : incl (seq 0 n) e).
    { apply NoDup_length_incl; auto. rewrite seq_length. lia. }
    apply I'. apply in_seq. lia.
  - intros A. apply Nat.le_antisymm.
    + rewrite <- (seq_length n 0). apply NoDup_incl_length; auto.
      intros x Hx. apply in_seq. specialize (B x Hx). lia.
    + rewrite <- (seq_length n 0) at 1. apply NoDup_incl_length; [apply seq_NoDup|].
      intros x Hx. apply in_seq in Hx. apply A. lia.
Qed.

(* a subtotal is an insertion that is well-formed, NOT flagged hidden, and has a valid addend *)
Lemma subtotals_length_view d :
  d_array d = false -> d_tins d = None ->
  List.length (subtotals d) = List.length (filter (ins_valid (d_ids d)) (d_view d)).
Proof.
  intros A T. unfold subtotals. rewrite A, T. unfold with_ids.
  rewrite map_length, enumerate_length. reflexivity.
Qed.

Lemma hidden_insertion_not_valid ids i : i_hide i = true -> ins_valid ids i = false.
Proof. intros H. unfold ins_valid. rewrite H. simpl. rewrite andb_false_r. reflexivity. Qed.
