(* The cumulative-count median rule AS PROPOSED IN THE PATCH for finding
   C14-median-zero-count-after-half (average with the next category THAT HAS COUNTS) is the
   median of the respondents' values with no side condition.  Not part of the model of the
   current code: it documents that the proposed repair is the right one. *)
From Coq Require Import QArith ZArith List Bool Lia Arith Lqa Sorted Permutation.
From CC Require Import Base.XQ Base.ListX Spec.Stats Model.Scale Proofs.ScaleMedianProofs.
Import ListNotations.
Local Close Scope Q_scope.
Local Open Scope nat_scope.

Definition weighted_median_fixed (sorted_counts : list xq) (sorted_values : list Q) : xq :=
  let cs := map nan_to_num sorted_counts in
  let cum := cumsum cs in
  let total := last cum 0%Q in
  if Qeq_bool total 0 then NaN else
  let props := map (fun c => c / total)%Q cum in
  let idx := argmax_bool (map (fun p => Qle_bool (1 # 2) p) props) in
  if Qeq_bool (nth idx props 0%Q) (1 # 2)
  then (* median_idx + 1 + np.argmax(sorted_counts[median_idx + 1:] > 0) *)
       let nxt := S idx + argmax_bool (map (fun c => negb (Qle_bool c 0)) (skipn (S idx) cs)) in
       Fin ((nth idx sorted_values 0 + nth nxt sorted_values 0) / 2)%Q
  else Fin (nth idx sorted_values 0%Q).

Lemma pos_test n : negb (Qle_bool (inj n) 0) = true <-> 0 < n.
Proof.
  rewrite negb_true_iff. split.
  - intros H. destruct n; [|lia]. exfalso.
    assert (E : Qle_bool (inj 0) 0 = true) by reflexivity. congruence.
  - intros H. destruct (Qle_bool (inj n) 0) eqn:E; [|reflexivity].
    apply Qle_bool_iff in E. change 0%Q with (inj 0) in E. apply inj_le in E. lia.
Qed.

Lemma upto_zero_run ns a d : (forall k, a <= k < a + d -> nth k ns 0 = 0) ->
  upto (a + d) ns = upto a ns.
Proof.
  induction d as [|d IH]; intros H; [rewrite Nat.add_0_r; reflexivity|].
  replace (a + S d) with (S (a + d)) by lia. rewrite upto_S, IH.
  - rewrite (H (a + d)) by lia. lia.
  - intros k Hk. apply H. lia.
Qed.

Lemma nth_skipn_inj ns a j : nth j (skipn a (map inj ns)) (inj 0) = inj (nth (a + j) ns 0).
Proof. rewrite nth_skipn_add. apply map_nth. Qed.

Section Fixed.
  Variable vs : list Q.
  Variable ns : list nat.
  Hypothesis Hlen : length vs = length ns.
  Hypothesis Hpos : 0 < list_sum ns.

  Theorem weighted_median_fixed_middle :
    exists m, weighted_median_fixed (map cnt ns) vs = Fin m /\ (m == middle (expand vs ns))%Q.
  Proof.
    pose proof (idx_props vs ns Hlen Hpos) as Hidx.
    pose proof (half_test vs ns Hlen Hpos) as Hhalf.
    pose proof (total_pos vs ns Hlen Hpos) as Htot.
    unfold weighted_median_fixed. rewrite map_cnt.
    set (cum := cumsum (map inj ns)) in *.
    set (total := last cum 0%Q) in *.
    set (props := map (fun c => (c / total)%Q) cum) in *.
    set (idx := argmax_bool (map (fun p => Qle_bool (1 # 2) p) props)) in *.
    assert (E0 : Qeq_bool total 0 = false).
    { destruct (Qeq_bool total 0) eqn:E0; [|reflexivity]. apply Qeq_bool_iff in E0. lra. }
    rewrite E0.
    destruct Hidx as [Hi [Hhi Hlo]].
    pose proof (upto_mono ns idx) as Hmono.
    unfold middle. rewrite (expand_len vs ns Hlen).
    destruct (Qeq_bool (nth idx props 0%Q) (1 # 2)) eqn:Eh.
    - clear Eh. assert (Eh : list_sum ns = 2 * upto (S idx) ns) by (apply Hhalf; reflexivity).
      set (bs2 := map (fun c => negb (Qle_bool c 0)) (skipn (S idx) (map inj ns))).
      assert (Hlen2 : length bs2 = length ns - S idx).
      { unfold bs2. rewrite map_length, skipn_length, map_length. reflexivity. }
      assert (Hnth2 : forall j, j < length bs2 -> (nth j bs2 false = true <-> 0 < nth (S idx + j) ns 0)).
      { intros j Hj. unfold bs2.
        rewrite (nth_map_lt (fun c => negb (Qle_bool c 0)) _ j false (inj 0))
          by (unfold bs2 in Hj; rewrite map_length in Hj; exact Hj).
        rewrite nth_skipn_inj. apply pos_test. }
      assert (Hex : existsb (fun b => b) bs2 = true).
      { destruct (existsb (fun b => b) bs2) eqn:Ex; [reflexivity|]. exfalso.
        assert (Hz : forall k, S idx <= k < S idx + (length ns - S idx) -> nth k ns 0 = 0).
        { intros k Hk. destruct (nth k ns 0) as [|p] eqn:Ek; [reflexivity|]. exfalso.
          assert (Hj : k - S idx < length bs2) by lia.
          assert (T : nth (k - S idx) bs2 false = true).
          { apply Hnth2; [exact Hj|]. replace (S idx + (k - S idx)) with k by lia. lia. }
          assert (In true bs2) by (rewrite <- T; apply nth_In; exact Hj).
          assert (existsb (fun b => b) bs2 = true) by (apply existsb_exists; exists true; auto).
          congruence. }
        pose proof (upto_zero_run ns (S idx) (length ns - S idx) Hz) as Hrun.
        rewrite (upto_all ns) in Hrun by lia. lia. }
      destruct (first_true_props bs2 Hex) as [F1 [F2 F3]].
      assert (Ej : argmax_bool bs2 = first_true bs2).
      { unfold argmax_bool. apply Nat.ltb_lt in F1. rewrite F1. reflexivity. }
      fold bs2. rewrite Ej. set (j := first_true bs2) in *.
      assert (Hnext : S idx + j < length ns) by lia.
      assert (Hg : 0 < nth (S idx + j) ns 0) by (apply Hnth2; assumption).
      assert (Hrun : upto (S idx + j) ns = upto (S idx) ns).
      { apply upto_zero_run. intros k Hk.
        destruct (nth k ns 0) as [|p] eqn:Ek; [reflexivity|]. exfalso.
        assert (Hk2 : k - S idx < j) by lia.
        specialize (F3 _ Hk2).
        assert (T : nth (k - S idx) bs2 false = true).
        { apply Hnth2; [lia|]. replace (S idx + (k - S idx)) with k by lia. lia. }
        congruence. }
      assert (Ev : Nat.even (list_sum ns) = true).
      { apply Nat.even_spec. exists (upto (S idx) ns). exact Eh. }
      rewrite Ev. eexists. split; [reflexivity|].
      assert (E1 : list_sum ns / 2 = upto (S idx) ns) by (rewrite Eh; apply half_even).
      rewrite E1.
      rewrite (nth_expand vs ns idx (upto (S idx) ns - 1) 0%Q Hlen Hi) by lia.
      rewrite (nth_expand vs ns (S idx + j) (upto (S idx) ns) 0%Q Hlen Hnext)
        by (rewrite (upto_S ns (S idx + j)); lia).
      reflexivity.
    - assert (Hne : list_sum ns <> 2 * upto (S idx) ns).
      { intros E. apply Hhalf in E. discriminate. }
      eexists. split; [reflexivity|].
      destruct (Nat.even (list_sum ns)) eqn:Ev.
      + apply Nat.even_spec in Ev. destruct Ev as [h Eh2].
        assert (E1 : list_sum ns / 2 = h) by (rewrite Eh2; apply half_even). rewrite E1.
        rewrite (nth_expand vs ns idx (h - 1) 0%Q Hlen Hi) by lia.
        rewrite (nth_expand vs ns idx h 0%Q Hlen Hi) by lia.
        field.
      + assert (Od : Nat.odd (list_sum ns) = true) by (rewrite <- Nat.negb_even, Ev; reflexivity).
        apply Nat.odd_spec in Od. destruct Od as [h Eh2].
        assert (E1 : list_sum ns / 2 = h) by (rewrite Eh2; apply half_odd). rewrite E1.
        rewrite (nth_expand vs ns idx h 0%Q Hlen Hi) by lia.
        reflexivity.
  Qed.
End Fixed.

(* no side condition any more *)
Theorem weighted_median_fixed_is_median vs ns :
  length vs = length ns -> Sorted Qle vs -> 0 < list_sum ns ->
  exists m, weighted_median_fixed (map cnt ns) vs = Fin m /\ is_median_of (expand vs ns) m.
Proof.
  intros Hl Hs Hp.
  destruct (weighted_median_fixed_middle vs ns Hl Hp) as [m [E Em]].
  exists m. split; [exact E|]. split.
  - intros H0. pose proof (expand_length vs ns Hl) as L. rewrite H0 in L. simpl in L. lia.
  - exists (expand vs ns). split; [apply Permutation_refl|]. split; [|exact Em].
    apply expand_sorted. exact Hs.
Qed.

(* and it agrees with the current rule whenever that one was right *)
Example weighted_median_fixed_witness :
  weighted_median_fixed (map cnt [2; 0; 2]) [1; 2; 3]%Q = Fin ((1 + 3) / 2).
Proof. reflexivity. Qed.
