(* HISTORICAL - not about the model of the current code.

   Until the repair dda43200 (finding C14-median-zero-count-after-half, now fixed) the
   cumulative-count median rule averaged, at an exact 50 % point, with `median_idx + 1`: the next
   category in value order even when it is empty.  That rule is kept in Model/Scale.v as
   [weighted_median_v0] (used by nothing) and this file records
     - that it was NOT a median of the respondents' values (counts 2,0,2 on the values 1,2,3),
       i.e. the unconditional theorem [weighted_median_is_median] of Proofs/ScaleMedianProofs.v
       distinguishes the repaired rule from the old one;
     - the side condition under which it was one ([no_gap]).
   The repaired rule [weighted_median] and its unconditional proof are in ScaleMedianProofs.v. *)
From Coq Require Import QArith ZArith List Bool Lia Arith Lqa Sorted Permutation.
From CC Require Import Base.XQ Base.ListX Spec.Stats Model.Scale Proofs.ScaleMedianProofs.
Import ListNotations.
Local Close Scope Q_scope.
Local Open Scope nat_scope.

(* whenever the categories up to k hold exactly half of the respondents, the next category (in
   value order) is not empty *)
Definition no_gap (ns : list nat) : Prop :=
  forall k, S k < length ns -> 2 * upto (S k) ns = list_sum ns -> 0 < nth (S k) ns 0.

(* all valued categories non-empty is the simplest sufficient condition *)
Lemma all_positive_no_gap ns : Forall (fun n => 0 < n) ns -> no_gap ns.
Proof.
  intros H k Hk _. rewrite Forall_forall in H. apply H. apply nth_In. exact Hk.
Qed.

Section V0.
  Variable vs : list Q.
  Variable ns : list nat.
  Hypothesis Hlen : length vs = length ns.
  Hypothesis Hpos : 0 < list_sum ns.

  Theorem weighted_median_v0_middle : no_gap ns ->
    exists m, weighted_median_v0 (map cnt ns) vs = Fin m /\ (m == middle (expand vs ns))%Q.
  Proof.
    intros Hgap.
    pose proof (idx_props vs ns Hlen Hpos) as Hidx.
    pose proof (half_test vs ns Hlen Hpos) as Hhalf.
    pose proof (total_pos vs ns Hlen Hpos) as Htot.
    unfold weighted_median_v0. rewrite map_cnt.
    set (cum := cumsum (map inj ns)) in *.
    set (total := last cum 0%Q) in *.
    set (props := map (fun c => (c / total)%Q) cum) in *.
    set (idx := argmax_bool (map (fun p => Qle_bool (1 # 2) p) props)) in *.
    assert (E0 : Qeq_bool total 0 = false).
    { destruct (Qeq_bool total 0) eqn:E0; [|reflexivity]. apply Qeq_bool_iff in E0. lra. }
    rewrite E0.
    destruct Hidx as [Hi [Hhi Hlo]].
    pose proof (upto_mono ns idx) as Hmono.
    unfold middle. rewrite (expand_len vs ns Hlen).
    destruct (Qeq_bool (nth idx props 0%Q) (1 # 2)) eqn:Eh.
    - clear Eh. assert (Eh : list_sum ns = 2 * upto (S idx) ns) by (apply Hhalf; reflexivity).
      assert (Hnext : S idx < length ns).
      { destruct (Nat.lt_ge_cases (S idx) (length ns)) as [L|L]; [exact L|].
        rewrite upto_all in Eh by lia. lia. }
      assert (Hg : 0 < nth (S idx) ns 0) by (apply Hgap; [exact Hnext|lia]).
      assert (Ev : Nat.even (list_sum ns) = true).
      { apply Nat.even_spec. exists (upto (S idx) ns). exact Eh. }
      rewrite Ev. eexists. split; [reflexivity|].
      assert (E1 : list_sum ns / 2 = upto (S idx) ns) by (rewrite Eh; apply half_even).
      rewrite E1.
      rewrite (nth_expand vs ns idx (upto (S idx) ns - 1) 0%Q Hlen Hi) by lia.
      rewrite (nth_expand vs ns (S idx) (upto (S idx) ns) 0%Q Hlen Hnext)
        by (rewrite (upto_S ns (S idx)); lia).
      reflexivity.
    - assert (Hne : list_sum ns <> 2 * upto (S idx) ns).
      { intros E. apply Hhalf in E. discriminate. }
      eexists. split; [reflexivity|].
      destruct (Nat.even (list_sum ns)) eqn:Ev.
      + apply Nat.even_spec in Ev. destruct Ev as [h Eh2].
        assert (E1 : list_sum ns / 2 = h) by (rewrite Eh2; apply half_even). rewrite E1.
        rewrite (nth_expand vs ns idx (h - 1) 0%Q Hlen Hi) by lia.
        rewrite (nth_expand vs ns idx h 0%Q Hlen Hi) by lia.
        field.
      + assert (Od : Nat.odd (list_sum ns) = true) by (rewrite <- Nat.negb_even, Ev; reflexivity).
        apply Nat.odd_spec in Od. destruct Od as [h Eh2].
        assert (E1 : list_sum ns / 2 = h) by (rewrite Eh2; apply half_odd). rewrite E1.
        rewrite (nth_expand vs ns idx h 0%Q Hlen Hi) by lia.
        reflexivity.
  Qed.
End V0.

(* the old rule was a median only under the side condition ... *)
Theorem weighted_median_v0_is_median vs ns :
  length vs = length ns -> Sorted Qle vs -> 0 < list_sum ns -> no_gap ns ->
  exists m, weighted_median_v0 (map cnt ns) vs = Fin m /\ is_median_of (expand vs ns) m.
Proof.
  intros Hl Hs Hp Hg.
  destruct (weighted_median_v0_middle vs ns Hl Hp Hg) as [m [E Em]].
  exists m. split; [exact E|]. split.
  - intros H0. pose proof (expand_length vs ns Hl) as L. rewrite H0 in L. simpl in L. lia.
  - exists (expand vs ns). split; [apply Permutation_refl|]. split; [|exact Em].
    apply expand_sorted. exact Hs.
Qed.

(* ... and not without it, where the repaired rule is: counts 2,0,2 on the values 1,2,3 *)
Theorem weighted_median_v0_not_median :
  exists vs ns, length vs = length ns /\ Sorted Qle vs /\ 0 < list_sum ns /\
    weighted_median_v0 (map cnt ns) vs = Fin (3 # 2) /\
    weighted_median (map cnt ns) vs =x= Fin 2 /\ (middle (expand vs ns) == 2)%Q.
Proof.
  exists [1; 2; 3]%Q, [2; 0; 2]. split; [reflexivity|]. split.
  - repeat constructor; unfold Qle; simpl; lia.
  - split; [simpl; lia|]. split; [reflexivity|]. split; [vm_compute; reflexivity|reflexivity].
Qed.
