(* Proofs/ComposePublicLinks.v -- the COMPOSITION of the source translators, part 2: the generic steps.

   [realizes f C m B]: with fuel f, the four generated block terms of measure m evaluate (in the chain of
   Proofs/ComposePublicSem.v, context C) to the four blocks of the MODEL structure B, with the shapes numpy
   gives them.  This file proves

     * how a [realizes] fact follows from the four GenAgree facts of a measure ([holds_mat] /
       [holds_mat_sq] of GenAgreeMeasTac.v, [bagrees_mat] of BasesExp.v) -- the bridge never looks at the
       generated term, only at what its GenAgree lemma says;
     * that a [realizes] fact is what the environment of the NEXT measure needs
       ([blocks_of (blk_at f C m) = B]);
     * the last two links: the generated `_assemble_matrix` term on the evaluated blocks under in-range
       signed orders ([gen_Slice__assemble_matrix_cell] of GenAgreeAssemble.v), and the wiring term
       `self._assemble_matrix(self._measures.<m>.blocks)`:

            weval .. (w_matrix_of m)  =  PMat |ro| |co| M   with
            M[i][j] = the cell of the MODEL block of B selected by the signs of ro[i], co[j]. *)
From Coq Require Import QArith ZArith List Bool Lia Arith String.
From CC Require Import Base.XQ Base.ListX Base.WiringExp Model.Subtotals Model.Proportions
     Proofs.ComposePublicSem.
From CC Require Base.MeasureExp Base.BasesExp Base.AsmExp Model.Assemble
     Gen.WiringSrc Gen.MeasureSrc Gen.BasesSrc Gen.AssembleSrc
     Proofs.AssembleProofs Proofs.GenAgreeMeasTac Proofs.GenAgreeBasesTac Proofs.GenAgreeAssemble.
Import ListNotations.
Local Close Scope Q_scope.
Local Open Scope string_scope.
Local Open Scope nat_scope.

(* ------------------------------------------------------------------------------------ *)
(** * tabulated matrices *)

Lemma tab2_ext_lt nr nc f g :
  (forall i j, i < nr -> j < nc -> f i j = g i j) -> tab2 nr nc f = tab2 nr nc g.
Proof.
  intros H. unfold tab2, tab. apply map_ext_in. intros i Hi. apply in_seq in Hi.
  apply map_ext_in. intros j Hj. apply in_seq in Hj. apply H; lia.
Qed.

(* M is an nr x nc matrix given by its cells *)
Definition is_tab (nr nc : nat) (M : mat) : Prop := tab2 nr nc (mnth M) = M.

Lemma is_tab_tab2 nr nc f : is_tab nr nc (tab2 nr nc f).
Proof. unfold is_tab. apply tab2_ext_lt. intros i j Hi Hj. apply tab2_mnth; assumption. Qed.

Lemma rect_tab2' nr nc f : AssembleProofs.rect nr nc (tab2 nr nc f).
Proof.
  split; [apply tab_length|].
  unfold tab2, tab. apply Forall_forall. intros r Hr. apply in_map_iff in Hr.
  destruct Hr as (i & <- & _). rewrite map_length, seq_length. reflexivity.
Qed.

Lemma is_tab_rect nr nc M : is_tab nr nc M -> AssembleProofs.rect nr nc M.
Proof. intros H. rewrite <- H. apply rect_tab2'. Qed.

(* ------------------------------------------------------------------------------------ *)
(** * shapes of the four blocks *)

Section Shapes.
  Variable C : pctx.
  Definition nrs : nat := List.length (c_rsubs C).
  Definition ncs : nat := List.length (c_csubs C).
  Definition brows (bi : nat) : nat := match bi with 0 => c_nr C | _ => nrs end.
  Definition bcols (bj : nat) : nat := match bj with 0 => c_nc C | _ => ncs end.
  Definition rtag (bi : nat) : MeasureExp.dim := match bi with 0 => MeasureExp.DR | _ => MeasureExp.DRS end.
  Definition ctag (bj : nat) : MeasureExp.dim := match bj with 0 => MeasureExp.DC | _ => MeasureExp.DCS end.

  Definition tabular (B : blocks) : Prop :=
    forall bi bj, bi < 2 -> bj < 2 -> is_tab (brows bi) (bcols bj) (GenAgreeMeasTac.pick B bi bj).
End Shapes.

(* the blocks of the other measures a term of fuel (S f) sees *)
Definition blk_at (f : nat) (C : pctx) : string -> nat -> nat -> mat :=
  fun m i j => rows_or_nil (gen_blk f C m i j).

Definition realizes (f : nat) (C : pctx) (m : string) (B : blocks) : Prop :=
  forall bi bj, bi < 2 -> bj < 2 ->
    gen_blk f C m bi bj = Some (brows C bi, bcols C bj, GenAgreeMeasTac.pick B bi bj).

Lemma realizes_blocks_of f C m B :
  realizes f C m B -> GenAgreeMeasTac.blocks_of (blk_at f C m) = B.
Proof.
  intros R. unfold GenAgreeMeasTac.blocks_of, blk_at.
  rewrite (R 0 0), (R 0 1), (R 1 0), (R 1 1) by lia. destruct B; reflexivity.
Qed.

Lemma realizes_blk f C m B bi bj :
  realizes f C m B -> bi < 2 -> bj < 2 -> blk_at f C m bi bj = GenAgreeMeasTac.pick B bi bj.
Proof. intros R Hi Hj. unfold blk_at. rewrite (R bi bj Hi Hj). reflexivity. Qed.

(* ------------------------------------------------------------------------------------ *)
(** * a GenAgree fact about a term gives its evaluated block *)

Lemma e_size_menv_of C blk d :
  MeasureExp.e_size (menv_of C blk) d =
  GenAgreeMeasTac.dsize (c_nr C) (c_nc C) (nrs C) (ncs C) d.
Proof. reflexivity. Qed.
Lemma e_size_menv_index_of C blk d :
  MeasureExp.e_size (menv_index_of C blk) d =
  GenAgreeMeasTac.dsize (c_nr C) (c_nc C) (nrs C) (ncs C) d.
Proof. reflexivity. Qed.

Lemma dsize_rtag C bi :
  GenAgreeMeasTac.dsize (c_nr C) (c_nc C) (nrs C) (ncs C) (rtag bi) = brows C bi.
Proof. destruct bi; reflexivity. Qed.
Lemma dsize_ctag C bj :
  GenAgreeMeasTac.dsize (c_nr C) (c_nc C) (nrs C) (ncs C) (ctag bj) = bcols C bj.
Proof. destruct bj; reflexivity. Qed.

Lemma smat_of_agrees E v dr dc g :
  MeasureExp.agrees_mat E v dr dc g ->
  smat_of_mval E v = Some (MeasureExp.e_size E dr, MeasureExp.e_size E dc,
                           tab2 (MeasureExp.e_size E dr) (MeasureExp.e_size E dc) g).
Proof.
  unfold MeasureExp.agrees_mat. destruct v as [| |d f|r c f]; try contradiction.
  intros [-> [-> H]]. unfold smat_of_mval. f_equal. f_equal. apply tab2_ext_lt. exact H.
Qed.

Lemma smat_of_bagrees v r c g :
  BasesExp.bagrees_mat v r c g -> smat_of_bval v = Some (r, c, tab2 r c g).
Proof.
  unfold BasesExp.bagrees_mat. destruct v as [| |x|n f|r' c' f]; try contradiction.
  intros [-> [-> H]]. unfold smat_of_bval. f_equal. f_equal. apply tab2_ext_lt. exact H.
Qed.

Section Eval.
  Variable C : pctx.
  Variable blk : string -> nat -> nat -> mat.

  Lemma eval_block_mat e bi bj M :
    GenAgreeMeasTac.holds_mat (menv_of C blk) e (rtag bi) (ctag bj) (mnth M) ->
    is_tab (brows C bi) (bcols C bj) M ->
    eval_block C blk KMat (TM e) = Some (brows C bi, bcols C bj, M).
  Proof.
    intros H T. unfold eval_block. rewrite (smat_of_agrees _ _ _ _ _ H).
    rewrite !e_size_menv_of, dsize_rtag, dsize_ctag. rewrite T. reflexivity.
  Qed.

  Lemma eval_block_matsq e bi bj M :
    GenAgreeMeasTac.holds_mat_sq (menv_of C blk) e (rtag bi) (ctag bj) (mnth M) ->
    is_tab (brows C bi) (bcols C bj) M ->
    eval_block C blk KMatSq (TM e) = Some (brows C bi, bcols C bj, M).
  Proof.
    intros H T. unfold eval_block. rewrite (smat_of_agrees _ _ _ _ _ H).
    rewrite !e_size_menv_of, dsize_rtag, dsize_ctag. rewrite T. reflexivity.
  Qed.

  Lemma eval_block_index e bi bj M :
    GenAgreeMeasTac.holds_mat (menv_index_of C blk) e (rtag bi) (ctag bj) (mnth M) ->
    is_tab (brows C bi) (bcols C bj) M ->
    eval_block C blk KIndex (TM e) = Some (brows C bi, bcols C bj, M).
  Proof.
    intros H T. unfold eval_block. rewrite (smat_of_agrees _ _ _ _ _ H).
    rewrite !e_size_menv_index_of, dsize_rtag, dsize_ctag. rewrite T. reflexivity.
  Qed.

  Lemma eval_block_base e bi bj M :
    BasesExp.bagrees_mat (BasesExp.beval (benv_of C GenAgreeBasesTac.cv0 blk) e) (brows C bi) (bcols C bj) (mnth M) ->
    is_tab (brows C bi) (bcols C bj) M ->
    eval_block C blk KBase (TB e) = Some (brows C bi, bcols C bj, M).
  Proof.
    intros H T. unfold eval_block. rewrite (smat_of_bagrees _ _ _ _ H). rewrite T. reflexivity.
  Qed.
  Lemma eval_block_base_uc e bi bj M :
    BasesExp.bagrees_mat (BasesExp.beval (benv_of C (cubev_uc C) blk) e) (brows C bi) (bcols C bj) (mnth M) ->
    is_tab (brows C bi) (bcols C bj) M ->
    eval_block C blk KBaseUC (TB e) = Some (brows C bi, bcols C bj, M).
  Proof.
    intros H T. unfold eval_block. rewrite (smat_of_bagrees _ _ _ _ H). rewrite T. reflexivity.
  Qed.
  Lemma eval_block_base_ur e bi bj M :
    BasesExp.bagrees_mat (BasesExp.beval (benv_of C (cubev_ur C) blk) e) (brows C bi) (bcols C bj) (mnth M) ->
    is_tab (brows C bi) (bcols C bj) M ->
    eval_block C blk KBaseUR (TB e) = Some (brows C bi, bcols C bj, M).
  Proof.
    intros H T. unfold eval_block. rewrite (smat_of_bagrees _ _ _ _ H). rewrite T. reflexivity.
  Qed.
  (* the same for a model given cell by cell *)
  Lemma eval_block_mat_fn e bi bj g :
    GenAgreeMeasTac.holds_mat (menv_of C blk) e (rtag bi) (ctag bj) g ->
    eval_block C blk KMat (TM e) = Some (brows C bi, bcols C bj, tab2 (brows C bi) (bcols C bj) g).
  Proof.
    intros H. unfold eval_block. rewrite (smat_of_agrees _ _ _ _ _ H).
    rewrite !e_size_menv_of, dsize_rtag, dsize_ctag. reflexivity.
  Qed.
  Lemma eval_block_matsq_fn e bi bj g :
    GenAgreeMeasTac.holds_mat_sq (menv_of C blk) e (rtag bi) (ctag bj) g ->
    eval_block C blk KMatSq (TM e) = Some (brows C bi, bcols C bj, tab2 (brows C bi) (bcols C bj) g).
  Proof.
    intros H. unfold eval_block. rewrite (smat_of_agrees _ _ _ _ _ H).
    rewrite !e_size_menv_of, dsize_rtag, dsize_ctag. reflexivity.
  Qed.
  (* z-scores: the flag is the evaluated `_is_defective` term *)
  Lemma eval_block_z_fn e bi bj d g :
    defective_of C blk = Some d ->
    GenAgreeMeasTac.holds_mat_sq (menv_z_of C blk d) e (rtag bi) (ctag bj) g ->
    eval_block C blk KZ (TM e) = Some (brows C bi, bcols C bj, tab2 (brows C bi) (bcols C bj) g).
  Proof.
    intros Hd H. unfold eval_block. rewrite Hd, (smat_of_agrees _ _ _ _ _ H).
    change (MeasureExp.e_size (menv_z_of C blk d) (rtag bi)) with
      (GenAgreeMeasTac.dsize (c_nr C) (c_nc C) (nrs C) (ncs C) (rtag bi)).
    change (MeasureExp.e_size (menv_z_of C blk d) (ctag bj)) with
      (GenAgreeMeasTac.dsize (c_nr C) (c_nc C) (nrs C) (ncs C) (ctag bj)).
    rewrite dsize_rtag, dsize_ctag. reflexivity.
  Qed.
  (* a block without rows: only the shape of the value matters *)
  Lemma eval_block_z_empty e bi bj d f :
    defective_of C blk = Some d ->
    MeasureExp.meval_sq (menv_z_of C blk d) e = MeasureExp.VMat (rtag bi) (ctag bj) f ->
    brows C bi = 0 ->
    eval_block C blk KZ (TM e) = Some (brows C bi, bcols C bj, []).
  Proof.
    intros Hd H H0. unfold eval_block. rewrite Hd, H. unfold smat_of_mval.
    change (MeasureExp.e_size (menv_z_of C blk d) (rtag bi)) with
      (GenAgreeMeasTac.dsize (c_nr C) (c_nc C) (nrs C) (ncs C) (rtag bi)).
    change (MeasureExp.e_size (menv_z_of C blk d) (ctag bj)) with
      (GenAgreeMeasTac.dsize (c_nr C) (c_nc C) (nrs C) (ncs C) (ctag bj)).
    rewrite dsize_rtag, dsize_ctag, H0. reflexivity.
  Qed.
End Eval.

(* one block of a measure, from the lookup of its term and the evaluation of that term *)
Lemma gen_blk_step f C m k t bi bj e v :
  measure_src m = Some (k, t) -> t bi bj = Some e ->
  eval_block C (blk_at f C) k e = Some v ->
  gen_blk (S f) C m bi bj = Some v.
Proof.
  intros Hm Ht He. cbn [gen_blk]. rewrite Hm, Ht. exact He.
Qed.

(* the four cases of a [realizes] goal *)
Ltac four_blocks :=
  let bi := fresh "bi" in let bj := fresh "bj" in let Hi := fresh "Hi" in let Hj := fresh "Hj" in
  intros bi bj Hi Hj;
  destruct bi as [|[|bi]]; [| |exfalso; lia];
  (destruct bj as [|[|bj]]; [| |exfalso; lia]).

(* ------------------------------------------------------------------------------------ *)
(** * the assembly and the wiring *)

Definition ablocks (B : blocks) : Assemble.blocks xq :=
  Assemble.mkBlocks (b_base B) (b_cols B) (b_rows B) (b_inter B).

Lemma wf_ablocks C B :
  tabular C B -> AssembleProofs.wf_blocks (c_nr C) (nrs C) (c_nc C) (ncs C) (ablocks B).
Proof.
  intros T. unfold AssembleProofs.wf_blocks, ablocks. cbn [Assemble.b_base Assemble.b_scols Assemble.b_srows Assemble.b_inter].
  split; [|split; [|split]].
  - apply (is_tab_rect _ _ _ (T 0 0 ltac:(lia) ltac:(lia))).
  - apply (is_tab_rect _ _ _ (T 0 1 ltac:(lia) ltac:(lia))).
  - apply (is_tab_rect _ _ _ (T 1 0 ltac:(lia) ltac:(lia))).
  - apply (is_tab_rect _ _ _ (T 1 1 ltac:(lia) ltac:(lia))).
Qed.

Lemma blocks_aval_realizes C m B :
  realizes chain_fuel C m B ->
  blocks_aval C m = Some (GenAgreeAssemble.blocks_val (c_nr C) (nrs C) (c_nc C) (ncs C) (ablocks B)).
Proof.
  intros R. unfold blocks_aval.
  rewrite (R 0 0), (R 0 1), (R 1 0), (R 1 1) by lia. reflexivity.
Qed.

(* the cell of the model blocks a pair of signed indexes selects *)
Definition signed_cell (C : pctx) (B : blocks) (r c : Z) : xq :=
  AssembleProofs.block_cell NaN (nrs C) (ncs C) (ablocks B) r c.

Definition orders_ok (C : pctx) : Prop :=
  Forall (AssembleProofs.in_range (nrs C) (c_nr C)) (c_ro C) /\
  Forall (AssembleProofs.in_range (ncs C) (c_nc C)) (c_co C).

(* links 3 + 1: self._assemble_matrix(self._measures.<m>.blocks) *)
Lemma weval_matrix_of f C m :
  weval (S f) C (w_matrix_of m) =
  match blocks_aval C m with
  | Some v => pval_of_aval (asm_matrix C v)
  | None => PErr
  end.
Proof. reflexivity. Qed.

Lemma Forall_nth_in {A} (P : A -> Prop) l d i : Forall P l -> i < List.length l -> P (nth i l d).
Proof. intros F H. rewrite Forall_forall in F. apply F. apply nth_In. exact H. Qed.

Lemma rect_assemble {A} (d : A) n m p q B ro co :
  AssembleProofs.rect (List.length ro) (List.length co) (Assemble.assemble d n m p q B ro co).
Proof.
  split; [apply AssembleProofs.assemble_nrows|].
  unfold Assemble.assemble, Assemble.ix. apply Forall_forall. intros r Hr.
  apply in_map_iff in Hr. destruct Hr as (z & <- & _). apply map_length.
Qed.

Theorem public_matrix_of_realizes :
  need (is_some AssembleSrc.asm_Slice__assemble_matrix)
  (forall f C m B,
     realizes chain_fuel C m B -> tabular C B -> orders_ok C ->
     exists M,
       weval (S f) C (w_matrix_of m) = PMat (List.length (c_ro C)) (List.length (c_co C)) M /\
       AssembleProofs.rect (List.length (c_ro C)) (List.length (c_co C)) M /\
       forall i j, i < List.length (c_ro C) -> j < List.length (c_co C) ->
         mnth M i j = signed_cell C B (nth i (c_ro C) 0%Z) (nth j (c_co C) 0%Z)).
Proof.
  generalize GenAgreeAssemble.gen_Slice__assemble_matrix.
  unfold need. destruct AssembleSrc.asm_Slice__assemble_matrix as [e|] eqn:E; [|intros _; exact I].
  cbn [is_some]. intros G f C m B R T [Or Oc].
  pose proof (G xq NaN no_lit no_truthy (c_nr C) (nrs C) (c_nc C) (ncs C) (ablocks B) (c_ro C) (c_co C)
              (wf_ablocks C B T) Or Oc) as HM.
  exists (Assemble.assemble NaN (c_nr C) (nrs C) (c_nc C) (ncs C) (ablocks B) (c_ro C) (c_co C)).
  split; [|split].
  - rewrite weval_matrix_of, (blocks_aval_realizes C m B R). unfold asm_matrix. rewrite E.
    cbv beta iota. exact (f_equal pval_of_aval HM).
  - apply rect_assemble.
  - intros i j Hi Hj.
    exact (AssembleProofs.assemble_cell NaN (c_nr C) (nrs C) (c_nc C) (ncs C) (ablocks B) (c_ro C) (c_co C)
             i j (wf_ablocks C B T) Hi Hj (Forall_nth_in _ _ _ _ Or Hi) (Forall_nth_in _ _ _ _ Oc Hj)).
Qed.

(* reading [signed_cell] by the signs *)
Lemma signed_cell_base C B r c : (0 <= r)%Z -> (0 <= c)%Z ->
  signed_cell C B r c = mnth (b_base B) (Z.to_nat r) (Z.to_nat c).
Proof.
  intros Hr Hc. unfold signed_cell, AssembleProofs.block_cell.
  rewrite (proj2 (Z.leb_le 0 r) Hr), (proj2 (Z.leb_le 0 c) Hc). reflexivity.
Qed.
Lemma signed_cell_srow C B r c : (r < 0)%Z -> (0 <= c)%Z ->
  signed_cell C B r c = mnth (b_rows B) (Z.to_nat (r + Z.of_nat (nrs C))) (Z.to_nat c).
Proof.
  intros Hr Hc. unfold signed_cell, AssembleProofs.block_cell.
  rewrite (proj2 (Z.leb_gt 0 r) Hr), (proj2 (Z.leb_le 0 c) Hc). reflexivity.
Qed.
Lemma signed_cell_scol C B r c : (0 <= r)%Z -> (c < 0)%Z ->
  signed_cell C B r c = mnth (b_cols B) (Z.to_nat r) (Z.to_nat (c + Z.of_nat (ncs C))).
Proof.
  intros Hr Hc. unfold signed_cell, AssembleProofs.block_cell.
  rewrite (proj2 (Z.leb_le 0 r) Hr), (proj2 (Z.leb_gt 0 c) Hc). reflexivity.
Qed.
Lemma signed_cell_inter C B r c : (r < 0)%Z -> (c < 0)%Z ->
  signed_cell C B r c =
  mnth (b_inter B) (Z.to_nat (r + Z.of_nat (nrs C))) (Z.to_nat (c + Z.of_nat (ncs C))).
Proof.
  intros Hr Hc. unfold signed_cell, AssembleProofs.block_cell.
  rewrite (proj2 (Z.leb_gt 0 r) Hr), (proj2 (Z.leb_gt 0 c) Hc). reflexivity.
Qed.

(* in-range signed indexes address in-range cells *)
Lemma in_range_nonneg nsub nel z :
  AssembleProofs.in_range nsub nel z -> (0 <= z)%Z -> Z.to_nat z < nel.
Proof. unfold AssembleProofs.in_range. intros H H0. lia. Qed.
Lemma in_range_neg nsub nel z :
  AssembleProofs.in_range nsub nel z -> (z < 0)%Z -> Z.to_nat (z + Z.of_nat nsub) < nsub.
Proof. unfold AssembleProofs.in_range. intros H H0. lia. Qed.

(* ------------------------------------------------------------------------------------ *)
(** * cell-wise maps (percentages) *)

Lemma mnth_map_map h M i j nr nc :
  AssembleProofs.rect nr nc M -> i < nr -> j < nc -> mnth (map (map h) M) i j = h (mnth M i j).
Proof.
  intros [L F] Hi Hj. unfold mnth, vnth.
  rewrite (AssembleProofs.nth_map_lt (map h) M i [] []) by lia.
  assert (Hl : List.length (nth i M []) = nc).
  { rewrite Forall_forall in F. apply F. apply nth_In. lia. }
  rewrite (AssembleProofs.nth_map_lt h (nth i M []) j NaN NaN) by lia. reflexivity.
Qed.
