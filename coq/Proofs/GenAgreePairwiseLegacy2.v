(* Proofs/GenAgreePairwiseLegacy2.v -- GenAgree for C13, the rest of the LEGACY classes: what
   measures/pairwise_significance.py SAYS NOW for _ColumnPairwiseSignificance(slice_, col_idx, alpha,
   only_larger)
     .summary_t_stats / ._df / .summary_p_vals / .summary_pairwise_indices
     .t_stats_scale_means / ._two_sample_df / .p_vals_scale_means / .scale_mean_pairwise_indices
   denotes Model/PairwiseLegacy.v ([summary_t], [summary_df](_mat), [summary_p], [scale_t], [scale_dfs],
   [scale_p], [legacy_where]) on the slice's own (displayed) arrays; statistics as signed squares,
   p-values for EVERY CDF function.  columns_base is a vector (or, for ._df, a matrix: MR rows); the
   table margin a scalar or one value per column.  The counts of the scale-mean test are the column sums
   over the displayed rows that have a numeric value ([valid_counts]) - the model follows the code (open
   finding C05-scale-mean-pairwise-hidden).
   PairwiseSignificance (.values, ._scale_mean_pairwise_indices, .summary_pairwise_indices,
   .scale_mean_pairwise_indices): GenAgreePairwiseCtl.v.   See GenAgreePairTac.v. *)
From Coq Require Import QArith Qabs ZArith List Bool Lia Arith String.
From CC Require Import Base.XQ Base.ListX Base.MeasureExp Base.PairExp Model.Pairwise Model.PairwiseP
     Model.PairwiseLegacy Gen.PairwiseSrc Proofs.GenAgreePairTac.
Import ListNotations.
Local Close Scope Q_scope.
Local Open Scope string_scope.
Local Open Scope nat_scope.

Definition pagrees_vec (E : penv) (v : mval) (d : dim) (g : nat -> xq) : Prop :=
  match v with
  | VVec d' f => d' = d /\ forall i, i < pe_size E d -> f i = g i
  | _ => False
  end.

Definition lg_noblk (_ : string) (_ _ : nat) : list (list xq) := [].
Definition lg_nocube (_ _ : string) : mval := VErr.
Definition lg_scal (alpha : xq) (s : string) : xq := if String.eqb s "alpha" then alpha else NaN.

Definition penv_leg (nr nc c : nat) (slice : string -> mval) (flag : string -> bool)
           (cdf : xq -> xq -> xq) (alpha : xq) : penv :=
  mkPenv (psize nr nc 0 0) (sel_ix (Z.of_nat c)) no_loop lg_noblk no_pblock lg_nocube slice no_cube3
         flag cdf no_ncdf (lg_scal alpha) no_ovrows.

(* ---- the summary test ------------------------------------------------------------------------ *)
(* columns_base a vector; table_margin a scalar or one value per column *)
Definition tm_val (per_col : bool) (tm : xq) (tmv : list xq) : mval :=
  if per_col then VVec DC (vnth tmv) else VScal tm.
Definition tm_fun (per_col : bool) (tm : xq) (tmv : list xq) (j : nat) : xq :=
  if per_col then vnth tmv j else tm.
Definition summ_slice (cb : list xq) (per_col : bool) (tm : xq) (tmv : list xq) (s : string) : mval :=
  if String.eqb s "columns_base" then VVec DC (vnth cb)
  else if String.eqb s "table_margin" then tm_val per_col tm tmv
  else VErr.
(* columns_base per cell (MR rows) *)
Definition summ_slice_mat (CB : list (list xq)) (s : string) : mval :=
  if String.eqb s "columns_base" then VMat DR DC (mnth CB) else VErr.

(* ---- the scale-mean test ------------------------------------------------------------------------ *)
Definition scale_slice (means vars nv : list xq) (M : list (list xq)) (s : string) : mval :=
  if String.eqb s "columns_scale_mean" then VVec DC (vnth means)
  else if String.eqb s "_columns_scale_mean_variance" then VVec DC (vnth vars)
  else if String.eqb s "_rows_dimension_numeric_values" then VVec DR (vnth nv)
  else if String.eqb s "counts" then VMat DR DC (mnth M)
  else VErr.

Ltac leg_eval0 :=
  cbv [penv_leg lg_noblk lg_nocube lg_scal summ_slice summ_slice_mat scale_slice tm_val pagrees_vec];
  pair_eval0.
Ltac leg_eval :=
  cbv [penv_leg lg_noblk lg_nocube lg_scal summ_slice summ_slice_mat scale_slice tm_val pagrees_vec];
  pair_eval.

Ltac vcells i Hi :=
  lazymatch goal with
  | |- _ /\ _ => split; [reflexivity|]; intros i Hi
  end.

Ltac summ_model :=
  unfold summary_p, summary_t, summary_df, tm_fun;
  rewrite ?tab_vnth by lia;
  unfold summary_tabs, legacy_tabs, prop_var, t_df, pval_x, ssq; rewrite ?xdiv_sqrt_guard; reflexivity.

Lemma gen_Legacy_summary_t_stats :
  match src_Legacy_summary_t_stats with
  | Some e => forall nr nc c cb per_col tm tmv flag cdf alpha,
      List.length cb = nc -> c < nc ->
      pagrees_vec (penv_leg nr nc c (summ_slice cb per_col tm tmv) flag cdf alpha)
                  (pev true (penv_leg nr nc c (summ_slice cb per_col tm tmv) flag cdf alpha) e) DC
                  (vnth (summary_t cb (tm_fun per_col tm tmv) c))
  | None => True
  end.
Proof.
  punfold_srcs;
  lazymatch goal with
  | |- True => exact I
  | _ =>
      intros nr nc c cb per_col tm tmv flag cdf alpha Hl Hc;
      destruct per_col; leg_eval; rewrite ?nidx_nat by assumption; leg_eval;
      vcells i Hi; summ_model
  end.
Qed.

Lemma gen_Legacy__df :
  match src_Legacy__df with
  | Some e => forall nr nc c cb per_col tm tmv flag cdf alpha,
      List.length cb = nc -> c < nc ->
      pagrees_vec (penv_leg nr nc c (summ_slice cb per_col tm tmv) flag cdf alpha)
                  (pev false (penv_leg nr nc c (summ_slice cb per_col tm tmv) flag cdf alpha) e) DC
                  (vnth (summary_df cb c))
  | None => True
  end.
Proof.
  punfold_srcs;
  lazymatch goal with
  | |- True => exact I
  | _ =>
      intros nr nc c cb per_col tm tmv flag cdf alpha Hl Hc;
      leg_eval; rewrite ?nidx_nat by assumption; leg_eval;
      vcells i Hi; summ_model
  end.
Qed.

(* columns_base a matrix (MR rows): the selected column's base of the cell's own row *)
Lemma gen_Legacy__df_mat :
  match src_Legacy__df with
  | Some e => forall nr nc c CB flag cdf alpha,
      shaped CB nr nc -> c < nc ->
      pagrees_mat (penv_leg nr nc c (summ_slice_mat CB) flag cdf alpha)
                  (pev false (penv_leg nr nc c (summ_slice_mat CB) flag cdf alpha) e) DR DC
                  (mnth (summary_df_mat CB c))
  | None => True
  end.
Proof.
  punfold_srcs;
  lazymatch goal with
  | |- True => exact I
  | _ =>
      intros nr nc c CB flag cdf alpha [HCr HCc] Hc;
      leg_eval; rewrite ?nidx_nat by assumption; leg_eval;
      pcells i j Hi Hj; shape_use;
      unfold summary_df_mat; rewrite HCr, HCc; rewrite tab2_mnth by assumption;
      unfold t_df; reflexivity
  end.
Qed.

Lemma gen_Legacy_summary_p_vals :
  match src_Legacy_summary_p_vals with
  | Some e => forall nr nc c cb per_col tm tmv flag cdf alpha,
      List.length cb = nc -> c < nc ->
      pagrees_vec (penv_leg nr nc c (summ_slice cb per_col tm tmv) flag cdf alpha)
                  (pev false (penv_leg nr nc c (summ_slice cb per_col tm tmv) flag cdf alpha) e) DC
                  (vnth (summary_p cdf cb (tm_fun per_col tm tmv) c))
  | None => True
  end.
Proof.
  punfold_srcs;
  lazymatch goal with
  | |- True => exact I
  | _ =>
      intros nr nc c cb per_col tm tmv flag cdf alpha Hl Hc;
      destruct per_col; leg_eval; rewrite ?nidx_nat by assumption; leg_eval;
      vcells i Hi; summ_model
  end.
Qed.

(* index tuples: [where1 (bvev ..)] against [legacy_where] *)
Lemma filter_ext_lt (f g : nat -> bool) n :
  (forall j, j < n -> f j = g j) -> filter f (seq 0 n) = filter g (seq 0 n).
Proof. intros H. apply filter_ext_in. intros j Hj. apply in_seq in Hj. apply H. lia. Qed.

Ltac where_tac n :=
  cbv [where1 bvev band blt dim_eqb];
  lazymatch goal with
  | |- Some _ = Some _ => apply f_equal
  end;
  apply filter_ext_lt.

Lemma gen_Legacy_summary_pairwise_indices :
  match src_Legacy_summary_pairwise_indices with
  | Some b => forall nr nc c cb per_col tm tmv flag cdf alpha,
      List.length cb = nc -> c < nc ->
      where1 (penv_leg nr nc c (summ_slice cb per_col tm tmv) flag cdf alpha)
             (bvev (penv_leg nr nc c (summ_slice cb per_col tm tmv) flag cdf alpha) b) =
      Some (legacy_where alpha (flag "only_larger")
                         (vnth (summary_p cdf cb (tm_fun per_col tm tmv) c))
                         (vnth (summary_t cb (tm_fun per_col tm tmv) c)) nc)
  | None => True
  end.
Proof.
  punfold_srcs;
  lazymatch goal with
  | |- True => exact I
  | _ =>
      intros nr nc c cb per_col tm tmv flag cdf alpha Hl Hc;
      cbv [bvev]; leg_eval;
      destruct (flag "only_larger") eqn:Hol; destruct per_col;
      leg_eval; rewrite ?nidx_nat by assumption; leg_eval;
      cbv [where1 band blt dim_eqb pe_size]; apply f_equal; unfold legacy_where;
      apply filter_ext_lt; intros j Hj;
      unfold summary_p, summary_t, summary_df, tm_fun; rewrite ?tab_vnth by lia;
      unfold summary_tabs, legacy_tabs, prop_var, t_df, pval_x, ssq; rewrite ?xdiv_sqrt_guard;
      cbv [negb orb]; rewrite ?andb_true_r;
      first [reflexivity | apply andb_comm]
  end.
Qed.

(* ---- scale means -------------------------------------------------------------------------------- *)
Ltac scale_model :=
  unfold scale_p, scale_t, scale_dfs; rewrite ?tab_vnth by lia;
  unfold scale_tabs, scale_df, pooled_var, nonneg_or_nan, valid_counts, pval_x, ssq, sqrt_guard;
  reflexivity.

Lemma gen_Legacy_t_stats_scale_means :
  match src_Legacy_t_stats_scale_means with
  | Some e => forall nr nc c means vars nv M flag cdf alpha,
      List.length means = nc -> c < nc ->
      pagrees_vec (penv_leg nr nc c (scale_slice means vars nv M) flag cdf alpha)
                  (pev true (penv_leg nr nc c (scale_slice means vars nv M) flag cdf alpha) e) DC
                  (vnth (scale_t means vars (valid_counts nv M nr) c))
  | None => True
  end.
Proof.
  punfold_srcs;
  lazymatch goal with
  | |- True => exact I
  | _ =>
      intros nr nc c means vars nv M flag cdf alpha Hl Hc;
      leg_eval; repeat (progress (rewrite ?nidx_nat by assumption; leg_eval));
      vcells i Hi; scale_model
  end.
Qed.

Lemma gen_Legacy__two_sample_df :
  match src_Legacy__two_sample_df with
  | Some e => forall nr nc c means vars nv M flag cdf alpha,
      c < nc ->
      pagrees_vec (penv_leg nr nc c (scale_slice means vars nv M) flag cdf alpha)
                  (pev false (penv_leg nr nc c (scale_slice means vars nv M) flag cdf alpha) e) DC
                  (vnth (scale_dfs nc (valid_counts nv M nr) c))
  | None => True
  end.
Proof.
  punfold_srcs;
  lazymatch goal with
  | |- True => exact I
  | _ =>
      intros nr nc c means vars nv M flag cdf alpha Hc;
      leg_eval; repeat (progress (rewrite ?nidx_nat by assumption; leg_eval));
      vcells i Hi; scale_model
  end.
Qed.

Lemma gen_Legacy_p_vals_scale_means :
  match src_Legacy_p_vals_scale_means with
  | Some e => forall nr nc c means vars nv M flag cdf alpha,
      List.length means = nc -> c < nc ->
      pagrees_vec (penv_leg nr nc c (scale_slice means vars nv M) flag cdf alpha)
                  (pev false (penv_leg nr nc c (scale_slice means vars nv M) flag cdf alpha) e) DC
                  (vnth (scale_p cdf means vars (valid_counts nv M nr) c))
  | None => True
  end.
Proof.
  punfold_srcs;
  lazymatch goal with
  | |- True => exact I
  | _ =>
      intros nr nc c means vars nv M flag cdf alpha Hl Hc;
      leg_eval; repeat (progress (rewrite ?nidx_nat by assumption; leg_eval));
      vcells i Hi; scale_model
  end.
Qed.

Lemma gen_Legacy_scale_mean_pairwise_indices :
  match src_Legacy_scale_mean_pairwise_indices with
  | Some b => forall nr nc c means vars nv M flag cdf alpha,
      List.length means = nc -> c < nc ->
      where1 (penv_leg nr nc c (scale_slice means vars nv M) flag cdf alpha)
             (bvev (penv_leg nr nc c (scale_slice means vars nv M) flag cdf alpha) b) =
      Some (legacy_where alpha (flag "only_larger")
                         (vnth (scale_p cdf means vars (valid_counts nv M nr) c))
                         (vnth (scale_t means vars (valid_counts nv M nr) c)) nc)
  | None => True
  end.
Proof.
  punfold_srcs;
  lazymatch goal with
  | |- True => exact I
  | _ =>
      intros nr nc c means vars nv M flag cdf alpha Hl Hc;
      cbv [bvev]; leg_eval0;
      destruct (flag "only_larger") eqn:Hol;
      leg_eval; repeat (progress (rewrite ?nidx_nat by assumption; leg_eval));
      cbv [where1 band blt dim_eqb pe_size]; apply f_equal; unfold legacy_where;
      apply filter_ext_lt; intros j Hj;
      unfold scale_p, scale_t; rewrite ?tab_vnth by lia;
      unfold scale_tabs, scale_df, pooled_var, nonneg_or_nan, valid_counts, pval_x, ssq, sqrt_guard;
      cbv [negb orb]; rewrite ?andb_true_r;
      first [reflexivity | apply andb_comm]
  end.
Qed.
