(* Proofs/GenAgreeScaleMedian.v -- GenAgree tie of matrix/measure.py::_ScaleMedian to Model/Scale.v
   (property C14).

     is_defined                  = [any_value vals]
     _values_sort_order          np.setdiff1d(values.argsort(), np.argwhere(np.isnan(values)), assume_unique=True):
                                 for EVERY argsort that is an ascending permutation with the NaNs last the result
                                 satisfies the model's [valid_order] (the order is an input of the model)
     _weighted_median(sorted_counts, sorted_values)
                                 = [weighted_median] (np.nan_to_num, np.cumsum, cumulative share >= 0.5 by
                                 np.argmax, at an exact 0.5 the mean with the next category that has counts),
                                 for every non-empty vector of non-negative / NaN counts
   The numbers are equal up to Qeq ([vagrees]): np.mean of two values is (a + (b + 0)) / 2. *)
From Coq Require Import QArith ZArith List Bool Lia Arith String ZifyBool Setoid Morphisms Sorted Permutation.
From CC Require Import Base.XQ Base.ListX Base.VecExp Model.Scale Proofs.ScaleMedianProofs
     Proofs.GenAgreeVecTac Proofs.GenAgreeScaleTac Proofs.GenAgreeScaleMean Gen.ScaleSrc.
Import ListNotations.
Local Close Scope Q_scope.
Local Open Scope string_scope.
Local Open Scope nat_scope.

(* a count of a comparable-counts block: a non-negative number, or NaN (a difference subtotal) *)
Definition nonneg_count (c : xq) : Prop :=
  match c with NaN => True | Fin q => (0 <= q)%Q | Inf _ => False end.

(* a numeric value of a category: a finite number, or NaN (no value) *)
Definition finite_or_nan (v : xq) : Prop := match v with Inf _ => False | _ => True end.

(* ------------------------------------------------------------------------------------ *)
(** * each numpy step on finite lists is the model's step on rationals *)

Lemma nan_to_num_list cs : Forall nonneg_count cs ->
  v_nan_to_num (VV cs) = VV (map Fin (map nan_to_num cs)).
Proof.
  intros H. unfold v_nan_to_num.
  assert (E : opt_all (map nan0 cs) = Some (map Fin (map nan_to_num cs))).
  { induction H as [|c cs Hc H IH]; [reflexivity|]. simpl. rewrite IH.
    destruct c as [q|s|]; simpl in *; [reflexivity|contradiction|reflexivity]. }
  rewrite E. reflexivity.
Qed.

Lemma cumsum_x_fin a l : cumsum_x (Fin a) (map Fin l) = map Fin (cumsum_from a l).
Proof.
  revert a. induction l as [|c l IH]; intros a; [reflexivity|].
  change (Fin (a + c) :: cumsum_x (Fin (a + c)) (map Fin l) = Fin (a + c) :: map Fin (cumsum_from (a + c) l)).
  rewrite IH. reflexivity.
Qed.

Lemma v_cumsum_fin l : v_cumsum (VV (map Fin l)) = VV (map Fin (cumsum l)).
Proof. unfold v_cumsum, cumsum. rewrite cumsum_x_fin. reflexivity. Qed.

Lemma zidx_nat n k : k < n -> zidx n (Z.of_nat k) = Some k.
Proof.
  intros H. unfold zidx.
  replace (0 <=? Z.of_nat k)%Z with true by lia. replace (Z.of_nat k <? Z.of_nat n)%Z with true by lia.
  rewrite Nat2Z.id. reflexivity.
Qed.
Lemma zidx_last n : n <> 0 -> zidx n (-1) = Some (n - 1).
Proof.
  intros H. unfold zidx. replace (0 <=? -1)%Z with false by lia.
  replace (- Z.of_nat n <=? -1)%Z with true by lia. f_equal. lia.
Qed.

Lemma vnth_map_fin (l : list Q) i : i < List.length l -> vnth (map Fin l) i = Fin (nth i l 0%Q).
Proof.
  intros H. unfold vnth. rewrite (nth_indep _ NaN (Fin 0%Q)) by (rewrite map_length; exact H).
  apply (map_nth Fin).
Qed.

Lemma last_nth (l : list Q) d : l <> [] -> last l d = nth (List.length l - 1) l d.
Proof.
  induction l as [|a l IH]; intros H; [congruence|]. destruct l as [|b l]; [reflexivity|].
  change (last (b :: l) d = nth (List.length (b :: l)) (a :: b :: l) d). rewrite IH by discriminate.
  simpl. rewrite Nat.sub_0_r. reflexivity.
Qed.

(* x[-1] of a non-empty array of finite numbers *)
Lemma v_item_last (l : list Q) : List.length l <> 0 ->
  v_item (VV (map Fin l)) (VZ (-1)) = VS (Fin (last l 0%Q)).
Proof.
  intros H. unfold v_item. rewrite map_length, (zidx_last _ H).
  rewrite vnth_map_fin by lia. rewrite last_nth by (destruct l; [simpl in H; lia|discriminate]). reflexivity.
Qed.
Lemma v_item_nat (l : list Q) k : k < List.length l ->
  v_item (VV (map Fin l)) (VZ (Z.of_nat k)) = VS (Fin (nth k l 0%Q)).
Proof. intros H. unfold v_item. rewrite map_length, (zidx_nat _ _ H). rewrite vnth_map_fin by exact H. reflexivity. Qed.

Lemma v_eq_zero t : v_cmp CEq (VS (Fin t)) (VZ 0) = VB (Qeq_bool t 0).
Proof. reflexivity. Qed.
Lemma v_eq_half p : v_cmp CEq (VS (Fin p)) (VS (Fin (1 # 2))) = VB (Qeq_bool p (1 # 2)).
Proof. reflexivity. Qed.

Lemma v_div_fin (l : list Q) t : Qeq_bool t 0 = false ->
  v_bin ODiv (VV (map Fin l)) (VS (Fin t)) = VV (map Fin (map (fun c => c / t)%Q l)).
Proof.
  intros H. unfold v_bin, as_scalar. rewrite !map_map. f_equal. apply map_ext. intros c.
  unfold op_x, xdiv, qzero. rewrite H. reflexivity.
Qed.

Lemma Qle_bool_half p : negb (xltb (Fin p) (Fin (1 # 2))) = Qle_bool (1 # 2) p.
Proof.
  unfold xltb. destruct (Qlt_le_dec p (1 # 2)) as [L|L]; simpl.
  - symmetry. destruct (Qle_bool (1 # 2) p) eqn:E; [|reflexivity].
    apply Qle_bool_iff in E. exfalso. apply (Qlt_not_le _ _ L E).
  - symmetry. apply Qle_bool_iff. exact L.
Qed.
Lemma v_ge_half (l : list Q) :
  v_cmp CGe (VV (map Fin l)) (VS (Fin (1 # 2))) = VBV (map (fun p => Qle_bool (1 # 2) p) l).
Proof.
  unfold v_cmp, as_scalar. rewrite map_map. f_equal. apply map_ext. intros p.
  unfold cmp_x, xleb. apply Qle_bool_half.
Qed.

Lemma Qpos_test c : xltb (zq 0) (Fin c) = negb (Qle_bool c 0).
Proof.
  unfold xltb, zq. change (inject_Z 0) with 0%Q. destruct (Qlt_le_dec 0 c) as [L|L]; simpl.
  - destruct (Qle_bool c 0) eqn:E; [|reflexivity]. apply Qle_bool_iff in E. exfalso. apply (Qlt_not_le _ _ L E).
  - assert (E : Qle_bool c 0 = true) by (apply Qle_bool_iff; exact L). rewrite E. reflexivity.
Qed.
Lemma v_gt_zero (l : list Q) :
  v_cmp CGt (VV (map Fin l)) (VZ 0) = VBV (map (fun c => negb (Qle_bool c 0)) l).
Proof.
  unfold v_cmp, as_scalar. rewrite map_map. f_equal. apply map_ext. intros c. unfold cmp_x. apply Qpos_test.
Qed.

Lemma first_true_v_eq l : first_true_v l = first_true l.
Proof. induction l as [|[|] l IH]; simpl; auto. Qed.
Lemma argmax_v_eq l : argmax_v l = argmax_bool l.
Proof. unfold argmax_v, argmax_bool. rewrite first_true_v_eq. reflexivity. Qed.
Lemma v_argmax_bool l : List.length l <> 0 -> v_argmax (VBV l) = VZ (Z.of_nat (argmax_bool l)).
Proof.
  intros H. unfold v_argmax. apply Nat.eqb_neq in H. rewrite H. rewrite argmax_v_eq. reflexivity.
Qed.
Lemma argmax_bool_lt l : List.length l <> 0 -> argmax_bool l < List.length l.
Proof. intros H. unfold argmax_bool. destruct (first_true l <? List.length l) eqn:E; [apply Nat.ltb_lt; exact E|lia]. Qed.

Lemma v_from_fin (l : list Q) k :
  v_from (VV (map Fin l)) (VZ (Z.of_nat k + 1)) = VV (map Fin (skipn (S k) l)).
Proof.
  unfold v_from. replace (0 <=? Z.of_nat k + 1)%Z with true by lia.
  replace (Z.to_nat (Z.of_nat k + 1)) with (S k) by lia. rewrite skipn_map. reflexivity.
Qed.

(* ------------------------------------------------------------------------------------ *)
(** * at an exact 50 % point a later category has counts (so `next_idx` is in range) *)

Lemma qsum_app a b : (qsum (a ++ b) == qsum a + qsum b)%Q.
Proof. induction a as [|x a IH]; simpl; [ring|]. rewrite IH. ring. Qed.

Lemma qsum_nonneg l : Forall (fun c => 0 <= c)%Q l -> (0 <= qsum l)%Q.
Proof.
  induction 1 as [|c l Hc H IH]; simpl; [apply Qle_refl|].
  apply (Qle_trans _ (0 + 0)); [rewrite Qplus_0_l; apply Qle_refl|apply Qplus_le_compat; assumption].
Qed.

Lemma qsum_pos_exists l : Forall (fun c => 0 <= c)%Q l -> ~ (qsum l == 0)%Q ->
  existsb (fun b : bool => b) (map (fun c => negb (Qle_bool c 0%Q)) l) = true.
Proof.
  induction 1 as [|c l Hc H IH]; intros Hs; simpl in *; [exfalso; apply Hs; reflexivity|].
  destruct (Qle_bool c 0%Q) eqn:E; simpl; [|reflexivity].
  apply IH. intros E0. apply Hs. apply Qle_bool_iff in E.
  assert (Ec : (c == 0)%Q) by (apply Qle_antisym; assumption). rewrite Ec, E0. ring.
Qed.

Lemma nonneg_num cs : Forall nonneg_count cs -> Forall (fun c => 0 <= c)%Q (map nan_to_num cs).
Proof.
  induction 1 as [|c cs Hc H IH]; constructor; [|exact IH].
  destruct c as [q|s|]; simpl in *; [exact Hc|contradiction|apply Qle_refl].
Qed.

Lemma Forall_skipn {A} (P : A -> Prop) k l : Forall P l -> Forall P (skipn k l).
Proof.
  revert l. induction k as [|k IH]; intros l H; [exact H|]. destruct l as [|a l]; [constructor|].
  inversion H; subst. apply IH. assumption.
Qed.

Lemma half_tail (l : list Q) idx :
  Forall (fun c => 0 <= c)%Q l -> idx < List.length l ->
  Qeq_bool (last (cumsum l) 0%Q) 0%Q = false ->
  Qeq_bool (nth idx (map (fun c => c / last (cumsum l) 0)%Q (cumsum l)) 0%Q) (1 # 2) = true ->
  existsb (fun b : bool => b) (map (fun c => negb (Qle_bool c 0%Q)) (skipn (S idx) l)) = true.
Proof.
  intros Hnn Hidx Ht Hh. apply qsum_pos_exists; [apply Forall_skipn; exact Hnn|].
  assert (Et : (last (cumsum l) 0 == qsum l)%Q).
  { unfold cumsum. rewrite cumsum_from_last. ring. }
  assert (Ht' : ~ (qsum l == 0)%Q).
  { intros E. rewrite <- Et in E. apply Qeq_bool_iff in E. congruence. }
  apply Qeq_bool_iff in Hh.
  rewrite (nth_map_lt (fun c => c / last (cumsum l) 0)%Q _ idx 0%Q 0%Q) in Hh
    by (unfold cumsum; rewrite cumsum_from_length; exact Hidx).
  unfold cumsum in Hh at 1. rewrite cumsum_from_nth in Hh by exact Hidx. rewrite Et in Hh.
  assert (Es : (qsum l == qsum (firstn (S idx) l) + qsum (skipn (S idx) l))%Q).
  { rewrite <- qsum_app, firstn_skipn. reflexivity. }
  intros E0. apply Ht'.
  assert (Ef : (qsum (firstn (S idx) l) == qsum l)%Q) by (rewrite Es, E0; ring).
  rewrite Ef in Hh. rewrite Qplus_0_l in Hh.
  assert (E1 : (qsum l / qsum l == 1)%Q) by (field; exact Ht').
  rewrite E1 in Hh. discriminate Hh.
Qed.

(* ------------------------------------------------------------------------------------ *)
(** * _ScaleMedian *)

Lemma gen_ScaleMedian_is_defined :
  match vsrc_ScaleMedian_is_defined with
  | Some e => forall (rows : bool) rvals cvals rest srt,
      veval (env_scale (orient_name rows) (dims_attrs rvals cvals ++ rest) no_var srt) e
      = VB (any_value (if rows then cvals else rvals))
  | None => True
  end.
Proof.
  unfold_vsrcs; try exact I.
  all: intros [|] rvals cvals rest srt; scale_env; veval_simp;
    rewrite all_isnan_any_value, negb_involutive; reflexivity.
Qed.

Lemma v_mean_two a b : v_mean (VV [Fin a; Fin b]) = VS (xdiv (xsum [Fin a; Fin b]) (zq 2)).
Proof. reflexivity. Qed.

Lemma gen_ScaleMedian__weighted_median :
  match vsrc_ScaleMedian__weighted_median with
  | Some e => forall cs (vs : list Q) srt,
      List.length cs = List.length vs -> List.length cs <> 0 -> Forall nonneg_count cs ->
      vagrees (veval (mkVenv (var2 "sorted_counts" (VV cs) "sorted_values" (VV (map Fin vs)))
                             no_var no_get no_call srt) e)
              (VS (weighted_median cs vs))
  | None => True
  end.
Proof.
  unfold_vsrcs; try exact I.
  all: intros cs vs srt Hlen Hne Hnn.
  all: vstage1.
  all: unfold weighted_median.
  all: rewrite (nan_to_num_list cs Hnn).
  all: set (csq := map nan_to_num cs) in *.
  all: assert (Hcl : List.length csq = List.length cs) by (unfold csq; apply map_length).
  all: rewrite !v_cumsum_fin.
  all: assert (Hcum : List.length (cumsum csq) = List.length cs)
         by (unfold cumsum; rewrite cumsum_from_length; exact Hcl).
  all: rewrite !v_item_last by lia.
  all: set (t := last (cumsum csq) 0%Q) in *.
  all: rewrite !v_eq_zero.
  all: destruct (Qeq_bool t 0%Q) eqn:Ht; [rewrite v_if_true; exact I|].
  all: rewrite v_if_false.
  all: rewrite !v_div_fin by exact Ht.
  all: set (props := map (fun c => (c / t)%Q) (cumsum csq)) in *.
  all: assert (Hpl : List.length props = List.length cs) by (unfold props; rewrite map_length; exact Hcum).
  all: rewrite !v_ge_half.
  all: rewrite !v_argmax_bool by (rewrite map_length; lia).
  all: set (idx := argmax_bool (map (fun p => Qle_bool (1 # 2) p) props)) in *.
  all: assert (Hidx : idx < List.length cs)
         by (rewrite <- Hpl; unfold idx; rewrite <- (map_length (fun p => Qle_bool (1 # 2) p) props);
             apply argmax_bool_lt; rewrite map_length; lia).
  all: rewrite !(v_item_nat props idx) by lia.
  all: rewrite v_eq_half.
  all: destruct (Qeq_bool (nth idx props 0%Q) (1 # 2)) eqn:Hh.
  all: [> rewrite v_if_true | rewrite v_if_false; rewrite (v_item_nat vs idx) by lia; reflexivity ].
  all: assert (Hex : existsb (fun b : bool => b) (map (fun c => negb (Qle_bool c 0%Q)) (skipn (S idx) csq)) = true)
         by (apply half_tail; [apply nonneg_num; exact Hnn|lia|exact Ht|exact Hh]).
  all: destruct (first_true_props _ Hex) as [Hft _].
  all: change (v_bin OAdd (VZ (Z.of_nat idx)) (VZ 1)) with (VZ (Z.of_nat idx + 1)).
  all: rewrite !v_from_fin, !v_gt_zero.
  all: rewrite !v_argmax_bool by (intros E; rewrite E in Hft; lia).
  all: set (bs := map (fun c => negb (Qle_bool c 0%Q)) (skipn (S idx) csq)) in *.
  all: assert (Hj : argmax_bool bs = first_true bs)
         by (unfold argmax_bool; apply Nat.ltb_lt in Hft; rewrite Hft; reflexivity).
  all: assert (Hnx : S idx + argmax_bool bs < List.length vs)
         by (rewrite Hj; assert (Hb : List.length bs = List.length csq - S idx) by (unfold bs; rewrite map_length, skipn_length; reflexivity); lia).
  all: replace (v_bin OAdd (VZ (Z.of_nat idx + 1)) (VZ (Z.of_nat (argmax_bool bs))))
         with (VZ (Z.of_nat (S idx + argmax_bool bs))) by (cbn; f_equal; lia).
  all: unfold v_item, v_cons.
  all: rewrite map_length, (zidx_nat _ idx) by lia.
  all: rewrite (zidx_nat _ (S idx + argmax_bool bs)) by lia.
  all: rewrite !vnth_map_fin by lia.
  all: rewrite v_mean_two.
  all: cbn [vagrees xsum fold_right xadd].
  all: unfold zq, xdiv, qzero; cbn [Qeq_bool]; simpl; field.
Qed.

(* ------------------------------------------------------------------------------------ *)
(** * _values_sort_order / _sorted_values / _sorted_counts *)

(* what is assumed of numpy's `values.argsort()`: a permutation of the positions in which the non-NaN keys
   appear in ascending order (where the NaNs and equal keys land is left open) *)
Definition argsort_ok (vals : list xq) (o : list nat) : Prop :=
  NoDup o /\ List.length o = List.length vals /\ (forall i, In i o -> i < List.length vals) /\
  ascending (map (fun i => nan_to_num (vnth vals i))
                 (filter (fun i => negb (is_nan (vnth vals i))) o)) = true.

Lemma mem_nat_In x l : mem_nat x l = true <-> In x l.
Proof.
  induction l as [|y t IH]; simpl; [split; [discriminate|contradiction]|].
  rewrite orb_true_iff, Nat.eqb_eq, IH. split; intros [H|H]; auto.
Qed.
Lemma NoDup_nodup_nat l : NoDup l -> nodup_nat l = true.
Proof.
  induction 1 as [|x t Hx H IH]; [reflexivity|]. simpl. rewrite IH, andb_true_r.
  apply negb_true_iff. destruct (mem_nat x t) eqn:E; [|reflexivity]. apply mem_nat_In in E. contradiction.
Qed.

Lemma mem_n_In x l : mem_n x l = true <-> In x l.
Proof.
  induction l as [|y t IH]; simpl; [split; [discriminate|contradiction]|].
  rewrite orb_true_iff, Nat.eqb_eq, IH. split; intros [H|H]; auto.
Qed.

Lemma where_true_In (m : list bool) i : In i (where_true m) <-> i < List.length m /\ nth i m false = true.
Proof.
  unfold where_true. rewrite in_map_iff. split.
  - intros [[j b] [E Hin]]. simpl in E. subst j. apply filter_In in Hin. destruct Hin as [Hin Hb]. simpl in Hb. subst b.
    assert (Hl : i < List.length m).
    { apply in_combine_l in Hin. apply in_seq in Hin. lia. }
    split; [exact Hl|].
    pose proof (In_nth _ _ (0, false) Hin) as [k [Hk Ek]].
    rewrite combine_length, seq_length, Nat.min_id in Hk. rewrite combine_nth in Ek by (rewrite seq_length; reflexivity).
    rewrite seq_nth in Ek by exact Hk. simpl in Ek. inversion Ek; subst. congruence.
  - intros [Hl Hb]. exists (i, true). split; [reflexivity|]. apply filter_In. split; [|reflexivity].
    assert (E : nth i (combine (seq 0 (List.length m)) m) (0, false) = (i, true)).
    { rewrite combine_nth by (rewrite seq_length; reflexivity). rewrite seq_nth by exact Hl. rewrite Hb. reflexivity. }
    rewrite <- E. apply nth_In. rewrite combine_length, seq_length, Nat.min_id. exact Hl.
Qed.

Lemma setdiff_nan_filter vals o : (forall i, In i o -> i < List.length vals) ->
  setdiff_keep o (where_true (map is_nan vals)) = filter (fun i => negb (is_nan (vnth vals i))) o.
Proof.
  intros Hr. unfold setdiff_keep. apply filter_ext_in. intros i Hi. f_equal.
  specialize (Hr i Hi).
  destruct (mem_n i (where_true (map is_nan vals))) eqn:E.
  - apply mem_n_In in E. apply where_true_In in E. destruct E as [_ E].
    rewrite (nth_indep _ false (is_nan NaN)) in E by (rewrite map_length; exact Hr).
    rewrite (map_nth is_nan) in E. symmetry. exact E.
  - destruct (is_nan (vnth vals i)) eqn:En; [|reflexivity]. exfalso.
    assert (Hin : In i (where_true (map is_nan vals))).
    { apply where_true_In. rewrite map_length. split; [exact Hr|].
      rewrite (nth_indep _ false (is_nan NaN)) by (rewrite map_length; exact Hr).
      rewrite (map_nth is_nan). exact En. }
    apply mem_n_In in Hin. congruence.
Qed.

Lemma argsort_valid_order vals o : argsort_ok vals o ->
  valid_order vals (filter (fun i => negb (is_nan (vnth vals i))) o) = true.
Proof.
  intros [Hnd [Hlen [Hr Hasc]]]. unfold valid_order.
  assert (Hperm : Permutation o (seq 0 (List.length vals))).
  { apply NoDup_Permutation_bis; [exact Hnd|rewrite seq_length; lia|].
    intros i Hi. apply in_seq. specialize (Hr i Hi). lia. }
  rewrite Hasc, andb_true_r. repeat (apply andb_true_intro; split).
  - apply NoDup_nodup_nat. apply NoDup_filter. exact Hnd.
  - apply Nat.eqb_eq. unfold valued_idxs. apply Permutation_length.
    clear -Hperm. induction Hperm; simpl.
    + constructor.
    + destruct (negb (is_nan (vnth vals x))); [constructor|]; assumption.
    + destruct (negb (is_nan (vnth vals x))), (negb (is_nan (vnth vals y))); try constructor; apply Permutation_refl.
    + eapply Permutation_trans; eassumption.
  - apply forallb_forall. intros i Hi. apply filter_In in Hi. destruct Hi as [Hi Hv]. rewrite Hv, andb_true_r.
    apply Nat.ltb_lt. apply Hr. exact Hi.
Qed.

Lemma gen_ScaleMedian__values_sort_order :
  match vsrc_ScaleMedian__values_sort_order with
  | Some e => forall (rows : bool) rvals cvals rest srt,
      argsort_ok (if rows then cvals else rvals) (srt (if rows then cvals else rvals)) ->
      exists ord,
        veval (env_scale (orient_name rows) (dims_attrs rvals cvals ++ rest) no_var srt) e = VIV ord
        /\ valid_order (if rows then cvals else rvals) ord = true
        /\ ord = filter (fun i => negb (is_nan (vnth (if rows then cvals else rvals) i)))
                        (srt (if rows then cvals else rvals))
  | None => True
  end.
Proof.
  unfold_vsrcs; try exact I.
  all: intros [|] rvals cvals rest srt Hok; eexists; (split; [scale_env; veval_simp; reflexivity|]);
    destruct Hok as [Hnd [Hlen [Hr Hasc]]]; rewrite (setdiff_nan_filter _ _ Hr);
    (split; [apply argsort_valid_order; repeat split; assumption|reflexivity]).
Qed.

Lemma gen_ScaleMedian__sorted_values :
  match vsrc_ScaleMedian__sorted_values with
  | Some e => forall (rows : bool) rvals cvals rest srt,
      argsort_ok (if rows then cvals else rvals) (srt (if rows then cvals else rvals)) ->
      veval (env_scale (orient_name rows) (dims_attrs rvals cvals ++ rest) no_var srt) e
      = VV (map (vnth (if rows then cvals else rvals))
                (filter (fun i => negb (is_nan (vnth (if rows then cvals else rvals) i)))
                        (srt (if rows then cvals else rvals))))
  | None => True
  end.
Proof.
  unfold_vsrcs; try exact I.
  all: intros [|] rvals cvals rest srt [Hnd [Hlen [Hr Hasc]]]; scale_env; veval_simp;
    rewrite (setdiff_nan_filter _ _ Hr);
    (match goal with |- (if ?b then _ else _) = _ => replace b with true end;
     [reflexivity|
      symmetry; apply forallb_forall; intros i Hi; apply filter_In in Hi; apply Nat.ltb_lt; apply Hr; apply Hi]).
Qed.

Definition med_attrs_rows nc C0 C1 : list (string * vval) :=
  [("_second_order_measures.column_comparable_counts.blocks[0][0]", VM nc C0);
   ("_second_order_measures.column_comparable_counts.blocks[1][0]", VM nc C1)].
Definition med_attrs_cols nc ncs C0 C1 : list (string * vval) :=
  [("_second_order_measures.row_comparable_counts.blocks[0][0]", VM nc C0);
   ("_second_order_measures.row_comparable_counts.blocks[0][1]", VM ncs C1)].

Definition sort_order (vals : list xq) (srt : list xq -> list nat) : list nat :=
  filter (fun i => negb (is_nan (vnth vals i))) (srt vals).

Lemma sort_order_lt vals srt n : argsort_ok vals (srt vals) -> List.length vals = n ->
  all_lt n (sort_order vals srt) = true.
Proof.
  intros [_ [_ [Hr _]]] Hn. unfold all_lt, sort_order. apply forallb_forall. intros i Hi.
  apply filter_In in Hi. apply Nat.ltb_lt. rewrite <- Hn. apply Hr. apply Hi.
Qed.

(* count.take(order, axis): ROWS take the valued COLUMNS of every row in value order (axis 1), COLUMNS take
   the valued ROWS (axis 0) *)
Lemma gen_ScaleMedian__sorted_counts_rows :
  match vsrc_ScaleMedian__sorted_counts with
  | Some e => forall nc C0 C1 rvals cvals srt,
      argsort_ok cvals (srt cvals) -> List.length cvals = nc ->
      veval (env_scale "MO.ROWS" (dims_attrs rvals cvals ++ med_attrs_rows nc C0 C1) no_var srt) e
      = VL [VM (List.length (sort_order cvals srt)) (map (fun r => map (vnth r) (sort_order cvals srt)) C0);
            VM (List.length (sort_order cvals srt)) (map (fun r => map (vnth r) (sort_order cvals srt)) C1)]
  | None => True
  end.
Proof.
  unfold_vsrcs; try exact I.
  all: intros nc C0 C1 rvals cvals srt Hok Hn.
  all: pose proof (sort_order_lt cvals srt nc Hok Hn) as Hlt.
  all: destruct Hok as [Hnd [Hlen [Hr Hasc]]].
  all: unfold med_attrs_rows; scale_env; veval_simp.
  all: rewrite (setdiff_nan_filter _ _ Hr).
  all: fold (sort_order cvals srt); rewrite Hlt.
  all: reflexivity.
Qed.

Lemma gen_ScaleMedian__sorted_counts_columns :
  match vsrc_ScaleMedian__sorted_counts with
  | Some e => forall nr nc ncs C0 C1 rvals cvals srt,
      argsort_ok rvals (srt rvals) -> List.length rvals = nr ->
      List.length C0 = nr -> List.length C1 = nr ->
      veval (env_scale "MO.COLUMNS" (dims_attrs rvals cvals ++ med_attrs_cols nc ncs C0 C1) no_var srt) e
      = VL [VM nc (map (fun i => nth i C0 []) (sort_order rvals srt));
            VM ncs (map (fun i => nth i C1 []) (sort_order rvals srt))]
  | None => True
  end.
Proof.
  unfold_vsrcs; try exact I.
  all: intros nr nc ncs C0 C1 rvals cvals srt Hok Hn H0 H1.
  all: pose proof (sort_order_lt rvals srt nr Hok Hn) as Hlt.
  all: destruct Hok as [Hnd [Hlen [Hr Hasc]]].
  all: unfold med_attrs_cols; scale_env; veval_simp.
  all: rewrite (setdiff_nan_filter _ _ Hr).
  all: fold (sort_order rvals srt); rewrite H0, H1, Hlt.
  all: reflexivity.
Qed.
