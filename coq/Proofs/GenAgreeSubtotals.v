(* Proofs/GenAgreeSubtotals.v -- GenAgree for C04: what the source SAYS NOW for the subtotal
   strategies
     matrix/subtotals.py  _BaseSubtotals (block assembly: np.hstack of the reshaped columns, np.vstack
                          of the rows, the reshaped grid of intersections, the (n, 0) / (0, n) empty cases),
                          SumSubtotals (_subtotal_column, _subtotal_row, _intersection with
                          diff_cols_nan / diff_rows_nan, blocks / intersections / subtotal_columns /
                          subtotal_rows), NanSubtotals, OverlapSubtotals._subtotal_rows
     stripe/insertion.py  SumSubtotals, NanSubtotals
   denotes the definitions of Model/Subtotals.v ([subcol_cell], [subrow_cell], [inter_cell],
   [sum_blocks], [nan_blocks], [stripe_sum_subtotal]) -- for ALL base matrices, sizes, flags and
   subtotal lists whose offsets are in range -- and, for the public classmethods, the meaning
   [strat_std] / [vstrat_std] (Proofs/GenAgreeMeasTac.v) the SECOND translator's environments give
   to a recorded strategy call.  PositiveTerm / NegativeTerm: GenAgreeSubtotalsTerms.v (C11);
   WaveDiffSubtotal(s): GenAgreeSubtotalsWave.v (C03).  See GenAgreeSubTac.v.
   GENERATED (statements and proof scripts) by work/translator3/gen_lemmas.py. *)
From Coq Require Import QArith ZArith List Bool Lia Arith String.
From CC Require Import Base.XQ Base.ListX Base.SubtotalExp Base.MeasureExp
     Model.Subtotals Model.Proportions Model.Variance
     Gen.SubtotalsSrc Gen.StripeInsertionSrc Proofs.GenAgreeMeasTac Proofs.GenAgreeSubTac.
Import ListNotations.
Local Close Scope Q_scope.
Local Open Scope string_scope.
Local Open Scope nat_scope.

Lemma gen_SumSubtotals__subtotal_column :
  match src_SumSubtotals__subtotal_column with
  | Some e => forall base nr nc dcn drn rsubs csubs s,
      sub_in nc s ->
      sagrees_vec (seval (senv_sum base nr nc dcn drn rsubs csubs s s) e) nr (subcol_cell base dcn s)
  | None => True
  end.
Proof. gen_sub_with ltac:(unfold subcol_cell, sum_cols). Qed.

Lemma gen_SumSubtotals__subtotal_row :
  match src_SumSubtotals__subtotal_row with
  | Some e => forall base nr nc dcn drn rsubs csubs s,
      sub_in nr s ->
      sagrees_vec (seval (senv_sum base nr nc dcn drn rsubs csubs s s) e) nc (subrow_cell base drn s)
  | None => True
  end.
Proof. gen_sub_with ltac:(unfold subrow_cell, sum_rows). Qed.

Lemma gen_SumSubtotals__intersection :
  match src_SumSubtotals__intersection with
  | Some e => forall base nr nc dcn drn rsubs csubs rs cs,
      sub_in nr rs ->
      sub_in nc cs ->
      sagrees_scal (seval (senv_sum base nr nc dcn drn rsubs csubs rs cs) e) (inter_cell base dcn drn rs cs)
  | None => True
  end.
Proof. gen_sub_with ltac:(unfold inter_cell, subrow_cell, sum_rows). Qed.

Lemma gen_SumSubtotals__subtotal_columns :
  match src_SumSubtotals__subtotal_columns with
  | Some e => forall base nr nc dcn drn rsubs csubs,
      subs_in nc csubs ->
      sagrees_mat (seval (senv_sum base nr nc dcn drn rsubs csubs nosub nosub) e) nr (List.length csubs) (mnth (b_cols (sum_blocks base nr nc rsubs csubs dcn drn)))
  | None => True
  end.
Proof. sub_open; sub_cols (fun k : nat => subcol_cell base dcn (nth k csubs nosub)) ltac:(cbv [sum_blocks b_cols]) ltac:(unfold subcol_cell, sum_cols). Qed.

Lemma gen_SumSubtotals__subtotal_rows :
  match src_SumSubtotals__subtotal_rows with
  | Some e => forall base nr nc dcn drn rsubs csubs,
      subs_in nr rsubs ->
      sagrees_mat (seval (senv_sum base nr nc dcn drn rsubs csubs nosub nosub) e) (List.length rsubs) nc (mnth (b_rows (sum_blocks base nr nc rsubs csubs dcn drn)))
  | None => True
  end.
Proof. sub_open; sub_rows (fun k : nat => subrow_cell base drn (nth k rsubs nosub)) ltac:(cbv [sum_blocks b_rows]) ltac:(unfold subrow_cell, sum_rows). Qed.

Lemma gen_SumSubtotals__intersections :
  match src_SumSubtotals__intersections with
  | Some e => forall base nr nc dcn drn rsubs csubs,
      subs_in nr rsubs ->
      subs_in nc csubs ->
      sagrees_mat (seval (senv_sum base nr nc dcn drn rsubs csubs nosub nosub) e) (List.length rsubs) (List.length csubs) (mnth (b_inter (sum_blocks base nr nc rsubs csubs dcn drn)))
  | None => True
  end.
Proof. sub_open; sub_grid (fun k l : nat => inter_cell base dcn drn (nth k rsubs nosub) (nth l csubs nosub)) ltac:(cbv [sum_blocks b_inter]) ltac:(unfold inter_cell, subrow_cell, sum_rows). Qed.

Lemma gen_SumSubtotals__blocks_00 :
  match src_SumSubtotals__blocks_00 with
  | Some e => forall base nr nc dcn drn rsubs csubs,
      sagrees_mat (seval (senv_sum base nr nc dcn drn rsubs csubs nosub nosub) e) nr nc (mnth (b_base (sum_blocks base nr nc rsubs csubs dcn drn)))
  | None => True
  end.
Proof. sub_open; (sub_eval; split; [reflexivity|split; [reflexivity|intros; cbv [sum_blocks b_base]; rewrite ?tab2_mnth by assumption; reflexivity]]). Qed.

Lemma gen_SumSubtotals__blocks_01 :
  match src_SumSubtotals__blocks_01 with
  | Some e => forall base nr nc dcn drn rsubs csubs,
      subs_in nc csubs ->
      sagrees_mat (seval (senv_sum base nr nc dcn drn rsubs csubs nosub nosub) e) nr (List.length csubs) (mnth (b_cols (sum_blocks base nr nc rsubs csubs dcn drn)))
  | None => True
  end.
Proof. sub_open; first [sub_reuse gen_SumSubtotals__subtotal_columns | sub_cols (fun k : nat => subcol_cell base dcn (nth k csubs nosub)) ltac:(cbv [sum_blocks b_cols]) ltac:(unfold subcol_cell, sum_cols)]. Qed.

Lemma gen_SumSubtotals__blocks_10 :
  match src_SumSubtotals__blocks_10 with
  | Some e => forall base nr nc dcn drn rsubs csubs,
      subs_in nr rsubs ->
      sagrees_mat (seval (senv_sum base nr nc dcn drn rsubs csubs nosub nosub) e) (List.length rsubs) nc (mnth (b_rows (sum_blocks base nr nc rsubs csubs dcn drn)))
  | None => True
  end.
Proof. sub_open; first [sub_reuse gen_SumSubtotals__subtotal_rows | sub_rows (fun k : nat => subrow_cell base drn (nth k rsubs nosub)) ltac:(cbv [sum_blocks b_rows]) ltac:(unfold subrow_cell, sum_rows)]. Qed.

Lemma gen_SumSubtotals__blocks_11 :
  match src_SumSubtotals__blocks_11 with
  | Some e => forall base nr nc dcn drn rsubs csubs,
      subs_in nr rsubs ->
      subs_in nc csubs ->
      sagrees_mat (seval (senv_sum base nr nc dcn drn rsubs csubs nosub nosub) e) (List.length rsubs) (List.length csubs) (mnth (b_inter (sum_blocks base nr nc rsubs csubs dcn drn)))
  | None => True
  end.
Proof. sub_open; first [sub_reuse gen_SumSubtotals__intersections | sub_grid (fun k l : nat => inter_cell base dcn drn (nth k rsubs nosub) (nth l csubs nosub)) ltac:(cbv [sum_blocks b_inter]) ltac:(unfold inter_cell, subrow_cell, sum_rows)]. Qed.

Lemma gen_SumSubtotals_blocks_00 :
  match src_SumSubtotals_blocks_00 with
  | Some e => forall cubem nr nc dcn drn rsubs csubs c a,
      sagrees_mat (seval (senv_sum (cubem c a) nr nc dcn drn rsubs csubs nosub nosub) e) nr nc (strat_std cubem nr nc rsubs csubs 0 dcn drn c a 0 0)
  | None => True
  end.
Proof. sub_open; (sub_eval; split; [reflexivity|split; [reflexivity|intros; cbv [strat_std pick sum_blocks b_base]; rewrite ?tab2_mnth by assumption; reflexivity]]). Qed.

Lemma gen_SumSubtotals_blocks_01 :
  match src_SumSubtotals_blocks_01 with
  | Some e => forall cubem nr nc dcn drn rsubs csubs c a,
      subs_in nc csubs ->
      sagrees_mat (seval (senv_sum (cubem c a) nr nc dcn drn rsubs csubs nosub nosub) e) nr (List.length csubs) (strat_std cubem nr nc rsubs csubs 0 dcn drn c a 0 1)
  | None => True
  end.
Proof. sub_open; first [sub_reuse gen_SumSubtotals__blocks_01 | sub_cols (fun k : nat => subcol_cell (cubem c a) dcn (nth k csubs nosub)) ltac:(cbv [strat_std pick sum_blocks b_cols]) ltac:(unfold subcol_cell, sum_cols)]. Qed.

Lemma gen_SumSubtotals_blocks_10 :
  match src_SumSubtotals_blocks_10 with
  | Some e => forall cubem nr nc dcn drn rsubs csubs c a,
      subs_in nr rsubs ->
      sagrees_mat (seval (senv_sum (cubem c a) nr nc dcn drn rsubs csubs nosub nosub) e) (List.length rsubs) nc (strat_std cubem nr nc rsubs csubs 0 dcn drn c a 1 0)
  | None => True
  end.
Proof. sub_open; first [sub_reuse gen_SumSubtotals__blocks_10 | sub_rows (fun k : nat => subrow_cell (cubem c a) drn (nth k rsubs nosub)) ltac:(cbv [strat_std pick sum_blocks b_rows]) ltac:(unfold subrow_cell, sum_rows)]. Qed.

Lemma gen_SumSubtotals_blocks_11 :
  match src_SumSubtotals_blocks_11 with
  | Some e => forall cubem nr nc dcn drn rsubs csubs c a,
      subs_in nr rsubs ->
      subs_in nc csubs ->
      sagrees_mat (seval (senv_sum (cubem c a) nr nc dcn drn rsubs csubs nosub nosub) e) (List.length rsubs) (List.length csubs) (strat_std cubem nr nc rsubs csubs 0 dcn drn c a 1 1)
  | None => True
  end.
Proof. sub_open; first [sub_reuse gen_SumSubtotals__blocks_11 | sub_grid (fun k l : nat => inter_cell (cubem c a) dcn drn (nth k rsubs nosub) (nth l csubs nosub)) ltac:(cbv [strat_std pick sum_blocks b_inter]) ltac:(unfold inter_cell, subrow_cell, sum_rows)]. Qed.

Lemma gen_SumSubtotals_intersections :
  match src_SumSubtotals_intersections with
  | Some e => forall base nr nc dcn drn rsubs csubs,
      subs_in nr rsubs ->
      subs_in nc csubs ->
      sagrees_mat (seval (senv_sum base nr nc dcn drn rsubs csubs nosub nosub) e) (List.length rsubs) (List.length csubs) (mnth (b_inter (sum_blocks base nr nc rsubs csubs dcn drn)))
  | None => True
  end.
Proof. sub_open; first [sub_reuse gen_SumSubtotals__intersections | sub_grid (fun k l : nat => inter_cell base dcn drn (nth k rsubs nosub) (nth l csubs nosub)) ltac:(cbv [sum_blocks b_inter]) ltac:(unfold inter_cell, subrow_cell, sum_rows)]. Qed.

Lemma gen_SumSubtotals_subtotal_columns :
  match src_SumSubtotals_subtotal_columns with
  | Some e => forall base nr nc dcn drn rsubs csubs,
      subs_in nc csubs ->
      sagrees_mat (seval (senv_sum base nr nc dcn drn rsubs csubs nosub nosub) e) nr (List.length csubs) (mnth (b_cols (sum_blocks base nr nc rsubs csubs dcn drn)))
  | None => True
  end.
Proof. sub_open; first [sub_reuse gen_SumSubtotals__subtotal_columns | sub_cols (fun k : nat => subcol_cell base dcn (nth k csubs nosub)) ltac:(cbv [sum_blocks b_cols]) ltac:(unfold subcol_cell, sum_cols)]. Qed.

Lemma gen_SumSubtotals_subtotal_rows :
  match src_SumSubtotals_subtotal_rows with
  | Some e => forall base nr nc dcn drn rsubs csubs,
      subs_in nr rsubs ->
      sagrees_mat (seval (senv_sum base nr nc dcn drn rsubs csubs nosub nosub) e) (List.length rsubs) nc (mnth (b_rows (sum_blocks base nr nc rsubs csubs dcn drn)))
  | None => True
  end.
Proof. sub_open; first [sub_reuse gen_SumSubtotals__subtotal_rows | sub_rows (fun k : nat => subrow_cell base drn (nth k rsubs nosub)) ltac:(cbv [sum_blocks b_rows]) ltac:(unfold subrow_cell, sum_rows)]. Qed.

Lemma gen_OverlapSubtotals__subtotal_rows :
  match src_OverlapSubtotals__subtotal_rows with
  | Some e => forall base nr nc dcn drn rsubs csubs,
      0 < nr ->
      rsubs <> [] ->
      sagrees_mat (seval (senv_sum base nr nc dcn drn rsubs csubs nosub nosub) e) (List.length rsubs) nc (fun _ j => mnth base 0 j)
  | None => True
  end.
Proof. sub_open; (eapply seval_vecof_rows; [reflexivity|assumption|sub_zip|intros k Hk; sub_eval; rewrite (proj2 (Nat.ltb_lt 0 nr)) by assumption; split; [reflexivity|intros; reflexivity]]). Qed.

Lemma gen_NanSubtotals__subtotal_column :
  match src_NanSubtotals__subtotal_column with
  | Some e => forall base nr nc rsubs csubs s,
      sub_in nc s ->
      sagrees_vec (seval (senv_sum base nr nc false false rsubs csubs s s) e) nr (fun _ : nat => NaN)
  | None => True
  end.
Proof. gen_sub_with ltac:(idtac). Qed.

Lemma gen_NanSubtotals__subtotal_row :
  match src_NanSubtotals__subtotal_row with
  | Some e => forall base nr nc rsubs csubs s,
      sub_in nr s ->
      sagrees_vec (seval (senv_sum base nr nc false false rsubs csubs s s) e) nc (fun _ : nat => NaN)
  | None => True
  end.
Proof. gen_sub_with ltac:(idtac). Qed.

Lemma gen_NanSubtotals__intersection :
  match src_NanSubtotals__intersection with
  | Some e => forall base nr nc rsubs csubs rs cs,
      sub_in nr rs ->
      sub_in nc cs ->
      sagrees_scal (seval (senv_sum base nr nc false false rsubs csubs rs cs) e) (NaN)
  | None => True
  end.
Proof. gen_sub_with ltac:(idtac). Qed.

Lemma gen_NanSubtotals__subtotal_columns :
  match src_NanSubtotals__subtotal_columns with
  | Some e => forall base nr nc rsubs csubs,
      subs_in nc csubs ->
      sagrees_mat (seval (senv_sum base nr nc false false rsubs csubs nosub nosub) e) nr (List.length csubs) (mnth (b_cols (nan_blocks base nr nc rsubs csubs)))
  | None => True
  end.
Proof. sub_open; sub_cols (fun k : nat => fun _ : nat => NaN) ltac:(cbv [nan_blocks b_cols]) ltac:(idtac). Qed.

Lemma gen_NanSubtotals__subtotal_rows :
  match src_NanSubtotals__subtotal_rows with
  | Some e => forall base nr nc rsubs csubs,
      subs_in nr rsubs ->
      sagrees_mat (seval (senv_sum base nr nc false false rsubs csubs nosub nosub) e) (List.length rsubs) nc (mnth (b_rows (nan_blocks base nr nc rsubs csubs)))
  | None => True
  end.
Proof. sub_open; sub_rows (fun k : nat => fun _ : nat => NaN) ltac:(cbv [nan_blocks b_rows]) ltac:(idtac). Qed.

Lemma gen_NanSubtotals__intersections :
  match src_NanSubtotals__intersections with
  | Some e => forall base nr nc rsubs csubs,
      subs_in nr rsubs ->
      subs_in nc csubs ->
      sagrees_mat (seval (senv_sum base nr nc false false rsubs csubs nosub nosub) e) (List.length rsubs) (List.length csubs) (mnth (b_inter (nan_blocks base nr nc rsubs csubs)))
  | None => True
  end.
Proof. sub_open; sub_grid (fun k l : nat => NaN) ltac:(cbv [nan_blocks b_inter]) ltac:(idtac). Qed.

Lemma gen_NanSubtotals__blocks_00 :
  match src_NanSubtotals__blocks_00 with
  | Some e => forall base nr nc rsubs csubs,
      sagrees_mat (seval (senv_sum base nr nc false false rsubs csubs nosub nosub) e) nr nc (mnth (b_base (nan_blocks base nr nc rsubs csubs)))
  | None => True
  end.
Proof. sub_open; (sub_eval; split; [reflexivity|split; [reflexivity|intros; cbv [nan_blocks b_base]; rewrite ?tab2_mnth by assumption; reflexivity]]). Qed.

Lemma gen_NanSubtotals__blocks_01 :
  match src_NanSubtotals__blocks_01 with
  | Some e => forall base nr nc rsubs csubs,
      subs_in nc csubs ->
      sagrees_mat (seval (senv_sum base nr nc false false rsubs csubs nosub nosub) e) nr (List.length csubs) (mnth (b_cols (nan_blocks base nr nc rsubs csubs)))
  | None => True
  end.
Proof. sub_open; first [sub_reuse gen_NanSubtotals__subtotal_columns | sub_cols (fun k : nat => fun _ : nat => NaN) ltac:(cbv [nan_blocks b_cols]) ltac:(idtac)]. Qed.

Lemma gen_NanSubtotals__blocks_10 :
  match src_NanSubtotals__blocks_10 with
  | Some e => forall base nr nc rsubs csubs,
      subs_in nr rsubs ->
      sagrees_mat (seval (senv_sum base nr nc false false rsubs csubs nosub nosub) e) (List.length rsubs) nc (mnth (b_rows (nan_blocks base nr nc rsubs csubs)))
  | None => True
  end.
Proof. sub_open; first [sub_reuse gen_NanSubtotals__subtotal_rows | sub_rows (fun k : nat => fun _ : nat => NaN) ltac:(cbv [nan_blocks b_rows]) ltac:(idtac)]. Qed.

Lemma gen_NanSubtotals__blocks_11 :
  match src_NanSubtotals__blocks_11 with
  | Some e => forall base nr nc rsubs csubs,
      subs_in nr rsubs ->
      subs_in nc csubs ->
      sagrees_mat (seval (senv_sum base nr nc false false rsubs csubs nosub nosub) e) (List.length rsubs) (List.length csubs) (mnth (b_inter (nan_blocks base nr nc rsubs csubs)))
  | None => True
  end.
Proof. sub_open; first [sub_reuse gen_NanSubtotals__intersections | sub_grid (fun k l : nat => NaN) ltac:(cbv [nan_blocks b_inter]) ltac:(idtac)]. Qed.

Lemma gen_NanSubtotals_blocks_00 :
  match src_NanSubtotals_blocks_00 with
  | Some e => forall base nr nc rsubs csubs,
      sagrees_mat (seval (senv_sum base nr nc false false rsubs csubs nosub nosub) e) nr nc (mnth (b_base (nan_blocks base nr nc rsubs csubs)))
  | None => True
  end.
Proof. sub_open; (sub_eval; split; [reflexivity|split; [reflexivity|intros; cbv [nan_blocks b_base]; rewrite ?tab2_mnth by assumption; reflexivity]]). Qed.

Lemma gen_NanSubtotals_blocks_01 :
  match src_NanSubtotals_blocks_01 with
  | Some e => forall base nr nc rsubs csubs,
      subs_in nc csubs ->
      sagrees_mat (seval (senv_sum base nr nc false false rsubs csubs nosub nosub) e) nr (List.length csubs) (mnth (b_cols (nan_blocks base nr nc rsubs csubs)))
  | None => True
  end.
Proof. sub_open; first [sub_reuse gen_NanSubtotals__blocks_01 | sub_cols (fun k : nat => fun _ : nat => NaN) ltac:(cbv [nan_blocks b_cols]) ltac:(idtac)]. Qed.

Lemma gen_NanSubtotals_blocks_10 :
  match src_NanSubtotals_blocks_10 with
  | Some e => forall base nr nc rsubs csubs,
      subs_in nr rsubs ->
      sagrees_mat (seval (senv_sum base nr nc false false rsubs csubs nosub nosub) e) (List.length rsubs) nc (mnth (b_rows (nan_blocks base nr nc rsubs csubs)))
  | None => True
  end.
Proof. sub_open; first [sub_reuse gen_NanSubtotals__blocks_10 | sub_rows (fun k : nat => fun _ : nat => NaN) ltac:(cbv [nan_blocks b_rows]) ltac:(idtac)]. Qed.

Lemma gen_NanSubtotals_blocks_11 :
  match src_NanSubtotals_blocks_11 with
  | Some e => forall base nr nc rsubs csubs,
      subs_in nr rsubs ->
      subs_in nc csubs ->
      sagrees_mat (seval (senv_sum base nr nc false false rsubs csubs nosub nosub) e) (List.length rsubs) (List.length csubs) (mnth (b_inter (nan_blocks base nr nc rsubs csubs)))
  | None => True
  end.
Proof. sub_open; first [sub_reuse gen_NanSubtotals__blocks_11 | sub_grid (fun k l : nat => NaN) ltac:(cbv [nan_blocks b_inter]) ltac:(idtac)]. Qed.

Lemma gen_stripe_SumSubtotals__subtotal_value :
  match ssrc_SumSubtotals__subtotal_value with
  | Some e => forall base n subs s,
      sub_in n s ->
      sagrees_scal (seval (senv_ssum base n subs s) e) (stripe_sum_subtotal base s)
  | None => True
  end.
Proof. gen_sub_with ltac:(unfold stripe_sum_subtotal, vsum_idx). Qed.

Lemma gen_stripe_SumSubtotals__subtotal_values :
  match ssrc_SumSubtotals__subtotal_values with
  | Some e => forall base n subs,
      subs_in n subs ->
      sagrees_vec (seval (senv_ssum base n subs nosub) e) (List.length subs) (fun k => stripe_sum_subtotal base (nth k subs nosub))
  | None => True
  end.
Proof. sub_open; sub_vecof (fun k => stripe_sum_subtotal base (nth k subs nosub)) ltac:(unfold stripe_sum_subtotal, vsum_idx). Qed.

Lemma gen_stripe_SumSubtotals_subtotal_values :
  match ssrc_SumSubtotals_subtotal_values with
  | Some e => forall base n subs,
      subs_in n subs ->
      sagrees_vec (seval (senv_ssum base n subs nosub) e) (List.length subs) (vstrat_std subs 0 (vnth base))
  | None => True
  end.
Proof. sub_open; first [sub_reuse gen_stripe_SumSubtotals__subtotal_values | sub_vecof (fun k => stripe_sum_subtotal base (nth k subs nosub)) ltac:(unfold stripe_sum_subtotal, vsum_idx)]. Qed.

Lemma gen_stripe_NanSubtotals__subtotal_values :
  match ssrc_NanSubtotals__subtotal_values with
  | Some e => forall base n subs,
      sagrees_vec (seval (senv_ssum base n subs nosub) e) (List.length subs) (fun _ => NaN)
  | None => True
  end.
Proof. sub_open; (sub_eval; split; [apply map_length|intros; reflexivity]). Qed.

Lemma gen_stripe_NanSubtotals_subtotal_values :
  match ssrc_NanSubtotals_subtotal_values with
  | Some e => forall base n subs,
      sagrees_vec (seval (senv_ssum base n subs nosub) e) (List.length subs) (fun _ => NaN)
  | None => True
  end.
Proof. sub_open; (sub_eval; split; [apply map_length|intros; reflexivity]). Qed.
