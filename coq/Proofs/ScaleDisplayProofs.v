(* Proofs/ScaleDisplayProofs.v -- what Model/ScaleDisplay.v means (property C14). *)
From Coq Require Import QArith ZArith List Bool Lia Arith.
From CC Require Import Base.XQ Base.ListX Model.Scale Model.ScaleDisplay.
Import ListNotations.
Local Close Scope Q_scope.
Local Open Scope nat_scope.

Lemma display_values_length vals order : List.length (display_values vals order) = List.length order.
Proof. unfold display_values. apply map_length. Qed.

(* position k of the display order: an inserted subtotal has no value, a base element its own *)
Theorem display_values_nth vals order k : k < List.length order ->
  let z := nth k order 0%Z in
  ((z < 0)%Z -> vnth (display_values vals order) k = NaN) /\
  ((0 <= z)%Z -> vnth (display_values vals order) k = vnth vals (Z.to_nat z)).
Proof.
  intros Hk z. unfold display_values, vnth at 1 3.
  rewrite (nth_indep _ NaN ((fun z => if (0 <=? z)%Z then vnth vals (Z.to_nat z) else NaN) 0%Z))
    by (rewrite map_length; exact Hk).
  rewrite (map_nth (fun z => if (0 <=? z)%Z then vnth vals (Z.to_nat z) else NaN)). fold z.
  split; intros H.
  - replace (0 <=? z)%Z with false by lia. reflexivity.
  - replace (0 <=? z)%Z with true by lia. reflexivity.
Qed.

(* some displayed row has a value iff a base element that is displayed has one *)
Theorem display_have_value_iff vals order :
  display_have_value vals order = true <->
  exists z, In z order /\ (0 <= z)%Z /\ is_nan (vnth vals (Z.to_nat z)) = false.
Proof.
  unfold display_have_value, any_value, display_values. rewrite existsb_exists. split.
  - intros [v [Hin Hv]]. apply in_map_iff in Hin. destruct Hin as [z [E Hz]]. exists z. split; [exact Hz|].
    destruct (0 <=? z)%Z eqn:Ez; subst v; [split; [lia|apply negb_true_iff; exact Hv]|discriminate].
  - intros [z [Hz [Hp Hv]]]. exists (vnth vals (Z.to_nat z)). split; [|apply negb_true_iff; exact Hv].
    apply in_map_iff. exists z. split; [|exact Hz]. replace (0 <=? z)%Z with true by lia. reflexivity.
Qed.

(* the variance vector: one [scale_var] per displayed column; None iff no displayed row has a value *)
Theorem display_scale_variance_some nc counts dvals means j : any_value dvals = true -> j < nc ->
  exists l, display_scale_variance nc counts dvals means = Some l /\ List.length l = nc /\
            vnth l j = scale_var (mcol counts j) dvals (vnth means j).
Proof.
  intros H Hj. unfold display_scale_variance. rewrite H. eexists. split; [reflexivity|].
  split; [apply tab_length|apply tab_vnth; exact Hj].
Qed.
Theorem display_scale_variance_none nc counts dvals means :
  display_scale_variance nc counts dvals means = None <-> any_value dvals = false.
Proof. unfold display_scale_variance. destruct (any_value dvals); split; congruence. Qed.

(* a row without value (e.g. an inserted subtotal) does not contribute: its count is irrelevant *)
Theorem scale_var_ignores_unvalued vals c c' mu :
  List.length c = List.length vals -> List.length c' = List.length vals ->
  (forall k, k < List.length vals -> is_nan (vnth vals k) = false -> vnth c k = vnth c' k) ->
  scale_var c vals mu = scale_var c' vals mu.
Proof.
  intros H1 H2 H. unfold scale_var.
  assert (E : valued_pairs vals c = valued_pairs vals c'); [|rewrite E; reflexivity].
  unfold valued_pairs. revert c c' H1 H2 H. induction vals as [|v vals IH]; intros c c' H1 H2 H.
  - destruct c, c'; reflexivity || discriminate.
  - destruct c as [|x c]; [discriminate|]. destruct c' as [|x' c']; [discriminate|].
    simpl. destruct (is_nan v) eqn:Ev; simpl.
    + apply IH; [simpl in *; lia..|]. intros k Hk Hv. apply (H (S k)); [simpl; lia|exact Hv].
    + assert (Ex : x = x') by (apply (H 0); [simpl; lia|exact Ev]). subst x'. f_equal.
      apply IH; [simpl in *; lia..|]. intros k Hk Hv. apply (H (S k)); [simpl; lia|exact Hv].
Qed.
