(* Proofs/ComposePublicC03.v -- the COMPOSED theorems of C01 (counts) and C03 (proportions):
   from the source text of a public member of cubepart._Slice to the respondents of a survey.

   Every theorem has the shape
       need <the generated terms of the chain are available>
         (forall survey S, cube (2-D / partition k of 3-D, CAT / MR x CAT / MR), subtotals, flags,
                 in-range signed display orders ro co,
            the public value P computed by the chain of generated terms on the payload of `tabulate S`
            has shape (|ro|, |co|)  and  at display cell (i, j) ...)
   where "..." is
     * base row r = ro[i] >= 0, base column c = co[j] >= 0:
         counts               P[i][j] =x= w(row r and column c)
         row proportions      [ratio_spec] P[i][j] (w(row r and column c)) (w(row r, eligible for column c))
         column proportions   ... (w(eligible for row r, column c))
         table proportions    ... (w(eligible for both))
       [ratio_spec x c b]: x is NaN iff b == 0, otherwise the number c / b, in [0, 1], never infinite;
     * subtotal row ro[i] < 0 (no subtrahends, rows categorical), base column c:
         the same statement for the MERGED category -- row [nval mr] of the survey
         [merged_rows_survey S vr mr s] in which the addends of the subtotal s have been recoded to one
         fresh category (Spec/Merge.v).
   Percentages: 100 times the proportion. *)
From Coq Require Import QArith ZArith List Bool Lia Arith String Setoid Morphisms.
From CC Require Import Base.XQ Base.ListX Base.WiringExp Spec.Survey Spec.Merge
     Model.Subtotals Model.Proportions Model.CubeCounts
     Proofs.CubeCountsProofs Proofs.ComposeBase Proofs.ComposeProportions Proofs.ComposePayload
     Proofs.MergeSurvey Proofs.MergeMeasures
     Proofs.ComposePublicSem Proofs.ComposePublicLinks Proofs.ComposePublicChain Proofs.ComposePublicSlice
     Proofs.ComposePublicCells.
From CC Require Proofs.AssembleProofs Gen.WiringSrc.
Import ListNotations.
Local Close Scope Q_scope.
Local Open Scope string_scope.
Local Open Scope nat_scope.

Import CC.Gen.WiringSrc.

(* ------------------------------------------------------------------------------------ *)
(** * _Slice.counts *)

Definition terms_public_counts : bool :=
  is_some wsrc_Slice_counts && (terms_asm_matrix && terms_weighted_counts).

Theorem public_counts_model :
  need terms_public_counts
  (forall C, cube_tab C "counts" -> orders_ok C -> matrix_member_spec C "counts" (B_counts C)).
Proof.
  unfold terms_public_counts, wsrc_Slice_counts. wiring_some.
  use_need public_matrix_of_realizes terms_asm_matrix. intros PM.
  use_need realizes_weighted_counts terms_weighted_counts. intros Rc.
  needed. intros C Hc Ho.
  eapply matrix_member_of_weval; [reflexivity|].
  exact (PM 3 C "weighted_counts" (B_counts C) (Rc _ C Hc) (tabular_counts C Hc) Ho).
Qed.

(* ------------------------------------------------------------------------------------ *)
(** * _Slice.row_proportions / column_proportions / table_proportions *)

Definition terms_public_row_proportions : bool :=
  is_some wsrc_Slice_row_proportions && (terms_asm_matrix && terms_row_proportions).
Definition terms_public_column_proportions : bool :=
  is_some wsrc_Slice_column_proportions && (terms_asm_matrix && terms_column_proportions).
Definition terms_public_table_proportions : bool :=
  is_some wsrc_Slice_table_proportions && (terms_asm_matrix && terms_table_proportions).

Theorem public_row_proportions_model :
  need terms_public_row_proportions
  (forall C, first_order_ok C -> orders_ok C -> matrix_member_spec C "row_proportions" (B_rowp C)).
Proof.
  unfold terms_public_row_proportions, wsrc_Slice_row_proportions. wiring_some.
  use_need public_matrix_of_realizes terms_asm_matrix. intros PM.
  use_need realizes_row_proportions terms_row_proportions. intros R.
  needed. intros C H1 Ho.
  eapply matrix_member_of_weval; [reflexivity|].
  exact (PM 3 C "row_proportions" (B_rowp C) (R _ C H1) (tabular_rowp C) Ho).
Qed.

Theorem public_column_proportions_model :
  need terms_public_column_proportions
  (forall C, first_order_ok C -> orders_ok C -> matrix_member_spec C "column_proportions" (B_colp C)).
Proof.
  unfold terms_public_column_proportions, wsrc_Slice_column_proportions. wiring_some.
  use_need public_matrix_of_realizes terms_asm_matrix. intros PM.
  use_need realizes_column_proportions terms_column_proportions. intros R.
  needed. intros C H1 Ho.
  eapply matrix_member_of_weval; [reflexivity|].
  exact (PM 3 C "column_proportions" (B_colp C) (R _ C H1) (tabular_colp C) Ho).
Qed.

Theorem public_table_proportions_model :
  need terms_public_table_proportions
  (forall C, first_order_ok C -> orders_ok C -> matrix_member_spec C "table_proportions" (B_tabp C)).
Proof.
  unfold terms_public_table_proportions, wsrc_Slice_table_proportions. wiring_some.
  use_need public_matrix_of_realizes terms_asm_matrix. intros PM.
  use_need realizes_table_proportions terms_table_proportions. intros R.
  needed. intros C H1 Ho.
  eapply matrix_member_of_weval; [reflexivity|].
  exact (PM 3 C "table_proportions" (B_tabp C) (R _ C H1) (tabular_tabp C) Ho).
Qed.

(* ------------------------------------------------------------------------------------ *)
(** * _Slice.row_percentages / column_percentages / table_percentages:  self.<x>_proportions * 100 *)

Definition terms_public_row_percentages : bool :=
  is_some wsrc_Slice_row_percentages && terms_public_row_proportions.
Definition terms_public_column_percentages : bool :=
  is_some wsrc_Slice_column_percentages && terms_public_column_proportions.
Definition terms_public_table_percentages : bool :=
  is_some wsrc_Slice_table_percentages && terms_public_table_proportions.

Theorem public_row_percentages_model :
  need terms_public_row_percentages
  (forall C, first_order_ok C -> orders_ok C ->
     member_spec C "row_percentages" (times 100) (B_rowp C)).
Proof.
  unfold terms_public_row_percentages, wsrc_Slice_row_percentages. wiring_some.
  unfold terms_public_row_proportions, wsrc_Slice_row_proportions. wiring_some.
  use_need public_matrix_of_realizes terms_asm_matrix. intros PM.
  use_need realizes_row_proportions terms_row_proportions. intros R.
  needed. intros C H1 Ho.
  eapply scaled_member_of_weval; [reflexivity|reflexivity|].
  exact (PM 1 C "row_proportions" (B_rowp C) (R _ C H1) (tabular_rowp C) Ho).
Qed.

Theorem public_column_percentages_model :
  need terms_public_column_percentages
  (forall C, first_order_ok C -> orders_ok C ->
     member_spec C "column_percentages" (times 100) (B_colp C)).
Proof.
  unfold terms_public_column_percentages, wsrc_Slice_column_percentages. wiring_some.
  unfold terms_public_column_proportions, wsrc_Slice_column_proportions. wiring_some.
  use_need public_matrix_of_realizes terms_asm_matrix. intros PM.
  use_need realizes_column_proportions terms_column_proportions. intros R.
  needed. intros C H1 Ho.
  eapply scaled_member_of_weval; [reflexivity|reflexivity|].
  exact (PM 1 C "column_proportions" (B_colp C) (R _ C H1) (tabular_colp C) Ho).
Qed.

Theorem public_table_percentages_model :
  need terms_public_table_percentages
  (forall C, first_order_ok C -> orders_ok C ->
     member_spec C "table_percentages" (times 100) (B_tabp C)).
Proof.
  unfold terms_public_table_percentages, wsrc_Slice_table_percentages. wiring_some.
  unfold terms_public_table_proportions, wsrc_Slice_table_proportions. wiring_some.
  use_need public_matrix_of_realizes terms_asm_matrix. intros PM.
  use_need realizes_table_proportions terms_table_proportions. intros R.
  needed. intros C H1 Ho.
  eapply scaled_member_of_weval; [reflexivity|reflexivity|].
  exact (PM 1 C "table_proportions" (B_tabp C) (R _ C H1) (tabular_tabp C) Ho).
Qed.

(* ------------------------------------------------------------------------------------ *)
(** * link 4: base cells *)

Section Cells.
  Variable S : survey.
  Variable tv : tvar.
  Variable vr : nat.
  Variable kr : kind.
  Variable mr : list bool.
  Variable vc : nat.
  Variable kc : kind.
  Variable mc : list bool.
  Variable k : nat.
  Variables rsubs csubs : list subtotal.
  Variables dn rd cd : bool.
  Variable flag : string -> bool.
  Variables ro co : list Z.
  Variable so : slice_out.
  Hypothesis D : survey_display S tv vr kr mr vc kc mc k rsubs csubs ro co so.

  Let Ht : t_ok tv := proj1 D.
  Let Hr : cat_or_mr kr := proj1 (proj2 D).
  Let Hc : cat_or_mr kc := proj1 (proj2 (proj2 D)).
  Let Hk : k < t_n tv := proj1 (proj2 (proj2 (proj2 D))).
  Let Hwf : wf_survey S := proj1 (proj2 (proj2 (proj2 (proj2 D)))).
  Let Hso := proj1 (proj2 (proj2 (proj2 (proj2 (proj2 (proj2 (proj2 D))))))).
  Let Hd : display_ok mr mc rsubs csubs ro co := proj2 (proj2 (proj2 (proj2 (proj2 (proj2 (proj2 (proj2 D))))))).

  Notation C := (Cs mr mc rsubs csubs dn rd cd flag ro co so).

  (* ---- base cells ---- *)
  Section Base.
    Variables i j : nat.
    Hypothesis Hi : i < List.length ro.
    Hypothesis Hj : j < List.length co.
    Hypothesis Hri : (0 <= rsel ro i)%Z.
    Hypothesis Hcj : (0 <= csel co j)%Z.
    Let r := Z.to_nat (rsel ro i).
    Let c := Z.to_nat (csel co j).
    Let Hr' : r < nval mr := rsel_base mr mc rsubs csubs ro co i Hd Hi Hri.
    Let Hc' : c < nval mc := csel_base mr mc rsubs csubs ro co j Hd Hj Hcj.

    Lemma counts_base_cell :
      mnth (b_base (B_counts C)) r c =x= Fin (w_cell tv k vr kr mr vc kc mc S r c).
    Proof.
      rewrite (Cs_B_counts S tv vr kr mr vc kc mc k rsubs csubs dn rd cd flag ro co so Ht Hr Hc Hk Hso).
      cbn [count_blocks sum_blocks b_base].
      exact (t_counts_cell S tv vr kr mr vc kc mc k Ht Hr Hc Hk r c Hr' Hc').
    Qed.

    Lemma row_proportions_base_cell :
      ratio_spec (mnth (b_base (B_rowp C)) r c)
                 (w_cell tv k vr kr mr vc kc mc S r c) (w_rowbase tv k vr kr mr vc kc mc S r c).
    Proof.
      rewrite (Cs_B_rowp S tv vr kr mr vc kc mc k rsubs csubs dn rd cd flag ro co so Ht Hr Hc Hk Hso).
      exact (row_proportion_cases S tv vr kr mr vc kc mc k rsubs csubs dn rd cd Ht Hr Hc Hk Hwf r c Hr' Hc').
    Qed.

    Lemma column_proportions_base_cell :
      ratio_spec (mnth (b_base (B_colp C)) r c)
                 (w_cell tv k vr kr mr vc kc mc S r c) (w_colbase tv k vr kr mr vc kc mc S r c).
    Proof.
      rewrite (Cs_B_colp S tv vr kr mr vc kc mc k rsubs csubs dn rd cd flag ro co so Ht Hr Hc Hk Hso).
      exact (column_proportion_cases S tv vr kr mr vc kc mc k rsubs csubs dn rd cd Ht Hr Hc Hk Hwf r c Hr' Hc').
    Qed.

    Lemma table_proportions_base_cell :
      ratio_spec (mnth (b_base (B_tabp C)) r c)
                 (w_cell tv k vr kr mr vc kc mc S r c) (w_tabbase tv k vr kr mr vc kc mc S r c).
    Proof.
      rewrite (Cs_B_tabp S tv vr kr mr vc kc mc k rsubs csubs dn rd cd flag ro co so Ht Hr Hc Hk Hso).
      exact (table_proportion_cases S tv vr kr mr vc kc mc k rsubs csubs dn Ht Hr Hc Hk Hwf r c Hr' Hc').
    Qed.
  End Base.
End Cells.

(* ------------------------------------------------------------------------------------ *)
(** * subtotal rows: the merged category (rows categorical) *)

Section SubtotalRow.
  Variable S : survey.
  Variable tv : tvar.
  Variables vr vc : nat.
  Variable kc : kind.
  Variables mr mc : list bool.
  Variable k : nat.
  Variables rsubs csubs : list subtotal.
  Variables dn rd cd : bool.
  Variable flag : string -> bool.
  Variables ro co : list Z.
  Variable so : slice_out.
  Hypothesis D : survey_display S tv vr KCat mr vc kc mc k rsubs csubs ro co so.

  Let Ht : t_ok tv := proj1 D.
  Let Hr : cat_or_mr KCat := proj1 (proj2 D).
  Let Hc : cat_or_mr kc := proj1 (proj2 (proj2 D)).
  Let Hk : k < t_n tv := proj1 (proj2 (proj2 (proj2 D))).
  Let Hwf : wf_survey S := proj1 (proj2 (proj2 (proj2 (proj2 D)))).
  Let Hnr : 0 < nval mr := proj1 (proj2 (proj2 (proj2 (proj2 (proj2 D))))).
  Let Hnc : 0 < nval mc := proj1 (proj2 (proj2 (proj2 (proj2 (proj2 (proj2 D)))))).
  Let Hso := proj1 (proj2 (proj2 (proj2 (proj2 (proj2 (proj2 (proj2 D))))))).
  Let Hd : display_ok mr mc rsubs csubs ro co := proj2 (proj2 (proj2 (proj2 (proj2 (proj2 (proj2 (proj2 D))))))).

  Variables i j : nat.
  Hypothesis Hi : i < List.length ro.
  Hypothesis Hj : j < List.length co.
  Hypothesis Hri : (rsel ro i < 0)%Z.
  Hypothesis Hcj : (0 <= csel co j)%Z.
  Let kk := Z.to_nat (rsel ro i + Z.of_nat (List.length rsubs)).
  Let s := row_subtotal rsubs ro i.
  Hypothesis Hm : merge_row_ok S tv vr vc mr s.

  Let c := Z.to_nat (csel co j).
  Let Hkk : kk < List.length rsubs := rsel_sub mr mc rsubs csubs ro co i Hd Hi Hri.
  Let Hc' : c < nval mc := csel_base mr mc rsubs csubs ro co j Hd Hj Hcj.
  Let Hvar : vc <> vr := proj1 Hm.
  Let Htv : tv_other tv vr := proj1 (proj2 Hm).
  Let Hfresh : fresh_for vr mr S := proj1 (proj2 (proj2 Hm)).
  Let Hsub : s_sub s = [] := proj1 (proj2 (proj2 (proj2 Hm))).
  Let Hoffs : Forall (fun a => a < n_valid mr) (s_add s) := proj1 (proj2 (proj2 (proj2 (proj2 Hm)))).
  Let Hnd : NoDup (s_add s) := proj2 (proj2 (proj2 (proj2 (proj2 Hm)))).

  (* the survey with the addends merged, its flags, the merged category's row *)
  Let S' := merged_rows_survey S vr mr s.
  Let mr' := merged_flags mr.
  Let m := nval mr.

  Notation C := (Cs mr mc rsubs csubs dn rd cd flag ro co so).

  Let m_lt : m < nval mr' := nval_lt_merged mr.
  Lemma wf_S' : wf_survey S'.
  Proof. apply wf_recode. exact Hwf. Qed.

  Let nval_mr' : nval mr' = Datatypes.S (nval mr) := nval_merged mr.

  Let merged_t_counts : t_counts S' tv vr KCat mr' vc kc mc k = MergeMeasures.m_counts S tv vr vc kc mr mc k rsubs kk
    := ComposePublicCells.merged_t_counts S tv vr vc kc mr mc k rsubs ro i.
  Let merged_t_rb : t_rb S' tv vr KCat mr' vc kc mc k = MergeMeasures.m_rb S tv vr vc kc mr mc k rsubs kk
    := ComposePublicCells.merged_t_rb S tv vr vc kc mr mc k rsubs ro i.
  Let merged_t_cb : t_cb S' tv vr KCat mr' vc kc mc k = MergeMeasures.m_cb S tv vr vc kc mr mc k rsubs kk
    := ComposePublicCells.merged_t_cb S tv vr vc kc mr mc k rsubs ro i.
  Let merged_t_tb : t_tb S' tv vr KCat mr' vc kc mc k = MergeMeasures.m_tb S tv vr vc kc mr mc k rsubs kk
    := ComposePublicCells.merged_t_tb S tv vr vc kc mr mc k rsubs ro i.

  Lemma counts_srow_cell :
    mnth (b_rows (B_counts C)) kk c =x= Fin (w_cell tv k vr KCat mr' vc kc mc S' m c).
  Proof.
    rewrite (Cs_B_counts S tv vr KCat mr vc kc mc k rsubs csubs dn rd cd flag ro co so Ht Hr Hc Hk Hso).
    etransitivity;
      [exact (merge_block_counts S tv vr vc kc mr mc k rsubs csubs kk dn Ht Hc Hk Hvar Htv Hkk Hsub Hoffs Hnd Hfresh Hnr c Hc')|].
    rewrite <- merged_t_counts.
    exact (t_counts_cell S' tv vr KCat mr' vc kc mc k Ht Hr Hc Hk m c m_lt Hc').
  Qed.

  Lemma row_proportions_srow_cell :
    ratio_spec (mnth (b_rows (B_rowp C)) kk c)
               (w_cell tv k vr KCat mr' vc kc mc S' m c) (w_rowbase tv k vr KCat mr' vc kc mc S' m c).
  Proof.
    rewrite (Cs_B_rowp S tv vr KCat mr vc kc mc k rsubs csubs dn rd cd flag ro co so Ht Hr Hc Hk Hso).
    eapply ratio_spec_xeq.
    - exact (merge_row_proportions S tv vr vc kc mr mc k rsubs csubs rsubs csubs kk dn dn rd cd rd cd
               Ht Hc Hk Hvar Htv Hkk Hsub Hoffs Hnd Hfresh Hnr c Hc').
    - pose proof (row_proportion_cases S' tv vr KCat mr' vc kc mc k rsubs csubs dn rd cd Ht Hr Hc Hk wf_S' m c m_lt Hc') as H.
      unfold s_row_props in H. rewrite merged_t_counts, merged_t_rb, nval_mr' in H. exact H.
  Qed.

  Lemma column_proportions_srow_cell :
    ratio_spec (mnth (b_rows (B_colp C)) kk c)
               (w_cell tv k vr KCat mr' vc kc mc S' m c) (w_colbase tv k vr KCat mr' vc kc mc S' m c).
  Proof.
    rewrite (Cs_B_colp S tv vr KCat mr vc kc mc k rsubs csubs dn rd cd flag ro co so Ht Hr Hc Hk Hso).
    eapply ratio_spec_xeq.
    - exact (merge_column_proportions S tv vr vc kc mr mc k rsubs csubs rsubs csubs kk dn dn rd cd rd cd
               Ht Hc Hk Hvar Htv Hkk Hsub Hoffs Hnd Hfresh Hnr c Hc').
    - pose proof (column_proportion_cases S' tv vr KCat mr' vc kc mc k rsubs csubs dn rd cd Ht Hr Hc Hk wf_S' m c m_lt Hc') as H.
      unfold s_col_props in H. rewrite merged_t_counts, merged_t_cb, nval_mr' in H. exact H.
  Qed.

  Lemma table_proportions_srow_cell :
    ratio_spec (mnth (b_rows (B_tabp C)) kk c)
               (w_cell tv k vr KCat mr' vc kc mc S' m c) (w_tabbase tv k vr KCat mr' vc kc mc S' m c).
  Proof.
    rewrite (Cs_B_tabp S tv vr KCat mr vc kc mc k rsubs csubs dn rd cd flag ro co so Ht Hr Hc Hk Hso).
    eapply ratio_spec_xeq.
    - exact (merge_table_proportions S tv vr vc kc mr mc k rsubs csubs rsubs csubs kk dn dn
               Ht Hc Hk Hvar Htv Hkk Hsub Hoffs Hnd Hfresh Hnr c Hc').
    - pose proof (table_proportion_cases S' tv vr KCat mr' vc kc mc k rsubs csubs dn Ht Hr Hc Hk wf_S' m c m_lt Hc') as H.
      unfold s_tab_props in H. rewrite merged_t_counts, merged_t_tb, nval_mr' in H. exact H.
  Qed.
End SubtotalRow.

(* ------------------------------------------------------------------------------------ *)
(** * the composed theorems *)

Section Final.
  Variable S : survey.
  Variable tv : tvar.
  Variable vr : nat.
  Variable kr : kind.
  Variable mr : list bool.
  Variable vc : nat.
  Variable kc : kind.
  Variable mc : list bool.
  Variable k : nat.
  Variables rsubs csubs : list subtotal.
  Variables dn rd cd : bool.
  Variable flag : string -> bool.
  Variables ro co : list Z.
  Variable so : slice_out.
  Hypothesis D : survey_display S tv vr kr mr vc kc mc k rsubs csubs ro co so.
  Notation C := (Cs mr mc rsubs csubs dn rd cd flag ro co so).

  Lemma count_cells :
    matrix_member_spec C "counts" (B_counts C) ->
    cells_spec (public_slice C "counts") ro co
      (fun i j => count_cell_spec S tv vr kr mr vc kc mc k rsubs ro co i j).
  Proof.
    intros M. apply (cells_of_member mr mc rsubs csubs dn rd cd flag ro co so "counts" (fun x => x) (B_counts C)); [exact M| |].
    - intros i j Hi Hj Hr0 Hc0. split; [intros _|intros Hn; exfalso; lia].
      exact (counts_base_cell S tv vr kr mr vc kc mc k rsubs csubs dn rd cd flag ro co so D i j Hi Hj Hr0 Hc0).
    - intros i j Hi Hj Hr0 Hc0. split; [intros Hn; exfalso; lia|intros _ Hk Hm]. subst kr.
      exact (counts_srow_cell S tv vr vc kc mr mc k rsubs csubs dn rd cd flag ro co so D i j Hi Hj Hr0 Hc0 Hm).
  Qed.

  (* the three proportions share one proof: [Bp] the model structure, [wb] its base *)
  Section Ratio.
    Variable Bp : blocks.
    Variable wb : wfun.
    Hypothesis Hbase : forall i j, i < List.length ro -> j < List.length co ->
      (0 <= rsel ro i)%Z -> (0 <= csel co j)%Z ->
      ratio_spec (mnth (b_base Bp) (Z.to_nat (rsel ro i)) (Z.to_nat (csel co j)))
                 (w_cell tv k vr kr mr vc kc mc S (Z.to_nat (rsel ro i)) (Z.to_nat (csel co j)))
                 (wb tv k vr kr mr vc kc mc S (Z.to_nat (rsel ro i)) (Z.to_nat (csel co j))).
    Hypothesis Hsrow : forall i j, i < List.length ro -> j < List.length co ->
      (rsel ro i < 0)%Z -> (0 <= csel co j)%Z -> kr = KCat ->
      merge_row_ok S tv vr vc mr (row_subtotal rsubs ro i) ->
      ratio_spec (mnth (b_rows Bp) (Z.to_nat (rsel ro i + Z.of_nat (List.length rsubs))) (Z.to_nat (csel co j)))
                 (w_cell tv k vr KCat (merged_flags mr) vc kc mc
                         (merged_rows_survey S vr mr (row_subtotal rsubs ro i)) (nval mr) (Z.to_nat (csel co j)))
                 (wb tv k vr KCat (merged_flags mr) vc kc mc
                     (merged_rows_survey S vr mr (row_subtotal rsubs ro i)) (nval mr) (Z.to_nat (csel co j))).

    Lemma ratio_cells p :
      matrix_member_spec C p Bp ->
      cells_spec (public_slice C p) ro co
        (fun i j => ratio_cell_spec S tv vr kr mr vc kc mc k rsubs ro co i j wb).
    Proof.
      intros M. apply (cells_of_member mr mc rsubs csubs dn rd cd flag ro co so p (fun x => x) Bp); [exact M| |].
      - intros i j Hi Hj Hr0 Hc0. split; [intros _|intros Hn; exfalso; lia]. apply Hbase; assumption.
      - intros i j Hi Hj Hr0 Hc0. split; [intros Hn; exfalso; lia|intros _ Hk Hm]. apply Hsrow; assumption.
    Qed.

    Lemma pct_cells q :
      member_spec C q (times 100) Bp ->
      pct_cells_spec (public_slice C q) ro co
        (fun i j => ratio_cell_spec S tv vr kr mr vc kc mc k rsubs ro co i j wb).
    Proof.
      intros M. apply (cells_of_member mr mc rsubs csubs dn rd cd flag ro co so q (times 100) Bp); [exact M| |].
      - intros i j Hi Hj Hr0 Hc0. eexists. split; [reflexivity|].
        split; [intros _|intros Hn; exfalso; lia]. apply Hbase; assumption.
      - intros i j Hi Hj Hr0 Hc0. eexists. split; [reflexivity|].
        split; [intros Hn; exfalso; lia|intros _ Hk Hm]. apply Hsrow; assumption.
    Qed.
  End Ratio.

  Lemma rowp_base i j : i < List.length ro -> j < List.length co ->
      (0 <= rsel ro i)%Z -> (0 <= csel co j)%Z ->
      ratio_spec (mnth (b_base (B_rowp C)) (Z.to_nat (rsel ro i)) (Z.to_nat (csel co j)))
                 (w_cell tv k vr kr mr vc kc mc S (Z.to_nat (rsel ro i)) (Z.to_nat (csel co j)))
                 (w_rowbase tv k vr kr mr vc kc mc S (Z.to_nat (rsel ro i)) (Z.to_nat (csel co j))).
  Proof. exact (row_proportions_base_cell S tv vr kr mr vc kc mc k rsubs csubs dn rd cd flag ro co so D i j). Qed.
  Lemma colp_base i j : i < List.length ro -> j < List.length co ->
      (0 <= rsel ro i)%Z -> (0 <= csel co j)%Z ->
      ratio_spec (mnth (b_base (B_colp C)) (Z.to_nat (rsel ro i)) (Z.to_nat (csel co j)))
                 (w_cell tv k vr kr mr vc kc mc S (Z.to_nat (rsel ro i)) (Z.to_nat (csel co j)))
                 (w_colbase tv k vr kr mr vc kc mc S (Z.to_nat (rsel ro i)) (Z.to_nat (csel co j))).
  Proof. exact (column_proportions_base_cell S tv vr kr mr vc kc mc k rsubs csubs dn rd cd flag ro co so D i j). Qed.
  Lemma tabp_base i j : i < List.length ro -> j < List.length co ->
      (0 <= rsel ro i)%Z -> (0 <= csel co j)%Z ->
      ratio_spec (mnth (b_base (B_tabp C)) (Z.to_nat (rsel ro i)) (Z.to_nat (csel co j)))
                 (w_cell tv k vr kr mr vc kc mc S (Z.to_nat (rsel ro i)) (Z.to_nat (csel co j)))
                 (w_tabbase tv k vr kr mr vc kc mc S (Z.to_nat (rsel ro i)) (Z.to_nat (csel co j))).
  Proof. exact (table_proportions_base_cell S tv vr kr mr vc kc mc k rsubs csubs dn rd cd flag ro co so D i j). Qed.
End Final.

(* the subtotal-row facts with kr = KCat substituted *)
Section FinalSrow.
  Variable S : survey.
  Variable tv : tvar.
  Variable vr : nat.
  Variable kr : kind.
  Variable mr : list bool.
  Variable vc : nat.
  Variable kc : kind.
  Variable mc : list bool.
  Variable k : nat.
  Variables rsubs csubs : list subtotal.
  Variables dn rd cd : bool.
  Variable flag : string -> bool.
  Variables ro co : list Z.
  Variable so : slice_out.
  Hypothesis D : survey_display S tv vr kr mr vc kc mc k rsubs csubs ro co so.
  Notation C := (Cs mr mc rsubs csubs dn rd cd flag ro co so).

  Definition srow_fact (Bp : blocks) (wb : wfun) : Prop :=
    forall i j, i < List.length ro -> j < List.length co ->
      (rsel ro i < 0)%Z -> (0 <= csel co j)%Z -> kr = KCat ->
      merge_row_ok S tv vr vc mr (row_subtotal rsubs ro i) ->
      ratio_spec (mnth (b_rows Bp) (Z.to_nat (rsel ro i + Z.of_nat (List.length rsubs))) (Z.to_nat (csel co j)))
                 (w_cell tv k vr KCat (merged_flags mr) vc kc mc
                         (merged_rows_survey S vr mr (row_subtotal rsubs ro i)) (nval mr) (Z.to_nat (csel co j)))
                 (wb tv k vr KCat (merged_flags mr) vc kc mc
                     (merged_rows_survey S vr mr (row_subtotal rsubs ro i)) (nval mr) (Z.to_nat (csel co j))).

  Lemma rowp_srow : srow_fact (B_rowp C) w_rowbase.
  Proof.
    intros i j Hi Hj Hr0 Hc0 Hk Hm. revert D Hm. subst kr. intros D Hm.
    exact (row_proportions_srow_cell S tv vr vc kc mr mc k rsubs csubs dn rd cd flag ro co so D i j Hi Hj Hr0 Hc0 Hm).
  Qed.
  Lemma colp_srow : srow_fact (B_colp C) w_colbase.
  Proof.
    intros i j Hi Hj Hr0 Hc0 Hk Hm. revert D Hm. subst kr. intros D Hm.
    exact (column_proportions_srow_cell S tv vr vc kc mr mc k rsubs csubs dn rd cd flag ro co so D i j Hi Hj Hr0 Hc0 Hm).
  Qed.
  Lemma tabp_srow : srow_fact (B_tabp C) w_tabbase.
  Proof.
    intros i j Hi Hj Hr0 Hc0 Hk Hm. revert D Hm. subst kr. intros D Hm.
    exact (table_proportions_srow_cell S tv vr vc kc mr mc k rsubs csubs dn rd cd flag ro co so D i j Hi Hj Hr0 Hc0 Hm).
  Qed.
End FinalSrow.

(* ------------------------------------------------------------------------------------ *)
(** * THE COMPOSED THEOREMS (exported as C01_public_* / C03_public_* in Props) *)

Ltac with_model H b := use_need H b.

Theorem compose_public_Slice_counts :
  need terms_public_counts
  (forall S tv vr kr mr vc kc mc k rsubs csubs dn rd cd flag ro co so,
     survey_display S tv vr kr mr vc kc mc k rsubs csubs ro co so ->
     cells_spec (public_slice (Cs mr mc rsubs csubs dn rd cd flag ro co so) "counts") ro co
       (fun i j => count_cell_spec S tv vr kr mr vc kc mc k rsubs ro co i j)).
Proof.
  with_model public_counts_model terms_public_counts. intros PM. needed.
  intros S tv vr kr mr vc kc mc k rsubs csubs dn rd cd flag ro co so D.
  apply (count_cells S tv vr kr mr vc kc mc k rsubs csubs dn rd cd flag ro co so D).
  apply PM.
  - exact (C_counts_tab S tv vr kr mr vc kc mc k rsubs csubs dn rd cd flag ro co so D).
  - exact (proj2 (proj2 (proj2 (proj2 (proj2 (proj2 (proj2 (proj2 D)))))))).
Qed.

Ltac ratio_theorem PMlem terms lem Bf baseL srowL :=
  with_model PMlem terms; intros PM; needed;
  intros S tv vr kr mr vc kc mc k rsubs csubs dn rd cd flag ro co so D;
  eapply lem;
  [ exact (baseL S tv vr kr mr vc kc mc k rsubs csubs dn rd cd flag ro co so D)
  | exact (srowL S tv vr kr mr vc kc mc k rsubs csubs dn rd cd flag ro co so D)
  | apply PM;
    [ exact (C_first_order S tv vr kr mr vc kc mc k rsubs csubs dn rd cd flag ro co so D)
    | exact (proj2 (proj2 (proj2 (proj2 (proj2 (proj2 (proj2 (proj2 D)))))))) ] ].

Theorem compose_public_Slice_row_proportions :
  need terms_public_row_proportions
  (forall S tv vr kr mr vc kc mc k rsubs csubs dn rd cd flag ro co so,
     survey_display S tv vr kr mr vc kc mc k rsubs csubs ro co so ->
     cells_spec (public_slice (Cs mr mc rsubs csubs dn rd cd flag ro co so) "row_proportions") ro co
       (fun i j => ratio_cell_spec S tv vr kr mr vc kc mc k rsubs ro co i j w_rowbase)).
Proof. ratio_theorem public_row_proportions_model terms_public_row_proportions ratio_cells B_rowp rowp_base rowp_srow. Qed.

Theorem compose_public_Slice_column_proportions :
  need terms_public_column_proportions
  (forall S tv vr kr mr vc kc mc k rsubs csubs dn rd cd flag ro co so,
     survey_display S tv vr kr mr vc kc mc k rsubs csubs ro co so ->
     cells_spec (public_slice (Cs mr mc rsubs csubs dn rd cd flag ro co so) "column_proportions") ro co
       (fun i j => ratio_cell_spec S tv vr kr mr vc kc mc k rsubs ro co i j w_colbase)).
Proof. ratio_theorem public_column_proportions_model terms_public_column_proportions ratio_cells B_colp colp_base colp_srow. Qed.

Theorem compose_public_Slice_table_proportions :
  need terms_public_table_proportions
  (forall S tv vr kr mr vc kc mc k rsubs csubs dn rd cd flag ro co so,
     survey_display S tv vr kr mr vc kc mc k rsubs csubs ro co so ->
     cells_spec (public_slice (Cs mr mc rsubs csubs dn rd cd flag ro co so) "table_proportions") ro co
       (fun i j => ratio_cell_spec S tv vr kr mr vc kc mc k rsubs ro co i j w_tabbase)).
Proof. ratio_theorem public_table_proportions_model terms_public_table_proportions ratio_cells B_tabp tabp_base tabp_srow. Qed.

Theorem compose_public_Slice_row_percentages :
  need terms_public_row_percentages
  (forall S tv vr kr mr vc kc mc k rsubs csubs dn rd cd flag ro co so,
     survey_display S tv vr kr mr vc kc mc k rsubs csubs ro co so ->
     pct_cells_spec (public_slice (Cs mr mc rsubs csubs dn rd cd flag ro co so) "row_percentages") ro co
       (fun i j => ratio_cell_spec S tv vr kr mr vc kc mc k rsubs ro co i j w_rowbase)).
Proof. ratio_theorem public_row_percentages_model terms_public_row_percentages pct_cells B_rowp rowp_base rowp_srow. Qed.

Theorem compose_public_Slice_column_percentages :
  need terms_public_column_percentages
  (forall S tv vr kr mr vc kc mc k rsubs csubs dn rd cd flag ro co so,
     survey_display S tv vr kr mr vc kc mc k rsubs csubs ro co so ->
     pct_cells_spec (public_slice (Cs mr mc rsubs csubs dn rd cd flag ro co so) "column_percentages") ro co
       (fun i j => ratio_cell_spec S tv vr kr mr vc kc mc k rsubs ro co i j w_colbase)).
Proof. ratio_theorem public_column_percentages_model terms_public_column_percentages pct_cells B_colp colp_base colp_srow. Qed.

Theorem compose_public_Slice_table_percentages :
  need terms_public_table_percentages
  (forall S tv vr kr mr vc kc mc k rsubs csubs dn rd cd flag ro co so,
     survey_display S tv vr kr mr vc kc mc k rsubs csubs ro co so ->
     pct_cells_spec (public_slice (Cs mr mc rsubs csubs dn rd cd flag ro co so) "table_percentages") ro co
       (fun i j => ratio_cell_spec S tv vr kr mr vc kc mc k rsubs ro co i j w_tabbase)).
Proof. ratio_theorem public_table_percentages_model terms_public_table_percentages pct_cells B_tabp tabp_base tabp_srow. Qed.

(* non-vacuity of the guards: on this tree every generated term of the chain is available *)
Lemma compose_public_terms_available_C03 :
  terms_public_counts = true /\ terms_public_row_proportions = true /\
  terms_public_column_proportions = true /\ terms_public_table_proportions = true /\
  terms_public_row_percentages = true /\ terms_public_column_percentages = true /\
  terms_public_table_percentages = true.
Proof. repeat split; reflexivity. Qed.

