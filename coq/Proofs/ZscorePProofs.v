(* Proofs about Model/ZscoreP.v: [pval_n] on the signed square of a finite z IS the real two-sided
   p-value [pval Phi z] of Proofs/ZscorePval.v, for every function [ncdf] on the extended rationals
   that represents the real function Phi (ncdf (y) = Phi (sqrt y) on finite y >= 0). *)
From Coq Require Import QArith Qabs Qreals Reals Lra Lqa List.
From CC Require Import Base.XQ Base.ListX Model.ZscoreP Proofs.ZscorePval.
Local Open Scope Q_scope.

Definition represents (ncdf : xq -> xq) (Phi : R -> R) : Prop :=
  forall y c : Q, 0 <= y -> ncdf (Fin y) = Fin c -> Q2R c = Phi (sqrt (Q2R y)).

Lemma Qabs_mul_abs d : Qabs (d * Qabs d) == d * d.
Proof.
  destruct (Qlt_le_dec d 0) as [L|L].
  - rewrite (Qabs_neg d) by lra. rewrite Qabs_neg; [ring|]. nra.
  - rewrite (Qabs_pos d) by lra. rewrite Qabs_pos; [ring|]. nra.
Qed.

Lemma sqrt_Q2R_sq z : sqrt (Q2R (Qabs (z * Qabs z))) = Rabs (Q2R z).
Proof.
  rewrite (Qeq_eqR _ _ (Qabs_mul_abs z)). rewrite Q2R_mult.
  apply sqrt_Rsqr_abs.
Qed.

Theorem pval_n_is_pval (ncdf : xq -> xq) (Phi : R -> R) (z p : Q) :
  represents ncdf Phi ->
  pval_n ncdf (xmul (Fin z) (xabs (Fin z))) = Fin p ->
  Q2R p = pval Phi (Q2R z).
Proof.
  intros Hr H. unfold pval_n in H. cbn [xmul xabs] in H.
  destruct (ncdf (Fin (Qabs (z * Qabs z)))) as [c|b|] eqn:E;
    [ | exfalso; vm_compute in H; destruct b; discriminate H | exfalso; vm_compute in H; discriminate H ].
  cbn in H. injection H as <-.
  assert (Hc := Hr _ _ (Qabs_nonneg _) E). rewrite sqrt_Q2R_sq in Hc.
  unfold pval. rewrite <- Hc.
  rewrite Q2R_mult, Q2R_plus, Q2R_opp.
  assert (X2 : Q2R 2 = 2%R) by (unfold Q2R; simpl; field).
  assert (X1 : Q2R 1 = 1%R) by (unfold Q2R; simpl; field).
  rewrite X2, X1. ring.
Qed.

Local Close Scope Q_scope.
Theorem pblock_n_cell ncdf ZZ i j : (i < nrows ZZ)%nat -> (j < ncols ZZ)%nat ->
  mnth (pblock_n ncdf ZZ) i j = pval_n ncdf (mnth ZZ i j).
Proof. intros Hi Hj. unfold pblock_n. rewrite tab2_mnth by assumption. reflexivity. Qed.
