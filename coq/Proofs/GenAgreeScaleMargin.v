(* Proofs/GenAgreeScaleMargin.v -- GenAgree tie of cubepart.py::_Slice's overall scale margins to
   Model/ScaleOrient.v / Model/Scale.v (property C14).  After the repair eed80ace the margins are computed
   on the BASE values: the numeric values of ALL valid elements of the dimension (hidden ones included)
   against the first column of row_weighted_bases.blocks[0][0] (columns_* margins: the ROWS dimension's
   values) resp. the first row of column_weighted_bases.blocks[0][0] (rows_* margins).

     columns_scale_mean_margin   = [columns_scale_mean_margin rb rvals]  (None iff no row has a value;
                                   nansum(values * margin) / sum(margin[~isnan(values)]) = [wmean])
     rows_scale_mean_margin      = [rows_scale_mean_margin cb cvals]
     columns_/rows_scale_median_margin = [.._scale_median_margin]: np.repeat + np.median of the valued part,
                                   None when nobody is counted in a valued category
     has_scale_means (slice / strand) = the scale mean is not None *)
From Coq Require Import QArith ZArith List Bool Lia Arith String ZifyBool Setoid Morphisms.
From CC Require Import Base.XQ Base.ListX Base.VecExp Spec.Stats Model.Scale Model.ScaleOrient
     Proofs.GenAgreeVecTac Proofs.GenAgreeScaleTac Proofs.GenAgreeScaleMedian Proofs.GenAgreeScaleStrand
     Proofs.GenAgreeScaleStrandMedian Gen.PartScaleSrc.
Import ListNotations.
Local Close Scope Q_scope.
Local Open Scope string_scope.
Local Open Scope nat_scope.

Definition env_part (attrs : list (string * vval)) (srt : list xq -> list nat) : venv :=
  mkVenv no_var (alist attrs) no_get no_call srt.

Definition cmargin_attrs nc rb rvals cvals : list (string * vval) :=
  [("_dimensions[0].numeric_values", VV rvals); ("_dimensions[1].numeric_values", VV cvals);
   ("_measures.row_weighted_bases.blocks[0][0]", VM nc rb)].
Definition rmargin_attrs nc cb rvals cvals : list (string * vval) :=
  [("_dimensions[0].numeric_values", VV rvals); ("_dimensions[1].numeric_values", VV cvals);
   ("_measures.column_weighted_bases.blocks[0][0]", VM nc cb)].

Ltac part_env := unfold env_part, cmargin_attrs, rmargin_attrs.

Lemma gen_Slice_columns_scale_mean_margin :
  match vpsrc_Slice_columns_scale_mean_margin with
  | Some e => forall nc rb rvals cvals srt, 0 < nc -> List.length rb = List.length rvals ->
      veval (env_part (cmargin_attrs nc rb rvals cvals) srt) e
      = opt_val (columns_scale_mean_margin rb rvals)
  | None => True
  end.
Proof.
  unfold_vsrcs; try exact I.
  all: intros nc rb rvals cvals srt Hnc Hlen.
  all: unfold columns_scale_mean_margin, scale_mean_margin, wmean.
  all: part_env; veval_simp.
  all: rewrite all_isnan_any_value.
  all: destruct (any_value rvals); cbn [negb]; cbv iota; [|reflexivity].
  all: vsplit.
  all: rewrite mask_take_keep_valued by (rewrite mcol_length; exact Hlen).
  all: reflexivity.
Qed.

Lemma gen_Slice_rows_scale_mean_margin :
  match vpsrc_Slice_rows_scale_mean_margin with
  | Some e => forall nc cb rvals cvals srt, 0 < List.length cb -> List.length (mrow cb 0) = List.length cvals ->
      veval (env_part (rmargin_attrs nc cb rvals cvals) srt) e
      = opt_val (rows_scale_mean_margin cb cvals)
  | None => True
  end.
Proof.
  unfold_vsrcs; try exact I.
  all: intros nc cb rvals cvals srt Hnr Hlen.
  all: unfold rows_scale_mean_margin, scale_mean_margin, wmean, mrow in *.
  all: part_env; veval_simp.
  all: rewrite all_isnan_any_value.
  all: destruct (any_value cvals); cbn [negb]; cbv iota; [|reflexivity].
  all: vsplit.
  all: rewrite mask_take_keep_valued by exact Hlen.
  all: reflexivity.
Qed.

(* ------------------------------------------------------------------------------------ *)
(** * the median margins: np.repeat(values[valued], int(margin[valued])), np.median *)

Lemma median_tree_ok vals margin :
  List.length margin = List.length vals -> Forall finite_or_nan vals -> Forall nonneg_count margin ->
  let R := v_repeat (v_item (VV vals) (VBV (map negb (map is_nan vals))))
                    (v_astype_int (v_nan_to_num (v_item (VV margin) (VBV (map negb (map is_nan vals)))))) in
  v_if (v_cmp CNe (v_size R) (VZ 0)) (v_median R) VNone = opt_val (scale_median_margin margin vals).
Proof.
  intros Hlen Hfin Hnn R. subst R.
  assert (E1 : v_item (VV vals) (VBV (map negb (map is_nan vals))) = VV (map fst (valued_pairs vals margin)))
    by (unfold v_item; rewrite !map_length, Nat.eqb_refl, (mask_take_vals_fst vals margin Hlen); reflexivity).
  assert (E2 : v_item (VV margin) (VBV (map negb (map is_nan vals))) = VV (map snd (valued_pairs vals margin)))
    by (unfold v_item; rewrite !map_length; replace (List.length vals =? List.length margin) with true by lia;
        rewrite (mask_take_counts_snd vals margin Hlen); reflexivity).
  rewrite !E1, !E2. unfold scale_median_margin, expand_valued.
  pose proof (valued_pairs_fin vals margin Hfin) as Hvf.
  pose proof (valued_pairs_nonneg vals margin Hnn) as Hvn.
  set (vp := valued_pairs vals margin) in *.
  rewrite (nan_to_num_list _ Hvn).
  unfold v_astype_int; rewrite (trunc_list _ (nonneg_num _ Hvn)).
  unfold v_repeat; rewrite !map_length, Nat.eqb_refl.
  rewrite (expand_pairs vp Hvf).
  set (ex := flat_map (fun vc => repeat (nan_to_num (fst vc)) (trunc_count (snd vc))) vp) in *.
  destruct ex as [|x ex'] eqn:Eex; [reflexivity|].
  cbn [v_size v_cmp cmp_z]. rewrite map_length.
  replace (negb (Z.of_nat (List.length (x :: ex')) =? 0)%Z) with true by (cbn [List.length]; lia).
  rewrite v_if_true. unfold v_median. rewrite map_length, forallb_is_fin.
  cbn [List.length Nat.eqb orb negb].
  rewrite xq_sort_fin, median_sorted_fin; [reflexivity|rewrite qsort_length; cbn [List.length]; lia].
Qed.

Lemma gen_Slice_columns_scale_median_margin :
  match vpsrc_Slice_columns_scale_median_margin with
  | Some e => forall nc rb rvals cvals srt, 0 < nc -> List.length rb = List.length rvals ->
      Forall finite_or_nan rvals -> Forall nonneg_count (mcol rb 0) ->
      veval (env_part (cmargin_attrs nc rb rvals cvals) srt) e
      = opt_val (columns_scale_median_margin rb rvals)
  | None => True
  end.
Proof.
  unfold_vsrcs; try exact I.
  all: intros nc rb rvals cvals srt Hnc Hlen Hfin Hnn.
  all: unfold columns_scale_median_margin.
  all: part_env; vstage1.
  all: change (v_array (VV rvals)) with (VV rvals).
  all: change (v_invert (v_isnan (VV rvals))) with (VBV (map negb (map is_nan rvals))).
  all: assert (Em : v_item_cols (VM nc rb) (VZ 0) = VV (mcol rb 0))
         by (unfold v_item_cols, zidx; replace (0 <? Z.of_nat nc)%Z with true by lia; reflexivity).
  all: rewrite !Em.
  all: rewrite (median_tree_ok rvals (mcol rb 0)) by (try assumption; rewrite mcol_length; exact Hlen).
  all: change (v_all (v_isnan (VV rvals))) with (VB (forallb (fun b : bool => b) (map is_nan rvals))).
  all: rewrite all_isnan_any_value.
  all: destruct (any_value rvals); reflexivity.
Qed.

Lemma gen_Slice_rows_scale_median_margin :
  match vpsrc_Slice_rows_scale_median_margin with
  | Some e => forall nc cb rvals cvals srt, 0 < List.length cb -> List.length (mrow cb 0) = List.length cvals ->
      Forall finite_or_nan cvals -> Forall nonneg_count (mrow cb 0) ->
      veval (env_part (rmargin_attrs nc cb rvals cvals) srt) e
      = opt_val (rows_scale_median_margin cb cvals)
  | None => True
  end.
Proof.
  unfold_vsrcs; try exact I.
  all: intros nc cb rvals cvals srt Hnr Hlen Hfin Hnn.
  all: unfold rows_scale_median_margin.
  all: part_env; vstage1.
  all: change (v_array (VV cvals)) with (VV cvals).
  all: change (v_invert (v_isnan (VV cvals))) with (VBV (map negb (map is_nan cvals))).
  all: assert (Em : v_item_rows (VM nc cb) (VZ 0) = VV (mrow cb 0))
         by (unfold v_item_rows, zidx; replace (0 <? Z.of_nat (List.length cb))%Z with true by lia; reflexivity).
  all: rewrite !Em.
  all: rewrite (median_tree_ok cvals (mrow cb 0)) by assumption.
  all: change (v_all (v_isnan (VV cvals))) with (VB (forallb (fun b : bool => b) (map is_nan cvals))).
  all: rewrite all_isnan_any_value.
  all: destruct (any_value cvals); reflexivity.
Qed.

(* ------------------------------------------------------------------------------------ *)
(** * has_scale_means *)

Definition not_none (v : vval) : bool := match v with VNone => false | _ => true end.

Lemma gen_Slice_has_scale_means :
  match vpsrc_Slice_has_scale_means with
  | Some e => forall v srt, v <> VErr ->
      veval (env_part [("columns_scale_mean", v)] srt) e = VB (not_none v)
  | None => True
  end.
Proof.
  unfold_vsrcs; try exact I.
  all: intros v srt Hv; part_env; vstage1; destruct v; try congruence; reflexivity.
Qed.

Lemma gen_Strand_has_scale_means :
  match vpsrc_Strand_has_scale_means with
  | Some e => forall v srt, v <> VErr ->
      veval (env_part [("scale_mean", v)] srt) e = VB (not_none v)
  | None => True
  end.
Proof.
  unfold_vsrcs; try exact I.
  all: intros v srt Hv; part_env; vstage1; destruct v; try congruence; reflexivity.
Qed.
