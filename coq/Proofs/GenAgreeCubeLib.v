(* GenAgreeCubeLib: lemmas about the Python-semantics combinators (Base/PyJson.v, Model/PyCube.v) the
   generated text of Gen/CubeSrc.v is built from, and the tactics of the agreement proofs
   (Proofs/GenAgreeCube*.v). *)
From Coq Require Import List ZArith QArith String Bool Lia Arith.
From CC Require Import Base.XQ Base.ListX Base.PyList Base.PyJson Spec.Survey Model.CubeCounts Model.DimType
  Model.Population Model.PyCube.
Import ListNotations.
Local Close Scope Q_scope.
Local Open Scope Z_scope.

(* [dep lem src]: the member under proof reads member [src], whose agreement lemma is [lem] *)
Ltac dep lem src :=
  generalize lem; destruct src; [intro | intros _; exact I].
Ltac gen_open := cbv beta iota; intros.

(* --- the exception monad ------------------------------------------------------------------------ *)
Lemma pbind_ret {A} (r : pres A) : pbind r (fun x => POk x) = r.
Proof. destruct r; reflexivity. Qed.

Lemma pbind_assoc {A B C} (r : pres A) (f : A -> pres B) (g : B -> pres C) :
  pbind (pbind r f) g = pbind r (fun x => pbind (f x) g).
Proof. destruct r; reflexivity. Qed.

Lemma pmapM_ok {A B} (f : A -> pres B) (g : A -> B) l :
  (forall x, In x l -> f x = POk (g x)) -> pmapM f l = POk (map g l).
Proof.
  induction l as [|x t IH]; intros H; simpl; auto.
  rewrite H by (simpl; auto). simpl. rewrite IH by (intros; apply H; simpl; auto). reflexivity.
Qed.

Lemma pfilterM_ok {A} (f : A -> pres bool) (g : A -> bool) l :
  (forall x, In x l -> f x = POk (g x)) -> pfilterM f l = POk (filter g l).
Proof.
  induction l as [|x t IH]; intros H; simpl; auto.
  rewrite H by (simpl; auto). simpl. rewrite IH by (intros; apply H; simpl; auto).
  simpl. destruct (g x); reflexivity.
Qed.

Lemma py_list_getitem_0 {A} (x : A) l : py_list_getitem (x :: l) 0 = POk x.
Proof. reflexivity. Qed.

Lemma py_list_slice_from_1 {A} (x : A) l : py_list_slice_from (x :: l) 1 = l.
Proof.
  unfold py_list_slice_from, py_index. cbn [List.length].
  destruct (Z.leb_spec 0 1); [|lia].
  destruct (Z.ltb_spec 1 (Z.of_nat (S (List.length l)))).
  - reflexivity.
  - destruct l; [reflexivity|]. cbn [List.length] in *. lia.
Qed.

(* --- dicts ------------------------------------------------------------------------------------------ *)
Lemma py_dict_get_app {V} (a b : list (string * V)) k :
  py_dict_get String.eqb (a ++ b) k
  = match py_dict_get String.eqb a k with Some v => Some v | None => py_dict_get String.eqb b k end.
Proof.
  induction a as [|[k' v] t IH]; simpl; auto. destruct (String.eqb k' k); auto.
Qed.

Lemma lacks_get pre ks l k :
  lacks_keys pre ks -> In k ks ->
  py_dict_get String.eqb (pre ++ l) k = py_dict_get String.eqb l k.
Proof. intros H I. rewrite py_dict_get_app, (H k I). reflexivity. Qed.

(* [src_cases]: case analysis on every generated definition the goal (and the lemmas generalized into
   it) matches on; the cases where one of them is [None] are vacuous.  A proof unfolds the member it is
   about and every member whose lemma it uses under hypotheses about further members, so that an
   unavailable member makes everything that reads it unavailable. *)
Ltac src_cases :=
  repeat match goal with
         | |- context [match ?s with Some _ => _ | None => _ end] => is_const s; destruct s
         end;
  cbv beta iota;
  try solve [intros; exact I].
