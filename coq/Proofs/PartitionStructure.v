(* Proofs/PartitionStructure.v -- which partitions a cube has (Model/Partition.v):
   number and table elements of the partitions, the factory decision list, partition sets
   are the zip of the cubes' partitions, inflation leaves every value where it was. *)
From Coq Require Import QArith ZArith List Bool Lia Arith Sorted.
From CC Require Import Base.XQ Base.ListX Spec.Survey Model.CubeCounts Model.Partition
     Proofs.CubeCountsProofs.
Import ListNotations.
Local Close Scope Q_scope.
Local Open Scope nat_scope.

(* ------------------------------------------------------------------------------------ *)
(** * number of partitions; the element each partition stands for *)

Lemma map_nth_seq {A} (l : list A) d : map (fun k => nth k l d) (seq 0 (length l)) = l.
Proof. transitivity (map (fun x : A => x) l); [apply (tab_nth_map (fun x : A => x) l d)| apply map_id]. Qed.

Definition sliced (ds : list dimd) (ca0 : bool) : bool := negb ((cube_ndim ds <? 3) && negb ca0).

Lemma n_partitions_sliced ds ca0 d :
  sliced ds ca0 = true -> dim0 ds = Some d -> n_partitions ds ca0 = nvalid d.
Proof.
  unfold sliced, n_partitions, dim0, cube_ndim. intros Hs Hd.
  apply negb_true_iff in Hs. rewrite Hs. destruct (apparent ds); inversion Hd; reflexivity.
Qed.

Lemma n_partitions_single ds ca0 : sliced ds ca0 = false -> n_partitions ds ca0 = 1.
Proof.
  unfold sliced, n_partitions, cube_ndim. intros Hs. apply negb_false_iff in Hs. rewrite Hs.
  reflexivity.
Qed.

(* one partition per valid element of dimension 0 (3-D, or CA-as-0th), else exactly one *)
Theorem partitions_length ds ca0 :
  length (partitions ds ca0)
  = if sliced ds ca0 then match dim0 ds with Some d => nvalid d | None => 1 end else 1.
Proof.
  unfold partitions, slice_idxs. rewrite map_length, seq_length.
  destruct (sliced ds ca0) eqn:Hs.
  - destruct (dim0 ds) as [d|] eqn:Hd; [apply (n_partitions_sliced ds ca0 d Hs Hd)|].
    unfold n_partitions, dim0 in *. destruct (apparent ds); [|discriminate].
    destruct (_ && _); reflexivity.
  - apply n_partitions_single. exact Hs.
Qed.

Lemma partitions_idx ds ca0 : map pt_idx (partitions ds ca0) = seq 0 (n_partitions ds ca0).
Proof. unfold partitions, slice_idxs. rewrite map_map. simpl. apply map_id. Qed.

(* the table elements of the partitions, in partition order, are EXACTLY the non-missing
   elements of dimension 0 in payload order *)
Theorem partition_elements ds ca0 d :
  sliced ds ca0 = true -> dim0 ds = Some d ->
  map (fun p => table_element ds (pt_idx p)) (partitions ds ca0) = dvalid d.
Proof.
  intros Hs Hd. rewrite <- (map_map pt_idx (table_element ds)), partitions_idx.
  rewrite (n_partitions_sliced ds ca0 d Hs Hd). unfold table_element. rewrite Hd.
  apply map_nth_seq.
Qed.

(* ... and [dvalid d] is: every position of a non-missing element, once, ascending *)
Theorem dvalid_exact d :
  (forall c, In c (dvalid d) <-> c < dsize d /\ nth c (dmiss d) true = false)
  /\ NoDup (dvalid d) /\ StronglySorted lt (dvalid d).
Proof.
  split; [intros c; apply valid_idxs_In|]. split; [apply valid_idxs_NoDup| apply valid_idxs_sorted].
Qed.

(* partition k stands for the k-th valid element, never for a missing one *)
Theorem table_element_valid ds ca0 d k :
  sliced ds ca0 = true -> dim0 ds = Some d -> k < length (partitions ds ca0) ->
  table_element ds k < dsize d /\ nth (table_element ds k) (dmiss d) true = false.
Proof.
  intros Hs Hd Hk. rewrite partitions_length, Hs, Hd in Hk.
  unfold table_element. rewrite Hd. apply valid_idxs_In. apply nth_In. exact Hk.
Qed.

(* ------------------------------------------------------------------------------------ *)
(** * CubePartition.factory *)

Theorem factory_nub ndim ca0 : factory ndim ca0 = PNub <-> ndim = 0.
Proof.
  unfold factory. destruct (ndim =? 0) eqn:E0.
  - apply Nat.eqb_eq in E0. tauto.
  - apply Nat.eqb_neq in E0. destruct ((ndim =? 1) || ca0); split; try discriminate; tauto.
Qed.

Theorem factory_strand ndim ca0 :
  factory ndim ca0 = PStrand <-> ndim <> 0 /\ (ndim = 1 \/ ca0 = true).
Proof.
  unfold factory. destruct (ndim =? 0) eqn:E0.
  - apply Nat.eqb_eq in E0. split; [discriminate| tauto].
  - apply Nat.eqb_neq in E0. destruct (ndim =? 1) eqn:E1; simpl.
    + apply Nat.eqb_eq in E1. tauto.
    + apply Nat.eqb_neq in E1. destruct ca0; split; try discriminate; try tauto.
      intros [_ [H | H]]; [tauto | discriminate].
Qed.

Theorem factory_slice ndim ca0 : factory ndim ca0 = PSlice <-> 2 <= ndim /\ ca0 = false.
Proof.
  unfold factory. destruct (ndim =? 0) eqn:E0.
  - apply Nat.eqb_eq in E0. split; [discriminate| lia].
  - apply Nat.eqb_neq in E0. destruct (ndim =? 1) eqn:E1; simpl.
    + apply Nat.eqb_eq in E1. split; [discriminate| lia].
    + apply Nat.eqb_neq in E1. destruct ca0; split; try discriminate; try tauto.
      * intros [_ H]. discriminate.
      * intros _. split; [lia| reflexivity].
Qed.

(* all partitions of a cube are of the kind the factory picks for the cube *)
Theorem partitions_kind ds ca0 :
  Forall (fun p => pt_kind p = factory (cube_ndim ds) ca0) (partitions ds ca0).
Proof. unfold partitions. apply Forall_forall. intros p Hp. apply in_map_iff in Hp.
  destruct Hp as [k [<- _]]. reflexivity. Qed.

(* CA-as-0th needs a leading cube (or a single-column filter cube) whose first dimension is the
   sub-variables dimension of a categorical array *)
Theorem ca_as_0th_iff cube_idx single ds :
  ca_as_0th cube_idx single ds = true <->
  (cube_idx = Some 0 \/ single = true) /\ exists d, dim0 ds = Some d /\ is_ca_subvar d = true.
Proof.
  unfold ca_as_0th. rewrite andb_true_iff, orb_true_iff. split.
  - intros [[H | H] Hd].
    + split; [left; destruct cube_idx as [[|n]|]; try discriminate; reflexivity|].
      destruct (dim0 ds) as [d|]; [exists d; tauto| discriminate].
    + split; [right; exact H|]. destruct (dim0 ds) as [d|]; [exists d; tauto| discriminate].
  - intros [[H | H] [d [Hd Hc]]]; rewrite Hd; (split; [|exact Hc]).
    + left. rewrite H. reflexivity.
    + right. exact H.
Qed.

(* ------------------------------------------------------------------------------------ *)
(** * CubeSet.partition_sets = zip *)

Lemma fold_min_le l a : fold_left Nat.min l a <= a.
Proof. revert a. induction l as [|b t IH]; intros a; simpl; [lia|]. specialize (IH (Nat.min a b)). lia. Qed.

Lemma fold_min_le_in l a x : In x l -> fold_left Nat.min l a <= x.
Proof.
  revert a. induction l as [|b t IH]; intros a Hx; simpl; [destruct Hx|].
  destruct Hx as [<- | Hx]; [|apply IH; exact Hx].
  pose proof (fold_min_le t (Nat.min a b)). lia.
Qed.

Lemma min_len_le {A} (ls : list (list A)) l : In l ls -> min_len ls <= length l.
Proof.
  unfold min_len. destruct ls as [|l0 t]; [intros []|]. intros [<- | H].
  - apply fold_min_le.
  - apply fold_min_le_in. apply in_map. exact H.
Qed.

Lemma fold_min_all l a n : n <= a -> (forall x, In x l -> n <= x) -> n <= fold_left Nat.min l a.
Proof.
  revert a. induction l as [|b t IH]; intros a Ha H; simpl; [exact Ha|].
  apply IH; [|intros x Hx; apply H; right; exact Hx].
  pose proof (H b (or_introl eq_refl)). lia.
Qed.

(* when every cube has n partitions there are n partition sets *)
Lemma min_len_all {A} (ls : list (list A)) n :
  ls <> [] -> (forall l, In l ls -> length l = n) -> min_len ls = n.
Proof.
  intros Hne H. destruct ls as [|l0 t]; [congruence|]. unfold min_len.
  apply Nat.le_antisymm.
  - rewrite <- (H l0 (or_introl eq_refl)). apply fold_min_le.
  - apply fold_min_all; [rewrite (H l0 (or_introl eq_refl)); lia|].
    intros x Hx. apply in_map_iff in Hx. destruct Hx as [l [<- Hl]].
    rewrite (H l (or_intror Hl)). lia.
Qed.

Lemma zipn_length {A} (ls : list (list A)) : length (zipn ls) = min_len ls.
Proof. apply tab_length. Qed.

Lemma zip_row {A} (ls : list (list A)) k d :
  (forall l, In l ls -> k < length l) ->
  flat_map (fun l => match nth_error l k with Some x => [x] | None => [] end) ls
  = map (fun l => nth k l d) ls.
Proof.
  induction ls as [|l t IH]; intros H; simpl; [reflexivity|].
  rewrite IH by (intros; apply H; right; assumption).
  destruct (nth_error l k) as [x|] eqn:E.
  - rewrite (nth_error_nth l k d E). reflexivity.
  - apply nth_error_None in E. specialize (H l (or_introl eq_refl)). lia.
Qed.

(* partition set k holds the k-th partition of every cube, in cube order *)
Theorem zipn_nth {A} (ls : list (list A)) k d :
  k < min_len ls -> nth k (zipn ls) [] = map (fun l => nth k l d) ls.
Proof.
  intros Hk. unfold zipn. rewrite (tab_nth _ _ _ _ Hk). apply zip_row.
  intros l Hl. pose proof (min_len_le ls l Hl). lia.
Qed.

Theorem zipn_cell {A} (ls : list (list A)) k j d :
  k < min_len ls -> j < length ls ->
  nth j (nth k (zipn ls) []) d = nth k (nth j ls []) d /\ length (nth k (zipn ls) []) = length ls.
Proof.
  intros Hk Hj. rewrite (zipn_nth ls k d Hk). split; [|apply map_length].
  rewrite (nth_indep _ d (nth k [] d)) by (rewrite map_length; exact Hj).
  apply (map_nth (fun l => nth k l d)).
Qed.

(* ------------------------------------------------------------------------------------ *)
(** * Cube.inflate: one more (one-row) dimension, every value where it was *)

Lemma permute_seq_id l n : length l = n -> permute (seq 0 n) l = l.
Proof. intros <-. unfold permute. apply map_nth_seq. Qed.

Lemma dimension_order_plain ds :
  existsb is_numarr ds = false -> dimension_order ds = seq 0 (length ds).
Proof. intros H. unfold dimension_order. rewrite H, andb_false_r. reflexivity. Qed.

Lemma raw_shape_plain ds : existsb is_numarr ds = false -> raw_shape ds = map dsize ds.
Proof.
  intros H. unfold raw_shape. rewrite (dimension_order_plain ds H).
  apply permute_seq_id. apply map_length.
Qed.

Lemma remap_length vs idx : length vs = length idx -> length (remap vs idx) = length idx.
Proof.
  revert idx. induction vs as [|v t IH]; intros [|i ix] H; simpl in *; try discriminate; [reflexivity|].
  f_equal. apply IH. lia.
Qed.

Lemma inflate_dims_plain ds : existsb is_numarr ds = false -> inflate_dims ds = row1 :: ds.
Proof. intros H. unfold inflate_dims. rewrite H. reflexivity. Qed.

(* a numeric-array response is not changed at all *)
Theorem inflate_numarr ds : existsb is_numarr ds = true -> inflate_dims ds = ds.
Proof. intros H. unfold inflate_dims. rewrite H. reflexivity. Qed.

(* the flat data is the same list *)
Theorem inflate_data_id data : inflate_data data = data.
Proof. reflexivity. Qed.

(* every cell idx of the original cube is cell (0, idx) of the inflated one *)
Theorem inflate_tensor ds data idx :
  existsb is_numarr ds = false -> length idx = length ds ->
  take_valid_ord (inflate_dims ds) (of_flat (raw_shape (inflate_dims ds)) (inflate_data data)) (0 :: idx)
  = take_valid_ord ds (of_flat (raw_shape ds) data) idx.
Proof.
  intros Hn Hl. rewrite (inflate_dims_plain ds Hn). unfold inflate_data.
  assert (Hn' : existsb is_numarr (row1 :: ds) = false) by (simpl; exact Hn).
  unfold take_valid_ord. rewrite (raw_shape_plain _ Hn'), (raw_shape_plain _ Hn).
  rewrite (dimension_order_plain _ Hn'), (dimension_order_plain _ Hn).
  assert (Lr : length (remap (map dvalid ds) idx) = length ds)
    by (rewrite remap_length; [exact Hl| rewrite map_length; lia]).
  rewrite (permute_seq_id _ _ Lr).
  rewrite (permute_seq_id (remap (map dvalid (row1 :: ds)) (0 :: idx)) (length (row1 :: ds)))
    by (simpl; rewrite Lr; reflexivity).
  simpl map. simpl remap. unfold of_flat. simpl. reflexivity.
Qed.

(* the inflated cube has one more dimension, whose only element is valid *)
Theorem inflate_ndim ds :
  existsb is_numarr ds = false -> cube_ndim (inflate_dims ds) = 1 + cube_ndim ds.
Proof. intros H. rewrite (inflate_dims_plain ds H). reflexivity. Qed.

(* a 0-D response becomes a one-row strand, a 1-D response a one-row slice; still a single
   partition *)
Theorem inflate_partitions ds ca0 :
  existsb is_numarr ds = false -> cube_ndim ds <= 1 -> ca0 = false ->
  map pt_kind (partitions (inflate_dims ds) ca0)
  = [if cube_ndim ds =? 0 then PStrand else PSlice].
Proof.
  intros Hn Hd ->. unfold partitions, slice_idxs, n_partitions.
  fold (cube_ndim (inflate_dims ds)). rewrite (inflate_ndim ds Hn).
  assert ((1 + cube_ndim ds <? 3) = true) as -> by (apply Nat.ltb_lt; lia).
  simpl. unfold factory. destruct (cube_ndim ds) as [|[|n]]; [reflexivity| reflexivity| lia].
Qed.

(* the counts of the one row of an inflated categorical 1-D cube are the strand's counts *)
Theorem inflate_counts_1d ms data j :
  let d := mkDim DCat ms in
  j < nvalid d ->
  match slice_counts (inflate_dims [d]) (inflate_data data) 0, strand_counts [d] data false 0 with
  | Some so, Some st =>
      mnth (so_counts so) 0 j = vnth (st_counts st) j /\ nrows (so_counts so) = 1
  | _, _ => False
  end.
Proof.
  intros d Hj. unfold inflate_dims, inflate_data. simpl existsb. cbv iota.
  unfold slice_counts, strand_counts.
  assert (Hsi : slice_info_of [row1; d] = Some (mkSliceInfo 2 false row1 0 0 d 0 0)) by reflexivity.
  assert (Hsl : split_last (rev [d]) = Some (d, 0, 0, [])) by reflexivity.
  rewrite Hsi, Hsl. cbv iota beta.
  simpl si_row. simpl si_col. simpl cls_of. simpl so_counts. simpl st_counts. split.
  - rewrite tab2_mnth; [| unfold nvalid, dvalid; simpl; lia | exact Hj].
    rewrite tab_vnth by exact Hj.
    unfold counts_of, cc_counts, stripe_counts, sc_counts, slice_tensor. simpl si_ndim. simpl si_table_mr.
    unfold slice_at. simpl Nat.ltb. cbv iota.
    apply (inflate_tensor [d] data [j]); reflexivity.
  - apply tab2_nrows.
Qed.

(* ------------------------------------------------------------------------------------ *)
(** * the partition outputs follow the partitions *)

Lemma part_out_kind ds p ca0 k : po_kind (part_out_of ds p ca0 k) = factory (cube_ndim ds) ca0.
Proof. unfold part_out_of. destruct (factory (cube_ndim ds) ca0); reflexivity. Qed.

Theorem cube_parts_follow ds p ca0 :
  length (cube_parts ds p ca0) = length (partitions ds ca0)
  /\ map po_kind (cube_parts ds p ca0) = map pt_kind (partitions ds ca0).
Proof.
  unfold cube_parts, partitions. rewrite !map_length. split; [reflexivity|].
  rewrite !map_map. apply map_ext. intros k. apply part_out_kind.
Qed.

(* a slice partition of a 3-D cube is named after its table element, a strand after the
   element of dimension 0 it stands for *)
Theorem name_element_spec ds ca0 d k :
  dim0 ds = Some d -> k < nvalid d ->
  match factory (cube_ndim ds) ca0 with
  | PSlice => name_element ds PSlice k = if cube_ndim ds <? 3 then None else Some (table_element ds k)
  | PStrand => name_element ds PStrand k = Some (table_element ds k)
  | PNub => name_element ds PNub k = None
  end.
Proof.
  intros Hd Hk. unfold name_element, table_element. rewrite Hd.
  assert ((nvalid d =? 0) = false) as E by (apply Nat.eqb_neq; lia).
  destruct (factory (cube_ndim ds) ca0); rewrite ?E; reflexivity.
Qed.

(* ------------------------------------------------------------------------------------ *)
(** * CubeSet._cubes: which cube is augmented / inflated / CA-as-0th *)

(* a single response in a sequence is taken as it is: no cube index, hence no CA-as-0th
   (unless flagged single-column), no augmentation, no inflation *)
Theorem cubeset_solo c :
  cubeset_cubes [c] = Some [(c, ca_as_0th None (cd_single_col c) (cd_dims c))].
Proof. reflexivity. Qed.

Lemma is_multi_ge n : 2 <= n -> is_multi_cube n = true.
Proof. intros H. unfold is_multi_cube. apply Nat.ltb_lt. lia. Qed.

(* multi-cube set whose first response has dimensions: every ordinary cube is used as it is,
   with its position as cube index *)
Theorem cubeset_cube_plain cs idx c :
  2 <= length cs -> cube_ndim (cd_dims (nth 0 cs c)) <> 0 -> cd_single_col c = false ->
  cubeset_cube cs idx c = Some (c, ca_as_0th (Some idx) false (cd_dims c)).
Proof.
  intros Hn H0 Hs. unfold cubeset_cube, augments, is_numeric_measure, cube_idx_arg.
  rewrite (is_multi_ge _ Hn), Hs. simpl.
  assert ((cube_ndim (cd_dims (nth 0 cs c)) =? 0) = false) as -> by (apply Nat.eqb_neq; exact H0).
  rewrite Hs. reflexivity.
Qed.

(* multi-cube set whose first response is 0-D (numeric measure): every cube is inflated *)
Theorem cubeset_cube_numeric cs idx c :
  2 <= length cs -> cube_ndim (cd_dims (nth 0 cs c)) = 0 -> cd_single_col c = false ->
  cubeset_cube cs idx c
  = Some (inflate_cube c, ca_as_0th (Some idx) false (inflate_dims (cd_dims c))).
Proof.
  intros Hn H0 Hs. unfold cubeset_cube, augments, is_numeric_measure, cube_idx_arg.
  rewrite (is_multi_ge _ Hn), Hs. simpl. rewrite H0. simpl. rewrite Hs. reflexivity.
Qed.

(* the one row of an inflated multiple-response 1-D cube holds the strand's counts *)
Theorem inflate_counts_1d_mr ms data j :
  let ds := [mkDim DMrSubvar ms; mkDim DMrCat mr_cat_missing] in
  j < nvalid (mkDim DMrSubvar ms) ->
  match slice_counts (inflate_dims ds) (inflate_data data) 0, strand_counts ds data false 0 with
  | Some so, Some st =>
      mnth (so_counts so) 0 j = vnth (st_counts st) j /\ nrows (so_counts so) = 1
  | _, _ => False
  end.
Proof.
  intros ds Hj. unfold inflate_dims, inflate_data. simpl existsb. cbv iota.
  unfold slice_counts, strand_counts.
  assert (Hsi : slice_info_of (row1 :: ds)
                = Some (mkSliceInfo 2 false row1 0 0 (mkDim DMrSubvar ms) 2 3)) by reflexivity.
  assert (Hsl : split_last (rev ds) = Some (mkDim DMrSubvar ms, 2, 3, [])) by reflexivity.
  rewrite Hsi, Hsl. cbv iota beta.
  simpl si_row. simpl si_col. simpl cls_of. simpl so_counts. simpl st_counts. split.
  - rewrite tab2_mnth; [| unfold nvalid, dvalid; simpl; lia | exact Hj].
    rewrite tab_vnth by exact Hj.
    unfold counts_of, cm_counts, stripe_counts, sm_counts, slice_tensor. simpl si_ndim. simpl si_table_mr.
    unfold slice_at. simpl Nat.ltb. cbv iota.
    apply (inflate_tensor ds data [j; 0]); reflexivity.
  - apply tab2_nrows.
Qed.
