(* Proofs/ComposePayload.v -- the glue from the FLAT PAYLOAD of a survey to the blocks of
   Proofs/ComposeBase.v.

   [survey_payload] is the response a cube query over (table variable,) rows variable, columns
   variable returns for the survey S: the row-major flattening of [tabulate S] in the all-dimensions
   shape (missing elements and the full MR selection axis included).  [slice_counts] is the function
   of Model/CubeCounts.v the correspondence checks evaluate on the JSON payload (reshape ->
   Cube._valid_idxs -> dimension order -> _slice_idx_expr -> count class).  For every survey, every
   CAT / MR x CAT / MR cube (2-D, or 3-D with a CAT / MR table variable) and every partition k:

        slice_counts (cube_dims ...) (survey_payload ...) k = Some so   with
        so_counts so = t_counts ...,  so_row_bases so = t_rb ...,
        so_column_bases so = t_cb ...,  so_table_bases so = t_tb ...            (equal as matrices)

   so every composed theorem stated on [t_counts] / [t_rb] / [t_cb] / [t_tb] is a theorem about what
   the model computes from the payload. *)
From Coq Require Import QArith ZArith List Bool Lia Arith.
From CC Require Import Base.XQ Base.ListX Spec.Survey Model.CubeCounts Proofs.CubeCountsProofs
     Proofs.ComposeBase.
Import ListNotations.
Local Close Scope Q_scope.
Local Open Scope nat_scope.

Definition survey_payload (tv : tvar) vr kr mr vc kc mc (S : survey) : list xq :=
  flatten (raw_shape (cube_dims tv kr mr kc mc)) (raw_of (cube_vars tv vr kr vc kc) S).

(* ---- generic facts ---------------------------------------------------------------------- *)
Lemma permute_id (l : list nat) : permute (seq 0 (length l)) l = l.
Proof.
  unfold permute. pose proof (tab_nth_map (fun x : nat => x) l 0) as H. unfold tab in H.
  rewrite H. apply map_id.
Qed.

Lemma remap_length vs idx : length vs = length idx -> length (remap vs idx) = length idx.
Proof.
  revert idx. induction vs as [|v t IH]; intros [|i idx] H; simpl in *; try discriminate; [reflexivity|].
  f_equal. apply IH. lia.
Qed.

(* without a numeric array the payload is in dimension order, and reshaping the flattening of a
   tensor reads the tensor *)
Lemma payload_read ds (T : tensor) idx :
  existsb is_numarr ds = false -> length idx = length ds ->
  in_boundsb (map dsize ds) (remap (map dvalid ds) idx) = true ->
  take_valid_ord ds (of_flat (raw_shape ds) (flatten (raw_shape ds) T)) idx = take_valid ds T idx.
Proof.
  intros Hn Hl Hb. unfold take_valid_ord, take_valid, raw_shape, dimension_order.
  rewrite Hn, andb_false_r.
  assert (L1 : length (map dsize ds) = length ds) by apply map_length.
  assert (L2 : length (remap (map dvalid ds) idx) = length ds).
  { rewrite remap_length; [exact Hl| rewrite map_length; symmetry; exact Hl]. }
  rewrite <- L1 at 1 2. rewrite permute_id.
  rewrite <- L2 at 1. rewrite permute_id.
  apply of_flat_flatten. exact Hb.
Qed.

Lemma valid_ltb ms i : i < nval ms -> (nth i (valid_idxs ms) 0 <? length ms) = true.
Proof.
  intros H. apply Nat.ltb_lt.
  assert (Hin : In (nth i (valid_idxs ms) 0) (valid_idxs ms)) by (apply nth_In; exact H).
  apply valid_idxs_In in Hin. tauto.
Qed.

Lemma mrsel_ltb s : s < 2 -> (nth s (valid_idxs mr_cat_missing) 0 <? 3) = true.
Proof. intros H. destruct s as [|[|s]]; try reflexivity. lia. Qed.

Lemma xsumn_ext n f g : (forall k, k < n -> f k = g k) -> xsumn n f = xsumn n g.
Proof.
  intros H. unfold xsumn, tab. f_equal. apply map_ext_in. intros k Hk. apply in_seq in Hk. apply H. lia.
Qed.

Lemma tab2_ext nr nc f g :
  (forall i j, i < nr -> j < nc -> f i j = g i j) -> tab2 nr nc f = tab2 nr nc g.
Proof.
  intros H. unfold tab2, tab. apply map_ext_in. intros i Hi. apply in_seq in Hi.
  apply map_ext_in. intros j Hj. apply in_seq in Hj. apply H; lia.
Qed.

(* ---- the glue --------------------------------------------------------------------------- *)
Ltac inb :=
  cbn [map remap in_boundsb dsize dvalid dmiss nth length];
  repeat (apply andb_true_intro; split);
  first [ reflexivity
        | apply valid_ltb; assumption
        | apply mrsel_ltb; lia ].

Ltac cellread :=
  repeat (apply xsumn_ext; intros ? ?);
  apply payload_read; [reflexivity | reflexivity | inb].

Theorem slice_counts_of_survey S tv vr kr mr vc kc mc k :
  t_ok tv -> cat_or_mr kr -> cat_or_mr kc -> k < t_n tv ->
  exists so,
    slice_counts (cube_dims tv kr mr kc mc) (survey_payload tv vr kr mr vc kc mc S) k = Some so /\
    so_counts so = t_counts S tv vr kr mr vc kc mc k /\
    so_row_bases so = t_rb S tv vr kr mr vc kc mc k /\
    so_column_bases so = t_cb S tv vr kr mr vc kc mc k /\
    so_table_bases so = t_tb S tv vr kr mr vc kc mc k.
Proof.
  intros Ht Hr Hc Hk. unfold survey_payload.
  destruct tv as [[[vt kt] mt]|]; simpl in Ht, Hk.
  - destruct Ht as [-> | ->], Hr as [-> | ->], Hc as [-> | ->];
      (eexists; split; [reflexivity|]);
      cbn [so_counts so_row_bases so_column_bases so_table_bases];
      unfold t_counts, t_rb, t_cb, t_tb;
      (repeat split); apply tab2_ext; intros i j Hi Hj;
      cbn [kcls cls_of dk si_row si_col counts_of row_bases_of column_bases_of table_bases_of];
      unfold cc_counts, cc_row_bases, cc_rows_base, cc_column_bases, cc_columns_base, cc_table_bases, cc_table_base,
             cm_counts, cm_row_bases, cm_column_bases, cm_columns_base, cm_table_bases, cm_columns_table_base,
             mc_counts, mc_row_bases, mc_rows_base, mc_column_bases, mc_table_bases, mc_rows_table_base,
             mm_counts, mm_row_bases, mm_column_bases, mm_table_bases;
      cellread.
  - destruct Hr as [-> | ->], Hc as [-> | ->];
      (eexists; split; [reflexivity|]);
      cbn [so_counts so_row_bases so_column_bases so_table_bases];
      unfold t_counts, t_rb, t_cb, t_tb;
      (repeat split); apply tab2_ext; intros i j Hi Hj;
      cbn [kcls cls_of dk si_row si_col counts_of row_bases_of column_bases_of table_bases_of];
      unfold cc_counts, cc_row_bases, cc_rows_base, cc_column_bases, cc_columns_base, cc_table_bases, cc_table_base,
             cm_counts, cm_row_bases, cm_column_bases, cm_columns_base, cm_table_bases, cm_columns_table_base,
             mc_counts, mc_row_bases, mc_rows_base, mc_column_bases, mc_table_bases, mc_rows_table_base,
             mm_counts, mm_row_bases, mm_column_bases, mm_table_bases;
      cellread.
Qed.
