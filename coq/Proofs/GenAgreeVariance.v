(* Proofs/GenAgreeVariance.v -- GenAgree for C11: what the source SAYS NOW for
     SecondOrderMeasures.row / column / table _proportion_variances   (_ProportionVariances with the
         proportions and totals the collection hands to it; _calc_var; PositiveTermSubtotals /
         NegativeTermSubtotals on the weighted cube counts; the ignored count)
     SecondOrderMeasures.row / column / table _std_err                 (np.sqrt(variance / base))
     StripeMeasures.table_proportion_variances / _stddevs / _stderrs
     cubepart._Slice.row / column / table _proportions_moe, _Strand.table_proportion_moes
   denotes the definitions of Model/Variance.v the theorems of Props/C11.v are about:
   [variance_blocks] (= [var_cell] of each block's own proportion, total, positive and negative
   count), [stderr_sq], [moe_sq], [strand_var_base], [strand_var_subtotals].
   Radical quantities are stated through their signed squares ([meval_sq], Base/MeasureExp.v):
   the square of np.sqrt(v) is [sqrt_guard v].  See GenAgreeMeasTac.v. *)
From Coq Require Import QArith ZArith List Bool Lia Arith String.
From CC Require Import Base.XQ Base.ListX Base.MeasureExp
     Model.Subtotals Model.Proportions Model.Variance
     Gen.MeasureSrc Gen.StripeMeasureSrc Gen.PartMeasureSrc Gen.Tables Proofs.GenAgreeMeasTac.
Import ListNotations.
Local Close Scope Q_scope.
Local Open Scope string_scope.
Local Open Scope nat_scope.

(* the variance blocks of orientation o: [variance_blocks] on the weighted cube counts, the
   proportion blocks "<o>_proportions" and the base blocks "<o>_weighted_bases", BY NAME *)
Definition var_model nr nc rsubs csubs (blk : string -> nat -> nat -> list (list xq))
           (cubem : string -> string -> list (list xq)) (props bases : string) : blocks :=
  variance_blocks (cubem "weighted_cube_counts" "counts") nr nc rsubs csubs
                  (blocks_of (blk props)) (blocks_of (blk bases)).

Ltac gen_var :=
  gen_meas_with ltac:(cbv [var_model variance_blocks map4 blocks_of b_base b_cols b_rows b_inter]).

Lemma gen_RowProportionVariances_blocks_00 :
  match src_RowProportionVariances_blocks_00 with
  | Some e => forall nr nc rsubs csubs rd cd blk cubem cubeflag flag,
      holds_mat (menv_mat nr nc rsubs csubs rd cd blk cubem cubeflag flag) e DR DC
        (mnth (b_base (var_model nr nc rsubs csubs blk cubem "row_proportions" "row_weighted_bases")))
  | None => True
  end.
Proof. gen_var. Qed.

Lemma gen_RowProportionVariances_blocks_01 :
  match src_RowProportionVariances_blocks_01 with
  | Some e => forall nr nc rsubs csubs rd cd blk cubem cubeflag flag,
      holds_mat (menv_mat nr nc rsubs csubs rd cd blk cubem cubeflag flag) e DR DCS
        (mnth (b_cols (var_model nr nc rsubs csubs blk cubem "row_proportions" "row_weighted_bases")))
  | None => True
  end.
Proof. gen_var. Qed.

Lemma gen_RowProportionVariances_blocks_10 :
  match src_RowProportionVariances_blocks_10 with
  | Some e => forall nr nc rsubs csubs rd cd blk cubem cubeflag flag,
      holds_mat (menv_mat nr nc rsubs csubs rd cd blk cubem cubeflag flag) e DRS DC
        (mnth (b_rows (var_model nr nc rsubs csubs blk cubem "row_proportions" "row_weighted_bases")))
  | None => True
  end.
Proof. gen_var. Qed.

Lemma gen_RowProportionVariances_blocks_11 :
  match src_RowProportionVariances_blocks_11 with
  | Some e => forall nr nc rsubs csubs rd cd blk cubem cubeflag flag,
      holds_mat (menv_mat nr nc rsubs csubs rd cd blk cubem cubeflag flag) e DRS DCS
        (mnth (b_inter (var_model nr nc rsubs csubs blk cubem "row_proportions" "row_weighted_bases")))
  | None => True
  end.
Proof. gen_var. Qed.

Lemma gen_ColumnProportionVariances_blocks_00 :
  match src_ColumnProportionVariances_blocks_00 with
  | Some e => forall nr nc rsubs csubs rd cd blk cubem cubeflag flag,
      holds_mat (menv_mat nr nc rsubs csubs rd cd blk cubem cubeflag flag) e DR DC
        (mnth (b_base (var_model nr nc rsubs csubs blk cubem "column_proportions" "column_weighted_bases")))
  | None => True
  end.
Proof. gen_var. Qed.

Lemma gen_ColumnProportionVariances_blocks_01 :
  match src_ColumnProportionVariances_blocks_01 with
  | Some e => forall nr nc rsubs csubs rd cd blk cubem cubeflag flag,
      holds_mat (menv_mat nr nc rsubs csubs rd cd blk cubem cubeflag flag) e DR DCS
        (mnth (b_cols (var_model nr nc rsubs csubs blk cubem "column_proportions" "column_weighted_bases")))
  | None => True
  end.
Proof. gen_var. Qed.

Lemma gen_ColumnProportionVariances_blocks_10 :
  match src_ColumnProportionVariances_blocks_10 with
  | Some e => forall nr nc rsubs csubs rd cd blk cubem cubeflag flag,
      holds_mat (menv_mat nr nc rsubs csubs rd cd blk cubem cubeflag flag) e DRS DC
        (mnth (b_rows (var_model nr nc rsubs csubs blk cubem "column_proportions" "column_weighted_bases")))
  | None => True
  end.
Proof. gen_var. Qed.

Lemma gen_ColumnProportionVariances_blocks_11 :
  match src_ColumnProportionVariances_blocks_11 with
  | Some e => forall nr nc rsubs csubs rd cd blk cubem cubeflag flag,
      holds_mat (menv_mat nr nc rsubs csubs rd cd blk cubem cubeflag flag) e DRS DCS
        (mnth (b_inter (var_model nr nc rsubs csubs blk cubem "column_proportions" "column_weighted_bases")))
  | None => True
  end.
Proof. gen_var. Qed.

Lemma gen_TableProportionVariances_blocks_00 :
  match src_TableProportionVariances_blocks_00 with
  | Some e => forall nr nc rsubs csubs rd cd blk cubem cubeflag flag,
      holds_mat (menv_mat nr nc rsubs csubs rd cd blk cubem cubeflag flag) e DR DC
        (mnth (b_base (var_model nr nc rsubs csubs blk cubem "table_proportions" "table_weighted_bases")))
  | None => True
  end.
Proof. gen_var. Qed.

Lemma gen_TableProportionVariances_blocks_01 :
  match src_TableProportionVariances_blocks_01 with
  | Some e => forall nr nc rsubs csubs rd cd blk cubem cubeflag flag,
      holds_mat (menv_mat nr nc rsubs csubs rd cd blk cubem cubeflag flag) e DR DCS
        (mnth (b_cols (var_model nr nc rsubs csubs blk cubem "table_proportions" "table_weighted_bases")))
  | None => True
  end.
Proof. gen_var. Qed.

Lemma gen_TableProportionVariances_blocks_10 :
  match src_TableProportionVariances_blocks_10 with
  | Some e => forall nr nc rsubs csubs rd cd blk cubem cubeflag flag,
      holds_mat (menv_mat nr nc rsubs csubs rd cd blk cubem cubeflag flag) e DRS DC
        (mnth (b_rows (var_model nr nc rsubs csubs blk cubem "table_proportions" "table_weighted_bases")))
  | None => True
  end.
Proof. gen_var. Qed.

Lemma gen_TableProportionVariances_blocks_11 :
  match src_TableProportionVariances_blocks_11 with
  | Some e => forall nr nc rsubs csubs rd cd blk cubem cubeflag flag,
      holds_mat (menv_mat nr nc rsubs csubs rd cd blk cubem cubeflag flag) e DRS DCS
        (mnth (b_inter (var_model nr nc rsubs csubs blk cubem "table_proportions" "table_weighted_bases")))
  | None => True
  end.
Proof. gen_var. Qed.

(* ------------------------------------------------------------------------------------ *)
(** * standard errors: the square of np.sqrt(variance / base) *)

Definition se_model (blk : string -> nat -> nat -> list (list xq)) (var bases : string)
           (bi bj i j : nat) : xq :=
  sqrt_guard (stderr_sq (mnth (blk var bi bj) i j) (mnth (blk bases bi bj) i j)).

Ltac gen_se := gen_meas_with ltac:(cbv [se_model stderr_sq]).

Lemma gen_RowStandardError_blocks_00 :
  match src_RowStandardError_blocks_00 with
  | Some e => forall nr nc rsubs csubs rd cd blk cubem cubeflag flag,
      holds_mat_sq (menv_mat nr nc rsubs csubs rd cd blk cubem cubeflag flag) e DR DC
        (se_model blk "row_proportion_variances" "row_weighted_bases" 0 0)
  | None => True
  end.
Proof. gen_se. Qed.

Lemma gen_RowStandardError_blocks_01 :
  match src_RowStandardError_blocks_01 with
  | Some e => forall nr nc rsubs csubs rd cd blk cubem cubeflag flag,
      holds_mat_sq (menv_mat nr nc rsubs csubs rd cd blk cubem cubeflag flag) e DR DCS
        (se_model blk "row_proportion_variances" "row_weighted_bases" 0 1)
  | None => True
  end.
Proof. gen_se. Qed.

Lemma gen_RowStandardError_blocks_10 :
  match src_RowStandardError_blocks_10 with
  | Some e => forall nr nc rsubs csubs rd cd blk cubem cubeflag flag,
      holds_mat_sq (menv_mat nr nc rsubs csubs rd cd blk cubem cubeflag flag) e DRS DC
        (se_model blk "row_proportion_variances" "row_weighted_bases" 1 0)
  | None => True
  end.
Proof. gen_se. Qed.

Lemma gen_RowStandardError_blocks_11 :
  match src_RowStandardError_blocks_11 with
  | Some e => forall nr nc rsubs csubs rd cd blk cubem cubeflag flag,
      holds_mat_sq (menv_mat nr nc rsubs csubs rd cd blk cubem cubeflag flag) e DRS DCS
        (se_model blk "row_proportion_variances" "row_weighted_bases" 1 1)
  | None => True
  end.
Proof. gen_se. Qed.

Lemma gen_ColumnStandardError_blocks_00 :
  match src_ColumnStandardError_blocks_00 with
  | Some e => forall nr nc rsubs csubs rd cd blk cubem cubeflag flag,
      holds_mat_sq (menv_mat nr nc rsubs csubs rd cd blk cubem cubeflag flag) e DR DC
        (se_model blk "column_proportion_variances" "column_weighted_bases" 0 0)
  | None => True
  end.
Proof. gen_se. Qed.

Lemma gen_ColumnStandardError_blocks_01 :
  match src_ColumnStandardError_blocks_01 with
  | Some e => forall nr nc rsubs csubs rd cd blk cubem cubeflag flag,
      holds_mat_sq (menv_mat nr nc rsubs csubs rd cd blk cubem cubeflag flag) e DR DCS
        (se_model blk "column_proportion_variances" "column_weighted_bases" 0 1)
  | None => True
  end.
Proof. gen_se. Qed.

Lemma gen_ColumnStandardError_blocks_10 :
  match src_ColumnStandardError_blocks_10 with
  | Some e => forall nr nc rsubs csubs rd cd blk cubem cubeflag flag,
      holds_mat_sq (menv_mat nr nc rsubs csubs rd cd blk cubem cubeflag flag) e DRS DC
        (se_model blk "column_proportion_variances" "column_weighted_bases" 1 0)
  | None => True
  end.
Proof. gen_se. Qed.

Lemma gen_ColumnStandardError_blocks_11 :
  match src_ColumnStandardError_blocks_11 with
  | Some e => forall nr nc rsubs csubs rd cd blk cubem cubeflag flag,
      holds_mat_sq (menv_mat nr nc rsubs csubs rd cd blk cubem cubeflag flag) e DRS DCS
        (se_model blk "column_proportion_variances" "column_weighted_bases" 1 1)
  | None => True
  end.
Proof. gen_se. Qed.

Lemma gen_TableStandardError_blocks_00 :
  match src_TableStandardError_blocks_00 with
  | Some e => forall nr nc rsubs csubs rd cd blk cubem cubeflag flag,
      holds_mat_sq (menv_mat nr nc rsubs csubs rd cd blk cubem cubeflag flag) e DR DC
        (se_model blk "table_proportion_variances" "table_weighted_bases" 0 0)
  | None => True
  end.
Proof. gen_se. Qed.

Lemma gen_TableStandardError_blocks_01 :
  match src_TableStandardError_blocks_01 with
  | Some e => forall nr nc rsubs csubs rd cd blk cubem cubeflag flag,
      holds_mat_sq (menv_mat nr nc rsubs csubs rd cd blk cubem cubeflag flag) e DR DCS
        (se_model blk "table_proportion_variances" "table_weighted_bases" 0 1)
  | None => True
  end.
Proof. gen_se. Qed.

Lemma gen_TableStandardError_blocks_10 :
  match src_TableStandardError_blocks_10 with
  | Some e => forall nr nc rsubs csubs rd cd blk cubem cubeflag flag,
      holds_mat_sq (menv_mat nr nc rsubs csubs rd cd blk cubem cubeflag flag) e DRS DC
        (se_model blk "table_proportion_variances" "table_weighted_bases" 1 0)
  | None => True
  end.
Proof. gen_se. Qed.

Lemma gen_TableStandardError_blocks_11 :
  match src_TableStandardError_blocks_11 with
  | Some e => forall nr nc rsubs csubs rd cd blk cubem cubeflag flag,
      holds_mat_sq (menv_mat nr nc rsubs csubs rd cd blk cubem cubeflag flag) e DRS DCS
        (se_model blk "table_proportion_variances" "table_weighted_bases" 1 1)
  | None => True
  end.
Proof. gen_se. Qed.

(* ------------------------------------------------------------------------------------ *)
(** * strand *)

Definition no_cube (_ _ : string) : mval := VErr.

Lemma gen_stripe_TableProportionVariances_base_values :
  match ssrc_TableProportionVariances_base_values with
  | Some e => forall subs rd vblk,
      holds_vec (senv_std (List.length (vblk "table_proportions" 0)) subs rd vblk no_cube) e DR
        (vnth (strand_var_base (vblk "table_proportions" 0)))
  | None => True
  end.
Proof. gen_meas_with ltac:(unfold strand_var_base). Qed.

Lemma gen_stripe_TableProportionVariances_subtotal_values :
  match ssrc_TableProportionVariances_subtotal_values with
  | Some e => forall n subs rd vblk,
      holds_vec (senv_std n subs rd vblk no_cube) e DRS
        (vnth (strand_var_subtotals (vblk "weighted_counts" 0) subs
                 (vblk "table_proportions" 1) (vblk "weighted_bases" 1)))
  | None => True
  end.
Proof. gen_meas_with ltac:(unfold strand_var_subtotals). Qed.

Lemma gen_stripe_TableProportionStddevs_base_values :
  match ssrc_TableProportionStddevs_base_values with
  | Some e => forall n subs rd vblk,
      holds_vec_sq (senv_std n subs rd vblk no_cube) e DR
        (fun i => sqrt_guard (vnth (vblk "table_proportion_variances" 0) i))
  | None => True
  end.
Proof. gen_meas. Qed.

Lemma gen_stripe_TableProportionStddevs_subtotal_values :
  match ssrc_TableProportionStddevs_subtotal_values with
  | Some e => forall n subs rd vblk,
      holds_vec_sq (senv_std n subs rd vblk no_cube) e DRS
        (fun i => sqrt_guard (vnth (vblk "table_proportion_variances" 1) i))
  | None => True
  end.
Proof. gen_meas. Qed.

Lemma gen_stripe_TableProportionStderrs_base_values :
  match ssrc_TableProportionStderrs_base_values with
  | Some e => forall n subs rd vblk,
      holds_vec_sq (senv_std n subs rd vblk no_cube) e DR
        (fun i => sqrt_guard (stderr_sq (vnth (vblk "table_proportion_variances" 0) i)
                                        (vnth (vblk "weighted_bases" 0) i)))
  | None => True
  end.
Proof. gen_meas_with ltac:(unfold stderr_sq). Qed.

Lemma gen_stripe_TableProportionStderrs_subtotal_values :
  match ssrc_TableProportionStderrs_subtotal_values with
  | Some e => forall n subs rd vblk,
      holds_vec_sq (senv_std n subs rd vblk no_cube) e DRS
        (fun i => sqrt_guard (stderr_sq (vnth (vblk "table_proportion_variances" 1) i)
                                        (vnth (vblk "weighted_bases" 1) i)))
  | None => True
  end.
Proof. gen_meas_with ltac:(unfold stderr_sq). Qed.

(* ------------------------------------------------------------------------------------ *)
(** * margins of error (cubepart.py): Z_975 * standard error, through signed squares *)

(* the module constants of cubepart.py, with the value the translator read (Gen/Tables.v) *)
Definition part_names (z : Q) (s : string) : xq :=
  if String.eqb s "Z_975" then Fin z else NaN.
(* one public array of the partition, by name *)
Definition part_mat (p : string) (m : list (list xq)) (s : string) : mval :=
  if String.eqb s p then VMat DR DC (mnth m) else VErr.
Definition part_vec (p : string) (v : list xq) (s : string) : mval :=
  if String.eqb s p then VVec DR (vnth v) else VErr.

Ltac gen_moe :=
  gen_meas_core ltac:(cbv [part_names part_mat part_vec String.eqb Ascii.eqb Bool.eqb])
                ltac:(unfold moe_sq, Z975, ssq; cbn [xabs xmul]).

Lemma gen_Slice_row_proportions_moe :
  match psrc_Slice_row_proportions_moe, tbl_Z_975 with
  | Some e, Some z => forall nr nc se,
      holds_mat_sq (penv_std nr nc (part_names z) no_scalar (part_mat "row_std_err" se)) e DR DC
        (fun i j => moe_sq (ssq (mnth se i j)))
  | _, _ => True
  end.
Proof. gen_moe. Qed.

Lemma gen_Slice_column_proportions_moe :
  match psrc_Slice_column_proportions_moe, tbl_Z_975 with
  | Some e, Some z => forall nr nc se,
      holds_mat_sq (penv_std nr nc (part_names z) no_scalar (part_mat "column_std_err" se)) e DR DC
        (fun i j => moe_sq (ssq (mnth se i j)))
  | _, _ => True
  end.
Proof. gen_moe. Qed.

Lemma gen_Slice_table_proportions_moe :
  match psrc_Slice_table_proportions_moe, tbl_Z_975 with
  | Some e, Some z => forall nr nc se,
      holds_mat_sq (penv_std nr nc (part_names z) no_scalar (part_mat "table_std_err" se)) e DR DC
        (fun i j => moe_sq (ssq (mnth se i j)))
  | _, _ => True
  end.
Proof. gen_moe. Qed.

Lemma gen_Strand_table_proportion_moes :
  match psrc_Strand_table_proportion_moes, tbl_Z_975 with
  | Some e, Some z => forall n se,
      holds_vec_sq (penv_std n 0 (part_names z) no_scalar (part_vec "table_proportion_stderrs" se)) e DR
        (fun i => moe_sq (ssq (vnth se i)))
  | _, _ => True
  end.
Proof. gen_moe. Qed.
