(* Proofs about Model/Zscore.v - the algebra behind property C12:
   the residual formula, the 2x2 chi-square identity, the block rules. *)
From Coq Require Import QArith Qabs ZArith List Bool Lia Arith Lqa.
From CC Require Import Base.XQ Base.ListX Model.Zscore.
Import ListNotations.
Open Scope Q_scope.

(* the value the code's expressions take on finite inputs, written exactly as the
   evaluation of the code's expression produces it *)
Definition qexp (r k t : Q) : Q := r * k / t.
Definition qvar (r k t : Q) : Q := r * k * (t + - r) * (t + - k) / (t * t * t).

Lemma cube_nz t : ~ t == 0 -> ~ t * t * t == 0.
Proof.
  intros H E. apply H.
  destruct (Qmult_integral _ _ E) as [E1|E1]; auto.
  destruct (Qmult_integral _ _ E1); auto.
Qed.

Lemma z_expected_fin r k t : ~ t == 0 ->
  z_expected (Fin r) (Fin k) (Fin t) = Fin (qexp r k t).
Proof. intros H. unfold z_expected. simpl xmul. apply xdiv_fin. exact H. Qed.

Lemma z_variance_fin r k t : ~ t == 0 ->
  z_variance (Fin r) (Fin k) (Fin t) = Fin (qvar r k t).
Proof.
  intros H. unfold z_variance, xsub. simpl xneg. simpl xadd. simpl xmul.
  apply xdiv_fin. apply cube_nz. exact H.
Qed.

Lemma xltb_fin_pos v : 0 < v -> xltb (Fin v) (Fin 0) = false.
Proof.
  intros H. simpl. destruct (Qlt_le_dec v 0) as [L|L]; auto.
  exfalso. apply (Qlt_irrefl 0). apply Qlt_trans with v; assumption.
Qed.

Lemma xltb_fin_neg v : v < 0 -> xltb (Fin v) (Fin 0) = true.
Proof.
  intros H. simpl. destruct (Qlt_le_dec v 0) as [L|L]; auto.
  exfalso. apply (Qlt_not_le _ _ H L).
Qed.

(* positive variance: z*|z| = d*|d| / variance with d = c - expected *)
Lemma z_zabs_fin c r k t : ~ t == 0 -> 0 < qvar r k t ->
  z_zabs (Fin c) (Fin r) (Fin k) (Fin t) =
  Fin ((c + - qexp r k t) * Qabs (c + - qexp r k t) / qvar r k t).
Proof.
  intros Ht Hv. unfold z_zabs, z_resid.
  rewrite z_variance_fin, z_expected_fin by exact Ht.
  rewrite xltb_fin_pos by exact Hv.
  unfold xsub. simpl xneg. simpl xadd. simpl xabs. simpl xmul.
  apply xdiv_fin. intros E. rewrite E in Hv. apply (Qlt_irrefl _ Hv).
Qed.

(* negative variance (cannot arise from 0 <= r,k <= t): sqrt gives NaN *)
Lemma z_zabs_negvar c r k t : ~ t == 0 -> qvar r k t < 0 ->
  z_zabs (Fin c) (Fin r) (Fin k) (Fin t) = NaN.
Proof.
  intros Ht Hv. unfold z_zabs. rewrite z_variance_fin by exact Ht.
  rewrite xltb_fin_neg by exact Hv. reflexivity.
Qed.

(* zero variance (row or column share 0 or 1): division by sqrt(0) = 0 *)
Lemma z_zabs_zerovar c r k t : ~ t == 0 -> qvar r k t == 0 ->
  z_zabs (Fin c) (Fin r) (Fin k) (Fin t) =
  (if qzero ((c + - qexp r k t) * Qabs (c + - qexp r k t)) then NaN
   else Inf (qneg ((c + - qexp r k t) * Qabs (c + - qexp r k t)))).
Proof.
  intros Ht Hv. unfold z_zabs, z_resid.
  rewrite z_variance_fin, z_expected_fin by exact Ht.
  assert (L : xltb (Fin (qvar r k t)) (Fin 0) = false).
  { simpl. destruct (Qlt_le_dec (qvar r k t) 0) as [L|L]; auto.
    rewrite Hv in L. exfalso. apply (Qlt_irrefl _ L). }
  rewrite L. unfold xsub. simpl xneg. simpl xadd. simpl xabs. simpl xmul.
  simpl. apply qzero_true in Hv. rewrite Hv. reflexivity.
Qed.

Lemma qvar_pos r k t : 0 < r -> r < t -> 0 < k -> k < t -> 0 < qvar r k t.
Proof.
  intros Hr Hrt Hk Hkt. unfold qvar.
  assert (Ht : 0 < t) by (apply Qlt_trans with r; assumption).
  apply Qlt_shift_div_l.
  - repeat apply Qmult_lt_0_compat; assumption.
  - rewrite Qmult_0_l.
    repeat apply Qmult_lt_0_compat; try assumption; lra.
Qed.

(* qvar is the textbook  e (1 - r/t) (1 - k/t)  with  e = r k / t *)
Lemma qvar_textbook r k t : ~ t == 0 ->
  qvar r k t == qexp r k t * (1 - r / t) * (1 - k / t).
Proof. intros H. unfold qvar, qexp. field. exact H. Qed.

(* ---- z_formula --------------------------------------------------------------------- *)
Theorem z_formula c r k t : 0 < r -> r < t -> 0 < k -> k < t ->
  let e := r * k / t in
  z_zabs (Fin c) (Fin r) (Fin k) (Fin t) =x=
  Fin ((c - e) * Qabs (c - e) / (e * (1 - r / t) * (1 - k / t))).
Proof.
  intros Hr Hrt Hk Hkt e.
  assert (Ht : ~ t == 0) by (intros E; rewrite E in Hrt; lra).
  rewrite z_zabs_fin by (auto using qvar_pos).
  simpl. rewrite (qvar_textbook r k t Ht). unfold qexp, e, Qminus. reflexivity.
Qed.

(* sign of z = sign of the residual *)
Lemma div_pos_sign x v : 0 < v -> (0 < x / v <-> 0 < x) /\ (x / v < 0 <-> x < 0) /\ (x / v == 0 <-> x == 0).
Proof.
  intros Hv. assert (Hi : 0 < / v) by (apply Qinv_lt_0_compat; exact Hv).
  unfold Qdiv. set (iv := / v) in *.
  assert (E : x == (x * iv) * v).
  { unfold iv. field. intros E. rewrite E in Hv. apply (Qlt_irrefl _ Hv). }
  repeat split; intros H; nra.
Qed.

Lemma mul_abs_sign d : (0 < d * Qabs d <-> 0 < d) /\ (d * Qabs d < 0 <-> d < 0).
Proof.
  destruct (Qlt_le_dec d 0) as [L|L].
  - rewrite (Qabs_neg d) by lra. split; split; intros; nra.
  - rewrite (Qabs_pos d) by lra. split; split; intros; nra.
Qed.

Theorem z_sign c r k t : 0 < r -> r < t -> 0 < k -> k < t ->
  let e := r * k / t in
  exists z2, z_zabs (Fin c) (Fin r) (Fin k) (Fin t) = Fin z2 /\
             (0 < z2 <-> e < c) /\ (z2 < 0 <-> c < e) /\ (z2 == 0 <-> c == e).
Proof.
  intros Hr Hrt Hk Hkt e.
  assert (Ht : ~ t == 0) by (intros E; rewrite E in Hrt; lra).
  pose proof (qvar_pos r k t Hr Hrt Hk Hkt) as Hv.
  eexists. split; [apply z_zabs_fin; auto|].
  fold e. unfold qexp. fold e. set (d := c + - e).
  destruct (div_pos_sign (d * Qabs d) _ Hv) as [P [N Z]].
  destruct (mul_abs_sign d) as [P' N'].
  split; [|split].
  - rewrite P, P'. unfold d. split; intros; lra.
  - rewrite N, N'. unfold d. split; intros; lra.
  - rewrite Z. split; intros H.
    + destruct (Qlt_le_dec d 0) as [L|L].
      * apply N' in L. lra.
      * destruct (Qlt_le_dec 0 d) as [L'|L']; [apply P' in L'; lra|]. unfold d in *. lra.
    + assert (E : d == 0) by (unfold d; lra). rewrite E. reflexivity.
Qed.

(* ---- z squared ------------------------------------------------------------------------ *)
Lemma abs_mul_abs d : Qabs (d * Qabs d) == d * d.
Proof.
  rewrite Qabs_Qmult.
  destruct (Qlt_le_dec d 0) as [L|L].
  - rewrite (Qabs_neg d) by lra. rewrite (Qabs_pos (- d)) by lra. ring.
  - rewrite (Qabs_pos d) by lra. rewrite (Qabs_pos d) by lra. ring.
Qed.

Lemma z_sq_fin c r k t : ~ t == 0 -> 0 < qvar r k t ->
  z_sq (Fin c) (Fin r) (Fin k) (Fin t) =x=
  Fin ((c - qexp r k t) * (c - qexp r k t) / qvar r k t).
Proof.
  intros Ht Hv. unfold z_sq. rewrite z_zabs_fin by assumption.
  unfold xabs, xeq. set (d := c + - qexp r k t).
  unfold Qdiv. rewrite Qabs_Qmult. rewrite abs_mul_abs.
  rewrite (Qabs_pos (/ qvar r k t)).
  - unfold d, Qminus. reflexivity.
  - apply Qlt_le_weak. apply Qinv_lt_0_compat. exact Hv.
Qed.

(* ---- 2x2: z^2 is Pearson's chi-square -------------------------------------------------
   table  a b      margins R1 = a+b, R2 = c+d, K1 = a+c, K2 = b+d, N = a+b+c+d
          c d
   cell (1,1): count a, row base R1, column base K1, table base N. *)
Lemma chi2_cell a b c d :
  0 < a + b -> 0 < c + d -> 0 < a + c -> 0 < b + d ->
  z_sq (Fin a) (Fin (a + b)) (Fin (a + c)) (Fin (a + b + c + d)) =x=
  Fin ((a + b + c + d) * ((a * d - b * c) * (a * d - b * c))
       / ((a + b) * (c + d) * (a + c) * (b + d))).
Proof.
  intros H1 H2 H3 H4.
  assert (Ht : ~ a + b + c + d == 0) by (intros E; lra).
  assert (Hv : 0 < qvar (a + b) (a + c) (a + b + c + d)) by (apply qvar_pos; lra).
  rewrite z_sq_fin by assumption. unfold xeq, qvar, qexp. field.
  repeat split; intros E; lra.
Qed.

Ltac chi2_tac :=
  rewrite z_sq_fin; [ | intros E; lra | apply qvar_pos; lra ];
  unfold xeq, qvar, qexp; field; repeat split; intros E; lra.

Theorem z_2x2_chi2 a b c d :
  0 < a + b -> 0 < c + d -> 0 < a + c -> 0 < b + d ->
  let N := a + b + c + d in
  let chi2 := N * ((a * d - b * c) * (a * d - b * c)) / ((a + b) * (c + d) * (a + c) * (b + d)) in
  z_sq (Fin a) (Fin (a + b)) (Fin (a + c)) (Fin N) =x= Fin chi2 /\
  z_sq (Fin b) (Fin (a + b)) (Fin (b + d)) (Fin N) =x= Fin chi2 /\
  z_sq (Fin c) (Fin (c + d)) (Fin (a + c)) (Fin N) =x= Fin chi2 /\
  z_sq (Fin d) (Fin (c + d)) (Fin (b + d)) (Fin N) =x= Fin chi2.
Proof.
  intros H1 H2 H3 H4. cbv zeta. repeat split; chi2_tac.
Qed.

(* ---- blocks --------------------------------------------------------------------------- *)
Local Close Scope Q_scope.
Local Open Scope nat_scope.

Lemma nan_like_mnth c i j : i < nrows c -> j < ncols c -> mnth (nan_like c) i j = NaN.
Proof. intros Hi Hj. unfold nan_like. apply tab2_mnth; assumption. Qed.

Lemma mall_eq_true a b :
  mall_eq a b = true <->
  (forall i j, i < nrows a -> j < ncols a -> xeqb (mnth a i j) (mnth b i j) = true).
Proof.
  unfold mall_eq. rewrite forallb_forall. split.
  - intros H i j Hi Hj.
    assert (Hin : In i (seq 0 (nrows a))) by (apply in_seq; lia).
    specialize (H i Hin). rewrite forallb_forall in H. apply H. apply in_seq. lia.
  - intros H i Hi. apply in_seq in Hi. apply forallb_forall. intros j Hj. apply in_seq in Hj.
    apply H; lia.
Qed.

(* a defective table: every cell of every block is NaN *)
Theorem zscores_block_defective base c t r k i j :
  defective base = true -> i < nrows c -> j < ncols c ->
  mnth (zscores_block base c t r k) i j = NaN.
Proof.
  intros H Hi Hj. unfold zscores_block, zblock. rewrite H. apply nan_like_mnth; assumption.
Qed.

(* the extra guard of the code: a block whose table bases all equal its row bases (or all
   equal its column bases) is NaN (every variance would be 0) *)
Theorem zscores_block_guard base c t r k i j :
  mall_eq t r = true \/ mall_eq t k = true -> i < nrows c -> j < ncols c ->
  mnth (zscores_block base c t r k) i j = NaN.
Proof.
  intros H Hi Hj. unfold zscores_block, zblock.
  destruct (defective base); [apply nan_like_mnth; assumption|].
  assert (E : mall_eq t r || mall_eq t k = true) by (destruct H as [H|H]; rewrite H; auto using orb_true_r).
  rewrite E. apply nan_like_mnth; assumption.
Qed.

(* otherwise each cell is computed from ITS OWN count and row / column / table bases *)
Theorem zscores_block_cell base c t r k i j :
  defective base = false -> mall_eq t r = false -> mall_eq t k = false ->
  i < nrows c -> j < ncols c ->
  mnth (zscores_block base c t r k) i j =
  z_zabs (mnth c i j) (mnth r i j) (mnth k i j) (mnth t i j).
Proof.
  intros H G1 G2 Hi Hj. unfold zscores_block, zblock. rewrite H, G1, G2. simpl.
  apply tab2_mnth; assumption.
Qed.

Lemma zscores_block_nrows base c t r k : nrows (zscores_block base c t r k) = nrows c.
Proof.
  unfold zscores_block, zblock, nan_like.
  destruct (defective base); [apply tab2_nrows|].
  destruct (mall_eq t r || mall_eq t k); apply tab2_nrows.
Qed.

(* block + formula: the full statement for one cell of any block of a non-defective table *)
Theorem zscores_block_formula base c t r k i j (qc qr qk qt : Q) :
  defective base = false -> mall_eq t r = false -> mall_eq t k = false ->
  i < nrows c -> j < ncols c ->
  mnth c i j = Fin qc -> mnth r i j = Fin qr -> mnth k i j = Fin qk -> mnth t i j = Fin qt ->
  (0 < qr)%Q -> (qr < qt)%Q -> (0 < qk)%Q -> (qk < qt)%Q ->
  let e := (qr * qk / qt)%Q in
  mnth (zscores_block base c t r k) i j =x=
  Fin ((qc - e) * Qabs (qc - e) / (e * (1 - qr / qt) * (1 - qk / qt)))%Q.
Proof.
  intros H G1 G2 Hi Hj Ec Er Ek Et P1 P2 P3 P4 e.
  rewrite zscores_block_cell by assumption. rewrite Ec, Er, Ek, Et.
  apply z_formula; assumption.
Qed.
