(* Proofs/ComposeProportions.v -- C03 END TO END.

   The model's row / column / table proportions (Model/Proportions.v), computed from the base
   blocks the model extracts from the tabulation of a survey (Proofs/ComposeBase.v), stated
   against the respondents, for EVERY survey with non-negative weights, every CAT / MR x CAT / MR
   slice (2-D and each partition of a 3-D cube), every base cell:

        row proportion (i, j)    = w(row i and column j) / w(row i and eligible for column j)
        column proportion (i, j) = w(row i and column j) / w(eligible for row i and column j)
        table proportion (i, j)  = w(row i and column j) / w(eligible for both)

   It is NaN exactly when that base is 0, otherwise a number in [0, 1] (never infinite) --
   0 <= count <= base is DERIVED from the survey (the counted respondents are a subset of the
   base's), not assumed.  Along a categorical dimension the proportions of ALL valid elements
   add up to 1 whenever the base is non-zero.  Whatever subtotals are inserted, whatever the
   valid-count / categorical-date flags: the base block does not look at them. *)
From Coq Require Import QArith ZArith List Bool Lia Arith Setoid Morphisms.
From CC Require Import Base.XQ Base.ListX Spec.Survey Model.CubeCounts Model.Subtotals
     Model.Proportions Proofs.CubeCountsProofs Proofs.ProportionsProofs Proofs.ComposeBase.
Import ListNotations.
Local Close Scope Q_scope.
Local Open Scope nat_scope.

(* a value that is (up to =x=) count / base with 0 <= count <= base *)
Definition ratio_spec (x : xq) (c b : Q) : Prop :=
  match x with
  | NaN => (b == 0)%Q
  | Fin p => ~ (b == 0)%Q /\ (p == c / b)%Q /\ (0 <= p)%Q /\ (p <= 1)%Q
  | Inf _ => False
  end.

Lemma ratio_cases (x : xq) (c b : Q) :
  x =x= xdiv (Fin c) (Fin b) -> (0 <= c)%Q -> (c <= b)%Q -> ratio_spec x c b.
Proof.
  intros Hx H0 Hcb. pose proof (prop_bounds c b H0 Hcb) as H. unfold ratio_spec.
  destruct (xdiv (Fin c) (Fin b)) as [q| |] eqn:E.
  - destruct x as [p| |]; simpl in Hx; try contradiction.
    destruct H as [H1 [H2 H3]]. rewrite (xdiv_fin c b H3) in E. injection E as E.
    split; [exact H3|]. split; [rewrite Hx, <- E; reflexivity|]. rewrite Hx. split; assumption.
  - contradiction.
  - destruct x; simpl in Hx; try contradiction. exact H.
Qed.

(* NaN exactly when the base is zero; a number exactly when it is not *)
Lemma ratio_spec_nan_iff x c b : ratio_spec x c b -> (x = NaN <-> (b == 0)%Q).
Proof.
  unfold ratio_spec. destruct x as [p|s|]; intros H.
  - split; [discriminate|]. intros Hb. destruct H as [Hn _]. contradiction.
  - contradiction.
  - split; auto.
Qed.

Lemma qsumn_div n (f : nat -> Q) (b : Q) :
  (qsumn n (fun j => f j / b) == qsumn n f / b)%Q.
Proof.
  unfold Qdiv. rewrite (qsumn_ext n _ (fun j => / b * f j)%Q) by (intros; ring).
  rewrite qsumn_scale. ring.
Qed.

(* ------------------------------------------------------------------------------------ *)
(** * the proportion blocks of the analysis of a survey *)

Section Analysis.
  Variable S : survey.
  Variable tv : tvar.
  Variables vr : nat.
  Variable kr : kind.
  Variable mr : list bool.
  Variable vc : nat.
  Variable kc : kind.
  Variable mc : list bool.
  Variable k : nat.
  Variables rsubs csubs : list subtotal.   (* any insertions *)
  Variables dn rd cd : bool.               (* valid counts present; rows / columns categorical-date *)

  Definition s_row_props : blocks :=
    row_proportions (nval mr) (nval mc) rsubs csubs (t_counts S tv vr kr mr vc kc mc k) dn rd cd
                    (t_rb S tv vr kr mr vc kc mc k).
  Definition s_col_props : blocks :=
    col_proportions (nval mr) (nval mc) rsubs csubs (t_counts S tv vr kr mr vc kc mc k) dn rd cd
                    (t_cb S tv vr kr mr vc kc mc k).
  Definition s_tab_props : blocks :=
    table_proportions (nval mr) (nval mc) rsubs csubs (t_counts S tv vr kr mr vc kc mc k) dn
                      (t_tb S tv vr kr mr vc kc mc k).

  Hypothesis Ht : t_ok tv.
  Hypothesis Hr : cat_or_mr kr.
  Hypothesis Hc : cat_or_mr kc.
  Hypothesis Hk : k < t_n tv.

  Notation wc := (w_cell tv k vr kr mr vc kc mc S).
  Notation wr := (w_rowbase tv k vr kr mr vc kc mc S).
  Notation wk := (w_colbase tv k vr kr mr vc kc mc S).
  Notation wt := (w_tabbase tv k vr kr mr vc kc mc S).

  (* the three base blocks, cell by cell, as quotients of the model's own base blocks *)
  Lemma s_row_props_base i j : i < nval mr -> j < nval mc ->
    mnth (b_base s_row_props) i j =
    xdiv (mnth (t_counts S tv vr kr mr vc kc mc k) i j) (mnth (t_rb S tv vr kr mr vc kc mc k) i j).
  Proof.
    intros Hi Hj. unfold s_row_props, row_proportions.
    rewrite (props_base _ _ rsubs csubs _ _ _ _ rd cd i j Hi Hj). reflexivity.
  Qed.
  Lemma s_col_props_base i j : i < nval mr -> j < nval mc ->
    mnth (b_base s_col_props) i j =
    xdiv (mnth (t_counts S tv vr kr mr vc kc mc k) i j) (mnth (t_cb S tv vr kr mr vc kc mc k) i j).
  Proof.
    intros Hi Hj. unfold s_col_props, col_proportions.
    rewrite (props_base _ _ rsubs csubs _ _ _ _ rd cd i j Hi Hj). reflexivity.
  Qed.
  Lemma s_tab_props_base i j : i < nval mr -> j < nval mc ->
    mnth (b_base s_tab_props) i j =
    xdiv (mnth (t_counts S tv vr kr mr vc kc mc k) i j) (mnth (t_tb S tv vr kr mr vc kc mc k) i j).
  Proof.
    intros Hi Hj. unfold s_tab_props, table_proportions, div_blocks. cbn [b_base].
    rewrite tab2_mnth by assumption. reflexivity.
  Qed.

  (* ---- prop_def at the survey level: weighted respondents over weighted respondents ---- *)
  Theorem row_proportion_survey i j : i < nval mr -> j < nval mc ->
    mnth (b_base s_row_props) i j =x= xdiv (Fin (wc i j)) (Fin (wr i j)).
  Proof.
    intros Hi Hj. rewrite (s_row_props_base i j Hi Hj).
    rewrite (t_counts_cell S tv vr kr mr vc kc mc k Ht Hr Hc Hk i j Hi Hj),
            (t_rb_cell S tv vr kr mr vc kc mc k Ht Hr Hc Hk i j Hi Hj). reflexivity.
  Qed.
  Theorem column_proportion_survey i j : i < nval mr -> j < nval mc ->
    mnth (b_base s_col_props) i j =x= xdiv (Fin (wc i j)) (Fin (wk i j)).
  Proof.
    intros Hi Hj. rewrite (s_col_props_base i j Hi Hj).
    rewrite (t_counts_cell S tv vr kr mr vc kc mc k Ht Hr Hc Hk i j Hi Hj),
            (t_cb_cell S tv vr kr mr vc kc mc k Ht Hr Hc Hk i j Hi Hj). reflexivity.
  Qed.
  Theorem table_proportion_survey i j : i < nval mr -> j < nval mc ->
    mnth (b_base s_tab_props) i j =x= xdiv (Fin (wc i j)) (Fin (wt i j)).
  Proof.
    intros Hi Hj. rewrite (s_tab_props_base i j Hi Hj).
    rewrite (t_counts_cell S tv vr kr mr vc kc mc k Ht Hr Hc Hk i j Hi Hj),
            (t_tb_cell S tv vr kr mr vc kc mc k Ht Hr Hc Hk i j Hi Hj). reflexivity.
  Qed.

  (* ---- prop_bounds + prop_nan_iff, count <= base derived from the survey ---------------- *)
  Hypothesis Hwf : wf_survey S.

  Theorem row_proportion_cases i j : i < nval mr -> j < nval mc ->
    ratio_spec (mnth (b_base s_row_props) i j) (wc i j) (wr i j).
  Proof.
    intros Hi Hj. apply ratio_cases.
    - apply row_proportion_survey; assumption.
    - apply w_cell_nonneg. exact Hwf.
    - apply w_cell_le_rowbase. exact Hwf.
  Qed.
  Theorem column_proportion_cases i j : i < nval mr -> j < nval mc ->
    ratio_spec (mnth (b_base s_col_props) i j) (wc i j) (wk i j).
  Proof.
    intros Hi Hj. apply ratio_cases.
    - apply column_proportion_survey; assumption.
    - apply w_cell_nonneg. exact Hwf.
    - apply w_cell_le_colbase. exact Hwf.
  Qed.
  Theorem table_proportion_cases i j : i < nval mr -> j < nval mc ->
    ratio_spec (mnth (b_base s_tab_props) i j) (wc i j) (wt i j).
  Proof.
    intros Hi Hj. apply ratio_cases.
    - apply table_proportion_survey; assumption.
    - apply w_cell_nonneg. exact Hwf.
    - apply w_cell_le_tabbase. exact Hwf.
  Qed.

  Theorem row_proportion_nan_iff i j : i < nval mr -> j < nval mc ->
    (mnth (b_base s_row_props) i j = NaN <-> (wr i j == 0)%Q).
  Proof. intros Hi Hj. apply (ratio_spec_nan_iff _ (wc i j)). apply row_proportion_cases; assumption. Qed.
  Theorem column_proportion_nan_iff i j : i < nval mr -> j < nval mc ->
    (mnth (b_base s_col_props) i j = NaN <-> (wk i j == 0)%Q).
  Proof. intros Hi Hj. apply (ratio_spec_nan_iff _ (wc i j)). apply column_proportion_cases; assumption. Qed.
  Theorem table_proportion_nan_iff i j : i < nval mr -> j < nval mc ->
    (mnth (b_base s_tab_props) i j = NaN <-> (wt i j == 0)%Q).
  Proof. intros Hi Hj. apply (ratio_spec_nan_iff _ (wc i j)). apply table_proportion_cases; assumption. Qed.
End Analysis.

(* ------------------------------------------------------------------------------------ *)
(** * prop_sum_one: along a categorical dimension the proportions of all valid elements add to 1 *)

(* row i of a quotient block whose base is constant along the row *)
Lemma row_sum_one nc (num : nat -> xq) (den : nat -> xq) (c : nat -> Q) (b : Q) :
  (forall j, j < nc -> num j =x= Fin (c j)) -> (forall j, j < nc -> den j =x= Fin b) ->
  (qsumn nc c == b)%Q -> ~ (b == 0)%Q ->
  xsum (tab nc (fun j => xdiv (num j) (den j))) =x= Fin 1.
Proof.
  intros Hn Hd Hs Hb.
  rewrite (xsum_tab_fin nc _ (fun j => c j / b)%Q).
  - simpl. rewrite qsumn_div, Hs. field. exact Hb.
  - intros j Hj. rewrite (Hn j Hj), (Hd j Hj). rewrite (xdiv_fin _ _ Hb). reflexivity.
Qed.

Section SumOneRows.
  Variable S : survey.
  Variable tv : tvar.
  Variables vr : nat.
  Variable kr : kind.
  Variable mr : list bool.
  Variable vc : nat.
  Variable mc : list bool.          (* the COLUMNS variable is categorical *)
  Variable k : nat.
  Variables rsubs csubs : list subtotal.
  Variables dn rd cd : bool.
  Hypothesis Ht : t_ok tv.
  Hypothesis Hr : cat_or_mr kr.
  Hypothesis Hk : k < t_n tv.
  Let Hc : cat_or_mr KCat := or_introl eq_refl.

  (* the row proportions of row i over all valid columns *)
  Theorem row_proportions_sum_one i : i < nval mr ->
    ~ (w_rowbase tv k vr kr mr vc KCat mc S i 0 == 0)%Q ->
    xsum (nth i (b_base (s_row_props S tv vr kr mr vc KCat mc k rsubs csubs dn rd cd)) []) =x= Fin 1.
  Proof.
    intros Hi Hb. unfold s_row_props, row_proportions, props_of, div_blocks. cbn [b_base].
    rewrite (tab2_row _ _ _ i Hi).
    apply (row_sum_one (nval mc) _ _ (fun j => w_cell tv k vr kr mr vc KCat mc S i j)
                       (w_rowbase tv k vr kr mr vc KCat mc S i 0)).
    - intros j Hj. apply (t_counts_cell S tv vr kr mr vc KCat mc k Ht Hr Hc Hk i j Hi Hj).
    - intros j Hj. apply (t_rb_cell S tv vr kr mr vc KCat mc k Ht Hr Hc Hk i j Hi Hj).
    - apply cells_sum_to_rowbase.
    - exact Hb.
  Qed.
End SumOneRows.

Section SumOneCols.
  Variable S : survey.
  Variable tv : tvar.
  Variables vr : nat.
  Variable mr : list bool.          (* the ROWS variable is categorical *)
  Variable vc : nat.
  Variable kc : kind.
  Variable mc : list bool.
  Variable k : nat.
  Variables rsubs csubs : list subtotal.
  Variables dn rd cd : bool.
  Hypothesis Ht : t_ok tv.
  Hypothesis Hc : cat_or_mr kc.
  Hypothesis Hk : k < t_n tv.
  Let Hr : cat_or_mr KCat := or_introl eq_refl.

  (* the column proportions of column j over all valid rows *)
  Theorem column_proportions_sum_one j : j < nval mc ->
    ~ (w_colbase tv k vr KCat mr vc kc mc S 0 j == 0)%Q ->
    xsum (tab (nval mr) (fun i =>
            mnth (b_base (s_col_props S tv vr KCat mr vc kc mc k rsubs csubs dn rd cd)) i j)) =x= Fin 1.
  Proof.
    intros Hj Hb.
    rewrite (xsum_tab_fin (nval mr) _
               (fun i => w_cell tv k vr KCat mr vc kc mc S i j / w_colbase tv k vr KCat mr vc kc mc S 0 j)%Q).
    - simpl. rewrite qsumn_div, (cells_sum_to_colbase S tv k vr mr vc kc mc 0 j). field. exact Hb.
    - intros i Hi.
      rewrite (column_proportion_survey S tv vr KCat mr vc kc mc k rsubs csubs dn rd cd Ht Hr Hc Hk i j Hi Hj).
      rewrite (colbase_cat_const S tv k vr mr vc kc mc i 0 j).
      rewrite (xdiv_fin _ _ Hb). reflexivity.
  Qed.
End SumOneCols.

Section SumOneTable.
  Variable S : survey.
  Variable tv : tvar.
  Variables vr vc : nat.
  Variables mr mc : list bool.      (* both categorical *)
  Variable k : nat.
  Variables rsubs csubs : list subtotal.
  Variable dn : bool.
  Hypothesis Ht : t_ok tv.
  Hypothesis Hk : k < t_n tv.
  Let Hc : cat_or_mr KCat := or_introl eq_refl.

  (* the table proportions of ALL cells *)
  Theorem table_proportions_sum_one :
    ~ (w_tabbase tv k vr KCat mr vc KCat mc S 0 0 == 0)%Q ->
    xsum (map xsum (b_base (s_tab_props S tv vr KCat mr vc KCat mc k rsubs csubs dn))) =x= Fin 1.
  Proof.
    intros Hb. unfold s_tab_props, table_proportions, div_blocks. cbn [b_base].
    unfold tab2 at 1. unfold tab at 1. rewrite map_map. fold (tab (nval mr) (fun i =>
      xsum (tab (nval mc) (fun j =>
        xdiv (mnth (b_base (count_blocks (nval mr) (nval mc) rsubs csubs
                              (t_counts S tv vr KCat mr vc KCat mc k) dn)) i j)
             (mnth (b_base (table_base_blocks (nval mr) (nval mc) rsubs csubs
                              (t_tb S tv vr KCat mr vc KCat mc k))) i j))))).
    rewrite (xsum_tab_fin (nval mr) _
               (fun i => qsumn (nval mc) (fun j => w_cell tv k vr KCat mr vc KCat mc S i j)
                         / w_tabbase tv k vr KCat mr vc KCat mc S 0 0)%Q).
    - simpl. rewrite qsumn_div, (cells_sum_to_tabbase S tv k vr vc mr mc 0 0). field. exact Hb.
    - intros i Hi.
      rewrite (xsum_tab_fin (nval mc) _
                 (fun j => w_cell tv k vr KCat mr vc KCat mc S i j / w_tabbase tv k vr KCat mr vc KCat mc S 0 0)%Q).
      + simpl. apply qsumn_div.
      + intros j Hj. cbn [b_base count_blocks table_base_blocks sum_blocks].
        rewrite (t_counts_cell S tv vr KCat mr vc KCat mc k Ht Hc Hc Hk i j Hi Hj),
                (t_tb_cell S tv vr KCat mr vc KCat mc k Ht Hc Hc Hk i j Hi Hj).
        change (w_tabbase tv k vr KCat mr vc KCat mc S i j) with (w_tabbase tv k vr KCat mr vc KCat mc S 0 0).
        rewrite (xdiv_fin _ _ Hb). reflexivity.
  Qed.
End SumOneTable.
