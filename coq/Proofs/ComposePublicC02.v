(* Proofs/ComposePublicC02.v -- the COMPOSED theorems of C02: _Slice.row / column / table _weighted_bases, from
   the source text to the respondents.  Shape as in ComposePublicC03.v.  At a display cell of a base column c:
     base row r:      the weighted number of respondents in row r and eligible for column c   (row bases)
                      ... eligible for row r and in column c                                   (column bases)
                      ... eligible for both                                                    (table bases)
     subtotal row:    the same number for the MERGED category (rows categorical, no subtrahends). *)
From Coq Require Import QArith ZArith List Bool Lia Arith String Setoid Morphisms.
From CC Require Import Base.XQ Base.ListX Base.WiringExp Spec.Survey Spec.Merge
     Model.Subtotals Model.Proportions Model.CubeCounts
     Proofs.CubeCountsProofs Proofs.ComposeBase Proofs.ComposePayload
     Proofs.MergeSurvey Proofs.MergeMeasures
     Proofs.ComposePublicSem Proofs.ComposePublicLinks Proofs.ComposePublicChainDefs Proofs.ComposePublicChainBases
     Proofs.ComposePublicSlice Proofs.ComposePublicCells.
From CC Require Gen.WiringSrc.
Import ListNotations.
Local Close Scope Q_scope.
Local Open Scope string_scope.
Local Open Scope nat_scope.

Import CC.Gen.WiringSrc.

Definition terms_public_row_weighted_bases : bool :=
  is_some wsrc_Slice_row_weighted_bases && (terms_asm_matrix && terms_row_weighted_bases).
Definition terms_public_column_weighted_bases : bool :=
  is_some wsrc_Slice_column_weighted_bases && (terms_asm_matrix && terms_column_weighted_bases).
Definition terms_public_table_weighted_bases : bool :=
  is_some wsrc_Slice_table_weighted_bases && (terms_asm_matrix && terms_table_weighted_bases).

Theorem public_row_weighted_bases_model :
  need terms_public_row_weighted_bases
  (forall C, cube_tab C "row_bases" -> nonempty C -> orders_ok C ->
     matrix_member_spec C "row_weighted_bases" (B_rowb C)).
Proof.
  unfold terms_public_row_weighted_bases, wsrc_Slice_row_weighted_bases. wiring_some.
  use_need public_matrix_of_realizes terms_asm_matrix. intros PM.
  use_need realizes_row_weighted_bases terms_row_weighted_bases. intros R.
  needed. intros C H1 H2 Ho.
  eapply matrix_member_of_weval; [reflexivity|].
  exact (PM 3 C "row_weighted_bases" (B_rowb C) (R _ C H1 H2) (tabular_rowb C H1) Ho).
Qed.
Theorem public_column_weighted_bases_model :
  need terms_public_column_weighted_bases
  (forall C, cube_tab C "column_bases" -> nonempty C -> orders_ok C ->
     matrix_member_spec C "column_weighted_bases" (B_colb C)).
Proof.
  unfold terms_public_column_weighted_bases, wsrc_Slice_column_weighted_bases. wiring_some.
  use_need public_matrix_of_realizes terms_asm_matrix. intros PM.
  use_need realizes_column_weighted_bases terms_column_weighted_bases. intros R.
  needed. intros C H1 H2 Ho.
  eapply matrix_member_of_weval; [reflexivity|].
  exact (PM 3 C "column_weighted_bases" (B_colb C) (R _ C H1 H2) (tabular_colb C H1) Ho).
Qed.
Theorem public_table_weighted_bases_model :
  need terms_public_table_weighted_bases
  (forall C, cube_tab C "table_bases" -> nonempty C -> orders_ok C ->
     matrix_member_spec C "table_weighted_bases" (B_tabb C)).
Proof.
  unfold terms_public_table_weighted_bases, wsrc_Slice_table_weighted_bases. wiring_some.
  use_need public_matrix_of_realizes terms_asm_matrix. intros PM.
  use_need realizes_table_weighted_bases terms_table_weighted_bases. intros R.
  needed. intros C H1 H2 Ho.
  eapply matrix_member_of_weval; [reflexivity|].
  exact (PM 3 C "table_weighted_bases" (B_tabb C) (R _ C H1 H2) (tabular_tabb C H1) Ho).
Qed.

(* a base cell in a base column: a base row / a subtotal row that merges categories *)
Definition base_cell_spec (w : wfun) (S : survey) (tv : tvar) vr kr mr vc kc mc (k : nat)
           (rsubs : list subtotal) (ro co : list Z) (i j : nat) (x : xq) : Prop :=
  ((0 <= rsel ro i)%Z ->
     x =x= Fin (w tv k vr kr mr vc kc mc S (Z.to_nat (rsel ro i)) (Z.to_nat (csel co j)))) /\
  ((rsel ro i < 0)%Z -> kr = KCat -> merge_row_ok S tv vr vc mr (row_subtotal rsubs ro i) ->
     x =x= Fin (w tv k vr KCat (merged_flags mr) vc kc mc (merged_rows_survey S vr mr (row_subtotal rsubs ro i))
                  (nval mr) (Z.to_nat (csel co j)))).

Section Base.
  Variable S : survey.
  Variable tv : tvar.
  Variable vr : nat.
  Variable kr : kind.
  Variable mr : list bool.
  Variable vc : nat.
  Variable kc : kind.
  Variable mc : list bool.
  Variable k : nat.
  Variables rsubs csubs : list subtotal.
  Variables dn rd cd : bool.
  Variable flag : string -> bool.
  Variables ro co : list Z.
  Variable so : slice_out.
  Hypothesis D : survey_display S tv vr kr mr vc kc mc k rsubs csubs ro co so.
  Let Ht : t_ok tv := proj1 D.
  Let Hr : cat_or_mr kr := proj1 (proj2 D).
  Let Hc : cat_or_mr kc := proj1 (proj2 (proj2 D)).
  Let Hk : k < t_n tv := proj1 (proj2 (proj2 (proj2 D))).
  Let Hso := proj1 (proj2 (proj2 (proj2 (proj2 (proj2 (proj2 (proj2 D))))))).
  Let Hd : display_ok mr mc rsubs csubs ro co := proj2 (proj2 (proj2 (proj2 (proj2 (proj2 (proj2 (proj2 D))))))).
  Notation C := (Cs mr mc rsubs csubs dn rd cd flag ro co so).

  Variables i j : nat.
  Hypothesis Hi : i < List.length ro.
  Hypothesis Hj : j < List.length co.
  Hypothesis Hri : (0 <= rsel ro i)%Z.
  Hypothesis Hcj : (0 <= csel co j)%Z.
  Let r := Z.to_nat (rsel ro i).
  Let c := Z.to_nat (csel co j).
  Let Hr' : r < nval mr := rsel_base mr mc rsubs csubs ro co i Hd Hi Hri.
  Let Hc' : c < nval mc := csel_base mr mc rsubs csubs ro co j Hd Hj Hcj.

  Lemma rowb_base_cell : mnth (b_base (B_rowb C)) r c =x= Fin (w_rowbase tv k vr kr mr vc kc mc S r c).
  Proof.
    unfold B_rowb. cbn [row_base_blocks b_base].
    rewrite (Cs_rb S tv vr kr mr vc kc mc k rsubs csubs dn rd cd flag ro co so Ht Hr Hc Hk Hso).
    exact (t_rb_cell S tv vr kr mr vc kc mc k Ht Hr Hc Hk r c Hr' Hc').
  Qed.
  Lemma colb_base_cell : mnth (b_base (B_colb C)) r c =x= Fin (w_colbase tv k vr kr mr vc kc mc S r c).
  Proof.
    unfold B_colb. cbn [col_base_blocks b_base].
    rewrite (Cs_cb S tv vr kr mr vc kc mc k rsubs csubs dn rd cd flag ro co so Ht Hr Hc Hk Hso).
    exact (t_cb_cell S tv vr kr mr vc kc mc k Ht Hr Hc Hk r c Hr' Hc').
  Qed.
  Lemma tabb_base_cell : mnth (b_base (B_tabb C)) r c =x= Fin (w_tabbase tv k vr kr mr vc kc mc S r c).
  Proof.
    unfold B_tabb. cbn [table_base_blocks b_base].
    rewrite (Cs_tb S tv vr kr mr vc kc mc k rsubs csubs dn rd cd flag ro co so Ht Hr Hc Hk Hso).
    exact (t_tb_cell S tv vr kr mr vc kc mc k Ht Hr Hc Hk r c Hr' Hc').
  Qed.
End Base.

Section SubtotalRow.
  Variable S : survey.
  Variable tv : tvar.
  Variables vr vc : nat.
  Variable kc : kind.
  Variables mr mc : list bool.
  Variable k : nat.
  Variables rsubs csubs : list subtotal.
  Variables dn rd cd : bool.
  Variable flag : string -> bool.
  Variables ro co : list Z.
  Variable so : slice_out.
  Hypothesis D : survey_display S tv vr KCat mr vc kc mc k rsubs csubs ro co so.

  Let Ht : t_ok tv := proj1 D.
  Let Hr : cat_or_mr KCat := proj1 (proj2 D).
  Let Hc : cat_or_mr kc := proj1 (proj2 (proj2 D)).
  Let Hk : k < t_n tv := proj1 (proj2 (proj2 (proj2 D))).
  Let Hnr : 0 < nval mr := proj1 (proj2 (proj2 (proj2 (proj2 (proj2 D))))).
  Let Hso := proj1 (proj2 (proj2 (proj2 (proj2 (proj2 (proj2 (proj2 D))))))).
  Let Hd : display_ok mr mc rsubs csubs ro co := proj2 (proj2 (proj2 (proj2 (proj2 (proj2 (proj2 (proj2 D))))))).

  Variables i j : nat.
  Hypothesis Hi : i < List.length ro.
  Hypothesis Hj : j < List.length co.
  Hypothesis Hri : (rsel ro i < 0)%Z.
  Hypothesis Hcj : (0 <= csel co j)%Z.
  Let kk := Z.to_nat (rsel ro i + Z.of_nat (List.length rsubs)).
  Let s := row_subtotal rsubs ro i.
  Hypothesis Hm : merge_row_ok S tv vr vc mr s.

  Let c := Z.to_nat (csel co j).
  Let Hkk : kk < List.length rsubs := rsel_sub mr mc rsubs csubs ro co i Hd Hi Hri.
  Let Hc' : c < nval mc := csel_base mr mc rsubs csubs ro co j Hd Hj Hcj.
  Let Hvar : vc <> vr := proj1 Hm.
  Let Htv : tv_other tv vr := proj1 (proj2 Hm).
  Let Hfresh : fresh_for vr mr S := proj1 (proj2 (proj2 Hm)).
  Let Hsub : s_sub s = [] := proj1 (proj2 (proj2 (proj2 Hm))).
  Let Hoffs : Forall (fun a => a < n_valid mr) (s_add s) := proj1 (proj2 (proj2 (proj2 (proj2 Hm)))).
  Let Hnd : NoDup (s_add s) := proj2 (proj2 (proj2 (proj2 (proj2 Hm)))).

  Let S' := merged_rows_survey S vr mr s.
  Let mr' := merged_flags mr.
  Let m := nval mr.
  Notation C := (Cs mr mc rsubs csubs dn rd cd flag ro co so).

  Let Hm_lt : m < nval mr' := nval_lt_merged mr.

  Lemma rowb_srow_cell : mnth (b_rows (B_rowb C)) kk c =x= Fin (w_rowbase tv k vr KCat mr' vc kc mc S' m c).
  Proof.
    unfold B_rowb. rewrite (Cs_rb S tv vr KCat mr vc kc mc k rsubs csubs dn rd cd flag ro co so Ht Hr Hc Hk Hso).
    etransitivity;
      [exact (merge_block_row_bases S tv vr vc kc mr mc k rsubs csubs kk Ht Hc Hk Hvar Htv Hkk Hsub Hoffs Hnd Hfresh Hnr c Hc')|].
    unfold kk. rewrite <- (merged_t_rb S tv vr vc kc mr mc k rsubs ro i).
    exact (t_rb_cell S' tv vr KCat mr' vc kc mc k Ht Hr Hc Hk m c Hm_lt Hc').
  Qed.
  Lemma colb_srow_cell : mnth (b_rows (B_colb C)) kk c =x= Fin (w_colbase tv k vr KCat mr' vc kc mc S' m c).
  Proof.
    unfold B_colb. rewrite (Cs_cb S tv vr KCat mr vc kc mc k rsubs csubs dn rd cd flag ro co so Ht Hr Hc Hk Hso).
    etransitivity;
      [exact (merge_block_column_bases S tv vr vc kc mr mc k rsubs csubs kk Ht Hc Hk Hvar Htv Hkk Hoffs Hfresh Hnr c Hc')|].
    unfold kk. rewrite <- (merged_t_cb S tv vr vc kc mr mc k rsubs ro i).
    exact (t_cb_cell S' tv vr KCat mr' vc kc mc k Ht Hr Hc Hk m c Hm_lt Hc').
  Qed.
  Lemma tabb_srow_cell : mnth (b_rows (B_tabb C)) kk c =x= Fin (w_tabbase tv k vr KCat mr' vc kc mc S' m c).
  Proof.
    unfold B_tabb. rewrite (Cs_tb S tv vr KCat mr vc kc mc k rsubs csubs dn rd cd flag ro co so Ht Hr Hc Hk Hso).
    etransitivity;
      [exact (merge_block_table_bases S tv vr vc kc mr mc k rsubs csubs kk Ht Hc Hk Hvar Htv Hkk Hoffs Hfresh Hnr c Hc')|].
    unfold kk. rewrite <- (merged_t_tb S tv vr vc kc mr mc k rsubs ro i).
    exact (t_tb_cell S' tv vr KCat mr' vc kc mc k Ht Hr Hc Hk m c Hm_lt Hc').
  Qed.
End SubtotalRow.

(* ------------------------------------------------------------------------------------ *)
(** * THE COMPOSED THEOREMS *)

Section Final.
  Variable S : survey.
  Variable tv : tvar.
  Variable vr : nat.
  Variable kr : kind.
  Variable mr : list bool.
  Variable vc : nat.
  Variable kc : kind.
  Variable mc : list bool.
  Variable k : nat.
  Variables rsubs csubs : list subtotal.
  Variables dn rd cd : bool.
  Variable flag : string -> bool.
  Variables ro co : list Z.
  Variable so : slice_out.
  Hypothesis D : survey_display S tv vr kr mr vc kc mc k rsubs csubs ro co so.
  Notation C := (Cs mr mc rsubs csubs dn rd cd flag ro co so).

  Section One.
    Variable p : string.
    Variable B : blocks.
    Variable w : wfun.
    Hypothesis Hbase : forall i j, i < List.length ro -> j < List.length co ->
      (0 <= rsel ro i)%Z -> (0 <= csel co j)%Z ->
      mnth (b_base B) (Z.to_nat (rsel ro i)) (Z.to_nat (csel co j))
      =x= Fin (w tv k vr kr mr vc kc mc S (Z.to_nat (rsel ro i)) (Z.to_nat (csel co j))).
    Hypothesis Hsrow : forall i j, i < List.length ro -> j < List.length co ->
      (rsel ro i < 0)%Z -> (0 <= csel co j)%Z -> kr = KCat ->
      merge_row_ok S tv vr vc mr (row_subtotal rsubs ro i) ->
      mnth (b_rows B) (Z.to_nat (rsel ro i + Z.of_nat (List.length rsubs))) (Z.to_nat (csel co j))
      =x= Fin (w tv k vr KCat (merged_flags mr) vc kc mc (merged_rows_survey S vr mr (row_subtotal rsubs ro i))
                 (nval mr) (Z.to_nat (csel co j))).

    Lemma base_cells :
      matrix_member_spec C p B ->
      cells_spec (public_slice C p) ro co (fun i j => base_cell_spec w S tv vr kr mr vc kc mc k rsubs ro co i j).
    Proof.
      intros M.
      apply (cells_of_member mr mc rsubs csubs dn rd cd flag ro co so p (fun x => x) B); [exact M| |].
      - intros i j Hi Hj Hr0 Hc0. split; [intros _|intros Hn; exfalso; lia]. apply Hbase; assumption.
      - intros i j Hi Hj Hr0 Hc0. split; [intros Hn; exfalso; lia|intros _ Hk Hm]. apply Hsrow; assumption.
    Qed.
  End One.
End Final.

Ltac srow_fact L :=
  intros S tv vr kr mr vc kc mc k rsubs csubs dn rd cd flag ro co so D i j Hi Hj Hr0 Hc0 Hk Hm;
  revert D Hm; subst kr; intros D Hm;
  exact (L S tv vr vc kc mr mc k rsubs csubs dn rd cd flag ro co so D i j Hi Hj Hr0 Hc0 Hm).

Lemma rowb_srow S tv vr kr mr vc kc mc k rsubs csubs dn rd cd flag ro co so :
  survey_display S tv vr kr mr vc kc mc k rsubs csubs ro co so ->
  forall i j, i < List.length ro -> j < List.length co -> (rsel ro i < 0)%Z -> (0 <= csel co j)%Z -> kr = KCat ->
    merge_row_ok S tv vr vc mr (row_subtotal rsubs ro i) ->
    mnth (b_rows (B_rowb (Cs mr mc rsubs csubs dn rd cd flag ro co so)))
         (Z.to_nat (rsel ro i + Z.of_nat (List.length rsubs))) (Z.to_nat (csel co j))
    =x= Fin (w_rowbase tv k vr KCat (merged_flags mr) vc kc mc (merged_rows_survey S vr mr (row_subtotal rsubs ro i))
               (nval mr) (Z.to_nat (csel co j))).
Proof. revert S tv vr kr mr vc kc mc k rsubs csubs dn rd cd flag ro co so. srow_fact rowb_srow_cell. Qed.
Lemma colb_srow S tv vr kr mr vc kc mc k rsubs csubs dn rd cd flag ro co so :
  survey_display S tv vr kr mr vc kc mc k rsubs csubs ro co so ->
  forall i j, i < List.length ro -> j < List.length co -> (rsel ro i < 0)%Z -> (0 <= csel co j)%Z -> kr = KCat ->
    merge_row_ok S tv vr vc mr (row_subtotal rsubs ro i) ->
    mnth (b_rows (B_colb (Cs mr mc rsubs csubs dn rd cd flag ro co so)))
         (Z.to_nat (rsel ro i + Z.of_nat (List.length rsubs))) (Z.to_nat (csel co j))
    =x= Fin (w_colbase tv k vr KCat (merged_flags mr) vc kc mc (merged_rows_survey S vr mr (row_subtotal rsubs ro i))
               (nval mr) (Z.to_nat (csel co j))).
Proof. revert S tv vr kr mr vc kc mc k rsubs csubs dn rd cd flag ro co so. srow_fact colb_srow_cell. Qed.
Lemma tabb_srow S tv vr kr mr vc kc mc k rsubs csubs dn rd cd flag ro co so :
  survey_display S tv vr kr mr vc kc mc k rsubs csubs ro co so ->
  forall i j, i < List.length ro -> j < List.length co -> (rsel ro i < 0)%Z -> (0 <= csel co j)%Z -> kr = KCat ->
    merge_row_ok S tv vr vc mr (row_subtotal rsubs ro i) ->
    mnth (b_rows (B_tabb (Cs mr mc rsubs csubs dn rd cd flag ro co so)))
         (Z.to_nat (rsel ro i + Z.of_nat (List.length rsubs))) (Z.to_nat (csel co j))
    =x= Fin (w_tabbase tv k vr KCat (merged_flags mr) vc kc mc (merged_rows_survey S vr mr (row_subtotal rsubs ro i))
               (nval mr) (Z.to_nat (csel co j))).
Proof. revert S tv vr kr mr vc kc mc k rsubs csubs dn rd cd flag ro co so. srow_fact tabb_srow_cell. Qed.

Ltac bases_theorem PMlem terms baseL srowL a :=
  use_need PMlem terms; intros PM; needed;
  intros S tv vr kr mr vc kc mc k rsubs csubs dn rd cd flag ro co so D;
  eapply base_cells;
  [ exact (baseL S tv vr kr mr vc kc mc k rsubs csubs dn rd cd flag ro co so D)
  | exact (srowL S tv vr kr mr vc kc mc k rsubs csubs dn rd cd flag ro co so D)
  | pose proof (C_first_order S tv vr kr mr vc kc mc k rsubs csubs dn rd cd flag ro co so D) as (H1 & H2 & H3 & H4 & H5);
    apply PM;
    [ first [exact H2 | exact H3 | exact H4]
    | exact H5
    | exact (proj2 (proj2 (proj2 (proj2 (proj2 (proj2 (proj2 (proj2 D)))))))) ] ].

Theorem compose_public_Slice_row_weighted_bases :
  need terms_public_row_weighted_bases
  (forall S tv vr kr mr vc kc mc k rsubs csubs dn rd cd flag ro co so,
     survey_display S tv vr kr mr vc kc mc k rsubs csubs ro co so ->
     cells_spec (public_slice (Cs mr mc rsubs csubs dn rd cd flag ro co so) "row_weighted_bases") ro co
       (fun i j => base_cell_spec w_rowbase S tv vr kr mr vc kc mc k rsubs ro co i j)).
Proof. bases_theorem public_row_weighted_bases_model terms_public_row_weighted_bases rowb_base_cell rowb_srow "row_bases". Qed.

Theorem compose_public_Slice_column_weighted_bases :
  need terms_public_column_weighted_bases
  (forall S tv vr kr mr vc kc mc k rsubs csubs dn rd cd flag ro co so,
     survey_display S tv vr kr mr vc kc mc k rsubs csubs ro co so ->
     cells_spec (public_slice (Cs mr mc rsubs csubs dn rd cd flag ro co so) "column_weighted_bases") ro co
       (fun i j => base_cell_spec w_colbase S tv vr kr mr vc kc mc k rsubs ro co i j)).
Proof. bases_theorem public_column_weighted_bases_model terms_public_column_weighted_bases colb_base_cell colb_srow "column_bases". Qed.

Theorem compose_public_Slice_table_weighted_bases :
  need terms_public_table_weighted_bases
  (forall S tv vr kr mr vc kc mc k rsubs csubs dn rd cd flag ro co so,
     survey_display S tv vr kr mr vc kc mc k rsubs csubs ro co so ->
     cells_spec (public_slice (Cs mr mc rsubs csubs dn rd cd flag ro co so) "table_weighted_bases") ro co
       (fun i j => base_cell_spec w_tabbase S tv vr kr mr vc kc mc k rsubs ro co i j)).
Proof. bases_theorem public_table_weighted_bases_model terms_public_table_weighted_bases tabb_base_cell tabb_srow "table_bases". Qed.

Lemma compose_public_terms_available_C02 :
  terms_public_row_weighted_bases = true /\ terms_public_column_weighted_bases = true /\
  terms_public_table_weighted_bases = true.
Proof. repeat split; reflexivity. Qed.

(* ==================================================================================== *)
(** * the UNWEIGHTED bases: _Slice.row / column / table _unweighted_bases

   The cube measure `unweighted_cube_counts` is built from the unweighted counts of the cube: the arrays
   [slice_counts] extracts from the payload of the survey with UNIT weights ([unit_weights S]); a base cell is
   the NUMBER of respondents of the direction's base.  Base cells only. *)
From CC Require Import Model.BaseBlocks Proofs.ComposePublicChainUBases.

Definition cubem_so2 (so su : slice_out) (c a : string) : mat :=
  if String.eqb c "unweighted_cube_counts" then
    if String.eqb a "row_bases" then so_row_bases su
    else if String.eqb a "column_bases" then so_column_bases su
    else if String.eqb a "table_bases" then so_table_bases su
    else if String.eqb a "counts" then so_counts su
    else []
  else cubem_so so c a.

Definition olist (o : option (list xq)) : list xq := match o with Some l => l | None => [] end.

(* the context of a slice with both cube measures: weighted (so) and unweighted (su) *)
Definition Cs_u (mr mc : list bool) (rsubs csubs : list subtotal) (dn rd cd : bool) (flag : string -> bool)
           (ro co : list Z) (so su : slice_out) : pctx :=
  mkPctx (nval mr) (nval mc) rsubs csubs rd cd (cubem_so2 so su) (fun _ _ => dn) flag
         false (fun _ _ => NaN) (olist (so_columns_base su)) (olist (so_rows_base su)) ro co.

Definition terms_public_row_unweighted_bases : bool :=
  is_some wsrc_Slice_row_unweighted_bases && (terms_asm_matrix && terms_row_unweighted_bases).
Definition terms_public_column_unweighted_bases : bool :=
  is_some wsrc_Slice_column_unweighted_bases && (terms_asm_matrix && terms_column_unweighted_bases).
Definition terms_public_table_unweighted_bases : bool :=
  is_some wsrc_Slice_table_unweighted_bases && (terms_asm_matrix && terms_table_unweighted_bases).

Theorem public_row_unweighted_bases_model :
  need terms_public_row_unweighted_bases
  (forall C, ucube_tab C "row_bases" -> nonempty C -> orders_ok C ->
     matrix_member_spec C "row_unweighted_bases" (B_urowb C)).
Proof.
  unfold terms_public_row_unweighted_bases, wsrc_Slice_row_unweighted_bases. wiring_some.
  use_need public_matrix_of_realizes terms_asm_matrix. intros PM.
  use_need realizes_row_unweighted_bases terms_row_unweighted_bases. intros R.
  needed. intros C H1 H2 Ho.
  eapply matrix_member_of_weval; [reflexivity|].
  exact (PM 3 C "row_unweighted_bases" (B_urowb C) (R _ C H1 H2) (tabular_urowb C H1) Ho).
Qed.
Theorem public_column_unweighted_bases_model :
  need terms_public_column_unweighted_bases
  (forall C, ucube_tab C "column_bases" -> nonempty C -> orders_ok C ->
     matrix_member_spec C "column_unweighted_bases" (B_ucolb C)).
Proof.
  unfold terms_public_column_unweighted_bases, wsrc_Slice_column_unweighted_bases. wiring_some.
  use_need public_matrix_of_realizes terms_asm_matrix. intros PM.
  use_need realizes_column_unweighted_bases terms_column_unweighted_bases. intros R.
  needed. intros C H1 H2 Ho.
  eapply matrix_member_of_weval; [reflexivity|].
  exact (PM 3 C "column_unweighted_bases" (B_ucolb C) (R _ C H1 H2) (tabular_ucolb C H1) Ho).
Qed.
Theorem public_table_unweighted_bases_model :
  need terms_public_table_unweighted_bases
  (forall C, ucube_tab C "table_bases" -> nonempty C -> orders_ok C ->
     matrix_member_spec C "table_unweighted_bases" (B_utabb C)).
Proof.
  unfold terms_public_table_unweighted_bases, wsrc_Slice_table_unweighted_bases. wiring_some.
  use_need public_matrix_of_realizes terms_asm_matrix. intros PM.
  use_need realizes_table_unweighted_bases terms_table_unweighted_bases. intros R.
  needed. intros C H1 H2 Ho.
  eapply matrix_member_of_weval; [reflexivity|].
  exact (PM 3 C "table_unweighted_bases" (B_utabb C) (R _ C H1 H2) (tabular_utabb C H1) Ho).
Qed.

(* an unweighted base cell: the head-count of the direction's base *)
Definition ubase_cell_spec (w : wfun) (S : survey) (tv : tvar) vr kr mr vc kc mc (k r c : nat) (x : xq) : Prop :=
  x =x= Fin (w tv k vr kr mr vc kc mc (unit_weights S) r c).

Section Unweighted.
  Variable S : survey.
  Variable tv : tvar.
  Variable vr : nat.
  Variable kr : kind.
  Variable mr : list bool.
  Variable vc : nat.
  Variable kc : kind.
  Variable mc : list bool.
  Variable k : nat.
  Variables rsubs csubs : list subtotal.
  Variables dn rd cd : bool.
  Variable flag : string -> bool.
  Variables ro co : list Z.
  Variables so su : slice_out.
  Hypothesis D : survey_display S tv vr kr mr vc kc mc k rsubs csubs ro co so.
  Hypothesis Hsu :
    slice_counts (cube_dims tv kr mr kc mc) (survey_payload tv vr kr mr vc kc mc (unit_weights S)) k = Some su.

  Let Ht : t_ok tv := proj1 D.
  Let Hr : cat_or_mr kr := proj1 (proj2 D).
  Let Hc : cat_or_mr kc := proj1 (proj2 (proj2 D)).
  Let Hk : k < t_n tv := proj1 (proj2 (proj2 (proj2 D))).
  Let Hnr : 0 < nval mr := proj1 (proj2 (proj2 (proj2 (proj2 (proj2 D))))).
  Let Hnc : 0 < nval mc := proj1 (proj2 (proj2 (proj2 (proj2 (proj2 (proj2 D)))))).
  Let Hd : display_ok mr mc rsubs csubs ro co := proj2 (proj2 (proj2 (proj2 (proj2 (proj2 (proj2 (proj2 D))))))).
  Let U := unit_weights S.
  Notation C := (Cs_u mr mc rsubs csubs dn rd cd flag ro co so su).

  Lemma su_fields :
    so_row_bases su = t_rb U tv vr kr mr vc kc mc k /\
    so_column_bases su = t_cb U tv vr kr mr vc kc mc k /\
    so_table_bases su = t_tb U tv vr kr mr vc kc mc k.
  Proof.
    destruct (slice_counts_of_survey U tv vr kr mr vc kc mc k Ht Hr Hc Hk) as [su' [E [_ F]]].
    unfold U in E. rewrite Hsu in E. injection E as <-. exact F.
  Qed.

  Lemma Cu_tab a : a = "row_bases" \/ a = "column_bases" \/ a = "table_bases" -> ucube_tab C a.
  Proof.
    destruct su_fields as (E1 & E2 & E3). unfold ucube_tab. intros [-> | [-> | ->]].
    - change (is_tab (nval mr) (nval mc) (so_row_bases su)). rewrite E1. apply is_tab_tab2.
    - change (is_tab (nval mr) (nval mc) (so_column_bases su)). rewrite E2. apply is_tab_tab2.
    - change (is_tab (nval mr) (nval mc) (so_table_bases su)). rewrite E3. apply is_tab_tab2.
  Qed.
  Lemma Cu_nonempty : nonempty C. Proof. exact (conj Hnr Hnc). Qed.
  Lemma Cu_orders : orders_ok C. Proof. exact Hd. Qed.

  (* a member of this context on base cells *)
  Lemma ubase_cells p B (spec : nat -> nat -> xq -> Prop) :
    matrix_member_spec C p B ->
    (forall r c, r < nval mr -> c < nval mc -> spec r c (mnth (b_base B) r c)) ->
    base_cells_spec (public_slice C p) ro co spec.
  Proof.
    intros M Hb. split; [exact (proj1 M)|].
    intros i j Hi Hj Hr0 Hc0. rewrite (proj2 M i j Hi Hj).
    change (nth i (c_ro C) 0%Z) with (rsel ro i). change (nth j (c_co C) 0%Z) with (csel co j).
    rewrite (signed_cell_base C B _ _ Hr0 Hc0). apply Hb.
    - exact (rsel_base mr mc rsubs csubs ro co i Hd Hi Hr0).
    - exact (csel_base mr mc rsubs csubs ro co j Hd Hj Hc0).
  Qed.

  Lemma urowb_cell r c : r < nval mr -> c < nval mc ->
    ubase_cell_spec w_rowbase S tv vr kr mr vc kc mc k r c (mnth (b_base (B_urowb C)) r c).
  Proof.
    intros Hr' Hc'. unfold B_urowb, row_ubase_blocks, ubase_cell_spec. cbn [b_base].
    change (u_rb C) with (so_row_bases su). rewrite (proj1 su_fields).
    exact (t_rb_cell U tv vr kr mr vc kc mc k Ht Hr Hc Hk r c Hr' Hc').
  Qed.
  Lemma ucolb_cell r c : r < nval mr -> c < nval mc ->
    ubase_cell_spec w_colbase S tv vr kr mr vc kc mc k r c (mnth (b_base (B_ucolb C)) r c).
  Proof.
    intros Hr' Hc'. unfold B_ucolb, col_ubase_blocks, ubase_cell_spec. cbn [b_base].
    change (u_cb C) with (so_column_bases su). rewrite (proj1 (proj2 su_fields)).
    exact (t_cb_cell U tv vr kr mr vc kc mc k Ht Hr Hc Hk r c Hr' Hc').
  Qed.
  Lemma utabb_cell r c : r < nval mr -> c < nval mc ->
    ubase_cell_spec w_tabbase S tv vr kr mr vc kc mc k r c (mnth (b_base (B_utabb C)) r c).
  Proof.
    intros Hr' Hc'. unfold B_utabb, table_base_blocks, ubase_cell_spec. cbn [b_base].
    change (u_tb C) with (so_table_bases su). rewrite (proj2 (proj2 su_fields)).
    exact (t_tb_cell U tv vr kr mr vc kc mc k Ht Hr Hc Hk r c Hr' Hc').
  Qed.
End Unweighted.

Ltac ubases_theorem PMlem terms cellL a :=
  use_need PMlem terms; intros PM; needed;
  intros S tv vr kr mr vc kc mc k rsubs csubs dn rd cd flag ro co so su D Hsu;
  eapply (ubase_cells S tv vr kr mr vc kc mc k rsubs csubs dn rd cd flag ro co so su D);
  [ apply PM;
    [ apply (Cu_tab S tv vr kr mr vc kc mc k rsubs csubs dn rd cd flag ro co so su D Hsu a); tauto
    | exact (Cu_nonempty S tv vr kr mr vc kc mc k rsubs csubs dn rd cd flag ro co so su D)
    | exact (Cu_orders S tv vr kr mr vc kc mc k rsubs csubs dn rd cd flag ro co so su D) ]
  | intros r c Hr Hc;
    exact (cellL S tv vr kr mr vc kc mc k rsubs csubs dn rd cd flag ro co so su D Hsu r c Hr Hc) ].

Theorem compose_public_Slice_row_unweighted_bases :
  need terms_public_row_unweighted_bases
  (forall S tv vr kr mr vc kc mc k rsubs csubs dn rd cd flag ro co so su,
     survey_display S tv vr kr mr vc kc mc k rsubs csubs ro co so ->
     slice_counts (cube_dims tv kr mr kc mc) (survey_payload tv vr kr mr vc kc mc (unit_weights S)) k = Some su ->
     base_cells_spec (public_slice (Cs_u mr mc rsubs csubs dn rd cd flag ro co so su) "row_unweighted_bases") ro co
       (ubase_cell_spec w_rowbase S tv vr kr mr vc kc mc k)).
Proof. ubases_theorem public_row_unweighted_bases_model terms_public_row_unweighted_bases urowb_cell "row_bases". Qed.

Theorem compose_public_Slice_column_unweighted_bases :
  need terms_public_column_unweighted_bases
  (forall S tv vr kr mr vc kc mc k rsubs csubs dn rd cd flag ro co so su,
     survey_display S tv vr kr mr vc kc mc k rsubs csubs ro co so ->
     slice_counts (cube_dims tv kr mr kc mc) (survey_payload tv vr kr mr vc kc mc (unit_weights S)) k = Some su ->
     base_cells_spec (public_slice (Cs_u mr mc rsubs csubs dn rd cd flag ro co so su) "column_unweighted_bases") ro co
       (ubase_cell_spec w_colbase S tv vr kr mr vc kc mc k)).
Proof. ubases_theorem public_column_unweighted_bases_model terms_public_column_unweighted_bases ucolb_cell "column_bases". Qed.

Theorem compose_public_Slice_table_unweighted_bases :
  need terms_public_table_unweighted_bases
  (forall S tv vr kr mr vc kc mc k rsubs csubs dn rd cd flag ro co so su,
     survey_display S tv vr kr mr vc kc mc k rsubs csubs ro co so ->
     slice_counts (cube_dims tv kr mr kc mc) (survey_payload tv vr kr mr vc kc mc (unit_weights S)) k = Some su ->
     base_cells_spec (public_slice (Cs_u mr mc rsubs csubs dn rd cd flag ro co so su) "table_unweighted_bases") ro co
       (ubase_cell_spec w_tabbase S tv vr kr mr vc kc mc k)).
Proof. ubases_theorem public_table_unweighted_bases_model terms_public_table_unweighted_bases utabb_cell "table_bases". Qed.

Lemma compose_public_terms_available_C02_unweighted :
  terms_public_row_unweighted_bases = true /\ terms_public_column_unweighted_bases = true /\
  terms_public_table_unweighted_bases = true.
Proof. repeat split; reflexivity. Qed.
