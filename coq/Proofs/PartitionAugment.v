(* Proofs/PartitionAugment.v -- Cube.augment_response (Model/Partition.v) places the count of
   every element of a single-column filter cube at the position of the summary cube's element
   with the same value, PROVIDED the summary's element ids are their payload positions and the
   filter cube lists its elements in the summary's order (what zz9 sends); everything else
   is 0. *)
From Coq Require Import QArith ZArith List Bool Lia Arith.
From CC Require Import Base.XQ Base.ListX Spec.Survey Model.CubeCounts Model.Partition.
Import ListNotations.
Local Close Scope Q_scope.
Local Open Scope nat_scope.

Definition dflt_elem : elem := mkElem 0 false None.

(* every summary element that carries an int / str value has its payload position as id *)
Definition ids_are_positions (summary : list elem) : Prop :=
  forall p, p < length summary -> e_key (nth p summary dflt_elem) <> None ->
            e_id (nth p summary dflt_elem) = Z.of_nat p.

(* ------------------------------------------------------------------------------------ *)
(** * list assignment *)

Lemma set_nth_length {A} i (x : A) l : length (set_nth i x l) = length l.
Proof. revert i. induction l as [|a t IH]; intros [|i]; simpl; auto. Qed.

Lemma nth_set_nth_eq {A} i (x : A) l d : i < length l -> nth i (set_nth i x l) d = x.
Proof.
  revert i. induction l as [|a t IH]; intros [|i] H; simpl in *; try lia; [reflexivity|].
  apply IH. lia.
Qed.

Lemma nth_set_nth_neq {A} i j (x : A) l d : i <> j -> nth j (set_nth i x l) d = nth j l d.
Proof.
  revert i j. induction l as [|a t IH]; intros [|i] [|j] H; simpl; try reflexivity; try lia.
  apply IH. lia.
Qed.

Lemma py_index_nat n p : p < n -> py_index n (Z.of_nat p) = Some p.
Proof.
  intros H. unfold py_index.
  assert ((0 <=? Z.of_nat p)%Z = true) as -> by (apply Z.leb_le; lia).
  assert ((Z.of_nat p <? Z.of_nat n)%Z = true) as -> by (apply Z.ltb_lt; lia).
  rewrite Nat2Z.id. reflexivity.
Qed.

Lemma In_firstn_nth {A} (x : A) c l d :
  In x (firstn c l) -> exists m, m < c /\ m < length l /\ nth m l d = x.
Proof.
  revert c. induction l as [|a t IH]; intros [|c] H; simpl in H; try tauto.
  destruct H as [<- | H].
  - exists 0. simpl. repeat split; lia.
  - destruct (IH c H) as [m [H1 [H2 H3]]]. exists (S m). simpl. repeat split; try lia. exact H3.
Qed.

(* for pos, v in zip(P, cs): data[pos] = v   with distinct in-range positions *)
Lemma place_nat (P : list nat) : forall cs data,
  NoDup P -> Forall (fun p => p < length data) P ->
  exists out, place (map Z.of_nat P) cs data = Some out /\ length out = length data /\
    (forall m, m < length P -> m < length cs -> nth (nth m P 0) out NaN = nth m cs NaN) /\
    (forall j, ~ In j (firstn (length cs) P) -> nth j out NaN = nth j data NaN).
Proof.
  induction P as [|p P' IH]; intros cs data Hnd Hb.
  - exists data. simpl. repeat split; try reflexivity; intros; try lia.
  - destruct cs as [|c cs'].
    + exists data. simpl. repeat split; try reflexivity; intros; try lia.
    + inversion Hnd as [|? ? Hnot Hnd']; subst. inversion Hb as [|? ? Hp Hb']; subst.
      simpl place. rewrite (py_index_nat _ _ Hp).
      destruct (IH cs' (set_nth p c data) Hnd') as [out [Ho [Hl [H1 H2]]]].
      { rewrite set_nth_length. exact Hb'. }
      exists out. split; [exact Ho|]. split; [rewrite Hl; apply set_nth_length|]. split.
      * intros [|m] Hm Hc; simpl in *.
        -- rewrite H2; [apply nth_set_nth_eq; exact Hp|].
           intros Hin. apply Hnot. apply (In_firstn_nth p _ _ 0) in Hin.
           destruct Hin as [m [_ [Hm' <-]]]. apply nth_In. exact Hm'.
        -- apply H1; lia.
      * intros j Hj. simpl in Hj. rewrite H2 by tauto. apply nth_set_nth_neq. tauto.
Qed.

(* ------------------------------------------------------------------------------------ *)
(** * positions of the selected summary elements *)

Fixpoint positions_from (s : nat) (f : elem -> bool) (l : list elem) : list nat :=
  match l with
  | [] => []
  | e :: t => if f e then s :: positions_from (S s) f t else positions_from (S s) f t
  end.

Lemma positions_ids f : forall l s,
  (forall e, f e = true -> e_key e <> None) ->
  (forall p, p < length l -> e_key (nth p l dflt_elem) <> None ->
             e_id (nth p l dflt_elem) = Z.of_nat (s + p)) ->
  map e_id (filter f l) = map Z.of_nat (positions_from s f l).
Proof.
  induction l as [|e t IH]; intros s Hf H; simpl; [reflexivity|].
  assert (Ht : map e_id (filter f t) = map Z.of_nat (positions_from (S s) f t)).
  { apply IH; [exact Hf|]. intros p Hp Hk. specialize (H (S p)). simpl in H.
    rewrite H by (try lia; exact Hk). f_equal. lia. }
  destruct (f e) eqn:E; simpl; rewrite Ht; [|reflexivity].
  f_equal. specialize (H 0). simpl in H. rewrite H; [f_equal; lia | lia | apply Hf; exact E].
Qed.

Lemma positions_bounds f : forall l s p,
  In p (positions_from s f l) -> s <= p < s + length l.
Proof.
  induction l as [|e t IH]; intros s p H; simpl in *; [tauto|].
  destruct (f e).
  - destruct H as [<- | H]; [lia|]. apply IH in H. lia.
  - apply IH in H. lia.
Qed.

Lemma positions_NoDup f : forall l s, NoDup (positions_from s f l).
Proof.
  induction l as [|e t IH]; intros s; simpl; [constructor|].
  destruct (f e); [|apply IH]. constructor; [|apply IH].
  intros H. apply positions_bounds in H. lia.
Qed.

Lemma positions_length f : forall l s, length (positions_from s f l) = length (filter f l).
Proof.
  induction l as [|e t IH]; intros s; simpl; [reflexivity|].
  destruct (f e); simpl; rewrite IH; reflexivity.
Qed.

Lemma positions_keys f : forall l s,
  map (fun p => e_key (nth (p - s) l dflt_elem)) (positions_from s f l) = map e_key (filter f l).
Proof.
  induction l as [|e t IH]; intros s; [reflexivity|].
  assert (Ht : map (fun p => e_key (nth (p - s) (e :: t) dflt_elem)) (positions_from (S s) f t)
               = map e_key (filter f t)).
  { rewrite <- (IH (S s)). apply map_ext_in. intros p Hp. apply positions_bounds in Hp.
    replace (p - s) with (S (p - S s)) by lia. reflexivity. }
  cbn [positions_from filter]. destruct (f e); [|exact Ht].
  cbn [map]. rewrite Ht, Nat.sub_diag. reflexivity.
Qed.

Lemma keys_of_some l :
  (forall e, In e l -> e_key e <> None) -> map e_key l = map Some (keys_of l).
Proof.
  induction l as [|e t IH]; intros H; [reflexivity|]. unfold keys_of in *. simpl.
  destruct (e_key e) as [k|] eqn:E.
  - simpl. f_equal. apply IH. intros e' He'. apply H. right. exact He'.
  - exfalso. apply (H e (or_introl eq_refl)). exact E.
Qed.

Lemma key_in_has_key ks e : key_in ks e = true -> e_key e <> None.
Proof. unfold key_in. destruct (e_key e); [discriminate| discriminate]. Qed.

(* ------------------------------------------------------------------------------------ *)
(** * the theorem *)

Theorem augment_places summary own n counts :
  ids_are_positions summary -> length summary <= n ->
  keys_of own = keys_of (filter (key_in (keys_of own)) summary) ->
  exists data,
    augment_counts summary own n counts = Some data /\ length data = n
    /\ (forall m, m < length (keys_of own) -> m < length counts ->
          exists p, p < length summary
                    /\ e_key (nth p summary dflt_elem) = Some (nth m (keys_of own) 0)
                    /\ nth p data NaN = nth m counts NaN)
    /\ (forall p, p < n ->
          (forall m, m < length (keys_of own) -> m < length counts ->
                     e_key (nth p summary dflt_elem) <> Some (nth m (keys_of own) 0)) ->
          nth p data NaN = Fin 0).
Proof.
  intros Hids Hn Hord.
  set (f := key_in (keys_of own)) in *.
  set (P := positions_from 0 f summary).
  assert (Hf : forall e, f e = true -> e_key e <> None) by (intros e; apply key_in_has_key).
  assert (Hpos : augment_positions summary own = map Z.of_nat P).
  { unfold augment_positions. fold f. apply positions_ids; [exact Hf|].
    intros p Hp Hk. simpl. apply Hids; assumption. }
  assert (Hb : Forall (fun p => p < length (repeat (Fin 0) n)) P).
  { apply Forall_forall. intros p Hp. apply positions_bounds in Hp. rewrite repeat_length. lia. }
  destruct (place_nat P counts (repeat (Fin 0) n) (positions_NoDup f summary 0) Hb)
    as [data [Hd [Hl [H1 H2]]]].
  (* keys of the selected summary elements, by position *)
  assert (Hkeys : map (fun p => e_key (nth p summary dflt_elem)) P = map Some (keys_of own)).
  { rewrite Hord. rewrite <- keys_of_some.
    - rewrite <- (positions_keys f summary 0). apply map_ext. intros p. rewrite Nat.sub_0_r. reflexivity.
    - intros e He. apply filter_In in He. apply Hf. tauto. }
  assert (HlenP : length P = length (keys_of own)).
  { rewrite <- (map_length (fun p => e_key (nth p summary dflt_elem)) P), Hkeys. apply map_length. }
  assert (HkeyP : forall m, m < length P ->
                   e_key (nth (nth m P 0) summary dflt_elem) = Some (nth m (keys_of own) 0)).
  { intros m Hm.
    pose proof (f_equal (fun l => nth m l None) Hkeys) as E. simpl in E.
    rewrite (nth_indep _ None (e_key (nth 0 summary dflt_elem))) in E by (rewrite map_length; exact Hm).
    rewrite (map_nth (fun p => e_key (nth p summary dflt_elem)) P 0 m) in E.
    rewrite E.
    rewrite (nth_indep _ None (Some 0)) by (rewrite map_length; lia).
    apply (map_nth Some). }
  exists data. split; [unfold augment_counts; rewrite Hpos; exact Hd|].
  split; [rewrite Hl; apply repeat_length|]. split.
  - intros m Hm Hc. exists (nth m P 0). split; [|split].
    + assert (Hin : In (nth m P 0) P) by (apply nth_In; lia).
      apply positions_bounds in Hin. lia.
    + apply HkeyP. lia.
    + apply H1; lia.
  - intros p Hp Hno. rewrite H2.
    + rewrite (nth_indep _ NaN (Fin 0)) by (rewrite repeat_length; exact Hp). apply nth_repeat.
    + intros Hin. apply (In_firstn_nth p _ _ 0) in Hin. destruct Hin as [m [Hm1 [Hm2 Hm3]]].
      apply (Hno m); [lia| exact Hm1|]. rewrite <- Hm3. apply HkeyP. exact Hm2.
Qed.

(* ------------------------------------------------------------------------------------ *)
(** * result.counts AND the count measure are positioned, each from its own data (the repaired
      defect C06-augment-overwrites-weighted-count: the weighted counts used to be overwritten
      with the positioned unweighted counts) *)

Definition aug_witness_summary : cube_desc :=
  mkCube [mkDim DCat [false; false; true]]
         [mkElem 0 false (Some 0); mkElem 1 false (Some 1); mkElem (-1) true None] false
         (mkPayload [Fin 3; Fin 2; Fin 0] (Some [Fin (9 # 2); Fin 5; Fin 0]) None None).
Definition aug_witness_filter : cube_desc :=
  mkCube [mkDim DCat [false; true]]
         [mkElem 0 false (Some 1); mkElem (-1) true None] true
         (mkPayload [Fin 2; Fin 0] (Some [Fin 5; Fin 0]) None None).

(* for every summary / filter cube pair: whenever the augmentation succeeds, the augmented count
   measure is the filter cube's own count measure positioned like result.counts *)
Lemma augment_cube_count_positioned summary c c' cnt :
  length (p_counts (cd_payload c)) <> length (p_counts (cd_payload summary)) ->
  p_count (cd_payload c) = Some cnt ->
  augment_cube summary c = Some c' ->
  Some (p_counts (cd_payload c'))
    = augment_counts (cd_elems0 summary) (cd_elems0 c) (length (p_counts (cd_payload summary)))
                     (p_counts (cd_payload c))
  /\ option_map Some (p_count (cd_payload c'))
     = Some (augment_counts (cd_elems0 summary) (cd_elems0 c) (length (p_counts (cd_payload summary))) cnt).
Proof.
  intros Hlen Hcnt. unfold augment_cube.
  destruct (length (p_counts (cd_payload c)) =? length (p_counts (cd_payload summary))) eqn:E;
    [apply Nat.eqb_eq in E; contradiction|].
  destruct (augment_counts (cd_elems0 summary) (cd_elems0 c)
              (length (p_counts (cd_payload summary))) (p_counts (cd_payload c))) as [data|]; [|discriminate].
  rewrite Hcnt.
  destruct (augment_counts (cd_elems0 summary) (cd_elems0 c)
              (length (p_counts (cd_payload summary))) cnt) as [cdata|]; [|discriminate].
  intros H. inversion H; subst. simpl. split; reflexivity.
Qed.

Lemma augment_weighted_former_witness :
  exists c',
    augment_cube aug_witness_summary aug_witness_filter = Some c'
    (* the filter cube's own weighted counts ... *)
    /\ weighted_counts_payload (cd_payload aug_witness_filter) = [Fin 5; Fin 0]
    (* ... now sit at their positions among the summary's elements (they were [0; 2; 0]) ... *)
    /\ weighted_counts_payload (cd_payload c') = [Fin 0; Fin 5; Fin 0]
    /\ unweighted_counts_payload (cd_payload c') = [Fin 0; Fin 2; Fin 0].
Proof.
  eexists. split; [vm_compute; reflexivity|]. repeat split; vm_compute; reflexivity.
Qed.
