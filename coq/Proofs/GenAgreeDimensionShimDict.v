(* GenAgreeDimensionShimDict: _ElementIdShim.shimmed_dimension_transforms_dict, as generated from
   src/cr/cube/dimension.py (Gen/DimensionSrc.v), IS [shim_xf] of Model/Shim.v: for every transforms dict tr that
   reads as the model's [xf] x ([xf_rel]: the "elements" dict, order.element_ids, order.fixed.top / bottom) the
   function raises the exception the model raises, or returns a dict OF ITS OWN that reads as the translated xf.
   The generated text is by VALUE: a change in place of the caller's dict (or of its "order" / "fixed" levels)
   would be the outcome MutatesCaller, which agrees with no outcome of the model ([shim_agrees]) - the copies the
   repaired code makes (dict(shim), dict(shim["order"]), dict(fixed)) are what makes the statement provable. *)
From Coq Require Import List ZArith String Bool Lia Arith.
From CC Require Import Base.XQ Base.Ident Base.PyList Base.PyDict Model.DimType Model.PyDimension Gen.DimensionSrc
  Proofs.GenAgreeDimensionLib Proofs.GenAgreeDimensionSubtotal Proofs.GenAgreeDimensionShim.
From CC Require Model.Shim.
Import ListNotations.
Local Close Scope Q_scope.
Local Open Scope Z_scope.

(* the model's [shim_xf], stage by stage *)
Definition m_fix (d : Shim.adim) (xe' : option Shim.edict) (xi' xt xb : option (list ident)) (orig : Shim.xf)
  : Shim.xf * option Shim.exn :=
  match Shim.opt_res (Shim.replaced_ids d) xt with
  | Shim.Ok top' =>
      match Shim.opt_res (Shim.replaced_ids d) xb with
      | Shim.Ok bot' => (Shim.mk_xf xe' xi' top' bot', None)
      | Shim.Raise ex => (orig, Some ex)
      end
  | Shim.Raise ex => (orig, Some ex)
  end.
Definition m_ids (d : Shim.adim) (xe' : option Shim.edict) (xi xt xb : option (list ident)) (orig : Shim.xf)
  : Shim.xf * option Shim.exn :=
  match Shim.opt_res (Shim.replaced_ids d) xi with
  | Shim.Ok ids' => m_fix d xe' ids' xt xb orig
  | Shim.Raise ex => (orig, Some ex)
  end.

Lemma shim_xf_stages d x :
  Shim.shim_xf d x
  = match Shim.opt_res (Shim.replaced_elements d) (Shim.x_elements x) with
    | Shim.Ok e' => m_ids d e' (Shim.x_ids x) (Shim.x_top x) (Shim.x_bottom x) x
    | Shim.Raise ex => (x, Some ex)
    end.
Proof. reflexivity. Qed.

Definition el_fact (pay : Z -> jv) (s : jdict) (xe : option Shim.edict) : Prop :=
  match xe with
  | None => jd_get s (JStr "elements") = None
  | Some e => jd_get s (JStr "elements") = Some (JDict (jd_of_edict pay e))
  end.

Lemma replaced_ids_nil d : Shim.replaced_ids d [] = Shim.Ok [].
Proof. reflexivity. Qed.

Ltac sh_r0 H0 t dd tr d :=
  match goal with |- context [?rr _ (JList (map jv_of_ident ?ll))] =>
    rewrite (H0 t dd (JDict tr) d ll) by assumption;
    let l' := fresh "l'" in
    destruct (Shim.replaced_ids d ll) as [l'|[|]]; msimpl'; try reflexivity; sh end.

Ltac sh_side :=
  unfold el_fact, ids_field in *;
  repeat match goal with |- context [match ?v with Some _ => _ | None => _ end] => is_var v; destruct v end;
  jd_simp; sh_hyps; sh_hyps; first [reflexivity | assumption | auto].

Ltac sh_final :=
  unfold shim_agrees, xf_rel, fixed_rel, el_fact in *;
  cbn [Shim.x_elements Shim.x_ids Shim.x_top Shim.x_bottom];
  repeat match goal with |- context [match ?v with Some _ => _ | None => _ end] => is_var v; destruct v end;
  unfold ids_field in *;
  jd_simp; sh_hyps; jd_simp; repeat split; auto.

Lemma gen__ElementIdShim_shimmed_dimension_transforms_dict :
  match src__ElementIdShim_shimmed_dimension_transforms_dict with
  | Some f => forall t dd tr d pay x, dt_in t [TCaSubvar; TMrSubvar; TNumArr] = true ->
      adim_of t dd = Some d -> pay_ok pay -> xf_rel pay tr x -> xf_wf x ->
      shim_agrees pay (f (mkPyShim t (JDict dd) (JDict tr))) (Shim.shim_xf d x)
  | None => True end.
Proof.
  unfold src__ElementIdShim_shimmed_dimension_transforms_dict.
  first [exact I | idtac].
  all: destruct src_DT_SHIMMED_TYPES as [shim|] eqn:Es; [|exact I].
  all: dep gen__ElementIdShim__replaced_element_transforms src__ElementIdShim__replaced_element_transforms.
  all: dep gen__ElementIdShim__replaced_order_element_ids src__ElementIdShim__replaced_order_element_ids.
  all: gen_open; msimpl.
  all: unfold src_DT_SHIMMED_TYPES in Es; inversion Es; subst shim.
  all: assert (Et : PyList.py_in dtype_eqb t [DT_CA_SUBVAR; DT_MR_SUBVAR; DT_NUM_ARRAY; DT_DATETIME] = true)
         by (destruct t; try discriminate; reflexivity).
  all: cbv zeta; rewrite Et; cbn [negb].
  all: rewrite shim_xf_stages.
  all: destruct x as [xe xi xt xb].
  all: match goal with Hx : xf_rel _ _ _ |- _ => destruct Hx as [He Ho] end.
  all: match goal with Hx : xf_wf _ |- _ => destruct Hx as (We & Wi & Wt & Wb) end.
  all: cbn [Shim.x_elements Shim.x_ids Shim.x_top Shim.x_bottom] in *.
  all: set (orig := Shim.mk_xf xe xi xt xb).
  all: sh_step.
  (* ONE sentence from here on (the member may be unavailable: then no goal is left and nothing below runs):
     [HK0] = what follows the "elements" stage, for any dict s1 this function owns; inside it
     [HK]  = what follows the element_ids stage, for any dict s2 it owns whose "order" is the dict od2 *)
  all: match goal with |- shim_agrees _ (bind _ ?K0) _ =>
         assert (HK0 : forall s1 xe', jd_get s1 (JStr "order") = jd_get tr (JStr "order") -> el_fact pay s1 xe' ->
                                     shim_agrees pay (K0 s1) (m_ids d xe' xi xt xb orig)) end;
    [ intros s1 xe' Hs1 Hel; cbv beta; sh_step; rewrite Hs1;
      destruct (jd_get tr (JStr "order")) as [[| | | | | |od]|] eqn:Eo; try contradiction;
      [ (* "order" is a dict *)
        destruct Ho as [Hids Hfix]; sh_step;
        match goal with |- shim_agrees _ (bind _ ?K) _ =>
          assert (HK : forall s2 od2 xi', jd_get s2 (JStr "order") = Some (JDict od2) ->
                                          jd_get od2 (JStr "fixed") = jd_get od (JStr "fixed") ->
                                          el_fact pay s2 xe' -> ids_field (jd_get od2 (JStr "element_ids")) xi' ->
                                          shim_agrees pay (K s2) (m_fix d xe' xi' xt xb orig)) end;
        [ (* the fixed stage *)
          intros s2 od2 xi' Hs2 Hfx Hel2 Hids2; cbv beta; sh;
          unfold fixed_rel in Hfix;
          destruct (jd_get od (JStr "fixed")) as [[| | | | | |fx]|] eqn:Ef; try contradiction;
          [ destruct Hfix as [Htop Hbot];
            destruct xt as [[|a lt]|]; cbn [ids_field] in Htop; [| |destruct Htop as [Htop|Htop]];
            (destruct xb as [[|b lb]|]; cbn [ids_field] in Hbot; [| |destruct Hbot as [Hbot|Hbot]]);
            unfold m_fix; cbn [Shim.opt_res]; rewrite ?replaced_ids_nil; sh;
            try sh_r0 H0 t dd tr d; try sh_r0 H0 t dd tr d; sh_final
          | destruct Hfix as (-> & ->); unfold m_fix; cbn [Shim.opt_res]; sh; sh_final ]
        | (* the element_ids stage *)
          revert HK; match goal with |- _ -> shim_agrees _ (bind _ ?K) _ => generalize K end; intros KK HK;
          destruct xi as [l|]; cbn [ids_field] in Hids; [|destruct Hids as [Hids|Hids]];
          unfold m_ids; cbn [Shim.opt_res]; sh;
          [ sh_r0 H0 t dd tr d;
            match goal with |- shim_agrees _ (KK _) (m_fix _ _ (Some ?l1) _ _ _) =>
              apply (HK _ (jd_set od (JStr "element_ids") (JList (map jv_of_ident l1))) (Some l1)) end; sh_side
          | apply (HK s1 od None); sh_side
          | apply (HK s1 od None); sh_side ] ]
      | (* no "order" *)
        destruct Ho as (-> & -> & ->); unfold m_ids, m_fix; cbn [Shim.opt_res]; sh; sh_final ]
    | (* the "elements" stage *)
      revert HK0; match goal with |- _ -> shim_agrees _ (bind _ ?K) _ => generalize K end; intros KK0 HK0;
      destruct xe as [e|]; [destruct We as (Hn & Hi)|]; rewrite He; msimpl'; cbn [Shim.opt_res];
      [ rewrite (H t dd (JDict tr) d pay e) by assumption;
        destruct (Shim.replaced_elements d e) as [e'|[|]]; msimpl'; try reflexivity;
        apply (HK0 _ (Some e')); sh_side
      | apply (HK0 tr None); sh_side ] ].
Qed.

(* other dimension types: the transforms dict is used as it is *)
Lemma gen__ElementIdShim_shimmed_dimension_transforms_dict_other :
  match src__ElementIdShim_shimmed_dimension_transforms_dict with
  | Some f => forall t dd tr, dt_in t [TCaSubvar; TMrSubvar; TNumArr; TDatetime] = false ->
      f (mkPyShim t dd tr) = Ok tr
  | None => True end.
Proof.
  unfold src__ElementIdShim_shimmed_dimension_transforms_dict.
  first [exact I | idtac].
  all: destruct src_DT_SHIMMED_TYPES as [shim|] eqn:Es; [|exact I].
  all: destruct src__ElementIdShim__replaced_element_transforms; [|exact I].
  all: destruct src__ElementIdShim__replaced_order_element_ids; [|exact I].
  all: gen_open; msimpl.
  all: unfold src_DT_SHIMMED_TYPES in Es; inversion Es; subst shim.
  all: destruct t; try discriminate; reflexivity.
Qed.
