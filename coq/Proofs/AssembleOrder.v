(* C05 order_nodup: the signed display order computed by the model's collators lists no
   element or subtotal twice and only indexes -n_subtotals .. n_elements-1. *)
From Coq Require Import List Sorting Permutation ZArith String Bool Lia Arith QArith.
From CC Require Import Base.XQ Base.SortX Spec.OrderSpec Model.Collator
  Proofs.OrderCollate Proofs.OrderExplicit Proofs.OrderIds Proofs.OrderVisible Proofs.OrderSbv
  Model.Assemble Proofs.AssembleProofs.
Import ListNotations.
Local Close Scope Q_scope.
Local Close Scope Z_scope.
Local Open Scope nat_scope.

(* --- generic ------------------------------------------------------------------------------ *)
Lemma NoDup_map_of_nat (l : list nat) : NoDup l -> NoDup (map Z.of_nat l).
Proof.
  induction 1 as [|x t Hx Ht IH]; simpl; constructor; auto.
  intros I. apply in_map_iff in I. destruct I as (y & E & Hy). apply Nat2Z.inj in E. subst. auto.
Qed.

Lemma NoDup_map_fst_of_nat {B} (l : list (nat * B)) :
  NoDup (map fst l) -> NoDup (map (fun e : nat * B => Z.of_nat (fst e)) l).
Proof.
  intros N. apply NoDup_map_of_nat in N. rewrite map_map in N. exact N.
Qed.

Lemma NoDup_map_partition {A B} (f : A -> B) (p q : A -> bool) l :
  (forall x, q x = negb (p x)) ->
  NoDup (map f l) ->
  NoDup (map f (filter p l) ++ map f (filter q l)).
Proof.
  intros Q. induction l as [|x t IH]; simpl; intros N; [constructor|].
  inversion N as [|? ? Hx Ht]; subst. specialize (IH Ht).
  assert (Hnot : ~ In (f x) (map f (filter p t) ++ map f (filter q t))).
  { intros I. apply Hx. apply in_app_or in I.
    destruct I as [I|I]; apply in_map_iff in I; destruct I as (y & E & Hy);
      apply filter_In in Hy; rewrite <- E; apply in_map; apply Hy. }
  rewrite (Q x). destruct (p x); simpl.
  - constructor; assumption.
  - eapply Permutation_NoDup; [apply Permutation_middle|]. constructor; assumption.
Qed.

Lemma fst_enumerate_nodup {A} (l : list A) : NoDup (map fst (enumerate l)).
Proof. rewrite fst_enumerate. apply seq_NoDup. Qed.

(* --- anchored collators -------------------------------------------------------------------- *)
Lemma collate_perm (desc : list bel) (floats : list flt) :
  Permutation (collate desc floats)
              (map (fun e : bel => Z.of_nat (fst e)) desc ++ map fst floats).
Proof.
  unfold collate.
  assert (P : Permutation (map kidx (ksort (base_keys desc ++ map (float_key desc) floats)))
                          (map kidx (base_keys desc ++ map (float_key desc) floats)))
    by (apply Permutation_map, ksort_perm).
  rewrite map_app, kidx_base_keys, kidx_float_keys in P. exact P.
Qed.

Lemma known_elems_fst_nodup d : NoDup (map fst (known_elems d)).
Proof.
  unfold known_elems. rewrite map_map. simpl.
  apply NoDup_map_filter. apply fst_enumerate_nodup.
Qed.

Lemma desc_of_fst_nodup d o : NoDup (d_ids d) -> NoDup (map fst (desc_of d o)).
Proof.
  intros N. destruct o as [|listed]; cbn [desc_of].
  - unfold descriptors_payload. apply fst_enumerate_nodup.
  - unfold descriptors_explicit.
    eapply Permutation_NoDup; [|apply known_elems_fst_nodup].
    apply Permutation_map. apply Permutation_sym. apply explicit_loop_perm.
    apply known_elems_ids_nodup. exact N.
Qed.

Lemma derived_floats_fst_nodup d : NoDup (map fst (derived_floats d)).
Proof.
  unfold derived_floats. rewrite map_map. simpl.
  apply NoDup_map_fst_of_nat.
  apply NoDup_map_filter. apply fst_enumerate_nodup.
Qed.

Lemma floats_of_fst_nodup d o anchors : NoDup (map fst (floats_of d o anchors)).
Proof.
  unfold floats_of. rewrite map_app, insertion_floats_idxs.
  apply NoDup_app_intro.
  - apply neg_idxs_nodup.
  - destruct o; [constructor|apply derived_floats_fst_nodup].
  - intros z Hz Hd. apply neg_idxs_in in Hz.
    destruct o; [destruct Hd|].
    apply in_map_iff in Hd. destruct Hd as (f & <- & Hf). apply derived_floats_nonneg in Hf. lia.
Qed.

Lemma collate_nodup d o anchors :
  NoDup (d_ids d) -> NoDup (collate (desc_of d o) (floats_of d o anchors)).
Proof.
  intros N. eapply Permutation_NoDup; [apply Permutation_sym, collate_perm|].
  apply NoDup_app_intro.
  - apply NoDup_map_fst_of_nat. apply desc_of_fst_nodup. exact N.
  - apply floats_of_fst_nodup.
  - intros z Hb Hf. apply in_map_iff in Hb. destruct Hb as ([k i] & <- & Hk). simpl in *.
    unfold floats_of in Hf. rewrite map_app, in_app_iff, insertion_floats_idxs in Hf.
    destruct Hf as [Hf|Hf]; [apply neg_idxs_in in Hf; lia|].
    destruct o as [|listed]; [destruct Hf|]. cbn [desc_of] in Hk.
    (* (k, i) is a non-derived element, but k is also the index of a derived one *)
    unfold descriptors_explicit in Hk.
    assert (Kn : In (k, i) (known_elems d)).
    { eapply Permutation_in; [apply explicit_loop_perm; apply known_elems_ids_nodup; exact N|exact Hk]. }
    unfold known_elems in Kn. apply in_map_iff in Kn. destruct Kn as ([k1 e1] & E1 & H1).
    simpl in E1. inversion E1; subst. apply filter_In in H1. destruct H1 as [H1 D1]. simpl in D1.
    unfold derived_floats in Hf. rewrite map_map in Hf. simpl in Hf.
    apply in_map_iff in Hf. destruct Hf as ([k2 e2] & E2 & H2). simpl in E2.
    apply Nat2Z.inj in E2. subst. apply filter_In in H2. destruct H2 as [H2 D2]. simpl in D2.
    assert (e1 = e2).
    { rewrite <- (enumerate_nth _ _ _ dflt_elem H1). apply (enumerate_nth _ _ _ dflt_elem H2). }
    subst. rewrite D2 in D1. discriminate.
Qed.

Theorem anchored_nodup d o subs empties order :
  NoDup (d_ids d) -> anchored_display_over d o subs empties = Ok order -> NoDup order.
Proof.
  intros N. unfold anchored_display_over.
  destruct (existsb is_other _); [discriminate|]. intros E. inversion E; subst.
  unfold displayed. apply NoDup_filter'. apply collate_nodup. exact N.
Qed.

(* --- sort-by-value collator ------------------------------------------------------------------ *)
(* the hypothesis the proof forces: no id of the dimension is named twice in fixed.top ++
   fixed.bottom (ids of no element may repeat - they are ignored) *)
Definition fixed_once (ids : list ident) (s : sortspec) : Prop :=
  NoDup (filter (fun i => imem i ids) (s_top s ++ s_bottom s)).

Lemma fixed_idxs_app ids a b : fixed_idxs ids (a ++ b) = fixed_idxs ids a ++ fixed_idxs ids b.
Proof. unfold fixed_idxs. apply flat_map_app. Qed.

Lemma fixed_idxs_in ids listed k :
  NoDup ids -> In k (fixed_idxs ids listed) ->
  k < List.length ids /\ In (nth k ids INone) listed.
Proof.
  intros N. rewrite (fixed_listed ids listed N). rewrite in_flat_map. intros (i & Hi & H).
  destruct (first_index i ids) as [k'|] eqn:E; [|destruct H].
  destruct H as [<-|[]]. destruct (first_index_spec _ _ _ E) as [L Nk]. rewrite Nk. auto.
Qed.

Lemma fixed_idxs_nodup ids listed :
  NoDup ids -> NoDup (filter (fun i => imem i ids) listed) -> NoDup (fixed_idxs ids listed).
Proof.
  intros N. induction listed as [|i r IH]; simpl; intros F; [constructor|].
  unfold fixed_idxs in *. simpl. rewrite (idx_by_id_first ids i N).
  destruct (imem i ids) eqn:M.
  - inversion F as [|? ? Hi Hr]; subst.
    destruct (first_index i ids) as [k|] eqn:E.
    + simpl. constructor; [|apply IH; exact Hr].
      intros I. destruct (fixed_idxs_in ids r k N I) as [_ J].
      destruct (first_index_spec _ _ _ E) as [_ Nk]. rewrite Nk in J.
      apply Hi. apply filter_In. split; [exact J|exact M].
    + simpl. apply IH. exact Hr.
  - assert (E : first_index i ids = None) by (apply first_index_none; apply imem_false; exact M).
    rewrite E. simpl. apply IH. exact F.
Qed.

Lemma subtotal_idxs_nodup desc (svals : list sval) : NoDup (subtotal_idxs desc svals).
Proof.
  unfold subtotal_idxs, subtotal_keys, subtotal_nans.
  set (c := combine svals (neg_idxs (List.length svals))).
  assert (S : map snd c = neg_idxs (List.length svals))
    by (apply map_snd_combine; rewrite neg_idxs_length; reflexivity).
  assert (ND : NoDup (map snd c)) by (rewrite S; apply neg_idxs_nodup).
  eapply Permutation_NoDup.
  - apply Permutation_app_tail. apply Permutation_map. apply Permutation_sym.
    apply (isort_perm (vkey_dir_leb desc)).
  - apply (NoDup_map_partition snd (fun k : vkey => negb (sval_nan (fst k)))
                                (fun k : vkey => sval_nan (fst k)) c); [|exact ND].
    intros x. rewrite negb_involutive. reflexivity.
Qed.

Lemma body_idxs_nodup desc (vals : list sval) fixed : NoDup (body_idxs desc vals fixed).
Proof.
  unfold body_idxs, body_keys, body_nans.
  set (f := fun kv : nat * sval => Z.of_nat (fst kv)).
  set (l := filter (fun kv : nat * sval => negb (nmem (fst kv) fixed)) (enumerate vals)).
  assert (ND : NoDup (map f l)).
  { unfold f, l. apply NoDup_map_fst_of_nat.
    apply NoDup_map_filter. apply fst_enumerate_nodup. }
  assert (X := NoDup_map_partition f (fun kv : nat * sval => negb (sval_nan (snd kv)))
                                  (fun kv : nat * sval => sval_nan (snd kv)) l
                                  (fun x => eq_sym (negb_involutive _)) ND).
  unfold l in X. rewrite !filter_filter in X.
  eapply Permutation_NoDup; [|exact X].
  apply Permutation_app_tail.
  eapply Permutation_trans.
  2:{ apply Permutation_map. apply Permutation_sym. apply (isort_perm (vkey_dir_leb desc)). }
  rewrite map_map. unfold f. simpl. apply Permutation_refl.
Qed.

Lemma body_idxs_nonneg desc (vals : list sval) fixed z :
  In z (body_idxs desc vals fixed) -> (0 <= z)%Z.
Proof.
  unfold body_idxs. intros H. apply in_app_or in H. destruct H as [H|H].
  - apply sort_vkeys_in in H. unfold body_keys in H. rewrite map_map in H.
    apply in_map_iff in H. destruct H as (x & E & _). simpl in E. lia.
  - unfold body_nans in H. apply in_map_iff in H. destruct H as (x & E & _). lia.
Qed.

Lemma sbv_concat_perm ids s vals svals :
  Permutation (List.concat (sbv_segments ids s vals svals))
              (subtotal_idxs (s_desc s) svals
               ++ map Z.of_nat (fixed_idxs ids (s_top s) ++ fixed_idxs ids (s_bottom s))
               ++ body_idxs (s_desc s) vals (fixed_idxs ids (s_top s) ++ fixed_idxs ids (s_bottom s))).
Proof.
  unfold sbv_segments. cbv zeta. simpl. rewrite app_nil_r. rewrite map_app.
  set (S := subtotal_idxs (s_desc s) svals).
  set (T := map Z.of_nat (fixed_idxs ids (s_top s))).
  set (Bt := map Z.of_nat (fixed_idxs ids (s_bottom s))).
  set (Bd := body_idxs (s_desc s) vals _).
  assert (P : Permutation (T ++ Bd ++ Bt) ((T ++ Bt) ++ Bd)).
  { rewrite <- app_assoc. apply Permutation_app_head. apply Permutation_app_comm. }
  destruct (s_desc s); simpl.
  - rewrite app_nil_r. apply Permutation_app_head. exact P.
  - eapply Permutation_trans.
    + replace (T ++ Bd ++ Bt ++ S) with ((T ++ Bd ++ Bt) ++ S) by (rewrite <- !app_assoc; reflexivity).
      apply Permutation_app_comm.
    + apply Permutation_app_head. exact P.
Qed.

Theorem sbv_nodup d s vals svals empties :
  NoDup (d_ids d) -> fixed_once (d_ids d) s ->
  NoDup (sbv_display d s vals svals empties).
Proof.
  intros N F. unfold sbv_display, displayed. apply NoDup_filter'.
  eapply Permutation_NoDup; [apply Permutation_sym, sbv_concat_perm|].
  assert (NF : NoDup (fixed_idxs (d_ids d) (s_top s) ++ fixed_idxs (d_ids d) (s_bottom s))).
  { rewrite <- fixed_idxs_app. apply fixed_idxs_nodup; assumption. }
  apply NoDup_app_intro.
  - apply subtotal_idxs_nodup.
  - apply NoDup_app_intro.
    + apply NoDup_map_of_nat. exact NF.
    + apply body_idxs_nodup.
    + intros z Hf Hb. apply in_map_iff in Hf. destruct Hf as (k & <- & Hk).
      apply body_idxs_in in Hb. destruct Hb as [_ Hb]. contradiction.
  - intros z Hs Ho. apply subtotal_idxs_in in Hs. apply in_app_or in Ho. destruct Ho as [Ho|Ho].
    + apply in_map_iff in Ho. destruct Ho as (k & <- & _). lia.
    + apply body_idxs_nonneg in Ho. lia.
Qed.

(* the hypothesis cannot be dropped: order.fixed = {top: [2, 2], bottom: [2]} on a dimension
   with ids 1, 2, 3 lists the element with id 2 three times *)
Definition refuting_dim : dimension :=
  mkDim [mkElem (IInt 1) false DNone; mkElem (IInt 2) false DNone; mkElem (IInt 3) false DNone]
        false [] None [] false.
Definition refuting_sort : sortspec := mkSort true [IInt 2; IInt 2] [IInt 2].
Definition refuting_vals : list sval := [VNum (Fin 1); VNum (Fin 2); VNum (Fin 3)].

Theorem sbv_nodup_refuted :
  NoDup (d_ids refuting_dim) /\
  values_fit refuting_dim (ByValue refuting_sort (Some (refuting_vals, []))) /\
  display_order refuting_dim (ByValue refuting_sort (Some (refuting_vals, []))) [] false
  = Ok [1; 1; 2; 0; 1]%Z /\
  ~ NoDup [1; 1; 2; 0; 1]%Z.
Proof.
  split; [|split; [|split]].
  - repeat constructor; simpl; intuition discriminate.
  - split; reflexivity.
  - vm_compute. reflexivity.
  - intros N. inversion N as [|? ? H _]. apply H. simpl. auto.
Qed.

(* --- every order helper --------------------------------------------------------------------- *)
Definition fixed_ok (d : dimension) (o : ordering) : Prop :=
  match o with
  | ByValue s (Some _) => fixed_once (d_ids d) s
  | _ => True
  end.

Theorem helper_order_nodup d o empties order :
  NoDup (d_ids d) -> fixed_ok d o -> helper_order d o empties = Ok order -> NoDup order.
Proof.
  intros N F. destruct o as [k|s [[vals svals]|]]; simpl.
  - apply anchored_nodup. exact N.
  - intros E. inversion E; subst. apply sbv_nodup; assumption.
  - apply anchored_nodup. exact N.
Qed.

Theorem display_order_nodup d o empties psub order :
  NoDup (d_ids d) -> values_fit d o -> fixed_ok d o ->
  display_order d o empties psub = Ok order ->
  NoDup order /\
  Forall (in_range (List.length (subtotals d)) (List.length (d_elems d))) order.
Proof.
  intros N V F H. split.
  - unfold display_order, bind in H.
    destruct (helper_order d o empties) as [l|c] eqn:E; [|discriminate].
    inversion H; subst. clear H.
    assert (NL := helper_order_nodup d o empties l N F E).
    destruct psub; [apply NoDup_filter'|]; exact NL.
  - apply Forall_forall. intros z Hz. unfold in_range.
    destruct (Z.ltb z 0) eqn:Neg.
    + apply Z.ltb_lt in Neg.
      apply (display_subtotal_iff d o empties psub order z N V Neg H) in Hz. lia.
    + apply Z.ltb_ge in Neg. rewrite <- (Z2Nat.id z Neg) in Hz.
      apply (display_visible_iff d o empties psub order (Z.to_nat z) N V H) in Hz. lia.
Qed.

(* payload and explicit orders: unconditionally *)
Theorem anchored_order_nodup d k empties psub order :
  NoDup (d_ids d) ->
  display_order d (ByAnchor k) empties psub = Ok order ->
  NoDup order /\
  Forall (in_range (List.length (subtotals d)) (List.length (d_elems d))) order.
Proof. intros N. apply display_order_nodup; simpl; auto. Qed.
