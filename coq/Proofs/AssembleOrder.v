(* C05 order_nodup: the signed display order computed by the model's collators lists no
   element or subtotal twice and only indexes -n_subtotals .. n_elements-1. *)
From Coq Require Import List Sorting Permutation ZArith String Bool Lia Arith QArith.
From CC Require Import Base.XQ Base.SortX Spec.OrderSpec Model.Collator
  Proofs.OrderCollate Proofs.OrderExplicit Proofs.OrderIds Proofs.OrderVisible Proofs.SbvDedup
  Proofs.OrderSbv
  Model.Assemble Proofs.AssembleProofs.
Import ListNotations.
Local Close Scope Q_scope.
Local Close Scope Z_scope.
Local Open Scope nat_scope.

(* (the generic NoDup lemmas and the duplicate-freeness of the body / subtotal / fixed groups are in
   Proofs/OrderSbv.v) *)

(* --- anchored collators -------------------------------------------------------------------- *)
Lemma collate_perm (desc : list bel) (floats : list flt) :
  Permutation (collate desc floats)
              (map (fun e : bel => Z.of_nat (fst e)) desc ++ map fst floats).
Proof.
  unfold collate.
  assert (P : Permutation (map kidx (ksort (base_keys desc ++ map (float_key desc) floats)))
                          (map kidx (base_keys desc ++ map (float_key desc) floats)))
    by (apply Permutation_map, ksort_perm).
  rewrite map_app, kidx_base_keys, kidx_float_keys in P. exact P.
Qed.

Lemma known_elems_fst_nodup d : NoDup (map fst (known_elems d)).
Proof.
  unfold known_elems. rewrite map_map. simpl.
  apply NoDup_map_filter. apply fst_enumerate_nodup.
Qed.

Lemma desc_of_fst_nodup d o : NoDup (d_ids d) -> NoDup (map fst (desc_of d o)).
Proof.
  intros N. destruct o as [|listed]; cbn [desc_of].
  - unfold descriptors_payload. apply fst_enumerate_nodup.
  - unfold descriptors_explicit.
    eapply Permutation_NoDup; [|apply known_elems_fst_nodup].
    apply Permutation_map. apply Permutation_sym. apply explicit_loop_perm.
    apply known_elems_ids_nodup. exact N.
Qed.

Lemma derived_floats_fst_nodup d : NoDup (map fst (derived_floats d)).
Proof.
  unfold derived_floats. rewrite map_map. simpl.
  apply NoDup_map_fst_of_nat.
  apply NoDup_map_filter. apply fst_enumerate_nodup.
Qed.

Lemma floats_of_fst_nodup d o anchors : NoDup (map fst (floats_of d o anchors)).
Proof.
  unfold floats_of. rewrite map_app, insertion_floats_idxs.
  apply NoDup_app_intro.
  - apply neg_idxs_nodup.
  - destruct o; [constructor|apply derived_floats_fst_nodup].
  - intros z Hz Hd. apply neg_idxs_in in Hz.
    destruct o; [destruct Hd|].
    apply in_map_iff in Hd. destruct Hd as (f & <- & Hf). apply derived_floats_nonneg in Hf. lia.
Qed.

Lemma collate_nodup d o anchors :
  NoDup (d_ids d) -> NoDup (collate (desc_of d o) (floats_of d o anchors)).
Proof.
  intros N. eapply Permutation_NoDup; [apply Permutation_sym, collate_perm|].
  apply NoDup_app_intro.
  - apply NoDup_map_fst_of_nat. apply desc_of_fst_nodup. exact N.
  - apply floats_of_fst_nodup.
  - intros z Hb Hf. apply in_map_iff in Hb. destruct Hb as ([k i] & <- & Hk). simpl in *.
    unfold floats_of in Hf. rewrite map_app, in_app_iff, insertion_floats_idxs in Hf.
    destruct Hf as [Hf|Hf]; [apply neg_idxs_in in Hf; lia|].
    destruct o as [|listed]; [destruct Hf|]. cbn [desc_of] in Hk.
    (* (k, i) is a non-derived element, but k is also the index of a derived one *)
    unfold descriptors_explicit in Hk.
    assert (Kn : In (k, i) (known_elems d)).
    { eapply Permutation_in; [apply explicit_loop_perm; apply known_elems_ids_nodup; exact N|exact Hk]. }
    unfold known_elems in Kn. apply in_map_iff in Kn. destruct Kn as ([k1 e1] & E1 & H1).
    simpl in E1. inversion E1; subst. apply filter_In in H1. destruct H1 as [H1 D1]. simpl in D1.
    unfold derived_floats in Hf. rewrite map_map in Hf. simpl in Hf.
    apply in_map_iff in Hf. destruct Hf as ([k2 e2] & E2 & H2). simpl in E2.
    apply Nat2Z.inj in E2. subst. apply filter_In in H2. destruct H2 as [H2 D2]. simpl in D2.
    assert (e1 = e2).
    { rewrite <- (enumerate_nth _ _ _ dflt_elem H1). apply (enumerate_nth _ _ _ dflt_elem H2). }
    subst. rewrite D2 in D1. discriminate.
Qed.

Theorem anchored_nodup d o subs empties order :
  NoDup (d_ids d) -> anchored_display_over d o subs empties = Ok order -> NoDup order.
Proof.
  intros N. unfold anchored_display_over.
  destruct (existsb is_other _); [discriminate|]. intros E. inversion E; subst.
  unfold displayed. apply NoDup_filter'. apply collate_nodup. exact N.
Qed.

(* --- sort-by-value collator ------------------------------------------------------------------ *)
(* whatever the fixed lists name: the collator keeps the first mention of every index *)
Theorem sbv_nodup d s vals svals empties : NoDup (sbv_display d s vals svals empties).
Proof. apply sbv_display_nodup. Qed.

(* the former witness of finding C05-fixed-repeats: order.fixed = {top: [2, 2], bottom: [2]} on a
   dimension with ids 1, 2, 3 listed the element with id 2 three times ([1; 1; 2; 0; 1]); it is now
   shown once, where it is first mentioned (fixed top) *)
Definition refuting_dim : dimension :=
  mkDim [mkElem (IInt 1) false DNone; mkElem (IInt 2) false DNone; mkElem (IInt 3) false DNone]
        false [] None [] false.
Definition refuting_sort : sortspec := mkSort true [IInt 2; IInt 2] [IInt 2].
Definition refuting_vals : list sval := [VNum (Fin 1); VNum (Fin 2); VNum (Fin 3)].

Theorem sbv_nodup_former_witness :
  NoDup (d_ids refuting_dim) /\
  values_fit refuting_dim (ByValue refuting_sort (Some (refuting_vals, []))) /\
  ~ fixed_once (d_ids refuting_dim) refuting_sort /\
  sbv_plain refuting_dim refuting_sort refuting_vals [] [] = [1; 1; 2; 0; 1]%Z /\
  display_order refuting_dim (ByValue refuting_sort (Some (refuting_vals, []))) [] false
  = Ok [1; 2; 0]%Z /\
  NoDup [1; 2; 0]%Z.
Proof.
  split; [|split; [|split; [|split; [|split]]]].
  - repeat constructor; simpl; intuition discriminate.
  - split; reflexivity.
  - unfold fixed_once. vm_compute. intros N. inversion N as [|? ? H _]. apply H. simpl. auto.
  - vm_compute. reflexivity.
  - vm_compute. reflexivity.
  - repeat constructor; simpl; intuition discriminate.
Qed.

(* --- every order helper --------------------------------------------------------------------- *)
Theorem helper_order_nodup d o empties order :
  NoDup (d_ids d) -> helper_order d o empties = Ok order -> NoDup order.
Proof.
  intros N. destruct o as [k|s [[vals svals]|]]; simpl.
  - apply anchored_nodup. exact N.
  - intros E. inversion E; subst. apply sbv_nodup.
  - apply anchored_nodup. exact N.
Qed.

Theorem display_order_nodup d o empties psub order :
  NoDup (d_ids d) -> values_fit d o ->
  display_order d o empties psub = Ok order ->
  NoDup order /\
  Forall (in_range (List.length (subtotals d)) (List.length (d_elems d))) order.
Proof.
  intros N V H. split.
  - unfold display_order, bind in H.
    destruct (helper_order d o empties) as [l|c] eqn:E; [|discriminate].
    inversion H; subst. clear H.
    assert (NL := helper_order_nodup d o empties l N E).
    destruct psub; [apply NoDup_filter'|]; exact NL.
  - apply Forall_forall. intros z Hz. unfold in_range.
    destruct (Z.ltb z 0) eqn:Neg.
    + apply Z.ltb_lt in Neg.
      apply (display_subtotal_iff d o empties psub order z N V Neg H) in Hz. lia.
    + apply Z.ltb_ge in Neg. rewrite <- (Z2Nat.id z Neg) in Hz.
      apply (display_visible_iff d o empties psub order (Z.to_nat z) N V H) in Hz. lia.
Qed.

(* payload and explicit orders (no value vectors to fit) *)
Theorem anchored_order_nodup d k empties psub order :
  NoDup (d_ids d) ->
  display_order d (ByAnchor k) empties psub = Ok order ->
  NoDup order /\
  Forall (in_range (List.length (subtotals d)) (List.length (d_elems d))) order.
Proof. intros N. apply display_order_nodup; simpl; auto. Qed.
