(* GenAgreeCubePartition: Cube.dimensions / dimension_types / ndim / _ca_as_0th / _slice_idxs / partitions as
   generated from src/cr/cube/cube.py (Gen/CubeSrc.v) ARE the definitions of Model/Partition.v the theorems of
   C06 are about, and every CubePartition.factory(..) call carries the cube's own transforms, population,
   ca_as_0th flag and mask size - for all dimension lists, cube indexes and responses. *)
From Coq Require Import List ZArith QArith String Bool Lia Arith.
From CC Require Import Base.XQ Base.ListX Base.PyList Base.PyJson Spec.Survey Model.CubeCounts Model.DimType
  Model.Partition Model.PyCube Gen.CubeSrc Proofs.GenAgreeCubeLib.
Import ListNotations.
Local Close Scope Q_scope.
Local Open Scope Z_scope.
Local Open Scope string_scope.

(* --- the Python view of the model's dimensions --------------------------------------------------- *)
Lemma apparent_dimd_of vs : apparent (map dimd_of vs) = map dimd_of (filter dimv_apparent vs).
Proof.
  unfold apparent. induction vs as [|v t IH]; simpl; auto.
  unfold dimv_apparent at 1, is_mrcat at 1, dimd_of at 1. simpl.
  rewrite IH. destruct (dv_type v); reflexivity.
Qed.

Lemma cube_ndim_view vs : cube_ndim (map dimd_of vs) = List.length (filter dimv_apparent vs).
Proof. unfold cube_ndim. rewrite apparent_dimd_of, map_length. reflexivity. Qed.

Lemma py_len_map {A B} (f : A -> B) l : py_len (map f l) = py_len l.
Proof. unfold py_len. rewrite map_length. reflexivity. Qed.

Lemma py_list_getitem_0_nil {A} : py_list_getitem (@nil A) 0 = PErr EIndex.
Proof. reflexivity. Qed.

(*@ C06 *)
Lemma gen_cube_Cube_dimensions :
  match src_Cube_dimensions, src_Cube__all_dimensions with
  | Some f, Some g => forall X c dims, g X c = POk dims -> f X c = POk (pds_apparent dims)
  | _, _ => True end.
Proof.
  unfold src_Cube_dimensions. src_cases; (gen_open; rewrite H; reflexivity).
Qed.

(*@ C06 *)
Lemma gen_cube_Cube_dimension_types :
  match src_Cube_dimension_types, src_Cube__all_dimensions with
  | Some f, Some g => forall X c dims, g X c = POk dims ->
      f X c = POk (map pd_dimension_type (pds_apparent dims))
  | _, _ => True end.
Proof.
  unfold src_Cube_dimension_types. generalize gen_cube_Cube_dimensions. unfold src_Cube_dimensions.
  src_cases; (intros Hd; gen_open; rewrite (Hd X c dims H); reflexivity).
Qed.

(*@ C06 *)
Lemma gen_cube_Cube_ndim :
  match src_Cube_ndim, src_Cube__all_dimensions with
  | Some f, Some g => forall X c vs, g X c = POk (pydims_of vs) ->
      f X c = POk (Z.of_nat (cube_ndim (map dimd_of vs)))
  | _, _ => True end.
Proof.
  unfold src_Cube_ndim. generalize gen_cube_Cube_dimensions. unfold src_Cube_dimensions.
  src_cases; (intros Hd; gen_open; rewrite (Hd X c _ H); cbn [pbind pydims_of pds_apparent];
  rewrite py_len_map, cube_ndim_view; reflexivity).
Qed.

(*@ C06 *)
Lemma gen_cube_Cube_is_single_filter_col_cube :
  match src_Cube_is_single_filter_col_cube, src_Cube__cube_response with
  | Some f, Some g => forall X c res, g X c = POk (JDict [("result", JDict res)]) ->
      f X c = POk (match py_dict_get String.eqb res "is_single_col_cube" with Some v => v | None => JBool false end)
  | _, _ => True end.
Proof.
  unfold src_Cube_is_single_filter_col_cube. src_cases; (gen_open; rewrite H; reflexivity).
Qed.

(* dimension_types[0] == DT.CA on the view *)
Lemma dim0_view vs :
  match filter dimv_apparent vs with
  | v :: _ => dim0 (map dimd_of vs) = Some (dimd_of v)
  | [] => dim0 (map dimd_of vs) = None
  end.
Proof. unfold dim0. rewrite apparent_dimd_of. destruct (filter dimv_apparent vs); reflexivity. Qed.

Lemma is_ca_subvar_view v : is_ca_subvar (dimd_of v) = dtype_eqb (dv_type v) TCaSubvar.
Proof. unfold is_ca_subvar, dimd_of. simpl. destruct (dv_type v); reflexivity. Qed.

(* the cube_idx argument as the models count it *)
Definition idx_arg (idx : option nat) : option Z := option_map Z.of_nat idx.

Lemma opt_eq_Z_idx idx : opt_eq_Z (idx_arg idx) 0 = match idx with Some O => true | _ => false end.
Proof. destruct idx as [[|n]|]; reflexivity. Qed.

(*@ C06 *)
Lemma gen_cube_Cube__ca_as_0th :
  match src_Cube__ca_as_0th, src_Cube__all_dimensions, src_Cube_is_single_filter_col_cube with
  | Some f, Some g1, Some g2 => forall X c vs single idx,
      g1 X c = POk (pydims_of vs) -> g2 X c = POk single -> pc_cube_idx_arg c = idx_arg idx ->
      f X c = POk (ca_as_0th idx (json_truthy single) (map dimd_of vs))
  | _, _, _ => True end.
Proof.
  unfold src_Cube__ca_as_0th. generalize gen_cube_Cube_dimension_types.
  unfold src_Cube_dimension_types, src_Cube_dimensions.
  src_cases; (intros Ht; gen_open;
  rewrite H1, opt_eq_Z_idx, H0, !(Ht X c _ H); unfold ca_as_0th;
  cbn [pbind pydims_of pds_apparent]; rewrite !map_map, py_len_map;
  pose proof (dim0_view vs) as D;
  destruct (filter dimv_apparent vs) as [|v t]; rewrite D;
    [| rewrite is_ca_subvar_view ];
    destruct (match idx with Some 0%nat => true | _ => false end), (json_truthy single); cbn;
    try reflexivity;
    unfold py_len; cbn [List.length];
    (replace (Z.of_nat (S (List.length t)) >? 0) with true by (symmetry; apply Z.gtb_lt; lia));
    reflexivity).
Qed.

Lemma nvalid_view v : py_len (pd_valid_idxs (pydim_of v)) = Z.of_nat (nvalid (dimd_of v)).
Proof. unfold pydim_of, nvalid, dvalid, dimd_of. simpl. rewrite py_len_map. reflexivity. Qed.

(*@ C06 *)
Lemma gen_cube_Cube__slice_idxs :
  match src_Cube__slice_idxs, src_Cube__all_dimensions, src_Cube__ca_as_0th with
  | Some f, Some g1, Some g2 => forall X c vs ca0,
      g1 X c = POk (pydims_of vs) -> g2 X c = POk ca0 ->
      (ca0 = true -> cube_ndim (map dimd_of vs) <> 0%nat) ->
      f X c = POk (map Z.of_nat (slice_idxs (map dimd_of vs) ca0))
  | _, _, _ => True end.
Proof.
  unfold src_Cube__slice_idxs. generalize gen_cube_Cube_ndim gen_cube_Cube_dimensions.
  unfold src_Cube_ndim, src_Cube_dimensions.
  src_cases; (intros Hn Hd; gen_open;
  rewrite (Hn X c vs H), H0, (Hd X c _ H); cbn [pbind pydims_of pds_apparent];
  unfold slice_idxs, n_partitions; rewrite apparent_dimd_of, map_length;
  rewrite cube_ndim_view in *;
  assert (E : Z.ltb (Z.of_nat (List.length (filter dimv_apparent vs))) 3
              = Nat.ltb (List.length (filter dimv_apparent vs)) 3)
    by (destruct (Nat.ltb_spec (List.length (filter dimv_apparent vs)) 3);
        [apply Z.ltb_lt | apply Z.ltb_ge]; lia);
  rewrite E; destruct (Nat.ltb (List.length (filter dimv_apparent vs)) 3) eqn:E3; cbn [andb pbind];
  [ destruct ca0; cbn [negb pbind andb];
    [ destruct (filter dimv_apparent vs) as [|v t]; [exfalso; apply H1; reflexivity|];
      cbn [map]; rewrite py_list_getitem_0; cbn [pbind]; rewrite nvalid_view, py_range_of_nat; reflexivity
    | reflexivity ]
  | destruct (filter dimv_apparent vs) as [|v t]; [discriminate E3|];
    cbn [map]; rewrite py_list_getitem_0; cbn [pbind]; rewrite nvalid_view, py_range_of_nat; reflexivity ]).
Qed.

(* every partition is asked of the factory with the cube itself, its own transforms, population, ca_as_0th
   flag and mask size *)
(*@ C06 *)
Lemma gen_cube_Cube_partitions :
  match src_Cube_partitions, src_Cube__slice_idxs, src_Cube__ca_as_0th with
  | Some f, Some g1, Some g2 => forall X c idxs ca0,
      g1 X c = POk idxs -> g2 X c = POk ca0 ->
      f X c = POk (map (fun k => mkPyFactory c k (pc_transforms_dict c) (pc_population c) (Some ca0)
                                             (pc_mask_size c)) idxs)
  | _, _, _ => True end.
Proof.
  unfold src_Cube_partitions. src_cases; (gen_open; rewrite H; cbn [pbind];
  rewrite (pmapM_ok _ (fun k => mkPyFactory c k (pc_transforms_dict c) (pc_population c) (Some ca0)
                                            (pc_mask_size c)))
    by (intros; rewrite H0; reflexivity);
  reflexivity).
Qed.

(* Cube.partitions against Model/Partition.v: one factory call per model partition, in order *)
(*@ C06 *)
Lemma gen_cube_Cube_partitions_model :
  match src_Cube_partitions, src_Cube__all_dimensions, src_Cube_is_single_filter_col_cube with
  | Some f, Some g1, Some g2 => forall X c vs single idx,
      g1 X c = POk (pydims_of vs) -> g2 X c = POk single -> pc_cube_idx_arg c = idx_arg idx ->
      let ds := map dimd_of vs in
      let ca0 := ca_as_0th idx (json_truthy single) ds in
      f X c = POk (map (fun p => mkPyFactory c (Z.of_nat (pt_idx p)) (pc_transforms_dict c) (pc_population c)
                                             (Some ca0) (pc_mask_size c))
                       (partitions ds ca0))
  | _, _, _ => True end.
Proof.
  generalize gen_cube_Cube_partitions gen_cube_Cube__slice_idxs gen_cube_Cube__ca_as_0th.
  unfold src_Cube_partitions, src_Cube__slice_idxs, src_Cube__ca_as_0th, src_Cube_ndim,
    src_Cube_dimension_types, src_Cube_dimensions.
  src_cases; (intros Hp Hs Hc; gen_open;
  set (ds := map dimd_of vs); set (ca0 := ca_as_0th idx (json_truthy single) ds);
  pose proof (Hc X c vs single idx H H0 H1) as Eca; fold ds in Eca; fold ca0 in Eca;
  assert (Hnz : ca0 = true -> cube_ndim ds <> 0%nat)
    by (unfold ca0, ca_as_0th, cube_ndim, dim0; destruct (apparent ds); [|discriminate];
        rewrite andb_false_r; discriminate);
  pose proof (Hs X c vs ca0 H Eca Hnz) as Es; fold ds in Es;
  rewrite (Hp X c _ ca0 Es Eca); unfold partitions; rewrite !map_map; reflexivity).
Qed.

(* --- what a cube says about itself ---------------------------------------------------------------------------- *)
(*@ C06 *)
Lemma gen_cube_Cube_cube_index :
  match src_Cube_cube_index with
  | Some f => forall X c, f X c = POk (match pc_cube_idx_arg c with Some z => z | None => 0 end)
  | None => True end.
Proof. unfold src_Cube_cube_index. first [exact I | gen_open; reflexivity]. Qed.

Definition dict_get_or (res : list (string * json)) (k : string) (dflt : json) : json :=
  match py_dict_get String.eqb res k with Some v => v | None => dflt end.

(*@ C06 *)
Lemma gen_cube_Cube_n_responses :
  match src_Cube_n_responses, src_Cube__cube_response with
  | Some f, Some g => forall X c res, g X c = POk (JDict [("result", JDict res)]) ->
      f X c = POk (dict_get_or res "n" (JInt 0))
  | _, _ => True end.
Proof. unfold src_Cube_n_responses; src_cases; (gen_open; rewrite H; reflexivity). Qed.

(*@ C06 *)
Lemma gen_cube_Cube_title :
  match src_Cube_title, src_Cube__cube_response with
  | Some f, Some g => forall X c res, g X c = POk (JDict [("result", JDict res)]) ->
      f X c = POk (dict_get_or res "title" (JStr "Untitled"))
  | _, _ => True end.
Proof. unfold src_Cube_title; src_cases; (gen_open; rewrite H; reflexivity). Qed.

(* the name / description of a cube are those of its first apparent dimension, None without dimensions *)
(*@ C06 *)
Lemma gen_cube_Cube_name :
  match src_Cube_name, src_Cube_dimensions with
  | Some f, Some g => forall X c dims, g X c = POk dims ->
      f X c = POk (match dims with d :: _ => pd_name d | [] => JNull end)
  | _, _ => True end.
Proof.
  unfold src_Cube_name; src_cases; (gen_open; rewrite !H; destruct dims as [|d t]; reflexivity).
Qed.

(*@ C06 *)
Lemma gen_cube_Cube_description :
  match src_Cube_description, src_Cube_dimensions with
  | Some f, Some g => forall X c dims, g X c = POk dims ->
      f X c = POk (match dims with d :: _ => pd_description d | [] => JNull end)
  | _, _ => True end.
Proof.
  unfold src_Cube_description; src_cases; (gen_open; rewrite !H; destruct dims as [|d t]; reflexivity).
Qed.
