(* GenAgreeCubeNumeric: the numeric measures mean / sum / stddev of cube.py as generated from the source
   (Gen/CubeSrc.v): _flat_values reads result.measures.<key>.data with every {"?": code} item as NaN, None when
   the response has no such measure; raw_cube_array reshapes it to Dimensions.shape; _Measures.<measure> is the
   measure object or None; Cube.means / sums / stddev read, cell by cell, the valid tensor of that payload
   (Model/CubeCounts.v take_valid_ord of of_flat - what slice_passthrough is fed with). *)
From Coq Require Import List ZArith QArith String Bool Lia Arith.
From CC Require Import Base.XQ Base.ListX Base.PyList Base.PyJson Spec.Survey Model.CubeCounts Model.DimType
  Model.PyCube Gen.CubeSrc Proofs.GenAgreeCubeLib Proofs.GenAgreeCubeBase Proofs.GenAgreeCubeArray
  Proofs.GenAgreeCubeCounts.
Import ListNotations.
Local Close Scope Q_scope.
Local Open Scope Z_scope.

(* the data of a numeric measure: a number, or the object {"?": code} for an unavailable cell *)
Definition num_item_json (o : option xq) : json :=
  match o with Some x => JFloat x | None => JDict [("?"%string, JInt (-1))] end.
Definition num_decode (l : list (option xq)) : list xq :=
  map (fun o => match o with Some x => x | None => NaN end) l.
(* a response whose result.measures is [ms] *)
Definition measures_response (ms more : list (string * json)) : json :=
  JDict [("result"%string, JDict (("measures"%string, JDict ms) :: more))].
(* result.measures.<key> carries the data [l] (and anything else [pm]) *)
Definition has_numeric (ms : list (string * json)) (key : string) (l : list (option xq)) : Prop :=
  exists pm, dget ms key = Some (JDict (("data"%string, JList (map num_item_json l)) :: pm)).

Lemma np_floats_num l :
  pmapM np_float_of (map (fun l_x => if json_is_dict l_x then JFloat NaN else l_x) (map num_item_json l))
  = POk (num_decode l).
Proof.
  induction l as [|[x|] t IH]; simpl; auto; rewrite IH; reflexivity.
Qed.

Lemma np_array_num l :
  np_array_f64_list (map (fun l_x => if json_is_dict l_x then JFloat NaN else l_x) (map num_item_json l))
  = POk (arr1 (num_decode l)).
Proof.
  unfold np_array_f64_list. rewrite np_floats_num. cbn [pbind]. unfold arr1, num_decode.
  rewrite !map_length. reflexivity.
Qed.

(** * mean *)
(*@ C01 *)
Lemma gen_cube_MeanMeasure__flat_values :
  match src__MeanMeasure__flat_values with
  | Some f => forall X cls ms more dims idx,
      (forall l, has_numeric ms "mean" l ->
         f X (mkPyMeasure cls (measures_response ms more) dims idx) = POk (some_arr (Some (num_decode l)))) /\
      (dget ms "mean" = None ->
         f X (mkPyMeasure cls (measures_response ms more) dims idx) = POk None)
  | None => True end.
Proof.
  unfold src__MeanMeasure__flat_values.
  first [exact I |
  gen_open; unfold measures_response, has_numeric, dget; split;
  [ intros l (pm & H); cbn [bm_cube_dict py_getitem_str py_get py_dict_get String.eqb Ascii.eqb Bool.eqb
                            pres_of_option pbind];
    rewrite H; cbn [pbind json_is_none py_getitem_str py_dict_get String.eqb Ascii.eqb Bool.eqb pres_of_option
                    py_iter];
    rewrite np_array_num; reflexivity
  | intros H; cbn [bm_cube_dict py_getitem_str py_get py_dict_get String.eqb Ascii.eqb Bool.eqb
                   pres_of_option pbind];
    rewrite H; reflexivity ]].
Qed.

(*@ C01 *)
Lemma gen_cube_MeanMeasure__shape :
  match src__MeanMeasure__shape with
  | Some f => forall X m, f X m = POk (pds_shape (bm_all_dimensions m))
  | None => True end.
Proof. unfold src__MeanMeasure__shape. first [exact I | gen_open; reflexivity]. Qed.

(*@ C01 *)
Lemma gen_cube_MeanMeasure_raw_cube_array :
  match src__MeanMeasure_raw_cube_array, src__MeanMeasure__flat_values, src__MeanMeasure__shape with
  | Some f, Some g1, Some g2 => forall X m o sh,
      g1 X m = POk (some_arr o) -> g2 X m = POk (map Z.of_nat sh) -> f X m = POk (raw_array sh o)
  | _, _, _ => True end.
Proof. unfold src__MeanMeasure_raw_cube_array. raw_tac. Qed.

(*@ C01 *)
Lemma gen_cube_MeanMeasure_raw_cube_array_numeric :
  match src__MeanMeasure_raw_cube_array with
  | Some f => forall X cls ms more vs idx,
      (forall l, has_numeric ms "mean" l ->
         f X (mkPyMeasure cls (measures_response ms more) (pydims_of vs) idx)
         = POk (raw_array (raw_shape (dims_of vs)) (Some (num_decode l)))) /\
      (dget ms "mean" = None ->
         f X (mkPyMeasure cls (measures_response ms more) (pydims_of vs) idx) = POk None)
  | None => True end.
Proof.
  generalize gen_cube_MeanMeasure_raw_cube_array gen_cube_MeanMeasure__flat_values gen_cube_MeanMeasure__shape.
  unfold src__MeanMeasure_raw_cube_array.
  src_cases; (intros R F S; intros X cls ms more vs idx;
  destruct (F X cls ms more (pydims_of vs) idx) as (Fs & Fn);
  split;
  [ intros l Hl; apply (R X _ (Some (num_decode l))); [apply Fs; exact Hl | apply S]
  | intros Hn; apply (R X _ None (raw_shape (dims_of vs))); [apply Fn; exact Hn | apply S] ]).
Qed.

(*@ C01 *)
Lemma gen_cube_MeanMeasure___init__ :
  match src__MeanMeasure___init__ with
  | Some f => forall cd dims idx, f cd dims idx = mkPyMeasure MC_Mean cd dims idx
  | None => True end.
Proof. unfold src__MeanMeasure___init__. first [exact I | gen_open; reflexivity]. Qed.

(*@ C01 *)
Lemma gen_cube_Measures_means :
  match src__Measures_means, src__MeanMeasure_raw_cube_array with
  | Some f, Some g => forall X cd dims idx r,
      g X (mkPyMeasure MC_Mean cd dims idx) = POk r ->
      f X (mkPyMeasures cd dims idx) = POk (opt_measure MC_Mean cd dims idx r)
  | _, _ => True end.
Proof.
  generalize gen_cube_MeanMeasure___init__. unfold src__Measures_means.
  src_cases; (intros I; intros X cd dims idx r H;
  cbn [pm_cube_dict pm_all_dimensions pm_cube_idx_arg]; rewrite I, H; cbn [pbind];
  destruct r; reflexivity).
Qed.

(* Cube.means: the valid cells of result.measures.mean.data, None when the response has no such measure *)
(*@ C01 *)
Lemma gen_cube_Cube_means :
  match src_Cube_means, src_Cube__cube_response, src_Cube__all_dimensions with
  | Some f, Some g1, Some g2 => forall X c ms more vs,
      g1 X c = POk (measures_response ms more) -> g2 X c = POk (pydims_of vs) ->
      (forall l, has_numeric ms "mean" l -> List.length l = size_of (raw_shape (dims_of vs)) ->
         reads_opt (f X c) (map nvalid (dims_of vs)) (Some (valid_tensor (dims_of vs) (num_decode l)))) /\
      (dget ms "mean" = None -> f X c = POk None)
  | _, _, _ => True end.
Proof.
  generalize gen_cube_Cube__measures gen_cube_Measures_means gen_cube_MeanMeasure_raw_cube_array_numeric
    gen_cube_Cube__valid_idxs.
  unfold src_Cube_means.
  src_cases; (intros Hm Hv R Hg; intros X c ms more vs H1 H2;
  rewrite !(Hm X c _ _ H1 H2); cbn [pbind];
  destruct (R X MC_Mean ms more vs (pc_cube_idx_arg c)) as (Rs & Rn);
  split;
  [ intros l Hl Hlen;
    pose proof (Rs l Hl) as Hr;
    assert (Ea : raw_array (raw_shape (dims_of vs)) (Some (num_decode l))
                 = Some (mkArr (raw_shape (dims_of vs)) (num_decode l)))
      by (unfold raw_array, num_decode; rewrite map_length, Hlen, Nat.eqb_refl; reflexivity);
    rewrite Ea in Hr;
    rewrite !(Hv X _ _ _ _ Hr);
    cbn [pbind opt_measure opt_is_none pres_of_option];
    rewrite Hr; cbn [pbind pres_of_option];
    rewrite (Hg X c vs H2);
    apply (reads_opt_some _ np_astype_f64); [reflexivity|]; apply np_take_valid_grid
  | intros Hn;
    rewrite !(Hv X _ _ _ _ (Rn Hn)); reflexivity ]).
Qed.

(** * sum *)
(*@ C01 *)
Lemma gen_cube_SumMeasure__flat_values :
  match src__SumMeasure__flat_values with
  | Some f => forall X cls ms more dims idx,
      (forall l, has_numeric ms "sum" l ->
         f X (mkPyMeasure cls (measures_response ms more) dims idx) = POk (some_arr (Some (num_decode l)))) /\
      (dget ms "sum" = None ->
         f X (mkPyMeasure cls (measures_response ms more) dims idx) = POk None)
  | None => True end.
Proof.
  unfold src__SumMeasure__flat_values.
  first [exact I |
  gen_open; unfold measures_response, has_numeric, dget; split;
  [ intros l (pm & H); cbn [bm_cube_dict py_getitem_str py_get py_dict_get String.eqb Ascii.eqb Bool.eqb
                            pres_of_option pbind];
    rewrite H; cbn [pbind json_is_none py_getitem_str py_dict_get String.eqb Ascii.eqb Bool.eqb pres_of_option
                    py_iter];
    rewrite np_array_num; reflexivity
  | intros H; cbn [bm_cube_dict py_getitem_str py_get py_dict_get String.eqb Ascii.eqb Bool.eqb
                   pres_of_option pbind];
    rewrite H; reflexivity ]].
Qed.

(*@ C01 *)
Lemma gen_cube_SumMeasure__shape :
  match src__SumMeasure__shape with
  | Some f => forall X m, f X m = POk (pds_shape (bm_all_dimensions m))
  | None => True end.
Proof. unfold src__SumMeasure__shape. first [exact I | gen_open; reflexivity]. Qed.

(*@ C01 *)
Lemma gen_cube_SumMeasure_raw_cube_array :
  match src__SumMeasure_raw_cube_array, src__SumMeasure__flat_values, src__SumMeasure__shape with
  | Some f, Some g1, Some g2 => forall X m o sh,
      g1 X m = POk (some_arr o) -> g2 X m = POk (map Z.of_nat sh) -> f X m = POk (raw_array sh o)
  | _, _, _ => True end.
Proof. unfold src__SumMeasure_raw_cube_array. raw_tac. Qed.

(*@ C01 *)
Lemma gen_cube_SumMeasure_raw_cube_array_numeric :
  match src__SumMeasure_raw_cube_array with
  | Some f => forall X cls ms more vs idx,
      (forall l, has_numeric ms "sum" l ->
         f X (mkPyMeasure cls (measures_response ms more) (pydims_of vs) idx)
         = POk (raw_array (raw_shape (dims_of vs)) (Some (num_decode l)))) /\
      (dget ms "sum" = None ->
         f X (mkPyMeasure cls (measures_response ms more) (pydims_of vs) idx) = POk None)
  | None => True end.
Proof.
  generalize gen_cube_SumMeasure_raw_cube_array gen_cube_SumMeasure__flat_values gen_cube_SumMeasure__shape.
  unfold src__SumMeasure_raw_cube_array.
  src_cases; (intros R F S; intros X cls ms more vs idx;
  destruct (F X cls ms more (pydims_of vs) idx) as (Fs & Fn);
  split;
  [ intros l Hl; apply (R X _ (Some (num_decode l))); [apply Fs; exact Hl | apply S]
  | intros Hn; apply (R X _ None (raw_shape (dims_of vs))); [apply Fn; exact Hn | apply S] ]).
Qed.

(*@ C01 *)
Lemma gen_cube_SumMeasure___init__ :
  match src__SumMeasure___init__ with
  | Some f => forall cd dims idx, f cd dims idx = mkPyMeasure MC_Sum cd dims idx
  | None => True end.
Proof. unfold src__SumMeasure___init__. first [exact I | gen_open; reflexivity]. Qed.

(*@ C01 *)
Lemma gen_cube_Measures_sums :
  match src__Measures_sums, src__SumMeasure_raw_cube_array with
  | Some f, Some g => forall X cd dims idx r,
      g X (mkPyMeasure MC_Sum cd dims idx) = POk r ->
      f X (mkPyMeasures cd dims idx) = POk (opt_measure MC_Sum cd dims idx r)
  | _, _ => True end.
Proof.
  generalize gen_cube_SumMeasure___init__. unfold src__Measures_sums.
  src_cases; (intros I; intros X cd dims idx r H;
  cbn [pm_cube_dict pm_all_dimensions pm_cube_idx_arg]; rewrite I, H; cbn [pbind];
  destruct r; reflexivity).
Qed.

(* Cube.sums: the valid cells of result.measures.sum.data, None when the response has no such measure *)
(*@ C01 *)
Lemma gen_cube_Cube_sums :
  match src_Cube_sums, src_Cube__cube_response, src_Cube__all_dimensions with
  | Some f, Some g1, Some g2 => forall X c ms more vs,
      g1 X c = POk (measures_response ms more) -> g2 X c = POk (pydims_of vs) ->
      (forall l, has_numeric ms "sum" l -> List.length l = size_of (raw_shape (dims_of vs)) ->
         reads_opt (f X c) (map nvalid (dims_of vs)) (Some (valid_tensor (dims_of vs) (num_decode l)))) /\
      (dget ms "sum" = None -> f X c = POk None)
  | _, _, _ => True end.
Proof.
  generalize gen_cube_Cube__measures gen_cube_Measures_sums gen_cube_SumMeasure_raw_cube_array_numeric
    gen_cube_Cube__valid_idxs.
  unfold src_Cube_sums.
  src_cases; (intros Hm Hv R Hg; intros X c ms more vs H1 H2;
  rewrite !(Hm X c _ _ H1 H2); cbn [pbind];
  destruct (R X MC_Sum ms more vs (pc_cube_idx_arg c)) as (Rs & Rn);
  split;
  [ intros l Hl Hlen;
    pose proof (Rs l Hl) as Hr;
    assert (Ea : raw_array (raw_shape (dims_of vs)) (Some (num_decode l))
                 = Some (mkArr (raw_shape (dims_of vs)) (num_decode l)))
      by (unfold raw_array, num_decode; rewrite map_length, Hlen, Nat.eqb_refl; reflexivity);
    rewrite Ea in Hr;
    rewrite !(Hv X _ _ _ _ Hr);
    cbn [pbind opt_measure opt_is_none pres_of_option];
    rewrite Hr; cbn [pbind pres_of_option];
    rewrite (Hg X c vs H2);
    apply (reads_opt_some _ np_astype_f64); [reflexivity|]; apply np_take_valid_grid
  | intros Hn;
    rewrite !(Hv X _ _ _ _ (Rn Hn)); reflexivity ]).
Qed.

(** * stddev *)
(*@ C01 *)
Lemma gen_cube_StdDevMeasure__flat_values :
  match src__StdDevMeasure__flat_values with
  | Some f => forall X cls ms more dims idx,
      (forall l, has_numeric ms "stddev" l ->
         f X (mkPyMeasure cls (measures_response ms more) dims idx) = POk (some_arr (Some (num_decode l)))) /\
      (dget ms "stddev" = None ->
         f X (mkPyMeasure cls (measures_response ms more) dims idx) = POk None)
  | None => True end.
Proof.
  unfold src__StdDevMeasure__flat_values.
  first [exact I |
  gen_open; unfold measures_response, has_numeric, dget; split;
  [ intros l (pm & H); cbn [bm_cube_dict py_getitem_str py_get py_dict_get String.eqb Ascii.eqb Bool.eqb
                            pres_of_option pbind];
    rewrite H; cbn [pbind json_is_none py_getitem_str py_dict_get String.eqb Ascii.eqb Bool.eqb pres_of_option
                    py_iter];
    rewrite np_array_num; reflexivity
  | intros H; cbn [bm_cube_dict py_getitem_str py_get py_dict_get String.eqb Ascii.eqb Bool.eqb
                   pres_of_option pbind];
    rewrite H; reflexivity ]].
Qed.

(*@ C01 *)
Lemma gen_cube_StdDevMeasure__shape :
  match src__StdDevMeasure__shape with
  | Some f => forall X m, f X m = POk (pds_shape (bm_all_dimensions m))
  | None => True end.
Proof. unfold src__StdDevMeasure__shape. first [exact I | gen_open; reflexivity]. Qed.

(*@ C01 *)
Lemma gen_cube_StdDevMeasure_raw_cube_array :
  match src__StdDevMeasure_raw_cube_array, src__StdDevMeasure__flat_values, src__StdDevMeasure__shape with
  | Some f, Some g1, Some g2 => forall X m o sh,
      g1 X m = POk (some_arr o) -> g2 X m = POk (map Z.of_nat sh) -> f X m = POk (raw_array sh o)
  | _, _, _ => True end.
Proof. unfold src__StdDevMeasure_raw_cube_array. raw_tac. Qed.

(*@ C01 *)
Lemma gen_cube_StdDevMeasure_raw_cube_array_numeric :
  match src__StdDevMeasure_raw_cube_array with
  | Some f => forall X cls ms more vs idx,
      (forall l, has_numeric ms "stddev" l ->
         f X (mkPyMeasure cls (measures_response ms more) (pydims_of vs) idx)
         = POk (raw_array (raw_shape (dims_of vs)) (Some (num_decode l)))) /\
      (dget ms "stddev" = None ->
         f X (mkPyMeasure cls (measures_response ms more) (pydims_of vs) idx) = POk None)
  | None => True end.
Proof.
  generalize gen_cube_StdDevMeasure_raw_cube_array gen_cube_StdDevMeasure__flat_values gen_cube_StdDevMeasure__shape.
  unfold src__StdDevMeasure_raw_cube_array.
  src_cases; (intros R F S; intros X cls ms more vs idx;
  destruct (F X cls ms more (pydims_of vs) idx) as (Fs & Fn);
  split;
  [ intros l Hl; apply (R X _ (Some (num_decode l))); [apply Fs; exact Hl | apply S]
  | intros Hn; apply (R X _ None (raw_shape (dims_of vs))); [apply Fn; exact Hn | apply S] ]).
Qed.

(*@ C01 *)
Lemma gen_cube_StdDevMeasure___init__ :
  match src__StdDevMeasure___init__ with
  | Some f => forall cd dims idx, f cd dims idx = mkPyMeasure MC_StdDev cd dims idx
  | None => True end.
Proof. unfold src__StdDevMeasure___init__. first [exact I | gen_open; reflexivity]. Qed.

(*@ C01 *)
Lemma gen_cube_Measures_stddev :
  match src__Measures_stddev, src__StdDevMeasure_raw_cube_array with
  | Some f, Some g => forall X cd dims idx r,
      g X (mkPyMeasure MC_StdDev cd dims idx) = POk r ->
      f X (mkPyMeasures cd dims idx) = POk (opt_measure MC_StdDev cd dims idx r)
  | _, _ => True end.
Proof.
  generalize gen_cube_StdDevMeasure___init__. unfold src__Measures_stddev.
  src_cases; (intros I; intros X cd dims idx r H;
  cbn [pm_cube_dict pm_all_dimensions pm_cube_idx_arg]; rewrite I, H; cbn [pbind];
  destruct r; reflexivity).
Qed.

(* Cube.stddev: the valid cells of result.measures.stddev.data, None when the response has no such measure *)
(*@ C01 *)
Lemma gen_cube_Cube_stddev :
  match src_Cube_stddev, src_Cube__cube_response, src_Cube__all_dimensions with
  | Some f, Some g1, Some g2 => forall X c ms more vs,
      g1 X c = POk (measures_response ms more) -> g2 X c = POk (pydims_of vs) ->
      (forall l, has_numeric ms "stddev" l -> List.length l = size_of (raw_shape (dims_of vs)) ->
         reads_opt (f X c) (map nvalid (dims_of vs)) (Some (valid_tensor (dims_of vs) (num_decode l)))) /\
      (dget ms "stddev" = None -> f X c = POk None)
  | _, _, _ => True end.
Proof.
  generalize gen_cube_Cube__measures gen_cube_Measures_stddev gen_cube_StdDevMeasure_raw_cube_array_numeric
    gen_cube_Cube__valid_idxs.
  unfold src_Cube_stddev.
  src_cases; (intros Hm Hv R Hg; intros X c ms more vs H1 H2;
  rewrite !(Hm X c _ _ H1 H2); cbn [pbind];
  destruct (R X MC_StdDev ms more vs (pc_cube_idx_arg c)) as (Rs & Rn);
  split;
  [ intros l Hl Hlen;
    pose proof (Rs l Hl) as Hr;
    assert (Ea : raw_array (raw_shape (dims_of vs)) (Some (num_decode l))
                 = Some (mkArr (raw_shape (dims_of vs)) (num_decode l)))
      by (unfold raw_array, num_decode; rewrite map_length, Hlen, Nat.eqb_refl; reflexivity);
    rewrite Ea in Hr;
    rewrite !(Hv X _ _ _ _ Hr);
    cbn [pbind opt_measure opt_is_none pres_of_option];
    rewrite Hr; cbn [pbind pres_of_option];
    rewrite (Hg X c vs H2);
    apply (reads_opt_some _ np_astype_f64); [reflexivity|]; apply np_take_valid_grid
  | intros Hn;
    rewrite !(Hv X _ _ _ _ (Rn Hn)); reflexivity ]).
Qed.

