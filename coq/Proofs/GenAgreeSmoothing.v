(* Proofs/GenAgreeSmoothing.v -- GenAgree tie of src/cr/cube/smoothing.py and of the smoothed measures
   (matrix/measure.py, stripe/measure.py) to Model/Smoothing.v (property C20).

   Gen/SmoothingSrc.v holds what harness/translate/x_scale.py READ in smoothing.py on this run:
     _SingleSidedMovingAvgSmoother._window / ._can_smooth / .smooth and
     Smoother.factory(dimension).smooth(values) (the factory's `raise` guard, the constructor wiring
     and the smoother's members inlined);
   Gen/ScaleSrc.v / Gen/StripeScaleSrc.v the smoothed measures that call it.  Proved here, for EVERY
   series / matrix, window spelling and dimension type:

     _window                 = [window_of raw]
     _can_smooth(values)     = [can_smooth cd w size periods]   (1-D and 2-D values)
     smooth(values)          = [smooth1 cd raw v] / [smooth2 cd raw m]  up to Qeq, i.e.
        np.concatenate([np.full(.., nan), np.convolve(v, np.ones(w), "valid") / w], axis=ndim-1)
        IS the trailing window mean [smooth_row w v] -- the list-level fact is [smooth_row_conv];
     factory(dimension).smooth(values) = the same with the dimension's smoothing_dict / dimension_type,
        and is an ERROR (raise) for any other non-empty function name;
     _ColumnProportionsSmoothed._base_values / ._subtotal_rows, _ColumnIndexSmoothed.blocks,
     _MeansSmoothed.blocks, _ScaleMeanSmoothed._proportions, stripe _MeansSmoothed.base_values
        = smooth2 / smooth1 of the unsmoothed block of the columns (rows) dimension's smoother. *)
From Coq Require Import QArith ZArith List Bool Lia Arith String ZifyBool Setoid Morphisms.
From CC Require Import Base.XQ Base.ListX Base.VecExp Model.Smoothing Proofs.SmoothingProofs
     Proofs.GenAgreeVecTac Proofs.GenAgreeSmoothTac Gen.SmoothingSrc Gen.ScaleSrc Gen.StripeScaleSrc.
Import ListNotations.
Local Close Scope Q_scope.
Local Open Scope string_scope.
Local Open Scope nat_scope.

(* ------------------------------------------------------------------------------------ *)
(** * smoothing.py *)

Lemma gen_window :
  match vsrc_SingleSidedMovingAvgSmoother__window with
  | Some e => forall dt fn raw attr call var,
      veval (env_smoother "_smoothing_dict" "_dimension_type" dt fn raw attr call var) e
      = VZ (window_of raw)
  | None => True
  end.
Proof.
  unfold_vsrcs; try exact I.
  all: intros.
  all: unfold env_smoother.
  all: vstage1.
  all: apply window_val.
Qed.

Lemma gen_can_smooth_1d :
  match vsrc_SingleSidedMovingAvgSmoother__can_smooth with
  | Some e => forall dt fn raw attr call v,
      veval (env_smoother "_smoothing_dict" "_dimension_type" dt fn raw attr call
                          (var1 "base_values" (VV v))) e
      = VB (can_smooth (is_cat_date dt) (window_of raw) (List.length v) (List.length v))
  | None => True
  end.
Proof.
  unfold_vsrcs; try exact I.
  all: intros.
  all: unfold can_smooth.
  all: smooth_eval; vsplit; f_equal; destruct cd; lia.
Qed.

Lemma gen_can_smooth_2d :
  match vsrc_SingleSidedMovingAvgSmoother__can_smooth with
  | Some e => forall dt fn raw attr call nc m,
      Forall (fun r => List.length r = nc) m ->
      veval (env_smoother "_smoothing_dict" "_dimension_type" dt fn raw attr call
                          (var1 "base_values" (VM nc m))) e
      = VB (can_smooth (is_cat_date dt) (window_of raw) (msize m) (ncols m))
  | None => True
  end.
Proof.
  unfold_vsrcs; try exact I.
  all: intros dt fn raw attr call nc m Hwf.
  all: rewrite (msize_wf nc m Hwf).
  all: pose proof (ncols_wf nc m Hwf) as Hc.
  all: unfold can_smooth.
  all: smooth_eval; vsplit; f_equal; destruct cd;
    (destruct (List.length m =? 0) eqn:E0; [nia|rewrite Hc by lia; nia]).
Qed.

Lemma gen_smooth_1d :
  match vsrc_SingleSidedMovingAvgSmoother_smooth with
  | Some e => forall dt fn raw attr call v,
      vagrees (veval (env_smoother "_smoothing_dict" "_dimension_type" dt fn raw attr call
                                   (var1 "values" (VV v))) e)
              (VV (smooth1 (is_cat_date dt) raw v))
  | None => True
  end.
Proof.
  unfold_vsrcs; try exact I.
  all: smooth_1d.
Qed.

Lemma gen_smooth_2d :
  match vsrc_SingleSidedMovingAvgSmoother_smooth with
  | Some e => forall dt fn raw attr call nc m,
      Forall (fun r => List.length r = nc) m ->
      vagrees (veval (env_smoother "_smoothing_dict" "_dimension_type" dt fn raw attr call
                                   (var1 "values" (VM nc m))) e)
              (VM nc (smooth2 (is_cat_date dt) raw m))
  | None => True
  end.
Proof.
  unfold_vsrcs; try exact I.
  all: intros dt fn raw attr call nc m Hwf.
  all: smooth_2d nc m Hwf.
Qed.

(* ------------------------------------------------------------------------------------ *)
(** * Smoother.factory(dimension).smooth(values) *)

Lemma gen_factory_smooth_1d :
  match vsrc_Smoother_factory_smooth with
  | Some e => forall dt fn raw attr call v, fn_ok fn ->
      vagrees (veval (env_smoother "dimension.smoothing_dict" "dimension.dimension_type" dt fn raw
                                   attr call (var1 "values" (VV v))) e)
              (VV (smooth1 (is_cat_date dt) raw v))
  | None => True
  end.
Proof.
  unfold_vsrcs; try exact I.
  all: intros dt fn raw attr call v Hfn; smooth_1d.
Qed.

Lemma gen_factory_smooth_2d :
  match vsrc_Smoother_factory_smooth with
  | Some e => forall dt fn raw attr call nc m, fn_ok fn ->
      Forall (fun r => List.length r = nc) m ->
      vagrees (veval (env_smoother "dimension.smoothing_dict" "dimension.dimension_type" dt fn raw
                                   attr call (var1 "values" (VM nc m))) e)
              (VM nc (smooth2 (is_cat_date dt) raw m))
  | None => True
  end.
Proof.
  unfold_vsrcs; try exact I.
  all: intros dt fn raw attr call nc m Hfn Hwf; smooth_2d nc m Hwf.
Qed.

(* any other non-empty function name: NotImplementedError *)
Lemma gen_factory_raises :
  match vsrc_Smoother_factory_smooth with
  | Some e => forall dt f raw attr call var,
      f <> "" -> f <> "one_sided_moving_avg" ->
      veval (env_smoother "dimension.smoothing_dict" "dimension.dimension_type" dt (VStr f) raw
                          attr call var) e = VErr
  | None => True
  end.
Proof.
  unfold_vsrcs; try exact I.
  all: intros dt f raw attr call var H1 H2.
  all: unfold env_smoother.
  all: vstage1.
  all: apply String.eqb_neq in H1, H2.
  all: match goal with |- v_if ?c _ _ = _ =>
    assert (E : c = VB true) by (cbn; rewrite H1; cbn; rewrite H2; reflexivity); rewrite E end.
  all: reflexivity.
Qed.

(* ------------------------------------------------------------------------------------ *)
(** * the smoothed measures of matrix/measure.py and stripe/measure.py
      (smoother = Smoother.factory(self._dimensions[-1]) / (self._rows_dimension)) *)

Definition env_matrix_smoothed dt fn raw attr call : venv :=
  env_smoother "_dimensions[-1].smoothing_dict" "_dimensions[-1].dimension_type" dt fn raw attr call no_var.
Definition env_stripe_smoothed dt fn raw attr call : venv :=
  env_smoother "_rows_dimension.smoothing_dict" "_rows_dimension.dimension_type" dt fn raw attr call no_var.

(* smoothed column proportions: the base block and the subtotal ROWS of the unsmoothed measure
   (`super()`), each smoothed along the columns *)
Lemma gen_ColumnProportionsSmoothed__base_values :
  match vsrc_ColumnProportionsSmoothed__base_values with
  | Some e => forall dt fn raw call nc m, fn_ok fn ->
      Forall (fun r => List.length r = nc) m ->
      vagrees (veval (env_matrix_smoothed dt fn raw (var1 "super()._base_values" (VM nc m)) call) e)
              (VM nc (smooth2 (is_cat_date dt) raw m))
  | None => True
  end.
Proof.
  unfold_vsrcs; try exact I.
  all: intros dt fn raw call nc m Hfn Hwf; unfold env_matrix_smoothed; smooth_2d nc m Hwf.
Qed.

Lemma gen_ColumnProportionsSmoothed__subtotal_rows :
  match vsrc_ColumnProportionsSmoothed__subtotal_rows with
  | Some e => forall dt fn raw call nc m, fn_ok fn ->
      Forall (fun r => List.length r = nc) m ->
      vagrees (veval (env_matrix_smoothed dt fn raw (var1 "super()._subtotal_rows" (VM nc m)) call) e)
              (VM nc (smooth2 (is_cat_date dt) raw m))
  | None => True
  end.
Proof.
  unfold_vsrcs; try exact I.
  all: intros dt fn raw call nc m Hfn Hwf; unfold env_matrix_smoothed; smooth_2d nc m Hwf.
Qed.

(* smoothed column index / smoothed means: NanSubtotals.blocks(smooth(<unsmoothed base block>), dimensions) *)
Lemma gen_ColumnIndexSmoothed_blocks :
  match vsrc_ColumnIndexSmoothed_blocks with
  | Some e => forall dt fn raw call nc m, fn_ok fn ->
      Forall (fun r => List.length r = nc) m ->
      exists x,
        veval (env_matrix_smoothed dt fn raw (var1 "_column_index" (VM nc m)) call) e
        = call "NanSubtotals.blocks(_, self._dimensions)" x
        /\ vagrees x (VM nc (smooth2 (is_cat_date dt) raw m))
  | None => True
  end.
Proof.
  unfold_vsrcs; try exact I.
  all: intros dt fn raw call nc m Hfn Hwf.
  all: unfold env_matrix_smoothed, env_smoother.
  all: eexists.
  all: split; [vstage1; reflexivity|].
  all: smooth_2d nc m Hwf.
Qed.

Lemma gen_MeansSmoothed_blocks :
  match vsrc_MeansSmoothed_blocks with
  | Some e => forall dt fn raw call nc m, fn_ok fn ->
      Forall (fun r => List.length r = nc) m ->
      exists x,
        veval (env_matrix_smoothed dt fn raw (var1 "_cube_measures.cube_means.means" (VM nc m)) call) e
        = call "NanSubtotals.blocks(_, self._dimensions)" x
        /\ vagrees x (VM nc (smooth2 (is_cat_date dt) raw m))
  | None => True
  end.
Proof.
  unfold_vsrcs; try exact I.
  all: intros dt fn raw call nc m Hfn Hwf.
  all: unfold env_matrix_smoothed, env_smoother.
  all: eexists.
  all: split; [vstage1; reflexivity|].
  all: smooth_2d nc m Hwf.
Qed.

(* the proportions the smoothed scale mean is taken over: [smoothed base block, unsmoothed column
   subtotals] of column_proportions *)
Lemma gen_ScaleMeanSmoothed__proportions :
  match vsrc_ScaleMeanSmoothed__proportions with
  | Some e => forall dt fn raw call nc m ncs ms, fn_ok fn ->
      Forall (fun r => List.length r = nc) m ->
      vagrees (veval (env_matrix_smoothed dt fn raw
                        (var2 "_second_order_measures.column_proportions.blocks[0][0]" (VM nc m)
                              "_second_order_measures.column_proportions.blocks[0][1]" (VM ncs ms)) call) e)
              (VL [VM nc (smooth2 (is_cat_date dt) raw m); VM ncs ms])
  | None => True
  end.
Proof.
  unfold_vsrcs; try exact I.
  all: intros dt fn raw call nc m ncs ms Hfn Hwf; unfold env_matrix_smoothed.
  all: smooth_eval; vsplit; smooth_rows nc m Hwf;
    (apply vagrees_pair; [smooth_close_2d nc m Hwf|apply vagrees_VM_refl]).
Qed.

(* strand: smoothed means along the rows dimension *)
Lemma gen_stripe_MeansSmoothed_base_values :
  match vssrc_MeansSmoothed_base_values with
  | Some e => forall dt fn raw call v, fn_ok fn ->
      vagrees (veval (env_stripe_smoothed dt fn raw (var1 "_cube_measures.cube_means.means" (VV v)) call) e)
              (VV (smooth1 (is_cat_date dt) raw v))
  | None => True
  end.
Proof.
  unfold_vsrcs; try exact I.
  all: intros dt fn raw call v Hfn; unfold env_stripe_smoothed; smooth_1d.
Qed.

(* ------------------------------------------------------------------------------------ *)
(** * the wiring in SecondOrderMeasures of the smoothed measures (the smoothed scale mean is the COLUMNS one) *)

Definition wired_s (w : option (string * string)) (cls orient : string) : Prop :=
  match w with Some p => p = (cls, orient) | None => True end.

Lemma gen_wiring_smoothed :
  wired_s vsrc_wiring_smoothed_columns_scale_mean "_ScaleMeanSmoothed" "MO.COLUMNS" /\
  wired_s vsrc_wiring_smoothed_column_proportions "_ColumnProportionsSmoothed" "" /\
  wired_s vsrc_wiring_smoothed_column_index "_ColumnIndexSmoothed" "" /\
  wired_s vsrc_wiring_smoothed_means "_MeansSmoothed" "".
Proof. repeat split; (exact I || reflexivity). Qed.
