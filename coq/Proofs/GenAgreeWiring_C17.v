(* GOLDEN obligations of the wiring translator for C17 (generated ONCE by tools/gen_wiring_props.py,
   then committed): what each public member of cubepart.py that C17 relies on IS, as a term of
   Base/WiringExp.v.  Gen/WiringSrc.v is regenerated from /repo on every check; an edit of the
   public layer that changes one of these members breaks the lemma below (reflexivity). *)
From Coq Require Import List ZArith String.
From CC Require Import Base.WiringExp Gen.WiringSrc.
Import ListNotations.
Local Open Scope string_scope.

(* CubePartition.population_fraction *)
Lemma gen_wiring_CubePartition_population_fraction :
  wsrc_CubePartition_population_fraction = Some (WAttr (WSelf "_cube") "population_fraction").
Proof. reflexivity. Qed.

(* _Slice.population_proportions *)
Lemma gen_wiring_Slice_population_proportions :
  wsrc_Slice_population_proportions = Some (WSetNan (WSetNan (w_matrix_of "population_proportions")
      [WSelf "diff_row_idxs"; WSlice (WNone) (WNone)] (WSelf "diff_row_idxs")) [WSlice (WNone)
      (WNone); WSelf "diff_column_idxs"] (WSelf "diff_column_idxs")).
Proof. reflexivity. Qed.

(* _Slice.population_counts *)
Lemma gen_wiring_Slice_population_counts :
  wsrc_Slice_population_counts = Some (WBin "*" (WBin "*" (WSelf "population_proportions") (WSelf
      "_population")) (WAttr (WSelf "_cube") "population_fraction")).
Proof. reflexivity. Qed.

(* _Slice.population_std_err *)
Lemma gen_wiring_Slice_population_std_err :
  wsrc_Slice_population_std_err = Some (w_matrix_of "population_std_err").
Proof. reflexivity. Qed.

(* _Slice.population_counts_moe *)
Lemma gen_wiring_Slice_population_counts_moe :
  wsrc_Slice_population_counts_moe = Some (WBin "*" (WBin "*" (WGlobal "Z_975") (WBin "*" (WSelf
      "_population") (WAttr (WSelf "_cube") "population_fraction"))) (WSelf "population_std_err")).
Proof. reflexivity. Qed.

(* _Strand.population_counts *)
Lemma gen_wiring_Strand_population_counts :
  wsrc_Strand_population_counts = Some (WBin "*" (WBin "*" (WSelf "population_proportions") (WSelf
      "_population")) (WAttr (WSelf "_cube") "population_fraction")).
Proof. reflexivity. Qed.

(* _Strand.population_counts_moe *)
Lemma gen_wiring_Strand_population_counts_moe :
  wsrc_Strand_population_counts_moe = Some (WBin "*" (WBin "*" (WGlobal "Z_975") (WBin "*" (WSelf
      "_population") (WAttr (WSelf "_cube") "population_fraction"))) (WSelf
      "population_proportion_stderrs")).
Proof. reflexivity. Qed.

(* _Strand.population_proportions *)
Lemma gen_wiring_Strand_population_proportions :
  wsrc_Strand_population_proportions = Some (WSetNan (w_vector_of "population_proportions") [WCall
      (WGlobal "list") [WSelf "diff_row_idxs"] []] (WSelf "diff_row_idxs")).
Proof. reflexivity. Qed.

(* _Strand.population_proportion_stderrs *)
Lemma gen_wiring_Strand_population_proportion_stderrs :
  wsrc_Strand_population_proportion_stderrs = Some (w_vector_of "population_proportion_stderrs").
Proof. reflexivity. Qed.

(* SecondOrderMeasures.population_proportions *)
Lemma gen_wiring_SecondOrderMeasures_population_proportions :
  wsrc_SecondOrderMeasures_population_proportions = Some (WCall (WGlobal "_PopulationProportions")
      [WSelf "_dimensions"; WVar "self"; WSelf "_cube_measures"] []).
Proof. reflexivity. Qed.

(* SecondOrderMeasures.population_std_err *)
Lemma gen_wiring_SecondOrderMeasures_population_std_err :
  wsrc_SecondOrderMeasures_population_std_err = Some (WCall (WGlobal "_PopulationStandardError")
      [WSelf "_dimensions"; WVar "self"; WSelf "_cube_measures"] []).
Proof. reflexivity. Qed.

(* StripeMeasures.population_proportions *)
Lemma gen_wiring_StripeMeasures_population_proportions :
  wsrc_StripeMeasures_population_proportions = Some (WCall (WGlobal "_PopulationProportions") [WSelf
      "_rows_dimension"; WVar "self"; WSelf "_cube_measures"] []).
Proof. reflexivity. Qed.

(* StripeMeasures.population_proportion_stderrs *)
Lemma gen_wiring_StripeMeasures_population_proportion_stderrs :
  wsrc_StripeMeasures_population_proportion_stderrs = Some (WCall (WGlobal
      "_PopulationProportionStderrs") [WSelf "_rows_dimension"; WVar "self"; WSelf "_cube_measures"]
      []).
Proof. reflexivity. Qed.
