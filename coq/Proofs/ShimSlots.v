(* Proofs about the rewriting of transforms dicts (Model/Shim.v): slot theorems,
   idempotence of the shim, invariance of the consumers.  Properties C19 and C18. *)
From Coq Require Import ZArith List Bool Lia Arith String.
From CC Require Import Base.Ident Model.Shim Proofs.ShimSpec Proofs.ShimTranslate.
Import ListNotations.
Local Open Scope nat_scope.

(* ---- mapM ---------------------------------------------------------------------------- *)
Lemma mapM_ok {A B} (f : A -> res B) l r :
  Forall2 (fun x a => f x = Ok a) l r -> mapM f l = Ok r.
Proof.
  induction 1 as [|x a l r Hx _ IH]; simpl; [reflexivity|]. rewrite Hx, IH. reflexivity.
Qed.

Lemma mapM_inv {A B} (f : A -> res B) l r :
  mapM f l = Ok r -> Forall2 (fun x a => f x = Ok a) l r.
Proof.
  revert r. induction l as [|x l IH]; simpl; intros r H.
  - inversion H. constructor.
  - destruct (f x) as [b|e] eqn:Ex; [|discriminate].
    destruct (mapM f l) as [bs|e]; [|discriminate]. inversion H; subst.
    constructor; [exact Ex | apply IH; reflexivity].
Qed.

Lemma mapM_fix {A} (f : A -> res A) l : Forall (fun x => f x = Ok x) l -> mapM f l = Ok l.
Proof.
  induction 1 as [|x l Hx _ IH]; simpl; [reflexivity|]. rewrite Hx, IH. reflexivity.
Qed.

Lemma mapM_raise {A B} (f : A -> res B) l1 x l2 e :
  Forall (fun y => exists b, f y = Ok b) l1 -> f x = Raise e -> mapM f (l1 ++ x :: l2) = Raise e.
Proof.
  induction 1 as [|y l1 [b Hy] _ IH]; simpl; intros Hx.
  - rewrite Hx. reflexivity.
  - rewrite Hy, (IH Hx). reflexivity.
Qed.

(* ---- explicit ids / fixed lists -------------------------------------------------------- *)
Lemma replaced_ids_refs d oks l :
  wf d -> Forall2 (ref d) oks l -> replaced_ids d l = Ok (map (oalias d) oks).
Proof.
  intros W H. unfold replaced_ids. apply mapM_ok.
  induction H as [|ok x oks l Hr _ IH]; simpl; constructor; [|exact IH].
  apply wf_translate_ref; assumption.
Qed.

Lemma replaced_ids_fix d l :
  Forall (fun a => In a (aliases d)) l -> replaced_ids d l = Ok l.
Proof.
  intros H. unfold replaced_ids. apply mapM_fix.
  eapply Forall_impl; [|exact H]. intros a Ha. apply translate_alias. exact Ha.
Qed.

Lemma replaced_ids_out d l r :
  replaced_ids d l = Ok r -> Forall (fun a => a = INone \/ In a (aliases d)) r.
Proof.
  intros H. apply mapM_inv in H.
  induction H as [|x a l r Hx _ IH]; constructor; [|exact IH].
  exact (translate_range d x a Hx).
Qed.

(* ---- dictionaries ---------------------------------------------------------------------- *)
Fixpoint last_assoc (a : ident) (l : list (ident * eval)) : option eval :=
  match l with
  | [] => None
  | (k, v) :: t => match last_assoc a t with
                   | Some v' => Some v'
                   | None => if ident_eqb a k then Some v else None
                   end
  end.

Lemma dget_dset a k v e :
  dget a (dset k v e) = if ident_eqb a k then Some v else dget a e.
Proof.
  induction e as [|[k' v'] t IH]; simpl.
  - destruct (ident_eqb a k); reflexivity.
  - destruct (ident_eqb_spec k k') as [E|N]; simpl.
    + subst k'. destruct (ident_eqb a k); reflexivity.
    + destruct (ident_eqb_spec a k') as [E'|N'].
      * subst k'. destruct (ident_eqb_spec a k) as [E2|_]; [congruence|reflexivity].
      * exact IH.
Qed.

Lemma dget_fold a l acc :
  dget a (fold_left (fun acc kv => dset (fst kv) (snd kv) acc) l acc) =
  match last_assoc a l with Some v => Some v | None => dget a acc end.
Proof.
  revert acc. induction l as [|[k v] t IH]; simpl; intros acc; [reflexivity|].
  rewrite IH. destruct (last_assoc a t); [reflexivity|].
  rewrite dget_dset. simpl. destruct (ident_eqb a k); reflexivity.
Qed.

Lemma dget_dict_of_pairs a l : dget a (dict_of_pairs l) = last_assoc a l.
Proof.
  unfold dict_of_pairs. rewrite dget_fold. destruct (last_assoc a l); reflexivity.
Qed.

Lemma dget_notin k e : ~ In k (map fst e) -> dget k e = None.
Proof.
  induction e as [|[k' v'] t IH]; simpl; intros H; [reflexivity|].
  destruct (ident_eqb_spec k k') as [E|N]; [exfalso; apply H; left; congruence|].
  apply IH. intros Hin. apply H. right. exact Hin.
Qed.

Lemma dset_fresh k v e : ~ In k (map fst e) -> dset k v e = e ++ [(k, v)].
Proof.
  induction e as [|[k' v'] t IH]; simpl; intros H; [reflexivity|].
  destruct (ident_eqb_spec k k') as [E|N]; [exfalso; apply H; left; congruence|].
  rewrite IH; [reflexivity|]. intros Hin. apply H. right. exact Hin.
Qed.

Lemma fold_dset_nodup l acc :
  NoDup (map fst (acc ++ l)) ->
  fold_left (fun acc kv => dset (fst kv) (snd kv) acc) l acc = acc ++ l.
Proof.
  revert acc. induction l as [|[k v] t IH]; simpl; intros acc H.
  - rewrite app_nil_r. reflexivity.
  - assert (Hk : ~ In k (map fst acc)).
    { rewrite map_app in H. simpl in H. apply NoDup_remove_2 in H.
      intros Hin. apply H. apply in_or_app. left. exact Hin. }
    rewrite (dset_fresh k v acc Hk). rewrite IH.
    + rewrite <- app_assoc. reflexivity.
    + rewrite <- app_assoc. exact H.
Qed.

Lemma dict_of_pairs_id e : NoDup (map fst e) -> dict_of_pairs e = e.
Proof. intros H. unfold dict_of_pairs. rewrite fold_dset_nodup; [reflexivity | exact H]. Qed.

Lemma dset_keys k v e :
  map fst (dset k v e) = if py_in k (map fst e) then map fst e else map fst e ++ [k].
Proof.
  induction e as [|[k' v'] t IH]; simpl; [reflexivity|].
  destruct (ident_eqb_spec k k') as [E|N]; simpl; [reflexivity|].
  rewrite IH. unfold py_in. destruct (existsb (ident_eqb k) (map fst t)); reflexivity.
Qed.

Lemma NoDup_snoc {A} (l : list A) a : NoDup l -> ~ In a l -> NoDup (l ++ [a]).
Proof.
  induction l as [|b t IH]; simpl; intros Hn Hi.
  - constructor; [intros []|constructor].
  - inversion Hn as [|? ? Hb Ht]; subst. constructor.
    + intros Hin. apply in_app_or in Hin. destruct Hin as [Hin|[Hin|[]]]; [exact (Hb Hin)|].
      apply Hi. left. symmetry. exact Hin.
    + apply IH; [exact Ht|]. intros Hin. apply Hi. right. exact Hin.
Qed.

Lemma dset_nodup k v e : NoDup (map fst e) -> NoDup (map fst (dset k v e)).
Proof.
  intros H. rewrite dset_keys. destruct (py_in k (map fst e)) eqn:E; [exact H|].
  apply py_in_false in E. apply NoDup_snoc; assumption.
Qed.

Lemma dset_keys_in k v e x : In x (map fst (dset k v e)) -> x = k \/ In x (map fst e).
Proof.
  rewrite dset_keys. destruct (py_in k (map fst e)); intros H; [right; exact H|].
  apply in_app_or in H. destruct H as [H|[H|[]]]; [right; exact H | left; congruence].
Qed.

Lemma fold_dset_inv (P : ident -> Prop) l acc :
  NoDup (map fst acc) -> (forall x, In x (map fst acc) -> P x) ->
  (forall x, In x (map fst l) -> P x) ->
  let r := fold_left (fun acc kv => dset (fst kv) (snd kv) acc) l acc in
  NoDup (map fst r) /\ forall x, In x (map fst r) -> P x.
Proof.
  revert acc. induction l as [|[k v] t IH]; simpl; intros acc Hn Ha Hl; [split; assumption|].
  apply IH.
  - apply dset_nodup. exact Hn.
  - intros x Hx. apply dset_keys_in in Hx. destruct Hx as [->|Hx]; [apply Hl; left; reflexivity|].
    apply Ha. exact Hx.
  - intros x Hx. apply Hl. right. exact Hx.
Qed.

Lemma dict_of_pairs_keys (P : ident -> Prop) l :
  (forall x, In x (map fst l) -> P x) ->
  NoDup (map fst (dict_of_pairs l)) /\ forall x, In x (map fst (dict_of_pairs l)) -> P x.
Proof.
  intros H. unfold dict_of_pairs. apply (fold_dset_inv P l []); simpl.
  - constructor.
  - intros x [].
  - exact H.
Qed.

Lemma combine_fst_snd {A B} (l : list (A * B)) : combine (map fst l) (map snd l) = l.
Proof. induction l as [|[a b] t IH]; simpl; [reflexivity|]. rewrite IH. reflexivity. Qed.

Lemma not_none_pairs_keys l x :
  In x (map fst (not_none_pairs l)) -> x <> INone /\ In x (map fst l).
Proof.
  unfold not_none_pairs. intros H. apply in_map_iff in H. destruct H as [[k v] [E Hin]].
  simpl in E. subst k. apply filter_In in Hin. destruct Hin as [Hin Hb]. simpl in Hb.
  split; [intros ->; discriminate|]. apply in_map_iff. exists (x, v). split; [reflexivity|exact Hin].
Qed.

Lemma not_none_pairs_id l : ~ In INone (map fst l) -> not_none_pairs l = l.
Proof.
  induction l as [|[k v] t IH]; simpl; intros H; [reflexivity|].
  destruct k; simpl; try (rewrite IH; [reflexivity|intros Hin; apply H; right; exact Hin]).
  exfalso. apply H. left. reflexivity.
Qed.

(* ---- element-transform keys -------------------------------------------------------------- *)
Definition usual_mode (e : edict) : Prop :=
  dget key_str e <> Some KeyAlias /\ dget key_str e <> Some KeySubvar.

Lemma replaced_elements_usual d e ks :
  usual_mode e -> mapM (translate d) (map fst e) = Ok ks ->
  replaced_elements d e = Ok (dict_of_pairs (not_none_pairs (combine ks (map snd e)))).
Proof.
  intros [U1 U2] H. unfold replaced_elements. rewrite H.
  destruct (dget key_str e) as [[| |p]|]; try reflexivity; congruence.
Qed.

Lemma replaced_elements_refs d e oks :
  wf d -> usual_mode e -> Forall2 (ref d) oks (map fst e) ->
  replaced_elements d e =
  Ok (dict_of_pairs (not_none_pairs (combine (map (oalias d) oks) (map snd e)))).
Proof.
  intros W U H. apply replaced_elements_usual; [exact U|].
  exact (replaced_ids_refs d oks (map fst e) W H).
Qed.

(* "key": "subvar_id" : the keys are sub-variable ids, nothing else is tried *)
Definition svref (d : adim) (ok : option nat) (x : ident) : Prop :=
  match ok with
  | Some k => k < List.length (d_items d) /\ x = nth k (subvar_ids d) INone
  | None => ~ In x (subvar_ids d)
  end.

Lemma subvar_keys_map d oks (t : edict) :
  wf d -> Forall2 (svref d) oks (map fst t) ->
  map (fun kv => (match py_index (fst kv) (subvar_ids d) with
                  | Some i => nth_alias d i | None => INone end, snd kv)) t =
  combine (map (oalias d) oks) (map snd t).
Proof.
  intros W. revert oks. induction t as [|[k v] t IHt]; intros oks H.
  - inversion H. reflexivity.
  - inversion H as [|ok x oks' ks Hr Ht]; subst. simpl. f_equal; [|apply IHt; exact Ht].
    f_equal. destruct ok as [j|]; simpl in Hr.
    + destruct Hr as [Hj ->]. rewrite (py_index_first _ _ j); [reflexivity|].
      apply first_at_nodup; [exact (wf_sv_nodup d W)|]. rewrite (wf_sv_all d W). exact Hj.
    + apply py_index_none in Hr. rewrite Hr. reflexivity.
Qed.

Lemma replaced_elements_subvar d e oks :
  wf d -> dget key_str e = Some KeySubvar -> Forall2 (svref d) oks (map fst e) ->
  replaced_elements d e =
  Ok (dict_of_pairs (not_none_pairs (combine (map (oalias d) oks) (map snd e)))).
Proof.
  intros W K H. unfold replaced_elements. rewrite K.
  rewrite (subvar_keys_map d oks e W H). reflexivity.
Qed.

Lemma replaced_elements_alias d e :
  dget key_str e = Some KeyAlias -> replaced_elements d e = Ok e.
Proof. intros K. unfold replaced_elements. rewrite K. reflexivity. Qed.

(* what a consumer finds for item k in a dict built from (reference, payload) pairs *)
Definition bounded (d : adim) (ok : option nat) : Prop :=
  match ok with Some j => j < List.length (d_items d) | None => True end.

Lemma nth_alias_inj d j k :
  wf d -> j < List.length (d_items d) -> k < List.length (d_items d) ->
  nth_alias d j = nth_alias d k -> j = k.
Proof.
  intros W Hj Hk E. unfold nth_alias in E.
  apply (proj1 (NoDup_nth (aliases d) INone) (wf_al_nodup d W)); try (rewrite aliases_length; assumption).
  exact E.
Qed.

Lemma nth_alias_str d k : wf d -> k < List.length (d_items d) -> exists s, nth_alias d k = IStr s.
Proof.
  intros W Hk. pose proof (wf_al_str d W) as F. rewrite Forall_forall in F.
  apply F. apply nth_alias_In. exact Hk.
Qed.

Lemma last_assoc_last_for d oks vals k :
  wf d -> k < List.length (d_items d) -> Forall (bounded d) oks ->
  last_assoc (nth_alias d k) (not_none_pairs (combine (map (oalias d) oks) vals)) =
  last_for k (combine oks vals).
Proof.
  intros W Hk. revert vals. induction oks as [|ok oks IH]; intros vals HB; [reflexivity|].
  destruct vals as [|v vals]; [reflexivity|]. inversion HB as [|? ? Hb HB']; subst.
  simpl. destruct ok as [j|]; simpl.
  - simpl in Hb. destruct (nth_alias_str d j W Hb) as [s Es]. rewrite Es. simpl.
    rewrite (IH vals HB'). destruct (last_for k (combine oks vals)); [reflexivity|].
    rewrite <- Es. destruct (Nat.eqb_spec j k) as [E|N].
    + subst j. rewrite ident_eqb_refl. reflexivity.
    + destruct (ident_eqb_spec (nth_alias d k) (nth_alias d j)) as [E'|_]; [|reflexivity].
      exfalso. apply N. symmetry. apply (nth_alias_inj d k j W Hk Hb E').
  - rewrite (IH vals HB'). destruct (last_for k (combine oks vals)); reflexivity.
Qed.

Lemma elem_xform_pairs d oks vals k :
  wf d -> k < List.length (d_items d) -> Forall (bounded d) oks ->
  elem_xform d (Some (dict_of_pairs (not_none_pairs (combine (map (oalias d) oks) vals)))) k =
  last_for k (combine oks vals).
Proof.
  intros W Hk HB. unfold elem_xform. rewrite dget_dict_of_pairs.
  rewrite (last_assoc_last_for d oks vals k W Hk HB).
  destruct (last_for k (combine oks vals)) eqn:E; [reflexivity|].
  destruct (nth_alias_str d k W Hk) as [s Es]. rewrite Es. simpl. rewrite <- Es.
  rewrite dget_dict_of_pairs. rewrite (last_assoc_last_for d oks vals k W Hk HB). exact E.
Qed.

Lemma ref_bounded d oks l : Forall2 (ref d) oks l -> Forall (bounded d) oks.
Proof.
  induction 1 as [|ok x oks l Hr _ IH]; constructor; [|exact IH].
  destruct ok; simpl in *; tauto.
Qed.
Lemma svref_bounded d oks l : Forall2 (svref d) oks l -> Forall (bounded d) oks.
Proof.
  induction 1 as [|ok x oks l Hr _ IH]; constructor; [|exact IH].
  destruct ok; simpl in *; tauto.
Qed.

(* hide / rename slot: the transform that reaches item k is the payload of the LAST entry
   whose key refers to item k - whatever the spelling of the keys *)
Lemma elements_slot d e oks k :
  wf d -> usual_mode e -> Forall2 (ref d) oks (map fst e) -> k < List.length (d_items d) ->
  exists e', replaced_elements d e = Ok e' /\
             elem_xform d (Some e') k = last_for k (combine oks (map snd e)).
Proof.
  intros W U H Hk. eexists. split; [apply replaced_elements_refs; eassumption|].
  apply elem_xform_pairs; try assumption. exact (ref_bounded d oks _ H).
Qed.

Lemma elements_slot_subvar d e oks k :
  wf d -> dget key_str e = Some KeySubvar -> Forall2 (svref d) oks (map fst e) ->
  k < List.length (d_items d) ->
  exists e', replaced_elements d e = Ok e' /\
             elem_xform d (Some e') k = last_for k (combine oks (map snd e)).
Proof.
  intros W K H Hk. eexists. split; [apply replaced_elements_subvar; eassumption|].
  apply elem_xform_pairs; try assumption. exact (svref_bounded d oks _ H).
Qed.

(* ---- late translation (sort by opposing element) ----------------------------------------- *)
Lemma valid_aliases_incl d x : In x (valid_aliases d) -> In x (aliases d).
Proof.
  unfold valid_aliases, aliases. intros H. apply in_map_iff in H. destruct H as [it [E Hin]].
  apply filter_In in Hin. destruct Hin as [Hin _]. apply in_map_iff. exists it. split; assumption.
Qed.

Lemma opp_index_ref d ok x :
  wf d -> ref d ok x -> opp_index d x = Ok (py_index (oalias d ok) (valid_aliases d)).
Proof.
  intros W H. unfold opp_index. rewrite (wf_translate_ref d W ok x H). reflexivity.
Qed.

Lemma opp_index_stale d x :
  wf d -> stale d x -> opp_index d x = Ok None.
Proof.
  intros W S. rewrite (opp_index_ref d None x W S). simpl. f_equal.
  apply py_index_none. intros H. apply valid_aliases_incl in H.
  pose proof (wf_al_str d W) as F. rewrite Forall_forall in F. destruct (F _ H) as [s E]. discriminate.
Qed.

(* ---- idempotence -------------------------------------------------------------------------- *)
Lemma dict_fix d l :
  ~ In key_str (aliases d) ->
  (forall k, In k (map fst l) -> In k (aliases d) /\ k <> INone) ->
  replaced_elements d (dict_of_pairs l) = Ok (dict_of_pairs l).
Proof.
  intros HK H. set (e' := dict_of_pairs l).
  destruct (dict_of_pairs_keys (fun k => In k (aliases d) /\ k <> INone) l H) as [Hnd Hk].
  fold e' in Hnd, Hk.
  assert (K : dget key_str e' = None).
  { apply dget_notin. intros Hin. apply HK. apply (Hk _ Hin). }
  assert (M : mapM (translate d) (map fst e') = Ok (map fst e')).
  { apply mapM_fix. apply Forall_forall. intros x Hx. apply translate_alias. apply (Hk _ Hx). }
  rewrite (replaced_elements_usual d e' (map fst e')); [|split; rewrite K; discriminate|exact M].
  rewrite combine_fst_snd. rewrite not_none_pairs_id.
  - rewrite dict_of_pairs_id by exact Hnd. reflexivity.
  - intros Hin. destruct (Hk _ Hin) as [_ N]. congruence.
Qed.

Lemma replaced_elements_idem d e e' :
  ~ In key_str (aliases d) -> replaced_elements d e = Ok e' -> replaced_elements d e' = Ok e'.
Proof.
  intros HK H. unfold replaced_elements in H.
  destruct (dget key_str e) as [[| |p]|] eqn:K.
  - inversion H; subst. apply replaced_elements_alias. exact K.
  - inversion H; subst. apply dict_fix; [exact HK|].
    intros k Hin. apply not_none_pairs_keys in Hin. destruct Hin as [N Hin]. split; [|exact N].
    rewrite map_map in Hin. simpl in Hin. apply in_map_iff in Hin. destruct Hin as [[k0 v0] [E _]].
    simpl in E. destruct (py_index k0 (subvar_ids d)) as [i|] eqn:Ei; [|congruence].
    subst k. apply nth_alias_In. pose proof (py_index_lt _ _ _ Ei) as Hlt.
    destruct (subvar_ids_length d) as [L|L]; [lia|]. rewrite L in Hlt. simpl in Hlt. lia.
  - destruct (mapM (translate d) (map fst e)) as [ks|ex] eqn:M; [|discriminate].
    inversion H; subst. apply dict_fix; [exact HK|].
    intros k Hin. apply not_none_pairs_keys in Hin. destruct Hin as [N Hin]. split; [|exact N].
    assert (Hks : In k ks).
    { clear - Hin. revert Hin. generalize (map snd e). induction ks as [|a ks IH]; intros vs Hin.
      - destruct vs; contradiction.
      - destruct vs as [|v vs]; [contradiction|]. simpl in Hin. destruct Hin as [->|Hin]; [left; reflexivity|].
        right. apply (IH vs). exact Hin. }
    pose proof (replaced_ids_out d (map fst e) ks M) as F. rewrite Forall_forall in F.
    destruct (F _ Hks) as [->|Ha]; [congruence|exact Ha].
  - destruct (mapM (translate d) (map fst e)) as [ks|ex] eqn:M; [|discriminate].
    inversion H; subst. apply dict_fix; [exact HK|].
    intros k Hin. apply not_none_pairs_keys in Hin. destruct Hin as [N Hin]. split; [|exact N].
    assert (Hks : In k ks).
    { clear - Hin. revert Hin. generalize (map snd e). induction ks as [|a ks IH]; intros vs Hin.
      - destruct vs; contradiction.
      - destruct vs as [|v vs]; [contradiction|]. simpl in Hin. destruct Hin as [->|Hin]; [left; reflexivity|].
        right. apply (IH vs). exact Hin. }
    pose proof (replaced_ids_out d (map fst e) ks M) as F. rewrite Forall_forall in F.
    destruct (F _ Hks) as [->|Ha]; [congruence|exact Ha].
Qed.

(* H1 of the history theorem: no list slot of the rewritten dict contains None *)
Definition no_none (o : option (list ident)) : Prop :=
  match o with None => True | Some l => ~ In INone l end.
Definition no_none_lists (t : xf) : Prop :=
  no_none (x_ids t) /\ no_none (x_top t) /\ no_none (x_bottom t).

Lemma opt_ids_idem d o o' :
  opt_res (replaced_ids d) o = Ok o' -> no_none o' -> opt_res (replaced_ids d) o' = Ok o'.
Proof.
  destruct o as [l|]; simpl.
  - destruct (replaced_ids d l) as [r|ex] eqn:E; [|discriminate]. intros H; inversion H; subst.
    simpl. intros N. rewrite replaced_ids_fix; [reflexivity|].
    pose proof (replaced_ids_out d l r E) as F. rewrite Forall_forall in *.
    intros a Ha. destruct (F a Ha) as [->|Hin]; [contradiction|exact Hin].
  - intros H; inversion H; subst. reflexivity.
Qed.

Lemma opt_elements_idem d o o' :
  ~ In key_str (aliases d) ->
  opt_res (replaced_elements d) o = Ok o' -> opt_res (replaced_elements d) o' = Ok o'.
Proof.
  intros HK. destruct o as [e|]; simpl.
  - destruct (replaced_elements d e) as [e'|ex] eqn:E; [|discriminate]. intros H; inversion H; subst.
    simpl. rewrite (replaced_elements_idem d e e' HK E). reflexivity.
  - intros H; inversion H; subst. reflexivity.
Qed.

Lemma shim_xf_ok_inv d t t' :
  shim_xf d t = (t', None) ->
  opt_res (replaced_elements d) (x_elements t) = Ok (x_elements t') /\
  opt_res (replaced_ids d) (x_ids t) = Ok (x_ids t') /\
  opt_res (replaced_ids d) (x_top t) = Ok (x_top t') /\
  opt_res (replaced_ids d) (x_bottom t) = Ok (x_bottom t').
Proof.
  unfold shim_xf.
  destruct (opt_res (replaced_elements d) (x_elements t)) as [e'|ex]; [|discriminate].
  destruct (opt_res (replaced_ids d) (x_ids t)) as [i'|ex]; [|discriminate].
  destruct (opt_res (replaced_ids d) (x_top t)) as [t1|ex]; [|discriminate].
  destruct (opt_res (replaced_ids d) (x_bottom t)) as [b'|ex]; [|discriminate].
  intros H; inversion H; subst. simpl. auto.
Qed.

(* shim (shim t) = shim t *)
Lemma shim_xf_idem d t t' :
  ~ In key_str (aliases d) -> shim_xf d t = (t', None) -> no_none_lists t' ->
  shim_xf d t' = (t', None).
Proof.
  intros HK H [N1 [N2 N3]]. destruct (shim_xf_ok_inv d t t' H) as [E1 [E2 [E3 E4]]].
  unfold shim_xf.
  rewrite (opt_elements_idem d _ _ HK E1), (opt_ids_idem d _ _ E2 N1),
          (opt_ids_idem d _ _ E3 N2), (opt_ids_idem d _ _ E4 N3).
  destruct t'; reflexivity.
Qed.

(* every consumer sees the same thing on t' and on its re-shimmed version *)
Lemma consume_shim_invariant d t t' :
  ~ In key_str (aliases d) -> shim_xf d t = (t', None) -> no_none_lists t' ->
  consume d (fst (shim_xf d t')) = consume d t'.
Proof. intros HK H N. rewrite (shim_xf_idem d t t' HK H N). reflexivity. Qed.

(* ---- the whole dict: result of the shim as a function of WHAT is referenced, not HOW ------- *)
Definition opt_refs (d : adim) (ooks : option (list (option nat))) (o : option (list ident)) : Prop :=
  match ooks, o with
  | None, None => True
  | Some oks, Some l => Forall2 (ref d) oks l
  | _, _ => False
  end.
Definition elem_refs (d : adim) (ooks : option (list (option nat))) (o : option edict) : Prop :=
  match ooks, o with
  | None, None => True
  | Some oks, Some e => usual_mode e /\ Forall2 (ref d) oks (map fst e)
  | _, _ => False
  end.
Definition built (d : adim) (ooks : option (list (option nat))) (pay : option (list eval))
  : option edict :=
  match ooks, pay with
  | Some oks, Some vs => Some (dict_of_pairs (not_none_pairs (combine (map (oalias d) oks) vs)))
  | _, _ => None
  end.
Definition payloads (t : xf) : option (list eval) := option_map (map snd) (x_elements t).
Definition oaliases (d : adim) (ooks : option (list (option nat))) : option (list ident) :=
  option_map (map (oalias d)) ooks.

Lemma opt_ids_refs d ooks o :
  wf d -> opt_refs d ooks o -> opt_res (replaced_ids d) o = Ok (oaliases d ooks).
Proof.
  intros W. destruct ooks as [oks|], o as [l|]; simpl; try contradiction.
  - intros H. rewrite (replaced_ids_refs d oks l W H). reflexivity.
  - reflexivity.
Qed.

Lemma shim_xf_refs d t re ri rt rb :
  wf d -> elem_refs d re (x_elements t) -> opt_refs d ri (x_ids t) ->
  opt_refs d rt (x_top t) -> opt_refs d rb (x_bottom t) ->
  shim_xf d t = (mk_xf (built d re (payloads t)) (oaliases d ri) (oaliases d rt) (oaliases d rb), None).
Proof.
  intros W He Hi Ht Hb. unfold shim_xf.
  assert (E : opt_res (replaced_elements d) (x_elements t) = Ok (built d re (payloads t))).
  { unfold payloads. destruct re as [oks|], (x_elements t) as [e|]; simpl in *; try contradiction.
    - destruct He as [U H]. rewrite (replaced_elements_refs d e oks W U H). reflexivity.
    - reflexivity. }
  rewrite E, (opt_ids_refs d ri _ W Hi), (opt_ids_refs d rt _ W Ht), (opt_ids_refs d rb _ W Hb).
  reflexivity.
Qed.

(* two transforms dicts that reference the same items (whatever the spellings) and carry the
   same payloads are rewritten to the SAME dict *)
Lemma shim_xf_spelling_equiv d t1 t2 re ri rt rb :
  wf d ->
  elem_refs d re (x_elements t1) -> opt_refs d ri (x_ids t1) ->
  opt_refs d rt (x_top t1) -> opt_refs d rb (x_bottom t1) ->
  elem_refs d re (x_elements t2) -> opt_refs d ri (x_ids t2) ->
  opt_refs d rt (x_top t2) -> opt_refs d rb (x_bottom t2) ->
  payloads t1 = payloads t2 ->
  shim_xf d t1 = shim_xf d t2.
Proof.
  intros W A1 A2 A3 A4 B1 B2 B3 B4 P.
  rewrite (shim_xf_refs d t1 re ri rt rb W A1 A2 A3 A4).
  rewrite (shim_xf_refs d t2 re ri rt rb W B1 B2 B3 B4). rewrite P. reflexivity.
Qed.

(* ---- after the repair of translate_element_id(None): totality and UNCONDITIONAL idempotence ---- *)
(* (condition on the dimension only: no element id / sub-variable id is null) *)
Lemma mapM_total {A B} (f : A -> res B) l :
  (forall x, exists b, f x = Ok b) -> exists r, mapM f l = Ok r.
Proof.
  intros Hf. induction l as [|x l [r IH]]; simpl; [eexists; reflexivity|].
  destruct (Hf x) as [b Hb]. rewrite Hb, IH. eexists; reflexivity.
Qed.

Lemma replaced_ids_total d l : ~ In INone (raw_ids d) -> exists r, replaced_ids d l = Ok r.
Proof. intros HN. apply mapM_total. intros x. apply translate_total. exact HN. Qed.

Lemma replaced_elements_total d e : ~ In INone (raw_ids d) -> exists e', replaced_elements d e = Ok e'.
Proof.
  intros HN. unfold replaced_elements.
  destruct (replaced_ids_total d (map fst e) HN) as [ks Hk]. unfold replaced_ids in Hk. rewrite Hk.
  destruct (dget key_str e) as [[| |p]|]; eexists; reflexivity.
Qed.

Lemma opt_res_total {A B} (f : A -> res B) o :
  (forall a, exists b, f a = Ok b) -> exists o', opt_res f o = Ok o'.
Proof.
  intros Hf. destruct o as [a|]; simpl; [|eexists; reflexivity].
  destruct (Hf a) as [b Hb]. rewrite Hb. eexists; reflexivity.
Qed.

(* the shim never raises, whatever the transforms dict contains *)
Lemma shim_xf_total d t : ~ In INone (raw_ids d) -> snd (shim_xf d t) = None.
Proof.
  intros HN. unfold shim_xf.
  destruct (opt_res_total (replaced_elements d) (x_elements t)
              (fun e => replaced_elements_total d e HN)) as [e' ->].
  destruct (opt_res_total (replaced_ids d) (x_ids t) (fun l => replaced_ids_total d l HN)) as [i' ->].
  destruct (opt_res_total (replaced_ids d) (x_top t) (fun l => replaced_ids_total d l HN)) as [t' ->].
  destruct (opt_res_total (replaced_ids d) (x_bottom t) (fun l => replaced_ids_total d l HN)) as [b' ->].
  reflexivity.
Qed.

(* a rewritten id list is a fixed point - INCLUDING the None entries stale ids were rewritten to *)
Lemma replaced_ids_fix_none d l :
  ids_not_none d -> Forall (fun a => a = INone \/ In a (aliases d)) l -> replaced_ids d l = Ok l.
Proof.
  intros [N1 N2] H. unfold replaced_ids. apply mapM_fix.
  eapply Forall_impl; [|exact H]. intros a [->|Ha]; [apply translate_none; assumption|].
  apply translate_alias. exact Ha.
Qed.

Lemma opt_ids_idem_full d o o' :
  ids_not_none d -> opt_res (replaced_ids d) o = Ok o' -> opt_res (replaced_ids d) o' = Ok o'.
Proof.
  intros HN. destruct o as [l|]; simpl.
  - destruct (replaced_ids d l) as [r|ex] eqn:E; [|discriminate]. intros H; inversion H; subst.
    simpl. rewrite (replaced_ids_fix_none d r HN (replaced_ids_out d l r E)). reflexivity.
  - intros H; inversion H; subst. reflexivity.
Qed.

(* shim (shim t) = shim t, without any condition on the transforms *)
Lemma shim_xf_idem_full d t t' :
  ~ In key_str (aliases d) -> ids_not_none d -> shim_xf d t = (t', None) -> shim_xf d t' = (t', None).
Proof.
  intros HK HN H. destruct (shim_xf_ok_inv d t t' H) as [E1 [E2 [E3 E4]]].
  unfold shim_xf.
  rewrite (opt_elements_idem d _ _ HK E1), (opt_ids_idem_full d _ _ HN E2),
          (opt_ids_idem_full d _ _ HN E3), (opt_ids_idem_full d _ _ HN E4).
  destruct t'; reflexivity.
Qed.

Lemma shim_xf_fixed d t :
  ~ In key_str (aliases d) -> ids_not_none d ->
  shim_xf d (fst (shim_xf d t)) = (fst (shim_xf d t), None).
Proof.
  intros HK HN. apply (shim_xf_idem_full d t); try assumption.
  rewrite (surjective_pairing (shim_xf d t)). rewrite (shim_xf_total d t (proj1 HN)). reflexivity.
Qed.

Lemma consume_shim_invariant_full d t :
  ~ In key_str (aliases d) -> ids_not_none d ->
  consume d (fst (shim_xf d (fst (shim_xf d t)))) = consume d (fst (shim_xf d t)).
Proof. intros HK HN. rewrite (shim_xf_fixed d t HK HN). reflexivity. Qed.
