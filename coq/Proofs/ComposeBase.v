(* Proofs/ComposeBase.v -- the common ground of the COMPOSED (end-to-end) theorems.

   The survey-level theorems of C01 / C02 say what the count classes extract from the tensor of
   a survey.  This file names the objects the later stages of the model are fed with when the
   whole pipeline runs on ONE survey:

        [t_counts], [t_rb], [t_cb], [t_tb]   the base blocks (counts, row / column / table bases)
                                             the model computes from  tabulate S  for partition k
                                             of a CAT / MR x CAT / MR cube (2-D: tv = None)
        [w_cell], [w_rowbase], [w_colbase], [w_tabbase]
                                             the respondent-level meaning: weighted numbers of
                                             respondents (Spec/Survey.v)

   and proves, for every survey and all sizes,
        * each base block cell IS the respondent count                       (C01 / C02, restated)
        * the counted respondents are a SUBSET of the base's, hence for non-negative weights
             0 <= w_cell <= w_rowbase / w_colbase <= w_tabbase              (wsum monotonicity)
        * along a categorical dimension the cells of ALL valid elements add up to the base
   which is what Compose{Proportions,Variance,Zscore,Population,Merge}.v build on.
   Nothing here is assumed about counts or bases: everything is derived from the survey. *)
From Coq Require Import QArith ZArith List Bool Lia Arith Setoid Morphisms Btauto.
From CC Require Import Base.XQ Base.ListX Spec.Survey Model.CubeCounts Proofs.CubeCountsProofs.
Import ListNotations.
Local Close Scope Q_scope.
Local Open Scope nat_scope.

(* ------------------------------------------------------------------------------------ *)
(** * respondent-level predicates and weighted numbers of a cell *)

Section Preds.
  Variable tv : tvar.
  Variable k : nat.
  Variables vr : nat.
  Variable kr : kind.
  Variable mr : list bool.
  Variable vc : nat.
  Variable kc : kind.
  Variable mc : list bool.

  (* r is in table element k, row element i and column element j (MR: selected the item) *)
  Definition cell_in (i j : nat) (r : resp) : bool :=
    pop_of tv k r && in_el kr mr (ans r vr) i && in_el kc mc (ans r vc) j.
  (* ... in row element i and ELIGIBLE for column element j (the row proportion's base) *)
  Definition rowbase_in (i j : nat) (r : resp) : bool :=
    pop_of tv k r && in_el kr mr (ans r vr) i && ok_el kc mc (ans r vc) j.
  (* ... eligible for row element i and in column element j *)
  Definition colbase_in (i j : nat) (r : resp) : bool :=
    pop_of tv k r && ok_el kr mr (ans r vr) i && in_el kc mc (ans r vc) j.
  (* ... eligible for both *)
  Definition tabbase_in (i j : nat) (r : resp) : bool :=
    pop_of tv k r && ok_el kr mr (ans r vr) i && ok_el kc mc (ans r vc) j.

  Variable S : survey.
  Definition w_cell (i j : nat) : Q := wsum S (cell_in i j).
  Definition w_rowbase (i j : nat) : Q := wsum S (rowbase_in i j).
  Definition w_colbase (i j : nat) : Q := wsum S (colbase_in i j).
  Definition w_tabbase (i j : nat) : Q := wsum S (tabbase_in i j).
End Preds.

(* membership implies eligibility *)
Lemma in_cat_ok_cat ms a i : in_cat ms a i = true -> ok_cat ms a = true.
Proof.
  intros H. apply in_cat_true in H. destruct H as [c [Ha [_ [Hl Hm]]]].
  unfold ok_cat. rewrite Ha. simpl. apply andb_true_iff. split.
  - apply Nat.ltb_lt. exact Hl.
  - rewrite Hm. reflexivity.
Qed.

Lemma in_mr_ok_mr ms a i : in_mr ms a i = true -> ok_mr ms a i = true.
Proof. unfold in_mr, ok_mr. destruct (mstate a (nth i (valid_idxs ms) 0)); auto. Qed.

Lemma in_el_ok_el kd ms a i : in_el kd ms a i = true -> ok_el kd ms a i = true.
Proof.
  destruct kd; simpl.
  - apply in_cat_ok_cat.
  - apply in_mr_ok_mr.
  - discriminate.
Qed.

Section Order.
  Variable S : survey.
  Variable tv : tvar.
  Variable k : nat.
  Variables vr : nat.
  Variable kr : kind.
  Variable mr : list bool.
  Variable vc : nat.
  Variable kc : kind.
  Variable mc : list bool.
  Hypothesis Hwf : wf_survey S.

  Notation wc := (w_cell tv k vr kr mr vc kc mc S).
  Notation wr := (w_rowbase tv k vr kr mr vc kc mc S).
  Notation wk := (w_colbase tv k vr kr mr vc kc mc S).
  Notation wt := (w_tabbase tv k vr kr mr vc kc mc S).

  Lemma w_cell_nonneg i j : (0 <= wc i j)%Q.
  Proof. apply wsum_nonneg. exact Hwf. Qed.
  Lemma w_rowbase_nonneg i j : (0 <= wr i j)%Q.
  Proof. apply wsum_nonneg. exact Hwf. Qed.
  Lemma w_colbase_nonneg i j : (0 <= wk i j)%Q.
  Proof. apply wsum_nonneg. exact Hwf. Qed.
  Lemma w_tabbase_nonneg i j : (0 <= wt i j)%Q.
  Proof. apply wsum_nonneg. exact Hwf. Qed.

  (* the counted respondents are among the base's *)
  Lemma w_cell_le_rowbase i j : (wc i j <= wr i j)%Q.
  Proof.
    apply wsum_mono; [exact Hwf|]. intros r _. unfold cell_in, rowbase_in.
    rewrite !andb_true_iff. intros [[H1 H2] H3]. repeat split; auto. apply in_el_ok_el. exact H3.
  Qed.
  Lemma w_cell_le_colbase i j : (wc i j <= wk i j)%Q.
  Proof.
    apply wsum_mono; [exact Hwf|]. intros r _. unfold cell_in, colbase_in.
    rewrite !andb_true_iff. intros [[H1 H2] H3]. repeat split; auto. apply in_el_ok_el. exact H2.
  Qed.
  Lemma w_rowbase_le_tabbase i j : (wr i j <= wt i j)%Q.
  Proof.
    apply wsum_mono; [exact Hwf|]. intros r _. unfold rowbase_in, tabbase_in.
    rewrite !andb_true_iff. intros [[H1 H2] H3]. repeat split; auto. apply in_el_ok_el. exact H2.
  Qed.
  Lemma w_colbase_le_tabbase i j : (wk i j <= wt i j)%Q.
  Proof.
    apply wsum_mono; [exact Hwf|]. intros r _. unfold colbase_in, tabbase_in.
    rewrite !andb_true_iff. intros [[H1 H2] H3]. repeat split; auto. apply in_el_ok_el. exact H3.
  Qed.
  Lemma w_cell_le_tabbase i j : (wc i j <= wt i j)%Q.
  Proof. eapply Qle_trans; [apply w_cell_le_rowbase| apply w_rowbase_le_tabbase]. Qed.
End Order.

(* ------------------------------------------------------------------------------------ *)
(** * along a categorical dimension the valid elements partition the base *)

Section Partition.
  Variable S : survey.
  Variable tv : tvar.
  Variable k : nat.
  Variables vr : nat.
  Variable kr : kind.
  Variable mr : list bool.
  Variable vc : nat.
  Variable kc : kind.
  Variable mc : list bool.

  (* columns categorical: the row base does not depend on the column ... *)
  Lemma rowbase_cat_const i j j' :
    w_rowbase tv k vr kr mr vc KCat mc S i j = w_rowbase tv k vr kr mr vc KCat mc S i j'.
  Proof. reflexivity. Qed.
  Lemma colbase_cat_const i i' j :
    w_colbase tv k vr KCat mr vc kc mc S i j = w_colbase tv k vr KCat mr vc kc mc S i' j.
  Proof. reflexivity. Qed.

  (* ... and is the sum of the row's cells over ALL valid columns *)
  Lemma cells_sum_to_rowbase i j0 :
    (qsumn (nval mc) (fun j => w_cell tv k vr kr mr vc KCat mc S i j)
     == w_rowbase tv k vr kr mr vc KCat mc S i j0)%Q.
  Proof.
    unfold w_cell, w_rowbase, wsum. rewrite gsum_qsumn. apply gsum_ext. intros r _.
    unfold cell_in, rowbase_in. simpl in_el. simpl ok_el. unfold nval.
    rewrite (qsumn_ext _ _ (fun j => ind ((pop_of tv k r && in_el kr mr (ans r vr) i)
                                          && oeqb (acat (ans r vc)) (nth j (valid_idxs mc) 0)))).
    - rewrite (qsumn_ind_onehot mc (acat (ans r vc)) (pop_of tv k r && in_el kr mr (ans r vr) i)).
      + reflexivity.
      + intros j. reflexivity.
    - intros j Hj. unfold in_cat. rewrite (ltb_true _ _ Hj). reflexivity.
  Qed.

  (* rows categorical: the column base is the sum of the column's cells over ALL valid rows *)
  Lemma cells_sum_to_colbase i0 j :
    (qsumn (nval mr) (fun i => w_cell tv k vr KCat mr vc kc mc S i j)
     == w_colbase tv k vr KCat mr vc kc mc S i0 j)%Q.
  Proof.
    unfold w_cell, w_colbase, wsum. rewrite gsum_qsumn. apply gsum_ext. intros r _.
    unfold cell_in, colbase_in. simpl in_el. simpl ok_el. unfold nval.
    rewrite (qsumn_ext _ _ (fun i => ind ((pop_of tv k r && in_el kc mc (ans r vc) j)
                                          && oeqb (acat (ans r vr)) (nth i (valid_idxs mr) 0)))).
    - rewrite (qsumn_ind_onehot mr (acat (ans r vr)) (pop_of tv k r && in_el kc mc (ans r vc) j)).
      + unfold ok_cat.
        match goal with |- (ind ?a == ind ?b)%Q => replace a with b by btauto end. reflexivity.
      + intros i. reflexivity.
    - intros i Hi. unfold in_cat. rewrite (ltb_true _ _ Hi).
      match goal with |- (ind ?a == ind ?b)%Q => replace a with b by btauto end. reflexivity.
  Qed.

End Partition.

(* both categorical: the table base is the sum of ALL cells *)
Section PartitionTable.
  Variable S : survey.
  Variable tv : tvar.
  Variable k : nat.
  Variables vr vc : nat.
  Variables mr mc : list bool.

  Lemma cells_sum_to_tabbase i0 j0 :
    (qsumn (nval mr) (fun i => qsumn (nval mc) (fun j => w_cell tv k vr KCat mr vc KCat mc S i j))
     == w_tabbase tv k vr KCat mr vc KCat mc S i0 j0)%Q.
  Proof.
    rewrite (qsumn_ext _ _ (fun i => w_rowbase tv k vr KCat mr vc KCat mc S i j0)).
    - unfold w_rowbase, w_tabbase, wsum. rewrite gsum_qsumn. apply gsum_ext. intros r _.
      unfold rowbase_in, tabbase_in. simpl in_el. simpl ok_el. unfold nval.
      rewrite (qsumn_ext _ _ (fun i => ind ((pop_of tv k r && ok_cat mc (ans r vc))
                                            && oeqb (acat (ans r vr)) (nth i (valid_idxs mr) 0)))).
      + rewrite (qsumn_ind_onehot mr (acat (ans r vr)) (pop_of tv k r && ok_cat mc (ans r vc))).
        * unfold ok_cat.
          match goal with |- (ind ?a == ind ?b)%Q => replace a with b by btauto end. reflexivity.
        * intros i. reflexivity.
      + intros i Hi. unfold in_cat. rewrite (ltb_true _ _ Hi).
        match goal with |- (ind ?a == ind ?b)%Q => replace a with b by btauto end. reflexivity.
    - intros i _. apply cells_sum_to_rowbase.
  Qed.
End PartitionTable.

(* ------------------------------------------------------------------------------------ *)
(** * the base blocks the model computes from the tabulation of a survey *)

Section Tabulated.
  Variable S : survey.
  Variable tv : tvar.
  Variables vr : nat.
  Variable kr : kind.
  Variable mr : list bool.
  Variable vc : nat.
  Variable kc : kind.
  Variable mc : list bool.
  Variable k : nat.

  (* what _BaseCubeCounts.factory hands to the count class of partition k (C01) *)
  Let V := slice_of tv vr kr mr vc kc mc S k.

  (* the four first-order base blocks, nval mr x nval mc, valid elements in payload order --
     literally the fields so_counts / so_row_bases / so_column_bases / so_table_bases of
     Model/CubeCounts.v::slice_counts *)
  Definition t_counts : mat :=
    tab2 (nval mr) (nval mc) (counts_of V (kcls kr) (kcls kc)).
  Definition t_rb : mat :=
    tab2 (nval mr) (nval mc) (row_bases_of V (nval mc) (length mrv) (kcls kr) (kcls kc)).
  Definition t_cb : mat :=
    tab2 (nval mr) (nval mc) (column_bases_of V (nval mr) (length mrv) (kcls kr) (kcls kc)).
  Definition t_tb : mat :=
    tab2 (nval mr) (nval mc)
         (table_bases_of V (nval mr) (nval mc) (length mrv) (length mrv) (kcls kr) (kcls kc)).

  Hypothesis Ht : t_ok tv.
  Hypothesis Hr : cat_or_mr kr.
  Hypothesis Hc : cat_or_mr kc.
  Hypothesis Hk : k < t_n tv.

  Lemma t_counts_cell i j : i < nval mr -> j < nval mc ->
    mnth t_counts i j =x= Fin (w_cell tv k vr kr mr vc kc mc S i j).
  Proof.
    intros Hi Hj. unfold t_counts. rewrite tab2_mnth by assumption.
    exact (counts_of_spec S tv vr vc kr kc mr mc k Ht Hr Hc Hk i j Hi Hj).
  Qed.
  Lemma t_rb_cell i j : i < nval mr -> j < nval mc ->
    mnth t_rb i j =x= Fin (w_rowbase tv k vr kr mr vc kc mc S i j).
  Proof.
    intros Hi Hj. unfold t_rb. rewrite tab2_mnth by assumption.
    exact (row_bases_of_spec S tv vr vc kr kc mr mc k Ht Hr Hc Hk i j Hi Hj).
  Qed.
  Lemma t_cb_cell i j : i < nval mr -> j < nval mc ->
    mnth t_cb i j =x= Fin (w_colbase tv k vr kr mr vc kc mc S i j).
  Proof.
    intros Hi Hj. unfold t_cb. rewrite tab2_mnth by assumption.
    exact (column_bases_of_spec S tv vr vc kr kc mr mc k Ht Hr Hc Hk i j Hi Hj).
  Qed.
  Lemma t_tb_cell i j : i < nval mr -> j < nval mc ->
    mnth t_tb i j =x= Fin (w_tabbase tv k vr kr mr vc kc mc S i j).
  Proof.
    intros Hi Hj. unfold t_tb. rewrite tab2_mnth by assumption.
    exact (table_bases_of_spec S tv vr vc kr kc mr mc k Ht Hr Hc Hk i j Hi Hj).
  Qed.

  Lemma t_counts_nrows : nrows t_counts = nval mr.
  Proof. apply tab2_nrows. Qed.
End Tabulated.

(* the i-th row of a [tab2] matrix *)
Lemma tab2_row nr nc f i : i < nr -> nth i (tab2 nr nc f) [] = tab nc (f i).
Proof. intros H. exact (tab_nth nr (fun i => tab nc (fun j => f i j)) [] i H). Qed.

Lemma tab2_ncols nr nc f : 0 < nr -> ncols (tab2 nr nc f) = nc.
Proof.
  intros H. unfold ncols. pose proof (tab2_row nr nc f 0 H) as E.
  destruct (tab2 nr nc f) as [|r t] eqn:Em.
  - exfalso. pose proof (tab2_nrows nr nc f) as L. rewrite Em in L. simpl in L. lia.
  - simpl in E. rewrite E. apply tab_length.
Qed.

(* sums of a tabulated vector whose entries are finite up to [xeq] *)
Lemma xsum_map_fin_in {A} (f : A -> xq) (g : A -> Q) l :
  (forall x, In x l -> f x =x= Fin (g x)) -> xsum (map f l) =x= Fin (qsum (map g l)).
Proof.
  induction l as [|a t IH]; intros H; [reflexivity|].
  cbn [map xsum fold_right qsum]. fold (xsum (map f t)).
  rewrite (H a (or_introl eq_refl)), IH by (intros x Hx; apply H; right; exact Hx).
  reflexivity.
Qed.

Lemma xsum_tab_fin n (f : nat -> xq) (g : nat -> Q) :
  (forall i, i < n -> f i =x= Fin (g i)) -> xsum (tab n f) =x= Fin (qsumn n g).
Proof.
  intros H. unfold qsumn, tab. apply xsum_map_fin_in. intros i Hi. apply in_seq in Hi. apply H. lia.
Qed.
