(* GenAgreeCubeRebuild: Cube.inflate and Cube.augment_response as generated from src/cr/cube/cube.py
   (Gen/CubeSrc.v) in closed form (Model/PyCube.v: inflated_response, augmented_response, rebuilt_cube):
   the cube they return is a NEW cube on a NEW response - the rows dimension put FIRST / the counts and the
   count measure positioned each from its own data, dimension 0 with the summary's elements, every other
   key shared - built with the cube's own cube_idx, transforms, population and mask size.  The generated
   functions are pure: an in-place edit of the caller's response is outside the translator's whitelist. *)
From Coq Require Import List ZArith QArith String Bool Lia Arith.
From CC Require Import Base.XQ Base.ListX Base.PyList Base.PyJson Spec.Survey Model.CubeCounts Model.DimType
  Model.PyCube Gen.CubeSrc Proofs.GenAgreeCubeLib Proofs.GenAgreeCubeBase.
Import ListNotations.
Local Close Scope Q_scope.
Local Open Scope Z_scope.
Local Open Scope string_scope.

Ltac json_step :=
  cbn [pbind py_getitem_str py_getitem_int py_get pres_of_option py_list_getitem py_index List.length
       nth_error py_len_json py_iter py_dict_copy_with py_dict_setitem py_list_add fold_left
       fst snd app skipn Z.leb Z.ltb Z.compare Z.of_nat Z.to_nat Pos.of_succ_nat Pos.to_nat Pos.iter_op
       Nat.add Pos.compare Pos.compare_cont].

(*@ C06 C18 *)
Lemma gen_cube_Cube_inflate :
  match src_Cube_inflate, src_Cube__cube_response, src_Cube__numeric_array_dimension,
        src_Cube__available_numeric_measures, src_Cube__numeric_measure_references with
  | Some f, Some g1, Some g2, Some g3, Some g4 => forall X c top res dimsj numdim nums refs,
      g1 X c = POk (JDict top) -> dget top "result" = Some (JDict res) ->
      dget res "dimensions" = Some (JList dimsj) ->
      g2 X c = POk numdim -> g3 X c = POk nums -> g4 X c = POk (JDict refs) ->
      f X c = match inflate_name refs nums with
              | Some name =>
                  POk (rebuilt_cube c (if json_truthy numdim then JDict top
                                       else inflated_response top res dimsj (inflate_alias refs nums) name))
              | None => PErr EAttr
              end
  | _, _, _, _, _ => True end.
Proof.
  generalize gen_cube_Cube___init__. unfold src_Cube_inflate.
  src_cases; (intros Hi; intros X c top res dimsj numdim nums refs H1 H2 H3 H4 H5 H6;
  unfold dget in *; rewrite H1, H4, H5, !H6; json_step; rewrite !H2; json_step; rewrite H3; json_step;
  unfold inflate_name, inflate_alias, dget, py_or;
  destruct (py_dict_get String.eqb refs "name") as [[| | | |s| |]|]; cbn [py_str_title pbind]; try reflexivity;
    (destruct (json_truthy numdim) eqn:E; cbn [negb json_truthy]; rewrite ?E; cbn [negb];
     json_step; rewrite ?H2; json_step; rewrite !Hi; reflexivity)).
Qed.

Lemma pfilterM_ext {A} (f g : A -> pres bool) l : (forall x, f x = g x) -> pfilterM f l = pfilterM g l.
Proof. intros H. induction l as [|x t IH]; simpl; auto. rewrite H, IH. reflexivity. Qed.
Lemma pmapM_ext {A B} (f g : A -> pres B) l : (forall x, f x = g x) -> pmapM f l = pmapM g l.
Proof. intros H. induction l as [|x t IH]; simpl; auto. rewrite H, IH. reflexivity. Qed.
Lemma pfoldM_ext {S A} (f g : S -> A -> pres S) l s :
  (forall s x, f s x = g s x) -> pfoldM f l s = pfoldM g l s.
Proof. intros H. revert s. induction l as [|x t IH]; intros s; simpl; auto. rewrite H. destruct (g s x); simpl; auto. Qed.
Lemma if_pok (b : bool) : (if b then POk true else POk false) = POk b.
Proof. destruct b; reflexivity. Qed.

Lemma pbind_ext {A B} (r : pres A) (f g : A -> pres B) : (forall x, f x = g x) -> pbind r f = pbind r g.
Proof. intros H. destruct r; simpl; auto. Qed.

Lemma aug_values_src oels :
  pbind (pfilterM (fun l_el => pbind (py_get l_el "value" JNull)
                                     (fun t19 => if json_is_int_or_str t19 then POk true else POk false)) oels)
        (fun t20 => pmapM (fun l_el => pbind (py_get l_el "value" JNull) (fun t21 => POk t21)) t20)
  = aug_values oels.
Proof.
  unfold aug_values.
  rewrite (pfilterM_ext _ (fun el => pbind (py_get el "value" JNull) (fun v => POk (json_is_int_or_str v))))
    by (intros x; apply pbind_ext; intros v; apply if_pok).
  apply pbind_ext. intros l. apply pmapM_ext. intros x. apply pbind_ret.
Qed.

Lemma aug_positions_src sels values :
  pbind (pfilterM (fun l_item => pbind (py_getitem_str l_item "value")
                                       (fun t24 => if json_in t24 values then POk true else POk false)) sels)
        (fun t25 => pmapM (fun l_item => pbind (py_getitem_str l_item "id") (fun t26 => POk t26)) t25)
  = aug_positions sels values.
Proof.
  unfold aug_positions.
  rewrite (pfilterM_ext _ (fun it => pbind (py_getitem_str it "value") (fun v => POk (json_in v values))))
    by (intros x; apply pbind_ext; intros v; apply if_pok).
  apply pbind_ext. intros l. apply pmapM_ext. intros x. apply pbind_ret.
Qed.

Lemma aug_fill_src n positions values :
  pfoldM (fun l_data '(l_pos, l_value) => pbind (py_list_setitem l_data l_pos l_value) (fun l_data0 => POk l_data0))
         (py_zip positions values) (map (fun x => JInt x) (py_list_repeat [0] n))
  = aug_fill n positions values.
Proof.
  unfold aug_fill. apply pfoldM_ext. intros s [p v]. apply pbind_ret.
Qed.

Lemma py_slice_from_1 x l : py_slice_from (JList (x :: l)) 1 = POk (JList l).
Proof.
  unfold py_slice_from, py_index. cbn [List.length].
  destruct (Z.leb_spec 0 1); [|lia].
  destruct (Z.ltb_spec 1 (Z.of_nat (S (List.length l)))).
  - reflexivity.
  - destruct l; [reflexivity|]. cbn [List.length] in *. lia.
Qed.

(*@ C06 C18 *)
Lemma gen_cube_Cube_augment_response :
  match src_Cube_augment_response, src_Cube__cube_response with
  | Some f, Some g => forall X c top res cs dim0 drest ty0 oels ms cm cd stop sres scs sdim0 sdrest sty0 sels,
      g X c = POk (JDict top) -> dget top "result" = Some (JDict res) ->
      dget res "counts" = Some (JList cs) -> dget res "dimensions" = Some (JList (JDict dim0 :: drest)) ->
      dget dim0 "type" = Some (JDict ty0) -> dget ty0 "elements" = Some (JList oels) ->
      dget res "measures" = Some (JDict ms) -> dget ms "count" = Some (JDict cm) ->
      dget cm "data" = Some (JList cd) ->
      dget stop "result" = Some (JDict sres) -> dget sres "counts" = Some (JList scs) ->
      dget sres "dimensions" = Some (JList (JDict sdim0 :: sdrest)) ->
      dget sdim0 "type" = Some (JDict sty0) -> dget sty0 "elements" = Some (JList sels) ->
      f X c (JDict stop) =
      if Z.eqb (py_len cs) (py_len scs) then POk c else
      pbind (aug_values oels) (fun values => pbind (aug_positions sels values) (fun positions =>
      pbind (aug_fill (py_len scs) positions cs) (fun data =>
      pbind (aug_fill (py_len scs) positions cd) (fun cdata =>
      POk (rebuilt_cube c (augmented_response top res ms cm dim0 ty0 drest data cdata sels))))))
  | _, _ => True end.
Proof.
  generalize gen_cube_Cube___init__. unfold src_Cube_augment_response.
  src_cases; (intros Hi;
  intros X c top res cs dim0 drest ty0 oels ms cm cd stop sres scs sdim0 sdrest sty0 sels;
  intros H1 H2 H3 H4 H5 H6 H7 H8 H9 S1 S2 S3 S4 S5;
  unfold dget in *; rewrite !H1;
  repeat (json_step; rewrite ?H2, ?H3, ?H4, ?H5, ?H6, ?H7, ?H8, ?H9, ?S1, ?S2, ?S3, ?S4, ?S5, ?py_slice_from_1);
  destruct (Z.eqb (py_len cs) (py_len scs)); cbn [negb]; [reflexivity|];
  rewrite <- (pbind_assoc (pfilterM _ oels)); rewrite aug_values_src; apply pbind_ext; intros values;
  rewrite <- (pbind_assoc (pfilterM _ sels)); rewrite aug_positions_src; apply pbind_ext; intros positions;
  rewrite !aug_fill_src; apply pbind_ext; intros data; apply pbind_ext; intros cdata;
  rewrite Hi; reflexivity).
Qed.
