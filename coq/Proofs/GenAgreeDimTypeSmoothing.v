(* GenAgreeDimTypeSmoothing (C20): Dimension.smoothing_dict as generated from src/cr/cube/dimension.py
   (Gen/DimTypeSrc.v) IS [smoother_of] of Model/DimValues.v, and what smoothing.py reads out of it -
   smoothing_dict.get("window") - is the "window" entry of the analyst's "smoother" dict, 0 included
   ([transforms_window]); hence the smoother's window is [window_of (transforms_window tr)] (Model/Smoothing.v). *)
From Coq Require Import List ZArith String Bool Lia Arith.
From CC Require Import Base.XQ Base.Ident Base.PyList Base.PyDict Model.DimType Model.PyDimension Model.PyDimType
  Model.DimValues Model.Smoothing Gen.DimensionSrc Gen.DimTypeSrc Proofs.GenAgreeDimensionLib Proofs.GenAgreeDimTypeLib.
Import ListNotations.
Local Close Scope Q_scope.
Local Open Scope Z_scope.
Local Open Scope string_scope.

(*@ C20 *)
Lemma gen_dimtype_Dimension_smoothing_dict :
  match src_Dimension_smoothing_dict with
  | Some f => forall t dd tr, f (mkPyDimension t dd (JDict tr)) = Ok (smoother_of tr)
  | None => True end.
Proof.
  unfold src_Dimension_smoothing_dict.
  first [exact I | idtac].
  all: gen_open; dsimpl; rewrite pj_get_dict; dsimpl.
  all: unfold smoother_of; rewrite jget_default.
  all: destruct (jget tr "smoother") as [v|]; reflexivity.
Qed.

(* what the smoother reads out of it (smoothing.py: smoothing_dict.get("window"), .get("function")): the entry
   of the analyst's "smoother" dict - a window of 0 included; [jv_of_raw] is the value Model/Smoothing.v's
   [window_of] is applied to by the smoothing translator (Proofs/GenAgreeSmoothTac.v [raw_val]) *)
Definition jv_of_raw (raw : option Z) : jv := match raw with Some w => JInt w | None => JNone end.
(* the "smoother" entry is absent, null, or a dict whose "window" is absent, null or an int *)
Definition smoother_wf (tr : jdict) : Prop :=
  match jget tr "smoother" with
  | None | Some JNone => True
  | Some (JDict s) => match jget s "window" with None | Some JNone | Some (JInt _) => True | _ => False end
  | Some _ => False
  end.

(*@ C20 *)
Lemma gen_dimtype_Dimension_smoothing_window :
  match src_Dimension_smoothing_dict with
  | Some f => forall t dd tr, smoother_wf tr ->
      bind (f (mkPyDimension t dd (JDict tr))) (fun sd => pj_get sd (JStr "window") JNone)
      = Ok (jv_of_raw (transforms_window tr))
      /\ window_of (transforms_window tr)
         = match jget tr "smoother" with
           | Some (JDict s) => match jget s "window" with Some (JInt w) => w | _ => 2 end
           | _ => 2
           end
  | None => True end.
Proof.
  generalize gen_dimtype_Dimension_smoothing_dict.
  destruct src_Dimension_smoothing_dict as [f|]; [|intros _; exact I].
  intros H t dd tr Hw. rewrite H. dsimpl.
  unfold smoother_wf in Hw. unfold transforms_window, raw_window, window_entry, smoother_of.
  destruct (jget tr "smoother") as [[| | | | | |s]|]; try contradiction; try (split; reflexivity).
  destruct s as [|kv s']; [split; reflexivity|].
  cbn [jv_truthy]. rewrite pj_get_dict, jget_default.
  destruct (jget (kv :: s') "window") as [[| |w| | | |]|]; try contradiction; split; reflexivity.
Qed.

