(* Proofs/ComposePublicChain.v -- the measure chain, level 1: the row / column / table proportions, on the
   EVALUATED weighted counts and weighted bases.  Bridges: gen_<X>Proportions_blocks_ij
   (Proofs/GenAgreeProportions.v).  Re-exports the definitions and level 0.  See ComposePublicChainDefs.v. *)
From Coq Require Import QArith ZArith List Bool Lia Arith String.
From CC Require Export Proofs.ComposePublicChainDefs Proofs.ComposePublicChainCounts Proofs.ComposePublicChainBases.
From CC Require Import Base.XQ Base.ListX Base.WiringExp Model.Subtotals Model.Proportions
     Proofs.ComposePublicSem Proofs.ComposePublicLinks.
From CC Require Base.MeasureExp Base.BasesExp Gen.MeasureSrc Gen.BasesSrc
     Proofs.GenAgreeMeasTac Proofs.GenAgreeBasesTac Proofs.GenAgreeProportions.
Import ListNotations.
Local Close Scope Q_scope.
Local Open Scope string_scope.
Local Open Scope nat_scope.

Import CC.Gen.MeasureSrc CC.Gen.BasesSrc.

(* ------------------------------------------------------------------------------------ *)
(** * level 1: the proportions, on the EVALUATED counts and bases *)

Definition terms_row_proportions : bool :=
  terms_weighted_counts && terms_row_weighted_bases &&
  is_some src_RowProportions_blocks_00 && is_some src_RowProportions_blocks_01 &&
  is_some src_RowProportions_blocks_10 && is_some src_RowProportions_blocks_11.
Definition terms_column_proportions : bool :=
  terms_weighted_counts && terms_column_weighted_bases &&
  is_some src_ColumnProportions_blocks_00 && is_some src_ColumnProportions_blocks_01 &&
  is_some src_ColumnProportions_blocks_10 && is_some src_ColumnProportions_blocks_11.
Definition terms_table_proportions : bool :=
  terms_weighted_counts && terms_table_weighted_bases &&
  is_some src_TableProportions_blocks_00 && is_some src_TableProportions_blocks_01 &&
  is_some src_TableProportions_blocks_10 && is_some src_TableProportions_blocks_11.

(* the model structure a proportion lemma names, on the evaluated blocks, is the structure on the
   cube-measure arrays *)
Lemma row_props_model_chain f C :
  realizes f C "weighted_counts" (B_counts C) -> realizes f C "row_weighted_bases" (B_rowb C) ->
  GenAgreeProportions.row_props_model (c_nr C) (c_nc C) (c_rsubs C) (c_csubs C) (c_rd C) (c_cd C)
    (blk_at f C) (c_cubem C) = B_rowp C.
Proof.
  intros Rc Rb. unfold GenAgreeProportions.row_props_model.
  rewrite (realizes_blocks_of _ _ _ _ Rc), (realizes_blocks_of _ _ _ _ Rb). reflexivity.
Qed.
Lemma col_props_model_chain f C :
  realizes f C "weighted_counts" (B_counts C) -> realizes f C "column_weighted_bases" (B_colb C) ->
  GenAgreeProportions.col_props_model (c_nr C) (c_nc C) (c_rsubs C) (c_csubs C) (c_rd C) (c_cd C)
    (blk_at f C) (c_cubem C) = B_colp C.
Proof.
  intros Rc Rb. unfold GenAgreeProportions.col_props_model.
  rewrite (realizes_blocks_of _ _ _ _ Rc), (realizes_blocks_of _ _ _ _ Rb). reflexivity.
Qed.
Lemma table_props_model_chain f C :
  realizes f C "weighted_counts" (B_counts C) -> realizes f C "table_weighted_bases" (B_tabb C) ->
  GenAgreeProportions.table_props_model (c_nr C) (c_nc C) (c_rsubs C) (c_csubs C) (blk_at f C) = B_tabp C.
Proof.
  intros Rc Rb. unfold GenAgreeProportions.table_props_model.
  rewrite (realizes_blocks_of _ _ _ _ Rc), (realizes_blocks_of _ _ _ _ Rb). reflexivity.
Qed.

Theorem realizes_row_proportions :
  need terms_row_proportions
  (forall f C, first_order_ok C -> realizes (S (S f)) C "row_proportions" (B_rowp C)).
Proof.
  unfold terms_row_proportions.
  use_need realizes_weighted_counts terms_weighted_counts. intros Rc.
  use_need realizes_row_weighted_bases terms_row_weighted_bases. intros Rb.
  bridge GenAgreeProportions.gen_RowProportions_blocks_00 src_RowProportions_blocks_00.
  bridge GenAgreeProportions.gen_RowProportions_blocks_01 src_RowProportions_blocks_01.
  bridge GenAgreeProportions.gen_RowProportions_blocks_10 src_RowProportions_blocks_10.
  bridge GenAgreeProportions.gen_RowProportions_blocks_11 src_RowProportions_blocks_11.
  needed. intros f C (Hc & Hrb & Hcb & Htb & Hne).
  pose proof (row_props_model_chain (S f) C (Rc f C Hc) (Rb f C Hrb Hne)) as M.
  pose proof (tabular_rowp C) as T. four_blocks.
  - block_by E eval_block_mat ltac:(rewrite <- M; apply G) T.
  - block_by E0 eval_block_mat ltac:(rewrite <- M; apply G0) T.
  - block_by E1 eval_block_mat ltac:(rewrite <- M; apply G1) T.
  - block_by E2 eval_block_mat ltac:(rewrite <- M; apply G2) T.
Qed.

Theorem realizes_column_proportions :
  need terms_column_proportions
  (forall f C, first_order_ok C -> realizes (S (S f)) C "column_proportions" (B_colp C)).
Proof.
  unfold terms_column_proportions.
  use_need realizes_weighted_counts terms_weighted_counts. intros Rc.
  use_need realizes_column_weighted_bases terms_column_weighted_bases. intros Rb.
  bridge GenAgreeProportions.gen_ColumnProportions_blocks_00 src_ColumnProportions_blocks_00.
  bridge GenAgreeProportions.gen_ColumnProportions_blocks_01 src_ColumnProportions_blocks_01.
  bridge GenAgreeProportions.gen_ColumnProportions_blocks_10 src_ColumnProportions_blocks_10.
  bridge GenAgreeProportions.gen_ColumnProportions_blocks_11 src_ColumnProportions_blocks_11.
  needed. intros f C (Hc & Hrb & Hcb & Htb & Hne).
  pose proof (col_props_model_chain (S f) C (Rc f C Hc) (Rb f C Hcb Hne)) as M.
  pose proof (tabular_colp C) as T. four_blocks.
  - block_by E eval_block_mat ltac:(rewrite <- M; apply G) T.
  - block_by E0 eval_block_mat ltac:(rewrite <- M; apply G0) T.
  - block_by E1 eval_block_mat ltac:(rewrite <- M; apply G1) T.
  - block_by E2 eval_block_mat ltac:(rewrite <- M; apply G2) T.
Qed.

Theorem realizes_table_proportions :
  need terms_table_proportions
  (forall f C, first_order_ok C -> realizes (S (S f)) C "table_proportions" (B_tabp C)).
Proof.
  unfold terms_table_proportions.
  use_need realizes_weighted_counts terms_weighted_counts. intros Rc.
  use_need realizes_table_weighted_bases terms_table_weighted_bases. intros Rb.
  bridge GenAgreeProportions.gen_TableProportions_blocks_00 src_TableProportions_blocks_00.
  bridge GenAgreeProportions.gen_TableProportions_blocks_01 src_TableProportions_blocks_01.
  bridge GenAgreeProportions.gen_TableProportions_blocks_10 src_TableProportions_blocks_10.
  bridge GenAgreeProportions.gen_TableProportions_blocks_11 src_TableProportions_blocks_11.
  needed. intros f C (Hc & Hrb & Hcb & Htb & Hne).
  pose proof (table_props_model_chain (S f) C (Rc f C Hc) (Rb f C Htb Hne)) as M.
  pose proof (tabular_tabp C) as T. four_blocks.
  - block_by E eval_block_mat ltac:(rewrite <- M; apply G) T.
  - block_by E0 eval_block_mat ltac:(rewrite <- M; apply G0) T.
  - block_by E1 eval_block_mat ltac:(rewrite <- M; apply G1) T.
  - block_by E2 eval_block_mat ltac:(rewrite <- M; apply G2) T.
Qed.
