(* Proofs/ComposePublicChainBases.v -- the measure chain, level 0: the row / column / table weighted bases.
   Bridges: gen_<X>WeightedBases_blocks_ij (Proofs/GenAgreeBaseBlocks.v).  See ComposePublicChainDefs.v. *)
From Coq Require Import QArith ZArith List Bool Lia Arith String.
From CC Require Import Base.XQ Base.ListX Base.WiringExp Model.Subtotals Model.Proportions
     Proofs.ComposePublicSem Proofs.ComposePublicLinks Proofs.ComposePublicChainDefs.
From CC Require Base.MeasureExp Base.BasesExp Gen.MeasureSrc Gen.BasesSrc
     Proofs.GenAgreeMeasTac Proofs.GenAgreeBasesTac Proofs.GenAgreeBaseBlocks.
Import ListNotations.
Local Close Scope Q_scope.
Local Open Scope string_scope.
Local Open Scope nat_scope.

Import CC.Gen.MeasureSrc CC.Gen.BasesSrc.

Definition terms_row_weighted_bases : bool :=
  is_some src_RowWeightedBases_blocks_00 && is_some src_RowWeightedBases_blocks_01 &&
  is_some src_RowWeightedBases_blocks_10 && is_some src_RowWeightedBases_blocks_11.
Definition terms_column_weighted_bases : bool :=
  is_some src_ColumnWeightedBases_blocks_00 && is_some src_ColumnWeightedBases_blocks_01 &&
  is_some src_ColumnWeightedBases_blocks_10 && is_some src_ColumnWeightedBases_blocks_11.
Definition terms_table_weighted_bases : bool :=
  is_some src_TableWeightedBases_blocks_00 && is_some src_TableWeightedBases_blocks_01 &&
  is_some src_TableWeightedBases_blocks_10 && is_some src_TableWeightedBases_blocks_11.

Theorem realizes_row_weighted_bases :
  need terms_row_weighted_bases
  (forall f C, cube_tab C "row_bases" -> nonempty C ->
     realizes (S f) C "row_weighted_bases" (B_rowb C)).
Proof.
  unfold terms_row_weighted_bases.
  bridge GenAgreeBaseBlocks.gen_RowWeightedBases_blocks_00 src_RowWeightedBases_blocks_00.
  bridge GenAgreeBaseBlocks.gen_RowWeightedBases_blocks_01 src_RowWeightedBases_blocks_01.
  bridge GenAgreeBaseBlocks.gen_RowWeightedBases_blocks_10 src_RowWeightedBases_blocks_10.
  bridge GenAgreeBaseBlocks.gen_RowWeightedBases_blocks_11 src_RowWeightedBases_blocks_11.
  needed. intros f C Hc [Hr Hn]. pose proof (tabular_rowb C Hc) as T. four_blocks.
  - block_by E eval_block_base ltac:(apply G) T.
  - block_by E0 eval_block_base ltac:(apply G0; intros _; exact Hn) T.
  - block_by E1 eval_block_base ltac:(apply G1) T.
  - block_by E2 eval_block_base ltac:(apply G2; exact Hn) T.
Qed.

Theorem realizes_column_weighted_bases :
  need terms_column_weighted_bases
  (forall f C, cube_tab C "column_bases" -> nonempty C ->
     realizes (S f) C "column_weighted_bases" (B_colb C)).
Proof.
  unfold terms_column_weighted_bases.
  bridge GenAgreeBaseBlocks.gen_ColumnWeightedBases_blocks_00 src_ColumnWeightedBases_blocks_00.
  bridge GenAgreeBaseBlocks.gen_ColumnWeightedBases_blocks_01 src_ColumnWeightedBases_blocks_01.
  bridge GenAgreeBaseBlocks.gen_ColumnWeightedBases_blocks_10 src_ColumnWeightedBases_blocks_10.
  bridge GenAgreeBaseBlocks.gen_ColumnWeightedBases_blocks_11 src_ColumnWeightedBases_blocks_11.
  needed. intros f C Hc [Hr Hn]. pose proof (tabular_colb C Hc) as T. four_blocks.
  - block_by E eval_block_base ltac:(apply G) T.
  - block_by E0 eval_block_base ltac:(apply G0) T.
  - block_by E1 eval_block_base ltac:(apply G1; intros _; exact Hr) T.
  - block_by E2 eval_block_base ltac:(apply G2; exact Hr) T.
Qed.

Theorem realizes_table_weighted_bases :
  need terms_table_weighted_bases
  (forall f C, cube_tab C "table_bases" -> nonempty C ->
     realizes (S f) C "table_weighted_bases" (B_tabb C)).
Proof.
  unfold terms_table_weighted_bases.
  bridge GenAgreeBaseBlocks.gen_TableWeightedBases_blocks_00 src_TableWeightedBases_blocks_00.
  bridge GenAgreeBaseBlocks.gen_TableWeightedBases_blocks_01 src_TableWeightedBases_blocks_01.
  bridge GenAgreeBaseBlocks.gen_TableWeightedBases_blocks_10 src_TableWeightedBases_blocks_10.
  bridge GenAgreeBaseBlocks.gen_TableWeightedBases_blocks_11 src_TableWeightedBases_blocks_11.
  needed. intros f C Hc [Hr Hn]. pose proof (tabular_tabb C Hc) as T. four_blocks.
  - block_by E eval_block_base ltac:(apply G) T.
  - block_by E0 eval_block_base ltac:(apply G0; exact Hn) T.
  - block_by E1 eval_block_base ltac:(apply G1; exact Hr) T.
  - block_by E2 eval_block_base ltac:(apply G2; [exact Hr|exact Hn]) T.
Qed.

