(* GenAgreeDimensionOrderSpec: every member of _OrderSpec, as generated from src/cr/cube/dimension.py
   (Gen/DimensionSrc.v), reads the "order" dict of the dimension transforms the way the models of C08 / C05
   assume (Model/SortKeys.v [order_req], [measure_enum], [marginal_enum], [method_of]'s keywords;
   Model/Collator.v [sortspec]; Model/PyCollator.v [pyspec]) - for ALL transforms dicts.

     order_of tr      the dict `transforms.get("order") or {}` ([None]: the value is truthy and no dict - every
                      member then raises AttributeError / TypeError)
     seq_field o k    the sequence under o[k] when it is a list, [] when it is absent / null / empty
     fixed_of o       the dict under o["fixed"] ({} when absent) *)
From Coq Require Import List ZArith String Bool Lia Arith.
From CC Require Import Base.XQ Base.Ident Base.PyList Base.PyDict Model.DimType Model.PyDimension Gen.DimensionSrc
  Proofs.GenAgreeDimensionLib Proofs.GenAgreeDimensionSubtotal.
From CC Require Model.SortKeys.
Import ListNotations.
Local Close Scope Q_scope.
Local Open Scope Z_scope.

Definition order_of (tr : jdict) : option jdict :=
  let v := jd_get_default tr (JStr "order") JNone in
  if jv_truthy v then match v with JDict o => Some o | _ => None end else Some [].

(* COLLATION_METHOD values (the keywords Model/SortKeys.v [method_of] dispatches on, and the default) *)
Definition cm_values : list string :=
  ["explicit"; "label"; "marginal"; "opposing_element"; "opposing_insertion"; "payload_order";
   "univariate_measure"]%string.
Definition collation_of (v : jv) : string :=
  match v with
  | JStr s => if existsb (fun v => String.eqb v s) cm_values then s else "payload_order"
  | _ => "payload_order"
  end%string.

(* Cls(v) of an enum whose values are [values]: the value itself, ValueError for anything else *)
Definition enum_of (values : list string) (v : jv) : res string :=
  match v with
  | JStr s => if SortKeys.smem s values then Ok s else Err ValueError
  | _ => Err ValueError
  end.

Lemma order_of_get tr o :
  order_of tr = Some o ->
  pj_get (JDict tr) (JStr "order") JNone
  = Ok (jd_get_default tr (JStr "order") JNone) /\
  (if jv_truthy (jd_get_default tr (JStr "order") JNone) then jd_get_default tr (JStr "order") JNone else JDict [])
  = JDict o.
Proof.
  unfold order_of. intros H. split; [reflexivity|].
  destruct (jv_truthy (jd_get_default tr (JStr "order") JNone)).
  - destruct (jd_get_default tr (JStr "order") JNone); try discriminate. inversion H. reflexivity.
  - inversion H. reflexivity.
Qed.

Lemma gen__OrderSpec__order_dict :
  match src__OrderSpec__order_dict with
  | Some f => forall D tr o, order_of tr = Some o -> f (mkPyOrderSpec D (JDict tr)) = Ok (JDict o)
  | None => True end.
Proof.
  unfold src__OrderSpec__order_dict.
  first [exact I | idtac].
  all: gen_open; msimpl.
  all: destruct (order_of_get tr o) as [E1 E2]; [assumption|].
  all: rewrite E1; msimpl; rewrite E2; reflexivity.
Qed.

Lemma gen__OrderSpec_descending :
  match src__OrderSpec_descending with
  | Some f => forall D tr o, order_of tr = Some o ->
      f (mkPyOrderSpec D (JDict tr))
      = Ok (negb (jv_eqb (jd_get_default o (JStr "direction") (JStr "descending")) (JStr "ascending")))
  | None => True end.
Proof.
  unfold src__OrderSpec_descending.
  first [exact I | idtac].
  all: dep gen__OrderSpec__order_dict src__OrderSpec__order_dict.
  all: gen_open; msimpl.
  all: rewrite (H D tr o) by assumption; msimpl; rewrite pj_get_dict; reflexivity.
Qed.

(* tuple(x or []) *)
Definition seq_field (o : jdict) (k : string) (l : list jv) : Prop :=
  let v := jd_get_default o (JStr k) JNone in
  (jv_truthy v = false /\ l = []) \/ v = JList l.

Lemma gen__OrderSpec_element_ids :
  match src__OrderSpec_element_ids with
  | Some f => forall D tr o l, order_of tr = Some o -> seq_field o "element_ids" l ->
      f (mkPyOrderSpec D (JDict tr)) = Ok l
  | None => True end.
Proof.
  unfold src__OrderSpec_element_ids.
  first [exact I | idtac].
  all: dep gen__OrderSpec__order_dict src__OrderSpec__order_dict.
  all: gen_open; msimpl.
  all: rewrite (H D tr o) by assumption; msimpl; rewrite pj_get_dict; msimpl.
  all: match goal with Hs : seq_field _ _ _ |- _ => destruct Hs as [[Hf ->]|Hl] end;
    [ rewrite Hf; reflexivity | rewrite Hl; destruct l; reflexivity].
Qed.

(* order.fixed.top / bottom: `order.get("fixed", {}).get(k, [])` *)
Definition fixed_field (o : jdict) (k : string) (l : list jv) : Prop :=
  exists fx, jd_get_default o (JStr "fixed") (JDict []) = JDict fx /\
             jd_get_default fx (JStr k) (JList []) = JList l.

Lemma gen__OrderSpec_top_fixed_ids :
  match src__OrderSpec_top_fixed_ids with
  | Some f => forall D tr o l, order_of tr = Some o -> fixed_field o "top" l ->
      f (mkPyOrderSpec D (JDict tr)) = Ok l
  | None => True end.
Proof.
  unfold src__OrderSpec_top_fixed_ids.
  first [exact I | idtac].
  all: dep gen__OrderSpec__order_dict src__OrderSpec__order_dict.
  all: gen_open; msimpl.
  all: rewrite (H D tr o) by assumption; msimpl; rewrite pj_get_dict; msimpl.
  all: match goal with Hs : fixed_field _ _ _ |- _ => destruct Hs as (fx & E1 & E2) end.
  all: rewrite E1, pj_get_dict; msimpl; rewrite E2; reflexivity.
Qed.

Lemma gen__OrderSpec_bottom_fixed_ids :
  match src__OrderSpec_bottom_fixed_ids with
  | Some f => forall D tr o l, order_of tr = Some o -> fixed_field o "bottom" l ->
      f (mkPyOrderSpec D (JDict tr)) = Ok l
  | None => True end.
Proof.
  unfold src__OrderSpec_bottom_fixed_ids.
  first [exact I | idtac].
  all: dep gen__OrderSpec__order_dict src__OrderSpec__order_dict.
  all: gen_open; msimpl.
  all: rewrite (H D tr o) by assumption; msimpl; rewrite pj_get_dict; msimpl.
  all: match goal with Hs : fixed_field _ _ _ |- _ => destruct Hs as (fx & E1 & E2) end.
  all: rewrite E1, pj_get_dict; msimpl; rewrite E2; reflexivity.
Qed.

(* order["k"]: KeyError when the field is absent *)

Lemma gen__OrderSpec_element_id :
  match src__OrderSpec_element_id with
  | Some f => forall D tr o, order_of tr = Some o ->
      f (mkPyOrderSpec D (JDict tr)) = of_option KeyError (jd_get o (JStr "element_id"))
  | None => True end.
Proof.
  unfold src__OrderSpec_element_id.
  first [exact I | idtac].
  all: dep gen__OrderSpec__order_dict src__OrderSpec__order_dict.
  all: gen_open; msimpl.
  all: rewrite (H D tr o) by assumption; msimpl; rewrite pj_getitem_dict, bind_ret; reflexivity.
Qed.

Lemma gen__OrderSpec_insertion_id :
  match src__OrderSpec_insertion_id with
  | Some f => forall D tr o, order_of tr = Some o ->
      f (mkPyOrderSpec D (JDict tr)) = of_option KeyError (jd_get o (JStr "insertion_id"))
  | None => True end.
Proof.
  unfold src__OrderSpec_insertion_id.
  first [exact I | idtac].
  all: dep gen__OrderSpec__order_dict src__OrderSpec__order_dict.
  all: gen_open; msimpl.
  all: rewrite (H D tr o) by assumption; msimpl; rewrite pj_getitem_dict, bind_ret; reflexivity.
Qed.

Lemma gen__OrderSpec_measure_keyname :
  match src__OrderSpec_measure_keyname with
  | Some f => forall D tr o, order_of tr = Some o ->
      f (mkPyOrderSpec D (JDict tr)) = of_option KeyError (jd_get o (JStr "measure"))
  | None => True end.
Proof.
  unfold src__OrderSpec_measure_keyname.
  first [exact I | idtac].
  all: dep gen__OrderSpec__order_dict src__OrderSpec__order_dict.
  all: gen_open; msimpl.
  all: rewrite (H D tr o) by assumption; msimpl; rewrite pj_getitem_dict, bind_ret; reflexivity.
Qed.

Lemma gen__OrderSpec_marginal_keyname :
  match src__OrderSpec_marginal_keyname with
  | Some f => forall D tr o, order_of tr = Some o ->
      f (mkPyOrderSpec D (JDict tr)) = of_option KeyError (jd_get o (JStr "marginal"))
  | None => True end.
Proof.
  unfold src__OrderSpec_marginal_keyname.
  first [exact I | idtac].
  all: dep gen__OrderSpec__order_dict src__OrderSpec__order_dict.
  all: gen_open; msimpl.
  all: rewrite (H D tr o) by assumption; msimpl; rewrite pj_getitem_dict, bind_ret; reflexivity.
Qed.

(* the enum tables of enums.py against the lists of Model/SortKeys.v *)
Lemma enum_call_values tbl values v :
  map snd tbl = values -> pj_enum_call tbl v = enum_of values v.
Proof.
  intros <-. unfold pj_enum_call, enum_of, SortKeys.smem. destruct v; try reflexivity.
  assert (E : existsb (fun mv : string * string => String.eqb (snd mv) s) tbl
              = existsb (String.eqb s) (map snd tbl)).
  { induction tbl as [|x t IH]; simpl; [reflexivity|]. rewrite IH, String.eqb_sym. reflexivity. }
  rewrite E. reflexivity.
Qed.

Lemma gen__OrderSpec_measure :
  match src__OrderSpec_measure with
  | Some f => forall D tr o, order_of tr = Some o ->
      f (mkPyOrderSpec D (JDict tr))
      = bind (of_option KeyError (jd_get o (JStr "measure"))) (enum_of SortKeys.measure_enum)
  | None => True end.
Proof.
  unfold src__OrderSpec_measure.
  first [exact I | idtac].
  all: dep gen__OrderSpec_measure_keyname src__OrderSpec_measure_keyname.
  all: destruct src_ENUM_MEASURE as [tbl|] eqn:Et; [|exact I].
  all: gen_open; msimpl.
  all: rewrite (H D tr o) by assumption.
  all: apply bind_ext; intros v; rewrite bind_ret; apply enum_call_values.
  all: unfold src_ENUM_MEASURE in Et; inversion Et; reflexivity.
Qed.

Lemma gen__OrderSpec_marginal :
  match src__OrderSpec_marginal with
  | Some f => forall D tr o, order_of tr = Some o ->
      f (mkPyOrderSpec D (JDict tr))
      = bind (of_option KeyError (jd_get o (JStr "marginal"))) (enum_of SortKeys.marginal_enum)
  | None => True end.
Proof.
  unfold src__OrderSpec_marginal.
  first [exact I | idtac].
  all: dep gen__OrderSpec_marginal_keyname src__OrderSpec_marginal_keyname.
  all: destruct src_ENUM_MARGINAL as [tbl|] eqn:Et; [|exact I].
  all: gen_open; msimpl.
  all: rewrite (H D tr o) by assumption.
  all: apply bind_ext; intros v; rewrite bind_ret; apply enum_call_values.
  all: unfold src_ENUM_MARGINAL in Et; inversion Et; reflexivity.
Qed.

(* the collation method: the "type" keyword when it is a COLLATION_METHOD value, else payload order *)
Lemma gen__OrderSpec_collation_method :
  match src__OrderSpec_collation_method with
  | Some f => forall D tr o, order_of tr = Some o ->
      jv_hashable (jd_get_default o (JStr "type") JNone) = true ->
      f (mkPyOrderSpec D (JDict tr)) = Ok (collation_of (jd_get_default o (JStr "type") JNone))
  | None => True end.
Proof.
  unfold src__OrderSpec_collation_method.
  first [exact I | idtac].
  all: dep gen__OrderSpec__order_dict src__OrderSpec__order_dict.
  all: destruct src_ENUM_COLLATION_METHOD as [tbl|] eqn:Et; [|exact I].
  all: gen_open; msimpl.
  all: rewrite (H D tr o) by assumption; msimpl; rewrite pj_get_dict; msimpl.
  all: unfold src_ENUM_COLLATION_METHOD in Et; inversion Et; subst tbl.
  all: match goal with Hh : jv_hashable ?v = true |- _ => destruct v as [| | |s| | |]; try discriminate end.
  all: try reflexivity.
  all: unfold pj_enum_has, pj_enum_call, collation_of, cm_values; cbn [jv_is_none jv_hashable existsb snd]; msimpl.
  all: destruct (String.eqb "explicit" s), (String.eqb "label" s), (String.eqb "marginal" s),
         (String.eqb "opposing_element" s), (String.eqb "opposing_insertion" s),
         (String.eqb "payload_order" s), (String.eqb "univariate_measure" s); reflexivity.
Qed.
