(* Proofs/GenAgreeSubTac.v -- the third GenAgree tie (DESIGN 2.4 (a), subtotal strategies):
   standard environments, the general lemmas about block assembly and the tactics.  The lemmas
   about the translated members are in Proofs/GenAgreeSubtotals.v.

   Gen/SubtotalsSrc.v and Gen/StripeInsertionSrc.v are REWRITTEN FROM THE SOURCE on every check by
   harness/translate/subtotals.py: one [option sexp] per (class, member) of matrix/subtotals.py /
   stripe/insertion.py.  Statement shape, for ALL arrays, sizes, flags, subtotal lists whose
   offsets are in range:

       match src_<Class>_<member> with
       | Some e => forall base nr nc .. , <offsets in range> ->
                     sagrees_vec / _mat / _scal (seval (senv_mat ..) e) <sizes>
                                                (<the definition of Model/Subtotals.v, Proportions.v, Variance.v>)
       | None => True                      (translator could not read it: correspondence only)
       end *)
From Coq Require Import QArith ZArith List Bool Lia Arith String.
From CC Require Import Base.XQ Base.ListX Base.SubtotalExp
     Model.Subtotals Model.Proportions Model.Variance.
Import ListNotations.
Local Close Scope Q_scope.
Local Open Scope string_scope.
Local Open Scope nat_scope.

(* ------------------------------------------------------------------------------------ *)
(** * subtotals of the model as index-list pairs; offsets in range *)

Definition sub_pair (s : subtotal) : sub_t := (s_add s, s_sub s).

Definition sub_in (n : nat) (s : subtotal) : Prop :=
  Forall (fun i => i < n) (s_add s) /\ Forall (fun i => i < n) (s_sub s).
Definition subs_in (n : nat) (subs : list subtotal) : Prop := Forall (sub_in n) subs.

Lemma inrange_ok n l : Forall (fun i => i < n) l -> inrange n l = true.
Proof.
  intros H. unfold inrange. apply forallb_forall. intros x Hx.
  rewrite Forall_forall in H. apply Nat.ltb_lt. apply H. exact Hx.
Qed.

Lemma subs_in_nth n subs k : subs_in n subs -> k < List.length subs -> sub_in n (nth k subs nosub).
Proof. intros H Hk. unfold subs_in in H. rewrite Forall_forall in H. apply H. apply nth_In. exact Hk. Qed.

Lemma has_subs_ltb s : has_subs s = (0 <? List.length (s_sub s)).
Proof. unfold has_subs. destruct (s_sub s); reflexivity. Qed.

Lemma nonnil_ltb (l : list nat) :
  negb (match l with [] => true | _ :: _ => false end) = (0 <? List.length l).
Proof. destruct l; reflexivity. Qed.

(* ------------------------------------------------------------------------------------ *)
(** * standard environments *)

Definition mat_val (nr nc : nat) (m : list (list xq)) : sval := SVM (ARange nr) (ARange nc) (mnth m).
Definition vec_val (n : nat) (v : list xq) : sval := SVV (ARange n) (vnth v).

Definition by_dir {A} (r c : A) (d : sdir) : A := match d with Rows => r | Cols => c end.

(* matrix/subtotals.py: `base_values` and `counts` are nr x nc, `default_insertions` whatever
   the lemma says; `dimensions` = (rows dimension, columns dimension) *)
Definition marr (base counts : list (list xq)) (nr nc : nat) (dflts : sval) (a : string) : sval :=
  if String.eqb a "base_values" then mat_val nr nc base
  else if String.eqb a "counts" then mat_val nr nc counts
  else if String.eqb a "default_insertions" then dflts
  else SVErr.
Definition mflag (dcn drn : bool) (p : string) : bool :=
  if String.eqb p "diff_cols_nan" then dcn
  else if String.eqb p "diff_rows_nan" then drn
  else false.

Definition senv_mat (base counts : list (list xq)) (nr nc : nat) (dflts : sval) (dcn drn : bool)
           (rsubs csubs : list subtotal) (rd cd : bool) (a0 a1 : subtotal) (dflt : sval) : senv :=
  mkSenv (marr base counts nr nc dflts) (mflag dcn drn)
         (by_dir (map sub_pair rsubs) (map sub_pair csubs)) (by_dir rd cd)
         (fun k => match k with 0 => sub_pair a0 | _ => sub_pair a1 end)
         (fun _ => nil_sub) dflt.

(* stripe/insertion.py: `base_values`, `counts` have n elements, `default_values` whatever the
   lemma says; `rows_dimension` is the only dimension *)
Definition varr (base counts : list xq) (n : nat) (dflts : sval) (a : string) : sval :=
  if String.eqb a "base_values" then vec_val n base
  else if String.eqb a "counts" then vec_val n counts
  else if String.eqb a "default_values" then dflts
  else SVErr.

Definition senv_vec (base counts : list xq) (n : nat) (dflts : sval) (subs : list subtotal)
           (rd : bool) (a0 : subtotal) (dflt : sval) : senv :=
  mkSenv (varr base counts n dflts) (fun _ => false)
         (by_dir (map sub_pair subs) []) (by_dir rd false)
         (fun _ => sub_pair a0) (fun _ => nil_sub) dflt.

(* the environments the statements use *)
(* SumSubtotals / PositiveTermSubtotals / NegativeTermSubtotals / NanSubtotals (matrix):
   rs = `subtotal` / `row_subtotal`, cs = `column_subtotal` *)
Definition senv_sum (base : list (list xq)) (nr nc : nat) (dcn drn : bool)
           (rsubs csubs : list subtotal) (rs cs : subtotal) : senv :=
  senv_mat base [] nr nc SVErr dcn drn rsubs csubs false false rs cs SVErr.
(* WaveDiffSubtotal: base_values = the bases, counts; s = `subtotal`, dflt = `default` *)
Definition senv_wave (bases counts : list (list xq)) (nr nc : nat) (dflts : sval)
           (rsubs csubs : list subtotal) (rd cd : bool) (s : subtotal) (dflt : sval) : senv :=
  senv_mat bases counts nr nc dflts false false rsubs csubs rd cd s s dflt.
(* stripe SumSubtotals / PositiveTermSubtotals / NegativeTermSubtotals / NanSubtotals *)
Definition senv_ssum (base : list xq) (n : nat) (subs : list subtotal) (s : subtotal) : senv :=
  senv_vec base [] n SVErr subs false s SVErr.
(* stripe WaveDiffSubtotals *)
Definition senv_swave (bases counts : list xq) (n : nat) (dflts : sval) (subs : list subtotal)
           (rd : bool) (s : subtotal) (dflt : sval) : senv :=
  senv_vec bases counts n dflts subs rd s dflt.

(* ------------------------------------------------------------------------------------ *)
(** * general lemmas: the assembly of blocks *)

Lemma sagrees_mat_ext v r c g g' :
  sagrees_mat v r c g -> (forall i j, i < r -> j < c -> g i j = g' i j) -> sagrees_mat v r c g'.
Proof.
  destruct v; simpl; try tauto. intros [Hr [Hc H]] He.
  split; [exact Hr|split; [exact Hc|]]. intros i j Hi Hj. rewrite H by assumption. apply He; assumption.
Qed.

Lemma sagrees_vec_ext v n g g' :
  sagrees_vec v n g -> (forall i, i < n -> g i = g' i) -> sagrees_vec v n g'.
Proof.
  destruct v; simpl; try tauto. intros [Hn H] He.
  split; [exact Hn|]. intros i Hi. rewrite H by assumption. apply He; assumption.
Qed.

Lemma sagrees_vec_is_vec v n g : sagrees_vec v n g -> is_vec_len n v = true.
Proof. destruct v; simpl; try tauto. intros [H _]. apply Nat.eqb_eq. exact H. Qed.

Lemma sagrees_vec_at v n g i : sagrees_vec v n g -> i < n -> vec_at v i = g i.
Proof. destruct v; simpl; try tauto. intros [_ H] Hi. apply H. exact Hi. Qed.

Lemma forallb_nth {A} (p : A -> bool) (l : list A) (d : A) :
  (forall k, k < List.length l -> p (nth k l d) = true) -> forallb p l = true.
Proof.
  intros H. apply forallb_forall. intros x Hx.
  destruct (In_nth l x d Hx) as [k [Hk <-]]. apply H. exact Hk.
Qed.

Lemma hstack_vals_agrees n vals g :
  vals <> [] ->
  (forall k, k < List.length vals -> sagrees_vec (nth k vals SVErr) n (g k)) ->
  sagrees_mat (hstack_vals n vals) n (List.length vals) (fun i k => g k i).
Proof.
  intros Hne H. unfold hstack_vals.
  assert (Hf : forallb (is_vec_len n) vals = true).
  { apply (forallb_nth _ _ SVErr). intros k Hk. apply (sagrees_vec_is_vec _ _ (g k)). apply H. exact Hk. }
  destruct vals as [|v0 t]; [congruence|]. rewrite Hf. simpl sagrees_mat.
  split; [reflexivity|split; [reflexivity|]]. intros i k Hi Hk.
  apply (sagrees_vec_at _ n (g k)); [apply H; exact Hk|exact Hi].
Qed.

Lemma vstack_vals_agrees m vals g :
  vals <> [] ->
  (forall k, k < List.length vals -> sagrees_vec (nth k vals SVErr) m (g k)) ->
  sagrees_mat (vstack_vals vals) (List.length vals) m g.
Proof.
  intros Hne H. unfold vstack_vals.
  assert (Hf : forallb (is_vec_len m) vals = true).
  { apply (forallb_nth _ _ SVErr). intros k Hk. apply (sagrees_vec_is_vec _ _ (g k)). apply H. exact Hk. }
  destruct vals as [|v0 t]; [congruence|].
  assert (H0 : sagrees_vec v0 m (g 0)) by (apply (H 0); simpl; lia).
  destruct v0 as [| |a f|]; simpl in H0; try tauto. destruct H0 as [Ha _].
  rewrite Ha, Hf. simpl sagrees_mat.
  split; [reflexivity|split; [reflexivity|]]. intros k j Hk Hj.
  apply (sagrees_vec_at _ m (g k)); [apply H; exact Hk|exact Hj].
Qed.

Lemma vecof_vals_scalars vals :
  forallb is_scal vals = true ->
  vecof_vals vals = SVV (ARange (List.length vals)) (fun k => scal_of (nth k vals SVErr)).
Proof.
  intros Hf. unfold vecof_vals. destruct vals as [|v0 t]; [reflexivity|].
  destruct v0; try (simpl in Hf; discriminate). rewrite Hf. reflexivity.
Qed.

Lemma vecof_vals_agrees vals g :
  (forall k, k < List.length vals -> sagrees_scal (nth k vals SVErr) (g k)) ->
  sagrees_vec (vecof_vals vals) (List.length vals) g.
Proof.
  intros H.
  assert (Hf : forallb is_scal vals = true).
  { apply (forallb_nth _ _ SVErr). intros k Hk. specialize (H k Hk).
    destruct (nth k vals SVErr); simpl in H; try tauto; try reflexivity. }
  rewrite (vecof_vals_scalars _ Hf). simpl. split; [reflexivity|]. intros k Hk. specialize (H k Hk).
  destruct (nth k vals SVErr); simpl in H; try tauto; try exact H.
Qed.

(* np.array of a non-empty list of vectors of one length: the 2-D array of these rows *)
Lemma vecof_vals_rows_agrees m vals g :
  vals <> [] ->
  (forall k, k < List.length vals -> sagrees_vec (nth k vals SVErr) m (g k)) ->
  sagrees_mat (vecof_vals vals) (List.length vals) m g.
Proof.
  intros Hne H.
  assert (Hv : vecof_vals vals = vstack_vals vals).
  { destruct vals as [|v0 t]; [congruence|]. specialize (H 0). simpl in H.
    destruct v0; try (exfalso; apply H; lia). reflexivity. }
  rewrite Hv. apply vstack_vals_agrees; assumption.
Qed.

Lemma concat_uniform_length {A} (rows : list (list A)) C :
  (forall k, k < List.length rows -> List.length (nth k rows []) = C) ->
  List.length (List.concat rows) = List.length rows * C.
Proof.
  induction rows as [|r t IH]; intros H; simpl; [reflexivity|].
  rewrite app_length. assert (Hr : List.length r = C) by (apply (H 0); simpl; lia).
  rewrite Hr. f_equal.
  apply IH. intros k Hk. apply (H (S k)). simpl. lia.
Qed.

Lemma concat_uniform_nth {A} (rows : list (list A)) C d k l :
  (forall k, k < List.length rows -> List.length (nth k rows []) = C) ->
  k < List.length rows -> l < C ->
  nth (k * C + l) (List.concat rows) d = nth l (nth k rows []) d.
Proof.
  revert k. induction rows as [|r t IH]; intros k H Hk Hl; simpl in Hk; [lia|].
  assert (Hr : List.length r = C) by (apply (H 0); simpl; lia).
  simpl List.concat. destruct k as [|k].
  - simpl. rewrite app_nth1 by lia. reflexivity.
  - rewrite app_nth2 by (simpl; lia). rewrite Hr.
    replace (S k * C + l - C) with (k * C + l) by (simpl; lia).
    simpl nth. apply IH; [|lia|exact Hl]. intros k' Hk'. apply (H (S k')). simpl. lia.
Qed.

Lemma grid_vals_agrees R C (rows : list (list sval)) g :
  List.length rows = R ->
  (forall k, k < R -> List.length (nth k rows []) = C) ->
  (forall k l, k < R -> l < C -> sagrees_scal (nth l (nth k rows []) SVErr) (g k l)) ->
  sagrees_mat (grid_vals R C (List.concat rows)) R C g.
Proof.
  intros HR HC H. subst R. unfold grid_vals.
  assert (Hlen : List.length (List.concat rows) = List.length rows * C)
    by (apply concat_uniform_length; exact HC).
  assert (Hf : forallb is_scal (List.concat rows) = true).
  { apply forallb_forall. intros x Hx. apply in_concat in Hx. destruct Hx as [r [Hr Hx]].
    destruct (In_nth rows r [] Hr) as [k [Hk <-]].
    destruct (In_nth _ x SVErr Hx) as [l [Hl <-]]. rewrite (HC k Hk) in Hl.
    specialize (H k l Hk Hl). destruct (nth l (nth k rows []) SVErr); simpl in H; try tauto; try reflexivity. }
  rewrite Hf, Hlen, Nat.eqb_refl. simpl.
  split; [reflexivity|split; [reflexivity|]]. intros k l Hk Hl.
  rewrite (concat_uniform_nth rows C SVErr k l HC Hk Hl).
  specialize (H k l Hk Hl). destruct (nth l (nth k rows []) SVErr); simpl in H; try tauto; try exact H.
Qed.

(* ---- the same at the level of terms ---------------------------------------------------- *)

(* the values zipped with the subtotals: none (`default` keeps its outer value), or the n
   elements of e *)
Definition zip_ok (E : senv) (z : option sexp) (n : nat) (rs : nat -> sval) : Prop :=
  match z with
  | None => forall k, rs k = v_dflt E
  | Some ze => exists l, rows_of (seval E ze) = Some l /\ List.length l = n /\
                         forall k, k < n -> nth k l SVErr = rs k
  end.

Lemma nth_map_pair subs k : nth k (map sub_pair subs) nil_sub = sub_pair (nth k subs nosub).
Proof. change nil_sub with (sub_pair nosub). apply map_nth. Qed.

Lemma iter_items_ok E d z subs rs :
  v_subs E d = map sub_pair subs -> zip_ok E z (List.length subs) rs ->
  exists items,
    iter_items E d (match z with Some ze => Some (seval E ze) | None => None end) = Some items /\
    List.length items = List.length subs /\
    forall k, k < List.length subs ->
              nth k items (nil_sub, SVErr) = (sub_pair (nth k subs nosub), rs k).
Proof.
  intros Hs Hz. unfold iter_items. rewrite Hs. destruct z as [ze|]; simpl in Hz.
  - destruct Hz as [l [Hl [Hn Hk]]]. rewrite Hl, Hn, map_length, Nat.eqb_refl.
    eexists. split; [reflexivity|]. split.
    + rewrite combine_length, map_length, Hn. apply Nat.min_id.
    + intros k Hlt. rewrite combine_nth by (rewrite map_length; symmetry; exact Hn).
      rewrite nth_map_pair, (Hk k Hlt). reflexivity.
  - eexists. split; [reflexivity|]. split; [rewrite !map_length; reflexivity|].
    intros k Hlt.
    rewrite (nth_indep _ (nil_sub, SVErr) ((fun s => (s, v_dflt E)) nil_sub))
      by (rewrite !map_length; exact Hlt).
    rewrite (map_nth (fun s => (s, v_dflt E))). rewrite nth_map_pair, Hz. reflexivity.
Qed.

Lemma nth_map_items {B} (ev : (sub_t * sval) -> B) (db : B) items k :
  k < List.length items -> nth k (map ev items) db = ev (nth k items (nil_sub, SVErr)).
Proof.
  intros Hk. rewrite (nth_indep _ db (ev (nil_sub, SVErr))) by (rewrite map_length; exact Hk).
  apply map_nth.
Qed.

Lemma seval_hstack E d n z body nn subs rs g :
  dim_of E n = Some nn -> v_subs E d = map sub_pair subs -> subs <> [] ->
  zip_ok E z (List.length subs) rs ->
  (forall k, k < List.length subs ->
     sagrees_vec (seval (with_iter E d (sub_pair (nth k subs nosub), rs k)) body) nn (g k)) ->
  sagrees_mat (seval E (SHstack d n z body)) nn (List.length subs) (fun i k => g k i).
Proof.
  intros Hn Hs Hne Hz H. destruct (iter_items_ok E d z subs rs Hs Hz) as [items [Hi [Hl Hk]]].
  simpl seval. rewrite Hn, Hi.
  rewrite <- Hl, <- (map_length (fun it => seval (with_iter E d it) body) items).
  apply hstack_vals_agrees.
  - destruct items; [destruct subs; [congruence|discriminate]|discriminate].
  - intros k Hlt. rewrite map_length in Hlt. rewrite nth_map_items by exact Hlt.
    rewrite Hl in Hlt. rewrite (Hk k Hlt). apply H. exact Hlt.
Qed.

Lemma seval_vstack E d z body m subs rs g :
  v_subs E d = map sub_pair subs -> subs <> [] ->
  zip_ok E z (List.length subs) rs ->
  (forall k, k < List.length subs ->
     sagrees_vec (seval (with_iter E d (sub_pair (nth k subs nosub), rs k)) body) m (g k)) ->
  sagrees_mat (seval E (SVstack d z body)) (List.length subs) m g.
Proof.
  intros Hs Hne Hz H. destruct (iter_items_ok E d z subs rs Hs Hz) as [items [Hi [Hl Hk]]].
  simpl seval. rewrite Hi.
  rewrite <- Hl, <- (map_length (fun it => seval (with_iter E d it) body) items).
  apply vstack_vals_agrees.
  - destruct items; [destruct subs; [congruence|discriminate]|discriminate].
  - intros k Hlt. rewrite map_length in Hlt. rewrite nth_map_items by exact Hlt.
    rewrite Hl in Hlt. rewrite (Hk k Hlt). apply H. exact Hlt.
Qed.

Lemma seval_vecof E d z body subs rs g :
  v_subs E d = map sub_pair subs ->
  zip_ok E z (List.length subs) rs ->
  (forall k, k < List.length subs ->
     sagrees_scal (seval (with_iter E d (sub_pair (nth k subs nosub), rs k)) body) (g k)) ->
  sagrees_vec (seval E (SVecOf d z body)) (List.length subs) g.
Proof.
  intros Hs Hz H. destruct (iter_items_ok E d z subs rs Hs Hz) as [items [Hi [Hl Hk]]].
  simpl seval. rewrite Hi.
  rewrite <- Hl, <- (map_length (fun it => seval (with_iter E d it) body) items).
  apply vecof_vals_agrees.
  intros k Hlt. rewrite map_length in Hlt. rewrite nth_map_items by exact Hlt.
  rewrite Hl in Hlt. rewrite (Hk k Hlt). apply H. exact Hlt.
Qed.

Lemma seval_vecof_rows E d z body m subs rs g :
  v_subs E d = map sub_pair subs -> subs <> [] ->
  zip_ok E z (List.length subs) rs ->
  (forall k, k < List.length subs ->
     sagrees_vec (seval (with_iter E d (sub_pair (nth k subs nosub), rs k)) body) m (g k)) ->
  sagrees_mat (seval E (SVecOf d z body)) (List.length subs) m g.
Proof.
  intros Hs Hne Hz H. destruct (iter_items_ok E d z subs rs Hs Hz) as [items [Hi [Hl Hk]]].
  simpl seval. rewrite Hi.
  rewrite <- Hl, <- (map_length (fun it => seval (with_iter E d it) body) items).
  apply vecof_vals_rows_agrees.
  - destruct items; [destruct subs; [congruence|discriminate]|discriminate].
  - intros k Hlt. rewrite map_length in Hlt. rewrite nth_map_items by exact Hlt.
    rewrite Hl in Hlt. rewrite (Hk k Hlt). apply H. exact Hlt.
Qed.

Lemma nth_map_lt {A B} (f : A -> B) (l : list A) (da : A) (db : B) k :
  k < List.length l -> nth k (map f l) db = f (nth k l da).
Proof.
  intros Hk. rewrite (nth_indep _ db (f da)) by (rewrite map_length; exact Hk). apply map_nth.
Qed.

Lemma seval_grid E d1 d2 body r c R C subs1 subs2 g :
  dim_of E r = Some R -> dim_of E c = Some C ->
  R = List.length subs1 -> C = List.length subs2 ->
  v_subs E d1 = map sub_pair subs1 -> v_subs E d2 = map sub_pair subs2 ->
  (forall k l, k < List.length subs1 -> l < List.length subs2 ->
     sagrees_scal (seval (with_iter (with_iter E d1 (sub_pair (nth k subs1 nosub), v_dflt E)) d2
                                    (sub_pair (nth l subs2 nosub), v_dflt E)) body) (g k l)) ->
  sagrees_mat (seval E (SGrid d1 d2 body r c)) (List.length subs1) (List.length subs2) g.
Proof.
  intros Hr Hc -> -> H1 H2 H. simpl seval. rewrite Hr, Hc, H1, H2.
  apply grid_vals_agrees.
  - rewrite !map_length. reflexivity.
  - intros k Hk. rewrite (nth_map_lt _ _ nil_sub) by (rewrite map_length; exact Hk).
    rewrite !map_length. reflexivity.
  - intros k l Hk Hl.
    rewrite (nth_map_lt _ _ nil_sub) by (rewrite map_length; exact Hk).
    rewrite (nth_map_lt _ _ nil_sub) by (rewrite map_length; exact Hl).
    rewrite !nth_map_pair. apply H; assumption.
Qed.

(* `if len(subtotals) == 0: return a` ... `return b` *)
Lemma keval_nosubs E d subs :
  v_subs E d = map sub_pair subs ->
  keval E (KNoSubs d) = match subs with [] => true | _ :: _ => false end.
Proof. intros H. simpl. rewrite H. destruct subs; reflexivity. Qed.

Lemma sagrees_mat_if_nosubs E d a b subs r c g :
  v_subs E d = map sub_pair subs ->
  (subs = [] -> sagrees_mat (seval E a) r c g) ->
  (subs <> [] -> sagrees_mat (seval E b) r c g) ->
  sagrees_mat (seval E (SIf (KNoSubs d) a b)) r c g.
Proof.
  intros Hs Ha Hb. change (seval E (SIf (KNoSubs d) a b))
    with (if keval E (KNoSubs d) then seval E a else seval E b).
  rewrite (keval_nosubs E d subs Hs). destruct subs; [apply Ha; reflexivity|apply Hb; discriminate].
Qed.

Lemma sagrees_vec_if_nosubs E d a b subs n g :
  v_subs E d = map sub_pair subs ->
  (subs = [] -> sagrees_vec (seval E a) n g) ->
  (subs <> [] -> sagrees_vec (seval E b) n g) ->
  sagrees_vec (seval E (SIf (KNoSubs d) a b)) n g.
Proof.
  intros Hs Ha Hb. change (seval E (SIf (KNoSubs d) a b))
    with (if keval E (KNoSubs d) then seval E a else seval E b).
  rewrite (keval_nosubs E d subs Hs). destruct subs; [apply Ha; reflexivity|apply Hb; discriminate].
Qed.

(* `if <the dimension is not a categorical date>: return a` ... `return b` *)
Lemma sagrees_vec_if_notdate E d a b n g :
  (v_date E d = false -> sagrees_vec (seval E a) n g) ->
  (v_date E d = true -> sagrees_vec (seval E b) n g) ->
  sagrees_vec (seval E (SIf (KNot (KDate d)) a b)) n g.
Proof.
  intros Ha Hb. change (seval E (SIf (KNot (KDate d)) a b))
    with (if negb (v_date E d) then seval E a else seval E b).
  destruct (v_date E d); simpl; [apply Hb|apply Ha]; reflexivity.
Qed.

(* ------------------------------------------------------------------------------------ *)
(** * tactics *)

Ltac sub_unfold_srcs :=
  repeat match goal with
         | |- context [match ?s with Some _ => _ | None => _ end] => is_const s; unfold s
         end.

(* evaluate [seval] symbolically: only the evaluator's own constants, the environments and the
   string comparisons of the environments are unfolded *)
Ltac sub_eval :=
  cbv [seval keval sbin idx_of ref_of dim_of with_iter sdir_eqb
       ax_len ax_take ax_list ax_nth rows_of
       v_arr v_flag v_subs v_date v_arg v_loop v_dflt
       senv_mat senv_vec senv_sum senv_wave senv_ssum senv_swave
       marr varr mflag by_dir mat_val vec_val sub_pair nil_sub fst snd zip_ok
       sagrees_scal sagrees_vec sagrees_mat
       String.eqb Ascii.eqb Bool.eqb].

(* turn the hypotheses [sub_in n s] into rewriting facts  inrange n (s_add s) = true  *)
Ltac sub_ranges :=
  repeat match goal with
         | H : sub_in _ _ |- _ =>
             let Ha := fresh "Hra" in let Hb := fresh "Hrb" in
             destruct H as [Ha Hb]; apply inrange_ok in Ha; apply inrange_ok in Hb
         end.

Ltac sub_rewrite_ranges :=
  repeat match goal with
         | H : inrange _ _ = true |- _ => rewrite H
         end.

(* the comparisons  k <? length l  become boolean variables; all booleans are case-split *)
Ltac sub_atoms :=
  repeat match goal with
         | |- context [?k <? List.length ?l] =>
             let b := fresh "b" in generalize (k <? List.length l); intro b
         end;
  repeat match goal with
         | b : bool |- _ => match goal with |- context [b] => destruct b end
         end.

Ltac sub_step :=
  cbv beta iota delta [andb orb negb];
  try sub_rewrite_ranges; rewrite ?Nat.eqb_refl.

Ltac sub_finish :=
  lazymatch goal with
  | |- _ /\ _ /\ _ => split; [reflexivity|split; [reflexivity|intros; reflexivity]]
  | |- _ /\ _ => split; [reflexivity|intros; reflexivity]
  | |- _ = _ => reflexivity
  end.

(* an element-level goal  sagrees_* (seval E e) .. (<model>) ; [unf] unfolds the model *)
Ltac sub_elem_with unf :=
  sub_ranges; unf; rewrite ?has_subs_ltb, ?nonnil_ltb;
  sub_eval; sub_atoms;
  repeat (progress sub_step);
  sub_finish.

Ltac gen_sub_with unf :=
  sub_unfold_srcs;
  lazymatch goal with
  | |- True => exact I
  | _ => intros; sub_elem_with unf
  end.

(* ---- assembled members ------------------------------------------------------------------ *)

Ltac sub_open := sub_unfold_srcs; try exact I; intros.

(* subs_in n subs, k < length subs  ==>  sub_in n (nth k subs nosub) *)
Ltac sub_index_hyps :=
  repeat match goal with
         | H : subs_in ?n ?subs, Hk : ?k < List.length ?subs |- _ =>
             pose proof (subs_in_nth n subs k H Hk); clear H
         end;
  repeat match goal with H : subs_in _ _ |- _ => clear H end.

(* the empty-shape cases: no cell to compare *)
Ltac sub_empty :=
  sub_eval;
  lazymatch goal with
  | |- _ /\ _ /\ _ => split; [reflexivity|split; [reflexivity|intros; exfalso; simpl in *; lia]]
  | |- _ /\ _ => split; [reflexivity|intros; exfalso; simpl in *; lia]
  end.

Ltac sub_zip :=
  first [ intro; reflexivity
        | sub_eval; eexists; split; [reflexivity|split;
            [rewrite map_length, seq_length; reflexivity
            |let Hz := fresh "Hz" in intros ? Hz; apply (tab_nth _ _ SVErr _ Hz)]] ].

(* np.hstack of the columns: g k = the model's column k;  unfb exposes the model block's tab2 *)
Ltac sub_cols g unfb unfe :=
  apply (sagrees_mat_ext _ _ _ (fun i k => g k i));
  [ eapply sagrees_mat_if_nosubs;
    [ reflexivity
    | intros ->; sub_empty
    | let Hne := fresh "Hne" in intros Hne;
      eapply seval_hstack;
      [ reflexivity | reflexivity | exact Hne | sub_zip
      | let k := fresh "k" in let Hk := fresh "Hk" in
        intros k Hk; sub_index_hyps; sub_elem_with unfe ] ]
  | intros; unfb; rewrite ?tab2_mnth by assumption; reflexivity ].

(* np.vstack of the rows *)
Ltac sub_rows g unfb unfe :=
  apply (sagrees_mat_ext _ _ _ g);
  [ eapply sagrees_mat_if_nosubs;
    [ reflexivity
    | intros ->; sub_empty
    | let Hne := fresh "Hne" in intros Hne;
      eapply seval_vstack;
      [ reflexivity | exact Hne | sub_zip
      | let k := fresh "k" in let Hk := fresh "Hk" in
        intros k Hk; sub_index_hyps; sub_elem_with unfe ] ]
  | intros; unfb; rewrite ?tab2_mnth by assumption; reflexivity ].

(* the reshaped grid of intersections *)
Ltac sub_grid g unfb unfe :=
  apply (sagrees_mat_ext _ _ _ g);
  [ eapply seval_grid;
    [ reflexivity | reflexivity | apply map_length | apply map_length | reflexivity | reflexivity
    | let k := fresh "k" in let l := fresh "l" in let Hk := fresh "Hk" in let Hl := fresh "Hl" in
      intros k l Hk Hl; sub_index_hyps; sub_elem_with unfe ]
  | intros; unfb; rewrite ?tab2_mnth by assumption; reflexivity ].

(* np.array of the strand's subtotal values *)
Ltac sub_vecof g unfe :=
  apply (sagrees_vec_ext _ _ g);
  [ eapply sagrees_vec_if_nosubs;
    [ reflexivity
    | intros ->; sub_empty
    | intros _;
      eapply seval_vecof;
      [ reflexivity | sub_zip
      | let k := fresh "k" in let Hk := fresh "Hk" in
        intros k Hk; sub_index_hyps; sub_elem_with unfe ] ]
  | intros; reflexivity ].

(* a member whose term is literally the term of a member already proved (e.g. `_blocks`[0][1]
   and `_subtotal_columns`, a classmethod and the member it returns) *)
Ltac sub_reuse lem :=
  let H := fresh "Hre" in
  pose proof lem as H;
  repeat match type of H with
         | context [match ?s with Some _ => _ | None => _ end] => is_const s; unfold s in H
         end;
  eapply H; eassumption.
