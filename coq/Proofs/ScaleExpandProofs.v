(* Medians computed by expansion (np.repeat + np.median): strand scale_median and the slice's
   *_scale_median_margin - property C14. *)
From Coq Require Import QArith ZArith List Bool Lia Arith Lqa Sorted Permutation.
From CC Require Import Base.XQ Base.ListX Spec.Stats Model.Scale Proofs.ScaleMedianProofs.
Import ListNotations.
Local Close Scope Q_scope.
Local Open Scope nat_scope.

(* ---- np.median = middle of the sorted array ------------------------------------------------ *)
Lemma qinsert_perm x l : Permutation (qinsert x l) (x :: l).
Proof.
  induction l as [|y t IH]; simpl; [apply Permutation_refl|].
  destruct (Qle_bool x y); [apply Permutation_refl|].
  rewrite IH. apply perm_swap.
Qed.

Lemma qsort_perm l : Permutation (qsort l) l.
Proof.
  induction l as [|x t IH]; simpl; [constructor|].
  rewrite qinsert_perm. constructor. exact IH.
Qed.

Lemma qinsert_sorted x l : Sorted Qle l -> Sorted Qle (qinsert x l).
Proof.
  intros H. induction H as [|y t Ht IH Hd]; simpl; [repeat constructor|].
  destruct (Qle_bool x y) eqn:E.
  - apply Qle_bool_iff in E. constructor; [constructor; assumption|constructor; exact E].
  - assert (Hyx : (y <= x)%Q).
    { destruct (Qlt_le_dec y x) as [L|L]; [apply Qlt_le_weak; exact L|].
      apply Qle_bool_iff in L. congruence. }
    constructor; [exact IH|].
    destruct t as [|z t']; simpl.
    + constructor. exact Hyx.
    + destruct (Qle_bool x z); constructor; [exact Hyx|].
      inversion Hd; assumption.
Qed.

Lemma qsort_sorted l : Sorted Qle (qsort l).
Proof. induction l as [|x t IH]; simpl; [constructor|]. apply qinsert_sorted. exact IH. Qed.

Theorem np_median_is_median l : l <> [] -> is_median_of l (np_median l).
Proof.
  intros H. split; [exact H|]. exists (qsort l).
  split; [apply qsort_perm|]. split; [apply qsort_sorted|reflexivity].
Qed.

Lemma is_median_perm l l' m : Permutation l l' -> is_median_of l m -> is_median_of l' m.
Proof.
  intros P [Hne [s [P1 [P2 P3]]]]. split.
  - intros E. subst. apply Permutation_sym, Permutation_nil in P. contradiction.
  - exists s. split; [rewrite P1; exact P|split; assumption].
Qed.

(* ---- the expansion of the tally is a rearrangement of the respondents' values --------------- *)
Lemma trunc_cnt n : trunc_count (cnt n) = n.
Proof.
  unfold trunc_count, cnt, nan_to_num, inj. simpl Qnum. simpl Qden.
  rewrite Z.quot_1_r. apply Nat2Z.id.
Qed.

Fixpoint expand_opt (ovals : list (option Q)) (ns : list nat) : list Q :=
  match ovals, ns with
  | Some v :: ot, n :: nt => repeat v n ++ expand_opt ot nt
  | None :: ot, _ :: nt => expand_opt ot nt
  | _, _ => []
  end.

Lemma expand_valued_opt ovals ns :
  expand_valued (map xval ovals) (map cnt ns) = expand_opt ovals ns.
Proof.
  unfold expand_valued, valued_pairs. revert ns.
  induction ovals as [|[v|] ot IH]; intros [|n nt]; simpl; try reflexivity.
  - rewrite trunc_cnt. f_equal. apply IH.
  - apply IH.
Qed.

Lemma expand_opt_incr ovals ns c : c < length ns -> length ovals = length ns ->
  Permutation (expand_opt ovals (incr_at c ns))
              (match nth c ovals None with Some v => [v] | None => [] end ++ expand_opt ovals ns).
Proof.
  revert ns c. induction ovals as [|o ot IH]; intros [|n nt] c Hc Hl; simpl in Hc, Hl; try lia.
  destruct c as [|c].
  - destruct o as [v|]; simpl; apply Permutation_refl.
  - destruct o as [v|]; cbn [incr_at expand_opt nth].
    + rewrite (IH nt c) by lia. apply Permutation_app_swap_app.
    + apply IH; lia.
Qed.

Lemma expand_opt_zero ovals n : expand_opt ovals (repeat 0 n) = [].
Proof. revert n. induction ovals as [|[v|] ot IH]; intros [|n]; simpl; auto. Qed.

Theorem expand_valued_values ovals rs : cats_below_nat (length ovals) rs ->
  Permutation (expand_valued (map xval ovals) (map cnt (tally_nat (length ovals) rs)))
              (values_of ovals rs).
Proof.
  intros H. rewrite expand_valued_opt.
  induction H as [|c t Hc Ht IH].
  - unfold tally_nat. simpl. rewrite expand_opt_zero. constructor.
  - change (tally_nat (length ovals) (c :: t)) with (incr_at c (tally_nat (length ovals) t)).
    rewrite expand_opt_incr by (rewrite tally_nat_length; auto).
    simpl values_of. apply Permutation_app_head. exact IH.
Qed.

(* ---- strand scale_median ------------------------------------------------------------------------ *)
Lemma valued_pairs_nil_opt ovals ns : length ovals = length ns ->
  (valued_pairs (map xval ovals) (map cnt ns) = [] <-> Forall (fun o => o = None) ovals).
Proof.
  unfold valued_pairs. revert ns.
  induction ovals as [|[v|] t IH]; intros [|c ct] Hl; simpl in *; try lia.
  - split; auto.
  - split; [discriminate|]. intros H. inversion H. discriminate.
  - rewrite IH by lia. split; intros H; [constructor; auto|inversion H; auto].
Qed.

(* None <=> no category has a value, or no respondent is counted in a valued category (the two
   tests of the repaired code, 2ba43316, in its order) *)
Theorem strand_median_none_iff ovals rs : cats_below_nat (length ovals) rs ->
  (strand_scale_median (map cnt (tally_nat (length ovals) rs)) (map xval ovals) = None
   <-> (Forall (fun o => o = None) ovals \/ values_of ovals rs = [])).
Proof.
  intros Hc. pose proof (expand_valued_values ovals rs Hc) as P.
  assert (Hl : length ovals = length (tally_nat (length ovals) rs))
    by (rewrite tally_nat_length; reflexivity).
  pose proof (valued_pairs_nil_opt ovals _ Hl) as Hnil.
  unfold strand_scale_median.
  destruct (valued_pairs (map xval ovals) (map cnt (tally_nat (length ovals) rs))) as [|p l] eqn:Ev.
  - split; [intros _|reflexivity]. left. apply Hnil. reflexivity.
  - destruct (expand_valued (map xval ovals) (map cnt (tally_nat (length ovals) rs))) as [|x e] eqn:Ee.
    + split; [intros _|reflexivity]. right. apply Permutation_nil. exact P.
    + split; [discriminate|]. intros [H|H]; exfalso.
      * apply Hnil in H. discriminate.
      * rewrite H in P. apply Permutation_sym, Permutation_nil in P. discriminate.
Qed.

(* the same on any vector of integer counts: None <=> nothing to expand (every valued category,
   if any, is empty) *)
Theorem strand_median_none_iff_counts ovals ns :
  strand_scale_median (map cnt ns) (map xval ovals) = None <-> expand_opt ovals ns = [].
Proof.
  unfold strand_scale_median. rewrite <- (expand_valued_opt ovals ns).
  destruct (valued_pairs (map xval ovals) (map cnt ns)) as [|p l] eqn:Ev.
  - split; [intros _|reflexivity]. unfold expand_valued. rewrite Ev. reflexivity.
  - destruct (expand_valued (map xval ovals) (map cnt ns)); split; try reflexivity; discriminate.
Qed.

Theorem strand_median_eq ovals rs : cats_below_nat (length ovals) rs ->
  values_of ovals rs <> [] ->
  exists m, strand_scale_median (map cnt (tally_nat (length ovals) rs)) (map xval ovals) = Some (Fin m)
            /\ is_median_of (values_of ovals rs) m.
Proof.
  intros Hc Hne. pose proof (expand_valued_values ovals rs Hc) as P.
  unfold strand_scale_median.
  assert (He : expand_valued (map xval ovals) (map cnt (tally_nat (length ovals) rs)) <> []).
  { intros E. rewrite E in P. apply Permutation_nil in P. contradiction. }
  destruct (valued_pairs (map xval ovals) (map cnt (tally_nat (length ovals) rs))) as [|p l] eqn:Ev.
  - exfalso. apply He. unfold expand_valued. rewrite Ev. reflexivity.
  - destruct (expand_valued (map xval ovals) (map cnt (tally_nat (length ovals) rs))) as [|x e] eqn:Ee;
      [contradiction|].
    eexists. split; [reflexivity|].
    apply (is_median_perm _ _ _ P). apply np_median_is_median. discriminate.
Qed.

(* the former witness of finding C14-strand-median-nan-when-empty (categories valued 1, 2 and no
   respondent gave Some NaN before 2ba43316): None like the mean and the deviations *)
Theorem strand_median_former_witness :
  let counts := [Fin 0; Fin 0] in let vals := [Fin 1; Fin 2] in
  any_value vals = true /\
  strand_scale_mean counts vals = None /\
  strand_scale_stddev_sq counts vals = None /\
  strand_scale_stderr_sq counts vals = None /\
  strand_scale_median counts vals = None.
Proof. repeat split. Qed.

(* ---- slice *_scale_median_margin -------------------------------------------------------------- *)
Theorem margin_median_eq ovals rs : cats_below_nat (length ovals) rs ->
  values_of ovals rs <> [] ->
  exists m, scale_median_margin (map cnt (tally_nat (length ovals) rs)) (map xval ovals) = Some (Fin m)
            /\ is_median_of (values_of ovals rs) m.
Proof.
  intros Hc Hne. pose proof (expand_valued_values ovals rs Hc) as P.
  unfold scale_median_margin.
  destruct (expand_valued (map xval ovals) (map cnt (tally_nat (length ovals) rs))) as [|x e] eqn:Ee.
  - apply Permutation_nil in P. contradiction.
  - eexists. split; [reflexivity|].
    apply (is_median_perm _ _ _ P). apply np_median_is_median. discriminate.
Qed.

Theorem margin_median_none ovals rs : cats_below_nat (length ovals) rs ->
  values_of ovals rs = [] ->
  scale_median_margin (map cnt (tally_nat (length ovals) rs)) (map xval ovals) = None.
Proof.
  intros Hc He. pose proof (expand_valued_values ovals rs Hc) as P. rewrite He in P.
  apply Permutation_sym, Permutation_nil in P.
  unfold scale_median_margin. rewrite P. reflexivity.
Qed.
