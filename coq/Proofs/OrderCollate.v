(* C07: sorting the (position, rel, idx) keys of base elements, insertions and derived
   elements yields exactly the readable [anchored_order] of Spec/OrderSpec.v.
   Proof by uniqueness of the sorted permutation (Base/SortX.v): the keyed version of the
   specification list is a permutation of the model's keys and is sorted. *)
From Coq Require Import List Sorting Permutation ZArith String Bool Lia Arith.
From CC Require Import Base.SortX Spec.OrderSpec Model.Collator.
Import ListNotations.
Local Open Scope nat_scope.

(* --- enumerate -------------------------------------------------------------------------- *)
Definition enum_from {A} (s : nat) (l : list A) : list (nat * A) := combine (seq s (List.length l)) l.

Lemma enumerate_enum_from {A} (l : list A) : enumerate l = enum_from 0 l.
Proof. reflexivity. Qed.

Lemma enum_from_cons {A} s (x : A) l : enum_from s (x :: l) = (s, x) :: enum_from (S s) l.
Proof. reflexivity. Qed.

Lemma snd_enum_from {A} s (l : list A) : map snd (enum_from s l) = l.
Proof.
  revert s. induction l as [|x t IH]; intros s; auto.
  rewrite enum_from_cons. simpl. f_equal. apply IH.
Qed.

Lemma fst_enum_from {A} s (l : list A) : map fst (enum_from s l) = seq s (List.length l).
Proof.
  revert s. induction l as [|x t IH]; intros s; auto.
  rewrite enum_from_cons. simpl. f_equal. apply IH.
Qed.

Lemma snd_enumerate {A} (l : list A) : map snd (enumerate l) = l.
Proof. apply snd_enum_from. Qed.

Lemma fst_enumerate {A} (l : list A) : map fst (enumerate l) = seq 0 (List.length l).
Proof. apply fst_enum_from. Qed.

Lemma enumerate_length {A} (l : list A) : List.length (enumerate l) = List.length l.
Proof. rewrite <- (map_length fst), fst_enumerate, seq_length. reflexivity. Qed.

Lemma in_enum_from_bound {A} s (l : list A) p x :
  In (p, x) (enum_from s l) -> s <= p < s + List.length l.
Proof.
  intros H. apply in_combine_l in H. apply in_seq in H. lia.
Qed.

Lemma in_enumerate_bound {A} (l : list A) pe :
  In pe (enumerate l) -> fst pe < List.length l.
Proof. destruct pe as [p x]. intros H. apply in_enum_from_bound in H. simpl. lia. Qed.

Lemma in_enumerate_snd {A} (l : list A) pe : In pe (enumerate l) -> In (snd pe) l.
Proof. intros H. rewrite <- (snd_enumerate l). apply in_map. exact H. Qed.

Lemma enum_from_sorted {A} s (l : list A) :
  StronglySorted (fun x y => fst x < fst y) (enum_from s l).
Proof.
  revert s. induction l as [|x t IH]; intros s; [constructor|].
  rewrite enum_from_cons. constructor; [apply IH|].
  apply Forall_forall. intros [p y] H. apply in_enum_from_bound in H. simpl. lia.
Qed.

Lemma enum_from_nth {A} s (l : list A) p x d :
  In (p, x) (enum_from s l) -> nth (p - s) l d = x.
Proof.
  revert s. induction l as [|y t IH]; intros s H; [destruct H|].
  rewrite enum_from_cons in H. destruct H as [E|H].
  - inversion E; subst. rewrite Nat.sub_diag. reflexivity.
  - assert (B := in_enum_from_bound _ _ _ _ H).
    replace (p - s) with (S (p - S s)) by lia. simpl. apply IH. exact H.
Qed.

Lemma enumerate_nth {A} (l : list A) p x d : In (p, x) (enumerate l) -> nth p l d = x.
Proof. intros H. apply (enum_from_nth 0 l p x d) in H. rewrite Nat.sub_0_r in H. exact H. Qed.

Lemma nth_in_enum_from {A} s (l : list A) k d :
  k < List.length l -> In (s + k, nth k l d) (enum_from s l).
Proof.
  revert s k. induction l as [|y t IH]; intros s k Hk; simpl in Hk; [lia|].
  rewrite enum_from_cons. destruct k as [|k].
  - left. f_equal. lia.
  - right. replace (s + S k) with (S s + k) by lia. apply IH. lia.
Qed.

Lemma nth_in_enumerate {A} (l : list A) k d :
  k < List.length l -> In (k, nth k l d) (enumerate l).
Proof. intros H. apply (nth_in_enum_from 0 l k d H). Qed.

(* --- small list facts ------------------------------------------------------------------- *)
Lemma map_flat_map {A B C} (f : B -> C) (g : A -> list B) l :
  map f (flat_map g l) = flat_map (fun x => map f (g x)) l.
Proof. induction l as [|x t IH]; simpl; auto. rewrite map_app, IH. reflexivity. Qed.

Lemma flat_map_map' {A B C} (g : A -> B) (h : B -> list C) l :
  flat_map h (map g l) = flat_map (fun x => h (g x)) l.
Proof. induction l as [|x t IH]; simpl; auto. rewrite IH. reflexivity. Qed.

Lemma SS_impl_in {A} (R R' : A -> A -> Prop) l :
  (forall x y, In x l -> In y l -> R x y -> R' x y) ->
  StronglySorted R l -> StronglySorted R' l.
Proof.
  intros H S. induction S as [|x t St IH Hx]; constructor.
  - apply IH. intros a b Ha Hb. apply H; simpl; auto.
  - rewrite Forall_forall in *. intros y Hy. apply H; simpl; auto.
Qed.

(* --- the position dictionary ------------------------------------------------------------ *)
Section Lookup.
  Variable i : ident.
  Let step (acc : option nat) (pe : nat * bel) : option nat :=
    if ident_eqb (snd (snd pe)) i then Some (fst pe) else acc.

  Lemma fold_no_match (l : list (nat * bel)) acc :
    (forall pe : nat * bel, In pe l -> snd (snd pe) <> i) -> fold_left step l acc = acc.
  Proof.
    revert acc. induction l as [|x t IH]; intros acc H; simpl; auto.
    rewrite IH by (intros pe Hp; apply H; simpl; auto).
    unfold step; cbv beta. destruct (ident_eqb _ i) eqn:E; auto.
    apply ident_eqb_eq in E. exfalso. apply (H x); simpl; auto.
  Qed.

  Lemma fold_last_match (l1 : list (nat * bel)) (pe : nat * bel) (l2 : list (nat * bel)) acc :
    snd (snd pe) = i -> (forall q : nat * bel, In q l2 -> snd (snd q) <> i) ->
    fold_left step (l1 ++ pe :: l2) acc = Some (fst pe).
  Proof.
    intros E H. rewrite fold_left_app. simpl. rewrite fold_no_match by exact H.
    unfold step; cbv beta. rewrite E, ident_eqb_refl. reflexivity.
  Qed.
End Lookup.

Lemma positions_by_id_in (desc : list bel) (pe : nat * bel) :
  NoDup (map snd desc) -> In pe (enumerate desc) ->
  positions_by_id desc (snd (snd pe)) = Some (fst pe).
Proof.
  intros ND H. unfold positions_by_id.
  destruct (in_split _ _ H) as (l1 & l2 & E). rewrite E.
  apply fold_last_match; auto.
  intros q Hq Eq.
  assert (ND' : NoDup (map (fun x : nat * bel => snd (snd x)) (enumerate desc))).
  { replace (map (fun x : nat * bel => snd (snd x)) (enumerate desc)) with (map snd desc); auto.
    rewrite <- (snd_enumerate desc) at 1. rewrite map_map. reflexivity. }
  rewrite E, map_app in ND'. simpl in ND'. apply NoDup_remove_2 in ND'.
  apply ND'. apply in_or_app. right. rewrite <- Eq.
  apply (in_map (fun x : nat * bel => snd (snd x))). exact Hq.
Qed.

Lemma positions_by_id_none (desc : list bel) i :
  ~ In i (map snd desc) -> positions_by_id desc i = None.
Proof.
  intros H. unfold positions_by_id. apply fold_no_match.
  intros pe Hp E. apply H. rewrite <- E. apply in_map. apply in_enumerate_snd. exact Hp.
Qed.

(* --- the keyed specification list -------------------------------------------------------- *)
Section Collate.
  Variable desc : list bel.
  Variable floats : list flt.
  Hypothesis ND : NoDup (map snd desc).
  Hypothesis Small : (Z.of_nat (List.length desc) < MAXSIZE)%Z.
  Hypothesis FS : StronglySorted (fun a b : flt => (fst a <= fst b)%Z) floats.

  Let ids := map snd desc.
  Let F (p : place) : list flt := filter (at_place ids p) floats.
  Let G (p : place) : list key := map (float_key desc) (F p).
  Let bkey (pe : nat * bel) : key := (Z.of_nat (fst pe), 0%Z, Z.of_nat (fst (snd pe))).
  Let block (pe : nat * bel) : list key :=
    G (PBefore (snd (snd pe))) ++ [bkey pe] ++ G (PAfter (snd (snd pe))).
  Let skeys : list key := G PTop ++ flat_map block (enumerate desc) ++ G PBottom.

  Lemma kidx_float_key f : kidx (float_key desc f) = fst f.
  Proof.
    destruct f as [idx p]. unfold float_key, kidx. simpl.
    destruct p; simpl; auto; destruct (positions_by_id desc i); reflexivity.
  Qed.

  Lemma map_kidx_G p : map kidx (G p) = group ids floats p.
  Proof.
    unfold G, group, F. rewrite map_map. apply map_ext. apply kidx_float_key.
  Qed.

  Lemma skeys_idx : map kidx skeys = anchored_order desc floats.
  Proof.
    unfold skeys, anchored_order. fold ids.
    rewrite !map_app, map_flat_map, !map_kidx_G. f_equal. f_equal.
    rewrite <- (snd_enumerate desc) at 2. rewrite flat_map_map'.
    apply flat_map_ext. intros pe. unfold block.
    rewrite !map_app, !map_kidx_G. reflexivity.
  Qed.

  (* every float is in exactly one group *)
  Let inb (bs : list bel) (f : flt) : bool :=
    existsb (fun e => at_place ids (PBefore (snd e)) f || at_place ids (PAfter (snd e)) f) bs.

  Lemma effective_cases p :
    effective ids p = PTop \/ effective ids p = PBottom \/
    (exists i, In i ids /\ (effective ids p = PBefore i \/ effective ids p = PAfter i)).
  Proof.
    destruct p; simpl; auto.
    - destruct (imem i ids) eqn:E; auto. right. right. exists i. apply imem_In in E. auto.
    - destruct (imem i ids) eqn:E; auto. right. right. exists i. apply imem_In in E. auto.
  Qed.

  Lemma covered f :
    at_place ids PTop f || (inb desc f || at_place ids PBottom f) = true.
  Proof.
    unfold at_place. destruct (effective_cases (snd f)) as [E|[E|(i & Hi & E)]].
    - rewrite E. reflexivity.
    - rewrite E. simpl. rewrite orb_true_r. reflexivity.
    - apply in_map_iff in Hi. destruct Hi as (e & <- & He).
      assert (inb desc f = true).
      { unfold inb. apply existsb_exists. exists e. split; auto. unfold at_place.
        destruct E as [E|E]; rewrite E; simpl; rewrite ident_eqb_refl; auto. }
      rewrite H. simpl. apply orb_true_r.
  Qed.

  Lemma inb_perm bs :
    NoDup (map snd bs) ->
    Permutation (filter (inb bs) floats)
                (flat_map (fun e => F (PBefore (snd e)) ++ F (PAfter (snd e))) bs).
  Proof.
    induction bs as [|e t IH]; intros N; simpl.
    - rewrite filter_false_nil; auto.
    - inversion N; subst.
      change (filter (inb (e :: t)) floats)
        with (filter (fun f => (at_place ids (PBefore (snd e)) f || at_place ids (PAfter (snd e)) f)
                               || inb t f) floats).
      rewrite filter_or_perm.
      + apply Permutation_app; [|apply IH; auto].
        apply filter_or_perm. intros f _ Ha Hb. unfold at_place in *.
        apply place_eqb_eq in Ha. apply place_eqb_eq in Hb. congruence.
      + intros f _ Ha Hb. match goal with Hn : ~ In (snd e) _ |- _ => apply Hn end.
        unfold inb in Hb. apply existsb_exists in Hb. destruct Hb as (e' & He' & Hb).
        assert (Hs : snd e = snd e').
        { unfold at_place in *.
          apply orb_true_iff in Ha. apply orb_true_iff in Hb.
          destruct Ha as [Ha|Ha]; apply place_eqb_eq in Ha;
            destruct Hb as [Hb|Hb]; apply place_eqb_eq in Hb; congruence. }
        rewrite Hs. apply in_map. exact He'.
  Qed.

  Lemma floats_partition :
    Permutation floats
      (F PTop ++ flat_map (fun e => F (PBefore (snd e)) ++ F (PAfter (snd e))) desc ++ F PBottom).
  Proof.
    rewrite <- (filter_true_id _ floats (fun f _ => covered f)) at 1.
    rewrite filter_or_perm.
    - apply Permutation_app_head. rewrite filter_or_perm.
      + apply Permutation_app_tail. apply inb_perm. exact ND.
      + intros f _ H1 H2. unfold inb in H1. apply existsb_exists in H1.
        destruct H1 as (e & _ & H1). unfold at_place in *. apply place_eqb_eq in H2.
        rewrite H2 in H1. discriminate.
    - intros f _ H1 H2. unfold at_place in *. apply place_eqb_eq in H1.
      apply orb_true_iff in H2. destruct H2 as [H2|H2].
      + unfold inb in H2. apply existsb_exists in H2. destruct H2 as (e & _ & H2).
        unfold at_place in H2. rewrite H1 in H2. discriminate.
      + rewrite H1 in H2. discriminate.
  Qed.

  Lemma skeys_perm : Permutation skeys (base_keys desc ++ map (float_key desc) floats).
  Proof.
    unfold skeys. rewrite floats_partition at 1.
    rewrite !map_app, map_flat_map. fold (G PTop) (G PBottom).
    rewrite <- (snd_enumerate desc) at 3. rewrite flat_map_map'.
    unfold base_keys. fold bkey.
    (* bring the base keys next to the per-element float groups *)
    rewrite (app_assoc (map bkey (enumerate desc))).
    rewrite (Permutation_app_comm (map bkey (enumerate desc)) (G PTop)).
    rewrite <- app_assoc. apply Permutation_app_head.
    rewrite app_assoc. apply Permutation_app_tail.
    apply Permutation_sym.
    rewrite (flat_map_ext _ (fun pe : nat * bel =>
               G (PBefore (snd (snd pe))) ++ G (PAfter (snd (snd pe))))).
    - apply (perm_interleave bkey (fun pe => G (PBefore (snd (snd pe))))
                             (fun pe => G (PAfter (snd (snd pe))))).
    - intros pe. rewrite map_app. reflexivity.
  Qed.

  (* shape of the keys in each group *)
  Lemma key_top f : In f (F PTop) -> float_key desc f = ((-1)%Z, 0%Z, fst f).
  Proof.
    unfold F. intros H. apply filter_In in H. destruct H as [_ H]. unfold at_place in H.
    apply place_eqb_eq in H. destruct f as [idx p]. simpl in *.
    destruct p; simpl in H; try discriminate; auto; destruct (imem i ids); discriminate.
  Qed.

  Lemma key_bottom f : In f (F PBottom) -> float_key desc f = (MAXSIZE, 0%Z, fst f).
  Proof.
    unfold F. intros H. apply filter_In in H. destruct H as [_ H]. unfold at_place in H.
    apply place_eqb_eq in H. destruct f as [idx p]. simpl in *.
    destruct p; simpl in H; try discriminate; auto;
      (destruct (imem i ids) eqn:E; [discriminate|]);
      apply imem_false in E; unfold float_key; simpl;
      rewrite positions_by_id_none by exact E; reflexivity.
  Qed.

  Lemma key_before (pe : nat * bel) :
    In pe (enumerate desc) -> forall f : flt, In f (F (PBefore (snd (snd pe)))) ->
    float_key desc f = (Z.of_nat (fst pe), (-1)%Z, fst f).
  Proof.
    intros Hpe f H. unfold F in H. apply filter_In in H. destruct H as [_ H].
    unfold at_place in H. apply place_eqb_eq in H. destruct f as [idx p]. simpl in *.
    destruct p; simpl in H; try discriminate;
      (destruct (imem i ids); [|discriminate]); inversion H; subst.
    unfold float_key. simpl. rewrite positions_by_id_in; auto.
  Qed.

  Lemma key_after (pe : nat * bel) :
    In pe (enumerate desc) -> forall f : flt, In f (F (PAfter (snd (snd pe)))) ->
    float_key desc f = (Z.of_nat (fst pe), 1%Z, fst f).
  Proof.
    intros Hpe f H. unfold F in H. apply filter_In in H. destruct H as [_ H].
    unfold at_place in H. apply place_eqb_eq in H. destruct f as [idx p]. simpl in *.
    destruct p; simpl in H; try discriminate;
      (destruct (imem i ids); [|discriminate]); inversion H; subst.
    unfold float_key. simpl. rewrite positions_by_id_in; auto.
  Qed.

  Lemma F_sorted p : StronglySorted Z.le (map fst (F p)).
  Proof.
    unfold F. apply (SS_map Z.le fst (fun a b : flt => (fst a <= fst b)%Z)); auto.
    apply SS_filter. exact FS.
  Qed.

  Lemma group_sorted (fs : list flt) P R :
    (forall f : flt, In f fs -> float_key desc f = (P, R, fst f)) ->
    StronglySorted Z.le (map fst fs) ->
    StronglySorted key_le (map (float_key desc) fs).
  Proof.
    intros H S. induction fs as [|f t IH]; simpl; [constructor|].
    simpl in S. inversion S as [|? ? St Hf]; subst. constructor.
    - apply IH; auto. intros g Hg. apply H; simpl; auto.
    - rewrite Forall_forall in *. intros k Hk. apply in_map_iff in Hk.
      destruct Hk as (g & <- & Hg).
      rewrite (H f) by (simpl; auto). rewrite (H g) by (simpl; auto).
      assert (fst f <= fst g)%Z by (apply Hf; apply in_map; auto).
      unfold key_le. lia.
  Qed.

  Lemma G_in_shape p P R k :
    (forall f, In f (F p) -> float_key desc f = (P, R, fst f)) ->
    In k (G p) -> exists z, k = (P, R, z).
  Proof.
    intros H Hk. unfold G in Hk. apply in_map_iff in Hk. destruct Hk as (f & <- & Hf).
    exists (fst f). apply H. exact Hf.
  Qed.

  Lemma block_shape pe k :
    In pe (enumerate desc) -> In k (block pe) ->
    exists r z, k = (Z.of_nat (fst pe), r, z).
  Proof.
    intros Hpe Hk. unfold block in Hk. apply in_app_or in Hk. destruct Hk as [Hk|Hk].
    - destruct (G_in_shape _ _ _ _ (key_before pe Hpe) Hk) as (z & ->). eauto.
    - simpl in Hk. destruct Hk as [<-|Hk]; [unfold bkey; eauto|].
      destruct (G_in_shape _ _ _ _ (key_after pe Hpe) Hk) as (z & ->). eauto.
  Qed.

  Lemma block_sorted pe : In pe (enumerate desc) -> StronglySorted key_le (block pe).
  Proof.
    intros Hpe. unfold block. apply SS_app.
    - apply (group_sorted _ _ _ (key_before pe Hpe)). apply F_sorted.
    - apply SS_app.
      + apply SS_singleton.
      + apply (group_sorted _ _ _ (key_after pe Hpe)). apply F_sorted.
      + intros a b [<-|[]] Hb.
        destruct (G_in_shape _ _ _ _ (key_after pe Hpe) Hb) as (z & ->).
        unfold bkey, key_le. lia.
    - intros a b Ha Hb.
      destruct (G_in_shape _ _ _ _ (key_before pe Hpe) Ha) as (z & ->).
      simpl in Hb. destruct Hb as [<-|Hb].
      + unfold bkey, key_le. lia.
      + destruct (G_in_shape _ _ _ _ (key_after pe Hpe) Hb) as (z' & ->).
        unfold key_le. lia.
  Qed.

  Lemma skeys_sorted : StronglySorted key_le skeys.
  Proof.
    unfold skeys. apply SS_app.
    - apply (group_sorted _ _ _ key_top). apply F_sorted.
    - apply SS_app.
      + apply SS_flat_map.
        * intros pe Hpe. apply block_sorted. exact Hpe.
        * apply (SS_impl_in (fun x y : nat * bel => fst x < fst y)).
          2: { rewrite enumerate_enum_from. apply enum_from_sorted. }
          intros x y Hx Hy Hxy a b Ha Hb.
          destruct (block_shape x a Hx Ha) as (r1 & z1 & ->).
          destruct (block_shape y b Hy Hb) as (r2 & z2 & ->).
          unfold key_le. lia.
      + apply (group_sorted _ _ _ key_bottom). apply F_sorted.
      + intros a b Ha Hb. apply in_flat_map in Ha. destruct Ha as (pe & Hpe & Ha).
        destruct (block_shape pe a Hpe Ha) as (r1 & z1 & ->).
        destruct (G_in_shape _ _ _ _ key_bottom Hb) as (z & ->).
        apply in_enumerate_bound in Hpe. unfold key_le. lia.
    - intros a b Ha Hb.
      destruct (G_in_shape _ _ _ _ key_top Ha) as (z & ->).
      apply in_app_or in Hb. destruct Hb as [Hb|Hb].
      + apply in_flat_map in Hb. destruct Hb as (pe & Hpe & Hb).
        destruct (block_shape pe b Hpe Hb) as (r1 & z1 & ->). unfold key_le. lia.
      + destruct (G_in_shape _ _ _ _ key_bottom Hb) as (z' & ->).
        unfold key_le, MAXSIZE. lia.
  Qed.

  (* any sorted permutation of the model's keys reads off the anchored order *)
  Theorem sorted_keys_read_anchored_order (s : list key) :
    Permutation s (base_keys desc ++ map (float_key desc) floats) ->
    StronglySorted key_le s ->
    map kidx s = anchored_order desc floats.
  Proof.
    intros P S. rewrite <- skeys_idx. f_equal.
    apply (sorted_perm_unique key_le); auto.
    - apply key_le_antisym.
    - apply skeys_sorted.
    - rewrite P. apply Permutation_sym. apply skeys_perm.
  Qed.

  Theorem collate_anchored : collate desc floats = anchored_order desc floats.
  Proof.
    unfold collate. apply sorted_keys_read_anchored_order.
    - apply ksort_perm.
    - apply ksort_sorted.
  Qed.
End Collate.
