(* Proofs about Model/Population.v - lemma family behind property C17. *)
From Coq Require Import QArith ZArith List Bool Lia Arith Lqa.
From CC Require Import Base.XQ Base.ListX Model.Population.
Import ListNotations.
Local Close Scope Q_scope.
Local Open Scope nat_scope.

(* ---- the fraction cascade ----------------------------------------------------------------- *)
Lemma old_style_agree fs fil unf :
  match weighted_n fil, weighted_n unf with
  | Some n, Some d => Value (guarded_div n d)
  | _, _ => Raises
  end = Value (old_style_spec {| r_filter_stats := fs; r_filtered := fil; r_unfiltered := unf |}).
Proof.
  unfold old_style_spec. simpl.
  destruct fil as [| |[| |n]], unf as [| |[| |d]]; simpl; reflexivity.
Qed.

(* the model's cascade is the property's decision list for EVERY shape (a JSON null counts as
   "not present") whose complete-case numbers, if given, are both given *)
Theorem pop_fraction_eq_spec r :
  wf_shape r = true ->
  pop_fraction r = Value (pop_fraction_spec r).
Proof.
  destruct r as [fs fil unf]. unfold wf_shape. simpl.
  intros Hw.
  unfold pop_fraction, weighted_complete, pop_fraction_spec. simpl.
  destruct fs as [| |[fc cd]]; simpl in *; try discriminate;
    try (apply old_style_agree).
  destruct fc as [| |[| |[s o]]]; simpl in *; try discriminate;
      try (apply old_style_agree).
  destruct s as [| |s], o as [| |o]; simpl in *; try discriminate.
  + apply old_style_agree.
  + destruct cd; reflexivity.
Qed.

(* in particular the cascade never raises on a well-formed shape *)
Corollary pop_fraction_total r : wf_shape r = true -> pop_fraction r <> Raises.
Proof. intros H. rewrite (pop_fraction_eq_spec r H). discriminate. Qed.

(* the decision list, one readable rule at a time *)
Definition new_style (s o : Q) (cd : bool) (fil unf : field (field Q)) : fshape :=
  {| r_filter_stats := Val {| fs_complete := Val (Val {| w_selected := Val s; w_other := Val o |});
                              fs_is_cat_date := cd |};
     r_filtered := fil; r_unfiltered := unf |}.

Theorem pf_new_style s o fil unf : ~ (s + o == 0)%Q ->
  pop_fraction (new_style s o false fil unf) = Value (Fin (s / (s + o))).
Proof.
  intros H. unfold pop_fraction. simpl.
  destruct (Qeq_bool (s + o) 0) eqn:E; [apply Qeq_bool_iff in E; contradiction|reflexivity].
Qed.

Theorem pf_new_style_zero s o fil unf : (s + o == 0)%Q ->
  pop_fraction (new_style s o false fil unf) = Value NaN.
Proof.
  intros H. unfold pop_fraction. simpl. apply Qeq_bool_iff in H. rewrite H. reflexivity.
Qed.

Theorem pf_cat_date_filter s o fil unf :
  pop_fraction (new_style s o true fil unf) = Value (Fin 1).
Proof. reflexivity. Qed.

(* no usable new-style statistics: absent filter_stats, absent filtered_complete, absent / null /
   empty "weighted" *)
Definition no_new_style (fs : field fstats) : Prop :=
  fs = Absent \/ fs = Null \/
  exists cd, fs = Val {| fs_complete := Absent; fs_is_cat_date := cd |} \/
             fs = Val {| fs_complete := Null; fs_is_cat_date := cd |} \/
             fs = Val {| fs_complete := Val Absent; fs_is_cat_date := cd |} \/
             fs = Val {| fs_complete := Val Null; fs_is_cat_date := cd |} \/
             fs = Val {| fs_complete := Val (Val {| w_selected := Absent; w_other := Absent |});
                         fs_is_cat_date := cd |}.

Lemma no_new_style_weighted fs fil unf : no_new_style fs ->
  weighted_complete {| r_filter_stats := fs; r_filtered := fil; r_unfiltered := unf |} = Some None.
Proof. intros [->|[->|[cd [->|[->|[->|[->| ->]]]]]]]; reflexivity. Qed.

Theorem pf_old_style fs n d : no_new_style fs -> ~ (d == 0)%Q ->
  pop_fraction {| r_filter_stats := fs; r_filtered := Val (Val n); r_unfiltered := Val (Val d) |}
  = Value (Fin (n / d)).
Proof.
  intros H Hd. unfold pop_fraction. rewrite (no_new_style_weighted _ _ _ H). simpl.
  destruct (Qeq_bool d 0) eqn:E; [apply Qeq_bool_iff in E; contradiction|reflexivity].
Qed.

Theorem pf_old_style_zero fs n d : no_new_style fs -> (d == 0)%Q ->
  pop_fraction {| r_filter_stats := fs; r_filtered := Val (Val n); r_unfiltered := Val (Val d) |}
  = Value NaN.
Proof.
  intros H Hd. unfold pop_fraction. rewrite (no_new_style_weighted _ _ _ H). simpl.
  apply Qeq_bool_iff in Hd. rewrite Hd. reflexivity.
Qed.

(* unspecified: either weighted N missing (key absent, dict absent, or weighted_n null) *)
Definition no_number (f : field (field Q)) : Prop :=
  f = Absent \/ f = Null \/ f = Val Absent \/ f = Val Null.
Theorem pf_unspecified fs fil unf : no_new_style fs ->
  no_number fil \/ no_number unf ->
  pop_fraction {| r_filter_stats := fs; r_filtered := fil; r_unfiltered := unf |} = Value (Fin 1).
Proof.
  intros H Hno. unfold pop_fraction. rewrite (no_new_style_weighted _ _ _ H). simpl.
  destruct fil as [| |[| |n]], unf as [| |[| |d]]; simpl; try congruence; try reflexivity.
  destruct Hno as [[E|[E|[E|E]]]|[E|[E|[E|E]]]]; discriminate.
Qed.

(* the repaired defect (known finding C17-null-filter-stats-raises, fixed): a null where a dict is
   expected is "not present" - the former witnesses now evaluate to the property's value *)
Theorem pf_null_is_absent :
  pop_fraction {| r_filter_stats := Null; r_filtered := Absent; r_unfiltered := Absent |}
  = Value (Fin 1) /\
  pop_fraction {| r_filter_stats := Absent; r_filtered := Null; r_unfiltered := Val (Val 10%Q) |}
  = Value (Fin 1).
Proof. split; reflexivity. Qed.
Theorem pf_null_complete_old_style n d : ~ (d == 0)%Q ->
  pop_fraction {| r_filter_stats := Val {| fs_complete := Null; fs_is_cat_date := false |};
                  r_filtered := Val (Val n); r_unfiltered := Val (Val d) |} = Value (Fin (n / d)).
Proof.
  intros Hd. unfold pop_fraction. simpl.
  destruct (Qeq_bool d 0) eqn:E; [apply Qeq_bool_iff in E; contradiction|reflexivity].
Qed.

(* ---- counts and MoE ------------------------------------------------------------------------ *)
Lemma pop_choice_rows {A} ccd (a b c : A) : pop_choice true ccd a b c = a.
Proof. reflexivity. Qed.
Lemma pop_choice_cols {A} (a b c : A) : pop_choice false true a b c = b.
Proof. reflexivity. Qed.
Lemma pop_choice_table {A} (a b c : A) : pop_choice false false a b c = c.
Proof. reflexivity. Qed.

Lemma pop_counts_cell rcd ccd rowp colp tabp N f dr dc i j :
  let P := pop_choice rcd ccd rowp colp tabp in
  i < nrows P -> j < ncols P ->
  mnth (pop_counts rcd ccd rowp colp tabp N f dr dc) i j =
  if nth i dr false || nth j dc false then NaN else xmul (xmul (mnth P i j) N) f.
Proof.
  intros P Hi Hj. unfold pop_counts. fold P. rewrite tab2_mnth by assumption.
  unfold pop_cell. destruct (nth i dr false || nth j dc false); [|reflexivity].
  simpl. destruct N; reflexivity.
Qed.

Lemma pop_moe_cell rcd ccd rowse colse tabse N f i j :
  let S := pop_choice rcd ccd rowse colse tabse in
  i < nrows S -> j < ncols S ->
  mnth (pop_moe rcd ccd rowse colse tabse N f) i j = xmul (xmul Z975 (xmul N f)) (mnth S i j).
Proof. intros S Hi Hj. unfold pop_moe. fold S. rewrite tab2_mnth by assumption. reflexivity. Qed.

Definition not_inf (a : xq) : Prop := match a with Inf _ => False | _ => True end.

(* linear in the population *)
Lemma pop_cell_linear p N f d a : not_inf p -> not_inf f ->
  pop_cell p (Fin (a * N)) f d =x= xmul (Fin a) (pop_cell p (Fin N) f d).
Proof.
  unfold pop_cell. destruct d; [destruct f; reflexivity|].
  destruct p as [p|s|], f as [f|t|]; simpl; intros H1 H2; try contradiction; try reflexivity.
  ring.
Qed.
Lemma moe_cell_linear se N f a : not_inf se -> not_inf f ->
  moe_cell se (Fin (a * N)) f =x= xmul (Fin a) (moe_cell se (Fin N) f).
Proof.
  unfold moe_cell, Z975.
  destruct se as [p|s|], f as [f|t|]; simpl; intros H1 H2; try contradiction; try reflexivity.
  ring.
Qed.

(* moe^2 = Z^2 (N f)^2 stderr^2 *)
Lemma moe_cell_sq se N f : not_inf se -> not_inf f ->
  xsq (moe_cell se (Fin N) f) =x= xmul (xmul (xsq Z975) (xsq (xmul (Fin N) f))) (xsq se).
Proof.
  unfold moe_cell, Z975, xsq.
  destruct se as [p|s|], f as [f|t|]; simpl; intros H1 H2; try contradiction; try reflexivity.
  ring.
Qed.

(* a zero standard error gives a zero margin, an undefined one an undefined margin *)
Lemma moe_cell_nan N f : moe_cell NaN N f = NaN.
Proof. unfold moe_cell. apply xmul_nan_r. Qed.

(* strand *)
Lemma strand_pop_counts_some cd tabp N f dr : strand_pop_raises cd dr = false ->
  strand_pop_counts cd tabp N f dr = Some (strand_pop_values cd tabp N f dr).
Proof. intros H. unfold strand_pop_counts. rewrite H. reflexivity. Qed.

Lemma strand_pop_values_cell cd tabp N f dr i : i < length tabp ->
  vnth (strand_pop_values cd tabp N f dr) i =
  if nth i dr false then NaN else xmul (xmul (if cd then Fin 1 else vnth tabp i) N) f.
Proof.
  intros Hi. unfold strand_pop_values. rewrite tab_vnth by exact Hi. unfold pop_cell.
  destruct (nth i dr false); [|reflexivity]. simpl. destruct N; reflexivity.
Qed.

Lemma strand_pop_counts_cell cd tabp N f dr : strand_pop_raises cd dr = false ->
  exists v, strand_pop_counts cd tabp N f dr = Some v /\ length v = length tabp /\
    forall i, i < length tabp ->
      vnth v i = if nth i dr false then NaN else xmul (xmul (if cd then Fin 1 else vnth tabp i) N) f.
Proof.
  intros H. exists (strand_pop_values cd tabp N f dr).
  split; [apply strand_pop_counts_some; exact H|]. split.
  - unfold strand_pop_values. apply tab_length.
  - intros i Hi. apply strand_pop_values_cell. exact Hi.
Qed.

(* no difference at all: never raises *)
Lemma strand_never_raises cd dr : strand_pop_raises cd dr = false.
Proof. reflexivity. Qed.

Lemma strand_pop_cat_date tabp q f dr i : i < length tabp -> nth i dr false = false ->
  vnth (strand_pop_values true tabp (Fin q) (Fin f) dr) i =x= Fin (q * f).
Proof.
  intros Hi Hd. rewrite strand_pop_values_cell by exact Hi. rewrite Hd. simpl. ring.
Qed.

(* the repaired defects (known findings C17-strand-population-two-differences and
   C17-cat-date-strand-population-difference, fixed): every difference row is NaN, the others keep
   their value - unconditionally *)
Lemma strand_pop_counts_total cd tabp N f dr :
  exists v, strand_pop_counts cd tabp N f dr = Some v /\ length v = length tabp /\
    forall i, i < length tabp ->
      vnth v i = if nth i dr false then NaN else xmul (xmul (if cd then Fin 1 else vnth tabp i) N) f.
Proof. apply strand_pop_counts_cell. apply strand_never_raises. Qed.

Lemma strand_pop_moe_cell cd tabse N f i : i < length tabse ->
  vnth (strand_pop_moe cd tabse N f) i = xmul (xmul Z975 (xmul N f)) (if cd then Fin 0 else vnth tabse i).
Proof. intros Hi. unfold strand_pop_moe. rewrite tab_vnth by exact Hi. reflexivity. Qed.

Lemma strand_moe_cat_date tabse q f i : i < length tabse ->
  vnth (strand_pop_moe true tabse (Fin q) (Fin f)) i =x= Fin 0.
Proof. intros Hi. rewrite strand_pop_moe_cell by exact Hi. simpl. ring. Qed.
