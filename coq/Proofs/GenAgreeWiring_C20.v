(* GOLDEN obligations of the wiring translator for C20 (generated ONCE by tools/gen_wiring_props.py,
   then committed): what each public member of cubepart.py that C20 relies on IS, as a term of
   Base/WiringExp.v.  Gen/WiringSrc.v is regenerated from /repo on every check; an edit of the
   public layer that changes one of these members breaks the lemma below (reflexivity). *)
From Coq Require Import List ZArith String.
From CC Require Import Base.WiringExp Gen.WiringSrc.
Import ListNotations.
Local Open Scope string_scope.

(* _Slice.smoothed_column_index *)
Lemma gen_wiring_Slice_smoothed_column_index :
  wsrc_Slice_smoothed_column_index = Some (w_matrix_of "smoothed_column_index").
Proof. reflexivity. Qed.

(* _Slice.smoothed_column_percentages *)
Lemma gen_wiring_Slice_smoothed_column_percentages :
  wsrc_Slice_smoothed_column_percentages = Some (WBin "*" (WSelf "smoothed_column_proportions") (WInt
      (100)%Z)).
Proof. reflexivity. Qed.

(* _Slice.smoothed_column_proportions *)
Lemma gen_wiring_Slice_smoothed_column_proportions :
  wsrc_Slice_smoothed_column_proportions = Some (w_matrix_of "smoothed_column_proportions").
Proof. reflexivity. Qed.

(* _Slice.smoothed_columns_scale_mean *)
Lemma gen_wiring_Slice_smoothed_columns_scale_mean :
  wsrc_Slice_smoothed_columns_scale_mean = Some (w_marginal_of "smoothed_columns_scale_mean").
Proof. reflexivity. Qed.

(* _Slice.smoothed_means *)
Lemma gen_wiring_Slice_smoothed_means :
  wsrc_Slice_smoothed_means = Some (WTryValueError (w_matrix_of "smoothed_means") "").
Proof. reflexivity. Qed.

(* _Strand.smoothed_means *)
Lemma gen_wiring_Strand_smoothed_means :
  wsrc_Strand_smoothed_means = Some (WTryValueError (w_vector_of "smoothed_means") "").
Proof. reflexivity. Qed.

(* SecondOrderMeasures.smoothed_column_index *)
Lemma gen_wiring_SecondOrderMeasures_smoothed_column_index :
  wsrc_SecondOrderMeasures_smoothed_column_index = Some (WCall (WGlobal "_ColumnIndexSmoothed") [WSelf
      "_dimensions"; WVar "self"; WSelf "_cube_measures"] []).
Proof. reflexivity. Qed.

(* SecondOrderMeasures.smoothed_column_proportions *)
Lemma gen_wiring_SecondOrderMeasures_smoothed_column_proportions :
  wsrc_SecondOrderMeasures_smoothed_column_proportions = Some (WCall (WGlobal
      "_ColumnProportionsSmoothed") [WSelf "_dimensions"; WVar "self"; WSelf "_cube_measures"] []).
Proof. reflexivity. Qed.

(* SecondOrderMeasures.smoothed_columns_scale_mean *)
Lemma gen_wiring_SecondOrderMeasures_smoothed_columns_scale_mean :
  wsrc_SecondOrderMeasures_smoothed_columns_scale_mean = Some (WCall (WGlobal "_ScaleMeanSmoothed")
      [WSelf "_dimensions"; WVar "self"; WSelf "_cube_measures"; WAttr (WGlobal "MO") "COLUMNS"]
      []).
Proof. reflexivity. Qed.

(* SecondOrderMeasures.smoothed_means *)
Lemma gen_wiring_SecondOrderMeasures_smoothed_means :
  wsrc_SecondOrderMeasures_smoothed_means = Some (WCall (WGlobal "_MeansSmoothed") [WSelf
      "_dimensions"; WVar "self"; WSelf "_cube_measures"] []).
Proof. reflexivity. Qed.

(* StripeMeasures.smoothed_means *)
Lemma gen_wiring_StripeMeasures_smoothed_means :
  wsrc_StripeMeasures_smoothed_means = Some (WCall (WGlobal "_MeansSmoothed") [WSelf
      "_rows_dimension"; WVar "self"; WSelf "_cube_measures"] []).
Proof. reflexivity. Qed.
