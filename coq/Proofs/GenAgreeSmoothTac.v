(* Proofs/GenAgreeSmoothTac.v -- list-level facts, environments and tactics of the GenAgree tie of
   smoothing.py (the lemmas are in GenAgreeSmoothing.v):
     [smooth_row_conv]: np.convolve(v, np.ones(w), "valid") / w prefixed with w-1 NaNs IS
     Model/Smoothing.v's trailing window mean [smooth_row w v], for every series and window. *)
From Coq Require Import QArith ZArith List Bool Lia Arith String ZifyBool Setoid Morphisms.
From CC Require Import Base.XQ Base.ListX Base.VecExp Model.Smoothing Proofs.SmoothingProofs
     Proofs.GenAgreeVecTac.
Import ListNotations.
Local Close Scope Q_scope.
Local Open Scope string_scope.
Local Open Scope nat_scope.

(* ------------------------------------------------------------------------------------ *)
(** * np.convolve(v, np.ones(w), "valid") / w, prefixed with w-1 NaNs, is [smooth_row w v] *)

Lemma slice_as_tab k w (v : list xq) : k + w <= List.length v ->
  slice k w v = tab w (fun i => vnth v (k + i)).
Proof.
  intros H. apply (nth_ext _ _ NaN NaN).
  - rewrite slice_length by exact H. rewrite tab_length. reflexivity.
  - intros i Hi. rewrite slice_length in Hi by exact H.
    rewrite slice_nth by exact Hi. rewrite tab_nth by exact Hi. reflexivity.
Qed.

Lemma tab_ext_lt {A} n (f g : nat -> A) : (forall i, i < n -> f i = g i) -> tab n f = tab n g.
Proof. intros H. unfold tab. apply map_ext_in. intros i Hi. apply in_seq in Hi. apply H. lia. Qed.

Lemma vxeq_l_tab n f g : (forall i, i < n -> f i =x= g i) -> vxeq_l (tab n f) (tab n g).
Proof.
  intros H. apply vxeq_l_nth.
  - rewrite !tab_length. reflexivity.
  - intros i Hi. rewrite tab_length in Hi. rewrite !tab_vnth by exact Hi. apply H. exact Hi.
Qed.

Lemma conv_ones_window w v k : 1 <= w -> k + w <= List.length v ->
  vnth (conv_valid v (repeat (Fin 1%Q) w)) k =x= xsum (slice k w v).
Proof.
  intros Hw Hk. unfold conv_valid. rewrite repeat_length.
  assert (E : (w <=? List.length v) = true) by (apply Nat.leb_le; lia). rewrite E. cbv iota. rewrite repeat_length.
  rewrite tab_vnth by lia.
  rewrite slice_as_tab by exact Hk.
  transitivity (xsum (tab w (fun j => vnth v (k + (w - 1 - j))))).
  - apply xsum_vxeq_l. apply vxeq_l_tab. intros j Hj.
    rewrite vnth_repeat by exact Hj. rewrite xmul_1_r.
    replace (k + w - 1 - j) with (k + (w - 1 - j)) by lia. reflexivity.
  - rewrite (tab_rev w (fun i => vnth v (k + i))). apply xsum_rev.
Qed.

Lemma smooth_row_conv w v : 1 <= w -> w <= List.length v ->
  vxeq_l (repeat NaN (w - 1) ++ map (fun u => xdiv u (xofnat w)) (conv_valid v (repeat (Fin 1%Q) w)))
         (smooth_row w v).
Proof.
  intros Hw Hn. apply vxeq_l_nth.
  - rewrite smooth_row_length. vnorm. lia.
  - intros i Hi. vnorm. assert (Hi' : i < List.length v) by lia. clear Hi.
    destruct (Nat.lt_ge_cases i (w - 1)) as [Hlt|Hge].
    + rewrite smooth_row_head by lia. unfold vnth. rewrite app_nth1 by (rewrite repeat_length; exact Hlt).
      rewrite (vnth_repeat NaN (w - 1) i Hlt : nth i (repeat NaN (w - 1)) NaN = NaN). reflexivity.
    + rewrite smooth_row_tail by lia. unfold vnth at 1.
      rewrite app_nth2 by (rewrite repeat_length; exact Hge). rewrite repeat_length.
      change (vnth (map (fun u => xdiv u (xofnat w)) (conv_valid v (repeat (Fin 1%Q) w))) (i - (w - 1))
              =x= xdiv (xsum (slice (i + 1 - w) w v)) (xofnat w)).
      unfold vnth. rewrite (nth_indep _ NaN (xdiv NaN (xofnat w))) by (vnorm; lia).
      rewrite (map_nth (fun u => xdiv u (xofnat w))).
      apply xdiv_Proper; [|reflexivity].
      replace (i + 1 - w) with (i - (w - 1)) by lia.
      apply conv_ones_window; lia.
Qed.

(* the form the evaluation of `smooth` ends in (window as a Python int z) *)
Lemma smooth_row_conv_z (z : Z) (v : list xq) k :
  (1 <= z)%Z -> (z <= Z.of_nat (List.length v))%Z -> k = Z.to_nat z - 1 ->
  vxeq_l (repeat NaN k ++ map (fun u => xdiv u (zq z)) (conv_valid v (repeat (Fin 1%Q) (Z.to_nat z))))
         (smooth_row (Z.to_nat z) v).
Proof.
  intros H1 H2 ->.
  replace (zq z) with (xofnat (Z.to_nat z)) by (unfold zq, xofnat; rewrite Z2Nat.id by lia; reflexivity).
  apply smooth_row_conv; lia.
Qed.

(* ------------------------------------------------------------------------------------ *)
(** * rows of a 2-D value *)

Lemma opt_all_scal_VS l : opt_all (map scal_of (map VS l)) = Some l.
Proof. induction l as [|a t IH]; simpl; [reflexivity|]. rewrite IH. reflexivity. Qed.
Lemma opt_all_row_VV m : opt_all (map row_of (map VV m)) = Some m.
Proof. induction m as [|a t IH]; simpl; [reflexivity|]. rewrite IH. reflexivity. Qed.
Lemma opt_all_scal_VV m : m <> [] -> opt_all (map scal_of (map VV m)) = None.
Proof. destruct m; [congruence|reflexivity]. Qed.

Lemma v_array_rows k rows : rows <> [] -> Forall (fun r => List.length r = k) rows ->
  v_array (VL (map VV rows)) = VM k rows.
Proof.
  intros Hne Hk. unfold v_array. rewrite opt_all_scal_VV by exact Hne. rewrite opt_all_row_VV.
  assert (Hh : List.length (hd [] rows) = k).
  { destruct rows as [|r t]; [congruence|]. inversion Hk; subst. reflexivity. }
  rewrite Hh.
  assert (Hf : forallb (fun r' => List.length r' =? k) rows = true).
  { apply forallb_forall. intros r Hr. rewrite Forall_forall in Hk. apply Nat.eqb_eq. apply Hk. exact Hr. }
  rewrite Hf. reflexivity.
Qed.

Lemma has_err_VV (m : list (list xq)) : has_err (map VV m) = false.
Proof. induction m; simpl; auto. Qed.

Lemma v_list_rows (f : vval -> vval) (g : list xq -> list xq) m :
  (forall r, In r m -> f (VV r) = VV (g r)) -> v_list (map f (map VV m)) = VL (map VV (map g m)).
Proof.
  intros H. rewrite map_map.
  rewrite (map_ext_in (fun r => f (VV r)) (fun r => VV (g r)) m H).
  rewrite <- (map_map g VV). unfold v_list. rewrite has_err_VV. reflexivity.
Qed.

Lemma map2_app_repeat (a : list xq) n (l : list (list xq)) : List.length l = n ->
  map2 (@app xq) (repeat a n) l = map (app a) l.
Proof.
  revert n. induction l as [|r t IH]; intros [|n] H; simpl in H; try discriminate; [reflexivity|].
  unfold map2 in *. simpl. f_equal. apply IH. lia.
Qed.

Lemma msize_wf nc m : Forall (fun r => List.length r = nc) m -> msize m = List.length m * nc.
Proof.
  unfold msize. induction 1 as [|r t Hr Ht IH]; simpl; [reflexivity|].
  rewrite app_length, IH, Hr. reflexivity.
Qed.
Lemma ncols_wf nc m : Forall (fun r => List.length r = nc) m -> List.length m <> 0 -> ncols m = nc.
Proof. intros H Hn. destruct m as [|r t]; [simpl in Hn; congruence|]. inversion H; subst. reflexivity. Qed.

(* ------------------------------------------------------------------------------------ *)
(** * environments *)

Definition raw_val (raw : option Z) : vval := match raw with None => VNone | Some w => VZ w end.

(* the smoother's (or the dimension's) smoothing_dict at path [pd], dimension_type at path [pt];
   [dt]: the enum member's name, [fn]: smoothing_dict.get("function"), [raw]: .get("window") *)
Definition env_smoother (pd pt : string) (dt : string) (fn : vval) (raw : option Z)
           (attr : string -> vval) (call : string -> vval -> vval) (var : string -> vval) : venv :=
  mkVenv var (fun p => if String.eqb p pt then VEnum dt else attr p)
         (fun p k => if String.eqb p pd
                     then (if String.eqb k "window" then raw_val raw
                           else if String.eqb k "function" then fn else VErr)
                     else VErr)
         call no_argsort.

Definition is_cat_date (dt : string) : bool := String.eqb dt "DT.CAT_DATE".

(* smoothing_dict.get("function"): absent / None / "" (falsy) or the one implemented name *)
Definition fn_ok (fn : vval) : Prop :=
  fn = VNone \/ fn = VStr "" \/ fn = VStr "one_sided_moving_avg".

Definition no_attr (_ : string) : vval := VErr.

(* ------------------------------------------------------------------------------------ *)
(** * tactics for the two shapes of values *)

(* `2 if window is None else window` *)
Lemma window_val raw : v_if (v_isnone (raw_val raw)) (VZ 2) (raw_val raw) = VZ (window_of raw).
Proof. destruct raw; reflexivity. Qed.

(* the factory's guard `function != "one_sided_moving_avg"` (function = dict.get(..) or <default>) *)
Lemma fn_guard fn : fn_ok fn ->
  v_cmp CNe (v_or fn (VStr "one_sided_moving_avg")) (VStr "one_sided_moving_avg") = VB false.
Proof. intros [->|[->| ->]]; reflexivity. Qed.

Ltac cat_date_var :=
  match goal with |- context [String.eqb ?dt "DT.CAT_DATE"] =>
    change (String.eqb dt "DT.CAT_DATE") with (is_cat_date dt) in *;
    generalize (is_cat_date dt); intros cd end.

(* evaluate; the window becomes an abstract integer w, the dimension type an abstract boolean cd *)
Ltac smooth_eval :=
  unfold env_smoother; vstage1;
  try match goal with H : fn_ok _ |- _ => rewrite (fn_guard _ H), v_if_false end;
  rewrite ?window_val;
  unfold smooth1, smooth2; cbv zeta;
  try match goal with |- context [window_of ?raw] => generalize (window_of raw); intros w end;
  vrun; try cat_date_var.

Ltac smooth_finish_1d :=
  cbn [vagrees];
  lazymatch goal with
  | |- vxeq_l ?v (if can_smooth ?a ?b ?c ?d then _ else ?v) =>
      replace (can_smooth a b c d) with false by (unfold can_smooth; destruct a; lia);
      apply vxeq_l_refl
  | |- vxeq_l _ (if can_smooth ?a ?b ?c ?d then _ else _) =>
      replace (can_smooth a b c d) with true by (unfold can_smooth; destruct a; lia);
      apply smooth_row_conv_z; lia
  end.

Ltac smooth_1d := intros; smooth_eval; vsplit; smooth_finish_1d.

(* 2-D values: [Hwf : Forall (fun r => length r = nc) m] *)

(* the comprehension over the rows, wherever it sits in the goal *)
Ltac smooth_rows nc m Hwf :=
  try (erewrite v_list_rows by
        (let r := fresh "r" in let Hr := fresh "Hr" in intros r Hr;
         let Hlen := fresh "Hlen" in
         pose proof (proj1 (Forall_forall _ _) Hwf r Hr) as Hlen; cbn beta in Hlen;
         cbv beta; vrun; vsplit; reflexivity);
       erewrite v_array_rows;
       [ | let E := fresh "E" in intros E; apply (f_equal (@List.length _)) in E; vnorm; simpl in E; nia
         | apply Forall_forall; let r' := fresh "r'" in let Hin := fresh "Hin" in intros r' Hin;
           apply in_map_iff in Hin; let r := fresh "r" in let Hr := fresh "Hr" in
           destruct Hin as [r [<- Hr]];
           let Hlen := fresh "Hlen" in
           pose proof (proj1 (Forall_forall _ _) Hwf r Hr) as Hlen; cbn beta in Hlen;
           vnorm; rewrite Hlen; reflexivity ];
       vrun; vsplit).

(* [vagrees (VM ..) (VM nc (if can_smooth .. then map (smooth_row ..) m else m))] *)
Ltac smooth_close_2d nc m Hwf :=
  lazymatch goal with
  | |- vagrees (VM _ m) (VM _ (if can_smooth ?a ?b ?c ?d then _ else m)) =>
      cbn [vagrees]; split; [reflexivity|];
      replace (can_smooth a b c d) with false
        by (rewrite (msize_wf nc m Hwf); unfold can_smooth; destruct a;
            (destruct (List.length m =? 0) eqn:?E0; [nia|rewrite (ncols_wf nc m Hwf) by lia; nia]));
      apply mxeq_l_refl
  | |- vagrees (VM _ _) (VM _ (if can_smooth ?a ?b ?c ?d then _ else m)) =>
      cbn [vagrees]; split; [lia|];
      rewrite map2_app_repeat by (vnorm; lia); rewrite map_map;
      replace (can_smooth a b c d) with true
        by (rewrite (msize_wf nc m Hwf), (ncols_wf nc m Hwf) by nia;
            unfold can_smooth; destruct a; nia);
      apply mxeq_l_map; let r := fresh "r" in let Hr := fresh "Hr" in intros r Hr;
      let Hlen := fresh "Hlen" in
      pose proof (proj1 (Forall_forall _ _) Hwf r Hr) as Hlen; cbn beta in Hlen;
      apply smooth_row_conv_z; lia
  end.

Ltac smooth_finish_2d nc m Hwf := smooth_rows nc m Hwf; smooth_close_2d nc m Hwf.
Ltac smooth_2d nc m Hwf := smooth_eval; vsplit; smooth_finish_2d nc m Hwf.
