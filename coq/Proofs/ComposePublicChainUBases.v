(* Proofs/ComposePublicChainUBases.v -- the measure chain, level 0: the row / column / table UNWEIGHTED bases
   (on the arrays of `unweighted_cube_counts`; the row / column ones read the repeated margin from the cube
   measure's 1-D rows_base / columns_base).  Bridges: gen_<X>UnweightedBases_blocks_ij
   (Proofs/GenAgreeBaseBlocks.v).  See ComposePublicChainDefs.v. *)
From Coq Require Import QArith ZArith List Bool Lia Arith String.
From CC Require Import Base.XQ Base.ListX Base.WiringExp Model.Subtotals Model.Proportions Model.BaseBlocks
     Proofs.ComposePublicSem Proofs.ComposePublicLinks Proofs.ComposePublicChainDefs.
From CC Require Base.MeasureExp Base.BasesExp Gen.MeasureSrc Gen.BasesSrc
     Proofs.GenAgreeMeasTac Proofs.GenAgreeBasesTac Proofs.GenAgreeBaseBlocks.
Import ListNotations.
Local Close Scope Q_scope.
Local Open Scope string_scope.
Local Open Scope nat_scope.

Import CC.Gen.MeasureSrc CC.Gen.BasesSrc.

Section Model.
  Variable C : pctx.
  Definition u_rb : mat := c_cubem C "unweighted_cube_counts" "row_bases".
  Definition u_cb : mat := c_cubem C "unweighted_cube_counts" "column_bases".
  Definition u_tb : mat := c_cubem C "unweighted_cube_counts" "table_bases".
  Definition B_urowb : blocks := row_ubase_blocks (c_nr C) (c_nc C) (c_rsubs C) (c_csubs C) u_rb (c_urowbase C).
  Definition B_ucolb : blocks := col_ubase_blocks (c_nr C) (c_nc C) (c_rsubs C) (c_csubs C) u_cb (c_ucolbase C).
  Definition B_utabb : blocks := table_base_blocks (c_nr C) (c_nc C) (c_rsubs C) (c_csubs C) u_tb.
  Definition ucube_tab (a : string) : Prop := is_tab (c_nr C) (c_nc C) (c_cubem C "unweighted_cube_counts" a).
End Model.

Lemma tabular_urowb C : ucube_tab C "row_bases" -> tabular C (B_urowb C).
Proof. intros H. tab_cases; first [exact H | apply is_tab_tab2]. Qed.
Lemma tabular_ucolb C : ucube_tab C "column_bases" -> tabular C (B_ucolb C).
Proof. intros H. tab_cases; first [exact H | apply is_tab_tab2]. Qed.
Lemma tabular_utabb C : ucube_tab C "table_bases" -> tabular C (B_utabb C).
Proof. intros H. tab_cases; first [exact H | apply is_tab_tab2]. Qed.

Definition terms_row_unweighted_bases : bool :=
  is_some src_RowUnweightedBases_blocks_00 && is_some src_RowUnweightedBases_blocks_01 &&
  is_some src_RowUnweightedBases_blocks_10 && is_some src_RowUnweightedBases_blocks_11.
Definition terms_column_unweighted_bases : bool :=
  is_some src_ColumnUnweightedBases_blocks_00 && is_some src_ColumnUnweightedBases_blocks_01 &&
  is_some src_ColumnUnweightedBases_blocks_10 && is_some src_ColumnUnweightedBases_blocks_11.
Definition terms_table_unweighted_bases : bool :=
  is_some src_TableUnweightedBases_blocks_00 && is_some src_TableUnweightedBases_blocks_01 &&
  is_some src_TableUnweightedBases_blocks_10 && is_some src_TableUnweightedBases_blocks_11.

Theorem realizes_row_unweighted_bases :
  need terms_row_unweighted_bases
  (forall f C, ucube_tab C "row_bases" -> nonempty C ->
     realizes (S f) C "row_unweighted_bases" (B_urowb C)).
Proof.
  unfold terms_row_unweighted_bases.
  bridge GenAgreeBaseBlocks.gen_RowUnweightedBases_blocks_00 src_RowUnweightedBases_blocks_00.
  bridge GenAgreeBaseBlocks.gen_RowUnweightedBases_blocks_01 src_RowUnweightedBases_blocks_01.
  bridge GenAgreeBaseBlocks.gen_RowUnweightedBases_blocks_10 src_RowUnweightedBases_blocks_10.
  bridge GenAgreeBaseBlocks.gen_RowUnweightedBases_blocks_11 src_RowUnweightedBases_blocks_11.
  needed. intros f C Hc [Hr Hn]. pose proof (tabular_urowb C Hc) as T. four_blocks.
  - block_by E eval_block_base_ur ltac:(apply G) T.
  - block_by E0 eval_block_base_ur ltac:(apply G0) T.
  - block_by E1 eval_block_base_ur ltac:(apply G1) T.
  - block_by E2 eval_block_base_ur ltac:(apply G2; exact Hn) T.
Qed.

Theorem realizes_column_unweighted_bases :
  need terms_column_unweighted_bases
  (forall f C, ucube_tab C "column_bases" -> nonempty C ->
     realizes (S f) C "column_unweighted_bases" (B_ucolb C)).
Proof.
  unfold terms_column_unweighted_bases.
  bridge GenAgreeBaseBlocks.gen_ColumnUnweightedBases_blocks_00 src_ColumnUnweightedBases_blocks_00.
  bridge GenAgreeBaseBlocks.gen_ColumnUnweightedBases_blocks_01 src_ColumnUnweightedBases_blocks_01.
  bridge GenAgreeBaseBlocks.gen_ColumnUnweightedBases_blocks_10 src_ColumnUnweightedBases_blocks_10.
  bridge GenAgreeBaseBlocks.gen_ColumnUnweightedBases_blocks_11 src_ColumnUnweightedBases_blocks_11.
  needed. intros f C Hc [Hr Hn]. pose proof (tabular_ucolb C Hc) as T. four_blocks.
  - block_by E eval_block_base_uc ltac:(apply G) T.
  - block_by E0 eval_block_base_uc ltac:(apply G0) T.
  - block_by E1 eval_block_base_uc ltac:(apply G1) T.
  - block_by E2 eval_block_base_uc ltac:(apply G2; exact Hr) T.
Qed.

Theorem realizes_table_unweighted_bases :
  need terms_table_unweighted_bases
  (forall f C, ucube_tab C "table_bases" -> nonempty C ->
     realizes (S f) C "table_unweighted_bases" (B_utabb C)).
Proof.
  unfold terms_table_unweighted_bases.
  bridge GenAgreeBaseBlocks.gen_TableUnweightedBases_blocks_00 src_TableUnweightedBases_blocks_00.
  bridge GenAgreeBaseBlocks.gen_TableUnweightedBases_blocks_01 src_TableUnweightedBases_blocks_01.
  bridge GenAgreeBaseBlocks.gen_TableUnweightedBases_blocks_10 src_TableUnweightedBases_blocks_10.
  bridge GenAgreeBaseBlocks.gen_TableUnweightedBases_blocks_11 src_TableUnweightedBases_blocks_11.
  needed. intros f C Hc [Hr Hn]. pose proof (tabular_utabb C Hc) as T. four_blocks.
  - block_by E eval_block_base ltac:(apply G) T.
  - block_by E0 eval_block_base ltac:(apply G0; exact Hn) T.
  - block_by E1 eval_block_base ltac:(apply G1; exact Hr) T.
  - block_by E2 eval_block_base ltac:(apply G2; [exact Hr|exact Hn]) T.
Qed.
