(* C09: derived multiple-response items (MR insertions) under an EXPLICIT order.  The explicit
   collator does not list a derived element among its base-element orderings: it positions it
   through the separate list _derived_element_orderings ([derived_floats]).  It is nevertheless a
   base element of the dimension, and it is shown exactly when it is not hidden and not (pruned
   and empty), like any other. *)
From Coq Require Import List Sorting Permutation ZArith String Bool Lia Arith.
From CC Require Import Base.XQ Base.SortX Spec.OrderSpec Model.Collator
  Proofs.OrderCollate Proofs.OrderExplicit Proofs.OrderIds Proofs.OrderVisible.
Import ListNotations.
Local Open Scope nat_scope.

Definition is_derived (d : dimension) (i : nat) : Prop :=
  i < List.length (d_elems d) /\ e_derived (nth i (d_elems d) dflt_elem) = true.

(* where the model (like the code) keeps a derived element under an explicit order: NOT among
   the base-element descriptors, but in the separate list of derived orderings *)
Theorem derived_positioned_separately d listed i :
  NoDup (d_ids d) -> is_derived d i ->
  ~ In i (map fst (desc_of d (OExplicit listed)))
  /\ In (Z.of_nat i) (map fst (derived_floats d)).
Proof.
  intros N [L D]. split.
  - cbn [desc_of]. unfold descriptors_explicit. intros H.
    assert (P := explicit_loop_perm listed _ (known_elems_ids_nodup d N)).
    apply (Permutation_in _ (Permutation_map fst P)) in H.
    unfold known_elems in H. rewrite map_map in H. simpl in H.
    apply in_map_iff in H. destruct H as ([k e] & E & H). simpl in E. subst k.
    apply filter_In in H. destruct H as [H F]. simpl in F.
    apply (in_enumerate_iff _ _ _ dflt_elem) in H. destruct H as [_ <-].
    rewrite D in F. discriminate.
  - unfold derived_floats. rewrite map_map. simpl.
    apply in_map_iff. exists (i, nth i (d_elems d) dflt_elem). split; auto.
    apply filter_In. split; [apply nth_in_enumerate; exact L|exact D].
Qed.

(* ... and it is filtered by the hidden / pruned set all the same *)
Theorem derived_explicit_visible_iff d listed empties psub order i :
  NoDup (d_ids d) -> is_derived d i ->
  display_order d (ByAnchor (OExplicit listed)) empties psub = Ok order ->
  (In (Z.of_nat i) order <->
   ~ In i (hidden_idxs d) /\ ~ (d_prune d = true /\ In i empties)).
Proof.
  intros N [L D] E.
  rewrite (display_visible_iff d (ByAnchor (OExplicit listed)) empties psub order i N I E).
  tauto.
Qed.

(* whatever the collation (payload order, explicit order, sort by value, fallback) *)
Theorem derived_visible_iff d o empties psub order i :
  NoDup (d_ids d) -> values_fit d o -> is_derived d i ->
  display_order d o empties psub = Ok order ->
  (In (Z.of_nat i) order <->
   ~ In i (hidden_idxs d) /\ ~ (d_prune d = true /\ In i empties)).
Proof.
  intros N F [L D] E.
  rewrite (display_visible_iff d o empties psub order i N F E). tauto.
Qed.
