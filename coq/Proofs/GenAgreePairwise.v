(* Proofs/GenAgreePairwise.v -- GenAgree for C13, matrix path: what matrix/measure.py SAYS NOW for
     SecondOrderMeasures.pairwise_t_stats(column_idx)   -> _PairwiseSigTstats: the four blocks
         (_base_values / _subtotal_columns / _subtotal_rows / _intersections, each a call of
          _calculate_t_stats on that block of the column proportions and of _column_bases with the
          reference values _reference_values(0 | 1) gives for the selected column) and _column_bases
     SecondOrderMeasures.pairwise_p_vals(column_idx)    -> _PairwiseSigPvals.blocks
   denotes [pw_all] of Model/Pairwise.v -- the definition the theorems of Props/C13.v are about and
   the correspondence of harness/props/c13.py evaluates:

     t blocks  (signed square, [pev true]):  nth (2 bi + bj) (pw_all sel P.. N..)
               = t_tabs p n p0 n0 cell by cell, p0 / n0 read in the cell's own row from column
                 [sel] of the base block, or (sel < 0) column ncs + sel of the inserted-column block,
                 of the SAME block row;  the abs under the square root included
     bases     N = column_unweighted_bases, or with squared weights eff_block W SQ = W^2 / SQ
     p blocks  2 (1 - cdf(|T|, df)) with T = pairwise_t_stats(sel).blocks[bi][bj] (the SAME selected
               column) and df = nth (4 + 2 bi + bj) (pw_all ..) = n + n0 - 2, for every function cdf.

   [sel_ok]: the selected column exists (numpy raises IndexError otherwise; the model's [ref_col]
   is totalised there).  See GenAgreePairTac.v. *)
From Coq Require Import QArith Qabs ZArith List Bool Lia Arith String.
From CC Require Import Base.XQ Base.ListX Base.MeasureExp Base.PairExp Model.Pairwise Model.PairwiseP
     Gen.PairwiseSrc Proofs.GenAgreePairTac.
Import ListNotations.
Local Close Scope Q_scope.
Local Open Scope string_scope.
Local Open Scope nat_scope.

Definition pw_bases (flag : string -> bool) (blk : string -> nat -> nat -> list (list xq)) (bi bj : nat) :=
  if flag "columns_squared_base.is_defined"
  then eff_block (blk "column_weighted_bases" bi bj) (blk "column_squared_bases" bi bj)
  else blk "column_unweighted_bases" bi bj.

Definition pw_model (sel : Z) (flag : string -> bool) (blk : string -> nat -> nat -> list (list xq)) : list (list (list xq)) :=
  pw_all sel (blk "column_proportions" 0 0) (blk "column_proportions" 0 1)
             (blk "column_proportions" 1 0) (blk "column_proportions" 1 1)
             (pw_bases flag blk 0 0) (pw_bases flag blk 0 1) (pw_bases flag blk 1 0) (pw_bases flag blk 1 1).

Definition pw_shaped blk nr nc nrs ncs : Prop :=
  blk_shaped blk "column_proportions" nr nc nrs ncs /\
  blk_shaped blk "column_unweighted_bases" nr nc nrs ncs /\
  blk_shaped blk "column_weighted_bases" nr nc nrs ncs /\
  blk_shaped blk "column_squared_bases" nr nc nrs ncs.

Definition bcell flag (blk : string -> nat -> nat -> list (list xq)) (bi bj i j : nat) : xq :=
  if flag "columns_squared_base.is_defined" : bool
  then eff_base (mnth (blk "column_weighted_bases" bi bj) i j) (mnth (blk "column_squared_bases" bi bj) i j)
  else mnth (blk "column_unweighted_bases" bi bj) i j.
Definition rbj (sel : Z) : nat := if (sel <? 0)%Z then 1 else 0.
Definition rix (sel : Z) (ncs : nat) : nat :=
  if (sel <? 0)%Z then Z.to_nat (Z.of_nat ncs + sel) else Z.to_nat sel.
Definition pw_tcell sel ncs flag blk (bi bj i j : nat) : xq :=
  t_tabs (mnth (blk "column_proportions" bi bj) i j) (bcell flag blk bi bj i j)
         (mnth (blk "column_proportions" bi (rbj sel)) i (rix sel ncs))
         (bcell flag blk bi (rbj sel) i (rix sel ncs)).
Definition pw_dfcell sel ncs flag blk (bi bj i j : nat) : xq :=
  t_df (bcell flag blk bi bj i j) (bcell flag blk bi (rbj sel) i (rix sel ncs)).

Lemma blk_shaped_at blk m nr nc nrs ncs bi bj : blk_shaped blk m nr nc nrs ncs -> bi < 2 -> bj < 2 ->
  shaped (blk m bi bj) (rsz nr nrs bi) (csz nc ncs bj).
Proof.
  intros [H00 [H01 [H10 H11]]] Hbi Hbj.
  destruct bi as [|[|bi]], bj as [|[|bj]]; try lia; assumption.
Qed.

Lemma tab2_ncols nr nc f : 0 < nr -> ncols (tab2 nr nc f) = nc.
Proof.
  intros H. unfold tab2, tab, ncols. destruct nr; [lia|]. simpl. rewrite map_length, seq_length. reflexivity.
Qed.

Lemma pw_bases_shaped flag blk nr nc nrs ncs bi bj : pw_shaped blk nr nc nrs ncs -> bi < 2 -> bj < 2 ->
  0 < rsz nr nrs bi ->
  shaped (pw_bases flag blk bi bj) (rsz nr nrs bi) (csz nc ncs bj).
Proof.
  intros [_ [HU [HW _]]] Hbi Hbj Hpos. unfold pw_bases.
  destruct (flag _).
  - destruct (blk_shaped_at _ _ _ _ _ _ _ _ HW Hbi Hbj) as [Hr Hc]. specialize (Hc Hpos).
    unfold eff_block. rewrite Hr, Hc. split; [apply tab2_nrows|intros _; apply tab2_ncols; exact Hpos].
  - exact (blk_shaped_at _ _ _ _ _ _ _ _ HU Hbi Hbj).
Qed.

Lemma pw_bases_mnth flag blk nr nc nrs ncs bi bj i j : pw_shaped blk nr nc nrs ncs -> bi < 2 -> bj < 2 ->
  i < rsz nr nrs bi -> j < csz nc ncs bj ->
  mnth (pw_bases flag blk bi bj) i j = bcell flag blk bi bj i j.
Proof.
  intros [_ [HU [HW _]]] Hbi Hbj Hi Hj. unfold pw_bases, bcell.
  destruct (flag _); [|reflexivity].
  destruct (blk_shaped_at _ _ _ _ _ _ _ _ HW Hbi Hbj) as [Hr Hc]. shape_use.
  unfold eff_block. rewrite Hr, Hc. rewrite tab2_mnth by assumption. reflexivity.
Qed.

Lemma rix_lt sel nc ncs : sel_ok sel nc ncs -> rix sel ncs < csz nc ncs (rbj sel).
Proof.
  unfold sel_ok, rix, rbj. intros H. destruct (sel <? 0)%Z eqn:E; simpl.
  - apply Z.ltb_lt in E. lia.
  - apply Z.ltb_ge in E. lia.
Qed.

Lemma ref_col_vnth sel (base ins : list (list xq)) n ncs i :
  nrows base = n -> shaped ins n ncs -> i < n ->
  vnth (ref_col sel base ins) i = mnth (if (sel <? 0)%Z then ins else base) i (rix sel ncs).
Proof.
  intros Hb [Hir Hic] Hi. shape_use. unfold ref_col, rix. destruct (sel <? 0)%Z.
  - rewrite Hic. apply mcol_vnth' with (n := n); assumption.
  - apply mcol_vnth' with (n := n); assumption.
Qed.

Lemma pw_model_cell sel flag blk nr nc nrs ncs bi bj i j :
  pw_shaped blk nr nc nrs ncs -> sel_ok sel nc ncs -> bi < 2 -> bj < 2 ->
  i < rsz nr nrs bi -> j < csz nc ncs bj ->
  mnth (nth (2 * bi + bj) (pw_model sel flag blk) []) i j = pw_tcell sel ncs flag blk bi bj i j /\
  mnth (nth (4 + 2 * bi + bj) (pw_model sel flag blk) []) i j = pw_dfcell sel ncs flag blk bi bj i j.
Proof.
  intros HS Hsel Hbi Hbj Hi Hj.
  assert (Hpos : 0 < rsz nr nrs bi) by lia.
  assert (Hr : rbj sel < 2) by (unfold rbj; destruct (sel <? 0)%Z; lia).
  pose proof (rix_lt _ _ _ Hsel) as Hrix.
  pose proof HS as [HP _].
  assert (HP' := fun b Hb => blk_shaped_at _ _ _ _ _ _ bi b HP Hbi Hb).
  assert (HN' := fun b Hb => pw_bases_shaped flag _ _ _ _ _ bi b HS Hbi Hb Hpos).
  assert (Href_p : vnth (ref_col sel (blk "column_proportions" bi 0) (blk "column_proportions" bi 1)) i =
                   mnth (blk "column_proportions" bi (rbj sel)) i (rix sel ncs)).
  { rewrite (ref_col_vnth sel _ _ (rsz nr nrs bi) ncs i); [|apply (HP' 0); lia|apply (HP' 1); lia|exact Hi].
    unfold rbj. destruct (sel <? 0)%Z; reflexivity. }
  assert (Href_n : vnth (ref_col sel (pw_bases flag blk bi 0) (pw_bases flag blk bi 1)) i =
                   bcell flag blk bi (rbj sel) i (rix sel ncs)).
  { rewrite (ref_col_vnth sel _ _ (rsz nr nrs bi) ncs i); [|apply (HN' 0); lia|apply (HN' 1); lia|exact Hi].
    rewrite <- (pw_bases_mnth flag blk nr nc nrs ncs bi (rbj sel) i (rix sel ncs)) by assumption.
    unfold rbj. destruct (sel <? 0)%Z; reflexivity. }
  destruct (HP' bj Hbj) as [HPr HPc].
  destruct (HN' bj Hbj) as [HNr HNc]. shape_use.
  unfold pw_tcell, pw_dfcell.
  rewrite <- Href_p, <- Href_n, <- (pw_bases_mnth flag blk nr nc nrs ncs bi bj i j) by assumption.
  unfold pw_model, pw_all.
  destruct bi as [|[|bi]], bj as [|[|bj]]; try lia; simpl nth;
    unfold pw_tblock, pw_dfblock; rewrite ?HPr, ?HPc, ?HNr, ?HNc;
    (split; rewrite tab2_mnth by assumption; reflexivity).
Qed.

Ltac pw_cases sel flag Hf Hs Hsb Hsel' :=
  destruct (flag "columns_squared_base.is_defined") eqn:Hf;
  destruct (sel <? 0)%Z eqn:Hsb;
  pose proof Hsb as Hs;
  [apply Z.ltb_lt in Hs | apply Z.ltb_ge in Hs | apply Z.ltb_lt in Hs | apply Z.ltb_ge in Hs];
  first [rewrite !nidx_neg by lia | rewrite !nidx_pos by lia].

Ltac pw_size_split i j Hi Hj :=
  lazymatch goal with
  | |- context [Nat.eqb (?a * ?b) 0] =>
      let Hz := fresh "Hz" in
      destruct (Nat.eqb (a * b) 0) eqn:Hz; pair_eval;
      [ try (pcells i j Hi Hj; exfalso; exact (mul_eq0_lt _ _ _ _ Hz Hi Hj)) | pcells i j Hi Hj ]
  | |- _ => pair_eval; pcells i j Hi Hj
  end.

Ltac gen_pw_t bi bj :=
  punfold_srcs;
  lazymatch goal with
  | |- True => exact I
  | _ =>
      let Hf := fresh "Hf" in let Hs := fresh "Hs" in let Hsb := fresh "Hsb" in
      let Hsel' := fresh "Hsel'" in let i := fresh "i" in let j := fresh "j" in
      let Hi := fresh "Hi" in let Hj := fresh "Hj" in let Ht := fresh "Ht" in let Hd := fresh "Hd" in
      intros nr nc nrs ncs sel blk pblk cubem flag cdf HS Hsel;
      pose proof Hsel as Hsel'; unfold sel_ok in Hsel';
      pair_eval;
      pw_cases sel flag Hf Hs Hsb Hsel';
      pair_eval;
      pw_size_split i j Hi Hj;
      (destruct (pw_model_cell sel flag blk nr nc nrs ncs bi bj i j HS Hsel ltac:(lia) ltac:(lia) Hi Hj)
         as [Ht Hd];
       cbv [Nat.mul Nat.add] in Ht;
       rewrite Ht;
       unfold pw_tcell, bcell, rbj, rix, t_tabs, prop_var, eff_base, ssq;
       rewrite Hf, Hsb, sqrt_guard_abs; reflexivity)
  end.

Lemma gen_PairwiseSigTstats_blocks_00 :
  match src_PairwiseSigTstats_blocks_00 with
  | Some e => forall nr nc nrs ncs sel blk pblk cubem flag cdf,
      pw_shaped blk nr nc nrs ncs -> sel_ok sel nc ncs ->
      pagrees_mat (penv_std nr nc nrs ncs sel blk pblk cubem flag cdf)
                  (pev true (penv_std nr nc nrs ncs sel blk pblk cubem flag cdf) e) DR DC
                  (mnth (nth 0 (pw_model sel flag blk) []))
  | None => True
  end.
Proof. gen_pw_t 0 0. Qed.

Lemma gen_PairwiseSigTstats_blocks_01 :
  match src_PairwiseSigTstats_blocks_01 with
  | Some e => forall nr nc nrs ncs sel blk pblk cubem flag cdf,
      pw_shaped blk nr nc nrs ncs -> sel_ok sel nc ncs ->
      pagrees_mat (penv_std nr nc nrs ncs sel blk pblk cubem flag cdf)
                  (pev true (penv_std nr nc nrs ncs sel blk pblk cubem flag cdf) e) DR DCS
                  (mnth (nth 1 (pw_model sel flag blk) []))
  | None => True
  end.
Proof. gen_pw_t 0 1. Qed.

Lemma gen_PairwiseSigTstats_blocks_10 :
  match src_PairwiseSigTstats_blocks_10 with
  | Some e => forall nr nc nrs ncs sel blk pblk cubem flag cdf,
      pw_shaped blk nr nc nrs ncs -> sel_ok sel nc ncs ->
      pagrees_mat (penv_std nr nc nrs ncs sel blk pblk cubem flag cdf)
                  (pev true (penv_std nr nc nrs ncs sel blk pblk cubem flag cdf) e) DRS DC
                  (mnth (nth 2 (pw_model sel flag blk) []))
  | None => True
  end.
Proof. gen_pw_t 1 0. Qed.

Lemma gen_PairwiseSigTstats_blocks_11 :
  match src_PairwiseSigTstats_blocks_11 with
  | Some e => forall nr nc nrs ncs sel blk pblk cubem flag cdf,
      pw_shaped blk nr nc nrs ncs -> sel_ok sel nc ncs ->
      pagrees_mat (penv_std nr nc nrs ncs sel blk pblk cubem flag cdf)
                  (pev true (penv_std nr nc nrs ncs sel blk pblk cubem flag cdf) e) DRS DCS
                  (mnth (nth 3 (pw_model sel flag blk) []))
  | None => True
  end.
Proof. gen_pw_t 1 1. Qed.

Ltac gen_pw_bases bi bj :=
  punfold_srcs;
  lazymatch goal with
  | |- True => exact I
  | _ =>
      let Hf := fresh "Hf" in let i := fresh "i" in let j := fresh "j" in
      let Hi := fresh "Hi" in let Hj := fresh "Hj" in
      intros nr nc nrs ncs sel blk pblk cubem flag cdf HS;
      pair_eval;
      destruct (flag "columns_squared_base.is_defined") eqn:Hf;
      pcells i j Hi Hj;
      rewrite (pw_bases_mnth flag blk nr nc nrs ncs bi bj i j HS ltac:(lia) ltac:(lia) Hi Hj);
      unfold bcell, eff_base; rewrite Hf; reflexivity
  end.

Lemma gen_PairwiseSigTstats__column_bases_00 :
  match src_PairwiseSigTstats__column_bases_00 with
  | Some e => forall nr nc nrs ncs sel blk pblk cubem flag cdf,
      pw_shaped blk nr nc nrs ncs ->
      pagrees_mat (penv_std nr nc nrs ncs sel blk pblk cubem flag cdf)
                  (pev false (penv_std nr nc nrs ncs sel blk pblk cubem flag cdf) e) DR DC
                  (mnth (pw_bases flag blk 0 0))
  | None => True
  end.
Proof. gen_pw_bases 0 0. Qed.

Lemma gen_PairwiseSigTstats__column_bases_01 :
  match src_PairwiseSigTstats__column_bases_01 with
  | Some e => forall nr nc nrs ncs sel blk pblk cubem flag cdf,
      pw_shaped blk nr nc nrs ncs ->
      pagrees_mat (penv_std nr nc nrs ncs sel blk pblk cubem flag cdf)
                  (pev false (penv_std nr nc nrs ncs sel blk pblk cubem flag cdf) e) DR DCS
                  (mnth (pw_bases flag blk 0 1))
  | None => True
  end.
Proof. gen_pw_bases 0 1. Qed.

Lemma gen_PairwiseSigTstats__column_bases_10 :
  match src_PairwiseSigTstats__column_bases_10 with
  | Some e => forall nr nc nrs ncs sel blk pblk cubem flag cdf,
      pw_shaped blk nr nc nrs ncs ->
      pagrees_mat (penv_std nr nc nrs ncs sel blk pblk cubem flag cdf)
                  (pev false (penv_std nr nc nrs ncs sel blk pblk cubem flag cdf) e) DRS DC
                  (mnth (pw_bases flag blk 1 0))
  | None => True
  end.
Proof. gen_pw_bases 1 0. Qed.

Lemma gen_PairwiseSigTstats__column_bases_11 :
  match src_PairwiseSigTstats__column_bases_11 with
  | Some e => forall nr nc nrs ncs sel blk pblk cubem flag cdf,
      pw_shaped blk nr nc nrs ncs ->
      pagrees_mat (penv_std nr nc nrs ncs sel blk pblk cubem flag cdf)
                  (pev false (penv_std nr nc nrs ncs sel blk pblk cubem flag cdf) e) DRS DCS
                  (mnth (pw_bases flag blk 1 1))
  | None => True
  end.
Proof. gen_pw_bases 1 1. Qed.

Definition pw_pcell (cdf : xq -> xq -> xq) (sel : Z) flag blk
           (pblk : string -> Z -> nat -> nat -> list (list xq)) (bi bj i j : nat) : xq :=
  pval_x cdf (ssq (mnth (pblk "pairwise_t_stats" sel bi bj) i j))
         (mnth (nth (4 + 2 * bi + bj) (pw_model sel flag blk) []) i j).

Ltac gen_pw_p bi bj :=
  punfold_srcs;
  lazymatch goal with
  | |- True => exact I
  | _ =>
      let Hf := fresh "Hf" in let Hs := fresh "Hs" in let Hsb := fresh "Hsb" in
      let Hsel' := fresh "Hsel'" in let i := fresh "i" in let j := fresh "j" in
      let Hi := fresh "Hi" in let Hj := fresh "Hj" in let Ht := fresh "Ht" in let Hd := fresh "Hd" in
      intros nr nc nrs ncs sel blk pblk cubem flag cdf HS Hsel;
      pose proof Hsel as Hsel'; unfold sel_ok in Hsel';
      pair_eval;
      pw_cases sel flag Hf Hs Hsb Hsel';
      pair_eval;
      pw_size_split i j Hi Hj;
      (destruct (pw_model_cell sel flag blk nr nc nrs ncs bi bj i j HS Hsel ltac:(lia) ltac:(lia) Hi Hj)
         as [Ht Hd];
       unfold pw_pcell; rewrite Hd;
       unfold pw_dfcell, bcell, rbj, rix, t_df, eff_base, pval_x;
       rewrite Hf, Hsb; reflexivity)
  end.

Lemma gen_PairwiseSigPvals_blocks_00 :
  match src_PairwiseSigPvals_blocks_00 with
  | Some e => forall nr nc nrs ncs sel blk pblk cubem flag cdf,
      pw_shaped blk nr nc nrs ncs -> sel_ok sel nc ncs ->
      pagrees_mat (penv_std nr nc nrs ncs sel blk pblk cubem flag cdf)
                  (pev false (penv_std nr nc nrs ncs sel blk pblk cubem flag cdf) e) DR DC
                  (pw_pcell cdf sel flag blk pblk 0 0)
  | None => True
  end.
Proof. gen_pw_p 0 0. Qed.

Lemma gen_PairwiseSigPvals_blocks_01 :
  match src_PairwiseSigPvals_blocks_01 with
  | Some e => forall nr nc nrs ncs sel blk pblk cubem flag cdf,
      pw_shaped blk nr nc nrs ncs -> sel_ok sel nc ncs ->
      pagrees_mat (penv_std nr nc nrs ncs sel blk pblk cubem flag cdf)
                  (pev false (penv_std nr nc nrs ncs sel blk pblk cubem flag cdf) e) DR DCS
                  (pw_pcell cdf sel flag blk pblk 0 1)
  | None => True
  end.
Proof. gen_pw_p 0 1. Qed.

Lemma gen_PairwiseSigPvals_blocks_10 :
  match src_PairwiseSigPvals_blocks_10 with
  | Some e => forall nr nc nrs ncs sel blk pblk cubem flag cdf,
      pw_shaped blk nr nc nrs ncs -> sel_ok sel nc ncs ->
      pagrees_mat (penv_std nr nc nrs ncs sel blk pblk cubem flag cdf)
                  (pev false (penv_std nr nc nrs ncs sel blk pblk cubem flag cdf) e) DRS DC
                  (pw_pcell cdf sel flag blk pblk 1 0)
  | None => True
  end.
Proof. gen_pw_p 1 0. Qed.

Lemma gen_PairwiseSigPvals_blocks_11 :
  match src_PairwiseSigPvals_blocks_11 with
  | Some e => forall nr nc nrs ncs sel blk pblk cubem flag cdf,
      pw_shaped blk nr nc nrs ncs -> sel_ok sel nc ncs ->
      pagrees_mat (penv_std nr nc nrs ncs sel blk pblk cubem flag cdf)
                  (pev false (penv_std nr nc nrs ncs sel blk pblk cubem flag cdf) e) DRS DCS
                  (pw_pcell cdf sel flag blk pblk 1 1)
  | None => True
  end.
Proof. gen_pw_p 1 1. Qed.

