(* GOLDEN obligations of the wiring translator for C04 (generated ONCE by tools/gen_wiring_props.py,
   then committed): what each public member of cubepart.py that C04 relies on IS, as a term of
   Base/WiringExp.v.  Gen/WiringSrc.v is regenerated from /repo on every check; an edit of the
   public layer that changes one of these members breaks the lemma below (reflexivity). *)
From Coq Require Import List ZArith String.
From CC Require Import Base.WiringExp Gen.WiringSrc.
Import ListNotations.
Local Open Scope string_scope.

(* _Slice._assemble_vector *)
Lemma gen_wiring_Slice__assemble_vector :
  wsrc_Slice__assemble_vector = Some (WCall (WGlobal "__defaults__") [WIndex (WCall (WAttr (WGlobal
      "np") "hstack") [WList [WVar "base_vector"; WCall (WAttr (WGlobal "np") "array") [WComp "list"
      (WIf (WBoolOp "and" [WVar "diffs_nan"; WCmp ">" (WCall (WGlobal "len") [WAttr (WVar
      "subtotal") "subtrahend_idxs"] []) (WInt (0)%Z)]) (WNaN) (WBin "-" (WCall (WAttr (WGlobal
      "np") "sum") [WIndex (WVar "base_vector") [WAttr (WVar "subtotal") "addend_idxs"]] []) (WCall
      (WAttr (WGlobal "np") "sum") [WIndex (WVar "base_vector") [WAttr (WVar "subtotal")
      "subtrahend_idxs"]] []))) [(["subtotal"], WVar "subtotals", [])]] []]] []) [WVar "order"]]
      [("diffs_nan", WFalse)]).
Proof. reflexivity. Qed.
