(* GOLDEN obligations of the wiring translator for C04 (generated ONCE by tools/gen_wiring_props.py,
   then committed): what each public member of cubepart.py that C04 relies on IS, as a term of
   Base/WiringExp.v.  Gen/WiringSrc.v is regenerated from /repo on every check; an edit of the
   public layer that changes one of these members breaks the lemma below (reflexivity). *)
From Coq Require Import List ZArith String.
From CC Require Import Base.WiringExp Gen.WiringSrc.
Import ListNotations.
Local Open Scope string_scope.

(* _Slice._assemble_vector *)
Lemma gen_wiring_Slice__assemble_vector :
  wsrc_Slice__assemble_vector = Some (WCall (WGlobal "__defaults__") [WIndex (WCall (WAttr (WGlobal
      "np") "hstack") [WList [WVar "base_vector"; WCall (WAttr (WGlobal "np") "array") [WComp "list"
      (WIf (WBoolOp "and" [WVar "diffs_nan"; WCmp ">" (WCall (WGlobal "len") [WAttr (WVar
      "subtotal") "subtrahend_idxs"] []) (WInt (0)%Z)]) (WNaN) (WBin "-" (WCall (WAttr (WGlobal
      "np") "sum") [WIndex (WVar "base_vector") [WAttr (WVar "subtotal") "addend_idxs"]] []) (WCall
      (WAttr (WGlobal "np") "sum") [WIndex (WVar "base_vector") [WAttr (WVar "subtotal")
      "subtrahend_idxs"]] []))) [(["subtotal"], WVar "subtotals", [])]] []]] []) [WVar "order"]]
      [("diffs_nan", WFalse)]).
Proof. reflexivity. Qed.

(* BaseSecondOrderMeasure.blocks *)
Lemma gen_wiring_BaseSecondOrderMeasure_blocks :
  wsrc_BaseSecondOrderMeasure_blocks = Some (WList [WList [WSelf "_base_values"; WSelf
      "_subtotal_columns"]; WList [WSelf "_subtotal_rows"; WSelf "_intersections"]]).
Proof. reflexivity. Qed.

(* BaseSecondOrderMeasure._base_values *)
Lemma gen_wiring_BaseSecondOrderMeasure__base_values :
  wsrc_BaseSecondOrderMeasure__base_values = Some (WRaise "NotImplementedError").
Proof. reflexivity. Qed.

(* BaseSecondOrderMeasure._intersections *)
Lemma gen_wiring_BaseSecondOrderMeasure__intersections :
  wsrc_BaseSecondOrderMeasure__intersections = Some (WRaise "NotImplementedError").
Proof. reflexivity. Qed.

(* BaseSecondOrderMeasure._subtotal_columns *)
Lemma gen_wiring_BaseSecondOrderMeasure__subtotal_columns :
  wsrc_BaseSecondOrderMeasure__subtotal_columns = Some (WRaise "NotImplementedError").
Proof. reflexivity. Qed.

(* BaseSecondOrderMeasure._subtotal_rows *)
Lemma gen_wiring_BaseSecondOrderMeasure__subtotal_rows :
  wsrc_BaseSecondOrderMeasure__subtotal_rows = Some (WRaise "NotImplementedError").
Proof. reflexivity. Qed.

(* StripeBaseSecondOrderMeasure.base_values *)
Lemma gen_wiring_StripeBaseSecondOrderMeasure_base_values :
  wsrc_StripeBaseSecondOrderMeasure_base_values = Some (WRaise "NotImplementedError").
Proof. reflexivity. Qed.

(* StripeBaseSecondOrderMeasure.blocks *)
Lemma gen_wiring_StripeBaseSecondOrderMeasure_blocks :
  wsrc_StripeBaseSecondOrderMeasure_blocks = Some (WTuple [WSelf "base_values"; WSelf
      "subtotal_values"]).
Proof. reflexivity. Qed.

(* StripeBaseSecondOrderMeasure.subtotal_values *)
Lemma gen_wiring_StripeBaseSecondOrderMeasure_subtotal_values :
  wsrc_StripeBaseSecondOrderMeasure_subtotal_values = Some (WRaise "NotImplementedError").
Proof. reflexivity. Qed.
