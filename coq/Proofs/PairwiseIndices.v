(* Proofs about the index sets of Model/Pairwise.v (property C13): definition of the sets,
   display-position translation and equivariance under any column order / hiding /
   insertion, primary-in-secondary, exclusion of the column itself, alpha parsing. *)
From Coq Require Import QArith Qabs ZArith List Bool Lia Arith Setoid Morphisms Lqa Sorted.
From CC Require Import Base.XQ Base.ListX Model.Pairwise Proofs.PairwiseXQ.
Import ListNotations.
Local Close Scope Q_scope.
Local Open Scope nat_scope.

(* ---- one decision ------------------------------------------------------------------------ *)
Lemma sig_cell_spec alpha ol p t :
  sig_cell alpha ol p t = true <->
  xltb p (Fin alpha) = true /\ (ol = true -> xltb t (Fin 0) = true).
Proof.
  unfold sig_cell. rewrite andb_true_iff, orb_true_iff, negb_true_iff. split.
  - intros [H1 [H2|H2]]; split; auto. intros E. congruence.
  - intros [H1 H2]. split; auto. destruct ol; auto.
Qed.

(* ---- the set of one row --------------------------------------------------------------------- *)
Theorem indices_row_spec alpha ol own pv tv j :
  In j (indices_row alpha ol own pv tv) <->
  j < length pv /\ j <> own /\ xltb (vnth pv j) (Fin alpha) = true /\
  (ol = true -> xltb (vnth tv j) (Fin 0) = true).
Proof.
  unfold indices_row. rewrite filter_In, in_seq, andb_true_iff, negb_true_iff,
    Nat.eqb_neq, sig_cell_spec. split.
  - intros [[_ H] [Hn [H1 H2]]]. auto.
  - intros [H [Hn [H1 H2]]]. split; [lia|auto].
Qed.

Theorem indices_row_nodup alpha ol own pv tv : NoDup (indices_row alpha ol own pv tv).
Proof. unfold indices_row. apply NoDup_filter. apply seq_NoDup. Qed.

Lemma filter_seq_sorted (f : nat -> bool) s n :
  StronglySorted lt (filter f (seq s n)).
Proof.
  revert s. induction n as [|n IH]; intros s; simpl; [constructor|].
  destruct (f s).
  - constructor; [apply IH|]. apply Forall_forall. intros x Hx.
    apply filter_In in Hx as [Hx _]. apply in_seq in Hx. lia.
  - apply IH.
Qed.

Theorem indices_row_sorted alpha ol own pv tv : StronglySorted lt (indices_row alpha ol own pv tv).
Proof. apply filter_seq_sorted. Qed.

Theorem indices_col_row alpha ol own P T i : i < nrows P ->
  nth i (indices_col alpha ol own P T) [] = indices_row alpha ol own (mrow P i) (mrow T i).
Proof. intros H. unfold indices_col. rewrite (tab_nth (nrows P) _ [] i H). reflexivity. Qed.

(* ---- secondary alpha ---------------------------------------------------------------------------- *)
Theorem alt_superset_row (a b : Q) ol own pv tv : (a <= b)%Q ->
  incl (indices_row a ol own pv tv) (indices_row b ol own pv tv).
Proof.
  intros H j. rewrite !indices_row_spec. intros [H1 [Hn [H2 H3]]].
  split; [exact H1|]. split; [exact Hn|]. split; [|exact H3]. apply (xltb_mono_r _ a b H H2).
Qed.

(* ---- the column itself ---------------------------------------------------------------------------- *)
(* the own position is never in the set: for every p, t, alpha and only-larger flag *)
Theorem indices_row_self_excluded alpha ol own pv tv : ~ In own (indices_row alpha ol own pv tv).
Proof. rewrite indices_row_spec. intros [_ [H _]]. apply H. reflexivity. Qed.

(* ... in every row of the matrices of the selected column (rows beyond the matrix: empty) *)
Theorem indices_col_self_excluded alpha ol own P T i :
  ~ In own (nth i (indices_col alpha ol own P T) []).
Proof.
  destruct (Nat.lt_ge_cases i (nrows P)) as [H|H].
  - rewrite indices_col_row by exact H. apply indices_row_self_excluded.
  - rewrite nth_overflow; [intros []|]. unfold indices_col. rewrite tab_length. exact H.
Qed.

(* p(c,c) is 1 (t = 0) or NaN (0/0) on the column-proportion and means paths: the threshold
   test alone already rejects it *)
Theorem self_excluded_p_one alpha ol t : (alpha <= 1)%Q -> sig_cell alpha ol (Fin 1) t = false.
Proof.
  intros H. unfold sig_cell.
  assert (E : xltb (Fin 1) (Fin alpha) = false) by (apply xltb_fin_false; exact H).
  rewrite E. reflexivity.
Qed.

Theorem self_excluded_p_nan alpha ol t : sig_cell alpha ol NaN t = false.
Proof. reflexivity. Qed.

(* in only-larger mode a zero (or NaN) statistic is never reported, whatever its p-value *)
Theorem self_excluded_only_larger alpha p : sig_cell alpha true p (Fin 0) = false /\
                                            sig_cell alpha true p NaN = false.
Proof.
  unfold sig_cell. split.
  - assert (E : xltb (Fin 0) (Fin 0) = false) by (apply xltb_fin_false; apply Qle_refl).
    rewrite E. simpl. apply andb_false_r.
  - simpl. destruct p as [q|[|]|]; simpl; try reflexivity. apply andb_false_r.
Qed.

(* the overlap path reports p = 0 for a column against itself: for EVERY alpha > 0 the
   threshold test with only_larger off accepts it - and still the own position is not listed *)
Theorem overlap_self_not_listed (alpha : Q) ol own pv tv :
  (0 < alpha)%Q -> vnth pv own = ov_p_self ->
  sig_cell alpha false (vnth pv own) (Fin 0) = true /\
  ~ In own (indices_row alpha ol own pv tv).
Proof.
  intros Ha E. split; [|apply indices_row_self_excluded].
  rewrite E. unfold sig_cell, ov_p_self. simpl orb. rewrite andb_true_r.
  apply xltb_fin. exact Ha.
Qed.

(* ---- display positions ---------------------------------------------------------------------------- *)
Theorem display_set_spec alpha ol Pm Tm ord row dc dj :
  In dj (display_set alpha ol Pm Tm ord row dc) <->
  dj < length ord /\ dj <> dc /\
  sig_cell alpha ol (mnth (Pm (nth dc ord 0)) row (nth dj ord 0))
                    (mnth (Tm (nth dc ord 0)) row (nth dj ord 0)) = true.
Proof.
  unfold display_set. rewrite filter_In, in_seq, andb_true_iff, negb_true_iff, Nat.eqb_neq. split.
  - intros [[_ H] [Hn H1]]. auto.
  - intros [H [Hn H1]]. split; [lia|auto].
Qed.

Theorem display_set_self_excluded alpha ol Pm Tm ord row dc :
  ~ In dc (display_set alpha ol Pm Tm ord row dc).
Proof. rewrite display_set_spec. intros [_ [H _]]. apply H. reflexivity. Qed.

(* a display shows every payload column at most once: positions and payload columns correspond *)
Lemma nodup_pos_iff (ord : list nat) dj dc : NoDup ord -> dj < length ord -> dc < length ord ->
  (dj <> dc <-> nth dj ord 0 <> nth dc ord 0).
Proof.
  intros ND H1 H2. split.
  - intros Hn E. apply Hn. apply (proj1 (NoDup_nth ord 0) ND dj dc H1 H2 E).
  - intros Hn E. apply Hn. rewrite E. reflexivity.
Qed.

(* the reported positions denote exactly the shown payload columns b, OTHER than the cell's own
   payload column s, that are significant against s - it depends on [ord] only through
   "b is shown" *)
Theorem display_set_payload alpha ol Pm Tm ord row dc b :
  NoDup ord -> dc < length ord ->
  (In b (map (fun dj => nth dj ord 0) (display_set alpha ol Pm Tm ord row dc)) <->
   In b ord /\ b <> nth dc ord 0 /\
   sig_cell alpha ol (mnth (Pm (nth dc ord 0)) row b) (mnth (Tm (nth dc ord 0)) row b) = true).
Proof.
  intros ND Hdc. rewrite in_map_iff. split.
  - intros [dj [E H]]. apply display_set_spec in H as [H1 [Hn H2]]. subst b.
    split; [apply nth_In; exact H1|]. split; [|exact H2].
    apply (nodup_pos_iff ord dj dc ND H1 Hdc). exact Hn.
  - intros [H1 [Hn H2]]. apply (In_nth _ _ 0) in H1 as [dj [Hlt E]].
    exists dj. split; [exact E|]. apply display_set_spec. rewrite E.
    split; [exact Hlt|]. split; [|exact H2].
    apply (nodup_pos_iff ord dj dc ND Hlt Hdc). rewrite E. exact Hn.
Qed.

(* the own payload column is never among the reported ones *)
Theorem display_set_payload_self_excluded alpha ol Pm Tm ord row dc :
  NoDup ord -> dc < length ord ->
  ~ In (nth dc ord 0) (map (fun dj => nth dj ord 0) (display_set alpha ol Pm Tm ord row dc)).
Proof.
  intros ND Hdc H. apply (display_set_payload alpha ol Pm Tm ord row dc _ ND Hdc) in H.
  destruct H as [_ [H _]]. apply H. reflexivity.
Qed.

(* equivariance: two arbitrary displays (any permutation, hidden columns, inserted columns);
   the cells showing the same payload column report the same payload columns, as far as both
   displays show them (the own column corresponds to the own column) *)
Theorem display_set_equivariant alpha ol Pm Tm ord ord' row dc dc' b :
  NoDup ord -> NoDup ord' -> dc < length ord -> dc' < length ord' ->
  nth dc ord 0 = nth dc' ord' 0 -> In b ord -> In b ord' ->
  (In b (map (fun dj => nth dj ord 0) (display_set alpha ol Pm Tm ord row dc)) <->
   In b (map (fun dj => nth dj ord' 0) (display_set alpha ol Pm Tm ord' row dc'))).
Proof.
  intros ND ND' Hdc Hdc' E H1 H2.
  rewrite (display_set_payload alpha ol Pm Tm ord row dc b ND Hdc).
  rewrite (display_set_payload alpha ol Pm Tm ord' row dc' b ND' Hdc').
  rewrite E. tauto.
Qed.

(* positional form: same payload columns at (dc, dj) and (dc', dj') => same decision *)
Theorem display_set_equivariant_pos alpha ol Pm Tm ord ord' row dc dc' dj dj' :
  NoDup ord -> NoDup ord' -> dc < length ord -> dc' < length ord' ->
  nth dc ord 0 = nth dc' ord' 0 -> nth dj ord 0 = nth dj' ord' 0 ->
  dj < length ord -> dj' < length ord' ->
  (In dj (display_set alpha ol Pm Tm ord row dc) <->
   In dj' (display_set alpha ol Pm Tm ord' row dc')).
Proof.
  intros ND ND' Hdc Hdc' E1 E2 H1 H2. rewrite !display_set_spec.
  rewrite (nodup_pos_iff ord dj dc ND H1 Hdc).
  rewrite (nodup_pos_iff ord' dj' dc' ND' H2 Hdc').
  rewrite E1, E2. tauto.
Qed.

Theorem display_set_alt_superset (a b : Q) ol Pm Tm ord row dc : (a <= b)%Q ->
  incl (display_set a ol Pm Tm ord row dc) (display_set b ol Pm Tm ord row dc).
Proof.
  intros H dj. rewrite !display_set_spec. intros [H1 [Hn H2]]. split; [exact H1|].
  split; [exact Hn|].
  apply sig_cell_spec in H2 as [H2 H3]. apply sig_cell_spec. split; [|exact H3].
  apply (xltb_mono_r _ a b H H2).
Qed.

(* ---- alpha parsing ------------------------------------------------------------------------------------ *)
Lemma in01_spec q : in01 q = true <-> (0 < q /\ q < 1)%Q.
Proof.
  unfold in01. destruct (Qlt_le_dec 0 q) as [L|L], (Qlt_le_dec q 1) as [L'|L']; simpl;
    split; try discriminate; auto; intros [A B]; exfalso; lra.
Qed.

Theorem alpha_parse_default : alpha_parse Av_falsy = A_ok (5 # 100) None.
Proof. reflexivity. Qed.

Theorem alpha_parse_type_error : alpha_parse Av_other = A_type_error.
Proof. reflexivity. Qed.

Theorem alpha_parse_float q :
  ((0 < q /\ q < 1)%Q -> alpha_parse (Av_float q) = A_ok q None) /\
  (~ (0 < q /\ q < 1)%Q -> alpha_parse (Av_float q) = A_value_error).
Proof.
  unfold alpha_parse. destruct (in01 q) eqn:E.
  - split; auto. intros H. exfalso. apply H. apply in01_spec. exact E.
  - split; auto. intros H. apply in01_spec in H. congruence.
Qed.

Theorem alpha_parse_single x :
  alpha_parse (Av_list [x]) = if item_ok x then A_ok (item_q x) None else A_value_error.
Proof. unfold alpha_parse. simpl. rewrite andb_true_r. reflexivity. Qed.

(* only the first two elements of a list count *)
Theorem alpha_parse_first_two x y rest :
  alpha_parse (Av_list (x :: y :: rest)) = alpha_parse (Av_list [x; y]).
Proof. reflexivity. Qed.

Theorem alpha_parse_pair a b :
  (0 < a /\ a < 1)%Q -> (0 < b /\ b < 1)%Q ->
  alpha_parse (Av_list [It_float a; It_float b]) =
  if Qlt_le_dec b a then A_ok b (Some a) else A_ok a (Some b).
Proof.
  intros Ha Hb. apply in01_spec in Ha, Hb. unfold alpha_parse. simpl. rewrite Ha, Hb. reflexivity.
Qed.

Theorem alpha_parse_pair_invalid x y :
  item_ok x && item_ok y = false -> alpha_parse (Av_list [x; y]) = A_value_error.
Proof.
  intros H. unfold alpha_parse. simpl. rewrite andb_true_r. rewrite H. reflexivity.
Qed.

(* whatever the spelling: a successful parse yields thresholds in (0,1), primary <= secondary *)
Theorem alpha_parse_sound v a alt :
  alpha_parse v = A_ok a alt ->
  (0 < a /\ a < 1)%Q /\
  (forall b, alt = Some b -> (0 < b /\ b < 1)%Q /\ (a <= b)%Q).
Proof.
  destruct v as [|q| |l]; simpl.
  - intros H. inversion H; subst. split; [split; reflexivity|]. intros b Hb. discriminate.
  - destruct (in01 q) eqn:E; [|discriminate]. intros H. inversion H; subst.
    split; [apply in01_spec; exact E|]. intros b Hb. discriminate.
  - discriminate.
  - destruct l as [|x [|y rest]].
    + intros H. inversion H; subst. split; [split; reflexivity|]. intros b Hb. discriminate.
    + simpl. rewrite andb_true_r. destruct (item_ok x) eqn:E; [|discriminate].
      intros H. inversion H; subst. destruct x as [q|]; [|discriminate].
      split; [apply in01_spec; exact E|]. intros b Hb. discriminate.
    + simpl. rewrite andb_true_r.
      destruct (item_ok x) eqn:Ex; [|discriminate]. destruct (item_ok y) eqn:Ey; [|discriminate].
      simpl. destruct x as [p|]; [|discriminate]. destruct y as [q|]; [|discriminate].
      simpl in *. apply in01_spec in Ex, Ey.
      destruct (Qlt_le_dec q p) as [L|L]; intros H; inversion H; subst.
      * split; [exact Ey|]. intros b Hb. inversion Hb; subst. split; [exact Ex|]. lra.
      * split; [exact Ex|]. intros b Hb. inversion Hb; subst. split; [exact Ey|]. exact L.
Qed.

(* hence the secondary sets contain the primary ones, for every accepted alpha spelling *)
Theorem alt_superset v a b ol own pv tv :
  alpha_parse v = A_ok a (Some b) ->
  incl (indices_row a ol own pv tv) (indices_row b ol own pv tv).
Proof.
  intros H. apply alt_superset_row.
  destruct (alpha_parse_sound v a (Some b) H) as [_ H2]. destruct (H2 b eq_refl) as [_ L]. exact L.
Qed.

Theorem only_larger_parse_table :
  only_larger_parse Ol_absent = true /\ only_larger_parse Ol_true = true /\
  only_larger_parse Ol_other = true /\ only_larger_parse Ol_false = false.
Proof. repeat split. Qed.
