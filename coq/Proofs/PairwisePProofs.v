(* Proofs about Model/PairwiseP.v: what the p-value definitions MEAN, for every function [cdf]
   (the stand-in of scipy.stats.t.cdf(|t|, df) as a function of t^2 and df). *)
From Coq Require Import QArith Qabs ZArith List Bool Lia Arith Lqa.
From CC Require Import Base.XQ Base.ListX Model.Pairwise Model.PairwiseP Proofs.PairwiseXQ.
Import ListNotations.
Local Close Scope Q_scope.
Local Open Scope nat_scope.

(* a CDF value c in [1/2, 1] at |t| >= 0 gives the two-sided p = 2 (1 - c) in [0, 1] *)
Theorem pval_x_range (cdf : xq -> xq -> xq) (tt df : xq) (c : Q) :
  cdf (xabs tt) df = Fin c -> (1 # 2 <= c)%Q -> (c <= 1)%Q ->
  exists p : Q, pval_x cdf tt df = Fin p /\ (p == 2 * (1 - c))%Q /\ (0 <= p)%Q /\ (p <= 1)%Q.
Proof.
  intros Hc H1 H2. unfold pval_x. rewrite Hc. simpl.
  exists (2 * (1 + - c))%Q. split; [reflexivity|]. split; [ring|]. split; lra.
Qed.

(* p depends on the statistic only through t^2 = |t*|t||: equal squares, equal p *)
Theorem pval_x_of_square (cdf : xq -> xq -> xq) (tt tt' df : xq) :
  xabs tt = xabs tt' -> pval_x cdf tt df = pval_x cdf tt' df.
Proof. intros H. unfold pval_x. rewrite H. reflexivity. Qed.

(* two-sidedness: t and -t have the same p (for a cdf that respects equality of rationals) *)
Theorem pval_x_even (cdf : xq -> xq -> xq) (tt df : xq) :
  (forall x y d, x =x= y -> cdf x d = cdf y d) ->
  pval_x cdf (xneg tt) df = pval_x cdf tt df.
Proof.
  intros Hr. unfold pval_x. rewrite (Hr (xabs (xneg tt)) (xabs tt) df (xabs_xneg tt)). reflexivity.
Qed.

(* t = 0 with cdf(0, df) = 1/2 gives p = 1 *)
Theorem pval_x_zero (cdf : xq -> xq -> xq) (df : xq) :
  cdf (Fin 0) df = Fin (1 # 2) -> pval_x cdf (Fin 0) df =x= Fin 1.
Proof. intros H. unfold pval_x. simpl. rewrite H. simpl. reflexivity. Qed.

Theorem pw_pblock_cell cdf TT N rn i j : i < nrows TT -> j < ncols TT ->
  mnth (pw_pblock cdf TT N rn) i j = pval_x cdf (mnth TT i j) (t_df (mnth N i j) (vnth rn i)).
Proof. intros Hi Hj. unfold pw_pblock. rewrite tab2_mnth by assumption. reflexivity. Qed.

(* means: no p-value against a selected SUBTOTAL column *)
Theorem welch_pblock_subtotal_nan cdf sel M S N i j : (sel < 0)%Z -> i < nrows M -> j < ncols M ->
  mnth (welch_pblock cdf sel M S N) i j = NaN.
Proof.
  intros Hs Hi Hj. unfold welch_pblock. rewrite (proj2 (Z.ltb_lt _ _) Hs).
  rewrite tab2_mnth by assumption. reflexivity.
Qed.

Theorem welch_pblock_cell cdf sel M S N i j : (0 <= sel)%Z -> i < nrows M -> j < ncols M ->
  mnth (welch_pblock cdf sel M S N) i j =
  pval_x cdf (mnth (welch_tblock sel M S N) i j) (mnth (welch_dfblock sel S N) i j).
Proof.
  intros Hs Hi Hj. unfold welch_pblock. rewrite (proj2 (Z.ltb_ge _ _) Hs).
  rewrite tab2_mnth by assumption. reflexivity.
Qed.

(* overlap path: the own column reports ov_p_self = 0 whatever the cdf; any other column the
   two-sided p at df - 2 degrees of freedom *)
Theorem ov_pblock_self cdf a CP S N i : i < nrows CP -> a < ncols CP ->
  mnth (ov_pblock cdf a CP S N) i a = ov_p_self.
Proof.
  intros Hi Ha. unfold ov_pblock. rewrite tab2_mnth by assumption. rewrite Nat.eqb_refl. reflexivity.
Qed.

Theorem ov_pblock_offdiag cdf a b CP S N i : i < nrows CP -> b < ncols CP -> b <> a ->
  mnth (ov_pblock cdf a CP S N) i b =
  pval_x cdf (mnth (ov_tblock a CP S N) i b)
         (xsub (ov_df (mnth (nth i N []) a a) (mnth (nth i N []) b b) (mnth (nth i N []) a b)) (Fin 2)).
Proof.
  intros Hi Hb Hab. unfold ov_pblock, ov_dfblock. rewrite !tab2_mnth by assumption.
  rewrite (proj2 (Nat.eqb_neq _ _) Hab). reflexivity.
Qed.

(* the probe CDF used by the correspondence leg is an exact rational function *)
Theorem cdf_probe_fin (xx df : Q) : ~ (xx + df * df + 1 == 0)%Q ->
  cdf_probe (Fin xx) (Fin df) = Fin (xx / (xx + df * df + 1))%Q.
Proof. intros H. unfold cdf_probe. simpl. apply xdiv_fin. exact H. Qed.
