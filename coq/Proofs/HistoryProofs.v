(* Proofs about Model/History.v (property C18): every read of every reachable state equals the
   read on pristine copies - by induction over the list of operations - and the caller-owned dicts
   are the pristine ones after any history.

   Since the repair of the in-place rewriting (commit 51c19c01) the induction needs NO hypothesis on
   the history, on the dicts or on the translation [shim]: not H1 (the translation does not raise
   and its result is a fixed point), not H2 (a dict is used with one dimension only).  The invariant
   is simply: the caller's dicts are the pristine ones, every object's cached translation is the
   translation of its pristine dict, every cached value is the value on pristine copies. *)
From Coq Require Import ZArith List Bool Lia Arith String.
From CC Require Import Base.Ident Model.Shim Model.History.
Import ListNotations.
Local Open Scope nat_scope.

Lemma set_nth_length {A} n (a : A) l : List.length (set_nth n a l) = List.length l.
Proof. revert n. induction l as [|b t IH]; intros [|n]; simpl; auto. Qed.

Lemma nth_error_set_nth_eq {A} n (a b : A) l :
  nth_error l n = Some b -> nth_error (set_nth n a l) n = Some a.
Proof.
  revert n. induction l as [|c t IH]; intros [|n]; simpl; intros H; try discriminate; auto.
Qed.

Lemma Forall2_nth_error {A B} (R : A -> B -> Prop) l l' n :
  Forall2 R l l' ->
  match nth_error l n, nth_error l' n with
  | Some a, Some b => R a b
  | None, None => True
  | _, _ => False
  end.
Proof.
  intros H. revert n. induction H as [|a b l l' Hab _ IH]; intros [|n]; simpl; auto.
  apply IH.
Qed.

Lemma Forall2_set_nth {A B} (R : A -> B -> Prop) l l' n a b :
  Forall2 R l l' -> nth_error l' n = Some b -> R a b -> Forall2 R (set_nth n a l) l'.
Proof.
  intros H. revert n. induction H as [|x y l l' Hxy Hl IH]; intros [|n]; simpl; intros Hn Hab;
    try discriminate.
  - inversion Hn; subst. constructor; assumption.
  - constructor; [assumption|]. apply IH; assumption.
Qed.

Lemma Forall2_weaken {A B} (R S : A -> B -> Prop) l l' :
  (forall a b, R a b -> S a b) -> Forall2 R l l' -> Forall2 S l l'.
Proof. intros H F. induction F; constructor; auto. Qed.

Lemma Forall2_snoc {A B} (R : A -> B -> Prop) l l' a b :
  Forall2 R l l' -> R a b -> Forall2 R (l ++ [a]) (l' ++ [b]).
Proof. intros H Hab. apply Forall2_app; [exact H|]. constructor; [exact Hab|constructor]. Qed.

Section Pure.
  Variables D X P V : Type.
  Variable shim : D -> X -> X * option exn.
  Variable cons : D -> X -> P -> V.
  Variable P_eqb : P -> P -> bool.
  Variable cacheable : V -> bool.
  Hypothesis P_eqb_sound : forall a b, P_eqb a b = true -> a = b.

  Variable ts : nat -> X.            (* pristine content of the caller-owned dicts *)

  Notation obj := (obj D X P V).
  Notation state := (state D X P V).
  Notation op := (op D P).
  Notation fresh := (fresh D X P V shim cons).

  (* ---- no step writes a caller-owned dict ---------------------------------------------------- *)
  Lemma read_dicts s o p : s_dicts (fst (read D X P V shim cons P_eqb cacheable s o p)) = s_dicts s.
  Proof.
    unfold read. destruct (nth_error (s_objs s) o) as [ob|]; [|reflexivity].
    destruct (assoc P V P_eqb p (o_cache ob)); [reflexivity|].
    destruct (get_shim D X P V shim s ob) as [ob1 [t'|ex]]; reflexivity.
  Qed.

  Lemma step_dicts sr x :
    s_dicts (fst (step D X P V shim cons P_eqb cacheable sr x)) = s_dicts (fst sr).
  Proof.
    destruct sr as [s rs]. destruct x as [d i|o p]; simpl; [reflexivity|].
    pose proof (read_dicts s o p) as R.
    destruct (read D X P V shim cons P_eqb cacheable s o p) as [s' r]. exact R.
  Qed.

  Lemma fold_dicts ops : forall sr,
    s_dicts (fst (fold_left (step D X P V shim cons P_eqb cacheable) ops sr)) = s_dicts (fst sr).
  Proof.
    induction ops as [|x ops IH]; intros sr; [reflexivity|].
    cbn [fold_left]. rewrite IH. apply step_dicts.
  Qed.

  (* the caller's dicts after ANY history are the pristine ones *)
  Theorem dicts_unchanged ops :
    s_dicts (final D X P V shim cons P_eqb cacheable ts ops) = ts.
  Proof. unfold final. rewrite fold_dicts. reflexivity. Qed.

  (* ---- every read equals the read on pristine copies ------------------------------------------ *)
  Definition obj_ok (ob : obj) (pd : D * nat) : Prop :=
    o_dim ob = fst pd /\ o_dict ob = snd pd /\
    (forall t', o_shim ob = Some t' -> shim (fst pd) (ts (snd pd)) = (t', None)) /\
    (forall p v, assoc P V P_eqb p (o_cache ob) = Some v -> fresh (fst pd) (ts (snd pd)) p = Ok v).

  Definition Inv (s : state) (objs : list (D * nat)) : Prop :=
    s_dicts s = ts /\ Forall2 obj_ok (s_objs s) objs.

  Lemma fresh_of_shim d i t' p : shim d (ts i) = (t', None) -> fresh d (ts i) p = Ok (cons d t' p).
  Proof. intros H. unfold History.fresh. rewrite H. reflexivity. Qed.

  (* storing the value of a read keeps the object's invariant *)
  Lemma obj_ok_cache ob pd p v :
    obj_ok ob pd -> fresh (fst pd) (ts (snd pd)) p = Ok v ->
    obj_ok (mk_obj (o_dim ob) (o_dict ob) (o_shim ob) ((p, v) :: o_cache ob)) pd.
  Proof.
    intros [A [B [C G]]] Hv. repeat split; simpl; try assumption.
    intros q w. destruct (P_eqb q p) eqn:Eq.
    - intros H. inversion H; subst. apply P_eqb_sound in Eq. subst q. exact Hv.
    - apply G.
  Qed.

  Lemma read_inv s objs o p :
    Inv s objs ->
    let sr := read D X P V shim cons P_eqb cacheable s o p in
    Inv (fst sr) objs /\
    snd sr = match nth_error objs o with
             | Some (d, i) => fresh d (ts i) p
             | None => Raise ValueErr
             end.
  Proof.
    intros [HD HO]. unfold read.
    pose proof (Forall2_nth_error _ _ _ o HO) as Hn.
    destruct (nth_error (s_objs s) o) as [ob|] eqn:Eo; destruct (nth_error objs o) as [[d i]|] eqn:Ep;
      try contradiction.
    2:{ simpl. split; [split; assumption|reflexivity]. }
    pose proof Hn as Hok. destruct Hn as [A [B [C G]]]. simpl in A, B, C, G.
    destruct (assoc P V P_eqb p (o_cache ob)) as [v|] eqn:Ec.
    - (* cached on the object *)
      simpl. split; [split; assumption|]. symmetry. exact (G p v Ec).
    - unfold get_shim. destruct (o_shim ob) as [t'|] eqn:Es.
      + (* translated before: the object's own dict *)
        pose proof (fresh_of_shim d i t' p (C t' eq_refl)) as Hf.
        rewrite A. rewrite Hf. split; [|reflexivity]. split; [exact HD|]. simpl.
        destruct (cacheable (cons d t' p)).
        * apply (Forall2_set_nth _ _ _ o _ (d, i) HO Ep).
          pose proof (obj_ok_cache ob (d, i) p (cons d t' p) Hok Hf) as K. simpl in K.
          rewrite A in K. exact K.
        * apply (Forall2_set_nth _ _ _ o _ (d, i) HO Ep). exact Hok.
      + (* first read of this object: translate the caller's (pristine) dict into a dict of its own *)
        rewrite A, B, HD. unfold History.fresh.
        destruct (shim d (ts i)) as [t' [ex|]] eqn:Esh.
        * (* the translation raises: nothing is cached, nothing changes *)
          simpl. split; [split; assumption|reflexivity].
        * assert (K0 : obj_ok (mk_obj d i (Some t') (o_cache ob)) (d, i)).
          { repeat split; simpl.
            - intros t'' H. inversion H; subst. exact Esh.
            - exact G. }
          assert (Hf : fresh d (ts i) p = Ok (cons d t' p)) by (apply fresh_of_shim; exact Esh).
          simpl. split; [|reflexivity]. split; [first [exact HD | reflexivity]|]. simpl.
          destruct (cacheable (cons d t' p)).
          -- apply (Forall2_set_nth _ _ _ o _ (d, i) HO Ep).
             exact (obj_ok_cache _ (d, i) p _ K0 Hf).
          -- apply (Forall2_set_nth _ _ _ o _ (d, i) HO Ep). exact K0.
  Qed.

  Lemma step_inv s objs rs x :
    Inv s objs ->
    let sr := step D X P V shim cons P_eqb cacheable (s, rs) x in
    let pr := pstep D X P V shim cons ts (objs, rs) x in
    Inv (fst sr) (fst pr) /\ snd sr = snd pr.
  Proof.
    intros HI. destruct x as [d i|o p]; simpl.
    - destruct HI as [HD HO]. split; [|reflexivity]. split; [exact HD|]. simpl.
      apply Forall2_snoc; [exact HO|]. repeat split; simpl; intros; discriminate.
    - pose proof (read_inv s objs o p HI) as R. cbv zeta in R.
      destruct (read D X P V shim cons P_eqb cacheable s o p) as [s' r]. simpl in R.
      destruct R as [R1 R2]. destruct (nth_error objs o) as [[d i]|]; simpl; subst r; split; auto.
  Qed.

  Lemma fold_inv ops s objs rs :
    Inv s objs ->
    snd (fold_left (step D X P V shim cons P_eqb cacheable) ops (s, rs)) =
    snd (fold_left (pstep D X P V shim cons ts) ops (objs, rs)).
  Proof.
    revert s objs rs. induction ops as [|x ops IH]; intros s objs rs HI; [reflexivity|].
    cbn [fold_left].
    pose proof (step_inv s objs rs x HI) as S. cbv zeta in S.
    destruct (step D X P V shim cons P_eqb cacheable (s, rs) x) as [s' rs'].
    destruct (pstep D X P V shim cons ts (objs, rs) x) as [objs' prs']. simpl in S.
    destruct S as [S1 S2]. subst prs'. apply IH; assumption.
  Qed.

  (* THE history theorem: every read of EVERY history equals the read on pristine copies *)
  Theorem reads_pure ops :
    run D X P V shim cons P_eqb cacheable ts ops = run_pristine D X P V shim cons ts ops.
  Proof.
    unfold run, run_pristine. apply fold_inv. split; [reflexivity | constructor].
  Qed.
End Pure.
