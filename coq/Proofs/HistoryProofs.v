(* Proofs about Model/History.v (property C18): every read of every reachable state equals
   the read on pristine copies - by induction over the list of operations - under the
   hypotheses the induction forces:
     H1  the shim does not raise on the pristine dict and its result is a fixed point of the shim
     H2  a caller-owned dict is only ever used with ONE dimension
   (H3, about responses, is in the second part). *)
From Coq Require Import ZArith List Bool Lia Arith String.
From CC Require Import Base.Ident Model.Shim Model.History.
Import ListNotations.
Local Open Scope nat_scope.

Lemma set_nth_length {A} n (a : A) l : List.length (set_nth n a l) = List.length l.
Proof. revert n. induction l as [|b t IH]; intros [|n]; simpl; auto. Qed.

Lemma nth_error_set_nth_eq {A} n (a b : A) l :
  nth_error l n = Some b -> nth_error (set_nth n a l) n = Some a.
Proof.
  revert n. induction l as [|c t IH]; intros [|n]; simpl; intros H; try discriminate; auto.
Qed.

Lemma Forall2_nth_error {A B} (R : A -> B -> Prop) l l' n :
  Forall2 R l l' ->
  match nth_error l n, nth_error l' n with
  | Some a, Some b => R a b
  | None, None => True
  | _, _ => False
  end.
Proof.
  intros H. revert n. induction H as [|a b l l' Hab _ IH]; intros [|n]; simpl; auto.
  apply IH.
Qed.

Lemma Forall2_set_nth {A B} (R : A -> B -> Prop) l l' n a b :
  Forall2 R l l' -> nth_error l' n = Some b -> R a b -> Forall2 R (set_nth n a l) l'.
Proof.
  intros H. revert n. induction H as [|x y l l' Hxy Hl IH]; intros [|n]; simpl; intros Hn Hab;
    try discriminate.
  - inversion Hn; subst. constructor; assumption.
  - constructor; [assumption|]. apply IH; assumption.
Qed.

Lemma Forall2_weaken {A B} (R S : A -> B -> Prop) l l' :
  (forall a b, R a b -> S a b) -> Forall2 R l l' -> Forall2 S l l'.
Proof. intros H F. induction F; constructor; auto. Qed.

Lemma Forall2_snoc {A B} (R : A -> B -> Prop) l l' a b :
  Forall2 R l l' -> R a b -> Forall2 R (l ++ [a]) (l' ++ [b]).
Proof. intros H Hab. apply Forall2_app; [exact H|]. constructor; [exact Hab|constructor]. Qed.

Section Pure.
  Variables D X P V : Type.
  Variable shim : D -> X -> X * option exn.
  Variable cons : D -> X -> P -> V.
  Variable P_eqb : P -> P -> bool.
  Variable cacheable : V -> bool.
  Hypothesis P_eqb_sound : forall a b, P_eqb a b = true -> a = b.

  Variable ts : nat -> X.            (* pristine content of the caller-owned dicts *)
  Variable used : nat -> Prop.       (* the dicts the history uses *)
  Variable dimof : nat -> D.         (* H2: the one dimension dict i is used with *)
  Let T1 (i : nat) : X := fst (shim (dimof i) (ts i)).
  Hypothesis H1_no_raise : forall i, used i -> snd (shim (dimof i) (ts i)) = None.
  Hypothesis H1_fixed : forall i, used i -> shim (dimof i) (T1 i) = (T1 i, None).

  Notation obj := (obj D P V).
  Notation state := (state D X P V).
  Notation op := (op D P).

  Definition op_ok (x : op) : Prop :=
    match x with
    | New d i => used i /\ d = dimof i
    | Read _ _ => True
    end.

  Definition dicts_ok (f : nat -> X) : Prop := forall i, used i -> f i = ts i \/ f i = T1 i.

  Definition obj_ok (f : nat -> X) (ob : obj) (pd : D * nat) : Prop :=
    o_dim ob = fst pd /\ o_dict ob = snd pd /\ used (snd pd) /\ fst pd = dimof (snd pd) /\
    (o_shimmed ob = true -> f (snd pd) = T1 (snd pd)) /\
    (forall p v, assoc P V P_eqb p (o_cache ob) = Some v -> v = cons (fst pd) (T1 (snd pd)) p).

  Definition Inv (s : state) (objs : list (D * nat)) : Prop :=
    dicts_ok (s_dicts s) /\ Forall2 (obj_ok (s_dicts s)) (s_objs s) objs.

  Lemma shim_any i t : used i -> t = ts i \/ t = T1 i -> shim (dimof i) t = (T1 i, None).
  Proof.
    intros U [->| ->].
    - rewrite (surjective_pairing (shim (dimof i) (ts i))). rewrite (H1_no_raise i U). reflexivity.
    - apply H1_fixed. exact U.
  Qed.

  Lemma fresh_ok i p : used i ->
    fresh D X P V shim cons (dimof i) (ts i) p = Ok (cons (dimof i) (T1 i) p).
  Proof.
    intros U. unfold fresh. rewrite (shim_any i (ts i) U (or_introl eq_refl)). reflexivity.
  Qed.

  (* changing dict i to T1 i keeps every object's invariant *)
  Lemma obj_ok_set f i ob pd :
    obj_ok f ob pd -> obj_ok (set_dict X f i (T1 i)) ob pd.
  Proof.
    intros [A [B [C [E [F G]]]]]. repeat split; try assumption.
    intros Hs. unfold set_dict. destruct (Nat.eqb_spec (snd pd) i) as [->|N]; [reflexivity|].
    apply F. exact Hs.
  Qed.

  Lemma dicts_ok_set f i : dicts_ok f -> dicts_ok (set_dict X f i (T1 i)).
  Proof.
    intros H j U. unfold set_dict. destruct (Nat.eqb_spec j i) as [->|N]; [right; reflexivity|].
    apply H. exact U.
  Qed.

  (* storing the value of a read keeps the object's invariant *)
  Lemma obj_ok_cache f ob pd p :
    obj_ok f ob pd ->
    obj_ok f (mk_obj (o_dim ob) (o_dict ob) (o_shimmed ob)
                     ((p, cons (fst pd) (T1 (snd pd)) p) :: o_cache ob)) pd.
  Proof.
    intros [A [B [C [E [F G]]]]]. repeat split; simpl; try assumption.
    intros q v. destruct (P_eqb q p) eqn:Eq.
    - intros H. inversion H; subst. apply P_eqb_sound in Eq. subst q. reflexivity.
    - apply G.
  Qed.

  Lemma read_inv s objs o p :
    Inv s objs ->
    let sr := read D X P V shim cons P_eqb cacheable s o p in
    Inv (fst sr) objs /\
    snd sr = match nth_error objs o with
             | Some (d, i) => fresh D X P V shim cons d (ts i) p
             | None => Raise ValueErr
             end.
  Proof.
    intros [HD HO]. unfold read.
    pose proof (Forall2_nth_error _ _ _ o HO) as Hn.
    destruct (nth_error (s_objs s) o) as [ob|] eqn:Eo; destruct (nth_error objs o) as [[d i]|] eqn:Ep;
      try contradiction.
    2:{ simpl. split; [split; assumption|reflexivity]. }
    pose proof Hn as Hok. destruct Hn as [A [B [C [E [F G]]]]]. simpl in A, B, C, E, F, G.
    assert (Efresh : fresh D X P V shim cons d (ts i) p = Ok (cons d (T1 i) p)).
    { rewrite E. apply fresh_ok. exact C. }
    rewrite Efresh.
    destruct (assoc P V P_eqb p (o_cache ob)) as [v|] eqn:Ec.
    - simpl. split; [split; assumption|]. rewrite (G p v Ec). reflexivity.
    - unfold do_shim. destruct (o_shimmed ob) eqn:Es.
      + (* already shimmed: the dict is T1 i *)
        simpl. rewrite A, B. rewrite (F eq_refl).
        split; [|reflexivity]. split; [exact HD|]. simpl.
        destruct (cacheable (cons d (T1 i) p)).
        * apply (Forall2_set_nth _ _ _ o _ (d, i) HO Ep).
          pose proof (obj_ok_cache (s_dicts s) ob (d, i) p Hok) as K. simpl in K.
          rewrite A, B in K. rewrite ?Es in K. rewrite ?Es. exact K.
        * apply (Forall2_set_nth _ _ _ o _ (d, i) HO Ep). exact Hok.
      + (* first read of this object: shim the current content of the caller's dict *)
        rewrite E in A, Ep, G |- *. rewrite A, B. rewrite (shim_any i (s_dicts s i) C (HD i C)). simpl.
        assert (K0 : obj_ok (set_dict X (s_dicts s) i (T1 i))
                       (mk_obj (dimof i) i true (o_cache ob)) (dimof i, i)).
        { repeat split; simpl; try assumption; try congruence; try exact G.
          intros _. unfold set_dict. rewrite Nat.eqb_refl. reflexivity. }
        assert (HO1 : Forall2 (obj_ok (set_dict X (s_dicts s) i (T1 i)))
                        (set_nth o (mk_obj (dimof i) i true (o_cache ob)) (s_objs s)) objs).
        { apply (Forall2_set_nth _ _ _ o _ (dimof i, i)); [|exact Ep|exact K0].
          eapply Forall2_weaken; [|exact HO]. intros a b. apply obj_ok_set. }
        assert (Ev : set_dict X (s_dicts s) i (T1 i) i = T1 i).
        { unfold set_dict. rewrite Nat.eqb_refl. reflexivity. }
        rewrite Ev. split; [|reflexivity].
        split; [apply dicts_ok_set; exact HD|]. simpl.
        destruct (cacheable (cons (dimof i) (T1 i) p)).
        * apply (Forall2_set_nth _ _ _ o _ (dimof i, i) HO1 Ep).
          pose proof (obj_ok_cache _ _ (dimof i, i) p K0) as K. simpl in K. exact K.
        * apply (Forall2_set_nth _ _ _ o _ (dimof i, i) HO1 Ep). exact K0.
  Qed.

  Lemma step_inv s objs rs x :
    op_ok x -> Inv s objs ->
    let sr := step D X P V shim cons P_eqb cacheable (s, rs) x in
    let pr := pstep D X P V shim cons ts (objs, rs) x in
    Inv (fst sr) (fst pr) /\ snd sr = snd pr.
  Proof.
    intros Hx HI. destruct x as [d i|o p]; simpl.
    - destruct Hx as [U Ed]. destruct HI as [HD HO]. split; [|reflexivity]. split; [exact HD|]. simpl.
      apply Forall2_snoc; [exact HO|]. repeat split; simpl; try assumption; try discriminate.
    - pose proof (read_inv s objs o p HI) as R. cbv zeta in R.
      destruct (read D X P V shim cons P_eqb cacheable s o p) as [s' r]. simpl in R.
      destruct R as [R1 R2]. destruct (nth_error objs o) as [[d i]|]; simpl; subst r; split; auto.
  Qed.

  Lemma fold_inv ops s objs rs :
    Forall op_ok ops -> Inv s objs ->
    snd (fold_left (step D X P V shim cons P_eqb cacheable) ops (s, rs)) =
    snd (fold_left (pstep D X P V shim cons ts) ops (objs, rs)).
  Proof.
    revert s objs rs. induction ops as [|x ops IH]; intros s objs rs HF HI; [reflexivity|].
    inversion HF as [|? ? Hx HF']; subst. cbn [fold_left].
    pose proof (step_inv s objs rs x Hx HI) as S. cbv zeta in S.
    destruct (step D X P V shim cons P_eqb cacheable (s, rs) x) as [s' rs'].
    destruct (pstep D X P V shim cons ts (objs, rs) x) as [objs' prs']. simpl in S.
    destruct S as [S1 S2]. subst prs'. apply IH; assumption.
  Qed.

  (* THE history theorem: every read of every history equals the read on pristine copies *)
  Theorem reads_pure ops :
    Forall op_ok ops ->
    run D X P V shim cons P_eqb cacheable ts ops = run_pristine D X P V shim cons ts ops.
  Proof.
    intros HF. unfold run, run_pristine. apply fold_inv; [exact HF|].
    split; [intros i U; left; reflexivity | constructor].
  Qed.
End Pure.
