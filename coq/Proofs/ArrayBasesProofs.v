(* Proofs/ArrayBasesProofs.v -- C02 for cubes with a CATEGORICAL ARRAY: row / column / table
   bases, the margins that exist, the public 2-D fall-backs, count <= base.

   Reading of the property for an array (Spec/SurveyArray.v): a respondent "belongs" to the
   cell (item i, category c) when he gave category c on item i ([in_arr]); he is ELIGIBLE on
   item i when he gave it a non-missing category ([ok_arr]) -- per item, never "any item".
   Across the items of an array nothing can be added up, so
     - in the direction that runs over the ITEMS the base of a cell is the cell itself: the
       respondents of the opposing element who are valid on THAT item and gave that category
       are exactly the counted ones (the code's "bases are equal to counts");
     - in the direction that runs over the array's CATEGORIES (array alone / under a table
       variable) the base is "valid on that item";
     - in the direction that runs over another variable X it is X's eligibility ([ok_el]);
     - the table base is the base of the non-item direction; a 1-D margin exists only in that
       direction and only when it runs over categories, the scalar table base never. *)
From Coq Require Import QArith ZArith List Bool Lia Arith Btauto Setoid Morphisms.
From CC Require Import Base.XQ Base.ListX Spec.Survey Spec.SurveyArray Model.CubeCounts
     Proofs.CubeCountsProofs Proofs.CubeCountsBases Proofs.ArrayCountsProofs.
Import ListNotations.
Local Close Scope Q_scope.
Local Open Scope nat_scope.

(* ------------------------------------------------------------------------------------ *)
(** * The code's degenerate definitions (any tensor) *)

(* rows = array: the column base of a cell is its count, the table base its row base *)
Lemma arr_rows_column_base_is_count V nr sr cc i j :
  column_bases_of V nr sr CArr cc i j = counts_of V CArr cc i j.
Proof. destruct cc; reflexivity. Qed.
Lemma arr_rows_table_base_is_row_base V nr nc sr sc cc i j :
  table_bases_of V nr nc sr sc CArr cc i j = row_bases_of V nc sc CArr cc i j.
Proof. destruct cc; reflexivity. Qed.
(* columns = array: the row base of a cell is its count, the table base its column base *)
Lemma arr_cols_row_base_is_count V nc sc rc i j :
  row_bases_of V nc sc rc CArr i j = counts_of V rc CArr i j.
Proof. destruct rc; reflexivity. Qed.
Lemma arr_cols_table_base_is_column_base V nr nc sr sc rc i j :
  table_bases_of V nr nc sr sc rc CArr i j = column_bases_of V nr sr rc CArr i j.
Proof. destruct rc; reflexivity. Qed.

(* which margins exist when a dimension is an array *)
Lemma arr_margins_defined V nr nc sr sc :
  (* Arr x Cat: the rows margin (= rows table base) only *)
  (rows_base_of V nc CArr CCat = Some (ac_rows_base V nc) /\
   rows_table_base_of V nr nc sr CArr CCat = Some (ac_rows_base V nc) /\
   columns_base_of V nr CArr CCat = None /\ columns_table_base_of V nr nc sc CArr CCat = None /\
   table_base_of V nr nc CArr CCat = None) /\
  (* Cat x Arr: the columns margin (= columns table base) only *)
  (columns_base_of V nr CCat CArr = Some (ca_columns_base V nr) /\
   columns_table_base_of V nr nc sc CCat CArr = Some (ca_columns_base V nr) /\
   rows_base_of V nc CCat CArr = None /\ rows_table_base_of V nr nc sr CCat CArr = None /\
   table_base_of V nr nc CCat CArr = None) /\
  (* Arr x Mr, Mr x Arr, Arr x Arr: none *)
  (forall rc cc, (rc, cc) = (CArr, CMr) \/ (rc, cc) = (CMr, CArr) \/ (rc, cc) = (CArr, CArr) ->
     rows_base_of V nc rc cc = None /\ columns_base_of V nr rc cc = None /\
     rows_table_base_of V nr nc sr rc cc = None /\ columns_table_base_of V nr nc sc rc cc = None /\
     table_base_of V nr nc rc cc = None).
Proof.
  repeat split; try reflexivity;
    destruct H as [H | [H | H]]; inversion H; reflexivity.
Qed.

(* ------------------------------------------------------------------------------------ *)
(** * The public API: which value cubepart.py hands out when a dimension is an array *)

Theorem arr_public_margins ds data k so si :
  slice_counts ds data k = Some so -> slice_info_of ds = Some si ->
  let rc := cls_of (si_row si) in
  let cc := cls_of (si_col si) in
  so_table_base so = table_base_of (slice_tensor ds data si k) (nvalid (si_row si)) (nvalid (si_col si)) rc cc /\
  (cc <> CCat -> public_rows_margin so = PMatrix (so_row_bases so)) /\
  (rc <> CCat -> public_columns_margin so = PMatrix (so_column_bases so)) /\
  (rc <> CCat -> cc <> CCat -> public_table_base so = PMatrix (so_table_bases so)) /\
  (rc = CArr -> cc = CCat ->
     exists vct, so_rows_base so = Some vct /\ public_rows_margin so = PVector vct /\
                 public_table_base so = PVector vct) /\
  (rc = CCat -> cc = CArr ->
     exists vct, so_columns_base so = Some vct /\ public_columns_margin so = PVector vct /\
                 public_table_base so = PVector vct).
Proof.
  intros Hso Hsi. unfold slice_counts in Hso. rewrite Hsi in Hso. inversion Hso; subst so; clear Hso.
  cbv zeta. unfold public_rows_margin, public_columns_margin, public_table_base. simpl.
  destruct (cls_of (si_row si)), (cls_of (si_col si)); simpl;
    repeat split; try congruence; try (intros; congruence); try reflexivity;
    intros; eexists; repeat split; reflexivity.
Qed.

(* ------------------------------------------------------------------------------------ *)
(** * Group A: the array alone or under a table variable *)

Section GroupA.
  Variable S : survey.
  Variable l : ca_layout.
  Variables v w : nat.
  Variable kw : kind.
  Variables mi mc mw : list bool.
  Variable k : nat.
  Hypothesis Hw : cat_or_mr kw.
  Hypothesis Hk : k < lay_nt l mi mc mw.
  Let V := ca_slice l v mi mc w kw mw S k.

  (* ARR x CAT (rows = items i, columns = categories c) *)
  Theorem arr_rows_bases sr sc i c : rows_items l -> i < nval mi -> c < nval mc ->
    (* row base: respondents of the partition valid on item i *)
    row_bases_of V (nval mc) sc CArr CCat i c =x=
      Fin (wsum S (fun r => lay_pop l kw mw (ans r w) k && ok_arr mi mc (ans r v) i)) /\
    (* column base: those who gave category c on item i (all valid on item i) *)
    column_bases_of V (nval mi) sr CArr CCat i c =x=
      Fin (wsum S (fun r => lay_pop l kw mw (ans r w) k && in_arr mi mc (ans r v) i c)) /\
    (* table base: valid on item i *)
    table_bases_of V (nval mi) (nval mc) sr sc CArr CCat i c =x=
      Fin (wsum S (fun r => lay_pop l kw mw (ans r w) k && ok_arr mi mc (ans r v) i)).
  Proof.
    intros Hl Hi Hc. repeat split.
    - exact (rowsA_rows_base S l v w kw mi mc mw k Hw Hk i Hl Hi).
    - exact (rowsA_counts S l v w kw mi mc mw k Hw Hk i c Hl Hi Hc).
    - exact (rowsA_rows_base S l v w kw mi mc mw k Hw Hk i Hl Hi).
  Qed.

  (* CAT x ARR (rows = categories c, columns = items i) *)
  Theorem arr_cols_bases sr sc c i : cols_items l -> c < nval mc -> i < nval mi ->
    row_bases_of V (nval mi) sc CCat CArr c i =x=
      Fin (wsum S (fun r => lay_pop l kw mw (ans r w) k && in_arr mi mc (ans r v) i c)) /\
    column_bases_of V (nval mc) sr CCat CArr c i =x=
      Fin (wsum S (fun r => lay_pop l kw mw (ans r w) k && ok_arr mi mc (ans r v) i)) /\
    table_bases_of V (nval mc) (nval mi) sr sc CCat CArr c i =x=
      Fin (wsum S (fun r => lay_pop l kw mw (ans r w) k && ok_arr mi mc (ans r v) i)).
  Proof.
    intros Hl Hc Hi. repeat split.
    - exact (colsA_counts S l v w kw mi mc mw k Hw Hk c i Hl Hi Hc).
    - exact (colsA_columns_base S l v w kw mi mc mw k Hw Hk i Hl Hi).
    - exact (colsA_columns_base S l v w kw mi mc mw k Hw Hk i Hl Hi).
  Qed.

  (* the margin that exists: one number per item = valid on that item *)
  Theorem arr_rows_margin sr sc i : rows_items l -> i < nval mi ->
    exists f, rows_base_of V (nval mc) CArr CCat = Some f /\
      rows_table_base_of V (nval mi) (nval mc) sr CArr CCat = Some f /\
      f i =x= Fin (wsum S (fun r => lay_pop l kw mw (ans r w) k && ok_arr mi mc (ans r v) i)) /\
      columns_base_of V (nval mi) CArr CCat = None /\
      columns_table_base_of V (nval mi) (nval mc) sc CArr CCat = None /\
      table_base_of V (nval mi) (nval mc) CArr CCat = None.
  Proof.
    intros Hl Hi. eexists. split; [reflexivity|]. split; [reflexivity|]. split; [|repeat split].
    exact (rowsA_rows_base S l v w kw mi mc mw k Hw Hk i Hl Hi).
  Qed.

  Theorem arr_cols_margin sr sc i : cols_items l -> i < nval mi ->
    exists f, columns_base_of V (nval mc) CCat CArr = Some f /\
      columns_table_base_of V (nval mc) (nval mi) sc CCat CArr = Some f /\
      f i =x= Fin (wsum S (fun r => lay_pop l kw mw (ans r w) k && ok_arr mi mc (ans r v) i)) /\
      rows_base_of V (nval mi) CCat CArr = None /\
      rows_table_base_of V (nval mc) (nval mi) sr CCat CArr = None /\
      table_base_of V (nval mc) (nval mi) CCat CArr = None.
  Proof.
    intros Hl Hi. eexists. split; [reflexivity|]. split; [reflexivity|]. split; [|repeat split].
    exact (colsA_columns_base S l v w kw mi mc mw k Hw Hk i Hl Hi).
  Qed.
End GroupA.

(* ------------------------------------------------------------------------------------ *)
(** * Group B: the array's categories are the table dimension *)

Section GroupB.
  Variable S : survey.
  Variables v w : nat.
  Variable kw : kind.
  Variables mi mc mw : list bool.
  Variable k : nat.
  Hypothesis Hw : cat_or_mr kw.
  Hypothesis Hk : k < nval mc.

  (* C S X: ARR x CAT / ARR x MR, table of category k, rows = items i, columns = X element j *)
  Theorem csx_bases i j : i < nval mi -> j < nval mw ->
    let V := ca_slice L_CSX v mi mc w kw mw S k in
    (* row base: gave category k on item i, eligible for j (MR: not missing on THAT item) *)
    row_bases_of V (nval mw) (length mrv) CArr (kcls kw) i j =x=
      Fin (wsum S (fun r => in_arr mi mc (ans r v) i k && ok_el kw mw (ans r w) j)) /\
    (* column base: members of j who gave category k on item i *)
    column_bases_of V (nval mi) (length mrv) CArr (kcls kw) i j =x=
      Fin (wsum S (fun r => in_arr mi mc (ans r v) i k && in_el kw mw (ans r w) j)) /\
    table_bases_of V (nval mi) (nval mw) (length mrv) (length mrv) CArr (kcls kw) i j =x=
      Fin (wsum S (fun r => in_arr mi mc (ans r v) i k && ok_el kw mw (ans r w) j)).
  Proof.
    intros Hi Hj V. repeat split.
    - exact (csx_row_bases S v w kw mi mc mw k Hw Hk i j Hi Hj).
    - rewrite arr_rows_column_base_is_count. exact (csx_counts S v w kw mi mc mw k Hw Hk i j Hi Hj).
    - rewrite arr_rows_table_base_is_row_base. exact (csx_row_bases S v w kw mi mc mw k Hw Hk i j Hi Hj).
  Qed.

  (* C X S: CAT x ARR / MR x ARR, table of category k, rows = X element i, columns = items j *)
  Theorem cxs_bases i j : i < nval mw -> j < nval mi ->
    let V := ca_slice L_CXS v mi mc w kw mw S k in
    row_bases_of V (nval mi) (length mrv) (kcls kw) CArr i j =x=
      Fin (wsum S (fun r => in_arr mi mc (ans r v) j k && in_el kw mw (ans r w) i)) /\
    column_bases_of V (nval mw) (length mrv) (kcls kw) CArr i j =x=
      Fin (wsum S (fun r => in_arr mi mc (ans r v) j k && ok_el kw mw (ans r w) i)) /\
    table_bases_of V (nval mw) (nval mi) (length mrv) (length mrv) (kcls kw) CArr i j =x=
      Fin (wsum S (fun r => in_arr mi mc (ans r v) j k && ok_el kw mw (ans r w) i)).
  Proof.
    intros Hi Hj V. repeat split.
    - rewrite arr_cols_row_base_is_count. exact (cxs_counts S v w kw mi mc mw k Hw Hk i j Hi Hj).
    - exact (cxs_column_bases S v w kw mi mc mw k Hw Hk i j Hi Hj).
    - rewrite arr_cols_table_base_is_column_base.
      exact (cxs_column_bases S v w kw mi mc mw k Hw Hk i j Hi Hj).
  Qed.
End GroupB.

(* margins: X categorical -> one number per item (X an MR -> none: the 2-D fall-backs) *)
Theorem csx_margin S v w mi mc mw k i : k < nval mc -> i < nval mi ->
  let V := ca_slice L_CSX v mi mc w KCat mw S k in
  exists f, rows_base_of V (nval mw) CArr CCat = Some f /\
    rows_table_base_of V (nval mi) (nval mw) (length mrv) CArr CCat = Some f /\
    f i =x= Fin (wsum S (fun r => in_arr mi mc (ans r v) i k && ok_cat mw (ans r w))).
Proof.
  intros Hk Hi V. eexists. split; [reflexivity|]. split; [reflexivity|].
  exact (csx_cat_rows_base S v w KCat mi mc mw k (or_introl eq_refl) Hk i eq_refl Hi).
Qed.

Theorem cxs_margin S v w mi mc mw k j : k < nval mc -> j < nval mi ->
  let V := ca_slice L_CXS v mi mc w KCat mw S k in
  exists f, columns_base_of V (nval mw) CCat CArr = Some f /\
    columns_table_base_of V (nval mw) (nval mi) (length mrv) CCat CArr = Some f /\
    f j =x= Fin (wsum S (fun r => in_arr mi mc (ans r v) j k && ok_cat mw (ans r w))).
Proof.
  intros Hk Hj V. eexists. split; [reflexivity|]. split; [reflexivity|].
  exact (cxs_cat_columns_base S v w KCat mi mc mw k (or_introl eq_refl) Hk j eq_refl Hj).
Qed.


(* ------------------------------------------------------------------------------------ *)
(** * count <= base *)

Lemma in_el_ok_el kw mw a j : in_el kw mw a j = true -> ok_el kw mw a j = true.
Proof.
  destruct kw; simpl; try discriminate.
  - unfold in_cat, ok_cat. intros H. apply andb_true_iff in H. destruct H as [Hj H].
    apply Nat.ltb_lt in Hj. destruct (acat a) as [c|]; [|discriminate]. simpl in H.
    apply Nat.eqb_eq in H. subst c. apply ok_catb_In. eexists. split; [reflexivity|].
    apply nth_In. exact Hj.
  - unfold in_mr, ok_mr. destruct (mstate a (nth j (valid_idxs mw) 0)); congruence.
Qed.

Lemma xle_of_wsum S (x b : xq) (P Q : resp -> bool) :
  wf_survey S -> x =x= Fin (wsum S P) -> b =x= Fin (wsum S Q) ->
  (forall r, P r = true -> Q r = true) ->
  exists c q, x =x= Fin c /\ b =x= Fin q /\ (c <= q)%Q.
Proof.
  intros Hwf Hx Hb H. exists (wsum S P), (wsum S Q). repeat split; try assumption.
  apply wsum_mono; [exact Hwf| intros r _; apply H].
Qed.

(* array alone / under a table variable: the cell never exceeds "valid on that item" *)
Theorem arr_rows_count_le_bases S l v w kw mi mc mw k sr sc i c :
  wf_survey S -> cat_or_mr kw -> k < lay_nt l mi mc mw -> rows_items l -> i < nval mi -> c < nval mc ->
  let V := ca_slice l v mi mc w kw mw S k in
  exists n rb cb tb,
    counts_of V CArr CCat i c =x= Fin n /\
    row_bases_of V (nval mc) sc CArr CCat i c =x= Fin rb /\
    column_bases_of V (nval mi) sr CArr CCat i c =x= Fin cb /\
    table_bases_of V (nval mi) (nval mc) sr sc CArr CCat i c =x= Fin tb /\
    (n <= rb)%Q /\ (n <= cb)%Q /\ (n <= tb)%Q.
Proof.
  intros Hwf Hw Hk Hl Hi Hc V.
  pose proof (arr_rows_counts S l v w kw mi mc mw k Hw Hk i c Hl Hi Hc) as Cn.
  destruct (arr_rows_bases S l v w kw mi mc mw k Hw Hk sr sc i c Hl Hi Hc) as [Rb [Cb Tb]].
  assert (M : (wsum S (fun r => lay_pop l kw mw (ans r w) k && in_arr mi mc (ans r v) i c)
               <= wsum S (fun r => lay_pop l kw mw (ans r w) k && ok_arr mi mc (ans r v) i))%Q).
  { apply wsum_mono; [exact Hwf|]. intros r _ H. apply andb_true_iff in H. destruct H as [H1 H2].
    rewrite H1, (in_arr_ok _ _ _ _ _ H2). reflexivity. }
  do 4 eexists. split; [exact Cn|]. split; [exact Rb|]. split; [exact Cb|]. split; [exact Tb|].
  split; [exact M|]. split; [apply Qle_refl| exact M].
Qed.

Theorem arr_cols_count_le_bases S l v w kw mi mc mw k sr sc c i :
  wf_survey S -> cat_or_mr kw -> k < lay_nt l mi mc mw -> cols_items l -> c < nval mc -> i < nval mi ->
  let V := ca_slice l v mi mc w kw mw S k in
  exists n rb cb tb,
    counts_of V CCat CArr c i =x= Fin n /\
    row_bases_of V (nval mi) sc CCat CArr c i =x= Fin rb /\
    column_bases_of V (nval mc) sr CCat CArr c i =x= Fin cb /\
    table_bases_of V (nval mc) (nval mi) sr sc CCat CArr c i =x= Fin tb /\
    (n <= rb)%Q /\ (n <= cb)%Q /\ (n <= tb)%Q.
Proof.
  intros Hwf Hw Hk Hl Hc Hi V.
  pose proof (arr_cols_counts S l v w kw mi mc mw k Hw Hk c i Hl Hc Hi) as Cn.
  destruct (arr_cols_bases S l v w kw mi mc mw k Hw Hk sr sc c i Hl Hc Hi) as [Rb [Cb Tb]].
  assert (M : (wsum S (fun r => lay_pop l kw mw (ans r w) k && in_arr mi mc (ans r v) i c)
               <= wsum S (fun r => lay_pop l kw mw (ans r w) k && ok_arr mi mc (ans r v) i))%Q).
  { apply wsum_mono; [exact Hwf|]. intros r _ H. apply andb_true_iff in H. destruct H as [H1 H2].
    rewrite H1, (in_arr_ok _ _ _ _ _ H2). reflexivity. }
  do 4 eexists. split; [exact Cn|]. split; [exact Rb|]. split; [exact Cb|]. split; [exact Tb|].
  split; [apply Qle_refl|]. split; exact M.
Qed.

(* table of category k: the cell never exceeds "gave k on the item, eligible for X's element" *)
Theorem csx_count_le_bases S v w kw mi mc mw k i j :
  wf_survey S -> cat_or_mr kw -> k < nval mc -> i < nval mi -> j < nval mw ->
  let V := ca_slice L_CSX v mi mc w kw mw S k in
  exists n rb cb tb,
    counts_of V CArr (kcls kw) i j =x= Fin n /\
    row_bases_of V (nval mw) (length mrv) CArr (kcls kw) i j =x= Fin rb /\
    column_bases_of V (nval mi) (length mrv) CArr (kcls kw) i j =x= Fin cb /\
    table_bases_of V (nval mi) (nval mw) (length mrv) (length mrv) CArr (kcls kw) i j =x= Fin tb /\
    (n <= rb)%Q /\ (n <= cb)%Q /\ (n <= tb)%Q.
Proof.
  intros Hwf Hw Hk Hi Hj V.
  pose proof (csx_counts S v w kw mi mc mw k Hw Hk i j Hi Hj) as Cn.
  destruct (csx_bases S v w kw mi mc mw k Hw Hk i j Hi Hj) as [Rb [Cb Tb]].
  assert (M : (wsum S (fun r => in_arr mi mc (ans r v) i k && in_el kw mw (ans r w) j)
               <= wsum S (fun r => in_arr mi mc (ans r v) i k && ok_el kw mw (ans r w) j))%Q).
  { apply wsum_mono; [exact Hwf|]. intros r _ H. apply andb_true_iff in H. destruct H as [H1 H2].
    rewrite H1, (in_el_ok_el _ _ _ _ H2). reflexivity. }
  do 4 eexists. split; [exact Cn|]. split; [exact Rb|]. split; [exact Cb|]. split; [exact Tb|].
  split; [exact M|]. split; [apply Qle_refl| exact M].
Qed.

Theorem cxs_count_le_bases S v w kw mi mc mw k i j :
  wf_survey S -> cat_or_mr kw -> k < nval mc -> i < nval mw -> j < nval mi ->
  let V := ca_slice L_CXS v mi mc w kw mw S k in
  exists n rb cb tb,
    counts_of V (kcls kw) CArr i j =x= Fin n /\
    row_bases_of V (nval mi) (length mrv) (kcls kw) CArr i j =x= Fin rb /\
    column_bases_of V (nval mw) (length mrv) (kcls kw) CArr i j =x= Fin cb /\
    table_bases_of V (nval mw) (nval mi) (length mrv) (length mrv) (kcls kw) CArr i j =x= Fin tb /\
    (n <= rb)%Q /\ (n <= cb)%Q /\ (n <= tb)%Q.
Proof.
  intros Hwf Hw Hk Hi Hj V.
  pose proof (cxs_counts S v w kw mi mc mw k Hw Hk i j Hi Hj) as Cn.
  destruct (cxs_bases S v w kw mi mc mw k Hw Hk i j Hi Hj) as [Rb [Cb Tb]].
  assert (M : (wsum S (fun r => in_arr mi mc (ans r v) j k && in_el kw mw (ans r w) i)
               <= wsum S (fun r => in_arr mi mc (ans r v) j k && ok_el kw mw (ans r w) i))%Q).
  { apply wsum_mono; [exact Hwf|]. intros r _ H. apply andb_true_iff in H. destruct H as [H1 H2].
    rewrite H1, (in_el_ok_el _ _ _ _ H2). reflexivity. }
  do 4 eexists. split; [exact Cn|]. split; [exact Rb|]. split; [exact Cb|]. split; [exact Tb|].
  split; [apply Qle_refl|]. split; exact M.
Qed.

(* the unweighted twins: the same theorems on [unit_weights S], where a weighted sum is the
   NUMBER of respondents; the cell predicates of this file do not look at the weight *)
Lemma arr_preds_ignore_weight l kw mi mc mw v w k i c j r x :
  (fun r => lay_pop l kw mw (ans r w) k && in_arr mi mc (ans r v) i c) (mkResp (answers r) x)
  = (lay_pop l kw mw (ans r w) k && in_arr mi mc (ans r v) i c) /\
  (fun r => lay_pop l kw mw (ans r w) k && ok_arr mi mc (ans r v) i) (mkResp (answers r) x)
  = (lay_pop l kw mw (ans r w) k && ok_arr mi mc (ans r v) i) /\
  (fun r => in_arr mi mc (ans r v) i c && ok_el kw mw (ans r w) j) (mkResp (answers r) x)
  = (in_arr mi mc (ans r v) i c && ok_el kw mw (ans r w) j) /\
  (fun r => in_arr mi mc (ans r v) i c && in_el kw mw (ans r w) j) (mkResp (answers r) x)
  = (in_arr mi mc (ans r v) i c && in_el kw mw (ans r w) j).
Proof. repeat split. Qed.

Theorem arr_rows_bases_headcount S l v w kw mi mc mw k sr sc i c :
  cat_or_mr kw -> k < lay_nt l mi mc mw -> rows_items l -> i < nval mi -> c < nval mc ->
  let V := ca_slice l v mi mc w kw mw (unit_weights S) k in
  row_bases_of V (nval mc) sc CArr CCat i c =x=
    Fin (inject_Z (Z.of_nat (length (filter
          (fun r => lay_pop l kw mw (ans r w) k && ok_arr mi mc (ans r v) i) S)))) /\
  column_bases_of V (nval mi) sr CArr CCat i c =x=
    Fin (inject_Z (Z.of_nat (length (filter
          (fun r => lay_pop l kw mw (ans r w) k && in_arr mi mc (ans r v) i c) S)))) /\
  table_bases_of V (nval mi) (nval mc) sr sc CArr CCat i c =x=
    Fin (inject_Z (Z.of_nat (length (filter
          (fun r => lay_pop l kw mw (ans r w) k && ok_arr mi mc (ans r v) i) S)))).
Proof.
  intros Hw Hk Hl Hi Hc V.
  destruct (arr_rows_bases (unit_weights S) l v w kw mi mc mw k Hw Hk sr sc i c Hl Hi Hc) as [Rb [Cb Tb]].
  repeat split; (apply headcount_of; [assumption| intros r x; reflexivity]).
Qed.

Theorem csx_bases_headcount S v w kw mi mc mw k i j :
  cat_or_mr kw -> k < nval mc -> i < nval mi -> j < nval mw ->
  let V := ca_slice L_CSX v mi mc w kw mw (unit_weights S) k in
  row_bases_of V (nval mw) (length mrv) CArr (kcls kw) i j =x=
    Fin (inject_Z (Z.of_nat (length (filter
          (fun r => in_arr mi mc (ans r v) i k && ok_el kw mw (ans r w) j) S)))) /\
  column_bases_of V (nval mi) (length mrv) CArr (kcls kw) i j =x=
    Fin (inject_Z (Z.of_nat (length (filter
          (fun r => in_arr mi mc (ans r v) i k && in_el kw mw (ans r w) j) S)))) /\
  table_bases_of V (nval mi) (nval mw) (length mrv) (length mrv) CArr (kcls kw) i j =x=
    Fin (inject_Z (Z.of_nat (length (filter
          (fun r => in_arr mi mc (ans r v) i k && ok_el kw mw (ans r w) j) S)))).
Proof.
  intros Hw Hk Hi Hj V.
  destruct (csx_bases (unit_weights S) v w kw mi mc mw k Hw Hk i j Hi Hj) as [Rb [Cb Tb]].
  repeat split; (apply headcount_of; [assumption| intros r x; reflexivity]).
Qed.

(* ------------------------------------------------------------------------------------ *)
(** * Group C: partition = item k; the bases of the Cat / MR class pairs *)

Theorem scx_bases S v w kw mi mc mw k c j :
  cat_or_mr kw -> k < nval mi -> c < nval mc -> j < nval mw ->
  let V := ca_slice L_SCX v mi mc w kw mw S k in
  row_bases_of V (nval mw) (length mrv) CCat (kcls kw) c j =x=
    Fin (wsum S (fun r => in_arr mi mc (ans r v) k c && ok_el kw mw (ans r w) j)) /\
  column_bases_of V (nval mc) (length mrv) CCat (kcls kw) c j =x=
    Fin (wsum S (fun r => ok_arr mi mc (ans r v) k && in_el kw mw (ans r w) j)) /\
  table_bases_of V (nval mc) (nval mw) (length mrv) (length mrv) CCat (kcls kw) c j =x=
    Fin (wsum S (fun r => ok_arr mi mc (ans r v) k && ok_el kw mw (ans r w) j)).
Proof.
  intros Hw Hk Hc Hj V. repeat split.
  - exact (scx_row_bases S v w kw mi mc mw k Hw Hk c j Hc Hj).
  - exact (scx_column_bases S v w kw mi mc mw k Hw Hk c j Hc Hj).
  - exact (scx_table_bases S v w kw mi mc mw k Hw Hk c j Hc Hj).
Qed.

Theorem sxc_bases S v w kw mi mc mw k j c :
  cat_or_mr kw -> k < nval mi -> j < nval mw -> c < nval mc ->
  let V := ca_slice L_SXC v mi mc w kw mw S k in
  row_bases_of V (nval mc) (length mrv) (kcls kw) CCat j c =x=
    Fin (wsum S (fun r => in_el kw mw (ans r w) j && ok_arr mi mc (ans r v) k)) /\
  column_bases_of V (nval mw) (length mrv) (kcls kw) CCat j c =x=
    Fin (wsum S (fun r => ok_el kw mw (ans r w) j && in_arr mi mc (ans r v) k c)) /\
  table_bases_of V (nval mw) (nval mc) (length mrv) (length mrv) (kcls kw) CCat j c =x=
    Fin (wsum S (fun r => ok_el kw mw (ans r w) j && ok_arr mi mc (ans r v) k)).
Proof.
  intros Hw Hk Hj Hc V. repeat split.
  - exact (sxc_row_bases S v w kw mi mc mw k Hw Hk j c Hj Hc).
  - exact (sxc_column_bases S v w kw mi mc mw k Hw Hk j c Hj Hc).
  - exact (sxc_table_bases S v w kw mi mc mw k Hw Hk j c Hj Hc).
Qed.

(* the margins of the item's table: everything Proofs/CubeCountsBases.v proves for the 2-D
   cube of a categorical variable, transported along [ca_slice_item_is_cat_cube_*] *)
Lemma columns_base_of_ext V1 V2 nr rc cc :
  (forall idx, V1 idx = V2 idx) ->
  match columns_base_of V1 nr rc cc, columns_base_of V2 nr rc cc with
  | Some f, Some g => forall j, f j = g j
  | None, None => True
  | _, _ => False
  end.
Proof.
  intros H. destruct rc, cc; simpl; trivial; intros j;
    unfold cc_columns_base, cm_columns_base, ca_columns_base; apply xsumn_eq; intros; apply H.
Qed.

Lemma rows_base_of_ext V1 V2 nc rc cc :
  (forall idx, V1 idx = V2 idx) ->
  match rows_base_of V1 nc rc cc, rows_base_of V2 nc rc cc with
  | Some f, Some g => forall i, f i = g i
  | None, None => True
  | _, _ => False
  end.
Proof.
  intros H. destruct rc, cc; simpl; trivial; intros j;
    unfold cc_rows_base, mc_rows_base, ac_rows_base; apply xsumn_eq; intros; apply H.
Qed.

Lemma table_base_of_ext V1 V2 nr nc rc cc :
  (forall idx, V1 idx = V2 idx) ->
  match table_base_of V1 nr nc rc cc, table_base_of V2 nr nc rc cc with
  | Some x, Some y => x = y
  | None, None => True
  | _, _ => False
  end.
Proof.
  intros H. destruct rc, cc; simpl; trivial.
  unfold cc_table_base. apply xsumn_eq; intros; apply xsumn_eq; intros; apply H.
Qed.

(* S C X: the columns margin always exists (rows are categories): per X element j the
   respondents valid on item k who belong to j *)
Theorem scx_columns_margin S v w kw mi mc mw k j :
  cat_or_mr kw -> k < nval mi -> j < nval mw ->
  exists f, columns_base_of (ca_slice L_SCX v mi mc w kw mw S k) (nval mc) CCat (kcls kw) = Some f /\
    f j =x= Fin (wsum S (fun r => ok_arr mi mc (ans r v) k && in_el kw mw (ans r w) j)).
Proof.
  intros Hw Hk Hj.
  destruct (columns_base_spec (explode_survey v (nth k (valid_idxs mi) 0) S) None 0 (Datatypes.S w)
              mc mw 0 I Nat.lt_0_1 kw j Hw Hj) as [g [Eg Hg]].
  pose proof (columns_base_of_ext _ _ (nval mc) CCat (kcls kw)
                (fun idx => ca_slice_item_is_cat_cube_scx S v mi mc w kw mw k idx Hw)) as X.
  rewrite Eg in X.
  destruct (columns_base_of (ca_slice L_SCX v mi mc w kw mw S k) (nval mc) CCat (kcls kw)) as [f|];
    [|contradiction].
  exists f. split; [reflexivity|]. rewrite (X j). eapply xeq_trans; [exact Hg|].
  rewrite wsum_explode. simpl. apply wsum_ext. intros r _.
  rewrite ans_explode_0, ans_explode_S, (ok_arr_item mi mc (ans r v) k Hk). reflexivity.
Qed.

(* S X C: the rows margin always exists (columns are categories) *)
Theorem sxc_rows_margin S v w kw mi mc mw k j :
  cat_or_mr kw -> k < nval mi -> j < nval mw ->
  exists f, rows_base_of (ca_slice L_SXC v mi mc w kw mw S k) (nval mc) (kcls kw) CCat = Some f /\
    f j =x= Fin (wsum S (fun r => in_el kw mw (ans r w) j && ok_arr mi mc (ans r v) k)).
Proof.
  intros Hw Hk Hj.
  destruct (rows_base_spec (explode_survey v (nth k (valid_idxs mi) 0) S) None (Datatypes.S w) 0
              mw mc 0 I Nat.lt_0_1 kw j Hw Hj) as [g [Eg Hg]].
  pose proof (rows_base_of_ext _ _ (nval mc) (kcls kw) CCat
                (fun idx => ca_slice_item_is_cat_cube_sxc S v mi mc w kw mw k idx Hw)) as X.
  rewrite Eg in X.
  destruct (rows_base_of (ca_slice L_SXC v mi mc w kw mw S k) (nval mc) (kcls kw) CCat) as [f|];
    [|contradiction].
  exists f. split; [reflexivity|]. rewrite (X j). eapply xeq_trans; [exact Hg|].
  rewrite wsum_explode. simpl. apply wsum_ext. intros r _.
  rewrite ans_explode_0, ans_explode_S, (ok_arr_item mi mc (ans r v) k Hk). reflexivity.
Qed.

(* X categorical: the scalar table base of item k's table = valid on item k and on X *)
Theorem scx_table_base_scalar S v w mi mc mw k :
  k < nval mi ->
  exists x, table_base_of (ca_slice L_SCX v mi mc w KCat mw S k) (nval mc) (nval mw) CCat CCat = Some x /\
    x =x= Fin (wsum S (fun r => ok_arr mi mc (ans r v) k && ok_cat mw (ans r w))).
Proof.
  intros Hk.
  destruct (table_base_spec (explode_survey v (nth k (valid_idxs mi) 0) S) None 0 (Datatypes.S w)
              mc mw 0 I Nat.lt_0_1) as [g [Eg Hg]].
  pose proof (table_base_of_ext _ _ (nval mc) (nval mw) CCat CCat
                (fun idx => ca_slice_item_is_cat_cube_scx S v mi mc w KCat mw k idx (or_introl eq_refl))) as X.
  rewrite Eg in X.
  destruct (table_base_of (ca_slice L_SCX v mi mc w KCat mw S k) (nval mc) (nval mw) CCat CCat) as [x|];
    [|contradiction].
  exists x. split; [reflexivity|]. rewrite X. eapply xeq_trans; [exact Hg|].
  rewrite wsum_explode. simpl. apply wsum_ext. intros r _.
  rewrite ans_explode_0, ans_explode_S, (ok_arr_item mi mc (ans r v) k Hk). reflexivity.
Qed.
