(* GenAgreeDimTypeElems: the Element objects Elements.from_typedef builds, for the dimtype translator's lemmas.
   [typedef_defs], [wf_def], [xform_of], [element_of], [elements_from], [fold_elements] are the definitions of
   Proofs/GenAgreeDimensionVisibility.v (workstream `dimension`), repeated here so that the obligations of C01 / C14 /
   C05 do not depend on the files of C07 / C09 (anchors, subtotals, collators): a member of THOSE that becomes
   unreadable must not be reported against these properties.  Element.missing and Elements.valid_elements are
   re-proved for the same reason. *)
From Coq Require Import List ZArith String Bool Lia Arith.
From CC Require Import Base.XQ Base.PyList Base.PyDict Model.DimType Model.PyDimension Model.PyDimType
  Model.DimValues Gen.DimensionSrc Proofs.GenAgreeDimensionLib Proofs.GenAgreeDimTypeLib.
From CC Require Base.Ident.
Import ListNotations.
Local Close Scope Q_scope.
Local Open Scope Z_scope.

Notation ident := Ident.ident.
Notation ident_eqb := Ident.ident_eqb.
Notation jv_of_ident := PyDict.jv_of_ident.

(* the element definitions of a type definition: "categories" of a categorical type, else "elements" *)
Definition typedef_defs (ty : jdict) : option (list jv) :=
  match jd_get ty (JStr "class") with
  | Some c =>
      match jd_get ty (JStr (if jv_eqb c (JStr "categorical") then "categories" else "elements")) with
      | Some (JList defs) => Some defs
      | _ => None
      end
  | None => None
  end.

(* an element definition: a dict whose id (the key _build_element_id picks) is the identifier i *)
Definition wf_def (t : dtype) (def : jv) (i : Ident.ident) : Prop :=
  exists e, def = JDict e /\ jd_get e (JStr (element_id_key e t)) = Some (jv_of_ident i).

(* all_xforms.get(element_id, all_xforms.get(str(element_id), {})) *)
Definition xform_of (ax : jdict) (i : Ident.ident) : jv :=
  jd_get_default ax (jv_of_ident i) (jd_get_default ax (JStr (Ident.str_of_ident i)) (JDict [])).

Definition element_of (t : dtype) (ax : jdict) (k : nat) (def : jv) (i : Ident.ident) : pyelement :=
  mkPyElement def (Z.of_nat k) (mkPyXforms (xform_of ax i)) t.

Fixpoint elements_from (t : dtype) (ax : jdict) (s : nat) (defs : list jv) (ids : list Ident.ident) : pyelements :=
  match defs, ids with
  | def :: ds, i :: is => element_of t ax s def i :: elements_from t ax (S s) ds is
  | _, _ => []
  end.

Lemma py_foldM_append {S A} (F : list S -> Z * A -> res (list S)) (g : nat -> A -> S) (l : list A) acc s :
  (forall acc k x, F acc (Z.of_nat k, x) = Ok (acc ++ [g k x])) ->
  py_foldM F (combine (map Z.of_nat (seq s (List.length l))) l) acc
  = Ok (acc ++ map (fun kx => g (fst kx) (snd kx)) (combine (seq s (List.length l)) l)).
Proof.
  intros H. revert acc s. induction l as [|x t IH]; intros acc s.
  - simpl. rewrite app_nil_r. reflexivity.
  - cbn [List.length seq map combine PyCollator.py_foldM fst snd]. rewrite H. cbn [Collator.bind].
    rewrite IH, <- app_assoc. reflexivity.
Qed.

Lemma fold_elements (F : list pyelement -> Z * jv -> res (list pyelement)) t ax defs ids :
  Forall2 (wf_def t) defs ids ->
  (forall acc k def i, wf_def t def i -> F acc (Z.of_nat k, def) = Ok (acc ++ [element_of t ax k def i])) ->
  forall s acc, py_foldM F (combine (map Z.of_nat (seq s (List.length defs))) defs) acc
                = Ok (acc ++ elements_from t ax s defs ids).
Proof.
  intros Hw HF. induction Hw as [|def i ds is Hdi _ IH]; intros s acc.
  - simpl. rewrite app_nil_r. reflexivity.
  - cbn [List.length seq map combine PyCollator.py_foldM elements_from].
    rewrite (HF acc s def i Hdi). cbn [Collator.bind]. rewrite IH, <- app_assoc. reflexivity.
Qed.


Definition el_missing (el : pyelement) : bool :=
  match el_element_dict el with JDict e => jv_truthy (jd_get_default e (JStr "missing") JNone) | _ => false end.

(*@ C01 *)
Lemma gen_dimtype_Element_missing :
  match src_Element_missing with
  | Some f => forall e idx xf t,
      f (mkPyElement (JDict e) idx xf t) = Ok (jv_truthy (jd_get_default e (JStr "missing") JNone))
  | None => True end.
Proof.
  unfold src_Element_missing.
  first [exact I | idtac].
  all: gen_open; dsimpl; rewrite pj_get_dict; reflexivity.
Qed.

(*@ C01 *)
Lemma gen_dimtype_Elements_valid_elements :
  match src_Elements_valid_elements with
  | Some f => forall els, Forall el_is_dict els -> f els = Ok (filter (fun el => negb (el_missing el)) els)
  | None => True end.
Proof.
  unfold src_Elements_valid_elements.
  first [exact I | idtac].
  all: dep gen_dimtype_Element_missing src_Element_missing.
  all: gen_open; rewrite bind_ret.
  all: apply py_compM_filter.
  all: intros el Hel; match goal with Hf : Forall _ _ |- _ => rewrite Forall_forall in Hf; destruct (Hf el Hel) as [e He] end.
  all: destruct el as [ed idx xf t]; cbn [el_element_dict] in He; subst ed.
  all: rewrite H; unfold el_missing; cbn [el_element_dict Collator.bind].
  all: destruct (jv_truthy (jd_get_default e (JStr "missing") JNone)); reflexivity.
Qed.

Lemma elements_from_dicts t ax s defs ids :
  Forall2 (wf_def t) defs ids -> Forall el_is_dict (elements_from t ax s defs ids).
Proof.
  intros H. revert s. induction H as [|def i ds is (e & -> & _) _ IH]; intros s; cbn [elements_from]; constructor.
  - exists e. reflexivity.
  - apply IH.
Qed.
