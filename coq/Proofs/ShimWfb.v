(* A boolean decision procedure for the well-formedness predicate [wf] of Proofs/ShimSpec.v,
   proved sound.  It closes the examples of Props/C19.v and lets the harness ask Coq (not a
   Python re-statement) whether a generated dimension satisfies the hypotheses of the
   spelling theorems. *)
From Coq Require Import ZArith List Bool Lia Arith String.
From CC Require Import Base.Ident Model.Shim Proofs.ShimSpec.
Import ListNotations.
Local Open Scope nat_scope.

Definition is_strb (x : ident) : bool := match x with IStr _ => true | _ => false end.
Definition is_intb (x : ident) : bool := match x with IInt _ => true | _ => false end.
Fixpoint nodupb (l : list ident) : bool :=
  match l with [] => true | a :: t => negb (py_in a t) && nodupb t end.

Definition sv_eidstr_b (d : adim) : bool :=
  let n := List.length (d_items d) in
  forallb (fun j => forallb (fun k =>
     match nth k (raw_ids d) INone with
     | IInt z => if ident_eqb (nth j (subvar_ids d) INone) (IStr (dec z)) then Nat.eqb j k else true
     | _ => true
     end) (seq 0 n)) (seq 0 n).

Definition al_sv_b (d : adim) : bool :=
  let n := List.length (d_items d) in
  forallb (fun j => forallb (fun k =>
     if ident_eqb (nth j (aliases d) INone) (nth k (subvar_ids d) INone) then Nat.eqb j k else true)
     (seq 0 n)) (seq 0 n).

Definition wfb (d : adim) : bool :=
  forallb is_intb (raw_ids d) && nodupb (raw_ids d)
  && Nat.eqb (List.length (subvar_ids d)) (List.length (d_items d))
  && forallb is_strb (subvar_ids d) && nodupb (subvar_ids d)
  && forallb is_strb (aliases d) && nodupb (aliases d)
  && forallb (fun a => match py_int a with IntValueError => true | _ => false end) (aliases d)
  && al_sv_b d
  && sv_eidstr_b d.

Lemma nodupb_sound l : nodupb l = true -> NoDup l.
Proof.
  induction l as [|a t IH]; simpl; intros H; [constructor|].
  apply andb_true_iff in H. destruct H as [H1 H2]. constructor; [|apply IH; exact H2].
  apply negb_true_iff in H1. apply py_in_false in H1. exact H1.
Qed.

Lemma forallb_Forall {A} (f : A -> bool) (P : A -> Prop) l :
  (forall a, f a = true -> P a) -> forallb f l = true -> Forall P l.
Proof.
  intros Hf H. rewrite forallb_forall in H. apply Forall_forall. intros a Ha. apply Hf, H, Ha.
Qed.

Lemma wfb_sound d : wfb d = true -> wf d.
Proof.
  unfold wfb. intros H.
  repeat (apply andb_true_iff in H; let H' := fresh "B" in destruct H as [H H']).
  constructor.
  - eapply forallb_Forall; [|exact H]. intros [z|s|]; simpl; try discriminate. intros _. exists z. reflexivity.
  - apply nodupb_sound. exact B7.
  - apply Nat.eqb_eq. exact B6.
  - eapply forallb_Forall; [|exact B5]. intros [z|s|]; simpl; try discriminate. intros _. exists s. reflexivity.
  - apply nodupb_sound. exact B4.
  - eapply forallb_Forall; [|exact B3]. intros [z|s|]; simpl; try discriminate. intros _. exists s. reflexivity.
  - apply nodupb_sound. exact B2.
  - intros a Ha. rewrite forallb_forall in B1. specialize (B1 a Ha).
    destruct (py_int a); try discriminate. reflexivity.
  - intros j k Hj Hk E. unfold al_sv_b in B0. rewrite forallb_forall in B0.
    assert (Hjs : In j (seq 0 (List.length (d_items d)))) by (apply in_seq; lia).
    specialize (B0 j Hjs). rewrite forallb_forall in B0.
    assert (Hks : In k (seq 0 (List.length (d_items d)))) by (apply in_seq; lia).
    specialize (B0 k Hks). rewrite E in B0. rewrite ident_eqb_refl in B0.
    apply Nat.eqb_eq. exact B0.
  - intros j k z Hj Hk Ez Es. unfold sv_eidstr_b in B. rewrite forallb_forall in B.
    assert (Hjs : In j (seq 0 (List.length (d_items d)))) by (apply in_seq; lia).
    specialize (B j Hjs). rewrite forallb_forall in B.
    assert (Hks : In k (seq 0 (List.length (d_items d)))) by (apply in_seq; lia).
    specialize (B k Hks). rewrite Ez, Es in B. rewrite ident_eqb_refl in B.
    apply Nat.eqb_eq. exact B.
Qed.
