(* Spec for C19 (kept under Proofs/ because it is phrased over the data types of Model/Shim.v): what it MEANS that an identifier refers to item k of an array dimension,
   stated without the cascade of src/cr/cube/dimension.py.

   The six rules of the property text, as "levels".  An identifier x sits at level r when
   rule r has something to say about it; it is resolved by the FIRST level it sits at.  *)
From Coq Require Import ZArith List Bool Lia Arith String.
From CC Require Import Base.Ident Model.Shim.
Import ListNotations.
Local Open Scope nat_scope.

(* str(id) of the elements that are NOT inserted/derived (special case of MR dimensions
   with insertions) *)
Definition nonins_strs (d : adim) : list ident :=
  map (fun it => IStr (str_of_ident (i_eid it))) (filter (fun it => negb (i_ins it)) (d_items d)).

Definition L_alias (d : adim) (x : ident) : Prop := In x (aliases d).
Definition L_eid (d : adim) (x : ident) : Prop := In x (raw_ids d).
Definition L_mrstr (d : adim) (x : ident) : Prop := d_mr_ins d = true /\ In x (nonins_strs d).
Definition L_svid (d : adim) (x : ident) : Prop := In x (subvar_ids d).
Definition L_num (d : adim) (x : ident) : Prop :=
  exists z, py_int x = IntOk z /\ In (IInt z) (raw_ids d).
Definition L_pos (d : adim) (x : ident) : Prop :=
  exists z, py_int x = IntOk z /\ (0 <= z < Z.of_nat (List.length (d_items d)))%Z.

(* k is the first position of x in l (Python's l.index(x) = k) *)
Definition first_at (l : list ident) (x : ident) (k : nat) : Prop :=
  k < List.length l /\ nth k l INone = x /\ forall j, j < k -> nth j l INone <> x.

(* x matches nothing *)
Definition stale (d : adim) (x : ident) : Prop :=
  ~ L_alias d x /\ ~ L_eid d x /\ ~ L_mrstr d x /\ ~ L_svid d x /\ ~ L_num d x /\ ~ L_pos d x.

(* ---- the shape of dimensions Crunch actually sends ---------------------------------- *)
(* distinct int element ids; every element has a sub-variable id and an alias, both strings,
   all distinct; no alias is a number or an element id string of ANY item, nor the sub-variable
   id of ANOTHER item (zz9 gives an inserted MR item its name as alias AND sub-variable id);
   a sub-variable id that reads like the element id of an item belongs to that very item *)
Definition is_str (x : ident) : Prop := exists s, x = IStr s.
Definition is_int (x : ident) : Prop := exists z, x = IInt z.

Record wf (d : adim) : Prop := mk_wf {
  wf_eid_int : Forall is_int (raw_ids d);
  wf_eid_nodup : NoDup (raw_ids d);
  wf_sv_all : List.length (subvar_ids d) = List.length (d_items d);
  wf_sv_str : Forall is_str (subvar_ids d);
  wf_sv_nodup : NoDup (subvar_ids d);
  wf_al_str : Forall is_str (aliases d);
  wf_al_nodup : NoDup (aliases d);
  wf_al_nonnum : forall a, In a (aliases d) -> py_int a = IntValueError;
  wf_al_sv : forall j k, j < List.length (d_items d) -> k < List.length (d_items d) ->
      nth j (aliases d) INone = nth k (subvar_ids d) INone -> j = k;
  wf_sv_eidstr : forall j k z, j < List.length (d_items d) -> k < List.length (d_items d) ->
      nth k (raw_ids d) INone = IInt z -> nth j (subvar_ids d) INone = IStr (dec z) -> j = k }.

(* the spellings of item k the property text lists *)
Inductive spelling (d : adim) (k : nat) : ident -> Prop :=
| sp_alias : spelling d k (nth_alias d k)
| sp_svid : spelling d k (nth k (subvar_ids d) INone)
| sp_eid : spelling d k (nth k (raw_ids d) INone)
| sp_eidstr z : nth k (raw_ids d) INone = IInt z -> spelling d k (IStr (dec z)).

(* a reference: to item k, or to nothing (None / null itself is a reference to nothing) *)
Definition ref (d : adim) (ok : option nat) (x : ident) : Prop :=
  match ok with
  | Some k => k < List.length (d_items d) /\ spelling d k x
  | None => stale d x
  end.

(* element ids and sub-variable ids are never null (JSON): under this condition the cascade is
   total and None is a fixed point of it *)
Definition ids_not_none (d : adim) : Prop := ~ In INone (raw_ids d) /\ ~ In INone (subvar_ids d).
Definition oalias (d : adim) (ok : option nat) : ident :=
  match ok with Some k => nth_alias d k | None => INone end.

(* the payload that applies to item k: the LAST entry whose key refers to item k *)
Fixpoint last_for (k : nat) (l : list (option nat * eval)) : option eval :=
  match l with
  | [] => None
  | (ok, v) :: t =>
    match last_for k t with
    | Some v' => Some v'
    | None => match ok with
              | Some j => if Nat.eqb j k then Some v else None
              | None => None
              end
    end
  end.

(* ---- datetime ------------------------------------------------------------------------ *)
(* ids are distinct ints; a value is an identifier that the lookup itself leaves alone *)
Definition dt_ids (d : dtdim) : list ident := map fst d.
Definition dt_wf (d : dtdim) : Prop :=
  NoDup (dt_ids d) /\
  forall k v, In (k, DVal v) d -> ~ In (dt_key v) (dt_ids d).
