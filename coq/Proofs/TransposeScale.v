(* Proofs/TransposeScale.v -- C10 for the scale statistics, as a TWIN statement between the two
   separately written orientations of matrix/measure.py (Model/ScaleOrient.v):

     rows_scale_X  of B x A  (ROWS orientation, numeric values of B x A's columns = A's elements)
   = columns_scale_X of A x B (COLUMNS orientation, numeric values of A x B's rows = A's elements)

   for X = mean, std-dev^2, std-err^2, median (base vectors AND subtotal vectors, all sizes, NaN /
   infinite cells, difference subtotals, undefined cases) and the two margin scalars of cubepart.py.
   Also: each orientation agrees, vector by vector, with the per-vector definitions of Model/Scale.v
   (the ones C14 ties to the code), so the new matrix-level model is not free-floating. *)
From Coq Require Import QArith ZArith List Bool Lia Arith Setoid Morphisms.
From CC Require Import Base.XQ Base.ListX Model.Subtotals Model.Proportions Model.Scale Model.ScaleOrient
  Model.Transpose Proofs.TransposeAlgebra Proofs.TransposeBlocks Proofs.ScaleCongr Proofs.ScaleOrientCongr.
Import ListNotations.
Local Close Scope Q_scope.
Local Open Scope nat_scope.

(* XT (m x n) is a transpose of X (n x m) on the cells of the block *)
Definition MTin (n m : nat) (XT X : mat) : Prop :=
  forall i j, i < n -> j < m -> mnth XT j i =x= mnth X i j.

Lemma MT_MTin n m XT X : MT XT X -> MTin n m XT X.
Proof. intros H i j _ _. apply H. Qed.

(* ================================================================================================ *)
(** * 1. block level: ROWS orientation on the transposed block = COLUMNS orientation on the block *)

Section BlockTwin.
  Variables n m : nat.          (* the block of A x B is n x m; the block of B x A is m x n *)
  Variable vals : list xq.      (* numeric values of A's elements (the n base rows of A x B) *)

  Theorem mean_block_T CT C BT B : MTin n m CT C -> MTin n m BT B ->
    vxeq (rows_mean_block m n vals CT BT) (columns_mean_block n m vals C B).
  Proof.
    intros HC HB. unfold rows_mean_block, columns_mean_block. apply vxeq_tab. intros j Hj.
    apply wmean_vxeq. unfold rows_props, columns_props.
    rewrite (mrow_tab2 m n _ j Hj), (mcol_tab2 n m _ j Hj).
    apply vxeq_tab. intros i Hi. rewrite (HC i j Hi Hj), (HB i j Hi Hj). reflexivity.
  Qed.

  Theorem var_block_T CCT CC meansT means : length vals = n -> MTin n m CCT CC -> vxeq meansT means ->
    vxeq (rows_var_block m vals CCT meansT) (columns_var_block m vals CC means).
  Proof.
    intros Hv HC Hm. unfold rows_var_block, columns_var_block. apply vxeq_tab. intros j Hj.
    apply sqrt_arg_xeq_compat. apply xdiv_Proper.
    - apply nansum_vxeq. apply vxeq_map. intros i Hi. apply valued_pos_lt in Hi. rewrite Hv in Hi.
      rewrite (HC i j Hi Hj). apply xmul_Proper; [reflexivity|]. apply xsq_xeq.
      rewrite (vxeq_vnth _ _ j Hm). reflexivity.
    - apply xsum_vxeq. apply vxeq_map. intros i Hi. apply valued_pos_lt in Hi. rewrite Hv in Hi.
      apply (HC i j Hi Hj).
  Qed.

  Theorem stderr_block_T varsT vars BT B : vxeq varsT vars ->
    (forall j, j < m -> mnth BT j 0 =x= mnth B 0 j) ->
    vxeq (rows_stderr_block m varsT BT) (columns_stderr_block m vars B).
  Proof.
    intros Hv HB. unfold rows_stderr_block, columns_stderr_block. apply vxeq_tab. intros j Hj.
    apply xdiv_Proper; [apply vxeq_vnth; exact Hv|]. apply sqrt_arg_xeq_compat. apply HB. exact Hj.
  Qed.

  (* the median is EQUAL, not merely Qeq: counts are only compared *)
  Theorem median_block_T ord CCT CC : Forall (fun i => i < n) ord -> MTin n m CCT CC ->
    rows_median_block m vals ord CCT = columns_median_block m vals ord CC.
  Proof.
    intros Ho HC. unfold rows_median_block, columns_median_block. apply tab_ext_in. intros j Hj.
    apply weighted_median_vxeq. apply vxeq_map. intros i Hi.
    rewrite Forall_forall in Ho. apply (HC i j (Ho i Hi) Hj).
  Qed.
End BlockTwin.

(* ================================================================================================ *)
(** * 2. each orientation, vector by vector, is the per-vector statistic of Model/Scale.v *)

Lemma combine_tab {A B} m (f : nat -> A) (g : nat -> B) :
  combine (tab m f) (tab m g) = tab m (fun j => (f j, g j)).
Proof.
  unfold tab. generalize (seq 0 m). induction l as [|a t IH]; simpl; [reflexivity|]. rewrite IH. reflexivity.
Qed.

Lemma list_as_tab (l : list xq) : l = tab (length l) (vnth l).
Proof.
  unfold tab, vnth. induction l as [|a t IH]; [reflexivity|]. simpl. f_equal.
  rewrite <- seq_shift, map_map. exact IH.
Qed.

Lemma pdiv_tab m (c b : list xq) : length c = m -> length b = m ->
  pdiv c b = tab m (fun j => xdiv (vnth c j) (vnth b j)).
Proof.
  intros Hc Hb. unfold pdiv.
  assert (Ec : tab m (vnth c) = c) by (rewrite <- Hc; symmetry; apply list_as_tab).
  assert (Eb : tab m (vnth b) = b) by (rewrite <- Hb; symmetry; apply list_as_tab).
  transitivity (map (fun cb : xq * xq => xdiv (fst cb) (snd cb)) (combine (tab m (vnth c)) (tab m (vnth b)))).
  - rewrite Ec, Eb. reflexivity.
  - rewrite combine_tab. unfold tab. rewrite map_map. reflexivity.
Qed.

(* a row / a column as vectors *)
Lemma mnth_mrow (X : mat) i j : mnth X i j = vnth (mrow X i) j.
Proof. reflexivity. Qed.

Lemma mnth_mcol (X : mat) i j : mnth X i j = vnth (mcol X j) i.
Proof.
  destruct (Nat.lt_ge_cases i (length X)) as [H|H].
  - symmetry. apply mcol_vnth. exact H.
  - rewrite (mnth_out_row X i j H). unfold vnth. symmetry. apply nth_overflow.
    unfold mcol. rewrite map_length. exact H.
Qed.

Lemma filter_map_comm {A B} (g : A -> B) (p : B -> bool) l :
  filter p (map g l) = map g (filter (fun a => p (g a)) l).
Proof.
  induction l as [|a t IH]; simpl; [reflexivity|]. destruct (p (g a)); simpl; rewrite IH; reflexivity.
Qed.

(* [valued_pairs] of a vector of the same length as the values, index style *)
Lemma valued_pairs_idx vals (c : list xq) : length c = length vals ->
  valued_pairs vals c = map (fun j => (vnth vals j, vnth c j)) (valued_pos vals).
Proof.
  intros H. unfold valued_pairs, valued_pos, valued_idxs.
  assert (Ev : tab (length vals) (vnth vals) = vals) by (symmetry; apply list_as_tab).
  assert (Ec : tab (length vals) (vnth c) = c) by (rewrite <- H; symmetry; apply list_as_tab).
  transitivity (filter (fun vc : xq * xq => negb (is_nan (fst vc)))
                       (combine (tab (length vals) (vnth vals)) (tab (length vals) (vnth c)))).
  - rewrite Ev, Ec. reflexivity.
  - rewrite combine_tab. unfold tab. rewrite filter_map_comm. reflexivity.
Qed.

Section VectorTie.
  Variables n m : nat.
  Variable vals : list xq.

  (* ROWS: row i of the block *)
  Theorem rows_mean_block_vec counts bases i : i < n ->
    length (mrow counts i) = m -> length (mrow bases i) = m ->
    vnth (rows_mean_block n m vals counts bases) i = scale_mean_vec (mrow counts i) (mrow bases i) vals.
  Proof.
    intros Hi Hc Hb. unfold rows_mean_block. rewrite tab_vnth by exact Hi.
    unfold scale_mean_vec, rows_props. rewrite (mrow_tab2 n m _ i Hi), (pdiv_tab m _ _ Hc Hb). reflexivity.
  Qed.

  Theorem rows_var_block_vec ccounts means i : i < n -> length (mrow ccounts i) = length vals ->
    vnth (rows_var_block n vals ccounts means) i
    = sqrt_arg (scale_var (mrow ccounts i) vals (vnth means i)).
  Proof.
    intros Hi Hc. unfold rows_var_block. rewrite tab_vnth by exact Hi.
    unfold scale_var. cbv zeta. rewrite (valued_pairs_idx vals _ Hc), !map_map. reflexivity.
  Qed.

  Theorem rows_median_block_vec ord ccounts i : i < n ->
    vnth (rows_median_block n vals ord ccounts) i = scale_median_vec ord false (mrow ccounts i) vals.
  Proof. intros Hi. unfold rows_median_block. rewrite tab_vnth by exact Hi. reflexivity. Qed.

  (* COLUMNS: column j of the block *)
  Theorem columns_mean_block_vec counts bases j : j < m -> length counts = n -> length bases = n ->
    vnth (columns_mean_block n m vals counts bases) j = scale_mean_vec (mcol counts j) (mcol bases j) vals.
  Proof.
    intros Hj Hc Hb. unfold columns_mean_block. rewrite tab_vnth by exact Hj.
    unfold scale_mean_vec, columns_props. rewrite (mcol_tab2 n m _ j Hj).
    rewrite (pdiv_tab n (mcol counts j) (mcol bases j))
      by (unfold mcol; rewrite map_length; assumption).
    f_equal. apply tab_ext_in. intros i _. rewrite !mnth_mcol. reflexivity.
  Qed.

  Theorem columns_var_block_vec ccounts means j : j < m -> length ccounts = length vals ->
    vnth (columns_var_block m vals ccounts means) j
    = sqrt_arg (scale_var (mcol ccounts j) vals (vnth means j)).
  Proof.
    intros Hj Hc. unfold columns_var_block. rewrite tab_vnth by exact Hj.
    unfold scale_var. cbv zeta.
    rewrite (valued_pairs_idx vals (mcol ccounts j)) by (unfold mcol; rewrite map_length; exact Hc).
    rewrite !map_map. f_equal. f_equal.
    - f_equal. apply map_ext. intros i. simpl. rewrite mnth_mcol. reflexivity.
    - f_equal. apply map_ext. intros i. simpl. rewrite mnth_mcol. reflexivity.
  Qed.

  Theorem columns_median_block_vec ord ccounts j : j < m ->
    vnth (columns_median_block m vals ord ccounts) j = scale_median_vec ord false (mcol ccounts j) vals.
  Proof.
    intros Hj. unfold columns_median_block. rewrite tab_vnth by exact Hj.
    unfold scale_median_vec, comparable. cbv zeta. f_equal. apply map_ext. intros i. apply mnth_mcol.
  Qed.
End VectorTie.

(* ================================================================================================ *)
(** * 3. measure level: rows_scale_X of B x A = columns_scale_X of A x B *)

(* two marginals: defined together, and then the base vectors and the subtotal vectors agree *)
Definition marginal_eq (a b : marginal) : Prop :=
  match a, b with
  | Some (u, v), Some (u', v') => vxeq u u' /\ vxeq v v'
  | None, None => True
  | _, _ => False
  end.

Section SliceTwin.
  Variables nr nc : nat.                       (* A x B is nr x nc *)
  Variables rsubs csubs : list subtotal.       (* subtotals of A (rows of A x B), of B *)
  Variables counts countsT : mat.
  Variable dn : bool.
  Variables cb cbT : mat.                      (* per-cell COLUMN bases of A x B; cbT: per-cell ROW bases of B x A *)
  Variable avals : list xq.                    (* numeric values of A's elements *)
  Variable mdef : bool.
  Hypothesis Hc : MT countsT counts.
  Hypothesis Hb : MT cbT cb.
  Hypothesis Hv : length avals = nr.

  Let nrs := length rsubs.
  Let ncs := length csubs.

  Let BC := count_blocks_T counts countsT nr nc rsubs csubs dn Hc.
  Let BB := col_base_blocks_T cb cbT nr nc rsubs csubs Hb.
  Let BCC := sum_blocks_T counts countsT nr nc rsubs csubs true false Hc.

  Lemma mean_blocks_T :
    vxeq (fst (rows_scale_mean_blocks nc nr csubs rsubs countsT dn cbT avals))
         (fst (columns_scale_mean_blocks nr nc rsubs csubs counts dn cb avals)) /\
    vxeq (snd (rows_scale_mean_blocks nc nr csubs rsubs countsT dn cbT avals))
         (snd (columns_scale_mean_blocks nr nc rsubs csubs counts dn cb avals)).
  Proof.
    unfold rows_scale_mean_blocks, columns_scale_mean_blocks. simpl. split.
    - apply mean_block_T; intros i j Hi Hj; [apply (bt_base _ _ _ _ _ _ BC)| apply (bt_base _ _ _ _ _ _ BB)]; assumption.
    - apply mean_block_T; intros i l Hi Hl; [apply (bt_cols _ _ _ _ _ _ BC)| apply (bt_cols _ _ _ _ _ _ BB)]; assumption.
  Qed.

  Lemma var_blocks_T :
    vxeq (fst (rows_scale_var_blocks nc nr csubs rsubs countsT dn cbT avals))
         (fst (columns_scale_var_blocks nr nc rsubs csubs counts dn cb avals)) /\
    vxeq (snd (rows_scale_var_blocks nc nr csubs rsubs countsT dn cbT avals))
         (snd (columns_scale_var_blocks nr nc rsubs csubs counts dn cb avals)).
  Proof.
    destruct mean_blocks_T as [M1 M2].
    unfold rows_scale_var_blocks, columns_scale_var_blocks, column_comparable_counts, row_comparable_counts.
    simpl fst. simpl snd. split.
    - apply (var_block_T nr nc avals); [exact Hv| | exact M1].
      intros i j Hi Hj. apply (bt_base _ _ _ _ _ _ BCC); assumption.
    - apply (var_block_T nr (length csubs) avals); [exact Hv| | exact M2].
      intros i l Hi Hl. apply (bt_cols _ _ _ _ _ _ BCC); assumption.
  Qed.

  Theorem rows_scale_mean_T :
    marginal_eq (rows_scale_mean nc nr csubs rsubs countsT dn cbT avals)
                (columns_scale_mean nr nc rsubs csubs counts dn cb avals).
  Proof.
    unfold rows_scale_mean, columns_scale_mean. destruct (any_value avals); [|exact I].
    destruct (rows_scale_mean_blocks nc nr csubs rsubs countsT dn cbT avals) as [u v] eqn:E1.
    destruct (columns_scale_mean_blocks nr nc rsubs csubs counts dn cb avals) as [u' v'] eqn:E2.
    pose proof mean_blocks_T as H. rewrite E1, E2 in H. exact H.
  Qed.

  Theorem rows_scale_stddev_sq_T :
    marginal_eq (rows_scale_stddev_sq nc nr csubs rsubs countsT dn cbT avals)
                (columns_scale_stddev_sq nr nc rsubs csubs counts dn cb avals).
  Proof.
    unfold rows_scale_stddev_sq, columns_scale_stddev_sq. destruct (any_value avals); [|exact I].
    destruct (rows_scale_var_blocks nc nr csubs rsubs countsT dn cbT avals) as [u v] eqn:E1.
    destruct (columns_scale_var_blocks nr nc rsubs csubs counts dn cb avals) as [u' v'] eqn:E2.
    pose proof var_blocks_T as H. rewrite E1, E2 in H. exact H.
  Qed.

  Theorem rows_scale_stderr_sq_T :
    marginal_eq (rows_scale_stderr_sq nc nr csubs rsubs countsT dn cbT avals mdef)
                (columns_scale_stderr_sq nr nc rsubs csubs counts dn cb avals mdef).
  Proof.
    unfold rows_scale_stderr_sq, columns_scale_stderr_sq.
    destruct (any_value avals && mdef); [|exact I].
    destruct var_blocks_T as [V1 V2]. split.
    - apply stderr_block_T; [exact V1|]. intros j _. cbn [b_base row_base_blocks col_base_blocks]. apply Hb.
    - apply stderr_block_T; [exact V2|]. intros l Hl.
      destruct nr as [|nr'] eqn:En.
      + cbn [b_rows b_cols row_base_blocks col_base_blocks].
        rewrite !tab2_mnth_out by (right; lia) || (left; lia). reflexivity.
      + apply (bt_cols _ _ _ _ _ _ BB); [lia| exact Hl].
  Qed.

  Theorem rows_scale_median_T ord : Forall (fun i => i < nr) ord ->
    rows_scale_median nc nr csubs rsubs countsT avals ord
    = columns_scale_median nr nc rsubs csubs counts avals ord.
  Proof.
    intros Ho. unfold rows_scale_median, columns_scale_median, column_comparable_counts, row_comparable_counts.
    destruct (any_value avals); [|reflexivity]. f_equal. f_equal.
    - apply (median_block_T nr nc avals ord); [exact Ho|].
      intros i j Hi Hj. apply (bt_base _ _ _ _ _ _ BCC); assumption.
    - apply (median_block_T nr (length csubs) avals ord); [exact Ho|].
      intros i l Hi Hl. apply (bt_cols _ _ _ _ _ _ BCC); assumption.
  Qed.
End SliceTwin.

(* ================================================================================================ *)
(** * 4. the margin scalars *)

Lemma mrow_mcol_T (xT x : mat) n : MT xT x -> length (mrow xT 0) = n -> length x = n ->
  vxeq (mrow xT 0) (mcol x 0).
Proof.
  intros H H1 H2.
  rewrite (list_as_tab (mrow xT 0)), (list_as_tab (mcol x 0)), H1.
  replace (length (mcol x 0)) with n by (unfold mcol; rewrite map_length; symmetry; exact H2).
  apply vxeq_tab. intros i _. rewrite <- mnth_mrow, <- mnth_mcol. apply H.
Qed.

(* rows_scale_mean_margin of B x A (first ROW of its per-cell column bases) = columns_scale_mean_margin
   of A x B (first COLUMN of its per-cell row bases) *)
Theorem rows_scale_mean_margin_T rb rbT avals n : MT rbT rb -> length (mrow rbT 0) = n -> length rb = n ->
  oxeq (rows_scale_mean_margin rbT avals) (columns_scale_mean_margin rb avals).
Proof.
  intros H H1 H2. unfold rows_scale_mean_margin, columns_scale_mean_margin.
  destruct (any_value avals); [|exact I]. simpl. apply scale_mean_margin_vxeq.
  apply (mrow_mcol_T rbT rb n); assumption.
Qed.

(* the expansion np.repeat(values, int(counts)) only depends on the counts up to Qeq *)
Lemma trunc_count_xeq a b : a =x= b -> trunc_count a = trunc_count b.
Proof.
  intros H. unfold trunc_count. apply nan_to_num_xeq in H. cbv zeta.
  set (p := nan_to_num a) in *. set (q := nan_to_num b) in *. f_equal.
  unfold Qeq in H.
  assert (Hp : (Z.pos (Qden p) <> 0)%Z) by discriminate.
  assert (Hq : (Z.pos (Qden q) <> 0)%Z) by discriminate.
  rewrite <- (Z.quot_mul_cancel_r (Qnum p) (Z.pos (Qden p)) (Z.pos (Qden q)) Hp Hq).
  rewrite <- (Z.quot_mul_cancel_r (Qnum q) (Z.pos (Qden q)) (Z.pos (Qden p)) Hq Hp).
  rewrite H. f_equal. apply Z.mul_comm.
Qed.

Lemma expand_valued_vxeq vals c c' : vxeq c c' -> expand_valued vals c = expand_valued vals c'.
Proof.
  intros H. unfold expand_valued, valued_pairs. revert vals.
  induction H as [|x y s t Hxy Hst IH]; intros vals.
  - destruct vals; reflexivity.
  - destruct vals as [|v vs]; [reflexivity|]. simpl.
    destruct (negb (is_nan v)); simpl; [|apply IH].
    rewrite (trunc_count_xeq x y Hxy), IH. reflexivity.
Qed.

Theorem rows_scale_median_margin_T rb rbT avals n : MT rbT rb -> length (mrow rbT 0) = n -> length rb = n ->
  rows_scale_median_margin rbT avals = columns_scale_median_margin rb avals.
Proof.
  intros H H1 H2. unfold rows_scale_median_margin, columns_scale_median_margin.
  destruct (any_value avals); [|reflexivity]. unfold scale_median_margin.
  rewrite (expand_valued_vxeq avals _ _ (mrow_mcol_T rbT rb n H H1 H2)). reflexivity.
Qed.

(* with the exact transpose of Model/Transpose.v the shape hypotheses are those of [rb] alone *)
Corollary rows_scale_margins_mtranspose nr nc rb avals : shape rb nr nc -> 0 < nc ->
  oxeq (rows_scale_mean_margin (mtranspose nr nc rb) avals) (columns_scale_mean_margin rb avals) /\
  rows_scale_median_margin (mtranspose nr nc rb) avals = columns_scale_median_margin rb avals.
Proof.
  intros S Hn. pose proof (mtranspose_MT nr nc rb S) as H.
  assert (H1 : length (mrow (mtranspose nr nc rb) 0) = nr).
  { unfold mtranspose. rewrite (mrow_tab2 nc nr _ 0 Hn). apply tab_length. }
  split; [apply (rows_scale_mean_margin_T rb _ avals nr)| apply (rows_scale_median_margin_T rb _ avals nr)];
    try assumption; exact (proj1 S).
Qed.

(* ================================================================================================ *)
(** * 5. the mirror direction: columns_scale_X of B x A = rows_scale_X of A x B *)
(* B x A's transpose is A x B: instantiate the theorems above with the roles exchanged *)
Section SliceTwinMirror.
  Variables nr nc : nat.
  Variables rsubs csubs : list subtotal.
  Variables counts countsT : mat.
  Variable dn : bool.
  Variables rb rbT : mat.                      (* per-cell ROW bases of A x B; rbT: per-cell COLUMN bases of B x A *)
  Variable bvals : list xq.                    (* numeric values of B's elements *)
  Variable mdef : bool.
  Hypothesis Hc : MT countsT counts.
  Hypothesis Hb : MT rbT rb.
  Hypothesis Hv : length bvals = nc.

  Theorem columns_scale_T :
    marginal_eq (rows_scale_mean nr nc rsubs csubs counts dn rb bvals)
                (columns_scale_mean nc nr csubs rsubs countsT dn rbT bvals) /\
    marginal_eq (rows_scale_stddev_sq nr nc rsubs csubs counts dn rb bvals)
                (columns_scale_stddev_sq nc nr csubs rsubs countsT dn rbT bvals) /\
    marginal_eq (rows_scale_stderr_sq nr nc rsubs csubs counts dn rb bvals mdef)
                (columns_scale_stderr_sq nc nr csubs rsubs countsT dn rbT bvals mdef) /\
    (forall ord, Forall (fun j => j < nc) ord ->
       rows_scale_median nr nc rsubs csubs counts bvals ord
       = columns_scale_median nc nr csubs rsubs countsT bvals ord).
  Proof.
    pose proof (MT_sym _ _ Hc) as Hc'. pose proof (MT_sym _ _ Hb) as Hb'.
    split; [|split; [|split]].
    - apply rows_scale_mean_T; assumption.
    - apply rows_scale_stddev_sq_T; assumption.
    - apply rows_scale_stderr_sq_T; assumption.
    - intros ord Ho. apply rows_scale_median_T; assumption.
  Qed.
End SliceTwinMirror.
